/* unit write_double: printing of doubles (utility/write_number.hpp): fill_exponent, prettify_string, dump_buffer, dump_formatted,
 * dtoa_scientific / dtoa_general / dtoa_fixed, write_double::operator() */
#include "vx_common.h"
#include "spec_num.h"
#include <stdlib.h>

/* ---- ghost output monitor: every character pushed into the sink is fed to the RFC 8259 number DFA (S-NUM) and, for the
 * value claim of prettify_string, decomposed into  <leading zeros> <buffer digits> <trailing zeros> [ . ] [ e [+-] digits ] ---------------- */
static int vx_st;                 /* S-NUM state of everything emitted since the start of the number (NUM_MINUS = nothing but an optional sign yet) */
static size_t vx_out_n;           /* characters emitted */
static bool vx_bad;               /* a character was emitted that the decomposition does not allow */
static bool vx_dot, vx_e;         /* a '.' / an 'e' has been emitted */
static long long vx_frac;         /* digits emitted after the '.' (before any 'e') */
static long long vx_lead0, vx_trail0; /* literal zeros emitted before the first / after the last buffer digit */
static long long vx_nbuf;         /* buffer digits emitted so far (they must come in order: digit i is the (i+1)-th) */
static bool vx_eneg, vx_E_sat; static long long vx_E; static int vx_edigits; /* exponent sign, magnitude, digit count */
static const char* vx_pbuf; static int vx_plen;   /* the digit buffer of prettify_string */

static void vx_count_digit(void) { if (vx_e) { } else if (vx_dot) vx_frac++; }
static void vx_out(char c)
{
    vx_st = spec_num_step(vx_st, (unsigned char)c);
    vx_out_n++;
    if (c == '.') { if (vx_dot || vx_e) vx_bad = true; vx_dot = true; }
    else if (c == 'e') { if (vx_e) vx_bad = true; vx_e = true; }
    else if (c == '-' || c == '+') { if (!vx_e || vx_edigits != 0) vx_bad = true; else vx_eneg = (c == '-'); }
    else if (c >= '0' && c <= '9') {
        if (vx_e) { if (vx_edigits < 3) vx_E = vx_E * 10 + (c - '0'); else vx_E_sat = true; /* a 4th exponent digit: value no longer tracked */ if (vx_edigits < 100) vx_edigits++; }
        else {
            vx_count_digit();
            if (c != '0') vx_bad = true;            /* a literal digit other than 0 is never written by prettify_string */
            else if (vx_nbuf == 0) vx_lead0++;
            else if (vx_nbuf == vx_plen) vx_trail0++;
            else vx_bad = true;
        }
    } else vx_bad = true;
    __CPROVER_assert(vx_st != NUM_ERR, "[C08][C01][C04] every character written keeps the text a prefix of an RFC 8259 number");
}
/* result.push_back(buffer[i]) */
static void vx_out_buf(const char* buffer, int i)
{
    __CPROVER_assert(buffer == vx_pbuf && i >= 0 && i < vx_plen, "[C05] prettify_string reads the digit buffer only inside [0, length)");
    __CPROVER_assert((long long)i == vx_nbuf, "[C04][C01] the buffer digits are written in order, each exactly once");
    char c = buffer[i];
    vx_st = spec_num_step(vx_st, (unsigned char)c);
    vx_out_n++;
    if (vx_e) vx_bad = true;
    vx_count_digit();
    if (vx_trail0 != 0) vx_bad = true;
    vx_nbuf++;
    __CPROVER_assert(vx_st != NUM_ERR, "[C08][C01][C04] every character written keeps the text a prefix of an RFC 8259 number");
}
#define VX_SIGNED_E() (vx_eneg ? -vx_E : vx_E)
/* the emitted text denotes  buffer * 10^k  exactly:  digits = 0..0 buffer 0..0,  value = buffer * 10^(trail0 - frac + E) */
#define VX_RANGE(x) ((x) >= 0 && (x) <= (1LL << 40))
#define VX_DENOTES(k) (!vx_bad && !vx_E_sat && VX_RANGE(vx_trail0) && VX_RANGE(vx_frac) && VX_RANGE(vx_E) && vx_nbuf == vx_plen && vx_trail0 - vx_frac + VX_SIGNED_E() == (long long)(k))
#define VX_COMPLETE_FLOAT() ((vx_st == NUM_FRAC2 || vx_st == NUM_EXP3) && (vx_dot || vx_e))

static bool vx_digits_ok(const char* b, int n)
{
    /* n <= 18: loop-free */
    bool ok = n >= 1 && n <= 18 && b[0] >= '1' && b[0] <= '9';
#define VX_D(i) if (n > i) ok = ok && b[i] >= '0' && b[i] <= '9';
    VX_D(1) VX_D(2) VX_D(3) VX_D(4) VX_D(5) VX_D(6) VX_D(7) VX_D(8) VX_D(9) VX_D(10) VX_D(11) VX_D(12) VX_D(13) VX_D(14) VX_D(15) VX_D(16) VX_D(17)
#undef VX_D
    return ok;
}

/* ---- from_integer(int K, result) as used by fill_exponent for |K| >= 1000 (instantiation Integer = int of the function proved in unit integers
 * for 64 bit); extracted here too so that the exponent text is checked end to end */
/*@FUNC from_integer_int@*/
/*@FUNC fill_exponent@*/
/*@FUNC prettify_string@*/

/* ---- dump_buffer: input monitor (the printf text, with the locale's decimal point) and output monitor in lockstep ------------------- */
static char* vx_db_ptr; static size_t vx_db_cap;   /* ghost: the object starting at vx_db_ptr has vx_db_cap readable bytes (set by whoever owns the buffer) */
static int vx_in_st; static bool vx_mark;          /* S-NUM state of the input read so far (decimal point mapped to '.'); output has '.' or 'e' */
static char vx_dp;
static unsigned vx_db_calls; static size_t vx_db_len; static const char* vx_db_arg;
static void vx_in_step(char c) { int cc = (unsigned char)c; if (c == vx_dp) cc = '.'; else if (c == '.') cc = 0; vx_in_st = spec_num_step(vx_in_st, cc); }
static void vx_db_out(char c)
{
    vx_st = spec_num_step(vx_st, (unsigned char)c); vx_out_n++;
    if (c == '.' || c == 'e') vx_mark = true;
}
/*@FUNC dump_buffer@*/

/* ---- libc / libstdc++ models ------------------------------------------------------------------------------------------------------- */
static char* vx_sn_dst; static size_t vx_sn_size; static int vx_sn_ret; static unsigned vx_sn_calls; static char vx_sn_conv; static int vx_sn_prec;
/* snprintf(buf, size, "%1.*<c>", precision, val), ISO C 7.21.6.5: writes at most size bytes, returns the length the complete text needs
 * or a negative value.  Bound on that length for a double (ISO C 7.21.6.1 p8, binary64): e: sign d . p digits e+ddd;  g: <= P + 7;
 * f: sign, at most 309 integer digits, '.', p digits. */
/* ghost for the round-trip claim (C04): vx_val is the value being printed; vx_sn_exact says that the complete text of the last snprintf call parses
 * back to exactly vx_val.  It is unknown in general, except that 17 significant decimal digits always identify a binary64 (Matula 1968;
 * assumes correctly rounded printf and parsing, listed as an assumption).  The number of significant digits follows from the conversion:
 * %.Pe has P+1, %.Pg has P, %.Pf has P + 1 + floor(log10|val|) (P digits after the point, the first significant one at position -floor(log10|val|)). */
static bool vx_signbit(double v) { union { double d; uint64_t u; } x; x.d = v; return (x.u >> 63) != 0; }
static double vx_val; static bool vx_sn_exact;
static int vx_fl10_val;      /* floor(log10(|vx_val|)) as computed by libm (not under contract): fixed but arbitrary, sign consistent with |vx_val| < 1 */
static int vx_fl10(double a) { __CPROVER_assert(a == __CPROVER_fabs(vx_val) && a > 0, "[C04] floor(log10(.)) is taken of |val|, val non-zero"); return vx_fl10_val; }
static bool vx_sig17(char conv, int precision, double val)
{
    long long p = precision < 0 ? 6 : precision;
    if (conv == 'e') return p + 1 >= 17;
    if (conv == 'g') return (p == 0 ? 1 : p) >= 17;
    return p + 1 + (long long)vx_fl10_val >= 17;
}
static int vx_snprintf(char* buf, size_t size, const char* fmt, int precision, double val)
{
    __CPROVER_assert(__CPROVER_w_ok(buf, size), "[C05] snprintf is given a destination of at least size bytes");
    __CPROVER_assert(fmt[0] == '%' && fmt[1] == '1' && fmt[2] == '.' && fmt[3] == '*' && (fmt[4] == 'e' || fmt[4] == 'f' || fmt[4] == 'g') && fmt[5] == 0, "[C05] snprintf format is %1.*e / %1.*f / %1.*g");
    int r = nondet_int();
    long long p = precision < 0 ? 6 : precision;
    long long maxlen = fmt[4] == 'f' ? p + 311 : (p == 0 ? 1 : p) + 8;
    __CPROVER_assume(r >= -1 && (long long)r <= maxlen);
    /* %f of the value under study: sign, integer digits (floor(log10|val|)+1, at least one), '.', p digits (ISO C 7.21.6.1 p8) */
    if (fmt[4] == 'f' && val == vx_val && val != 0 && r >= 0)
        __CPROVER_assume((long long)r == (vx_signbit(val) ? 1 : 0) + (vx_fl10_val >= 0 ? (long long)vx_fl10_val + 1 : 1) + (p > 0 ? 1 + p : 0));
    vx_sn_dst = buf; vx_sn_size = size; vx_sn_ret = r; vx_sn_calls++; vx_sn_conv = fmt[4]; vx_sn_prec = precision;
    vx_sn_exact = nondet_bool();
    __CPROVER_assume((val == vx_val && vx_sig17(fmt[4], precision, val)) ==> vx_sn_exact);
    return r;
}
enum { VX_ERRC_ok = 0, VX_ERRC_invalid_argument = 22, VX_ERRC_result_out_of_range = 34 };
struct to_number_result { const char* ptr; int ec; };
/*@FUNC decstr_decl@*/
/* grisu3(u, buffer, &length, &k): digit generation is not under contract (DESIGN 7 C04); assumed: on success 1..18 decimal digits without leading
 * zero, NUL-terminated, and a decimal exponent in the range of binary64 */
static unsigned vx_grisu_calls; static bool vx_grisu_ok; static int vx_grisu_k; static bool vx_neg_written;
static void vx_neg_out(void) { __CPROVER_assert(vx_out_n == 0 && !vx_neg_written, "[C08] a minus sign is written only first"); vx_neg_written = true; }
static bool vx_grisu3(double u, char* buffer, int* length, int* K)
{
    __CPROVER_assert(!vx_signbit(u) && u != 0, "[C04] grisu3 is called with a positive value");
    __CPROVER_assert(__CPROVER_w_ok(buffer, 19), "[C05] grisu3 is given a buffer of at least 19 bytes");
    vx_grisu_calls++;
    vx_grisu_ok = nondet_bool();
    if (vx_grisu_ok) {
        int n = nondet_int(); __CPROVER_assume(n >= 1 && n <= 18);
        int k = nondet_int(); __CPROVER_assume(k >= -400 && k <= 400);
        __CPROVER_assume(vx_digits_ok(buffer, n));
        *length = n; *K = k; vx_grisu_k = k;
    }
    return vx_grisu_ok;
}
#define VX_OWN(buf, cap) do { vx_db_ptr = (buf); vx_db_cap = (cap); } while (0)
#define VX_VECTOR_CHAR(name, n) size_t name##_size = (n); char* name##_data = malloc(name##_size); __CPROVER_assume(name##_data != 0); VX_OWN(name##_data, name##_size)

/*@FUNC dump_formatted@*/
/*@FUNC dtoa_scientific@*/
/*@FUNC dtoa_general_false@*/
/*@FUNC dtoa_fixed_false@*/
/*@FUNC dtoa_general_true@*/
/*@FUNC dtoa_fixed_true@*/
/*@FUNC dtoa_fixed@*/
/*@FUNC dtoa_general@*/
/*@ENUM float_chars_format@*/
struct write_double { uint8_t float_format_; int precision_; char decimal_point_; };
/*@FUNC write_double_call@*/

#ifdef VX_CBMC
static double vx_any_finite(void)
{
    double v; __CPROVER_assume(!__CPROVER_isnand(v) && !__CPROVER_isinfd(v));
    vx_val = v; vx_fl10_val = nondet_int();
    __CPROVER_assume(vx_fl10_val >= -330 && vx_fl10_val <= 310 && ((__CPROVER_fabs(v) < 1.0) == (vx_fl10_val < 0)));
    return v;
}
static void reset_out(void)
{
    vx_st = NUM_MINUS; vx_out_n = 0; vx_bad = false; vx_dot = false; vx_e = false; vx_frac = 0; vx_lead0 = 0; vx_trail0 = 0; vx_nbuf = 0;
    vx_eneg = false; vx_E_sat = false; vx_E = 0; vx_edigits = 0; vx_mark = false; vx_in_st = NUM_MINUS; vx_db_calls = 0; vx_sn_calls = 0; vx_grisu_calls = 0; vx_thrown = 0; vx_neg_written = false; vx_sn_exact = false;
}
void h_from_integer_int(void) { reset_out(); vx_st = NUM_EXP2; vx_e = true; int K = nondet_int(); from_integer_int(K); }
void h_fill_exponent(void) { reset_out(); vx_st = NUM_EXP1; vx_e = true; int K = nondet_int(); fill_exponent(K); }
void h_prettify(void)
{
    static char buf[19];
    reset_out();
    int length = nondet_int(), k = nondet_int(), min_exp = nondet_int(), max_exp = nondet_int();
    vx_pbuf = buf; vx_plen = length;
    prettify_string(buf, length, k, min_exp, max_exp);
}
void h_dump_buffer(void)
{
    reset_out();
    size_t cap = nondet_size(), length = nondet_size();
#ifdef VX_SMALL
    __CPROVER_assume(cap <= 12);
#endif
    __CPROVER_assume(cap <= 100000000);
    char* b = malloc(cap ? cap : 1); __CPROVER_assume(b != 0);
    VX_OWN(b, cap);
    vx_dp = (char)nondet_u8();
    dump_buffer(b, length, vx_dp);
}
void h_dump_formatted(void)
{
    reset_out();
    int precision = nondet_int(); double val = vx_any_finite(); char dp = (char)nondet_u8();
    const char* fmt = nondet_bool() ? "%1.*e" : nondet_bool() ? "%1.*f" : "%1.*g";
    dump_formatted(fmt, precision, val, dp);
}
void h_dtoa_scientific(void) { reset_out(); double val = vx_any_finite(); dtoa_scientific(val, (char)nondet_u8()); }
void h_dtoa_general_false(void) { reset_out(); double val = vx_any_finite(); dtoa_general_false(val, (char)nondet_u8()); }
void h_dtoa_fixed_false(void) { reset_out(); double val = vx_any_finite(); dtoa_fixed_false(val, (char)nondet_u8()); }
void h_dtoa_general_true(void) { reset_out(); double val = vx_any_finite(); dtoa_general_true(val, (char)nondet_u8()); }
void h_dtoa_fixed_true(void) { reset_out(); double val = vx_any_finite(); dtoa_fixed_true(val, (char)nondet_u8()); }
void h_dtoa_fixed(void) { reset_out(); double val = vx_any_finite(); dtoa_fixed(val, (char)nondet_u8()); }
void h_dtoa_general(void) { reset_out(); double val = vx_any_finite(); dtoa_general(val, (char)nondet_u8()); }
void h_write_double(void)
{
    reset_out();
    struct write_double w; w.float_format_ = nondet_u8(); w.precision_ = nondet_int(); w.decimal_point_ = (char)nondet_u8();
    double val = vx_any_finite();
    write_double_call(&w, val);
}
#endif
