# unit cbor_typed_array (C06, C07, C08): RFC 8746 typed-array tags - the encoder's 18 tag writers and the typed branch of its 11 visit_typed_array overloads,
# and the decoder's two tag-field helpers, all against one transcription of the RFC 8746 section 2.1 tag layout (0b010_f_s_e_ll)
from core import FuncSpec, CopySpec, EnumSpec, Harness
E = 'include/jsoncons_ext/cbor/cbor_encoder.hpp'
P = 'include/jsoncons_ext/cbor/cbor_parser.hpp'
D = 'include/jsoncons_ext/cbor/cbor_detail.hpp'
# C type in the source -> (name, is float, is signed, log2 of the element size within its class (RFC 8746 ll), element size)
T = {'uint8_t': ('u8', 0, 0, 0, 1), 'uint16_t': ('u16', 0, 0, 1, 2), 'uint32_t': ('u32', 0, 0, 2, 4), 'uint64_t': ('u64', 0, 0, 3, 8), 'int8_t': ('i8', 0, 1, 0, 1), 'int16_t': ('i16', 0, 1, 1, 2), 'int32_t': ('i32', 0, 1, 2, 4), 'int64_t': ('i64', 0, 1, 3, 8),
     'half_arg_t': ('f16', 1, 0, 0, 2), 'float': ('f32', 1, 0, 1, 4), 'double': ('f64', 1, 0, 2, 8)}
TAGW = []
for ty in ('uint16_t', 'uint32_t', 'uint64_t', 'int16_t', 'int32_t', 'int64_t', 'half_arg_t', 'float', 'double'):
    nm, f, s, ll, sz = T[ty]
    for big in (1, 0):
        TAGW.append(FuncSpec('wtat_%s_%s' % ('be' if big else 'le', nm), E, r'void write_typed_array_tag\(std::%s_type,\s*%s,\s*semantic_tag\)' % ('true' if big else 'false', ty), count=1,
                             csig='static void wtat_%s_%s(void)' % ('be' if big else 'le', nm),
                             contract=[('requires', 'vx_tags == 0'), ('assigns', 'vx_tags, vx_tag_val'),
                                       ('ensures', '[C06][C08] RFC 8746 2.1: the tag of a %s-endian array of %s is 64 + (f << 4 | s << 3 | e << 2 | ll)' % ('big' if big else 'little', ty),
                                        'vx_tags == 1 && vx_tag_val == spec_ta_tag(%d, %d, %d, %d)' % (f, s, 0 if big else 1, ll))],
                             rules=[(r'write_tag\(', 'vx_write_tag(', 1)]))
VISITS = []
for ty in ('uint8_t', 'uint16_t', 'uint32_t', 'uint64_t', 'int8_t', 'int16_t', 'int32_t', 'int64_t', 'half_arg_t', 'float', 'double'):
    nm, f, s, ll, sz = T[ty]
    elem = 'uint16_t' if ty == 'half_arg_t' else ty
    anchor = (r'visit_typed_array\(half_arg_t, const jsoncons::span<const uint16_t>& data,' if ty == 'half_arg_t' else r'visit_typed_array\(const jsoncons::span<const %s>& data,' % ty)
    want = '(tag == semantic_tag_clamped ? 68 : 64)' if ty == 'uint8_t' else 'spec_ta_tag(%d, %d, %d, %d)' % (f, s, 0 if sz == 1 else 1, ll)   # 8-bit elements have no byte order: e = 0 (76 is reserved)
    VISITS.append(FuncSpec('visit_typed_array_' + nm, E, anchor, count=1, csig='void visit_typed_array_%s(size_t data_size, uint8_t tag)' % nm, slice_to=r'(?:else\s*\{\s*)?this->begin_array\(data\.size\(\)', 
                           contract=[('requires', 'vx_tags == 0 && vx_bs == 0 && vx_items == 0 && use_typed_arrays_ && data_size <= SIZE_MAX / 16'), ('assigns', 'vx_tags, vx_tag_val, vx_bs, vx_bs_len, vx_bs_after_tag, vx_items'),
                                     ('ensures', '[C06][C08] with use_typed_arrays an array of %s is one item: the RFC 8746 tag for this element type in the byte order of the machine (little endian here%s), then one byte string holding the elements as they lie in memory, %d byte(s) each' % (ty, '; 68 for a clamped uint8 array' if ty == 'uint8_t' else '', sz),
                                      'vx_tags == 1 && vx_tag_val == %s && vx_bs == 1 && vx_bs_after_tag && vx_bs_len == data_size * %d && vx_items == 1' % (want, sz))],
                           rules=[(r'write_typed_array_tag\(std::integral_constant<bool, jsoncons::endian::native == jsoncons::endian::big>\(\),\s*(?:%s\(\)|half_arg),\s*tag\);' % ty, 'wtat_le_%s();' % nm, 0, 1),
                                  (r'write_tag\(', 'vx_write_tag(', 0, 2), (r'semantic_tag::(\w+)', r'semantic_tag_\1', 0, 2),
                                  (r'jsoncons::span<const uint8_t> s\(\(const uint8_t\*\)\(data\.data\(\)\), data\.size\(\)\s*\*\s*sizeof\((\w+)\)\);\s*write_byte_string\(byte_string_view\(s\)\);', r'vx_write_byte_string(data_size * sizeof(\1));', 0, 1),
                                  (r'write_byte_string\(byte_string_view\(data\)\);', 'vx_write_byte_string(data_size);', 0, 1),
                                  (r'end_value\(\);', 'vx_end_value();', 1), (r'JSONCONS_VISITOR_RETURN;', 'return;', 1)]))
SPECS = [
    EnumSpec('semantic_tag', 'include/jsoncons/semantic_tag.hpp'),
    CopySpec('tag_fields', D, r'JSONCONS_INLINE_CONSTEXPR uint8_t cbor_array_tags_010_mask', r'cbor_array_tags_ll_shift = 0;', include_end=True, rules=[(r'JSONCONS_INLINE_CONSTEXPR uint8_t (\w+) = ([^;]+);', r'enum { \1 = \2 };', 10)]),
    FuncSpec('get_typed_array_endianness', P, r'static jsoncons::endian get_typed_array_endianness\(const uint8_t tag\)', count=1, csig='static int get_typed_array_endianness(const uint8_t tag)',
             contract=[('assigns', ''), ('ensures', '[C07][C06] RFC 8746 2.1: bit e of the tag (0x04) is 0 for big endian and 1 for little endian', '__CPROVER_return_value == (spec_ta_e(tag) ? endian_little : endian_big)')],
             rules=[(r'detail::', '', 2), (r'jsoncons::endian::(\w+)', r'endian_\1', 2)]),
    FuncSpec('get_typed_array_bytes_per_element', P, r'static std::size_t get_typed_array_bytes_per_element\(const uint8_t tag\)', count=1, csig='static size_t get_typed_array_bytes_per_element(const uint8_t tag)',
             contract=[('assigns', ''), ('ensures', '[C07][C06] RFC 8746 2.1: an element takes 2^(f + ll) bytes', '__CPROVER_return_value == spec_ta_elem_size(tag)')],
             rules=[(r'detail::', '', 4), (r'std::size_t\(1\)', '(size_t)(1)', 1)]),
]
GROUPS = {'tag_writers': TAGW, 'visits': VISITS}
HARNESSES = ([Harness(f.name, 'h_' + f.name, enforce=f.name, method='LF', props=['C06', 'C08']) for f in TAGW] +
             [Harness(f.name, 'h_' + f.name, enforce=f.name, method='LF', props=['C06', 'C08'], note='the branch taken when use_typed_arrays is on; the other branch (a plain array of numbers) is dropped by the slice; '
                      'std::integral_constant<bool, native == big> selects the little-endian tag writer on this machine (overload resolution done by the extraction rule)') for f in VISITS] +
             [Harness('get_typed_array_endianness', 'h_endianness', enforce='get_typed_array_endianness', method='LF', props=['C07', 'C06']),
              Harness('get_typed_array_bytes_per_element', 'h_bytes_per_element', enforce='get_typed_array_bytes_per_element', method='LF', props=['C07', 'C06']),
              Harness('lemma_tags_agree', 'h_tags_agree', dfcc=False, method='LF', props=['C06'], note='for every tag an encoder overload writes, the decoder helpers recover byte order and element size of that overload')])
