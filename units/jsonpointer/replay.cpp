// replay for unit jsonpointer: runs the real jsonpointer::get/contains/add/add_if_absent/replace/remove (and parse/to_string) on the counterexample
// token (when the trace has one) and on a corpus of perturbed reference tokens, and compares with RFC 6901 (sections 3, 4) evaluated independently
#include <jsoncons/json.hpp>
#include <jsoncons_ext/jsonpointer/jsonpointer.hpp>
#include "replay_util.hpp"
using namespace jsoncons;
static int bad = 0;
static bool is_index(const std::string& t) { if (t.empty()) return false; for (char c : t) if (c < '0' || c > '9') return false; return t.size() == 1 || t[0] != '0'; }
static bool value_of(const std::string& t, unsigned long long& v) { if (t.size() > 19) return false; v = std::stoull(t); return true; }
#define CHECK(c, msg) do { if (!(c)) { std::cout << "token '" << tok << "' size " << n << ": " << msg << "\n"; ++bad; } } while (0)
static void one(const std::string& tok, size_t n)
{
    json arr(json_array_arg); for (size_t i = 0; i < n; ++i) arr.push_back(json(json_object_arg, {{"x", (uint64_t)i}}));
    json doc(json_object_arg); doc["a"] = arr;
    std::string p = "/a/" + tok;
    for (char c : tok) if (c == '/' || c == '~') return;   // tokens with pointer syntax are not array-index perturbations
    unsigned long long v = 0; bool idx = is_index(tok) && value_of(tok, v);
    std::error_code ec;
    // get / contains
    json d1 = doc; const json& r = jsonpointer::get(d1, p, ec);
    if (idx && v < n) CHECK(!ec && r == arr[v], "get: expected element " << v); else CHECK((bool)ec, "get: expected an error, got " << r.to_string().substr(0, 40));
    CHECK(jsonpointer::contains(doc, p) == (idx && v < n), "contains disagrees with RFC 6901");
    // a non-final position
    ec.clear(); json d2 = doc; jsonpointer::get(d2, p + "/x", ec);
    CHECK((!ec) == (idx && v < n), "get through the token: expected " << ((idx && v < n) ? "success" : "an error"));
    // remove
    ec.clear(); json d3 = doc; jsonpointer::remove(d3, p, ec);
    if (idx && v < n) { json e = doc; e["a"].erase(e["a"].array_range().begin() + v); CHECK(!ec && d3 == e, "remove: wrong result"); } else CHECK(ec && d3 == doc, "remove: expected an error and an untouched document, got " << d3.to_string().substr(0, 60));
    ec.clear(); json d3b = doc; jsonpointer::remove(d3b, p + "/x", ec);
    CHECK(((idx && v < n) ? !ec : (ec && d3b == doc)), "remove through the token: wrong outcome");
    // replace
    ec.clear(); json d4 = doc; jsonpointer::replace(d4, p, json("new"), ec);
    if (idx && v < n) { json e = doc; e["a"][v] = json("new"); CHECK(!ec && d4 == e, "replace: wrong result"); } else CHECK(ec && d4 == doc, "replace: expected an error and an untouched document");
    // add / add_if_absent
    for (int k = 0; k < 2; ++k) {
        ec.clear(); json d5 = doc; if (k == 0) jsonpointer::add(d5, p, json("new"), ec); else jsonpointer::add_if_absent(d5, p, json("new"), ec);
        if (tok == "-" || (idx && v == n)) { json e = doc; e["a"].push_back(json("new")); CHECK(!ec && d5 == e, "add: expected append"); }
        else if (idx && v < n) { json e = doc; e["a"].insert(e["a"].array_range().begin() + v, json("new")); CHECK(!ec && d5 == e, "add: expected insertion at " << v); }
        else CHECK(ec && d5 == doc, "add: expected an error and an untouched document, got " << d5.to_string().substr(0, 60));
    }
}
int main(int argc, char** argv)
{
    if (argc < 3) return 2;
    vx_replay_inputs in; if (!in.load(argv[2])) return 2;
    std::vector<std::string> toks = {"", "0", "1", "2", "3", "00", "000", "01", "007", "10", "-", "--", "-0", "-1", "+1", " 1", "1 ", "1a", "a", "0x1", "1e0", "1.0",
                                     "18446744073709551615", "18446744073709551616", "99999999999999999999", "4294967296", "09", "0 "};
    if (in.has("vx_len")) { size_t l = (size_t)in.u64("vx_len"); if (l <= 24) { std::string t; for (size_t i = 0; i < l; ++i) t.push_back((char)in.u64("vx_tok[" + std::to_string(i) + "]", '0')); toks.push_back(t); } }
    for (const auto& t : toks) for (size_t n : {(size_t)0, (size_t)1, (size_t)3, (size_t)11}) one(t, n);
    // parse / to_string round trip (RFC 6901 section 3)
    for (std::string s : {"", "/", "/a", "/a/", "//", "/~0", "/~1", "/~01", "/a~1b/~0~1", "/ /-/0"}) {
        std::error_code ec; auto ptr = jsonpointer::json_pointer::parse(s, ec);
        if (ec || ptr.to_string() != s) { std::cout << "to_string(parse('" << s << "')) = '" << ptr.to_string() << "'\n"; ++bad; }
    }
    for (std::string s : {"a", "/~", "/~2", "/a~"}) { std::error_code ec; jsonpointer::json_pointer::parse(s, ec); if (!ec) { std::cout << "invalid pointer '" << s << "' accepted\n"; ++bad; } }
    if (bad) VX_REPRO(bad << " JSON Pointer operations disagree with RFC 6901 (see above)");
    VX_NOREPRO("all tokens of the corpus (and the counterexample token) behave as RFC 6901 prescribes");
}
