# U-SRC (DESIGN 6): chars_source<uint8_t>::read / read_span / ignore / peek - the source contract of C03/C07 ("delivers min(n, remaining) bytes in order")
from core import FuncSpec, Harness
S = 'include/jsoncons/source.hpp'
AL = {'current_': '(self->current_)', 'end_': '(self->end_)', 'data_end_': '(self->data_end_)'}
BIND = 'self->current_ == vx_buf + vx_off && self->end_ == vx_buf + vx_n && vx_off <= vx_n && vx_n <= 100000000'
REM = '(vx_n - vx_off)'
RES = '__CPROVER_return_value'
ADV = lambda k: 'self->current_ == vx_buf + vx_off + (%s) && self->end_ == vx_buf + vx_n' % k
COMMON = [(r'\bvalue_type\b', 'uint8_t', 0, 8), (r'std::size_t\(', '(size_t)(', 0, 4)]
SPECS = []
FNS = [
    FuncSpec('src_read', S, r'std::size_t read\(value_type\* p, std::size_t length\)', ordinal=1, count=2, csig='size_t src_read(struct chars_source* self, uint8_t* p, size_t length)', aliases=AL,
             contract=[('requires', BIND + ' && length <= 100000000 && __CPROVER_w_ok(p, length)'), ('assigns', 'self->current_, __CPROVER_object_whole(p)'),
                       ('ensures', '[C03][C07][C05] read delivers min(length, remaining) bytes and advances by exactly that much, never past the end', '%s == (length < %s ? length : %s) && %s' % (RES, REM, REM, ADV(RES))),
                       ('ensures', '[C03][C07] ... and they are the next bytes of the buffer, in order (watched position)', 'vx_w < %s ==> p[vx_w] == vx_buf[vx_off + vx_w]' % RES)],
             rules=COMMON + [(r'std::memcpy\(', 'vx_memcpy(', 1)]),
    FuncSpec('src_read_span', S, r'span<const value_type> read_span\(std::size_t length, Buffer&&\)', ordinal=0, count=1, csig='struct span_result src_read_span(struct chars_source* self, size_t length)', aliases=AL,
             contract=[('requires', BIND), ('assigns', 'self->current_'),
                       ('ensures', '[C03][C07][C05] read_span delivers min(length, remaining) bytes as a view of the buffer at the old position and advances by exactly that much',
                        '%s.size == (length < %s ? length : %s) && (%s.size > 0 ==> %s.data == vx_buf + vx_off) && %s' % (RES, REM, REM, RES, RES, ADV(RES + '.size')))],
             rules=COMMON + [(r'return span<const uint8_t>\{\};', 'return (struct span_result){0, 0};', 1), (r'return span<const uint8_t>\(data, len\);', 'return (struct span_result){data, len};', 1)]),
    FuncSpec('src_ignore', S, r'void ignore\(std::size_t count\)', ordinal=0, count=2, csig='void src_ignore(struct chars_source* self, size_t count)', aliases=AL,
             contract=[('requires', BIND), ('assigns', 'self->current_'),
                       ('ensures', '[C03][C05] ignore skips min(count, remaining) bytes, never past the end', ADV('(count < %s ? count : %s)' % (REM, REM)))],
             rules=COMMON),
    FuncSpec('src_peek', S, r'char_result<value_type> peek\(\)', ordinal=1, count=3, csig='struct char_result src_peek(struct chars_source* self)', aliases=AL,
             contract=[('requires', BIND), ('assigns', ''),
                       ('ensures', '[C03][C07][C05] peek shows the next byte without consuming it, or end of input', '%s.eof == (vx_off == vx_n) && (!%s.eof ==> %s.value == vx_buf[vx_off])' % (RES, RES, RES))],
             rules=COMMON + [(r'char_result<uint8_t>\{\*current_, false\}', '(struct char_result){*current_, false}', 1), (r'char_result<uint8_t>\{0, true\}', '(struct char_result){0, true}', 1)]),
]
GROUPS = {'fns': FNS}
HARNESSES = [
    Harness('read', 'h_read', enforce='src_read', method='LF', props=['C03', 'C07', 'C05']),
    Harness('read_span', 'h_read_span', enforce='src_read_span', method='LF', props=['C03', 'C07', 'C05']),
    Harness('ignore', 'h_ignore', enforce='src_ignore', method='LF', props=['C03', 'C05']),
    Harness('peek', 'h_peek', enforce='src_peek', method='LF', props=['C03', 'C07', 'C05']),
]
