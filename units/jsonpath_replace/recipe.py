# unit jsonpath_replace (C12): json_replace(root, path, new_value) - every selected node gets the new value: the callback that is run for each node must leave the
# value intact for the next node (F38: std::forward on an rvalue let the first node take it away), and the nodes are visited without duplicates
from core import FuncSpec, EnumSpec, Harness
Q = 'include/jsoncons_ext/jsonpath/json_query.hpp'
RULES = [
    (r'(?s)using jsonpath_traits_type = .*?path_expression_type expr = evaluator\.compile\(\*resources, path\);', 'vx_compiled = true;', 1),
    (r'jsoncons::jsonpath::detail::eval_context<Json,reference> context;', '', 1),
    # the callback is run once per selected node: its body becomes a block that is executed for an arbitrary node, on the state earlier nodes may have left
    (r'(?s)auto callback = \[&new_value\]\(const path_node_type&, reference v\)\s*\{(.*?)\};', r'{ vx_callback_runs++;\1 }', 1),
    (r'v = std::forward<T>\(new_value\);', 'vx_node_assign(VX_FORWARD);', 0, 1), (r'v = std::move\(new_value\);', 'vx_node_assign(VX_FORWARD);', 0, 1), (r'v = new_value;', 'vx_node_assign(VX_COPY);', 0, 1), (r'v = Json\(new_value\);', 'vx_node_assign(VX_COPY);', 0, 1),
    (r'result_options options = ([^;]+);', r'int options = (\1);', 1), (r'result_options::(\w+)', r'result_options_\1', 2, 4),
    (r'expr\.evaluate\(context, root, path_node_type\{\}, root, callback, options\);', 'vx_evaluate(options);', 1),
]
C = [
    ('requires', 'vx_value_intact && vx_callback_runs == 0 && vx_evaluations == 0 && !vx_compiled'),
    ('assigns', 'vx_value_intact, vx_callback_runs, vx_assigned_is_new_value, vx_evaluations, vx_options, vx_compiled'),
    ('ensures', '[C12] json_replace gives every selected node the new value: the callback run for a node (any node: the value is in the state the earlier nodes left it in, and that state is "intact" by this very clause) assigns the new value and leaves it intact for the next node - it is copied, never moved from, even when the caller passed a temporary',
     'vx_callback_runs == 1 && vx_assigned_is_new_value && vx_value_intact'),
    ('ensures', '[C12] the expression is compiled and evaluated once over the document with that callback, without duplicate nodes (each selected node is replaced once)',
     'vx_compiled && vx_evaluations == 1 && (vx_options & result_options_nodups) != 0'),
]
SPECS = [
    EnumSpec('result_options', 'include/jsoncons_ext/jsonpath/token_evaluator.hpp'),
    FuncSpec('json_replace_value', Q, r'json_replace\(Json& root, const typename Json::string_view_type& path, T&& new_value,\s*const custom_functions<Json>& funcs = custom_functions<Json>\(\)\)', count=1,
             csig='void json_replace_value(void)', contract=C, rules=RULES),
]
HARNESSES = [Harness('json_replace_value', 'h_json_replace_value', enforce='json_replace_value', method='LF', props=['C12'],
                     note='the compile step and the evaluation are events; T&& new_value is a handle with the state intact / moved-from, std::forward<T> of it is a move when the caller passed a temporary (vx_is_rvalue)')]
