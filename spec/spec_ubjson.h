/* S-UBJSON: transcription of UBJSON draft 12 (ubjson.org) "Value types": numeric types and lengths.
 *   i int8 (1 byte, signed)  U uint8 (1 byte, unsigned)  I int16  l int32  L int64 -- all big endian, two's complement.
 *   "Length ... must be a non-negative integer numeric type."  Not derived from jsoncons. */
#ifndef SPEC_UBJSON_H
#define SPEC_UBJSON_H
#include <stdint.h>
#include <stddef.h>
/* payload size of an integer type marker; 0 = not an integer type */
static inline int spec_ub_int_size(uint8_t marker)
{
    switch (marker) { case 'i': return 1; case 'U': return 1; case 'I': return 2; case 'l': return 4; case 'L': return 8; default: return 0; }
}
/* value of an integer item (marker + big-endian payload); *ok = 0 when the marker is not an integer type */
static inline int64_t spec_ub_int_value(const uint8_t* p, int* ok)
{
    int n = spec_ub_int_size(p[0]);
    *ok = n != 0;
    if (!n) return 0;
    uint64_t v = 0;
    if (n >= 1) v = p[1];
    if (n >= 2) v = (v << 8) | p[2];
    if (n >= 4) { v = (v << 8) | p[3]; v = (v << 8) | p[4]; }
    if (n >= 8) { v = (v << 8) | p[5]; v = (v << 8) | p[6]; v = (v << 8) | p[7]; v = (v << 8) | p[8]; }
    switch (p[0]) { case 'i': return (int8_t)v; case 'U': return (int64_t)v; case 'I': return (int16_t)v; case 'l': return (int32_t)v; default: return (int64_t)v; }
}
/* the same with the marker given separately from the payload bytes (a decoder that has already consumed the marker) */
static inline int64_t spec_ub_int_payload_value(uint8_t marker, const uint8_t* q)
{
    int n = spec_ub_int_size(marker);
    uint64_t v = 0;
    if (n >= 1) v = q[0];
    if (n >= 2) v = (v << 8) | q[1];
    if (n >= 4) { v = (v << 8) | q[2]; v = (v << 8) | q[3]; }
    if (n >= 8) { v = (v << 8) | q[4]; v = (v << 8) | q[5]; v = (v << 8) | q[6]; v = (v << 8) | q[7]; }
    switch (marker) { case 'i': return (int8_t)v; case 'U': return (int64_t)v; case 'I': return (int16_t)v; case 'l': return (int32_t)v; default: return (int64_t)v; }
}
/* smallest total size (marker + payload) of an integer item that can hold v */
static inline int spec_ub_int_min_size(int64_t v)
{
    if (v >= -128 && v <= 255) return 2;
    if (v >= -32768 && v <= 32767) return 3;
    if (v >= -2147483648ll && v <= 2147483647ll) return 5;
    return 9;
}
#endif
