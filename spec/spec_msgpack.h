/* S-MSGPACK: transcription of the MessagePack specification (https://github.com/msgpack/msgpack/blob/master/spec.md),
 * "int format family", "str/bin/array/map format family".  Not derived from jsoncons.
 * Serializers SHOULD use the format which represents the data in the smallest number of bytes. */
#ifndef SPEC_MSGPACK_H
#define SPEC_MSGPACK_H
#include <stdint.h>
#include <stddef.h>
static inline void spec_mp_be(uint64_t v, int n, uint8_t* out) { for (int i = 0; i < n; ++i) out[i] = (uint8_t)(v >> (8 * (n - 1 - i))); }
/* unsigned value: positive fixint 0x00-0x7f | uint 8 0xcc | uint 16 0xcd | uint 32 0xce | uint 64 0xcf */
static inline int spec_mp_uint(uint64_t v, uint8_t out[9])
{
    if (v <= 0x7f) { out[0] = (uint8_t)v; return 1; }
    if (v <= 0xff) { out[0] = 0xcc; out[1] = (uint8_t)v; return 2; }
    if (v <= 0xffff) { out[0] = 0xcd; spec_mp_be(v, 2, out + 1); return 3; }
    if (v <= 0xffffffffull) { out[0] = 0xce; spec_mp_be(v, 4, out + 1); return 5; }
    out[0] = 0xcf; spec_mp_be(v, 8, out + 1); return 9;
}
/* negative value: negative fixint 0xe0-0xff (-32..-1) | int 8 0xd0 | int 16 0xd1 | int 32 0xd2 | int 64 0xd3 (two's complement, big endian) */
static inline int spec_mp_nint(int64_t v, uint8_t out[9])
{
    if (v >= -32) { out[0] = (uint8_t)v; return 1; }
    if (v >= -128) { out[0] = 0xd0; out[1] = (uint8_t)v; return 2; }
    if (v >= -32768) { out[0] = 0xd1; spec_mp_be((uint64_t)v, 2, out + 1); return 3; }
    if (v >= -2147483648ll) { out[0] = 0xd2; spec_mp_be((uint64_t)v, 4, out + 1); return 5; }
    out[0] = 0xd3; spec_mp_be((uint64_t)v, 8, out + 1); return 9;
}
/* decoding of the int family: returns number of bytes of the item (0 = not an int item / truncated), value as (is_negative, magnitude bits) */
static inline int spec_mp_int_decode(const uint8_t* p, size_t avail, int* is_signed, uint64_t* u, int64_t* s)
{
    if (avail < 1) return 0;
    uint8_t t = p[0];
    if (t <= 0x7f) { *is_signed = 0; *u = t; return 1; }
    if (t >= 0xe0) { *is_signed = 1; *s = (int8_t)t; return 1; }
    int n = 0, sg = 0;
    switch (t) { case 0xcc: n = 1; break; case 0xcd: n = 2; break; case 0xce: n = 4; break; case 0xcf: n = 8; break;
                 case 0xd0: n = 1; sg = 1; break; case 0xd1: n = 2; sg = 1; break; case 0xd2: n = 4; sg = 1; break; case 0xd3: n = 8; sg = 1; break; default: return 0; }
    if (avail < (size_t)(1 + n)) return 0;
    uint64_t v = 0; for (int i = 0; i < n; ++i) v = (v << 8) | p[1 + i];
    *is_signed = sg;
    if (!sg) *u = v;
    else *s = n == 1 ? (int64_t)(int8_t)v : n == 2 ? (int64_t)(int16_t)v : n == 4 ? (int64_t)(int32_t)v : (int64_t)v;
    return 1 + n;
}
static inline int spec_mp_is_int_type(uint8_t t) { return t <= 0x7f || t >= 0xe0 || (t >= 0xcc && t <= 0xd3); }
/* declared byte length of a str item (fixstr 101xxxxx, str 8 0xd9, str 16 0xda, str 32 0xdb): -2 = not a str item, -1 = length truncated */
static inline int64_t spec_mp_len_field(const uint8_t* p, size_t avail, int n)
{
    if (avail < (size_t)(1 + n)) return -1;
    uint64_t v = 0; for (int i = 0; i < n; ++i) v = (v << 8) | p[1 + i];
    return (int64_t)v;
}
static inline int64_t spec_mp_str_len(const uint8_t* p, size_t avail)
{
    if (avail < 1) return -2;
    uint8_t t = p[0];
    if (t >= 0xa0 && t <= 0xbf) return t & 0x1f;
    if (t == 0xd9) return spec_mp_len_field(p, avail, 1) < 0 ? -2 : spec_mp_len_field(p, avail, 1);
    if (t == 0xda) return spec_mp_len_field(p, avail, 2) < 0 ? -2 : spec_mp_len_field(p, avail, 2);
    if (t == 0xdb) return spec_mp_len_field(p, avail, 4) < 0 ? -2 : spec_mp_len_field(p, avail, 4);
    return -2;
}
static inline int64_t spec_mp_bin_len(const uint8_t* p, size_t avail)
{
    if (avail < 1) return -2;
    uint8_t t = p[0];
    if (t == 0xc4) return spec_mp_len_field(p, avail, 1) < 0 ? -2 : spec_mp_len_field(p, avail, 1);
    if (t == 0xc5) return spec_mp_len_field(p, avail, 2) < 0 ? -2 : spec_mp_len_field(p, avail, 2);
    if (t == 0xc6) return spec_mp_len_field(p, avail, 4) < 0 ? -2 : spec_mp_len_field(p, avail, 4);
    return -2;
}
/* number of elements announced by a container type byte (already consumed) and the following length bytes p[0..avail):
 * fixarray/fixmap: low 4 bits; array 16 / map 16: 2 bytes; array 32 / map 32: 4 bytes; -1 = truncated, -2 = not a container type */
static inline int64_t spec_mp_container_len(uint8_t type, const uint8_t* p, size_t avail)
{
    if (type >= 0x80 && type <= 0x9f) return type & 0x0f;
    int n = (type == 0xdc || type == 0xde) ? 2 : (type == 0xdd || type == 0xdf) ? 4 : 0;
    if (!n) return -2;
    if (avail < (size_t)n) return -1;
    uint64_t v = 0; for (int i = 0; i < n; ++i) v = (v << 8) | p[i];
    return (int64_t)v;
}
/* str format family header: fixstr 101xxxxx (<=31) | str 8 0xd9 | str 16 0xda | str 32 0xdb ; lengths above 2^32-1 are not representable */
static inline int spec_mp_str_head(uint64_t len, uint8_t out[5])
{
    if (len <= 31) { out[0] = (uint8_t)(0xa0 | len); return 1; }
    if (len <= 0xff) { out[0] = 0xd9; out[1] = (uint8_t)len; return 2; }
    if (len <= 0xffff) { out[0] = 0xda; spec_mp_be(len, 2, out + 1); return 3; }
    if (len <= 0xffffffffull) { out[0] = 0xdb; spec_mp_be(len, 4, out + 1); return 5; }
    return 0;
}
/* bin format family header: bin 8 0xc4 | bin 16 0xc5 | bin 32 0xc6 */
static inline int spec_mp_bin_head(uint64_t len, uint8_t out[5])
{
    if (len <= 0xff) { out[0] = 0xc4; out[1] = (uint8_t)len; return 2; }
    if (len <= 0xffff) { out[0] = 0xc5; spec_mp_be(len, 2, out + 1); return 3; }
    if (len <= 0xffffffffull) { out[0] = 0xc6; spec_mp_be(len, 4, out + 1); return 5; }
    return 0;
}
/* array: fixarray 1001xxxx (<=15) | array 16 0xdc | array 32 0xdd ; map: fixmap 1000xxxx | map 16 0xde | map 32 0xdf */
static inline int spec_mp_container_head(int is_map, uint64_t len, uint8_t out[5])
{
    if (len <= 15) { out[0] = (uint8_t)((is_map ? 0x80 : 0x90) | len); return 1; }
    if (len <= 0xffff) { out[0] = is_map ? 0xde : 0xdc; spec_mp_be(len, 2, out + 1); return 3; }
    if (len <= 0xffffffffull) { out[0] = is_map ? 0xdf : 0xdd; spec_mp_be(len, 4, out + 1); return 5; }
    return 0;
}
#endif
