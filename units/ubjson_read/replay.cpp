// replay for unit ubjson_read: one UBJSON item of every type marker (Z T F i U I l L d D C S H, and as elements of a counted array) with boundary payloads:
// the complete encoding decodes to the value the specification assigns, every strict prefix is refused (bytes and stream sources).
#include <jsoncons/json.hpp>
#include <jsoncons_ext/ubjson/ubjson.hpp>
#include "replay_util.hpp"
#include <sstream>
using namespace jsoncons;
typedef std::vector<uint8_t> bytes;
struct item { bytes enc; json val; };
int main(int argc, char** argv)
{
    if (argc < 3) return 2;
    std::vector<item> its = {{{'Z'}, json::null()}, {{'T'}, json(true)}, {{'F'}, json(false)}, {{'i', 0x80}, json(-128)}, {{'U', 0xff}, json(255)}, {{'I', 0x80, 0x00}, json(-32768)}, {{'I', 0x01, 0x00}, json(256)}, {{'l', 0x80, 0, 0, 0}, json(INT32_MIN)},
        {{'L', 0x7f, 0xff, 0xff, 0xff, 0xff, 0xff, 0xff, 0xff}, json(INT64_MAX)}, {{'d', 0x3f, 0xc0, 0, 0}, json(1.5)}, {{'D', 0x3f, 0xf8, 0, 0, 0, 0, 0, 0}, json(1.5)}, {{'C', 'x'}, json("x")}, {{'S', 'U', 3, 'a', 'b', 'c'}, json("abc")}, {{'S', 'I', 0, 2, 'h', 'i'}, json("hi")}};
    int bad = 0, total = 0; std::string first;
    auto dec = [&](const bytes& b, int mode, json& out) -> bool { try { std::error_code ec; json_decoder<json> d; if (mode == 0) { ubjson::ubjson_bytes_reader r(b, d); r.read(ec); } else { std::string s(b.begin(), b.end()); std::istringstream is(s); ubjson::ubjson_stream_reader r(is, d); r.read(ec); } if (ec || !d.is_valid()) return false; out = d.get_result(); return true; } catch (const std::exception&) { return false; } };
    for (size_t k = 0; k < its.size(); ++k) for (int wrap = 0; wrap < 2; ++wrap) for (int mode = 0; mode < 2; ++mode) {
        bytes full = its[k].enc; json want = its[k].val; if (wrap) { bytes w = {'[', '#', 'U', 2, 'U', 7}; w.insert(w.end(), full.begin(), full.end()); full = w; json a(json_array_arg); a.push_back(7); a.push_back(want); want = a; }
        ++total; json got; if (!dec(full, mode, got) || got != want) { if (!bad) first = "item " + std::to_string(k) + (wrap ? " in a counted array" : "") + " does not decode to its value"; ++bad; }
        for (size_t cut = (wrap ? 6 : 1); cut < full.size(); ++cut) { ++total; bytes p(full.begin(), full.begin() + cut); json g; if (dec(p, mode, g)) { if (!bad) first = "item " + std::to_string(k) + (wrap ? " in a counted array" : "") + " cut to " + std::to_string(cut) + " of " + std::to_string(full.size()) + " bytes is accepted as " + g.to_string(); ++bad; } }
    }
    if (bad) VX_REPRO(bad << " of " << total << " UBJSON inputs are handled differently from the specification, first: " << first);
    VX_NOREPRO("all " << total << " UBJSON items decode to their value and all their strict prefixes are refused");
}
