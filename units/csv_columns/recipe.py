# U-CSV-COLUMNS (C05, C18): the column filter of mapping_kind m_columns (csv::detail::m_columns_filter) and the cached events it replays (csv::detail::parse_event)
from core import FuncSpec, CopySpec, EnumSpec, Harness
NAME = 'csv_columns'
P = 'include/jsoncons_ext/csv/csv_parser.hpp'
AL = {'name_index_': 'vx_name_index', 'level2_': 'vx_level2'}
RULES = [(r'cached_events_\[name_index_\]\.emplace_back\(staj_events::(\w+), (?:tag|semantic_tag::none), alloc_\);', r'vx_emplace(name_index_, staj_events_\1);', 0, 1),
         (r'column_names_\.size\(\)', 'vx_ncols', 0, 1), (r'JSONCONS_VISITOR_RETURN;', 'return;', 0, 1)]
INV = '(vx_level2 > 0 ==> vx_name_index < vx_ncols)'
BOUNDS = 'vx_level2 <= SIZE_MAX / 2 && vx_name_index <= SIZE_MAX / 2'   # counters far from wrap-around (they count events of the input)
PRE = [('requires', INV + ' && ' + BOUNDS + ' && vx_emplaced == 0'), ('assigns', 'vx_name_index, vx_level2, vx_emplaced, vx_emplaced_at, vx_emplaced_kind')]
KEEP = ('ensures', '[C05] the invariant of the filter is kept: inside an array the current column exists, so the event of the array end can be stored without a bounds test', INV)
AFTER = r'class m_columns_filter : public basic_json_visitor<CharT>'
SKIP = PRE + [KEEP, ('ensures', '[C05][C18] an ignored value moves to the next column only between arrays; inside an array the column does not change (F51, F52)',
                     'vx_level2 == __CPROVER_old(vx_level2) && vx_emplaced == 0 && vx_name_index == __CPROVER_old(vx_name_index) + (__CPROVER_old(vx_level2) == 0 ? 1 : 0)')]
BEGIN = PRE + [KEEP, ('ensures', '[C05][C18] an array that begins in an existing column is stored in that column and counted; beyond the last column it is dropped and not counted',
                      '__CPROVER_old(vx_name_index) < vx_ncols ? (vx_emplaced == 1 && vx_emplaced_at == __CPROVER_old(vx_name_index) && vx_emplaced_kind == staj_events_begin_array && vx_level2 == __CPROVER_old(vx_level2) + 1 && vx_name_index == __CPROVER_old(vx_name_index)) '
                      ': (vx_emplaced == 0 && vx_level2 == __CPROVER_old(vx_level2) && vx_name_index == __CPROVER_old(vx_name_index))')]
END = PRE + [KEEP, ('ensures', '[C05][C18] the end of a counted array is stored in the column the array began in (in bounds: the obligation inside vx_emplace), and the column advances only when the outermost array ends (F52: the end of a nested array advanced it, the next end indexed past the last column); the end of the row goes back to the first column',
                    '__CPROVER_old(vx_level2) > 0 ? (vx_emplaced == 1 && vx_emplaced_at == __CPROVER_old(vx_name_index) && vx_emplaced_kind == staj_events_end_array && vx_level2 == __CPROVER_old(vx_level2) - 1 && vx_name_index == __CPROVER_old(vx_name_index) + (vx_level2 == 0 ? 1 : 0)) '
                    ': (vx_emplaced == 0 && vx_level2 == 0 && vx_name_index == 0)')]
VAL = PRE + [KEEP, ('ensures', '[C05][C18] a value in an existing column is stored there; the column advances unless the value lies in an array; beyond the last column it is dropped',
                    '__CPROVER_old(vx_name_index) < vx_ncols ? (vx_emplaced == 1 && vx_emplaced_at == __CPROVER_old(vx_name_index) && vx_emplaced_kind == staj_events_null_value && vx_level2 == __CPROVER_old(vx_level2) && vx_name_index == __CPROVER_old(vx_name_index) + (vx_level2 == 0 ? 1 : 0)) '
                    ': (vx_emplaced == 0 && vx_level2 == __CPROVER_old(vx_level2) && vx_name_index == __CPROVER_old(vx_name_index))')]
K = 'staj_events_'
REPLAY = [
    ('requires', '__CPROVER_is_fresh(self, sizeof(*self)) && vx_out_n == 0'), ('assigns', 'vx_out_n, vx_out_kind, vx_out_u64, vx_out_i64, vx_out_bool, vx_out_tag'),
    ('ensures', '[C18] a cached event is replayed as one event of the same kind with the same tag (an event of a kind the cache never holds is dropped)',
     '(%s) ? (vx_out_n == 1 && vx_out_kind == self->event_type && vx_out_tag == self->tag) : vx_out_n == 0' % ' || '.join('self->event_type == %s%s' % (K, k) for k in ['begin_array', 'end_array', 'string_value', 'byte_string_value', 'null_value', 'bool_value', 'int64_value', 'uint64_value', 'double_value'])),
    ('ensures', '[C18] and with the same value: an unsigned integer as that unsigned integer, a signed one as that signed one, a double with the same bits, a boolean as it is',
     '(self->event_type == %suint64_value ==> vx_out_u64 == self->uint64_value) && (self->event_type == %sint64_value ==> vx_out_i64 == self->int64_value) && (self->event_type == %sdouble_value ==> vx_out_u64 == self->uint64_value) && (self->event_type == %sbool_value ==> vx_out_bool == self->bool_value)' % (K, K, K, K)),
]
R_RULES = [(r'switch \(event_type\)', 'switch (self->event_type)', 1, 1), (r'staj_events::(\w+)', r'staj_events_\1', 5, 12),
           (r'visitor\.(begin_array|null_value)\(tag, ser_context\(\)\);', r'vx_emit0(staj_events_\1, self->tag);', 0, 2), (r'visitor\.end_array\(ser_context\(\)\);', 'vx_emit0(staj_events_end_array, self->tag);', 0, 1),
           (r'visitor\.(string_value|byte_string_value)\(\1, tag, ser_context\(\)\);', r'vx_emit0(staj_events_\1, self->tag);', 0, 2),
           (r'visitor\.(bool_value|int64_value|uint64_value|double_value)\((\w+), tag, ser_context\(\)\);', r'vx_emit_\1(self->\2, self->tag);', 0, 4)]
SPECS = [
    EnumSpec('staj_events', 'include/jsoncons/staj_event.hpp'),
    FuncSpec('skip_column', P, r'void skip_column\(\)', after=AFTER, csig='void skip_column(void)', contract=SKIP, rules=RULES, aliases=AL),
    FuncSpec('visit_begin_array', P, r'JSONCONS_VISITOR_RETURN_TYPE visit_begin_array\(semantic_tag tag, const ser_context&, std::error_code&\) final', after=AFTER, csig='void visit_begin_array(void)', contract=BEGIN, rules=RULES, aliases=AL),
    FuncSpec('visit_end_array', P, r'JSONCONS_VISITOR_RETURN_TYPE visit_end_array\(const ser_context&, std::error_code&\) final', after=AFTER, csig='void visit_end_array(void)', contract=END, rules=RULES, aliases=AL),
    FuncSpec('visit_null', P, r'JSONCONS_VISITOR_RETURN_TYPE visit_null\(semantic_tag tag, const ser_context&, std::error_code&\) final', after=AFTER, csig='void visit_null(void)', contract=VAL, rules=RULES, aliases=AL),
    FuncSpec('replay', P, r'void replay\(basic_json_visitor<CharT>& visitor\) const', after=r'struct parse_event|class parse_event', csig='void replay(const struct vx_event* self)', contract=REPLAY, rules=R_RULES),
]
HARNESSES = [Harness(n, 'h_' + n, enforce=n, method='LF', props=['C05', 'C18']) for n in ['skip_column', 'visit_begin_array', 'visit_end_array', 'visit_null']] + [
    Harness('replay', 'h_replay', enforce='replay', method='LF', props=['C18'], note='the members of the anonymous union of parse_event are a C union in the unit, so reading the wrong member yields the same bits as in the C++ code')]
