// replay for unit cbor_bigdec: decimal strings of every shape (integer, fraction, exponent, both, signs, long mantissas) tagged bigdec are encoded by the real
// CBOR encoder; an independent reader of RFC 8949 tag 4 takes [exponent, mantissa] back out and the pair must denote the string's value (digits and the
// position of the decimal point); and after k such strings the encoder must still enforce max_nesting_depth at the same depth.
#include <jsoncons/json.hpp>
#include <jsoncons_ext/cbor/cbor.hpp>
#include "replay_util.hpp"
using namespace jsoncons;
typedef std::vector<uint8_t> bytes;
static bool rd_int(const bytes& b, size_t& p, long long& v) { if (p >= b.size()) return false; uint8_t t = b[p++]; int mt = t >> 5, ai = t & 31; uint64_t a; if (ai < 24) a = ai; else { int n = ai == 24 ? 1 : ai == 25 ? 2 : ai == 26 ? 4 : ai == 27 ? 8 : -1; if (n < 0 || p + n > b.size()) return false; a = 0; for (int i = 0; i < n; ++i) a = (a << 8) | b[p++]; }
    if (mt == 0) { v = (long long)a; return true; } if (mt == 1) { v = -1 - (long long)a; return true; } return false; }
// canonical form of a decimal: digits without leading zeros or trailing zeros + exponent
static std::string canon(std::string digits, long long exp, bool neg) { size_t i = digits.find_first_not_of('0'); digits = i == std::string::npos ? "" : digits.substr(i); while (!digits.empty() && digits.back() == '0') { digits.pop_back(); ++exp; } if (digits.empty()) return "0"; return (neg ? "-" : "") + digits + "e" + std::to_string(exp); }
int main(int argc, char** argv)
{
    if (argc < 3) return 2;
    int bad = 0, total = 0; std::string first;
    const char* ints[] = {"0", "1", "15", "100", "123456789"}; const char* fracs[] = {"", ".5", ".25", ".000", ".1234", ".50"}; const char* exps[] = {"", "e3", "e-3", "E+7", "e0", "e-06", "e12"};
    for (const char* sg : {"", "-"}) for (const char* ip : ints) for (const char* fp : fracs) for (const char* ep : exps) {
        std::string s = std::string(sg) + ip + fp + ep; ++total;
        std::string digits = ip; long long exp = 0; if (fp[0]) { digits += (fp + 1); exp -= (long long)strlen(fp + 1); } if (ep[0]) exp += atoll(ep + 1);
        std::string want = canon(digits, exp, sg[0] == '-');
        bytes b; try { cbor::cbor_bytes_encoder enc(b); enc.string_value(s, semantic_tag::bigdec); enc.flush(); } catch (const std::exception& e) { if (!bad) first = std::string(e.what()) + " for " + s; ++bad; continue; }
        size_t p = 0; long long e = 0, m = 0; bool ok = b.size() >= 4 && b[0] == 0xc4 && b[1] == 0x82; p = 2; ok = ok && rd_int(b, p, e) && rd_int(b, p, m) && p == b.size();
        std::string got = ok ? canon(std::to_string(m < 0 ? -m : m), e, m < 0) : "not [exponent, mantissa]"; if (want == "0" && ok && m == 0) got = "0";
        if (got != want) { if (!bad) first = "\"" + s + "\" is written as " + got + ", it denotes " + want; ++bad; }
    }
    // nesting depth after bigdec strings
    for (int k : {0, 1, 3}) { ++total; bytes b; std::error_code ec; auto opt = cbor::cbor_options{}.max_nesting_depth(4); cbor::cbor_bytes_encoder enc(b, opt); enc.begin_array(semantic_tag::none, ser_context(), ec); for (int i = 0; i < k; ++i) enc.string_value("1.5", semantic_tag::bigdec);
        int opened = 1; for (int d = 0; d < 8 && !ec; ++d) { enc.begin_array(semantic_tag::none, ser_context(), ec); if (!ec) ++opened; }
        if (opened != 4) { if (!bad) first = "with max_nesting_depth 4 and " + std::to_string(k) + " decimal strings written first, " + std::to_string(opened) + " nested arrays could be opened"; ++bad; } }
    if (bad) VX_REPRO(bad << " of " << total << " cases differ from RFC 8949 tag 4 / the nesting limit, first: " << first);
    VX_NOREPRO("all " << total << " decimal strings are written as the [exponent, mantissa] pair that denotes them; the nesting limit is unaffected");
}
