/* unit msgpack_read: msgpack_parser::read_item (type-byte dispatch), get_size, begin_array, begin_object */
#define VX_SRC_CAP 48
#include "vx_common.h"
#include "model_source.h"
#include "model_stack.h"
#include "model_sink.h"
#include "spec_msgpack.h"

/*@ENUM msgpack_errc@*/
/*@ENUM semantic_tag@*/
/*@ENUM parse_mode@*/
/*@COPY msgpack_types@*/
/*@GROUP binary@*/

struct msgpack_parser { bool more_; bool cursor_mode_; int nesting_depth_; int max_nesting_depth_; };
static const int64_t nanos_in_second = 1000000000;
/* ghost visitor: records the single event of an item */
enum { VX_EV_NONE = 0, VX_EV_UINT64, VX_EV_INT64, VX_EV_DOUBLE, VX_EV_NULL, VX_EV_TRUE, VX_EV_FALSE, VX_EV_STRING, VX_EV_BYTES, VX_EV_TIMESTAMP_NS,
       VX_EV_BEGIN_OBJECT, VX_EV_BEGIN_ARRAY, VX_EV_BEGIN_object = VX_EV_BEGIN_OBJECT, VX_EV_BEGIN_array = VX_EV_BEGIN_ARRAY };
static unsigned vx_events; static int vx_ev_kind; static uint64_t vx_ev_u; static int64_t vx_ev_i; static double vx_ev_d; static uint64_t vx_ev_len; static int vx_ev_tag; static uint8_t vx_ev_type;
static int vx_dec_signed; static uint64_t vx_dec_u; static int64_t vx_dec_i;
static void vx_ev_uint64(uint64_t v, int tag) { vx_events++; vx_ev_kind = VX_EV_UINT64; vx_ev_u = v; vx_ev_tag = tag; }
static void vx_ev_int64(int64_t v, int tag) { vx_events++; vx_ev_kind = VX_EV_INT64; vx_ev_i = v; vx_ev_tag = tag; }
static void vx_ev_double(double v) { vx_events++; vx_ev_kind = VX_EV_DOUBLE; vx_ev_d = v; }
static void vx_ev_simple(int k) { vx_events++; vx_ev_kind = k; }
static void vx_ev_string(size_t n) { vx_events++; vx_ev_kind = VX_EV_STRING; vx_ev_len = n; }
static void vx_ev_bytes(size_t n, int tag) { vx_events++; vx_ev_kind = VX_EV_BYTES; vx_ev_len = n; vx_ev_tag = tag; }
static void vx_ev_timestamp_ns(int64_t sec, uint64_t nsec) { vx_events++; vx_ev_kind = VX_EV_TIMESTAMP_NS; vx_ev_i = sec; vx_ev_u = nsec; }
static void vx_ev_begin(int k, size_t n) { vx_events++; vx_ev_kind = k; vx_ev_len = n; }
static void vx_begin_object(uint8_t type) { vx_events++; vx_ev_kind = VX_EV_BEGIN_OBJECT; vx_ev_type = type; }
static void vx_begin_array(uint8_t type) { vx_events++; vx_ev_kind = VX_EV_BEGIN_ARRAY; vx_ev_type = type; }
/* ghost source extras: error flag, payload reads (read_span): delivers min(len, vx_span_avail) bytes; UTF-8 verdict of the payload (validate: unit utf8) */
static bool vx_src_error, vx_utf8_ok; static uint64_t vx_span_avail;
static size_t vx_source_read_span(size_t len) { return len <= vx_span_avail ? len : (size_t)vx_span_avail; }
static bool vx_validate_utf8(size_t n) { return vx_utf8_ok; }
static uint64_t vx_bits64(double d) { union { double d; uint64_t u; } x; x.d = d; return x.u; }
static uint32_t vx_bits32(float f) { union { float f; uint32_t u; } x; x.f = f; return x.u; }

/*@FUNC get_size@*/
/*@FUNC read_item@*/
/*@FUNC begin_array@*/
/*@FUNC begin_object@*/

#ifdef VX_CBMC
static struct msgpack_parser vx_p;
static void setup_parser(void)
{
    __CPROVER_havoc_object(vx_src);
    vx_src_n = nondet_size(); vx_src_pos = nondet_size();
    __CPROVER_assume(vx_src_n <= VX_SRC_CAP - 12 && vx_src_pos <= vx_src_n);
    vx_p.more_ = true; vx_p.cursor_mode_ = nondet_bool(); vx_p.nesting_depth_ = nondet_int(); vx_p.max_nesting_depth_ = nondet_int();
    vx_events = 0; vx_pushes = 0; vx_src_error = nondet_bool(); vx_utf8_ok = nondet_bool(); vx_span_avail = nondet_u64();
}
void h_read_item(void)
{
    setup_parser(); int ec = 0;
#ifdef VX_T_LO
    __CPROVER_assume(!vx_src_error && vx_src_pos < vx_src_n && vx_src[vx_src_pos] >= VX_T_LO && vx_src[vx_src_pos] <= VX_T_HI);
#endif
#ifdef VX_T_EMPTY
    __CPROVER_assume(vx_src_error || vx_src_pos == vx_src_n);
#endif
    read_item(&vx_p, &ec);
}
void h_begin_array(void) { setup_parser(); int ec = 0; begin_array(&vx_p, nondet_u8(), &ec); }
void h_begin_object(void) { setup_parser(); int ec = 0; begin_object(&vx_p, nondet_u8(), &ec); }
#endif
