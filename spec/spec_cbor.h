/* S-CBOR: transcription of RFC 8949 section 3 (item head), 3.1 (major types),
 * 4.1 (preferred serialization of the argument).  Not derived from jsoncons. */
#ifndef SPEC_CBOR_H
#define SPEC_CBOR_H
#include <stdint.h>
#include <stddef.h>

/* RFC 8949 3: "the initial byte ... high-order 3 bits ... major type ... low-order 5 bits additional information" */
static inline uint8_t spec_cbor_major(uint8_t ib) { return (uint8_t)(ib >> 5); }
static inline uint8_t spec_cbor_info(uint8_t ib) { return (uint8_t)(ib & 0x1f); }

/* number of argument bytes following the initial byte:
 *  <24: 0 (argument is the info itself); 24: 1; 25: 2; 26: 4; 27: 8;
 *  28..30: reserved, "not well-formed in the present version" -> -1;  31: no argument (indefinite / break) -> -2 */
static inline int spec_cbor_arg_bytes(uint8_t info)
{
    if (info < 24) return 0;
    if (info == 24) return 1;
    if (info == 25) return 2;
    if (info == 26) return 4;
    if (info == 27) return 8;
    if (info <= 30) return -1;
    return -2;
}
/* network byte order (big endian) unsigned value of n bytes, n in {1,2,4,8} */
static inline uint64_t spec_be(const uint8_t* p, int n)
{
    uint64_t v = 0;
    if (n >= 1) v = p[0];
    if (n >= 2) v = (v << 8) | p[1];
    if (n >= 4) { v = (v << 8) | p[2]; v = (v << 8) | p[3]; }
    if (n >= 8) { v = (v << 8) | p[4]; v = (v << 8) | p[5]; v = (v << 8) | p[6]; v = (v << 8) | p[7]; }
    return v;
}
/* RFC 8949 4.1 preferred serialization: "the argument ... as short as possible":
 * 0..23 in the initial byte, 24..255 one byte, ..65535 two, ..2^32-1 four, else eight.
 * major is 0..7.  Returns the head length and fills out[]. */
static inline int spec_cbor_head(uint8_t major, uint64_t arg, uint8_t out[9])
{
    uint8_t hi = (uint8_t)(major << 5);
    if (arg <= 23) { out[0] = (uint8_t)(hi | arg); return 1; }
    if (arg <= 0xff) { out[0] = (uint8_t)(hi | 24); out[1] = (uint8_t)arg; return 2; }
    if (arg <= 0xffff) { out[0] = (uint8_t)(hi | 25); out[1] = (uint8_t)(arg >> 8); out[2] = (uint8_t)arg; return 3; }
    if (arg <= 0xffffffffull) { out[0] = (uint8_t)(hi | 26); out[1] = (uint8_t)(arg >> 24); out[2] = (uint8_t)(arg >> 16);
                                out[3] = (uint8_t)(arg >> 8); out[4] = (uint8_t)arg; return 5; }
    out[0] = (uint8_t)(hi | 27);
    out[1] = (uint8_t)(arg >> 56); out[2] = (uint8_t)(arg >> 48); out[3] = (uint8_t)(arg >> 40); out[4] = (uint8_t)(arg >> 32);
    out[5] = (uint8_t)(arg >> 24); out[6] = (uint8_t)(arg >> 16); out[7] = (uint8_t)(arg >> 8); out[8] = (uint8_t)arg;
    return 9;
}
/* RFC 8949 3.1 major type 1: "negative integer ... -1 minus the encoded unsigned integer" over the
 * full 64-bit argument; representable in int64 iff arg <= 2^63-1 */
static inline int spec_cbor_nint_fits_i64(uint64_t arg) { return arg <= (uint64_t)INT64_MAX; }
static inline int64_t spec_cbor_nint_i64(uint64_t arg) { return (int64_t)(-1 - (int64_t)arg); }
/* stringref (http://cbor.schmorp.de/stringref), table "minimum string length": a string is assigned the next index only if
 * referencing it would be shorter than the string itself:
 *   index 0..23 -> 3, 24..255 -> 4, 256..65535 -> 5, 65536..4294967295 -> 7, 4294967296.. -> 11.
 * Encoder and decoder must apply the same rule to the same running index (the number of strings assigned so far, text and
 * byte strings share one namespace), otherwise every later reference is off. */
static inline size_t spec_strref_min_length(uint64_t index)
{
    if (index <= 23) return 3;
    if (index <= 255) return 4;
    if (index <= 65535) return 5;
    if (index <= 4294967295ull) return 7;
    return 11;
}
#endif
