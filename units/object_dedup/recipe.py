# U-OBJ-DEDUP: sorted_json_object::compare and the de-duplication loop of uninitialized_init (json::parse builds every object through them):
# "the first of any duplicate member names wins" (C02)
from core import FuncSpec, Harness
S = 'include/jsoncons/sorted_json_object.hpp'
LOOP = ('__CPROVER_assigns(i, vx_emitted_w, vx_emits, vx_last_emit, vx_order_bad) '
        '__CPROVER_loop_invariant(1 <= i && i <= count && !vx_order_bad && vx_emits >= 1 && vx_emits <= i && vx_last_emit < i '
        '&& ((vx_w >= 1 && vx_w < i) ==> ((vx_emitted_w != 0) == (items[vx_w].name.id != items[vx_w - 1].name.id))) && (vx_w >= i ==> !vx_emitted_w) && (vx_w == 0 ==> vx_emitted_w)) '
        '__CPROVER_decreases(count - i)')
SPECS = [
    FuncSpec('compare', S, r'static bool compare\(const index_key_value<Json>& item1, const index_key_value<Json>& item2\)', count=1,
             csig='bool compare(const struct index_key_value* item1_p, const struct index_key_value* item2_p)',
             aliases={'item1': '(*item1_p)', 'item2': '(*item2_p)'},
             contract=[('requires', '__CPROVER_r_ok(item1_p, sizeof(*item1_p)) && __CPROVER_r_ok(item2_p, sizeof(*item2_p))'), ('assigns', ''),
                       ('ensures', '[C02] members are ordered by name, ties broken by position in the text (a strict order in which the first of equal names comes first)',
                        '__CPROVER_return_value == (vx_name_compare(item1_p->name, item2_p->name) < 0 || (vx_name_compare(item1_p->name, item2_p->name) == 0 && item1_p->index < item2_p->index))')],
             rules=[(r'(\w+)\.name\.compare\((\w+)\.name\)', r'vx_name_compare(\1.name, \2.name)', 1, 4)]),
    FuncSpec('uninitialized_init', S, r'void uninitialized_init\(index_key_value<Json>\* items, std::size_t count\)', count=1,
             csig='void uninitialized_init(struct index_key_value* items, size_t count)',
             contract=[('requires', 'items == vx_items && count == vx_count && vx_emits == 0 && !vx_emitted_w && !vx_order_bad'),
                       ('assigns', 'vx_emitted_w, vx_emits, vx_last_emit, vx_order_bad'),
                       ('ensures', '[C02] from the sorted members exactly the first of each run of equal names is stored, in order: member w is stored iff it is the first one or its name differs from its predecessor',
                        '(vx_w < count ==> ((vx_emitted_w != 0) == (vx_w == 0 || vx_items[vx_w].name.id != vx_items[vx_w - 1].name.id))) && !vx_order_bad && (count > 0 ==> vx_emits >= 1) && (count == 0 ==> vx_emits == 0)')],
             rules=[(r'data_\.reserve\(count\);', '', 1),
                    (r'std::sort\(items, items\+count, compare\);', '/* std::sort(items, items+count, compare): not under contract; its postcondition (sorted w.r.t. compare) is the premise of lemma first_wins */', 1),
                    (r'data_\.emplace_back\(key_type\(items\[0\]\.name\.data\(\), items\[0\]\.name\.size\(\), get_allocator\(\)\), std::move\(items\[0\]\.value\)\);', 'VX_EMIT(0);', 1),
                    (r'auto& item = items\[i\];', '', 1), (r'item\.name != items\[i-1\]\.name', 'items[i].name.id != items[i-1].name.id', 1),
                    (r'data_\.emplace_back\(key_type\(item\.name\.data\(\), item\.name\.size\(\), get_allocator\(\)\), std::move\(item\.value\)\);', 'VX_EMIT(i);', 1)],
             loops={0: LOOP, 'count': 1}),
]
SITE_CHECKS = [
    {'file': S, 'pattern': r'std::sort\(items, items\+count, compare\);', 'count': 1, 'props': ['C02'], 'what': 'uninitialized_init sorts the members with the comparator under contract'},
]
HARNESSES = [
    Harness('compare', 'h_compare', enforce='compare', method='LF', props=['C02']),
    Harness('uninitialized_init', 'h_init', enforce='uninitialized_init', loop_contracts=True, method='LC', props=['C02'], expect_classes={'loop_invariant_step': 1}),
    Harness('lemma_first_wins', 'h_first_wins', method='LF', props=['C02'], dfcc=False,
            note='lemma over the real extracted compare: sortedness w.r.t. compare implies that the first of equal names is the first occurrence in the text'),
]
