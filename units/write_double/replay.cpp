// replay for unit write_double: runs the real jsoncons::write_double / dtoa_* on the counterexample value (when the trace has one) and on a sweep of
// magnitudes, formats and precisions, under ASan/UBSan; checks that each text is an RFC 8259 number with '.' or 'e' and, without a precision,
// parses back to the same double
#include <jsoncons/json.hpp>
#include "replay_util.hpp"
#include <cstring>
#include <cmath>
#include <cstdlib>
using namespace jsoncons;
static bool is_json_float(const std::string& s)
{
    size_t i = 0, n = s.size();
    if (i < n && s[i] == '-') ++i;
    if (i >= n) return false;
    if (s[i] == '0') ++i; else if (s[i] >= '1' && s[i] <= '9') { while (i < n && isdigit((unsigned char)s[i])) ++i; } else return false;
    bool mark = false;
    if (i < n && s[i] == '.') { mark = true; ++i; size_t j = i; while (i < n && isdigit((unsigned char)s[i])) ++i; if (i == j) return false; }
    if (i < n && (s[i] == 'e' || s[i] == 'E')) { mark = true; ++i; if (i < n && (s[i] == '+' || s[i] == '-')) ++i; size_t j = i; while (i < n && isdigit((unsigned char)s[i])) ++i; if (i == j) return false; }
    return i == n && mark;
}
static int bad = 0;
static void one(double v, float_chars_format fmt, int prec)
{
    std::string s;
    try {
        jsoncons::write_double w(fmt, prec);
        w(v, s);
    } catch (const std::exception& e) {
        if (dynamic_cast<const json_exception*>(&e) == nullptr) { std::cout << "foreign exception " << e.what() << " for " << v << "\n"; ++bad; }
        return;
    }
    if (!is_json_float(s)) { std::cout << "not an RFC 8259 number with fraction or exponent: '" << s.substr(0, 60) << "' for value " << v << " format " << (int)fmt << " precision " << prec << "\n"; ++bad; return; }
    if (prec <= 0) {
        double back = std::strtod(s.c_str(), nullptr);
        if (std::memcmp(&back, &v, 8) != 0 && !(back == 0 && v == 0)) { std::cout << "text '" << s << "' parses back to a different double than " << v << "\n"; ++bad; }
    }
}
int main(int argc, char** argv)
{
    if (argc < 3) return 2;
    vx_replay_inputs in; if (!in.load(argv[2])) return 2;
    std::vector<double> vals;
    for (const char* k : {"val", "v"}) if (in.has(k)) { double d = std::strtod(in.kv[k].c_str(), nullptr); if (std::isfinite(d)) vals.push_back(d); }
    for (int e = -323; e <= 308; e += 1) for (double m : {1.0, 1.5, 9.999999999999999, 1.2345678901234567}) { double d = m * std::pow(10.0, e); if (std::isfinite(d) && d != 0) { vals.push_back(d); vals.push_back(-d); } }
    vals.push_back(0.0); vals.push_back(1.7976931348623157e308); vals.push_back(4.9e-324); vals.push_back(2.2250738585072014e-308);
    for (int b = 1; b < 2047; ++b) { uint64_t u = (uint64_t)b << 52; double d; std::memcpy(&d, &u, 8); vals.push_back(d); }
    std::vector<int> precs = {0, 1, 5, 15, 17, 30, 99, 100, 150, 199, 200, 300, 1000};
    if (in.has("w.precision_")) precs.push_back((int)in.i64("w.precision_"));
    if (in.has("precision")) precs.push_back((int)in.i64("precision"));
    for (double v : vals)
        for (auto fmt : {float_chars_format::general, float_chars_format::fixed, float_chars_format::scientific})
            for (int p : precs) one(v, fmt, p);
    if (bad) VX_REPRO(bad << " printed doubles are wrong (see above)");
    VX_NOREPRO("all " << vals.size() << " values x 3 formats x " << precs.size() << " precisions print as RFC 8259 numbers, and without precision parse back exactly");
}
