/* unit jsonpath_ops (C12): comparison operators of JSONPath filters over abstract operands (kind of each operand, sign of lhs compared with rhs) */
#include "vx_common.h"
enum { VK_NULL = 0, VK_BOOL, VK_NUMBER, VK_STRING, VK_ARRAY, VK_OBJECT };
enum { R_NONE = 0, R_TRUE, R_FALSE, R_NULL };
static int vx_lk, vx_rk, vx_cmp, vx_result;
/*@GROUP ops@*/
#ifdef VX_CBMC
static void setup(void) { vx_lk = nondet_int(); vx_rk = nondet_int(); vx_cmp = nondet_int(); __CPROVER_assume(vx_cmp >= -1 && vx_cmp <= 1); vx_result = R_NONE; }
void h_op_eq(void) { setup(); op_eq(); }
void h_op_ne(void) { setup(); op_ne(); }
void h_op_lt(void) { setup(); op_lt(); }
void h_op_lte(void) { setup(); op_lte(); }
void h_op_gt(void) { setup(); op_gt(); }
void h_op_gte(void) { setup(); op_gte(); }
#endif
