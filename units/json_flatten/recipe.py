# U-FLATTEN (C10): destruction of deeply nested values does not recurse with the nesting depth
from core import FuncSpec, CopySpec, EnumSpec, Harness
A = 'include/jsoncons/json_array.hpp'
LOOP = '''__CPROVER_assigns(vx_i, vx_moves, vx_data_n, __CPROVER_object_whole(vx_cmoved))
  __CPROVER_loop_invariant(vx_i <= vx_nc && vx_moves <= vx_i && vx_data_n == vx_data0 + vx_moves && (vx_k < vx_i ==> VX_FLAT(vx_k)) && (vx_k >= vx_i ==> !vx_cmoved[vx_k]))
  __CPROVER_decreases(vx_nc - vx_i)'''
ARR_RULES = [
    (r'while \(!data_\.empty\(\)\)', 'if (vx_data_n != 0)', 1),
    (r'value_type current = std::move\(data_\.back\(\)\);\s*data_\.pop_back\(\);', 'vx_data_n--; size_t vx_data0 = vx_data_n;', 1),
    (r'current\.storage_kind\(\)', 'vx_cur_kind', 1),
    (r'for \(auto&& item : current\.array_range\(\)\)', 'for (size_t vx_i = 0; vx_i < vx_nc; ++vx_i)', 1), (r'for \(auto&& kv : current\.object_range\(\)\)', 'for (size_t vx_i = 0; vx_i < vx_nc; ++vx_i)', 1),
    (r'(?:item|kv\.value\(\))\.storage_kind\(\)', 'vx_ckind[vx_i]', 2, 8), (r'(?:item|kv\.value\(\))\.empty\(\)', '(!vx_cnonempty[vx_i])', 1, 4),
    (r'data_\.push_back\(std::move\((?:item|kv\.value\(\))\)\);', 'vx_move_out(vx_i);', 1, 4), (r'current\.clear\(\);', 'vx_clear_current();', 2),
    (r'json_storage_kind::(\w+)', r'json_storage_kind_\1', 4, 12),
]
OBJ_RULES = [
    (r'data_\.empty\(\)', '(vx_nc == 0)', 1), (r'json_array<Json> temp\(get_allocator\(\)\);', 'size_t vx_data0 = vx_data_n;', 1),
    (r'for \(auto& kv : data_\)', 'for (size_t vx_i = 0; vx_i < vx_nc; ++vx_i)', 1),
    (r'kv\.value\(\)\.storage_kind\(\)', 'vx_ckind[vx_i]', 1), (r'kv\.value\(\)\.empty\(\)', '(!vx_cnonempty[vx_i])', 1),
    (r'temp\.emplace_back\(std::move\(kv\.value\(\)\)\);', 'vx_move_out(vx_i);', 1), (r'json_storage_kind::(\w+)', r'json_storage_kind_\1', 1, 6),
]
PRE = ('requires', 'vx_nc <= 100000000 && vx_k < vx_nc && __CPROVER_is_fresh(vx_ckind, vx_nc) && __CPROVER_is_fresh(vx_cnonempty, vx_nc * sizeof(bool)) && __CPROVER_is_fresh(vx_cmoved, vx_nc * sizeof(bool)) '
              '&& !vx_cmoved[vx_k] && vx_moves == 0 && vx_data_n <= SIZE_MAX / 2 && !vx_cleared')
FRAME = ('assigns', 'vx_moves, vx_data_n, __CPROVER_object_whole(vx_cmoved), vx_cleared, vx_flat_at_clear')
ARR = [PRE, ('requires', 'vx_data_n >= 1'), FRAME,
       ('ensures', '[C10] when the storage of the array or object taken from the work list is cleared, every child that is a non-empty array or object has been moved to the work list (watched child: any)',
        '(vx_cur_kind == json_storage_kind_array || vx_cur_kind == json_storage_kind_object) ==> (vx_cleared && vx_flat_at_clear)'),
       ('ensures', '[C10] the work list grows only by the children moved out', 'vx_data_n == __CPROVER_old(vx_data_n) - 1 + vx_moves && vx_moves <= vx_nc')]
OBJ = [PRE, FRAME,
       ('ensures', '[C10] before the members are destroyed every member value that is a non-empty array or object has been moved into a json_array, whose destructor takes it apart iteratively (watched member: any)', 'VX_FLAT(vx_k)'),
       ('ensures', '[C10] nothing else is moved', 'vx_data_n == __CPROVER_old(vx_data_n) + vx_moves && vx_moves <= vx_nc')]
SIG = r'void flatten_and_destroy\(\) noexcept'
SPECS = [
    EnumSpec('json_storage_kind', 'include/jsoncons/json_type.hpp'),
    FuncSpec('array_flatten_step', A, SIG, count=1, csig='void array_flatten_step(void)', contract=ARR, rules=ARR_RULES, loops={0: LOOP, 1: LOOP, 'count': 2}),
    FuncSpec('sorted_object_flatten', 'include/jsoncons/sorted_json_object.hpp', SIG, count=1, csig='void sorted_object_flatten(void)', contract=OBJ, rules=OBJ_RULES, loops={0: LOOP, 'count': 1}),
    FuncSpec('ordered_object_flatten', 'include/jsoncons/ordered_json_object.hpp', SIG, count=1, csig='void ordered_object_flatten(void)', contract=OBJ, rules=OBJ_RULES, loops={0: LOOP, 'count': 1}),
]
SITE_CHECKS = [
    {'file': A, 'pattern': r'~json_array\(\) noexcept\s*\{\s*flatten_and_destroy\(\);\s*\}', 'count': 1, 'props': ['C10'], 'what': 'the destructor of json_array flattens before the vector of children is destroyed'},
    {'file': 'include/jsoncons/sorted_json_object.hpp', 'pattern': r'~sorted_json_object\(\) noexcept\s*\{\s*flatten_and_destroy\(\);\s*\}', 'count': 1, 'props': ['C10'], 'what': 'the destructor of sorted_json_object flattens first'},
    {'file': 'include/jsoncons/ordered_json_object.hpp', 'pattern': r'~ordered_json_object\(\) noexcept\s*\{\s*flatten_and_destroy\(\);\s*\}', 'count': 1, 'props': ['C10'], 'what': 'the destructor of ordered_json_object flattens first'},
]
HARNESSES = [
    Harness('array_flatten_step', 'h_array_flatten_step', enforce='array_flatten_step', loop_contracts=True, method='LC', props=['C10'], expect_classes={'loop_invariant_step': 2},
            note='one iteration of the work-list loop (while -> if); the loop itself terminates because every iteration removes one container and the heap is finite (not proved)'),
    Harness('sorted_object_flatten', 'h_sorted_object_flatten', enforce='sorted_object_flatten', loop_contracts=True, method='LC', props=['C10'], expect_classes={'loop_invariant_step': 1}),
    Harness('ordered_object_flatten', 'h_ordered_object_flatten', enforce='ordered_object_flatten', loop_contracts=True, method='LC', props=['C10'], expect_classes={'loop_invariant_step': 1}),
]
