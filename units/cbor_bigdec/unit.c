/* unit cbor_bigdec: write_decimal_value of the CBOR encoder.  RFC 8949 3.4.4: "tag 4 ... an array that contains exactly two integer numbers: an exponent e and
 * a mantissa m.  Decimal fractions ... represent ... m * 10^e"; the mantissa may be a bignum.  A decimal string [-]ddd[.fff][e[+-]xx] denotes (ddd fff as an
 * integer) * 10^(xx - number of fraction digits). */
#include "vx_common.h"
/*@ENUM cbor_errc@*/
/*@ENUM decimal_parse_state@*/
/* ---- the loop step */
static unsigned vx_s_pushes, vx_e_pushes; static char vx_pushed;
static void vx_s_push(char c) { vx_s_pushes++; vx_pushed = c; }
static void vx_e_push(char c) { vx_e_pushes++; vx_pushed = c; }
/*@FUNC decimal_step@*/
/* ---- the part after the loop: events */
enum { EV_TAG4 = 1, EV_BEGIN2, EV_EXPONENT, EV_MANTISSA, EV_END, EV_OTHER };
enum { VX_EINVAL = 22, VX_ERANGE = 34 };
struct vx_res { bool ok; int code; };
static int vx_ev[8]; static unsigned vx_n_ev; static int vx_depth_delta; static unsigned vx_raw, vx_items;
static size_t vx_exp_len; static bool vx_exp_ok, vx_mant_fits, vx_mant_range, vx_mant_is_bignum; static int64_t vx_exp_val, vx_mant_val, vx_exp_written, vx_mant_written;
static void vx_push_ev(int e) { if (vx_n_ev < 8) vx_ev[vx_n_ev] = e; vx_n_ev++; }
static void vx_ev_tag(uint64_t t) { vx_push_ev(t == 4 ? EV_TAG4 : EV_OTHER); }
static void vx_begin_array(size_t n, int* ec_p) { if (nondet_bool()) { *ec_p = cbor_errc_max_nesting_depth_exceeded; return; } vx_depth_delta++; vx_push_ev(n == 2 ? EV_BEGIN2 : EV_OTHER); }   /* visit_begin_array: depth check, ++nesting_depth_, push, head */
static void vx_end_array(int* ec_p) { if (nondet_bool()) { int e = nondet_int(); __CPROVER_assume(e != 0); *ec_p = e; return; } vx_depth_delta--; vx_push_ev(EV_END); }                     /* visit_end_array: count check, --nesting_depth_, pop */
static void vx_raw_stack_push(void) { vx_raw++; }
static void vx_raw_array_head(size_t n) { vx_raw++; vx_push_ev(n == 2 ? EV_BEGIN2 : EV_OTHER); }
static struct vx_res vx_dec_exponent(int64_t* out) { struct vx_res r; r.ok = vx_exp_ok; r.code = vx_exp_ok ? 0 : VX_ERANGE; if (vx_exp_ok) *out = vx_exp_val; return r; }   /* dec_to_integer assigns its result on success */
static struct vx_res vx_dec_mantissa(int64_t* out) { struct vx_res r; r.ok = vx_mant_fits; r.code = vx_mant_fits ? 0 : (vx_mant_range ? VX_ERANGE : VX_EINVAL); if (vx_mant_fits) *out = vx_mant_val; return r; }
static void vx_visit_int64(int64_t v, int* ec_p) { (void)ec_p; if (vx_n_ev == 2) { vx_exp_written = v; vx_push_ev(EV_EXPONENT); } else { vx_mant_written = v; vx_mant_is_bignum = false; vx_push_ev(EV_MANTISSA); } }
static void vx_write_bignum(void) { vx_mant_is_bignum = true; vx_push_ev(EV_MANTISSA); }
static void vx_end_value(void) { vx_items++; }
/*@FUNC decimal_tail@*/
#ifdef VX_CBMC
void h_decimal_step(void) { vx_s_pushes = 0; vx_e_pushes = 0; char c = (char)nondet_u8(); uint8_t st = nondet_u8(); int64_t scale = nondet_i64(); int ec = 0; __CPROVER_assume(st <= decimal_parse_state_fraction1 && scale <= 0 && scale >= -1000000000000); decimal_step(c, &st, &scale, &ec); }
void h_decimal_tail(void)
{
    vx_n_ev = 0; vx_depth_delta = 0; vx_raw = 0; vx_items = 0; vx_exp_len = nondet_size(); vx_exp_ok = nondet_bool(); vx_mant_fits = nondet_bool(); vx_mant_range = nondet_bool(); vx_exp_val = nondet_i64(); vx_mant_val = nondet_i64(); vx_mant_is_bignum = false;
    int64_t scale = nondet_i64(); int ec = 0; __CPROVER_assume(scale >= -1000000000000 && scale <= 0 && vx_exp_val >= -1000000000000000 && vx_exp_val <= 1000000000000000);
    decimal_tail(scale, &ec);
}
#endif
