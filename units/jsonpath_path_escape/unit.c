/* unit jsonpath_path_escape (C12): names in normalized paths.  jsonpath::escape_string (used by to_basic_string of a path node and by json_location) writes the
 * interior of ['...']; the single_quoted_string / quoted_string_escape_char states of the expression parser read it back.  Both are compared with the S-JPSTR
 * decoder: what escape_string writes decodes to exactly the name, and the parser decodes the way S-JPSTR does - so a normalized path addresses the member it
 * was generated from, whatever quotes, backslashes and control characters the name contains. */
#include "vx_common.h"
#include "spec_jsonpath.h"
#include <stdlib.h>
/*@ENUM path_state@*/
/*@ENUM jsonpath_errc@*/
#define VX_IN_MAX 100000000
static char* vx_in; static size_t vx_len;
/* escape_string: output monitor */
static size_t vx_k, vx_out_n; static int vx_st; static bool vx_bad;
static void vx_esc_out(char ch)
{
    int r = spec_jp_sq_step(&vx_st, ch);
    vx_out_n++;
    if (r == -2 || r == -3) vx_bad = true;
    else if (r >= 0) { if (!(vx_k < vx_len) || (unsigned char)vx_in[vx_k] != r) vx_bad = true; vx_k++; }
    __CPROVER_assert(!vx_bad, "[C12] every character written decodes, inside a single-quoted name, to the next character of the name");
}
/* parser step */
static const char* p_; static size_t column_; static size_t vx_off, vx_n;
static uint8_t vx_stk[8]; static int vx_sp; static unsigned vx_pushes; static char vx_pushed; static int vx_spec_r;
static void vx_buf_push(char c) { vx_pushed = c; vx_pushes++; }
/*@FUNC escape_string@*/
/*@FUNC escape_char_state@*/
#define VX_ESCAPE_CHAR_STATE(state, ec_p) do { if ((state) == path_state_quoted_string_escape_char) escape_char_state((state), (ec_p)); } while (0)
/*@FUNC quoted_string_states@*/
#ifdef VX_CBMC
static int vx_ec;
void h_escape_string(void)
{
    vx_len = nondet_size();
#ifdef VX_SMALL
    __CPROVER_assume(vx_len <= 8);
#endif
    __CPROVER_assume(vx_len <= VX_IN_MAX); vx_in = malloc(vx_len ? vx_len : 1); __CPROVER_assume(vx_in != 0);
    vx_k = 0; vx_st = 0; vx_bad = false; vx_out_n = 0;
    size_t r = escape_string(vx_in, vx_len); (void)r;
}
void h_quoted_string_states(void)
{
    vx_n = nondet_size(); vx_off = nondet_size(); __CPROVER_assume(vx_off < vx_n && vx_n <= VX_IN_MAX); vx_in = malloc(vx_n); __CPROVER_assume(vx_in != 0);
    p_ = vx_in + vx_off; column_ = nondet_size(); __CPROVER_assume(column_ <= SIZE_MAX / 2);
    vx_sp = nondet_int(); __CPROVER_assume(vx_sp >= 2 && vx_sp <= 5); uint8_t st = nondet_u8(); vx_stk[vx_sp - 1] = st; vx_pushes = 0; vx_ec = 0;
    quoted_string_states(st, &vx_ec);
}
#endif
