/* unit jsonpath_selectors (C12): the element-enumerating selectors of JSONPath other than slices: wildcard ("[*]", ".*"), the own level of recursive descent
 * (".."), and a name selector applied to an array (jsoncons: a name that reads as an integer selects that element; negative counts from the end).
 * Integer skeleton: statements whose only effect is on JSON values are replaced by the observation VX_ELEM(i) / VX_SELF(), as in unit slices. */
#include "vx_common.h"
typedef __int128 spec_i128;
static uint64_t vx_size; static bool vx_is_array, vx_is_object, vx_is_string;
static uint64_t vx_next, vx_visits, vx_selfs; static bool vx_bad, vx_self_first; static size_t vx_visited;
/* every child is passed on exactly once, in document order */
#define VX_ELEM(i) do { __CPROVER_assert((uint64_t)(i) < vx_size, "[C05][C12] the selected child exists"); __CPROVER_assert((uint64_t)(i) == vx_next, "[C12] children are selected in document order, each exactly once"); \
    if (!((uint64_t)(i) < vx_size) || (uint64_t)(i) != vx_next) vx_bad = true; vx_next++; vx_visits++; } while (0)
#define VX_SELF() do { if (vx_visits != 0) vx_self_first = false; vx_selfs++; } while (0)
#define VX_VISIT_IDX(i) do { __CPROVER_assert((uint64_t)(i) < vx_size, "[C05][C12] the selected index is inside the array"); if (!((uint64_t)(i) < vx_size)) vx_bad = true; vx_visited = (i); vx_visits++; } while (0)
/* identifier_: whether it reads as a decimal integer (dec_to_integer, under contract in unit integers) and its value */
static bool vx_id_is_int; static int64_t vx_id_val; static bool vx_found;
/*@FUNC wildcard_select@*/
/*@FUNC recursive_select@*/
/*@FUNC identifier_select@*/
#ifdef VX_CBMC
static void setup(void)
{
    vx_size = nondet_u64(); __CPROVER_assume(vx_size <= (uint64_t)INT64_MAX);
    int k = nondet_int(); vx_is_array = k == 0; vx_is_object = k == 1; vx_is_string = k == 2;
    vx_next = 0; vx_visits = 0; vx_selfs = 0; vx_bad = false; vx_self_first = true; vx_id_is_int = nondet_bool(); vx_id_val = nondet_i64(); vx_found = nondet_bool();
}
void h_wildcard_select(void) { setup(); wildcard_select(); }
void h_recursive_select(void) { setup(); recursive_select(); }
void h_identifier_select(void) { setup(); identifier_select(); }
#endif
