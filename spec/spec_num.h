/* S-NUM: RFC 8259 section 6 number grammar as a DFA.
 *   number = [ minus ] int [ frac ] [ exp ];  int = zero / ( digit1-9 *DIGIT );  frac = decimal-point 1*DIGIT;
 *   exp = e [ minus / plus ] 1*DIGIT;  e = %x65 / %x45.
 * States name the prefix consumed so far.  Not derived from jsoncons. */
#ifndef SPEC_NUM_H
#define SPEC_NUM_H
enum spec_num_state { NUM_MINUS = 0,   /* "-"                         */
                      NUM_ZERO = 1,    /* [-] "0"                     */
                      NUM_INT = 2,     /* [-] digit1-9 *DIGIT         */
                      NUM_FRAC1 = 3,   /* int "."                     */
                      NUM_FRAC2 = 4,   /* int "." 1*DIGIT             */
                      NUM_EXP1 = 5,    /* int [frac] e                */
                      NUM_EXP2 = 6,    /* int [frac] e sign           */
                      NUM_EXP3 = 7,    /* int [frac] e [sign] 1*DIGIT */
                      NUM_ERR = 8 };
static inline int spec_num_digit(int c) { return c >= '0' && c <= '9'; }
static inline int spec_num_step(int s, int c)
{
    switch (s) {
    case NUM_MINUS: return c == '0' ? NUM_ZERO : (c >= '1' && c <= '9') ? NUM_INT : NUM_ERR;
    case NUM_ZERO:  return c == '.' ? NUM_FRAC1 : (c == 'e' || c == 'E') ? NUM_EXP1 : NUM_ERR;
    case NUM_INT:   return spec_num_digit(c) ? NUM_INT : c == '.' ? NUM_FRAC1 : (c == 'e' || c == 'E') ? NUM_EXP1 : NUM_ERR;
    case NUM_FRAC1: return spec_num_digit(c) ? NUM_FRAC2 : NUM_ERR;
    case NUM_FRAC2: return spec_num_digit(c) ? NUM_FRAC2 : (c == 'e' || c == 'E') ? NUM_EXP1 : NUM_ERR;
    case NUM_EXP1:  return (c == '+' || c == '-') ? NUM_EXP2 : spec_num_digit(c) ? NUM_EXP3 : NUM_ERR;
    case NUM_EXP2:  return spec_num_digit(c) ? NUM_EXP3 : NUM_ERR;
    case NUM_EXP3:  return spec_num_digit(c) ? NUM_EXP3 : NUM_ERR;
    default: return NUM_ERR;
    }
}
static inline int spec_num_accepting(int s) { return s == NUM_ZERO || s == NUM_INT || s == NUM_FRAC2 || s == NUM_EXP3; }
static inline int spec_num_integer_form(int s) { return s == NUM_ZERO || s == NUM_INT; }
#endif
