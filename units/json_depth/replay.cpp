// replay for unit json_depth: texts nested to depth limit - 1, limit and limit + 1, with arrays, objects and both alternating (innermost array / innermost
// object), for limits 1, 2, 3, 19, 1024 (the default): the parser must accept everything up to the limit and refuse limit + 1 with max_nesting_depth_exceeded;
// what the encoder writes at its own limit the parser must read.
#include <jsoncons/json.hpp>
#include "replay_util.hpp"
using namespace jsoncons;
static std::string nest(int depth, int shape)   // shape 0 arrays, 1 objects, 2 alternating starting with array, 3 alternating starting with object
{
    std::string open, close;
    for (int d = 0; d < depth; ++d) { bool arr = shape == 0 || (shape == 2 && d % 2 == 0) || (shape == 3 && d % 2 == 1); if (arr) { open += "["; close = "]" + close; } else { open += "{\"a\":"; close = "}" + close; } }
    return open + "1" + close;
}
int main(int argc, char** argv)
{
    if (argc < 3) return 2;
    int bad = 0, total = 0; std::string first;
    for (int limit : {1, 2, 3, 19, 1024}) for (int shape = 0; shape < 4; ++shape) for (int delta = -1; delta <= 1; ++delta) {
        int depth = limit + delta; if (depth < 0) continue; ++total;
        json_options o; o.max_nesting_depth(limit); std::string text = nest(depth, shape); std::error_code ec; json_decoder<json> dec; json_string_reader reader(text, dec, o); reader.read(ec);
        bool accepted = !ec; bool want = depth <= limit;
        if (accepted != want || (!accepted && ec != json_errc::max_nesting_depth_exceeded)) { if (!bad) first = "depth " + std::to_string(depth) + " with limit " + std::to_string(limit) + ", shape " + std::to_string(shape) + (accepted ? " accepted" : " refused: " + ec.message()); ++bad; continue; }
        if (accepted) { json v = dec.get_result(); std::string out; std::error_code ec2; v.dump(out, o, ec2); if (ec2 || out != text) { if (!bad) first = "a value of depth " + std::to_string(depth) + " does not print back under limit " + std::to_string(limit); ++bad; } }
    }
    if (bad) VX_REPRO(bad << " of " << total << " nesting cases are handled differently from the limit, first: " << first);
    VX_NOREPRO("all " << total << " nesting cases: everything up to the limit is read (and printed back), limit + 1 is refused");
}
