# unit jsonpath_regex (C05, C12): the state `regex` of the JSONPath compiler, where the pattern of a `=~ /.../` filter becomes a std::basic_regex: constructing a
# std::basic_regex from text that is no regular expression throws std::regex_error; the compiler must turn that into a JSONPath error (F47: it escaped make_expression)
from core import FuncSpec, EnumSpec, Harness
P = 'include/jsoncons_ext/jsonpath/jsonpath_parser.hpp'
RULES = [
    (r'std::regex::flag_type options = std::regex_constants::ECMAScript;', 'int options = VX_ECMA;', 1), (r"buffer2\.find\('i'\) != string_type::npos", 'vx_has_i', 1), (r'options \|= std::regex_constants::icase;', 'options |= VX_ICASE;', 1),
    # construction with the pattern as constructor argument: an exception thrown here is not caught in this function
    (r'std::basic_regex<char_type> pattern\(buffer, options\);', 'vx_regex_construct_unguarded(options);', 0, 1),
    (r'std::basic_regex<char_type> pattern;', '', 0, 1),
    (r'JSONCONS_TRY\s*\{\s*pattern\.assign\(buffer, options\);\s*\}\s*JSONCONS_CATCH\(const std::regex_error&\)', 'if (!vx_regex_assign_guarded(options))', 0, 1),
    (r'push_token\(resources, resources\.get_regex_operator\(std::move\(pattern\)\), ec\);', 'vx_push_regex_token(ec_p);', 1), (r'return path_expression_type\(alloc_\);', '{ vx_returned = true; return; }', 1, 3),
    (r'buffer\.clear\(\);', '', 1), (r'buffer2\.clear\(\);', '', 1), (r'state_stack_\.pop_back\(\);', 'vx_pops++;', 1), (r'jsonpath_errc::(\w+)', r'jsonpath_errc_\1', 0, 2),
]
C = [
    ('requires', '*ec_p == 0 && !vx_returned && !vx_foreign_exception && vx_tokens == 0 && vx_pops == 0'),
    ('assigns', '*ec_p, vx_returned, vx_foreign_exception, vx_tokens, vx_pops, vx_flags'),
    ('ensures', '[C05] a pattern that is not a regular expression (std::basic_regex throws std::regex_error) ends the compilation with a JSONPath error; the exception does not leave the compiler',
     '!vx_foreign_exception && (!vx_pattern_ok ==> (vx_returned && *ec_p != 0 && vx_tokens == 0))'),
    ('ensures', '[C12] a valid pattern becomes one regex operator token, case-insensitive exactly when the options contain i', 'vx_pattern_ok ==> (vx_tokens == 1 && vx_flags == (VX_ECMA | (vx_has_i ? VX_ICASE : 0)) && (*ec_p == 0 ==> vx_pops == 1))'),
]
SPECS = [EnumSpec('jsonpath_errc', 'include/jsoncons_ext/jsonpath/jsonpath_error.hpp'),
         FuncSpec('regex_state', P, r'path_expression_type compile\(static_resources<value_type>& resources,\s*const string_view_type& path,\s*std::error_code& ec\)', csig='void regex_state(int* ec_p)', contract=C, rules=RULES, aliases={'ec': '(*ec_p)'},
                  slice_from=r'(?<=case path_state::regex:)\s*\{\s*std::regex::flag_type options', slice_to=r'(?<=state_stack_\.pop_back\(\);)\s*break;\s*\}\s*case path_state::regex_pattern:', epilogue='}')]
HARNESSES = [Harness('regex_state', 'h_regex_state', enforce='regex_state', method='LF', props=['C05', 'C12'],
                     note='program slice of compile(): the state regex; whether the pattern text is a regular expression is an oracle (vx_pattern_ok), the construction of std::basic_regex is an event that throws when it is not')]
