/* unit depth_guards: nesting-depth guard slices (see recipe) */
#include "vx_common.h"
struct vx_codec { int nesting_depth_, max_nesting_depth_; bool more_; };
enum { VX_ERR_MAX_DEPTH = 77 };
static bool vx_rest; static size_t vx_stack_size;
#define VX_REST() do { vx_rest = true; } while (0)

/*@FUNC cbor_parser_begin_array@*/
/*@FUNC cbor_parser_begin_classical_array_storage@*/
/*@FUNC cbor_parser_begin_object@*/
/*@FUNC ubjson_parser_begin_array@*/
/*@FUNC ubjson_parser_begin_object@*/
/*@FUNC bson_parser_begin_document@*/
/*@FUNC bson_parser_begin_array@*/
/*@FUNC cbor_encoder_begin_object_indef@*/
/*@FUNC cbor_encoder_begin_object_len@*/
/*@FUNC cbor_encoder_begin_array_indef@*/
/*@FUNC cbor_encoder_begin_array_len@*/
/*@FUNC ubjson_encoder_begin_object_indef@*/
/*@FUNC ubjson_encoder_begin_object_len@*/
/*@FUNC ubjson_encoder_begin_array_indef@*/
/*@FUNC ubjson_encoder_begin_array_len@*/
/*@FUNC bson_encoder_begin_object@*/
/*@FUNC json_pretty_encoder_begin_object@*/
/*@FUNC json_compact_encoder_begin_object@*/
/*@FUNC bson_encoder_begin_array@*/
/*@FUNC json_pretty_encoder_begin_array@*/
/*@FUNC json_compact_encoder_begin_array@*/
#ifdef VX_CBMC
static struct vx_codec vx_c;
static void setup(void) { vx_c.nesting_depth_ = nondet_int(); vx_c.max_nesting_depth_ = nondet_int(); vx_c.more_ = true; vx_rest = false; vx_stack_size = nondet_size(); }
void h_cbor_parser_begin_array(void) { setup(); int ec = 0; cbor_parser_begin_array(&vx_c, &ec); }
void h_cbor_parser_begin_classical_array_storage(void) { setup(); int ec = 0; cbor_parser_begin_classical_array_storage(&vx_c, &ec); }
void h_cbor_parser_begin_object(void) { setup(); int ec = 0; cbor_parser_begin_object(&vx_c, &ec); }
void h_ubjson_parser_begin_array(void) { setup(); int ec = 0; ubjson_parser_begin_array(&vx_c, &ec); }
void h_ubjson_parser_begin_object(void) { setup(); int ec = 0; ubjson_parser_begin_object(&vx_c, &ec); }
void h_bson_parser_begin_document(void) { setup(); int ec = 0; bson_parser_begin_document(&vx_c, &ec); }
void h_bson_parser_begin_array(void) { setup(); int ec = 0; bson_parser_begin_array(&vx_c, &ec); }
void h_cbor_encoder_begin_object_indef(void) { setup(); int ec = 0; cbor_encoder_begin_object_indef(&vx_c, &ec); }
void h_cbor_encoder_begin_object_len(void) { setup(); int ec = 0; cbor_encoder_begin_object_len(&vx_c, &ec); }
void h_cbor_encoder_begin_array_indef(void) { setup(); int ec = 0; cbor_encoder_begin_array_indef(&vx_c, &ec); }
void h_cbor_encoder_begin_array_len(void) { setup(); int ec = 0; cbor_encoder_begin_array_len(&vx_c, &ec); }
void h_ubjson_encoder_begin_object_indef(void) { setup(); int ec = 0; ubjson_encoder_begin_object_indef(&vx_c, &ec); }
void h_ubjson_encoder_begin_object_len(void) { setup(); int ec = 0; ubjson_encoder_begin_object_len(&vx_c, &ec); }
void h_ubjson_encoder_begin_array_indef(void) { setup(); int ec = 0; ubjson_encoder_begin_array_indef(&vx_c, &ec); }
void h_ubjson_encoder_begin_array_len(void) { setup(); int ec = 0; ubjson_encoder_begin_array_len(&vx_c, &ec); }
void h_bson_encoder_begin_object(void) { setup(); int ec = 0; bson_encoder_begin_object(&vx_c, &ec); }
void h_json_pretty_encoder_begin_object(void) { setup(); int ec = 0; json_pretty_encoder_begin_object(&vx_c, &ec); }
void h_json_compact_encoder_begin_object(void) { setup(); int ec = 0; json_compact_encoder_begin_object(&vx_c, &ec); }
void h_bson_encoder_begin_array(void) { setup(); int ec = 0; bson_encoder_begin_array(&vx_c, &ec); }
void h_json_pretty_encoder_begin_array(void) { setup(); int ec = 0; json_pretty_encoder_begin_array(&vx_c, &ec); }
void h_json_compact_encoder_begin_array(void) { setup(); int ec = 0; json_compact_encoder_begin_array(&vx_c, &ec); }
#endif
