# U-TOON (C18): escape_toon_string (encoder) against the S-TOON string decoder; the quote-aware row scanners of the reader
# (parse_delimited_values for tabular rows and inline arrays, find_unquoted_char) against the S-TOON row DFA run in lockstep
from core import FuncSpec, Harness
E = 'include/jsoncons_ext/toon/encode_toon.hpp'
R = 'include/jsoncons_ext/toon/toon_reader.hpp'
OFF = '__CPROVER_POINTER_OFFSET(it)'
ESC_LOOP = ('__CPROVER_assigns(it, vx_k, vx_ust, vx_bad, vx_out_n) '
            '__CPROVER_loop_invariant(__CPROVER_same_object(it, vx_in) && %s <= vx_len && vx_k == %s && vx_ust == 0 && !vx_bad && vx_out_n >= vx_k && vx_out_n <= 2 * vx_k) '
            '__CPROVER_decreases(vx_len - %s)' % (OFF, OFF, OFF))
ESC_CONTRACT = [
    ('requires', 'vx_len <= VX_IN_MAX && s == vx_in && length == vx_len && vx_k == 0 && vx_ust == 0 && !vx_bad && vx_out_n == 0'),
    ('assigns', 'vx_k, vx_ust, vx_bad, vx_out_n'),
    ('ensures', '[C18] the text written between the quotes uses only the five TOON escapes, contains no raw quote, backslash, LF, CR or TAB, and decodes back to exactly the string',
     '!vx_bad && vx_k == vx_len && vx_ust == 0'),
]
GHOST = 'vx_st, vx_lang_ok, vx_cell_start, vx_cells, vx_delims, vx_spec_start, vx_spec_len, vx_calls, vx_act_start, vx_act_len, vx_keys, vx_key_bad, vx_prim_fail'
def row_inv(tabular):
    common = '((is_empty == 0) ==> vx_cells > 0) && num_items == vx_cells && vx_calls == vx_cells && num_delimiters == vx_delims && vx_cells <= i' + (' && field_index == vx_cells && vx_keys == vx_cells && !vx_key_bad' if tabular else '')
    return ('i <= vx_n + 1 && !vx_prim_fail && (vx_lang_ok ==> (' + common +
            ' && (vx_wc < vx_cells ==> (vx_act_start == vx_spec_start && vx_act_len == vx_spec_len))'
            ' && (vx_st == ROW_START || vx_st == ROW_UNQ || vx_st == ROW_INQ || vx_st == ROW_AFTER || (vx_st == ROW_ESC && i == vx_n))'
            ' && ((is_quoted != 0) == (vx_st == ROW_INQ || vx_st == ROW_ESC))'
            ' && (vx_st == ROW_START ==> (i <= vx_n && offset == i && length == 0 && vx_delims == vx_cells))'
            ' && (vx_st == ROW_UNQ ==> (i <= vx_n && offset == vx_cell_start && offset < i && length == i - offset && vx_delims == vx_cells))'
            ' && (vx_st == ROW_INQ ==> (i <= vx_n && offset == vx_cell_start && offset < i && length == i - offset - 1 && vx_delims == vx_cells))'
            ' && (vx_st == ROW_AFTER ==> (i == vx_n + 1 && length == 0 && vx_delims + 1 == vx_cells))))')
def row_loops(tabular):
    extra = ', field_index' if tabular else ''
    outer = ('__CPROVER_assigns(i, is_quoted, offset, length, is_empty, num_items, num_delimiters%s, %s) __CPROVER_loop_invariant(%s) __CPROVER_decreases(vx_n + 1 - i)' % (extra, GHOST, row_inv(tabular)))
    keep = 'num_items == vx_cells && vx_calls == vx_cells && (vx_wc < vx_cells ==> (vx_act_start == vx_spec_start && vx_act_len == vx_spec_len))' + (' && field_index + 1 == vx_cells && vx_keys == vx_cells && !vx_key_bad' if tabular else '')
    inner = ('__CPROVER_assigns(i, num_delimiters, %s) '
             '__CPROVER_loop_invariant(i < vx_n && i >= __CPROVER_loop_entry(i) && (vx_lang_ok ==> __CPROVER_loop_entry(vx_lang_ok)) && !vx_prim_fail && (vx_lang_ok ==> (vx_st == ROW_AFTER && num_delimiters == vx_delims && vx_delims + 1 == vx_cells && %s))) __CPROVER_decreases(vx_n - i)' % (GHOST, keep))
    return {0: outer, 1: inner, 'count': 2}
def row_contract(tabular):
    c = [('requires', 'line == vx_line && vx_n <= VX_IN_MAX && delimiter == vx_delim && vx_st == ROW_START && vx_lang_ok && vx_cells == 0 && vx_delims == 0 && vx_calls == 0 && vx_keys == 0 && !vx_key_bad && !vx_prim_fail && !vx_finalized'),
         ('assigns', GHOST + ', vx_finalized'),
         ('ensures', '[C18] for a row as the encoder writes it (cells separated by the delimiter; a cell is a quoted string or text without quotes), every cell is handed on exactly once, in order, with exactly its extent: a quoted cell from its opening quote to the next unescaped quote (a backslash escapes whatever follows it)',
          '(vx_finalized && vx_lang_ok && !vx_prim_fail) ==> (vx_calls == vx_cells && (vx_wc < vx_cells ==> (vx_act_start == vx_spec_start && vx_act_len == vx_spec_len)))'),
         ('ensures', '[C18] the row is complete only if it ran to its end', '__CPROVER_return_value == VX_OK ==> vx_finalized')]
    if tabular:
        c += [('ensures', '[C18] each cell is paired with the header field of the same position; a row with as many cells as fields is accepted, any other is rejected',
               '(vx_finalized && vx_lang_ok && !vx_prim_fail) ==> (vx_keys == vx_cells && !vx_key_bad && ((__CPROVER_return_value == VX_OK) == (vx_cells == vx_nfields)))'),
              ('ensures', '[C18] too many / too few values are reported as such', '(vx_lang_ok && !vx_prim_fail && __CPROVER_return_value != VX_OK) ==> (__CPROVER_return_value == toon_errc_too_many_values_in_row || __CPROVER_return_value == toon_errc_too_few_values_in_row)')]
    else:
        c += [('ensures', '[C18] strict mode: the number of cells must equal the declared length', '(vx_lang_ok && !vx_prim_fail && strict) ==> ((__CPROVER_return_value == VX_OK) == (vx_cells == expected_length))')]
    return c
N = 12
ROW_RULES = [
    (r'using result_type = jsoncons::expected<void,std::error_code>;', '', 1),
    (r'visitor\.begin_object\(\);', '', 0, 1), (r'visitor\.end_object\(\);', 'VX_FINALIZE(vx_n);', 0, 1),
    (r'char c = line\[i\];', 'char c = line[i]; VX_ROW_STEP(i, c);', 1),
    (r'(length \+= 2;\s*\+\+i;)', r'\1 VX_ROW_STEP(i, line[i]);', 1),
    (r'if \(line\[i\] == delimiter\)', 'VX_ROW_STEP(i, line[i]); if (line[i] == delimiter)', 1),
    (r'line\.size\(\)', 'vx_n', 1, N), (r'fields\.size\(\)', 'vx_nfields', 0, N), (r'visitor\.key\(fields\[field_index\]\);', 'vx_key(field_index);', 0, N),
    (r'auto r = parse_primitive\(strip\(jsoncons::span<char>\(line\.data\(\)\s*\+\s*([^,]+), ([^()]+)\)\), visitor\);', r'bool r = vx_cell(\1, \2);', 1, N),
    (r'auto r = parse_primitive\(jsoncons::span<char>\(line\.data\(\)\s*\+\s*([^,]+), ([^()]+)\), visitor\);', r'bool r = vx_cell(\1, \2);', 1, N),
    (r'return result_type\{jsoncons::unexpect, r\.error\(\)\};', 'return VX_ERR_PRIMITIVE;', 1, N),
    (r'return result_type\{jsoncons::unexpect, toon_errc::(\w+)\};', r'return toon_errc_\1;', 0, N),
    (r'return strict && expected_length != num_items \? result_type\{jsoncons::unexpect, toon_errc::inline_array_length_mismatch\} : result_type\{\};',
     'VX_FINALIZE(vx_n); return strict && expected_length != num_items ? toon_errc_inline_array_length_mismatch : VX_OK;', 0, 1),
    (r'return result_type\{\};', 'return VX_OK;', 0, 1),
]
FIND_LOOP = ('__CPROVER_assigns(i, in_quotes, index, done, vx_st, vx_lang_ok, vx_cell_start, vx_cells, vx_delims, vx_spec_start, vx_spec_len) '
             '__CPROVER_loop_invariant(i <= vx_n + 1 && ((in_quotes != 0) == (vx_st == ROW_INQ)) && (vx_st == ROW_START || vx_st == ROW_INQ || (vx_st == ROW_ESC && i == vx_n + 1))'
             ' && ((done != 0) ==> (index < vx_n && line[index] == target_char && vx_st == ROW_START)) && ((done == 0) ==> index == (size_t)-1)) '
             '__CPROVER_decreases(vx_n + 1 - i)')
SPECS = [
    FuncSpec('escape_toon_string', E, r'void escape_toon_string\(const char\* s, std::size_t length, Sink& sink\)', count=1,
             csig='void escape_toon_string(const char* s, size_t length)', contract=ESC_CONTRACT, rules=[(r'sink\.push_back\(', 'vx_toon_out(', 1, 40)], loops={0: ESC_LOOP, 'count': 1}),
    FuncSpec('parse_row_tabular', R, r'parse_delimited_values\(jsoncons::span<char> line,\s*char delimiter,\s*const std::vector<jsoncons::string_view>& fields,\s*json_visitor& visitor\)', count=1,
             csig='int parse_row_tabular(const char* line, size_t vx_n_param, char delimiter)', contract=row_contract(True), rules=ROW_RULES, loops=row_loops(True)),
    FuncSpec('parse_row_inline', R, r'parse_delimited_values\(jsoncons::span<char> line,\s*char delimiter,\s*std::size_t expected_length,\s*bool strict,\s*json_visitor& visitor\)', count=1,
             csig='int parse_row_inline(const char* line, size_t vx_n_param, char delimiter, size_t expected_length, bool strict)', contract=row_contract(False), rules=ROW_RULES, loops=row_loops(False)),
]
HARNESSES = [
    Harness('escape_toon_string', 'h_escape', enforce='escape_toon_string', loop_contracts=True, method='LC', props=['C18', 'C08'], expect_classes={'loop_invariant_step': 1}),
    Harness('parse_row_tabular', 'h_row_tabular', enforce='parse_row_tabular', loop_contracts=True, method='LC', props=['C18'], expect_classes={'loop_invariant_step': 2}, timeout=900),
    Harness('parse_row_inline', 'h_row_inline', enforce='parse_row_inline', loop_contracts=True, method='LC', props=['C18'], expect_classes={'loop_invariant_step': 2}, timeout=900),
]
