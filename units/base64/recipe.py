# U-B64 (DESIGN 6): bytes_to_base64 / bytes_to_base64url / bytes_to_base16 against an RFC 4648 decoder fed with the output (C08, C06)
from core import FuncSpec, Harness
B = 'include/jsoncons/utility/byte_string.hpp'
OF = '__CPROVER_POINTER_OFFSET(first)'
LOOP = ('__CPROVER_assigns(first, i, count, a3[0], a3[1], a3[2], a4[0], a4[1], a4[2], a4[3], vx_mon, vx_k, vx_out_n, vx_bad, vx_np, vx_p[0], vx_p[1], vx_p[2]) '
        '__CPROVER_loop_invariant(__CPROVER_same_object(first, vx_in) && %s <= vx_len && i >= 0 && i <= 2 && vx_k <= vx_len && %s == vx_k + (size_t)i && vx_k %% 3 == 0 && vx_mon.q == 0 && vx_mon.acc == 0 && vx_mon.pad == 0 && !vx_mon.bad && !vx_bad '
        '&& count == vx_out_n && vx_out_n == 4 * (vx_k / 3) && vx_np == i && (i >= 1 ==> a3[0] == vx_p[0]) && (i >= 2 ==> a3[1] == vx_p[1])) '
        '__CPROVER_decreases(vx_len - %s)' % (OF, OF, OF))
GENERIC = [
    ('requires', 'first == vx_in && last == vx_in + vx_len && vx_len <= 100000000 && vx_mon.q == 0 && vx_mon.acc == 0 && vx_mon.pad == 0 && !vx_mon.bad && vx_k == 0 && vx_out_n == 0 && !vx_bad && vx_np == 0'),
    ('requires', '__CPROVER_r_ok(alphabet, 65) && (vx_url ? alphabet[64] == 0 : alphabet[64] == \'=\')'),
    ('assigns', 'vx_mon, vx_k, vx_out_n, vx_bad, vx_np, __CPROVER_object_whole(vx_p)'),
    ('ensures', '[C08][C06] the text written is the RFC 4648 encoding of exactly the input bytes in the alphabet in use: it decodes back to them, a final short quantum has zero pad bits, base64 is padded with = to a multiple of four, base64url is not padded',
     '!vx_bad && vx_k == vx_len'),
    ('ensures', '[C08] the number of characters written is returned', '__CPROVER_return_value == vx_out_n'),
]
WRAP = lambda url: [('requires', 'first == vx_in && last == vx_in + vx_len && vx_len <= 100000000 && vx_mon.q == 0 && vx_mon.acc == 0 && vx_mon.pad == 0 && !vx_mon.bad && vx_k == 0 && vx_out_n == 0 && !vx_bad && vx_np == 0 && vx_url == %d' % url),
                    ('assigns', 'vx_mon, vx_k, vx_out_n, vx_bad, vx_np, __CPROVER_object_whole(vx_p)'),
                    ('ensures', '[C08][C06] %s: the text decodes, by RFC 4648 %s, to exactly the input bytes' % ('base64url' if url else 'base64', 'Table 2' if url else 'Table 1'), '!vx_bad && vx_k == vx_len')]
OI = '__CPROVER_POINTER_OFFSET(it)'
HEX_LOOP = ('__CPROVER_assigns(it, vx_hex_k, vx_hex_bad) __CPROVER_loop_invariant(__CPROVER_same_object(it, vx_in) && %s <= vx_len && vx_hex_k == %s && !vx_hex_bad) __CPROVER_decreases(vx_len - %s)' % (OI, OI, OI))
SPECS = [
    FuncSpec('bytes_to_base64_generic', B, r'bytes_to_base64_generic\(InputIt first, InputIt last, const char alphabet\[65\], Container& result\)', count=1,
             csig='size_t bytes_to_base64_generic(const uint8_t* first, const uint8_t* last, const char alphabet[65])', contract=GENERIC,
             rules=[(r'result\.push_back\(', 'vx_b64_out(', 3), (r'a3\[i\+\+\] = \*first\+\+;', 'a3[i++] = *first++; VX_PEND(first[-1]);', 1), (r'return count;', 'VX_B64_FINISH(); return count;', 1)], loops={0: LOOP, 'count': 5}),
    FuncSpec('bytes_to_base64', B, r'bytes_to_base64\(InputIt first, InputIt last, Container& result\)', count=1, csig='size_t bytes_to_base64(const uint8_t* first, const uint8_t* last)', contract=WRAP(0),
             rules=[(r'return detail::bytes_to_base64_generic\(first, last, alphabet, result\);', 'return bytes_to_base64_generic(first, last, alphabet);', 1)]),
    FuncSpec('bytes_to_base64url', B, r'bytes_to_base64url\(InputIt first, InputIt last, Container& result\)', count=1, csig='size_t bytes_to_base64url(const uint8_t* first, const uint8_t* last)', contract=WRAP(1),
             rules=[(r'return detail::bytes_to_base64_generic\(first, last, alphabet, result\);', 'return bytes_to_base64_generic(first, last, alphabet);', 1)]),
    FuncSpec('bytes_to_base16', B, r'bytes_to_base16\(InputIt first, InputIt last, Container& result\)', count=1, csig='size_t bytes_to_base16(const uint8_t* first, const uint8_t* last)',
             contract=[('requires', 'first == vx_in && last == vx_in + vx_len && vx_len <= 100000000 && vx_hex_k == 0 && !vx_hex_bad'), ('assigns', 'vx_hex_k, vx_hex_bad'),
                       ('ensures', '[C08][C06] base16: every byte is written as its two upper-case hexadecimal digits, in order; the count returned is twice the number of bytes', '!vx_hex_bad && vx_hex_k == vx_len && __CPROVER_return_value == 2 * vx_len')],
             rules=[(r'for \(auto it = first;', 'for (const uint8_t* it = first;', 1),
                    (r'result\.push_back\(characters\[c >> 4\]\);\s*result\.push_back\(characters\[c & 0xf\]\);', 'vx_hex_out2(characters[c >> 4], characters[c & 0xf]);', 1)],
             loops={0: HEX_LOOP, 'count': 1}),
]
HARNESSES = [
    Harness('base64', 'h_base64', enforce='bytes_to_base64_generic', loop_contracts=True, pre_unwind=5, method='LC', props=['C08', 'C06'], expect_classes={'loop_invariant_step': 1}, timeout=900,
            note='bytes_to_base64 (its alphabet string is the one in the header) calling bytes_to_base64_generic, whose contract is enforced; the fixed-count inner loops are unwound'),
    Harness('base64url', 'h_base64url', enforce='bytes_to_base64_generic', loop_contracts=True, pre_unwind=5, method='LC', props=['C08', 'C06'], expect_classes={'loop_invariant_step': 1}, timeout=900),
    Harness('base16', 'h_base16', enforce='bytes_to_base16', loop_contracts=True, method='LC', props=['C08', 'C06'], expect_classes={'loop_invariant_step': 1}),
]
