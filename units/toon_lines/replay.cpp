// replay for unit toon_lines: TOON texts whose lines begin with every mixture of tabs and spaces (alone, before a key, before a list item, on blank lines, at
// the end of the input without a line break), in strict and non-strict mode and with the indent option 0, 1, 2 and 4: the reader must return a value or a
// TOON error; built with ASan / UBSan (an out-of-bounds span or a division by zero fails the replay).
#include <jsoncons/json.hpp>
#include <jsoncons_ext/toon/decode_toon.hpp>
#include "replay_util.hpp"
using namespace jsoncons;
int main(int argc, char** argv)
{
    if (argc < 3) return 2;
    const char* prefixes[] = {"", "\t", "\t\t", " \t", "\t ", "  \t  ", " ", "   "}; const char* bodies[] = {"", "a: 1", "- x", "a:", "[2]: 1,2", "\"k\": v"}; const char* tails[] = {"", "\n", "\n\t", "\n \t\n", " \t", "\n\tb: 2\n"};
    int bad = 0, total = 0; std::string first;
    for (const char* p : prefixes) for (const char* b : bodies) for (const char* t : tails) for (int strict = 0; strict < 2; ++strict) for (size_t ind : {(size_t)0, (size_t)1, (size_t)2, (size_t)4}) {
        std::string text = std::string("top:\n") + p + b + t; std::string alone = std::string(p) + b + t;
        for (const std::string& s : {text, alone}) { ++total;
            try { auto r = toon::try_decode_toon<json>(s, toon::toon_options{}.strict(strict).indent(ind)); (void)r; }
            catch (const jsoncons::json_exception&) {} catch (const std::exception& e) { if (!bad) first = std::string("foreign exception ") + e.what(); ++bad; } }
    }
    if (bad) VX_REPRO(bad << " of " << total << " texts are not handled through the error channel, first: " << first);
    VX_NOREPRO("all " << total << " texts with tabs and spaces in the indentation are read or refused, without sanitizer reports");
}
