/* unit ubjson_read: ubjson_parser::read_type_and_value / read_value - dispatch on the UBJSON type marker (UBJSON draft 12 "Value types") */
#define VX_SRC_CAP 40
#include "vx_common.h"
#include "model_source.h"
#include "spec_ubjson.h"
/*@ENUM ubjson_errc@*/
/*@ENUM semantic_tag@*/
/*@COPY ubjson_types@*/
/*@GROUP binary@*/
struct ubjson_parser { bool more_; bool cursor_mode_; };
enum { VX_EV_NONE = 0, VX_EV_UINT64, VX_EV_INT64, VX_EV_DOUBLE, VX_EV_NULL, VX_EV_TRUE, VX_EV_FALSE, VX_EV_STRING };
static unsigned vx_events; static int vx_ev_kind, vx_ev_tag; static uint64_t vx_ev_u; static int64_t vx_ev_i; static double vx_ev_d; static uint64_t vx_ev_len; static uint8_t vx_ev_ch;
static void vx_ev(int k, int tag) { vx_events++; vx_ev_kind = k; vx_ev_tag = tag; }
static bool vx_src_error, vx_utf8_ok, vx_base10; static uint64_t vx_span_avail; static int vx_dec_ok;
static size_t vx_source_read_span(size_t len) { return len <= vx_span_avail ? len : (size_t)vx_span_avail; }
static unsigned vx_array_calls, vx_object_calls;
static void vx_begin_array(struct ubjson_parser* self, int* ec_p) { vx_array_calls++; if (nondet_bool()) { int e = nondet_int(); __CPROVER_assume(e != 0); *ec_p = e; } }
static void vx_begin_object(struct ubjson_parser* self, int* ec_p) { vx_object_calls++; if (nondet_bool()) { int e = nondet_int(); __CPROVER_assume(e != 0); *ec_p = e; } }
static uint64_t vx_bits64(double d) { union { double d; uint64_t u; } x; x.d = d; return x.u; }
static uint32_t vx_bits32(float f) { union { float f; uint32_t u; } x; x.f = f; return x.u; }
/*@FUNC get_length_decl@*/
/*@FUNC read_value@*/
/*@FUNC read_type_and_value@*/
#ifdef VX_CBMC
static struct ubjson_parser vx_p; static int vx_ec;
static void setup(void)
{
    __CPROVER_havoc_object(vx_src);
    vx_src_n = nondet_size(); vx_src_pos = nondet_size();
    __CPROVER_assume(vx_src_n <= VX_SRC_CAP - 12 && vx_src_pos <= vx_src_n);
    vx_p.more_ = true; vx_p.cursor_mode_ = nondet_bool(); vx_events = 0; vx_ev_kind = VX_EV_NONE; vx_ec = 0;
    vx_src_error = nondet_bool(); vx_utf8_ok = nondet_bool(); vx_base10 = nondet_bool(); vx_span_avail = nondet_u64(); vx_array_calls = 0; vx_object_calls = 0;
}
void h_read_value(void) { setup(); read_value(&vx_p, nondet_u8(), &vx_ec); }
void h_read_type_and_value(void) { setup(); read_type_and_value(&vx_p, &vx_ec); }
#endif
