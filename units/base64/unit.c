/* unit base64: bytes_to_base64_generic with the base64 and base64url alphabets (byte strings in JSON text), bytes_to_base16 */
#include "vx_common.h"
#include "spec_b64.h"
#include <stdlib.h>
static uint8_t* vx_in; static size_t vx_len;
static int vx_url;                                  /* which RFC 4648 table the output is read with */
static struct spec_b64_mon vx_mon; static size_t vx_k, vx_out_n; static bool vx_bad;
/* ghost: the input bytes consumed since the last complete quantum (recorded where the code reads them: R6 insertion) */
static uint8_t vx_p[3]; static int vx_np;
static void VX_PEND(uint8_t b) { if (vx_np < 3) vx_p[vx_np] = b; vx_np++; }
static void vx_b64_out(char ch)
{
    uint8_t out[3];
    int r = spec_b64_step(&vx_mon, (unsigned char)ch, vx_url, out);
    vx_out_n++;
    if (vx_mon.bad) vx_bad = true;
    if (r == 3) { if (vx_np != 3 || vx_p[0] != out[0] || vx_p[1] != out[1] || vx_p[2] != out[2]) vx_bad = true; vx_np = 0; vx_k += 3; }
    __CPROVER_assert(!vx_bad, "[C08][C06] every character written belongs to the RFC 4648 alphabet in use (so it is safe inside a JSON string) and every complete quantum decodes to the three input bytes it stands for");
}
/* end of output: a final quantum of 2 or 3 characters denotes 1 or 2 bytes; its unused low bits must be zero; base64 is padded to 4, base64url is not */
static void VX_B64_FINISH(void)
{
    if (vx_mon.q == 1) vx_bad = true;
    if (vx_mon.q == 2) { if (vx_mon.acc & 0xf) vx_bad = true; if (vx_np != 1 || vx_p[0] != (uint8_t)(vx_mon.acc >> 4)) vx_bad = true; else { vx_k += 1; vx_np = 0; } if (!vx_url && vx_mon.pad != 2) vx_bad = true; }
    else if (vx_mon.q == 3) { if (vx_mon.acc & 0x3) vx_bad = true; if (vx_np != 2 || vx_p[0] != (uint8_t)(vx_mon.acc >> 10) || vx_p[1] != (uint8_t)(vx_mon.acc >> 2)) vx_bad = true; else { vx_k += 2; vx_np = 0; } if (!vx_url && vx_mon.pad != 1) vx_bad = true; }
    else if (vx_mon.pad) vx_bad = true;
    if (vx_url && vx_mon.pad) vx_bad = true;
    if (vx_np != 0) vx_bad = true;        /* every consumed byte is accounted for */
}
/*@FUNC bytes_to_base64_generic@*/
/*@FUNC bytes_to_base64@*/
/*@FUNC bytes_to_base64url@*/
static size_t vx_hex_k; static bool vx_hex_bad;
static void vx_hex_out2(char hi, char lo)
{
    int h = (hi >= '0' && hi <= '9') ? hi - '0' : (hi >= 'A' && hi <= 'F') ? hi - 'A' + 10 : -1, l = (lo >= '0' && lo <= '9') ? lo - '0' : (lo >= 'A' && lo <= 'F') ? lo - 'A' + 10 : -1;
    if (h < 0 || l < 0 || !(vx_hex_k < vx_len) || vx_in[vx_hex_k] != (uint8_t)(h * 16 + l)) vx_hex_bad = true;
    vx_hex_k++;
    __CPROVER_assert(!vx_hex_bad, "[C08][C06] base16: two upper-case hexadecimal digits per byte, denoting that byte (RFC 4648 section 8)");
}
/*@FUNC bytes_to_base16@*/
#ifdef VX_CBMC
static void setup(void)
{
    vx_len = nondet_size();
#ifdef VX_SMALL
    __CPROVER_assume(vx_len <= 7);
#endif
    __CPROVER_assume(vx_len <= 100000000);
    vx_in = malloc(vx_len ? vx_len : 1); __CPROVER_assume(vx_in != 0);
    vx_mon.q = 0; vx_mon.acc = 0; vx_mon.pad = 0; vx_mon.bad = 0; vx_k = 0; vx_out_n = 0; vx_bad = false; vx_np = 0; vx_hex_k = 0; vx_hex_bad = false;
}
void h_base64(void) { setup(); vx_url = 0; bytes_to_base64(vx_in, vx_in + vx_len); }
void h_base64url(void) { setup(); vx_url = 1; bytes_to_base64url(vx_in, vx_in + vx_len); }
void h_base16(void) { setup(); bytes_to_base16(vx_in, vx_in + vx_len); }
#endif
