// replay for unit cbor_strref: documents that bring the real encoder's running stringref index to the threshold boundaries (24, 256) through different
// mixtures of text strings, byte strings, big numbers and typed arrays, followed by short strings around the minimum lengths and repeated strings;
// encoded with pack_strings and decoded with the real decoder, the round trip must be the identity.  The counterexample's index and length are added.
#include <jsoncons/json.hpp>
#include <jsoncons_ext/cbor/cbor.hpp>
#include "replay_util.hpp"
using namespace jsoncons;
static std::string mk(size_t i, size_t l, char base) { std::string s(l, base); std::string d = std::to_string(i); for (size_t k = 0; k < d.size() && k < l; ++k) s[l - 1 - k] = d[d.size() - 1 - k]; return s; }
static json bs(const std::string& s) { return json(byte_string_arg, byte_string_view((const uint8_t*)s.data(), s.size())); }
int main(int argc, char** argv)
{
    if (argc < 3) return 2;
    vx_replay_inputs in; if (!in.load(argv[2])) return 2;
    std::vector<size_t> targets = {0, 1, 22, 23, 24, 25, 254, 255, 256, 257};
    size_t cx = in.u64("vx_enc.next_stringref_", 0); if (cx <= 70000) targets.push_back(cx);
    std::vector<size_t> lens = {2, 3, 4, 5, 6}; size_t cl = in.u64("return_value_nondet_size", 0); if (cl >= 1 && cl <= 1000) lens.push_back(cl);
    int bad = 0, total = 0; std::string first;
    for (size_t target : targets) for (int mix = 0; mix < 4; ++mix) for (size_t len : lens) for (int kind = 0; kind < 2; ++kind) {
        json doc(json_array_arg);
        // bring the index to `target`: mix 0 text only, 1 byte strings only, 2 alternating, 3 with big numbers in between (each long string or bignum takes one index)
        for (size_t i = 0; i < target; ++i) {
            int w = mix == 0 ? 0 : mix == 1 ? 1 : mix == 2 ? (int)(i % 2) : (int)(i % 3);
            if (w == 0) doc.push_back(mk(i, 12, 't')); else if (w == 1) doc.push_back(bs(mk(i, 12, 'b'))); else doc.push_back(json("1" + mk(i, 30, '0'), semantic_tag::bigint));
        }
        for (int rep = 0; rep < 3; ++rep) for (int v = 0; v < 2; ++v) { std::string s = mk(v, len, v ? 'q' : 'p'); if (kind) doc.push_back(bs(s)); else doc.push_back(s); }
        doc.push_back("tail-string-0001"); doc.push_back("tail-string-0001"); doc.push_back(bs("tail-bytes-0002")); doc.push_back(bs("tail-bytes-0002")); doc.push_back(mk(0, 12, 't'));
        ++total;
        try { std::vector<uint8_t> out; cbor::encode_cbor(doc, out, cbor::cbor_options{}.pack_strings(true)); json back = cbor::decode_cbor<json>(out);
              if (back != doc) { if (!bad) first = "index " + std::to_string(target) + ", mixture " + std::to_string(mix) + ", string length " + std::to_string(len) + (kind ? " (byte strings)" : " (text)"); ++bad; } }
        catch (const std::exception& e) { if (!bad) first = std::string(e.what()) + " at index " + std::to_string(target) + ", mixture " + std::to_string(mix) + ", length " + std::to_string(len); ++bad; }
    }
    if (bad) VX_REPRO(bad << " of " << total << " pack_strings round trips differ, first: " << first);
    VX_NOREPRO("all " << total << " pack_strings round trips are the identity");
}
