/* unit json_depth: nesting limit and bracket matching of basic_json_parser */
#include "vx_common.h"
#include "model_stack.h"
/*@ENUM parse_state@*/
/*@ENUM json_errc@*/
struct json_parser { int level_, max_nesting_depth_, mark_level_; bool more_, cursor_mode_; uint8_t state_; };
enum { VX_EV_begin_object = 1, VX_EV_end_object, VX_EV_begin_array, VX_EV_end_array };
static unsigned vx_events; static int vx_ev_kind; static bool vx_visitor_fails;
static void vx_event(int k, int* ec_p) { vx_events++; vx_ev_kind = k; if (vx_visitor_fails) *ec_p = nondet_int(); }
/* err_handler_ is a user-supplied std::function; the library default (default_json_parsing) returns false for every code except illegal_comment.
 * vx_lenient = 0 models the default, 1 an arbitrary handler */
static bool vx_lenient, vx_err_called; static int vx_err_code;
static bool vx_err_handler(int code) { vx_err_called = true; vx_err_code = code; bool r = nondet_bool(); __CPROVER_assume(!r || vx_lenient); return r; }
static int vx_popped;
static uint8_t vx_pop_state(void) { vx_popped = vx_top.type_; VX_STACK_POP(); return (uint8_t)vx_popped; }
/*@FUNC begin_object@*/
/*@FUNC end_object@*/
/*@FUNC begin_array@*/
/*@FUNC end_array@*/
#ifdef VX_CBMC
static struct json_parser vx_p;
static void setup(void)
{
    vx_p.level_ = nondet_int(); vx_p.max_nesting_depth_ = nondet_int(); vx_p.mark_level_ = nondet_int(); vx_p.more_ = true; vx_p.cursor_mode_ = nondet_bool(); vx_p.state_ = nondet_u8();
    vx_depth = nondet_size(); vx_top.type_ = nondet_u8(); vx_pushes = 0; vx_pops = 0; vx_events = 0; vx_err_called = false;
    vx_lenient = nondet_bool(); vx_visitor_fails = nondet_bool();
}
void h_begin_object(void) { setup(); int ec = 0; begin_object(&vx_p, &ec); }
void h_end_object(void) { setup(); int ec = 0; end_object(&vx_p, &ec); }
void h_begin_array(void) { setup(); int ec = 0; begin_array(&vx_p, &ec); }
void h_end_array(void) { setup(); int ec = 0; end_array(&vx_p, &ec); }
#endif
