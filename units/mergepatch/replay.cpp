// replay for unit mergepatch: apply_merge_patch against a direct transcription of the RFC 7386 pseudocode, and from_diff round trips, over all pairs of small
// documents built from: absent member, null, a number, a string, an array, and nested objects of the same kinds (two names, two levels)
#include <jsoncons/json.hpp>
#include <jsoncons_ext/mergepatch/mergepatch.hpp>
#include "replay_util.hpp"
using namespace jsoncons;
static json ref_merge(json target, const json& patch)   // RFC 7386 section 2
{
    if (patch.is_object()) {
        if (!target.is_object()) target = json(json_object_arg);
        for (const auto& m : patch.object_range()) {
            if (m.value().is_null()) { if (target.contains(m.key())) target.erase(m.key()); }
            else { json old = target.contains(m.key()) ? target[m.key()] : json(json_object_arg); bool had = target.contains(m.key()); json r = had ? ref_merge(old, m.value()) : ref_merge(json::null(), m.value()); target.insert_or_assign(m.key(), r); }
        }
        return target;
    }
    return patch;
}
static bool has_null_member(const json& v) { if (v.is_object()) for (const auto& m : v.object_range()) { if (m.value().is_null() || has_null_member(m.value())) return true; } return false; }
int main(int argc, char** argv)
{
    if (argc < 3) return 2;
    std::vector<json> leaves = {json::null(), json(1), json("s"), json::parse("[1,null]"), json::parse("{}"), json::parse("{\"x\":1}"), json::parse("{\"x\":null}"), json::parse("{\"x\":{\"y\":2}}"), json::parse("{\"x\":1,\"y\":null}")};
    std::vector<json> docs = leaves;
    for (size_t a = 0; a <= leaves.size(); ++a) for (size_t b = 0; b <= leaves.size(); ++b) { json o(json_object_arg); if (a < leaves.size()) o["a"] = leaves[a]; if (b < leaves.size()) o["b"] = leaves[b]; docs.push_back(o); }
    int bad = 0, total = 0; std::string first;
    for (const auto& t : docs) for (const auto& p : docs) {
        ++total; json got = t; mergepatch::apply_merge_patch(got, p); json want = ref_merge(t, p);
        if (got != want) { if (!bad) first = "apply_merge_patch(" + t.to_string() + ", " + p.to_string() + ") gives " + got.to_string() + ", RFC 7386 gives " + want.to_string(); ++bad; }
        if (!has_null_member(p)) { ++total; json d = mergepatch::from_diff(t, p); json back = t; mergepatch::apply_merge_patch(back, d);
            if (back != p) { if (!bad) first = "from_diff(" + t.to_string() + ", " + p.to_string() + ") = " + d.to_string() + " applied to the source gives " + back.to_string(); ++bad; } }
    }
    if (bad) VX_REPRO(bad << " of " << total << " merge-patch results differ from RFC 7386, first: " << first);
    VX_NOREPRO("all " << total << " merge-patch applications and diff round trips agree with RFC 7386");
}
