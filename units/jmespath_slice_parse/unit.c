/* unit jmespath_slice_parse: the states of jmespath_evaluator::compile() that read "[start:stop:step]", "[index]" and "[]" (program slices of the
 * state switch).  What is proved: the slice selector pushed carries exactly the bounds written in its own brackets (absent bound = absent), and the accumulator
 * `slic` is back to the default slice after every push, so that the next selector of the expression starts from nothing. */
#include "vx_common.h"
#include <stdlib.h>
/*@ENUM expr_state@*/
/*@ENUM jmespath_errc@*/
/* jmespath.hpp struct slice: optional start, optional stop, step (default constructor: no start, no stop, step 1) */
struct slice { bool start_has; int64_t start_; bool stop_has; int64_t stop_; int64_t step_; };
static struct slice vx_slice_default(void) { struct slice s; s.start_has = false; s.start_ = 0; s.stop_has = false; s.stop_ = 0; s.step_ = 1; return s; }
#define VX_OPT_EQ(ah, av, bh, bv) (((ah) != 0) == ((bh) != 0) && ((ah) == 0 || (av) == (bv)))
#define VX_SLICE_EQ(a, b) (VX_OPT_EQ((a).start_has, (a).start_, (b).start_has, (b).start_) && VX_OPT_EQ((a).stop_has, (a).stop_, (b).stop_has, (b).stop_) && (a).step_ == (b).step_)
#define VX_IS_DEFAULT(a) ((a).start_has == 0 && (a).stop_has == 0 && (a).step_ == 1)
/* locals and members of compile() */
static struct slice slic;
static const char* p_; static size_t column_, line_;
static char* vx_in; static size_t vx_n, vx_off;
/* buffer: the digits read by the states integer/digit; to_integer over them is under contract in unit integers: here its result is (vx_bufok, vx_bufval) */
static size_t vx_buflen; static int64_t vx_bufval; static bool vx_bufok;
static bool vx_to_integer(int64_t* n) { if (vx_bufok) *n = vx_bufval; return vx_bufok; }
/* state stack */
static uint8_t vx_stk[8]; static int vx_sp;
/* tokens pushed in this step */
enum { K_FLATTEN = 1, K_INDEX, K_SLICE };
static bool vx_tok_failed; /* push_token reported an error of its own */
static int vx_tok_n; static int vx_tok_kind[4]; static int64_t vx_tok_index[4]; static struct slice vx_tok_slice[4];
static void vx_push_token(int kind, int64_t n, int* ec_p) { if (vx_tok_n < 4) { vx_tok_kind[vx_tok_n] = kind; vx_tok_index[vx_tok_n] = n; } vx_tok_n++; if (nondet_bool()) { int e = nondet_int(); __CPROVER_assume(e != 0); *ec_p = e; vx_tok_failed = true; } }
static void vx_push_slice(struct slice s, int* ec_p) { if (vx_tok_n < 4) { vx_tok_kind[vx_tok_n] = K_SLICE; vx_tok_slice[vx_tok_n] = s; } vx_tok_n++; if (nondet_bool()) { int e = nondet_int(); __CPROVER_assume(e != 0); *ec_p = e; vx_tok_failed = true; } }
static void vx_advance_ws(void) { ++p_; ++column_; }
/* ghost: the slice as written so far, updated by the bound that `buffer` holds for this state */
static struct slice vx_old;
/*@FUNC slice_states@*/
#ifdef VX_CBMC
static int vx_ec; static uint8_t vx_state;
static void setup(void)
{
    vx_n = nondet_size(); vx_off = nondet_size(); __CPROVER_assume(vx_off < vx_n && vx_n <= 100000000);
    vx_in = malloc(vx_n); __CPROVER_assume(vx_in != 0);
    p_ = vx_in + vx_off; column_ = nondet_size(); line_ = nondet_size(); __CPROVER_assume(column_ <= SIZE_MAX / 2);
    slic.start_has = nondet_bool(); slic.start_ = nondet_i64(); slic.stop_has = nondet_bool(); slic.stop_ = nondet_i64(); slic.step_ = nondet_i64(); vx_old = slic;
    vx_buflen = nondet_size(); vx_bufval = nondet_i64(); vx_bufok = nondet_bool();
    vx_sp = nondet_int(); __CPROVER_assume(vx_sp >= 1 && vx_sp <= 4); vx_state = nondet_u8(); vx_stk[vx_sp - 1] = vx_state;
    vx_tok_n = 0; vx_ec = 0; vx_tok_failed = false;
}
void h_slice_states(void) { setup(); slice_states(vx_state, &vx_ec); }
#endif
