# U-BSON-NUM, U-BSON-LEN (DESIGN 6): bson_parser::read_value scalar arms, read_string, begin_document / end_document
from core import FuncSpec, CopySpec, EnumSpec, Harness
import common_specs as cs
P = 'include/jsoncons_ext/bson/bson_parser.hpp'
TY = 'include/jsoncons_ext/bson/bson_type.hpp'
AL = {'ec': '(*ec_p)', 'more_': '(self->more_)', 'cursor_mode_': '(self->cursor_mode_)', 'max_nesting_depth_': '(self->max_nesting_depth_)', 'mark_level_': '(self->mark_level_)'}
N = 60
RULES = [
    (r'jsoncons::bson::bson_type::(\w+)', r'bson_type_\1', 0, N), (r'bson_errc::(\w+)', r'bson_errc_\1', 0, N), (r'semantic_tag::(\w+)', r'semantic_tag_\1', 0, N),
    (r'source_\.read\(', 'vx_source_read(', 0, N),
    (r'state_stack_\.back\(\)\.pos', 'vx_top.index_', 0, N), (r'state_stack_\.back\(\)\.length', 'vx_top.length_', 0, N), (r'state_stack_\.size\(\)', 'vx_depth', 0, 4),
    (r'binary::little_to_native<(u?)int(32|64)_t>\(', r'(\1int\2_t)little_to_native_u\2(', 0, 12), (r'binary::little_to_native<double>\(', 'little_to_native_f64(', 0, 1),
    (r'auto (length|val) = ', r'int64_t \1 = ', 0, 8), (r'const auto len = ', 'const int32_t len = ', 0, 1), (r'auto len = ', 'int32_t len = ', 0, 1),
    (r'visitor\.double_value\(res, semantic_tag_none, \*this, ec\);', 'vx_ev(VX_EV_DOUBLE, semantic_tag_none); vx_ev_d = res;', 0, 1),
    (r'visitor\.null_value\(semantic_tag_(\w+), \*this, ec\);', r'vx_ev(VX_EV_NULL, semantic_tag_\1);', 0, 2),
    (r'visitor\.bool_value\(c != 0, semantic_tag_none, \*this, ec\);', 'vx_ev(VX_EV_BOOL, semantic_tag_none); vx_ev_b = (c != 0);', 0, 1),
    (r'visitor\.int64_value\(val, semantic_tag_(\w+), \*this, ec\);', r'vx_ev(VX_EV_INT64, semantic_tag_\1); vx_ev_i = val;', 0, 3),
    (r'visitor\.uint64_value\(val, semantic_tag_none, \*this, ec\);', 'vx_ev(VX_EV_UINT64, semantic_tag_none); vx_ev_u = (uint64_t)val;', 0, 1),
    # strings: read_string is under contract in this unit; UTF-8 validation is unit utf8
    (r'auto sv = read_string\(ec\);', 'struct vx_sv sv = read_string(self, ec_p);', 0, 2),
    (r'auto result = unicode_traits::validate\(sv\.data\(\), sv\.size\(\)\);', 'bool vx_ok = vx_utf8_ok;', 0, 2), (r'result\.ec != unicode_traits::unicode_errc\(\)', '!vx_ok', 0, 2),
    (r'visitor\.string_value\(sv, semantic_tag_(\w+), \*this, ec\);', r'vx_ev(VX_EV_STRING, semantic_tag_\1); vx_ev_len = sv.size;', 0, 2),
    # regex, decimal128, ObjectId, binary: payload handling not under contract (stubs keep the byte accounting)
    (r'text_buffer_\.clear\(\);', '', 0, 3), (r"text_buffer_\.push_back\('/'\);", '', 0, 2), (r'read_cstring\(text_buffer_, ec\);', 'vx_read_cstring(self, ec_p);', 0, 2),
    (r'visitor\.string_value\(text_buffer_, semantic_tag_(\w+), \*this, ec\);', r'vx_ev(VX_EV_STRING, semantic_tag_\1);', 0, 2),
    (r'auto data = source_\.read_span\(len, bytes_buffer_\);', 'size_t vx_data_size = vx_source_read_span((size_t)len); vx_src_pos += 0;', 0, 1), (r'data\.size\(\)', 'vx_data_size', 0, 4),
    (r'visitor\.byte_string_value\(byte_string_view\(data\.data\(\), vx_data_size\), subtype, \*this, ec\);', 'vx_ev(VX_EV_BYTES, subtype); vx_ev_len = vx_data_size;', 0, 1),
    (r'decimal128_t dec;.*?semantic_tag_float128, \*this, ec\);', 'vx_ev(VX_EV_STRING, semantic_tag_float128);', 0, 1),
    (r'oid_t oid\(buf\);\s*to_string\(oid, text_buffer_\);', '', 0, 1),
    (r'sizeof\(uint64_t\)\*2', '16', 0, 1),
    (r'begin_document\(visitor,\s*ec\);', 'vx_begin_document(self, ec_p);', 0, 1), (r'begin_array\(visitor,\s*ec\);', 'vx_begin_array(self, ec_p);', 0, 1),
    # read_string
    (r'return string_view\{\};', 'return (struct vx_sv){0};', 0, 4), (r'auto data = source_\.read_span\(size, text_buffer_\);', 'size_t vx_data_size = vx_source_read_span(size);', 0, 1),
    (r'return string_view\{reinterpret_cast<const char\*>\(data\.data\(\)\), vx_data_size\};', 'return (struct vx_sv){vx_data_size};', 0, 1),
    # begin / end document
    (r'visitor\.begin_object\(semantic_tag_none, \*this, ec\);', 'vx_ev(VX_EV_BEGIN_OBJECT, semantic_tag_none);', 0, 1), (r'visitor\.end_object\(\*this,\s*ec\);', 'vx_ev(VX_EV_END_OBJECT, semantic_tag_none);', 0, 1),
    (r'state_stack_\.emplace_back\(parse_mode::document,length,n\);', 'VX_STACK_EMPLACE(parse_mode_document, (size_t)length); vx_top.index_ = n;', 0, 1),
    (r'state_stack_\.pop_back\(\);', 'VX_BSON_POP();', 0, 1), (r'\blevel\(\)', 'vx_level', 0, 1),
]
P0 = '__CPROVER_old(vx_src_pos)'
AV = '(vx_src_n - %s)' % P0
POS0 = '__CPROVER_old(vx_top.index_)'
SRC_OK = 'vx_src_pos <= vx_src_n && vx_src_n <= VX_SRC_CAP - 16 && *ec_p == 0 && self->more_ && vx_events == 0 && vx_top.index_ <= SIZE_MAX / 4 && vx_depth >= 1 && vx_depth < 1000000'
GH = 'vx_src_pos, *ec_p, self->more_, vx_top, vx_depth, vx_pushes, vx_pops, vx_events, vx_ev_kind, vx_ev_tag, vx_ev_u, vx_ev_i, vx_ev_d, vx_ev_b, vx_ev_len, vx_doc_calls, vx_arr_calls, vx_cstr_calls, vx_str_calls, vx_revealed_pos'
NOEV = '(vx_events == 0)'
def fixed(tcode, n, ev, value, tag='semantic_tag_none'):
    return ('ensures', '[C07][C06][C03] element type 0x%02x: %d payload byte(s), little endian: exactly one event with exactly that value; the bytes consumed are added to the enclosing document\'s count; truncated -> unexpected_eof' % (tcode, n),
            '(type == 0x%02x) ==> (%s >= %d ? (*ec_p == 0 && vx_events == 1 && vx_ev_kind == %s && vx_ev_tag == %s && (%s) && vx_src_pos == %s + %d && vx_top.index_ == %s + %d) : (*ec_p == bson_errc_unexpected_eof && %s && !self->more_))'
            % (tcode, AV, n, ev, tag, value, P0, n, POS0, n, NOEV))
READ_VALUE = [
    ('requires', SRC_OK + ' && vx_doc_calls == 0 && vx_arr_calls == 0'),
    ('assigns', GH),
    fixed(0x01, 8, 'VX_EV_DOUBLE', 'vx_bits64(vx_ev_d) == vx_src_le(%s, 8)' % P0),
    fixed(0x08, 1, 'VX_EV_BOOL', 'vx_ev_b == (vx_src_at(%s) != 0)' % P0),
    fixed(0x10, 4, 'VX_EV_INT64', 'vx_ev_i == (int64_t)(int32_t)(uint32_t)vx_src_le(%s, 4)' % P0),
    fixed(0x12, 8, 'VX_EV_INT64', 'vx_ev_i == (int64_t)vx_src_le(%s, 8)' % P0),
    fixed(0x09, 8, 'VX_EV_INT64', 'vx_ev_i == (int64_t)vx_src_le(%s, 8)' % P0, 'semantic_tag_epoch_milli'),
    fixed(0x11, 8, 'VX_EV_UINT64', 'vx_ev_u == vx_src_le(%s, 8)' % P0),
    ('ensures', '[C07] null (0x0a) and undefined (0x06) carry no payload', '((type == 0x0a) ==> (vx_events == 1 && vx_ev_kind == VX_EV_NULL && vx_ev_tag == semantic_tag_none && vx_src_pos == %s)) && ((type == 0x06) ==> (vx_events == 1 && vx_ev_kind == VX_EV_NULL && vx_ev_tag == semantic_tag_undefined && vx_src_pos == %s))' % (P0, P0)),
    ('ensures', '[C07] embedded document (0x03) and array (0x04) open a container (and nothing else does)', '((vx_doc_calls == 1) == (type == 0x03)) && ((vx_arr_calls == 1) == (type == 0x04))'),
    ('ensures', '[C07] strings (0x02, 0x0d, 0x0e, 0x7f, 0xff) are delivered only if they are valid UTF-8', '((type == 0x02 || type == 0x0d || type == 0x0e || type == 0x7f || type == 0xff) && vx_events == 1) ==> (vx_utf8_ok && vx_ev_kind == VX_EV_STRING && vx_ev_tag == (type == 0x0d ? semantic_tag_code : semantic_tag_none))'),
    ('ensures', '[C07] an element type outside the BSON specification (or the unsupported 0x0c, 0x0f) is unknown_type',
     '(type != 0x01 && type != 0x02 && type != 0x03 && type != 0x04 && type != 0x05 && type != 0x06 && type != 0x07 && type != 0x08 && type != 0x09 && type != 0x0a && type != 0x0b && type != 0x0d && type != 0x0e && type != 0x10 && type != 0x11 && type != 0x12 && type != 0x13 && type != 0x7f && type != 0xff) ==> (*ec_p == bson_errc_unknown_type && %s && !self->more_)' % NOEV),
    ('ensures', '[C07] an error raised here stops the parser; at most one event per element', 'vx_events <= 1 && ((*ec_p == bson_errc_unexpected_eof || *ec_p == bson_errc_unknown_type || *ec_p == bson_errc_length_is_negative || *ec_p == bson_errc_invalid_utf8_text_string) ==> !self->more_)'),
    ('ensures', '[C05] the cursor stays within the input', 'vx_src_pos <= vx_src_n'),
]
LEN = '(int32_t)(uint32_t)vx_src_le(%s, 4)' % P0
READ_STRING = [
    ('requires', SRC_OK), ('assigns', 'vx_src_pos, *ec_p, self->more_, vx_top.index_'),
    ('ensures', '[C07] string ::= int32 (byte*) 0x00, the int32 counting the bytes and the terminator: a length below 1 is rejected',
     '(%s >= 4 && %s < 1) ==> (*ec_p == bson_errc_string_length_is_non_positive && !self->more_)' % (AV, LEN)),
    ('ensures', '[C07][C03] a complete string: length - 1 content bytes are delivered, 4 + length bytes are consumed and added to the enclosing document\'s count',
     '*ec_p == 0 ==> (%s >= 4 && %s >= 1 && __CPROVER_return_value.size == (size_t)%s - 1 && vx_src_pos == %s + 5 && vx_top.index_ == %s + 4 + (size_t)%s)' % (AV, LEN, LEN, P0, POS0, LEN)),
    ('ensures', '[C07] a truncated length is unexpected_eof', '%s < 4 ==> (*ec_p == bson_errc_unexpected_eof && !self->more_)' % AV),
    ('ensures', '[C07][C05] every failure is unexpected_eof or string_length_is_non_positive and stops the parser; the cursor stays within the input',
     '(*ec_p != 0 ==> (!self->more_ && (*ec_p == bson_errc_unexpected_eof || *ec_p == bson_errc_string_length_is_non_positive))) && vx_src_pos <= vx_src_n'),
]
BEGIN_DOC = [
    ('requires', SRC_OK + ' && vx_pushes == 0 && self->max_nesting_depth_ >= 0'), ('assigns', GH),
    ('ensures', '[C10] more open containers than max_nesting_depth: refused before anything is read', '(int)%s > self->max_nesting_depth_ ==> (*ec_p == bson_errc_max_nesting_depth_exceeded && vx_pushes == 0 && vx_events == 0 && vx_src_pos == %s)' % ('__CPROVER_old(vx_depth)', P0)),
    ('ensures', '[C07] otherwise the int32 length (little endian) is read and the document is opened with 4 bytes already counted against it',
     '((int)__CPROVER_old(vx_depth) <= self->max_nesting_depth_ && %s >= 4) ==> (*ec_p == 0 && vx_pushes == 1 && vx_events == 1 && vx_ev_kind == VX_EV_BEGIN_OBJECT && vx_top.type_ == parse_mode_document && vx_top.length_ == (size_t)(int64_t)%s && vx_top.index_ == 4 && vx_src_pos == %s + 4)' % (AV, LEN, P0)),
    ('ensures', '[C07] a truncated length is unexpected_eof', '((int)__CPROVER_old(vx_depth) <= self->max_nesting_depth_ && %s < 4) ==> (*ec_p == bson_errc_unexpected_eof && vx_pushes == 0 && !self->more_)' % AV),
]
END_DOC = [
    ('requires', SRC_OK + ' && vx_depth >= 2 && vx_pops == 0'), ('assigns', GH),
    ('ensures', '[C07] a document whose consumed byte count differs from its declared length is rejected with size_mismatch and is not closed',
     '%s != __CPROVER_old(vx_top.length_) ==> (*ec_p == bson_errc_size_mismatch && vx_pops == 0 && !self->more_)' % POS0),
    ('ensures', '[C07] otherwise it is closed and its bytes are added to the count of the enclosing document',
     '%s == __CPROVER_old(vx_top.length_) ==> (*ec_p == 0 && vx_pops == 1 && vx_top.index_ == vx_revealed_pos + %s)' % (POS0, POS0)),
]
def F(name, anchor, csig, contract):
    return FuncSpec(name, P, anchor, count=1, csig=csig, contract=contract, aliases=AL, rules=RULES)
SPECS = [
    EnumSpec('bson_errc', 'include/jsoncons_ext/bson/bson_error.hpp'), EnumSpec('semantic_tag', 'include/jsoncons/semantic_tag.hpp'), EnumSpec('parse_mode', P),
    CopySpec('bson_types', TY, r'JSONCONS_INLINE_CONSTEXPR uint8_t double_type', r'max_key_type = 0x7f;', include_end=True,
             rules=[(r'JSONCONS_INLINE_CONSTEXPR uint8_t (\w+) = ([^;]+);', r'enum { bson_type_\1 = \2 };', 15, 30)]),
    F('read_string', r'string_view read_string\(std::error_code& ec\)', 'struct vx_sv read_string(struct bson_parser* self, int* ec_p)', READ_STRING),
    F('read_value', r'void read_value\(json_visitor& visitor, uint8_t type, std::error_code& ec\)', 'void read_value(struct bson_parser* self, uint8_t type, int* ec_p)', READ_VALUE),
    F('begin_document', r'void begin_document\(json_visitor& visitor, std::error_code& ec\)', 'void begin_document(struct bson_parser* self, int* ec_p)', BEGIN_DOC),
    F('end_document', r'void end_document\(json_visitor& visitor, std::error_code& ec\)', 'void end_document(struct bson_parser* self, int* ec_p)', END_DOC),
]
GROUPS = {'binary': cs.binary_group(widths=(32, 64), little=True) + [cs.little_to_native_float(64)]}
HARNESSES = [
    Harness('read_string', 'h_read_string', enforce='read_string', method='LF', unwind=10, props=['C07', 'C03']),
    Harness('read_value', 'h_read_value', enforce='read_value', replace=['read_string'], method='LF', unwind=24, props=['C07', 'C06', 'C03'], timeout=900),
    Harness('begin_document', 'h_begin_document', enforce='begin_document', method='LF', unwind=10, props=['C07', 'C10']),
    Harness('end_document', 'h_end_document', enforce='end_document', method='LF', unwind=10, props=['C07']),
]
