/* unit float_width: visit_double of the CBOR, MessagePack and UBJSON encoders */
#define VX_SINK_CAP 16
#include "vx_common.h"
#include "model_sink.h"

/*@ENUM semantic_tag@*/
/*@COPY cbor_units@*/
/*@COPY msgpack_float_types@*/
/*@COPY ubjson_float_types@*/
/*@COPY byte_swap_macros@*/
/*@FUNC byte_swap_u32@*/
/*@FUNC byte_swap_u64@*/
/*@FUNC byte_swap_f32@*/
/*@FUNC byte_swap_f64@*/
/*@FUNC native_to_big_f32@*/
/*@FUNC native_to_big_f64@*/

static uint32_t vx_bits32(float f) { union { float f; uint32_t u; } x; x.f = f; return x.u; }
static uint64_t vx_bits64(double f) { union { double f; uint64_t u; } x; x.f = f; return x.u; }
/* S-FLOAT (RFC 8949 3.3 / MessagePack float 32, float 64 / UBJSON d, D): a floating-point item is a marker byte followed by the IEEE 754 binary32 or
 * binary64 representation in network byte order; a binary32 item denotes the same real number (or infinity, or a NaN) as its widening to binary64.
 * Not derived from jsoncons. */
static uint64_t spec_be(const uint8_t* p, int n) { uint64_t v = 0; for (int i = 0; i < n; ++i) v = (v << 8) | p[i]; return v; }
static double spec_float_item(uint8_t m32, uint8_t m64, const uint8_t* p, size_t n, int* ok)
{
    *ok = 0;
    if (n == 5 && p[0] == m32) { union { float f; uint32_t u; } x; x.u = (uint32_t)spec_be(p + 1, 4); *ok = 1; return (double)x.f; }
    if (n == 9 && p[0] == m64) { union { double f; uint64_t u; } x; x.u = spec_be(p + 1, 8); *ok = 1; return x.f; }
    return 0;
}
static int spec_isnan_item(uint8_t m32, uint8_t m64, const uint8_t* p, size_t n)
{
    if (n == 5 && p[0] == m32) { uint32_t u = (uint32_t)spec_be(p + 1, 4); return (u & 0x7f800000u) == 0x7f800000u && (u & 0x007fffffu) != 0; }
    if (n == 9 && p[0] == m64) { uint64_t u = spec_be(p + 1, 8); return (u & 0x7ff0000000000000ull) == 0x7ff0000000000000ull && (u & 0x000fffffffffffffull) != 0; }
    return 0;
}
static size_t vx_items; static int vx_dec_ok;
static void vx_end_value(void) { vx_items++; }
/* write_tag(1): event (the head writer is under contract in unit cbor_head); records where in the output it happened */
static unsigned vx_tags; static uint64_t vx_tag_val; static size_t vx_tag_at;
static void vx_write_tag(uint64_t t) { vx_tags++; vx_tag_val = t; vx_tag_at = vx_sink_n; }
/* val /= N: the floating division is an event with an unconstrained quotient (machine arithmetic, A-FDIV) */
static unsigned vx_divs; static double vx_div_num, vx_div_q; static int64_t vx_div_den;
#ifdef VX_CBMC
double nondet_double(void);
#endif
static double vx_fdiv(double a, int64_t b)
{
    vx_divs++; vx_div_num = a; vx_div_den = b;
#ifdef VX_CBMC
    vx_div_q = nondet_double();
#else
    vx_div_q = a / (double)b;
#endif
    return vx_div_q;
}
#define VX_WRITTEN (vx_divs ? vx_div_q : __CPROVER_old(val))

/*@FUNC cbor_visit_double@*/
/*@FUNC msgpack_visit_double@*/
/*@FUNC ubjson_visit_double@*/

#ifdef VX_CBMC
void h_cbor_visit_double(void) { vx_sink_n = 0; vx_items = 0; vx_tags = 0; vx_divs = 0; double v = nondet_double(); uint8_t t = nondet_u8(); cbor_visit_double(v, t); }
void h_msgpack_visit_double(void) { vx_sink_n = 0; vx_items = 0; double v = nondet_double(); msgpack_visit_double(v); }
void h_ubjson_visit_double(void) { vx_sink_n = 0; vx_items = 0; double v = nondet_double(); ubjson_visit_double(v); }
#endif
