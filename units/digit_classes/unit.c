/* unit digit_classes: the character-class predicates of read_number.hpp that the JSON number scanner uses, in their wchar_t overloads (the char overloads are
 * table look-ups that the units json_number and integers copy and execute as they are).  For every 32-bit code unit the predicate is true exactly for the ASCII
 * characters RFC 8259 section 6 names: a wide character that is not one of them (for example U+0431, whose low byte is '1') is never taken for a digit. */
#include "vx_common.h"
/*@COPY digit_tables@*/
/*@FUNC is_sign_w@*/
/*@FUNC is_nonzero_digit_w@*/
/*@FUNC is_digit_w@*/
/*@FUNC is_exp_w@*/
/*@FUNC is_fp_w@*/
/*@FUNC is_digit_or_fp_w@*/
#ifdef VX_CBMC
void h_is_sign_w(void) { bool r = is_sign_w(nondet_int()); (void)r; }
void h_is_nonzero_digit_w(void) { bool r = is_nonzero_digit_w(nondet_int()); (void)r; }
void h_is_digit_w(void) { bool r = is_digit_w(nondet_int()); (void)r; }
void h_is_exp_w(void) { bool r = is_exp_w(nondet_int()); (void)r; }
void h_is_fp_w(void) { bool r = is_fp_w(nondet_int()); (void)r; }
void h_is_digit_or_fp_w(void) { bool r = is_digit_or_fp_w(nondet_int()); (void)r; }
#endif
