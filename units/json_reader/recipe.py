# U-JREADER (C03, C02): refill loops of basic_json_reader
from core import FuncSpec, CopySpec, EnumSpec, Harness
R = 'include/jsoncons/json_reader.hpp'
AL = {'ec': '(*ec_p)'}
RULES = [
    (r'source_\.is_error\(\)', 'vx_source_error', 0, 1), (r'json_errc::(\w+)', r'json_errc_\1', 0, 3), (r'parser_\.reset\(\);', 'vx_exhausted = true;', 0, 1),
    (r'parser_\.stopped\(\)', 'nondet_bool()', 0, 1), (r'parser_\.source_exhausted\(\)', 'vx_is_exhausted()', 1, 6),
    (r'auto s = source_\.read_chunk\(ec\);', 'struct vx_chunk s = vx_read_chunk(ec_p);', 1, 3), (r's\.size\(\)', 's.n', 1, 8), (r'parser_\.update\(s\.data\(\),\s*s\.n\);', 'vx_update(s.n);', 1, 3),
    (r'parser_\.parse_some\(visitor_?, ec\);', 'vx_parse_some(ec_p);', 0, 1), (r'parser_\.restart\(\);', '', 0, 1), (r'done_ = true;', 'vx_done = true;', 0, 1), (r'if \(JSONCONS_UNLIKELY\(ec\)\) \{return;\}', 'if (*ec_p) return;', 0, 4), (r'parser_\.enter\(\)', 'nondet_bool()', 0, 1), (r'parser_\.accept\(\)', 'nondet_bool()', 0, 1),
    (r'parser_\.skip_whitespace\(\);', 'vx_skip_ws();', 0, 2), (r'source_\.eof\(\)', 'vx_source_eof', 1, 2), (r'parser_\.check_done\(ec\);', 'vx_check_done(ec_p);', 0, 2),
    (r'while \(!eof\(\)\)', 'while (!(vx_is_exhausted() && vx_source_eof))', 0, 1),
]
INV = '!vx_mon_bad && !vx_pending && *ec_p == 0 && !vx_after_error'
def loop(extra=''):
    return '__CPROVER_assigns(*ec_p, vx_exhausted, vx_pending, vx_source_eof, vx_mon_bad, vx_last_size, vx_reads, vx_updates, vx_parses, vx_checks, vx_after_error%s)\n  __CPROVER_loop_invariant(%s)' % (extra, INV)
PRE = ('requires', '*ec_p == 0 && !vx_pending && !vx_mon_bad && !vx_after_error && vx_reads == 0 && vx_updates == 0 && vx_parses == 0 && vx_checks == 0')
ASG = ('assigns', '*ec_p, vx_done, vx_exhausted, vx_pending, vx_source_eof, vx_mon_bad, vx_last_size, vx_reads, vx_updates, vx_parses, vx_checks, vx_after_error')
POST = [('ensures', '[C03] hand-over discipline: no chunk that was read is left undelivered, none is delivered twice, nothing happens after an error', '!vx_mon_bad && !vx_pending'),
        ('ensures', '[C03][C05] an error of the source or of the parser is passed on unchanged; a source that is already in error is source_error', '(vx_source_error ==> *ec_p == json_errc_source_error) && (vx_after_error ==> *ec_p != 0)')]
SPECS = [
    EnumSpec('json_errc', 'include/jsoncons/json_error.hpp'),
    FuncSpec('read_next', R, r'void read_next\(std::error_code& ec\)', count=1, csig='void read_next(int* ec_p)', contract=[PRE, ASG] + POST, aliases=AL, rules=RULES, loops={0: loop(), 1: loop(), 'count': 2}),
    FuncSpec('cursor_read_next', 'include/jsoncons/json_cursor.hpp', r'void read_next\(basic_json_visitor<CharT>& visitor, std::error_code& ec\)', count=1, csig='void cursor_read_next(int* ec_p)', contract=[PRE, ASG, POST[0], ('ensures', '[C03][C05] an error of the source or of the parser is passed on', 'vx_after_error ==> *ec_p != 0')], aliases=AL, rules=RULES, loops={0: loop(', vx_done'), 'count': 1}),
    FuncSpec('check_done', R, r'void check_done\(std::error_code& ec\)', count=1, csig='void check_done(int* ec_p)', contract=[PRE, ASG] + POST + [('ensures', '[C02] when the input is not at its end, the remaining input is read and checked for trailing content until the end', '(*ec_p == 0 && !vx_source_error) ==> (vx_source_eof && (vx_exhausted || vx_checks >= 1))')],
             aliases=AL, rules=RULES, loops={0: loop(), 'count': 1, 'do_while': True}),
]
HARNESSES = [
    Harness('read_next', 'h_read_next', enforce='read_next', loop_contracts=True, method='LC', props=['C03', 'C02'], expect_classes={'loop_invariant_step': 2}, note='termination of the loops depends on the source reaching its end and is not proved'),
    Harness('cursor_read_next', 'h_cursor_read_next', enforce='cursor_read_next', loop_contracts=True, method='LC', props=['C03'], expect_classes={'loop_invariant_step': 1}, note='basic_json_cursor::read_next, the same loop for pull parsing'),
    Harness('check_done', 'h_check_done', enforce='check_done', loop_contracts=True, method='LC', props=['C03', 'C02'], expect_classes={'loop_invariant_step': 1}),
]
