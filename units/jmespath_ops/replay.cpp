// replay for unit jmespath_ops: a || b, a && b, !a and the six comparison operators over every pair of sample values (null, booleans, numbers, empty and
// non-empty strings, arrays and objects), evaluated by the real jmespath::search, against the rules of the JMESPath specification.
#include <jsoncons/json.hpp>
#include <jsoncons_ext/jmespath/jmespath.hpp>
#include "replay_util.hpp"
using namespace jsoncons;
static bool falselike(const json& v) { return v.is_null() || (v.is_bool() && !v.as_bool()) || (v.is_string() && v.as_string().empty()) || (v.is_array() && v.empty()) || (v.is_object() && v.empty()); }
int main(int argc, char** argv)
{
    if (argc < 3) return 2;
    std::vector<json> vals = {json::null(), json(false), json(true), json(0), json(1), json(-2.5), json(""), json("x"), json::parse("[]"), json::parse("[0]"), json::parse("{}"), json::parse("{\"k\":null}")};
    int bad = 0, total = 0; std::string first;
    auto chk = [&](const json& doc, const std::string& e, const json& want) { ++total; json got; try { got = jmespath::search(doc, e); } catch (const std::exception& ex) { got = json(std::string("EXC ") + ex.what()); }
        if (got != want) { if (!bad) first = e + " on " + doc.to_string() + " gives " + got.to_string() + ", the specification gives " + want.to_string(); ++bad; } };
    for (auto& a : vals) { json d(json_object_arg); d["a"] = a; chk(d, "!a", json(falselike(a)));
        for (auto& b : vals) { d["b"] = b;
            chk(d, "a || b", falselike(a) ? b : a); chk(d, "a && b", falselike(a) ? a : b); chk(d, "a == b", json(a == b)); chk(d, "a != b", json(a != b));
            bool nums = a.is_number() && b.is_number();
            chk(d, "a < b", nums ? json(a.as<double>() < b.as<double>()) : json::null()); chk(d, "a <= b", nums ? json(a.as<double>() <= b.as<double>()) : json::null());
            chk(d, "a > b", nums ? json(a.as<double>() > b.as<double>()) : json::null()); chk(d, "a >= b", nums ? json(a.as<double>() >= b.as<double>()) : json::null()); } }
    if (bad) VX_REPRO(bad << " of " << total << " operator results differ from the JMESPath specification, first: " << first);
    VX_NOREPRO("all " << total << " operator results agree with the JMESPath specification");
}
