// replay for unit object_dedup: parses objects with duplicate member names of many sizes with the real parser and checks that the first occurrence wins
#include <jsoncons/json.hpp>
#include "replay_util.hpp"
using namespace jsoncons;
int main(int argc, char** argv)
{
    if (argc < 3) return 2;
    int bad = 0, total = 0; std::string first_bad;
    for (int n = 2; n <= 80; ++n)
        for (int dup_at = 1; dup_at < n; dup_at += (n > 20 ? 7 : 1))
            for (int of = 0; of < dup_at; of += (n > 20 ? 5 : 1)) {
                // member i has name k<(i*7919)%n padded>, except member dup_at, which repeats the name of member `of`; value = position in the text
                std::string text = "{"; std::vector<std::string> names;
                for (int i = 0; i < n; ++i) { std::string nm = (i == dup_at) ? names[of] : "k" + std::to_string(10000 + ((i * 37) % 101) * 100 + i); names.push_back(nm); text += (i ? "," : "") + std::string("\"") + nm + "\":" + std::to_string(i); }
                text += "}";
                json j = json::parse(text); ++total;
                if (j.size() != (size_t)(n - 1) || j.at(names[of]).as<int>() != of) { if (!bad) first_bad = text.substr(0, 200); ++bad; }
            }
    if (bad) VX_REPRO(bad << " of " << total << " objects with a duplicate member name did not keep the first occurrence, e.g. " << first_bad);
    VX_NOREPRO("in all " << total << " objects the first of the duplicate members won");
}
