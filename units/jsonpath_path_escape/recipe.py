# U-JP-PATHESC (C12): names in normalized paths: escape_string and the parser's quoted-string states against S-JPSTR
from core import FuncSpec, CopySpec, EnumSpec, Harness
U = 'include/jsoncons_ext/jsonpath/jsonpath_utilities.hpp'
P = 'include/jsoncons_ext/jsonpath/jsonpath_parser.hpp'
LOOP = '''__CPROVER_assigns(it, count, vx_k, vx_st, vx_bad, vx_out_n)
  __CPROVER_loop_invariant(__CPROVER_same_object(it, vx_in) && __CPROVER_POINTER_OFFSET(it) <= vx_len && vx_k == __CPROVER_POINTER_OFFSET(it) && vx_st == 0 && !vx_bad && count == vx_out_n && vx_out_n <= 2 * vx_k)
  __CPROVER_decreases(vx_len - __CPROVER_POINTER_OFFSET(it))'''
ESC = [
    ('requires', 'vx_len <= VX_IN_MAX && s == vx_in && length == vx_len && vx_k == 0 && vx_st == 0 && !vx_bad && vx_out_n == 0'),
    ('assigns', 'vx_k, vx_st, vx_bad, vx_out_n'),
    ('ensures', '[C12] the text written, read as the interior of a single-quoted name of a normalized path (RFC 9535), decodes to exactly the name and contains no unescaped quote; the count returned is the number of characters written',
     '!vx_bad && vx_k == vx_len && vx_st == 0 && __CPROVER_return_value == vx_out_n'),
]
N = 40
S0 = 'state'
C = 'vx_in[vx_off]'
PO = '(size_t)(p_ - vx_in)'
QRULES = [
    (r'case path_state::(\w+):', r'case path_state_\1:', 1, N), (r'state_stack_\.pop_back\(\);', 'vx_sp--;', 1, N), (r'state_stack_\.emplace_back\(path_state::(\w+)\);', r'vx_stk[vx_sp++] = path_state_\1;', 0, N),
    (r'state_stack_\.back\(\) = path_state::(\w+);', r'vx_stk[vx_sp - 1] = path_state_\1;', 0, N), (r'buffer\.push_back\(([^;]+)\);', r'vx_buf_push(\1);', 1, N),
    (r'ec = jsonpath_errc::(\w+);\s*return path_expression_type\(alloc_\);', r'*ec_p = jsonpath_errc_\1; return;', 0, N),
]
QUOTED = [
    ('requires', 'p_ == vx_in + vx_off && vx_off < vx_n && vx_n <= VX_IN_MAX && column_ <= SIZE_MAX / 2 && *ec_p == 0 && vx_pushes == 0 && vx_sp >= 2 && vx_sp <= 5 && vx_stk[vx_sp - 1] == state'),
    ('requires', 'state == path_state_single_quoted_string || state == path_state_quoted_string_escape_char'),
    ('assigns', '*ec_p, p_, column_, vx_sp, __CPROVER_object_whole(vx_stk), vx_pushes, vx_pushed, vx_spec_r'),
    ('ensures', '[C12] inside a single-quoted name the parser is the S-JPSTR decoder: a decoded character is appended, the escape character waits for the next one, an unescaped quote closes the name, an unknown escape is an error',
     '(vx_spec_r >= 0 ? (vx_pushes == 1 && (unsigned char)vx_pushed == vx_spec_r && *ec_p == 0 && %s == vx_off + 1) : vx_pushes == 0) '
     '&& ((vx_spec_r == -2 && state == path_state_quoted_string_escape_char) ==> *ec_p == jsonpath_errc_illegal_escaped_character) '
     '&& ((vx_spec_r == -2 && state == path_state_single_quoted_string) ==> (*ec_p == 0 && vx_sp == __CPROVER_old(vx_sp) - 1 && %s == vx_off + 1)) '
     '&& (vx_spec_r == -1 ==> (*ec_p == 0 && vx_sp == __CPROVER_old(vx_sp) + 1 && vx_stk[vx_sp - 1] == path_state_quoted_string_escape_char && %s == vx_off + 1)) '
     '&& ((vx_spec_r >= 0 && state == path_state_quoted_string_escape_char) ==> vx_sp == __CPROVER_old(vx_sp) - 1) && ((vx_spec_r >= 0 && state == path_state_single_quoted_string) ==> vx_sp == __CPROVER_old(vx_sp)) '
     '&& (vx_spec_r == -3 ==> (*ec_p == 0 && vx_stk[vx_sp - 1] == path_state_escape_u1 && %s == vx_off + 1))' % (PO, PO, PO, PO)),
]
SIG = r'path_expression_type compile\(static_resources<value_type>& resources,\s*const string_view_type& path,\s*std::error_code& ec\)'
SPECS = [
    EnumSpec('path_state', P), EnumSpec('jsonpath_errc', 'include/jsoncons_ext/jsonpath/jsonpath_error.hpp'),
    FuncSpec('escape_string', U, r'std::size_t escape_string\(const CharT\* s, std::size_t length, Sink& sink\)', count=1, csig='size_t escape_string(const char* s, size_t length)', contract=ESC,
             rules=[(r'\bconst CharT\*', 'const char*', 3), (r'\bCharT c\b', 'char c', 1), (r'sink\.push_back\(', 'vx_esc_out(', 10, 20)], loops={0: LOOP, 'count': 1}),
    FuncSpec('quoted_string_states', P, SIG, count=1, csig='void quoted_string_states(uint8_t state, int* ec_p)', contract=QUOTED, rules=QRULES,
             slice_from=r'case path_state::single_quoted_string:', slice_to=r'case path_state::double_quoted_string:',
             prologue='int vx_st1 = (state == path_state_quoted_string_escape_char); vx_spec_r = spec_jp_sq_step(&vx_st1, *p_); switch (state) {',
             epilogue='default: break; } VX_ESCAPE_CHAR_STATE(state, ec_p);'),
    FuncSpec('escape_char_state', P, SIG, count=1, csig='void escape_char_state(uint8_t state, int* ec_p)', contract=[('assigns', '*ec_p, p_, column_, vx_sp, __CPROVER_object_whole(vx_stk), vx_pushes, vx_pushed')], rules=QRULES,
             slice_from=r'case path_state::quoted_string_escape_char:', slice_to=r'case path_state::escape_u1:', prologue='switch (state) {', epilogue='default: break; }'),
]
HARNESSES = [
    Harness('escape_string', 'h_escape_string', enforce='escape_string', loop_contracts=True, method='LC', props=['C12'], expect_classes={'loop_invariant_step': 1}),
    Harness('quoted_string_states', 'h_quoted_string_states', enforce='quoted_string_states', method='LF', props=['C12'],
            note='two program slices of compile(): the state single_quoted_string and the state quoted_string_escape_char (the second is called from the first slice\'s epilogue so that one contract covers both)'),
]
