// replay for unit json_compact_encoder: random well-formed event sequences pushed into the real compact JSON encoder; the text must be accepted by the
// strict parser and denote the same value as the one a json_decoder builds from the same events
#include <jsoncons/json.hpp>
#include "replay_util.hpp"
#include <random>
using namespace jsoncons;
static std::mt19937 rng(99);
static void gen(json_visitor& a, json_visitor& b, int depth)
{
    auto both = [&](auto f) { f(a); f(b); };
    int k = rng() % (depth > 3 ? 6 : 8);
    switch (k) {
    case 0: both([](json_visitor& v) { v.null_value(); }); break;
    case 1: { bool x = rng() % 2; both([x](json_visitor& v) { v.bool_value(x); }); break; }
    case 2: { int64_t x = (int64_t)rng() - (1ll << 31); both([x](json_visitor& v) { v.int64_value(x); }); break; }
    case 3: { uint64_t x = ((uint64_t)rng() << 32) | rng(); both([x](json_visitor& v) { v.uint64_value(x); }); break; }
    case 4: { double x = (double)(int)rng() / 7.0; both([x](json_visitor& v) { v.double_value(x); }); break; }
    case 5: { std::string s = "s" + std::to_string(rng() % 100) + "\"\\\n"; both([s](json_visitor& v) { v.string_value(s); }); break; }
    case 6: { int n = rng() % 4; both([](json_visitor& v) { v.begin_array(); }); for (int i = 0; i < n; ++i) gen(a, b, depth + 1); both([](json_visitor& v) { v.end_array(); }); break; }
    default: { int n = rng() % 4; both([](json_visitor& v) { v.begin_object(); }); for (int i = 0; i < n; ++i) { std::string key = "k" + std::to_string(i); both([key](json_visitor& v) { v.key(key); }); gen(a, b, depth + 1); } both([](json_visitor& v) { v.end_object(); }); break; }
    }
}
int main(int argc, char** argv)
{
    if (argc < 3) return 2;
    int bad = 0; std::string first;
    for (int it = 0; it < 20000; ++it) {
        std::string text; compact_json_string_encoder enc(text); json_decoder<json> dec;
        gen(enc, dec, 0); enc.flush(); dec.flush();
        try { json back = json::parse(text); json want = dec.get_result(); if (back != want) { if (!bad) first = text.substr(0, 200); ++bad; } }
        catch (const std::exception& e) { if (!bad) first = std::string(e.what()) + ": " + text.substr(0, 200); ++bad; }
    }
    if (bad) VX_REPRO(bad << " event sequences produced text that is not well-formed or denotes another value, first: " << first);
    VX_NOREPRO("20000 random event sequences produce well-formed compact JSON denoting the pushed value");
}
