#!/usr/bin/env python3
# bin/check <Cxx> --tier quick|thorough     decide one property
# bin/check --replay <file>                 re-run a recorded counterexample against the real code
# Exit codes (DESIGN 11.3): 0 held / only known findings, 1 VIOLATION, 2 CHECK-BROKEN.
import os, sys, json, time, re, argparse, subprocess, hashlib
sys.path.insert(0, os.path.dirname(os.path.abspath(__file__)))
import core, units
from core import Broken
from concurrent.futures import ThreadPoolExecutor

VERIF = core.VERIF
PROPS = ['C%02d' % i for i in range(1, 21)]


def relevant(o, prop, hprops):
    """Is obligation o an obligation of property prop? (DESIGN 3.2 step 5)"""
    if o['class'] in ('unwinding', 'no-body'):
        return False
    if o['tags']:
        # a tagged obligation belongs to the properties it names, and to every property its harness is declared to serve (vx/units.py ALSO_SERVES and the
        # harness's own list): a function's contract is evidence for each property that rests on that function
        return prop in o['tags'] or (prop in hprops and o['class'] not in ('safety', 'assigns'))
    if o['class'] == 'safety' or o['class'] == 'assigns':
        return prop == 'C05'
    # untagged functional obligation (contract clause without tag, loop invariants, decreases):
    return prop in hprops


def load_known():
    p = os.path.join(VERIF, 'known_findings.json')
    if not os.path.exists(p):
        return []
    with open(p) as f:
        return json.load(f).get('findings', [])


def trace_inputs(trace, entry):
    """assignments made by the harness before the function under test is entered"""
    kv = []
    for s in trace:
        if s.get('stepType') == 'function-call':
            fn = s.get('function', {}).get('identifier', '')
            continue
        if s.get('stepType') != 'assignment' or s.get('hidden'):
            continue
        fn = s.get('sourceLocation', {}).get('function')
        if (fn or '').startswith('__CPROVER'):
            continue
        lhs = s.get('lhs', '')
        if fn not in (None, entry) and not (fn or '').startswith(('havoc', 'vx_set', 'nondet', 'setup')):
            continue
        if lhs.endswith('_wrapper'):
            break
        if lhs.startswith('__') or lhs.startswith('return_value_') or '$' in lhs:
            continue
        v = s.get('value', {})

        def emit(name, v):
            if 'data' in v:
                kv.append((name, str(v['data'])))
                if v.get('type') in ('double', 'float') and re.fullmatch(r'[01]+', v.get('binary', '')):
                    kv.append((name + '#bits', str(int(v['binary'], 2))))   # the exact bit pattern (NaN payloads, -0.0)
            elif 'elements' in v:
                for e in v['elements']:
                    emit('%s[%s]' % (name, e.get('index')), e.get('value', {}))
            elif 'members' in v:
                for e in v['members']:
                    emit('%s.%s' % (name, e.get('name')), e.get('value', {}))
        emit(re.sub(r'\[(\d+)l\]', r'[\1]', lhs), v)
    # last assignment wins
    d = {}
    for k, val in kv:
        val = re.sub(r'(?<=\d)(ul|l|u|ll|ull)$', '', val)
        d[k] = val
    return d


def build_replay(unit_dir, name):
    src = os.path.join(unit_dir, 'replay.cpp')
    if not os.path.exists(src):
        return None
    exe = os.path.join(core.OUT, 'replay', name + '.replay')
    os.makedirs(os.path.dirname(exe), exist_ok=True)
    cmd = ['g++', '-std=c++17', '-O1', '-g', '-fno-access-control', '-fsanitize=address,undefined', '-fno-sanitize-recover=undefined',
           '-I', os.path.join(core.REPO, 'include'), '-I', os.path.join(VERIF, 'spec'), '-I', os.path.join(VERIF, 'model'),
           '-I', os.path.join(VERIF, 'vx'), src, '-o', exe]
    rc, so, se, dt = core.run(cmd, 600)
    if rc != 0:
        return ('build-failed', se[-3000:])
    return exe


def do_replay(path):
    """Run the unit's replay program on a replay file; returns (reproduced?, output)."""
    with open(path) as f:
        txt = f.read()
    m = re.search(r'^unit=(\S+)', txt, re.M)
    h = re.search(r'^harness=(\S+)', txt, re.M)
    if not m or not h:
        return None, 'replay file has no unit=/harness= lines'
    unit_dir = os.path.join(units.UNITS_DIR, m.group(1))
    exe = build_replay(unit_dir, m.group(1))
    if exe is None:
        return None, 'unit %s has no replay program' % m.group(1)
    if isinstance(exe, tuple):
        return None, 'replay program does not build against the current tree: ' + exe[1]
    rc, so, se, dt = core.run([exe, h.group(1), path], 120)
    out = (so + se)[-6000:]
    if 'REPRODUCED' in so and 'NOT-REPRODUCED' not in so:
        return True, out
    if rc not in (0,) and rc != 'timeout' and ('AddressSanitizer' in se or 'runtime error' in se):
        return True, out
    return False, out


def run_probes(prop, known):
    """Finding probes (DESIGN 11.4): programs under /verif/probes replay recorded failing inputs, and their neighbours, on the real code.  A case that fails
    and is listed as an open finding is a KNOWN-FINDING; a case that fails and is not listed is a violation; listed cases that hold are only noted."""
    pdir = os.path.join(VERIF, 'probes')
    rows, vios, notes, hits = [], [], [], []
    try:
        reg = json.load(open(os.path.join(pdir, 'probes.json')))
    except Exception:
        return rows, vios, notes, hits, []
    broken = []
    for name, meta in sorted(reg.items()):
        if prop not in meta.get('properties', []):
            continue
        src = os.path.join(pdir, name + '.cpp')
        exe = os.path.join(core.OUT, 'replay', 'probe-' + name)
        os.makedirs(os.path.dirname(exe), exist_ok=True)
        rc, so, se, dt = core.run(['g++', '-std=c++17', '-O0', '-I', os.path.join(core.REPO, 'include'), src, '-o', exe], 600)
        if rc != 0:
            broken.append('finding probe %s does not build against the current tree: %s' % (name, se[-600:]))
            continue
        rc, so, se, dt = core.run([exe], 300)
        seen = 0
        for line in so.splitlines():
            m = re.match(r'PROBE (\S+) (HOLDS|FAILS)(?:: (.*))?$', line)
            if not m:
                continue
            seen += 1
            case, verdict, detail = m.group(1), m.group(2), (m.group(3) or '')
            kf = [k for k in known if k.get('status', 'open') == 'open' and k.get('probe') == name and k.get('case') == case]
            rows.append({'probe': name, 'case': case, 'result': verdict.lower(), 'listed_finding': kf[0]['id'] if kf else None})
            if verdict == 'FAILS' and kf:
                hits.append((kf[0], detail))
            elif verdict == 'FAILS':
                rp = os.path.join(core.OUT, 'replay', '%s-probe-%s-%s.replay.txt' % (prop, name, case))
                with open(rp, 'w') as f:
                    f.write('property=%s\nprobe=%s\ncase=%s\n# the recorded input fails on the real code (not a listed finding):\n# %s\n# rerun: g++ -std=c++17 -I /repo/include %s -o probe && ./probe %s\n' % (prop, name, case, detail, src, case))
                vios.append((name, case, detail, rp))
            elif kf:
                notes.append('finding %s (%s/%s) no longer fails on this tree' % (kf[0]['id'], name, case))
        if rc != 0 or seen == 0:
            broken.append('finding probe %s did not run to the end (exit %s): %s' % (name, rc, (se or so)[-400:]))
    return rows, vios, notes, hits, broken


def handle_failure(prop, mod, h, res, o, ctext, info, idx):
    """DESIGN 3.5: failed obligation -> trace -> replay file -> replay on the real code."""
    rdir = os.path.join(core.OUT, 'replay')
    os.makedirs(rdir, exist_ok=True)
    path = os.path.join(rdir, '%s-%s-%s-%d.replay.txt' % (prop, mod.NAME, h.name, idx))
    lines = ['# replay file written by /verif/bin/check', 'property=' + prop, 'unit=' + mod.NAME, 'harness=' + h.name,
             'obligation=' + o['name'], 'class=' + o['class'], 'where=%s:%s' % (o['file'], o['line']),
             'description=' + o['desc'].replace('\n', ' ')]
    # counterexample minimisation (DESIGN 3.5 step 2): first with -DVX_SMALL (small sizes), then unrestricted
    inputs = {}
    for extra in (('VX_SMALL',), ()):
        tr = units.run_harness(mod, h, ctext, info, trace_prop=o['name'], extra_defines=extra)
        if tr.get('status') == 'ok':
            for oo in tr['obligations']:
                if oo['name'] == o['name'] and oo.get('trace') and oo['status'] != 'SUCCESS':
                    inputs = trace_inputs(oo['trace'], h.entry)
        if inputs:
            lines.append('# counterexample obtained %s' % ('under -DVX_SMALL (minimised)' if extra else 'without size restriction'))
            break
    lines.append('# counterexample inputs from the verifier (%d values)' % len(inputs))
    for k, v in inputs.items():
        lines.append('in %s=%s' % (k, v))
    lines.append('# verifier: ' + res['cmds'][2])
    lines.append('# verifier verdict for this obligation: %s' % o['status'])
    with open(path, 'w') as f:
        f.write('\n'.join(lines) + '\n')
    # the replay programs sweep a neighbourhood of the counterexample (several sweep their whole input domain), so they are run also when the trace
    # names no input variable (e.g. a harness that passes a nondeterministic value straight into the function)
    rep, out = do_replay(path)
    if not inputs and rep is None:
        out = 'no counterexample trace; ' + out
    with open(path, 'a') as f:
        f.write('# replay against the real code: %s\n' % ('REPRODUCED' if rep else 'not reproduced' if rep is False else 'not run'))
        for l in (out or '').splitlines()[-40:]:
            f.write('#   ' + l + '\n')
    return path, bool(rep)


def main():
    ap = argparse.ArgumentParser()
    ap.add_argument('prop', nargs='?')
    ap.add_argument('--tier', default=os.environ.get('VERIF_TIER', 'quick'))
    ap.add_argument('--replay')
    ap.add_argument('-j', type=int, default=int(os.environ.get('VX_JOBS', '16')))
    ap.add_argument('--units', help='comma separated subset of units (debugging)')
    a = ap.parse_args()
    if a.replay:
        rep, out = do_replay(a.replay)
        print(out)
        if rep:
            print('REPRODUCED on the real code')
            sys.exit(1)
        print('not reproduced' if rep is False else 'replay not possible')
        sys.exit(0 if rep is False else 2)
    prop = a.prop
    if prop not in PROPS:
        print('usage: check Cxx --tier quick|thorough')
        sys.exit(2)
    tier = 'thorough' if a.tier == 'thorough' else 'quick'
    seed = int(os.environ.get('VERIF_SEED', '0') or 0)
    t0 = time.time()
    broken = []
    jobs = []
    site_facts = []
    for un in units.all_units():
        if a.units and un not in a.units.split(','):
            continue
        try:
            mod = units.load_unit(un)
        except Exception as e:
            broken.append('unit %s does not load: %s' % (un, e))
            continue
        hs = [h for h in mod.HARNESSES if (prop in h.props or prop == 'C05') and (tier == 'thorough' or h.tier == 'quick')]
        if not hs:
            continue
        try:
            ctext, info = units.assemble_unit(mod)
            for sc in getattr(mod, 'SITE_CHECKS', []):
                if prop in sc['props'] or prop == 'C05':
                    try:
                        site_facts.append(core.site_check(un, sc))
                    except Broken as e:
                        broken.append(str(e))
        except Broken as e:
            broken.append(str(e))
            continue
        for h in hs:
            jobs.append((mod, h, ctext, info))
    # longest first (expected solver time from the last full run, vx/costs.json; a scheduling hint only)
    try:
        _costs = json.load(open(os.path.join(VERIF, 'vx', 'costs.json')))
    except Exception:
        _costs = {}
    jobs.sort(key=lambda j: -_costs.get('%s/%s' % (j[0].NAME, j[1].name), 1.0))
    results = []
    with ThreadPoolExecutor(a.j) as ex:
        futs = [(j, ex.submit(units.run_harness, *j)) for j in jobs]
        for j, f in futs:
            try:
                results.append((j, f.result()))
            except Exception as e:
                broken.append('%s/%s: driver exception %r' % (j[0].NAME, j[1].name, e))
    known = load_known()
    n_obl = n_ok = 0
    bounded_obl = bounded_ok = 0
    unit_rows = []
    violations = []
    known_hit = []
    samples = []
    solver_s = 0.0
    for (mod, h, ctext, info), res in results:
        if res.get('status') != 'ok':
            broken.append('%s/%s: %s' % (mod.NAME, h.name, res.get('reason', '?')[:1500]))
            continue
        hprops = set(h.props) | {'C05'}
        obl = res['obligations']
        # vacuity guard (DESIGN 3.2 step 6a)
        # (cbmc reports obligations behind a definite failure - e.g. after a division by zero - as UNKNOWN; an UNKNOWN unwinding assertion next to a FAILURE is
        # such a consequence, not a bound that is too small)
        any_failure = any(o['status'] == 'FAILURE' for o in obl)
        unw = [o for o in obl if o['class'] == 'unwinding' and (o['status'] == 'FAILURE' or (o['status'] != 'SUCCESS' and not any_failure))]
        if unw:
            broken.append('%s/%s: unwinding assertion failed (%s): bound too small, result would be vacuous' % (mod.NAME, h.name, unw[0]['name']))
            continue
        nb = [o for o in obl if o['class'] == 'no-body' and o['status'] != 'SUCCESS']
        if nb or any('no body for' in w for w in res.get('warnings', [])):
            broken.append('%s/%s: call to a function without body (%s)' % (mod.NAME, h.name, (nb[0]['desc'] if nb else res['warnings'][0])))
            continue
        if any('ignoring' in w for w in res.get('warnings', [])):
            broken.append('%s/%s: solver dropped a quantifier: %s' % (mod.NAME, h.name, res['warnings'][0]))
            continue
        classes = {}
        for o in obl:
            classes[o['class']] = classes.get(o['class'], 0) + 1
        if len(obl) < h.min_obligations:
            broken.append('%s/%s: only %d obligations generated (expected >= %d)' % (mod.NAME, h.name, len(obl), h.min_obligations))
            continue
        for cl, n in (h.expect_classes or {}).items():
            if classes.get(cl, 0) < n:
                broken.append('%s/%s: %d obligations of class %s, expected >= %d (dropped contract?)' % (mod.NAME, h.name, classes.get(cl, 0), cl, n))
        # cbmc reports UNKNOWN for obligations it leaves undecided behind a failed one (e.g. after a failed loop-invariant step): with a FAILURE in the
        # same harness they are consequences and only the FAILUREs are reported; without one the run decided nothing for them -> CHECK-BROKEN
        unk = [o for o in obl if o['status'] == 'UNKNOWN']
        if unk and not any(o['status'] == 'FAILURE' for o in obl):
            broken.append('%s/%s: %d obligations UNKNOWN without any FAILURE (e.g. %s)' % (mod.NAME, h.name, len(unk), unk[0]['name']))
            continue
        obl = [o for o in obl if o['status'] != 'UNKNOWN']
        rel = [o for o in obl if relevant(o, prop, hprops)]
        # obligations that a listed open finding says fail on this tree (DESIGN 11.4) are reported as KNOWN-FINDING and are
        # not counted among the obligations of the proof claim (neither as obligations nor as discharged)
        def known_for(o):
            for k in known:
                if k.get('status', 'open') == 'open' and k.get('unit') == mod.NAME and k.get('harness') == h.name and k.get('obligation') and k['obligation'] in o['desc']:
                    return k
            return None
        kf_fail = [(known_for(o), o) for o in rel if o['status'] != 'SUCCESS' and known_for(o)]
        known_hit += kf_fail
        rel = [o for o in rel if not (o['status'] != 'SUCCESS' and known_for(o))]
        ok = [o for o in rel if o['status'] == 'SUCCESS']
        solver_s += res.get('solver_s', 0)
        if h.bounded:
            bounded_obl += len(rel)
            bounded_ok += len(ok)
        else:
            n_obl += len(rel)
            n_ok += len(ok)
        for o in rel:
            if o['class'] != 'safety' and len(samples) < 6 and o['status'] == 'SUCCESS' and o['desc'] not in [s['obligation'] for s in samples]:
                samples.append({'unit': mod.NAME, 'harness': h.name, 'obligation': o['desc'][:300], 'id': o['name'],
                                'where': '%s:%s' % (o['file'], o['line']), 'status': o['status']})
        unit_rows.append({'unit': mod.NAME, 'harness': h.name, 'method': h.method, 'bounded': h.bounded,
                          'function_under_contract': h.enforce, 'callees_replaced_by_contract': list(h.replace),
                          'obligations_total': len(obl), 'obligations_for_property': len(rel), 'discharged_for_property': len(ok),
                          'by_class': classes, 'backend': 'cbmc 6.11 SAT (%s)' % (h.solver or 'minisat'),
                          'solver_s': res.get('solver_s'), 'cached': bool(res.get('cached')),
                          'extracted': {k: {'file': v['file'], 'lines': v['lines'], 'sha256_body': v['sha256_body'][:16],
                                            'rules_fired': sum(n for _, n in v['rules_fired']), **({'slice': v['slice']} if v.get('slice') else {})}
                                        for k, v in res['functions'].items()},
                          'note': h.note})
        for i, o in enumerate([o for o in rel if o['status'] != 'SUCCESS']):
            violations.append((mod, h, res, o, ctext, info))
    wall = time.time() - t0
    out_lines = []
    exit_code = 0
    vio_rows = []
    if broken:
        for b in broken:
            print('CHECK-BROKEN property=%s %s' % (prop, b))
        exit_code = 2
    probe_rows, probe_vios, probe_notes, probe_hits, probe_broken = run_probes(prop, known)
    for b in probe_broken:
        print('CHECK-BROKEN property=%s %s' % (prop, b)); broken.append(b)
        exit_code = 2
    seen_k = set()
    for kf, detail in probe_hits:
        if kf['id'] not in seen_k:
            seen_k.add(kf['id'])
            print('KNOWN-FINDING: property=%s %s: %s' % (prop, kf['id'], kf['what']))
    for n in probe_notes:
        print('NOTE property=%s %s' % (prop, n))
    for kf, o in known_hit:
        if kf['id'] not in seen_k:
            seen_k.add(kf['id'])
            print('KNOWN-FINDING: property=%s %s: %s' % (prop, kf['id'], kf['what']))
    for name, case, detail, rp in probe_vios:
        print('VIOLATION property=%s replay=%s' % (prop, rp))
        print('  finding probe %s, case %s fails on the real code and is not a listed finding: %s' % (name, case, detail[:300]))
        vio_rows.append({'unit': 'probe:' + name, 'harness': case, 'obligation': 'finding-probe', 'desc': detail[:300], 'replay': rp, 'reproduced_on_real_code': True})
        exit_code = 1
    if violations:
        # one replay per (unit, harness), first failing obligation; all failing obligations are listed
        done = {}
        for idx, (mod, h, res, o, ctext, info) in enumerate(violations):
            key = (mod.NAME, h.name)
            if key not in done:
                try:
                    path, rep = handle_failure(prop, mod, h, res, o, ctext, info, len(done))
                except Exception as e:
                    path, rep = os.path.join(core.OUT, 'replay', 'error-%s-%s.txt' % key), False
                    os.makedirs(os.path.dirname(path), exist_ok=True)
                    open(path, 'w').write('property=%s\nunit=%s\nharness=%s\nobligation=%s\ndescription=%s\n# replay machinery failed: %r\n' %
                                          (prop, mod.NAME, h.name, o['name'], o['desc'], e))
                done[key] = (path, rep)
                print('VIOLATION property=%s replay=%s%s' % (prop, path, '' if rep else ' no-failing-input-found'))
            print('  failed obligation: %s/%s %s [%s] %s:%s %s' % (mod.NAME, h.name, o['name'], o['class'], o['file'], o['line'], o['desc'][:200]))
            vio_rows.append({'unit': mod.NAME, 'harness': h.name, 'obligation': o['name'], 'desc': o['desc'][:300],
                             'replay': done[key][0], 'reproduced_on_real_code': done[key][1]})
        exit_code = 1 if exit_code == 0 else exit_code
        if broken:
            exit_code = 2 if not violations else 1
    # thorough tier only: run the native replay program of every unit that serves the property without a counterexample, i.e. over its whole built-in
    # neighbourhood (several sweep their entire input domain).  This is a sampled / bounded differential check of the real C++ code against the same
    # specification, not a proof; it is reported separately and never counted among the discharged obligations.  A disagreement is a failing input on
    # the real code and is reported as a violation.
    sweeps = []
    if tier == 'thorough':
        first_h = {}
        for (mod, h, ctext, info), res in results:
            first_h.setdefault(mod.NAME, h.name)
        rdir = os.path.join(core.OUT, 'replay'); os.makedirs(rdir, exist_ok=True)
        todo = []
        for un, hn in sorted(first_h.items()):
            if not os.path.exists(os.path.join(VERIF, 'units', un, 'replay.cpp')):
                continue
            spath = os.path.join(rdir, 'sweep-%s-%s.replay.txt' % (prop, un))
            with open(spath, 'w') as f:
                f.write('# replay sweep written by /verif/bin/check (thorough tier): no counterexample, the replay program runs over its whole neighbourhood\nproperty=%s\nunit=%s\nharness=%s\n' % (prop, un, hn))
            todo.append((un, hn, spath))
        with ThreadPoolExecutor(min(12, a.j)) as ex:   # the replay programs are compiled (g++ with sanitizers) and run in parallel
            outs = list(ex.map(lambda t: do_replay(t[2]), todo))
        for (un, hn, spath), (rep, out) in zip(todo, outs):
            last = [l for l in out.strip().splitlines() if 'REPRODUCED' in l][-1:] or out.strip().splitlines()[-1:]
            with open(spath, 'a') as f:
                f.write('# replay against the real code: %s\n' % ('REPRODUCED' if rep else 'not reproduced' if rep is False else 'not run'))
                f.write(''.join('#   ' + l + '\n' for l in out.strip().splitlines()[-20:]))
            sweeps.append({'unit': un, 'result': 'disagrees' if rep else 'agrees' if rep is False else 'not run', 'summary': (last[0] if last else '')[:300]})
            if rep:
                print('VIOLATION property=%s replay=%s' % (prop, spath))
                print('  replay sweep of unit %s on the real code: %s' % (un, (last[0] if last else '')[:300]))
                vio_rows.append({'unit': un, 'harness': hn, 'obligation': 'replay-sweep', 'desc': (last[0] if last else '')[:300], 'replay': spath, 'reproduced_on_real_code': True})
                exit_code = 1
            elif rep is None:
                broken.append('replay sweep of unit %s could not run: %s' % (un, out[-300:]))
                print('CHECK-BROKEN property=%s replay sweep of unit %s could not run' % (prop, un))
                exit_code = exit_code or 2
    # thorough tier only: vacuity guard by location coverage (vx/cover.py) - a function under contract in which cbmc cannot reach two or more source lines
    # under the harness's preconditions holds its obligations vacuously there; that is a defect of the check (contradictory or too narrow precondition),
    # reported as CHECK-BROKEN.  Harnesses whose last solver time exceeds 120 s are skipped (stated in the evidence).
    vacuity = []
    if tier == 'thorough':
        import cover
        cs = cover.costs()
        cj = [(mod.NAME, h) for (mod, h, ctext, info), res in results if res.get('status') == 'ok' and h.dfcc and h.enforce and cs.get('%s/%s' % (mod.NAME, h.name), 1) <= 120
              and not any(v[1].name == h.name and v[0].NAME == mod.NAME for v in violations)]
        with ThreadPoolExecutor(min(12, a.j)) as ex:
            couts = list(ex.map(lambda j: cover.unreached(*j), cj))
        skipped = len(results) - len(cj)
        for (un, h), (dead, msg) in zip(cj, couts):
            if dead is None:
                vacuity.append({'unit': un, 'harness': h.name, 'result': 'not run: ' + msg})
                continue
            n = sum(len(l) for l in dead.values())
            vacuity.append({'unit': un, 'harness': h.name, 'unreached_lines': n})
            if n > 1:
                b = '%s/%s: %d source lines of %s are unreachable under the preconditions (%s): obligations there hold vacuously' % (un, h.name, n, h.enforce, '; '.join('%s:%s' % (f, ','.join(map(str, l[:12]))) for f, l in dead.items()))
                broken.append(b); print('CHECK-BROKEN property=%s %s' % (prop, b)); exit_code = exit_code or 2
    tb = trusted_base(unit_rows)
    ev = {
        'property_id': prop, 'tier': tier, 'seed': seed, 'level': 'proof',
        'coverage': {
            'obligations': n_obl, 'discharged': n_ok,
            'checker_cmd': ' ; '.join(results[0][1]['cmds']) if results else 'none',
            'trusted_base': tb,
            'samples': samples,
            'units': unit_rows,
            'bounded_obligations_not_counted_as_proved': {'total': bounded_obl, 'passed': bounded_ok},
            'site_facts': site_facts,
            'replay_sweep_sampled_not_proof': sweeps,
            'finding_probes_recorded_inputs_not_proof': probe_rows,
            'vacuity_guard_location_coverage': {'checked': len([v for v in vacuity if 'unreached_lines' in v]), 'with_unreached_code': [v for v in vacuity if v.get('unreached_lines', 0) > 1], 'not_run': [v for v in vacuity if 'result' in v]},
            'solver_seconds_total': round(solver_s, 1),
            'known_findings_matched': sorted(seen_k),
            'violations': vio_rows,
            'broken': broken,
        },
        'assumptions': tb,
        'wall_s': round(wall, 2),
        'violations': len(vio_rows),
    }
    try:
        ur = json.load(open(os.path.join(VERIF, 'vx', 'remainder.json')))
        ev['coverage']['unverified_remainder'] = ur.get(prop, '')
    except Exception:
        pass
    evdir = os.environ.get('VX_EVIDENCE_DIR') or os.path.join(VERIF, 'evidence')   # (seeded-mutant runs against a patched copy write elsewhere)
    os.makedirs(evdir, exist_ok=True)
    with open(os.path.join(evdir, prop + '.json'), 'w') as f:
        json.dump(ev, f, indent=1)
    print('%s tier=%s: %d harnesses, %d/%d obligations discharged (+%d/%d bounded), solver %.0fs, wall %.0fs -> exit %d' %
          (prop, tier, len(results), n_ok, n_obl, bounded_ok, bounded_obl, solver_s, wall, exit_code))
    if exit_code == 0 and n_obl == 0:
        print('CHECK-BROKEN property=%s no obligations generated' % prop)
        exit_code = 2
    sys.exit(exit_code)


def trusted_base(rows):
    tb = [
        'cbmc 6.11.0: goto-cc C front end, goto-instrument --dfcc contract instrumentation, symbolic execution, SAT back end',
        'vx extractor rule set (DESIGN 3.3): R1-R4 re-spellings assumed semantics-preserving between C++17 and C11 for the token forms touched; every structural rule has a must-fire count',
        'R5 ghost models in /verif/model (sink, source, buffer, visitor events, stack, throw-as-return) stand for std::string/std::vector/visitor/sink/source objects',
        'machine model: LP64, little endian, two\'s complement, char signed 8 bit; big-endian branches of utility/binary.hpp not verified',
        'machine arithmetic is bit-vector arithmetic (nothing treated as mathematical integers); spec functions use __int128 where needed',
        'code outside the functions listed under units[] is not verified (see unverified_remainder)',
    ]
    for r in rows:
        if r['callees_replaced_by_contract']:
            tb.append('%s/%s: callees %s used through their contracts (each proved in its own harness)' % (r['unit'], r['harness'], ','.join(r['callees_replaced_by_contract'])))
    return tb


if __name__ == '__main__':
    main()
