/* S-JPSTR: RFC 9535 section 2.3.1.2 (string literals in name selectors), single-quoted form, as a decoder of the interior of the literal one character at a
 * time.   string-literal = ... / %x27 *single-quoted %x27;   single-quoted = unescaped / %x22 / ESC %x27 / ESC escapable;   ESC = %x5C;
 * escapable = b / f / n / r / t / "/" / "\" / (u hexchar);  a normalized path (section 2.7) writes a name as ['...'] with ' and \ and the control characters
 * escaped.  Not derived from jsoncons.
 * *st: 0 normal, 1 after ESC.  Returns the decoded character (>= 0), -1 nothing yet, -2 the interior is not well formed here (an unescaped ' would end the
 * literal; unknown escape), -3 a \u escape starts (four hex digits follow; not modelled further). */
#ifndef SPEC_JSONPATH_H
#define SPEC_JSONPATH_H
static inline int spec_jp_sq_step(int* st, int c)
{
    c &= 0xff;
    if (*st == 0) {
        if (c == '\\') { *st = 1; return -1; }
        if (c == '\'') return -2;
        return c;
    }
    *st = 0;
    switch (c) { case 'b': return '\b'; case 'f': return '\f'; case 'n': return '\n'; case 'r': return '\r'; case 't': return '\t'; case '/': return '/'; case '\\': return '\\';
                 case '\'': return '\''; case '"': return '"'; case 'u': return -3; default: return -2; }
}
#endif
