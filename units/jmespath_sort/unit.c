/* unit jmespath_sort (C13): sort_by_function::evaluate.  Arguments and elements are abstract: whether the first argument is a value / an array, its size, and
 * for one arbitrary pair of elements the kinds of their keys and the order of the keys. */
#include "vx_common.h"
/*@ENUM jmespath_errc@*/
enum { RET_NONE = 0, RET_NULL, RET_ARG0, RET_RESULT };
enum { VX_ALG_none = 0, VX_ALG_stable_sort, VX_ALG_sort };
static bool vx_arg0_is_value, vx_arg1_is_expr, vx_arg0_is_array, vx_refs_to_all_elements, vx_cmp_done, vx_cmp_result, vx_key_less; static size_t vx_n;
static int vx_ret, vx_alg; static unsigned vx_sorts, vx_keys_evaluated; static bool vx_is_number[2], vx_is_string[2];
static void vx_sort_call(int alg) { vx_sorts++; vx_alg = alg; }
static int vx_key(int which) { vx_keys_evaluated |= (1u << which); return which; }
static bool vx_less(int a, int b) { (void)a; (void)b; __CPROVER_assert(a == 0 && b == 1, "[C13] the comparator orders lhs before rhs by key1 < key2"); return vx_key_less; }
/*@FUNC sort_by_evaluate@*/
#ifdef VX_CBMC
void h_sort_by_evaluate(void)
{
    vx_arg0_is_value = nondet_bool(); vx_arg1_is_expr = nondet_bool(); vx_arg0_is_array = nondet_bool(); vx_n = nondet_size(); vx_key_less = nondet_bool();
    vx_is_number[0] = nondet_bool(); vx_is_string[0] = nondet_bool(); vx_is_number[1] = nondet_bool(); vx_is_string[1] = nondet_bool();
    __CPROVER_assume(!(vx_is_number[0] && vx_is_string[0]) && !(vx_is_number[1] && vx_is_string[1]));
    vx_sorts = 0; vx_cmp_done = false; vx_refs_to_all_elements = false; vx_keys_evaluated = 0; vx_ret = RET_NONE; vx_alg = VX_ALG_none; int ec = 0;
    sort_by_evaluate(&ec);
}
#endif
