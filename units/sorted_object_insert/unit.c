/* unit sorted_object_insert (C09): the member-insertion functions of sorted_json_object (the object of the default json): try_emplace and insert_or_assign, with
 * and without a position hint, both allocator overloads.  The object is a vector of members sorted by key with unique keys.  Abstraction: iterators are indices;
 * keys are values of an unknown strictly increasing sequence whose elements materialise when the code looks at them (every finite set of observations of a
 * strictly sorted vector is realised this way); the order of key strings (basic_string_view::compare) is taken to be a total order and is represented by the
 * order of int64 (assumption A-KEYORDER); std::lower_bound is used through its standard contract (A-LOWERBOUND).
 * Proved, for an arbitrary member w that was in the object before the call: a member is inserted only if no member has the name, at the one position that
 * keeps the vector sorted; otherwise the existing member with that name is the one returned (and, for insert_or_assign, the one assigned). */
#include "vx_common.h"
#include <stdlib.h>
static size_t vx_size;             /* data_.size() */
static int64_t vx_name;            /* the name being inserted, as a point of the key order */
/* lazily materialised strictly increasing key sequence */
#define VX_TOUCH_MAX 12
static size_t vx_t_idx[VX_TOUCH_MAX]; static int64_t vx_t_key[VX_TOUCH_MAX]; static int vx_t_n;
static int64_t vx_key_at(size_t i)
{
    __CPROVER_assert(i < vx_size, "[C05] only members of the vector are dereferenced");
    for (int k = 0; k < VX_TOUCH_MAX; ++k) if (k < vx_t_n && vx_t_idx[k] == i) return vx_t_key[k];
    int64_t v = nondet_i64();
    for (int k = 0; k < VX_TOUCH_MAX; ++k) if (k < vx_t_n) __CPROVER_assume((i < vx_t_idx[k]) ? (v < vx_t_key[k]) : (v > vx_t_key[k]));
    __CPROVER_assert(vx_t_n < VX_TOUCH_MAX, "ghost table large enough");
    vx_t_idx[vx_t_n] = i; vx_t_key[vx_t_n] = v; vx_t_n++;
    return v;
}
/* std::lower_bound(first, last, name, Comp()) on a range sorted by key: first position whose key is not less than name */
static size_t vx_lower_bound(size_t first, size_t last)
{
    __CPROVER_assert(first <= last && last <= vx_size, "[C05] lower_bound is given a valid range");
    size_t r = nondet_size(); __CPROVER_assume(r >= first && r <= last);
    if (r > first) __CPROVER_assume(vx_key_at(r - 1) < vx_name);
    if (r < last) __CPROVER_assume(vx_key_at(r) >= vx_name);
    return r;
}
/* events */
static bool vx_inserted_flag;
static unsigned vx_inserts, vx_assigns; static size_t vx_ins_pos, vx_assign_pos, vx_size0;
static size_t vx_emplace(size_t pos) { __CPROVER_assert(pos <= vx_size, "[C05] emplace position inside the vector"); vx_inserts++; vx_ins_pos = pos; vx_size++; return pos; }
static void vx_assign(size_t pos) { __CPROVER_assert(pos < vx_size, "[C05] assignment to a member of the vector"); vx_assigns++; vx_assign_pos = pos; }
/* the watched pre-existing member */
static size_t vx_w; static int64_t vx_wkey; static bool vx_has_w;
static bool vx_touched_has_name(void) { for (int k = 0; k < VX_TOUCH_MAX; ++k) if (k < vx_t_n && vx_t_key[k] == vx_name) return true; return false; }   /* some member looked at has the name */
/*@GROUP funcs@*/
/*@GROUP merges@*/
#ifdef VX_CBMC
static void setup(void)
{
    vx_size = nondet_size(); __CPROVER_assume(vx_size <= 100000000); vx_size0 = vx_size; vx_name = nondet_i64(); vx_t_n = 0; vx_inserts = 0; vx_assigns = 0;
    vx_has_w = vx_size > 0; vx_w = nondet_size(); if (vx_has_w) { __CPROVER_assume(vx_w < vx_size); vx_wkey = vx_key_at(vx_w); }
}
void h_merge_step(void) { setup(); merge_step(); }
void h_merge_or_update_step(void) { setup(); merge_or_update_step(); }
void h_merge_hint_step(void) { setup(); size_t hint = nondet_size(); merge_hint_step(&hint); }
void h_merge_or_update_hint_step(void) { setup(); size_t hint = nondet_size(); merge_or_update_hint_step(&hint); }
void h_try_emplace_0(void) { setup(); size_t r = try_emplace_0(); (void)r; }
void h_try_emplace_1(void) { setup(); size_t r = try_emplace_1(); (void)r; }
void h_try_emplace_hint_0(void) { setup(); size_t r = try_emplace_hint_0(nondet_size()); (void)r; }
void h_try_emplace_hint_1(void) { setup(); size_t r = try_emplace_hint_1(nondet_size()); (void)r; }
void h_insert_or_assign_0(void) { setup(); size_t r = insert_or_assign_0(); (void)r; }
void h_insert_or_assign_1(void) { setup(); size_t r = insert_or_assign_1(); (void)r; }
void h_insert_or_assign_hint_0(void) { setup(); size_t r = insert_or_assign_hint_0(nondet_size()); (void)r; }
void h_insert_or_assign_hint_1(void) { setup(); size_t r = insert_or_assign_hint_1(nondet_size()); (void)r; }
#endif
