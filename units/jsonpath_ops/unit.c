/* unit jsonpath_ops (C12): comparison operators of JSONPath filters over abstract operands (kind of each operand, sign of lhs compared with rhs) */
#include "vx_common.h"
enum { VK_NULL = 0, VK_BOOL, VK_NUMBER, VK_STRING, VK_ARRAY, VK_OBJECT };
enum { R_NONE = 0, R_TRUE, R_FALSE, R_NULL };
static int vx_lk, vx_rk, vx_cmp, vx_result;
/*@GROUP ops@*/
/* arithmetic operands: storage kind flags and the three readings of the stored number */
enum { RK_NONE = 0, RK_I, RK_U, RK_D };
static bool vx_l_is_i, vx_l_is_u, vx_l_is_d, vx_r_is_i, vx_r_is_u; static int64_t vx_li, vx_ri, vx_res_i; static uint64_t vx_lu, vx_ru, vx_res_u; static double vx_ld, vx_rd, vx_res_d; static int vx_res_kind;
static double vx_fmod(double a, double b) { (void)a; (void)b; double r; return r; }   /* libm */
static void vx_ret_i(int64_t v) { vx_res_kind = RK_I; vx_res_i = v; vx_result = R_TRUE; }
static void vx_ret_u(uint64_t v) { vx_res_kind = RK_U; vx_res_u = v; vx_result = R_TRUE; }
static void vx_ret_d(double v) { vx_res_kind = RK_D; vx_res_d = v; vx_result = R_TRUE; }
#define VX_RET(e) _Generic((e), int64_t: vx_ret_i, uint64_t: vx_ret_u, double: vx_ret_d, default: vx_ret_i)(e)
/*@GROUP arith@*/
#ifdef VX_CBMC
static void setup(void) { vx_lk = nondet_int(); vx_rk = nondet_int(); vx_cmp = nondet_int(); __CPROVER_assume(vx_cmp >= -1 && vx_cmp <= 1); vx_result = R_NONE; }
double nondet_double(void);
static void setup_a(void) { setup(); vx_l_is_i = nondet_bool(); vx_l_is_u = nondet_bool(); vx_l_is_d = nondet_bool(); vx_r_is_i = nondet_bool(); vx_r_is_u = nondet_bool(); __CPROVER_assume(!(vx_l_is_i && vx_l_is_u) && !(vx_r_is_i && vx_r_is_u));
    vx_li = nondet_i64(); vx_ri = nondet_i64(); vx_lu = nondet_u64(); vx_ru = nondet_u64(); vx_ld = nondet_double(); vx_rd = nondet_double(); vx_res_kind = RK_NONE; }
void h_op_plus(void) { setup_a(); op_plus(); }
void h_op_minus(void) { setup_a(); op_minus(); }
void h_op_mult(void) { setup_a(); op_mult(); }
void h_op_div(void) { setup_a(); op_div(); }
void h_op_mod(void) { setup_a(); op_mod(); }
void h_op_neg(void) { setup_a(); op_neg(); }
void h_op_eq(void) { setup(); op_eq(); }
void h_op_ne(void) { setup(); op_ne(); }
void h_op_lt(void) { setup(); op_lt(); }
void h_op_lte(void) { setup(); op_lte(); }
void h_op_gt(void) { setup(); op_gt(); }
void h_op_gte(void) { setup(); op_gte(); }
#endif
