/* unit string_storage: copying of string contents into basic_json's storages (short_string_storage constructor, heap_string_factory::create) */
#include "vx_common.h"
#include <stdlib.h>
/* ISO C 7.24.1p2: pointer arguments of memcpy must be valid even when the size is zero (a null pointer is undefined behaviour) */
static void* vx_memcpy(void* dst, const void* src, size_t n)
{
    __CPROVER_assert(dst != 0 && src != 0, "[C05] memcpy is never given a null pointer (undefined behaviour even for size 0)");
    return memcpy(dst, src, n);
}
#define VX_MAX_LENGTH 14
struct short_string_storage { uint8_t storage_kind_ : 4; uint8_t short_str_length_ : 4; uint8_t tag_; char data_[VX_MAX_LENGTH + 2]; };
enum { max_length = VX_MAX_LENGTH };
static size_t vx_w;   /* watched position */
/*@FUNC short_string_ctor@*/
static char* vx_dst; static size_t vx_cap;
/*@FUNC heap_string_copy@*/
#ifdef VX_CBMC
void h_short(void)
{
    struct short_string_storage s; uint8_t length = nondet_u8(); size_t n = nondet_size();
    __CPROVER_assume(n <= 64);
    const char* p = nondet_bool() ? 0 : malloc(n ? n : 1);
    vx_w = nondet_size();
    short_string_ctor(&s, p, length);
}
void h_heap(void)
{
    size_t length = nondet_size(), n = nondet_size();
#ifdef VX_SMALL
    __CPROVER_assume(n <= 8);
#endif
    __CPROVER_assume(n <= 100000000 && length <= 100000000);
    const char* s = nondet_bool() ? 0 : malloc(n ? n : 1);
    vx_cap = length + 1; vx_dst = malloc(vx_cap); __CPROVER_assume(vx_dst != 0);
    vx_w = nondet_size();
    heap_string_copy(s, length);
}
#endif
