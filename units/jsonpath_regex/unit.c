/* unit jsonpath_regex: the state `regex` of jsonpath_parser compile().  C has no exceptions: the construction of the std::basic_regex is an event; when the
 * pattern is invalid it "throws" - recorded as vx_foreign_exception when nothing in the extracted text guards it (constructor form), or returned as false when
 * the source guards the call with JSONCONS_TRY / JSONCONS_CATCH(const std::regex_error&). */
#include "vx_common.h"
/*@ENUM jsonpath_errc@*/
enum { VX_ECMA = 1, VX_ICASE = 2 };
static bool vx_pattern_ok, vx_has_i, vx_returned, vx_foreign_exception; static unsigned vx_tokens, vx_pops; static int vx_flags;
static void vx_regex_construct_unguarded(int flags) { vx_flags = flags; if (!vx_pattern_ok) vx_foreign_exception = true; }
static bool vx_regex_assign_guarded(int flags) { vx_flags = flags; return vx_pattern_ok; }
static void vx_push_regex_token(int* ec_p) { if (vx_foreign_exception) return; vx_tokens++; if (nondet_bool()) { int e = nondet_int(); __CPROVER_assume(e != 0); *ec_p = e; } }
/*@FUNC regex_state@*/
#ifdef VX_CBMC
void h_regex_state(void) { vx_pattern_ok = nondet_bool(); vx_has_i = nondet_bool(); vx_returned = false; vx_foreign_exception = false; vx_tokens = 0; vx_pops = 0; int ec = 0; regex_state(&ec); }
#endif
