/* unit cbor_head: CBOR item head (RFC 8949 section 3) on the decoder and the encoder side */
#define VX_SRC_CAP 24
#define VX_SINK_CAP 24
#include "vx_common.h"
#include "model_source.h"
#include "model_sink.h"
#include "spec_cbor.h"

/*@ENUM cbor_errc@*/
/*@ENUM cbor_major_type@*/
/*@COPY cbor_0x00_0x17@*/
/*@GROUP binary@*/

struct cbor_parser { bool more_; };
static uint8_t vx_exp[9];

/*@FUNC get_additional_information_value@*/
/*@FUNC get_major_type@*/
/*@FUNC read_uint64@*/
/*@FUNC read_int64@*/
/*@FUNC write_type_and_length@*/
/* write_bignum: ghost inputs of the slice (sign and number of magnitude bytes), tag stub */
static bool vx_is_neg; static size_t vx_len; static unsigned vx_tags; static int vx_tag;
static void vx_write_tag(int t) { vx_tags++; vx_tag = t; }
#define VX_PAYLOAD(n) do { } while (0)
/*@FUNC write_bignum_head@*/
/*@FUNC write_uint64_value@*/
/*@FUNC write_int64_value@*/

#ifdef VX_CBMC
static void havoc_source(void)
{
    __CPROVER_havoc_object(vx_src);
    vx_src_n = nondet_size(); vx_src_pos = nondet_size();
    __CPROVER_assume(vx_src_n <= VX_SRC_CAP && vx_src_pos <= vx_src_n);
}
void h_read_uint64(void)
{
    struct cbor_parser p; int ec = 0; p.more_ = true;
    havoc_source();
    read_uint64(&p, &ec);
}
void h_read_int64(void)
{
    struct cbor_parser p; int ec = 0; p.more_ = true;
    havoc_source();
    read_int64(&p, &ec);
}
void h_write(void)
{
    uint8_t m = nondet_u8(); uint64_t len = nondet_u64();
    vx_sink_n = 0;
    write_type_and_length(m, len);
}
void h_bignum_head(void) { vx_sink_n = 0; vx_tags = 0; vx_is_neg = nondet_bool(); vx_len = nondet_size(); write_bignum_head(); }
void h_write_u64(void) { vx_sink_n = 0; write_uint64_value(nondet_u64()); }
void h_write_i64(void) { vx_sink_n = 0; write_int64_value(nondet_i64()); }
/* L-CBOR-RT: decode(encode(m, x)) == x, consuming exactly what was written */
void h_roundtrip(void)
{
    uint8_t m = nondet_u8(); uint64_t x = nondet_u64();
    __CPROVER_assume((m & 0x1f) == 0);
    vx_sink_n = 0;
    write_type_and_length(m, x);
    __CPROVER_assert(vx_sink_n <= 9, "[C06] head is at most 9 bytes");
    memcpy(vx_src, vx_sink, 9);
    vx_src_n = vx_sink_n; vx_src_pos = 0;
    struct cbor_parser p; int ec = 0; p.more_ = true;
    uint64_t y = read_uint64(&p, &ec);
    __CPROVER_assert(ec == 0, "[C06] L-CBOR-RT: the written head is accepted");
    __CPROVER_assert(y == x, "[C06] L-CBOR-RT: read_uint64(write_type_and_length(m,x)) == x");
    __CPROVER_assert(vx_src_pos == vx_src_n, "[C06] L-CBOR-RT: the reader consumes exactly the written head");
    __CPROVER_assert((vx_src[0] >> 5) == (m >> 5), "[C06] L-CBOR-RT: major type preserved");
    if (m == 0x20 && x <= (uint64_t)INT64_MAX) {
        vx_src_pos = 0; ec = 0;
        int64_t z = read_int64(&p, &ec);
        __CPROVER_assert(ec == 0 && z == -1 - (int64_t)x, "[C06] L-CBOR-RT: negative integer -1-n round trip");
    }
}
void h_byte_swap(void)
{
    uint16_t a = nondet_u16(); uint32_t b = nondet_u32(); uint64_t c = nondet_u64();
    __CPROVER_assert(byte_swap_u16(byte_swap_u16(a)) == a, "[C06] byte_swap16 involution");
    __CPROVER_assert(byte_swap_u32(byte_swap_u32(b)) == b, "[C06] byte_swap32 involution");
    __CPROVER_assert(byte_swap_u64(byte_swap_u64(c)) == c, "[C06] byte_swap64 involution");
    __CPROVER_assert(byte_swap_u16(a) == (uint16_t)((a >> 8) | (a << 8)), "[C06][C07] byte_swap16 value");
    uint8_t buf[8];
    for (int i = 0; i < 8; ++i) buf[i] = nondet_u8();
    __CPROVER_assert(big_to_native_u16(buf, 2) == spec_be(buf, 2), "[C07] big_to_native<uint16_t> is the network-order value");
    __CPROVER_assert(big_to_native_u32(buf, 4) == spec_be(buf, 4), "[C07] big_to_native<uint32_t> is the network-order value");
    __CPROVER_assert(big_to_native_u64(buf, 8) == spec_be(buf, 8), "[C07] big_to_native<uint64_t> is the network-order value");
    vx_sink_n = 0; native_to_big_u64(c);
    __CPROVER_assert(vx_sink_n == 8 && spec_be(vx_sink, 8) == c, "[C06] native_to_big<uint64_t> writes network order");
    vx_sink_n = 0; native_to_big_u32(b);
    __CPROVER_assert(vx_sink_n == 4 && spec_be(vx_sink, 4) == b, "[C06] native_to_big<uint32_t> writes network order");
    vx_sink_n = 0; native_to_big_u16(a);
    __CPROVER_assert(vx_sink_n == 2 && spec_be(vx_sink, 2) == a, "[C06] native_to_big<uint16_t> writes network order");
}
#endif
