#!/bin/sh
# usage: seed_confirm.sh <worktree> <seed name>    -- confirm a sub-agent's seeded change in its scratch worktree and store it under /verif/seeded/<name>
# confirms: worktree diff == patch.diff; patch applies to a pristine /repo checkout; test-suite passes with the change; demo fails with it and passes without
WT=$1; NAME=$2; OUT=/verif/seeded/$NAME
set -e
cd $WT
git diff -- include | diff -q - seed_out/patch.diff >/dev/null && echo "diff-matches-patch: yes" || { echo "diff-matches-patch: NO"; }
git -C /repo apply --check $WT/seed_out/patch.diff && echo "applies-to-repo-HEAD: yes"
cmake --build _build -j6 2>&1 | tail -1
ctest --test-dir _build -j4 --timeout 900 2>&1 | grep -E "tests passed|tests failed" 
g++ -std=c++17 -I include seed_out/demo.cpp -o /tmp/demo_mut_$NAME 2>&1 | tail -3
set +e
/tmp/demo_mut_$NAME > /tmp/demo_mut_$NAME.out 2>&1; echo "demo-with-change exit=$?"; tail -2 /tmp/demo_mut_$NAME.out
g++ -std=c++17 -I /repo/include seed_out/demo.cpp -o /tmp/demo_ok_$NAME 2>&1 | tail -3
/tmp/demo_ok_$NAME > /tmp/demo_ok_$NAME.out 2>&1; echo "demo-pristine exit=$?"; tail -1 /tmp/demo_ok_$NAME.out
mkdir -p $OUT && cp seed_out/patch.diff seed_out/demo.cpp $OUT/ && cp seed_out/notes.txt $OUT/agent_notes.txt 2>/dev/null
rm -f /tmp/demo_mut_$NAME /tmp/demo_ok_$NAME
