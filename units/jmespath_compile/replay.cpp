// replay for unit jmespath_compile: expressions with an unmatched closing parenthesis after every kind of operand must be refused (built with ASan: F40 was a heap overrun); expressions with every kind of junk between the arguments of a function call (identifier, number, quote, bracket, operator,
// non-ASCII byte, nothing) and well-formed calls are compiled under a watchdog: the compiler must return (an expression or a JMESPath error) for each of them.
#include <jsoncons/json.hpp>
#include <jsoncons_ext/jmespath/jmespath.hpp>
#include "replay_util.hpp"
#include <csignal>
#include <unistd.h>
using namespace jsoncons;
static const char* g_current = "";
static void on_alarm(int) { const char m[] = "REPRODUCED: the JMESPath compiler does not return for the expression: "; (void)!write(1, m, sizeof m - 1); (void)!write(1, g_current, strlen(g_current)); (void)!write(1, "\n", 1); _exit(1); }
int main(int argc, char** argv)
{
    if (argc < 3) return 2;
    signal(SIGALRM, on_alarm);
    const char* fns[] = {"length", "sort_by", "abs", "keys", "max_by", "join", "nosuchfunction"};
    const char* junk[] = {" b", " 1", " 'x'", " \"q\"", " [0]", " &b", " .c", " |", " ==", " {", " `1`", " \xe1", "", " ,", ",,", " )", " (", " @", " *", " !"};
    int total = 0, compiled = 0;
    for (const char* f : fns) for (const char* j : junk) for (int tail = 0; tail < 3; ++tail) {
        std::string e = std::string(f) + "(a" + j + (tail == 0 ? ")" : tail == 1 ? ", &b)" : ""); g_current = e.c_str(); ++total;
        alarm(10); std::error_code ec; try { auto x = jmespath::make_expression<json>(e, ec); if (!ec) ++compiled; } catch (const std::exception&) {} alarm(0);
    }
    for (const char* e : {"{1}", "{: a}", "{*}", "{]", "{?a}", "{-a: b}", "{0: a}", "x.{9}", "{a: b}.{:}"}) { g_current = e; ++total; alarm(10); std::error_code ec; try { auto x = jmespath::make_expression<json>(e, ec); if (!ec) VX_REPRO("the malformed multi-select hash " << e << " compiles"); } catch (const std::exception&) {} alarm(0); }
    for (const char* e : {"a)", "a))", "(a))", "length(a))", "length(a) )", "a.b)", "a | b)", "a[0])", "`1`)", "a && b)", ")", "a[?b)]"}) { g_current = e; ++total; alarm(10); std::error_code ec; try { auto x = jmespath::make_expression<json>(e, ec); if (!ec) VX_REPRO("the unbalanced expression " << e << " compiles"); } catch (const std::exception&) {} alarm(0); }
    for (const char* e : {"length(a)", "sort_by(a, &b)", "max_by(a, &to_number(b))", "length( a )", "join(', ', a)", "not_null(a, b, c)"}) { g_current = e; ++total; alarm(10); std::error_code ec; auto x = jmespath::make_expression<json>(e, ec); alarm(0); if (ec) VX_REPRO("the well-formed call " << e << " is refused: " << ec.message()); ++compiled; }
    VX_NOREPRO("the compiler returned for all " << total << " expressions (" << compiled << " compiled)");
}
