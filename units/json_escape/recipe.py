# U-ESC, U-HEX (DESIGN 6): detail::escape_string against the RFC 8259 string decoder, unbounded length, all option combinations
from core import FuncSpec, CopySpec, EnumSpec, DeclSpec, Harness, INF
import units as _u
import unicode_specs as us
_utf8 = _u.load_unit('utf8')

E = 'include/jsoncons/json_encoders.hpp'
W = 'include/jsoncons/utility/write_number.hpp'
RES = '__CPROVER_return_value'

LOOP = '''__CPROVER_assigns(it, count, vx_k, vx_mon, vx_bad, vx_out_n, vx_out_nonascii, vx_raw_solidus, vx_esc_solidus, vx_thrown, vx_w_base, __CPROVER_object_whole(vx_w))
  __CPROVER_loop_invariant(__CPROVER_same_object(it, vx_in) && __CPROVER_POINTER_OFFSET(it) <= vx_len && vx_k == __CPROVER_POINTER_OFFSET(it)
      && vx_mon.st == STR_TEXT && !vx_bad && count == vx_out_n && vx_thrown == 0 && count <= 12 * vx_k
      && (escape_all_non_ascii ==> !vx_out_nonascii) && (escape_solidus ==> !vx_raw_solidus) && (!escape_solidus ==> !vx_esc_solidus))
  __CPROVER_decreases(vx_len - __CPROVER_POINTER_OFFSET(it))'''
CONTRACT = [
    ('requires', 'vx_len <= VX_IN_MAX && s == (const char*)vx_in && length == vx_len && vx_k == 0 && vx_mon.st == STR_TEXT && !vx_bad && vx_out_n == 0 && vx_thrown == 0'),
    ('requires', '!vx_out_nonascii && !vx_raw_solidus && !vx_esc_solidus'),
    ('assigns', 'vx_k, vx_mon, vx_bad, vx_out_n, vx_out_nonascii, vx_raw_solidus, vx_esc_solidus, vx_thrown, vx_w_base, __CPROVER_object_whole(vx_w)'),
    ('ensures', '[C01][C08] without an exception: the output lies in the RFC 8259 string-interior language and decodes (escapes, \\\\uXXXX, surrogate pairs) back to exactly the input, byte for byte',
     'vx_thrown == 0 ==> (!vx_bad && vx_mon.st == STR_TEXT && vx_k == vx_len)'),
    ('ensures', '[C01][C08] the return value is the number of characters written', 'vx_thrown == 0 ==> %s == vx_out_n' % RES),
    ('ensures', '[C08] with escape_all_non_ascii the output is pure ASCII', '(vx_thrown == 0 && escape_all_non_ascii) ==> !vx_out_nonascii'),
    ('ensures', '[C01] "/" is escaped iff escape_solidus is set', '(escape_solidus ==> !vx_raw_solidus) && (!escape_solidus ==> !vx_esc_solidus)'),
    ('ensures', '[C05][C08] the only exception is ser_error, raised only with escape_all_non_ascii at an ill-formed UTF-8 sequence of the input',
     'vx_thrown != 0 ==> (vx_thrown == VX_THROW_ser_error && escape_all_non_ascii && !vx_bad && vx_k < vx_len && !vx_wf_at(vx_k))'),
]
RULES = [
    (r'\bconst CharT\*', 'const char*', 3, 4),
    # R6 ghost insertion: load the (at most 4) input bytes this iteration can consume into a ghost window, once
    (r'\bCharT c = \*it;', 'char c = *it; vx_window((size_t)(it - (const char*)vx_in));', 1),
    (r'sink\.push_back\(', 'vx_esc_out(', 30, 60),
    (r'jsoncons::to_hex_character\(', 'to_hex_character(', 12),
    (r'auto r = unicode_traits::to_codepoint\(it, end, cp, unicode_traits::strict_flag::strict\);', 'struct unicode_result r = to_codepoint(it, end, &cp, strict_flag_strict);', 1),
    (r'r\.ec != unicode_traits::unicode_errc\(\)', 'r.ec != unicode_errc_success', 1),
    (r'JSONCONS_THROW\(ser_error\(json_errc::illegal_codepoint\)\);', '{ vx_thrown = VX_THROW_ser_error; return 0; }', 1),
]
TOCP_DECL = DeclSpec('to_codepoint_decl', 'to_codepoint', 'struct unicode_result to_codepoint(const char* first, const char* last, uint32_t* ch_p, int flags)',
                     _utf8.TOCP_CONTRACT, 'utf8')
SPECS = [
    us.TABLES, us.ERRC, EnumSpec('strict_flag', us.U), TOCP_DECL,
    FuncSpec('to_hex_character', W, r'char to_hex_character\(uint8_t c\)', count=1, csig='static char to_hex_character(uint8_t c)',
             contract=[('requires', 'c < 16'), ('assigns', ''),
                       ('ensures', '[C01][C08] to_hex_character yields the upper-case hexadecimal digit of its argument',
                        '__CPROVER_return_value == (c < 10 ? \'0\' + c : \'A\' + (c - 10))')]),
    FuncSpec('is_control_character', E, r'bool is_control_character\(uint32_t c\)', count=1, csig='static bool is_control_character(uint32_t c)'),
    FuncSpec('is_non_ascii_codepoint', E, r'bool is_non_ascii_codepoint\(uint32_t cp\)', count=1, csig='static bool is_non_ascii_codepoint(uint32_t cp)'),
    FuncSpec('escape_string', E, r'std::size_t escape_string\(const CharT\* s, std::size_t length,\s*bool escape_all_non_ascii, bool escape_solidus,\s*Sink& sink\)', count=1,
             csig='size_t escape_string(const char* s, size_t length, bool escape_all_non_ascii, bool escape_solidus)',
             contract=CONTRACT, rules=RULES, loops={0: LOOP, 'count': 1}),
]
def H(name, defs, tier='quick'):
    return Harness(name, 'h_escape_string', enforce='escape_string', replace=['to_codepoint'], loop_contracts=True, method='LC', props=['C01', 'C08'],
                   expect_classes={'loop_invariant_step': 1}, timeout=2400, solver='cadical', defines=defs, split=True, tier=tier, jobs=4, mem_gb=14,
                   note='option combination fixed by ' + ','.join(defs))
HARNESSES = [
    Harness('to_hex_character', 'h_hex', enforce='to_hex_character', method='LF', props=['C01', 'C08']),
    Harness('escape_all', 'h_escape_string', enforce='escape_string', replace=['to_codepoint'], loop_contracts=True, method='LC', props=['C01', 'C08'],
            expect_classes={'loop_invariant_step': 1}, timeout=1500, solver='cadical', mem_gb=14,
            note='all four option combinations in one query (both flags symbolic)'),
]
