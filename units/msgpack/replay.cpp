// replay for unit msgpack: integers at every width boundary (and +-1), strings, byte strings, arrays and maps at the length boundaries 15/16, 31/32, 255/256,
// 65535/65536 are written by the real MessagePack encoder; an independent reader of the MessagePack specification must find exactly one item with that
// value / length, and the library's decoder must return it too.
#include <jsoncons/json.hpp>
#include <jsoncons_ext/msgpack/msgpack.hpp>
#include "replay_util.hpp"
using namespace jsoncons;
typedef std::vector<uint8_t> bytes;
static uint64_t be(const bytes& b, size_t p, int n) { uint64_t v = 0; for (int i = 0; i < n; ++i) v = (v << 8) | b[p + i]; return v; }
// head of one item: kind 'i' signed value, 'u' unsigned value, 's' str length, 'b' bin length, 'a' array count, 'm' map count; returns header size or 0
static size_t head(const bytes& b, char& kind, __int128& v)
{
    if (b.empty()) return 0; uint8_t t = b[0]; auto need = [&](size_t n) { return b.size() >= n; };
    if (t <= 0x7f) { kind = 'u'; v = t; return 1; } if (t >= 0xe0) { kind = 'i'; v = (int8_t)t; return 1; }
    if ((t & 0xe0) == 0xa0) { kind = 's'; v = t & 31; return 1; } if ((t & 0xf0) == 0x90) { kind = 'a'; v = t & 15; return 1; } if ((t & 0xf0) == 0x80) { kind = 'm'; v = t & 15; return 1; }
    switch (t) { case 0xcc: if (!need(2)) return 0; kind = 'u'; v = be(b, 1, 1); return 2; case 0xcd: if (!need(3)) return 0; kind = 'u'; v = be(b, 1, 2); return 3; case 0xce: if (!need(5)) return 0; kind = 'u'; v = be(b, 1, 4); return 5; case 0xcf: if (!need(9)) return 0; kind = 'u'; v = be(b, 1, 8); return 9;
        case 0xd0: if (!need(2)) return 0; kind = 'i'; v = (int8_t)be(b, 1, 1); return 2; case 0xd1: if (!need(3)) return 0; kind = 'i'; v = (int16_t)be(b, 1, 2); return 3; case 0xd2: if (!need(5)) return 0; kind = 'i'; v = (int32_t)be(b, 1, 4); return 5; case 0xd3: if (!need(9)) return 0; kind = 'i'; v = (int64_t)be(b, 1, 8); return 9;
        case 0xd9: if (!need(2)) return 0; kind = 's'; v = be(b, 1, 1); return 2; case 0xda: if (!need(3)) return 0; kind = 's'; v = be(b, 1, 2); return 3; case 0xdb: if (!need(5)) return 0; kind = 's'; v = be(b, 1, 4); return 5;
        case 0xc4: if (!need(2)) return 0; kind = 'b'; v = be(b, 1, 1); return 2; case 0xc5: if (!need(3)) return 0; kind = 'b'; v = be(b, 1, 2); return 3; case 0xc6: if (!need(5)) return 0; kind = 'b'; v = be(b, 1, 4); return 5;
        case 0xdc: if (!need(3)) return 0; kind = 'a'; v = be(b, 1, 2); return 3; case 0xdd: if (!need(5)) return 0; kind = 'a'; v = be(b, 1, 4); return 5; case 0xde: if (!need(3)) return 0; kind = 'm'; v = be(b, 1, 2); return 3; case 0xdf: if (!need(5)) return 0; kind = 'm'; v = be(b, 1, 4); return 5; }
    return 0;
}
int main(int argc, char** argv)
{
    if (argc < 3) return 2;
    int bad = 0, total = 0; std::string first; auto fail = [&](const std::string& w) { if (!bad) first = w; ++bad; };
    std::vector<__int128> ints; for (int k : {7, 8, 15, 16, 31, 32, 63}) for (int d = -2; d <= 2; ++d) { ints.push_back(((__int128)1 << k) + d); ints.push_back(-((__int128)1 << k) + d); } ints.push_back(0); ints.push_back(-1); ints.push_back(-32); ints.push_back(-33); ints.push_back(((__int128)1 << 64) - 1);
    for (__int128 v : ints) {
        if (v >= INT64_MIN && v <= INT64_MAX) { ++total; bytes b; msgpack::msgpack_bytes_encoder e(b); e.int64_value((int64_t)v); e.flush(); char k; __int128 got; size_t h = head(b, k, got);
            if (!h || h != b.size() || (k != 'i' && k != 'u') || got != v) fail("int64 " + std::to_string((long long)v) + " is not written as one integer item with that value"); else if (msgpack::decode_msgpack<json>(b) != json((int64_t)v)) fail("decoder disagrees for int64 " + std::to_string((long long)v)); }
        if (v >= 0 && v <= (__int128)UINT64_MAX) { ++total; bytes b; msgpack::msgpack_bytes_encoder e(b); e.uint64_value((uint64_t)v); e.flush(); char k; __int128 got; size_t h = head(b, k, got);
            if (!h || h != b.size() || (k != 'i' && k != 'u') || got != v) fail("uint64 " + std::to_string((unsigned long long)v) + " is not written as one integer item with that value"); else if (msgpack::decode_msgpack<json>(b) != json((uint64_t)v)) fail("decoder disagrees for uint64 " + std::to_string((unsigned long long)v)); }
    }
    for (size_t n : {(size_t)0, (size_t)1, (size_t)15, (size_t)16, (size_t)31, (size_t)32, (size_t)255, (size_t)256, (size_t)65535, (size_t)65536, (size_t)70000}) {
        { ++total; std::string s(n, 'x'); bytes b; msgpack::msgpack_bytes_encoder e(b); e.string_value(s); e.flush(); char k; __int128 got; size_t h = head(b, k, got); if (!h || k != 's' || got != (__int128)n || b.size() != h + n) fail("string of " + std::to_string(n) + " bytes: wrong header"); else if (msgpack::decode_msgpack<json>(b) != json(s)) fail("decoder disagrees for a string of " + std::to_string(n)); }
        { ++total; std::vector<uint8_t> s(n, 7); bytes b; msgpack::msgpack_bytes_encoder e(b); e.byte_string_value(s); e.flush(); char k; __int128 got; size_t h = head(b, k, got); if (!h || k != 'b' || got != (__int128)n || b.size() != h + n) fail("byte string of " + std::to_string(n) + " bytes: wrong header"); }
        { ++total; bytes b; msgpack::msgpack_bytes_encoder e(b); e.begin_array(n); for (size_t i = 0; i < n; ++i) e.null_value(); e.end_array(); e.flush(); char k; __int128 got; size_t h = head(b, k, got); if (!h || k != 'a' || got != (__int128)n || b.size() != h + n) fail("array of " + std::to_string(n) + " items: wrong header"); }
        if (n <= 70000) { ++total; bytes b; msgpack::msgpack_bytes_encoder e(b); e.begin_object(n); for (size_t i = 0; i < n; ++i) { e.key("k"); e.null_value(); } e.end_object(); e.flush(); char k; __int128 got; size_t h = head(b, k, got); if (!h || k != 'm' || got != (__int128)n || b.size() != h + 3 * n) fail("map of " + std::to_string(n) + " pairs: wrong header"); }
    }
    if (bad) VX_REPRO(bad << " of " << total << " items are not written as the MessagePack specification prescribes, first: " << first);
    VX_NOREPRO("all " << total << " items carry the value / length given in a header the specification defines");
}
