# U-JM-SLICEPARSE: the bracket states of jmespath_evaluator::compile() that build index, slice and flatten expressions (program slice of the state switch; one
# step = one pass through the switch for the current character).  C13: the slice or index built is the one written.
from core import FuncSpec, CopySpec, EnumSpec, Harness
P = 'include/jsoncons_ext/jmespath/jmespath.hpp'
N = 40
RULES = [
    (r'int64_t val\{ ?0? ?\};', 'int64_t val = 0;', 1, N),
    (r'auto r = jsoncons::to_integer\(buffer\.data\(\), buffer\.size\(\), val\);', 'bool r = vx_to_integer(&val);', 1, N),
    (r'ec = jmespath_errc::(\w+);\s*return jmespath_expression\{\};', r'*ec_p = jmespath_errc_\1; return;', 1, N),
    (r'if \(JSONCONS_UNLIKELY\(ec\)\) \{return jmespath_expression\{\};\}', 'if (*ec_p) return;', 1, N),
    (r'push_token\(resources\.create_expression\(flatten_projection\(\)\), resources, output_stack, ec\);', 'vx_push_token(K_FLATTEN, 0, ec_p);', 1, 2),
    (r'push_token\(resources\.create_expression\(index_selector\(val\)\), resources, output_stack, ec\);', 'vx_push_token(K_INDEX, val, ec_p);', 1, 2),
    (r'push_token\(resources\.create_expression\(slice_projection\(slic\)\), resources, output_stack, ec\);', 'vx_push_slice(slic, ec_p);', 1, 4),
    (r'buffer\.empty\(\)', '(vx_buflen == 0)', 1, N), (r'buffer\.clear\(\);', 'vx_buflen = 0;', 1, N),
    (r'slic\.(start|stop)_ = (?:jsoncons::optional<int64_t>\()?val\)?;', r'slic.\1_has = true; slic.\1_ = val;', 1, 3),
    (r'slic\.step_ = val;', 'slic.step_ = val;', 0, 1), (r'slic = slice\{\};', 'slic = vx_slice_default();', 0, 2),
    (r'state_stack\.back\(\) = expr_state::(\w+);', r'vx_stk[vx_sp - 1] = expr_state_\1;', 1, N), (r'state_stack\.push_back\(expr_state::(\w+)\);', r'vx_stk[vx_sp++] = expr_state_\1;', 1, N),
    (r'state_stack\.pop_back\(\);', 'vx_sp--;', 1, N), (r'case expr_state::(\w+) ?:', r'case expr_state_\1:', 1, N),
]
C = 'vx_in[vx_off]'
HAVE = '__CPROVER_old(vx_buflen) > 0'
ST0, ST1, ST2 = 'expr_state_index_or_slice_expression', 'expr_state_rhs_slice_expression_stop', 'expr_state_rhs_slice_expression_step'
CONTRACT = [
    ('requires', 'p_ == vx_in + vx_off && vx_off < vx_n && vx_n <= 100000000 && column_ <= SIZE_MAX / 2 && *ec_p == 0 && vx_tok_n == 0 && !vx_tok_failed && vx_sp >= 1 && vx_sp <= 4 && vx_stk[vx_sp - 1] == state && VX_SLICE_EQ(vx_old, slic)'),
    ('requires', 'state == %s || state == %s || state == %s' % (ST0, ST1, ST2)),
    ('assigns', '*ec_p, vx_tok_failed, slic, p_, column_, vx_buflen, vx_sp, __CPROVER_object_whole(vx_stk), vx_tok_n, __CPROVER_object_whole(vx_tok_kind), __CPROVER_object_whole(vx_tok_index), __CPROVER_object_whole(vx_tok_slice)'),
    ('ensures', '[C13] a bound that does not read as an integer is invalid_number and a step of 0 is step_cannot_be_zero (an error, not an empty result); nothing is pushed',
     '((%s && !vx_bufok && (state != %s || %s == \']\' || %s == \':\')) ==> (*ec_p == jmespath_errc_invalid_number && vx_tok_n == 0)) && ((state == %s && %s && vx_bufok && vx_bufval == 0) ==> (*ec_p == jmespath_errc_step_cannot_be_zero && vx_tok_n == 0))' % (HAVE, ST0, C, C, ST2, HAVE)),
    ('ensures', '[C13] "[...:stop]": the slice pushed has the start read before, the stop written here (absent if nothing was written) and the step it had; then the accumulator is the default slice again and "]" is consumed',
     '(state == %s && %s == \']\' && *ec_p == 0) ==> (vx_tok_n == 1 && vx_tok_kind[0] == K_SLICE && VX_OPT_EQ(vx_tok_slice[0].start_has, vx_tok_slice[0].start_, vx_old.start_has, vx_old.start_) && vx_tok_slice[0].step_ == vx_old.step_ '
     '&& (%s ? (vx_tok_slice[0].stop_has && vx_tok_slice[0].stop_ == vx_bufval) : VX_OPT_EQ(vx_tok_slice[0].stop_has, vx_tok_slice[0].stop_, vx_old.stop_has, vx_old.stop_)) && VX_IS_DEFAULT(slic) && vx_sp == __CPROVER_old(vx_sp) - 1 && p_ == vx_in + vx_off + 1)' % (ST1, C, HAVE)),
    ('ensures', '[C13] "[...:...:step]": the slice pushed has the start and stop read before and the step written here (the previous one if nothing was written); then the accumulator is the default slice again',
     '(state == %s && %s == \']\' && *ec_p == 0) ==> (vx_tok_n == 1 && vx_tok_kind[0] == K_SLICE && VX_OPT_EQ(vx_tok_slice[0].start_has, vx_tok_slice[0].start_, vx_old.start_has, vx_old.start_) '
     '&& VX_OPT_EQ(vx_tok_slice[0].stop_has, vx_tok_slice[0].stop_, vx_old.stop_has, vx_old.stop_) && vx_tok_slice[0].step_ == (%s ? vx_bufval : vx_old.step_) && VX_IS_DEFAULT(slic) && vx_buflen == 0 && vx_sp == __CPROVER_old(vx_sp) - 1 && p_ == vx_in + vx_off + 1)' % (ST2, C, HAVE)),
    ('ensures', '[C13] the second ":" keeps start, stores the stop written (if any) and goes on to read the step',
     '(state == %s && %s == \':\' && *ec_p == 0) ==> (vx_tok_n == 0 && VX_OPT_EQ(slic.start_has, slic.start_, vx_old.start_has, vx_old.start_) && slic.step_ == vx_old.step_ '
     '&& (%s ? (slic.stop_has && slic.stop_ == vx_bufval) : VX_OPT_EQ(slic.stop_has, slic.stop_, vx_old.stop_has, vx_old.stop_)) && vx_buflen == 0 && vx_sp == __CPROVER_old(vx_sp) + 1 && vx_stk[vx_sp - 2] == %s && vx_stk[vx_sp - 1] == expr_state_number && p_ == vx_in + vx_off + 1)' % (ST1, C, HAVE, ST2)),
    ('ensures', '[C13] the first ":" stores the start written (if any) and goes on to read the stop; stop and step are untouched',
     '(state == %s && %s == \':\' && *ec_p == 0) ==> (vx_tok_n == 0 && (%s ? (slic.start_has && slic.start_ == vx_bufval) : VX_OPT_EQ(slic.start_has, slic.start_, vx_old.start_has, vx_old.start_)) && VX_OPT_EQ(slic.stop_has, slic.stop_, vx_old.stop_has, vx_old.stop_) '
     '&& slic.step_ == vx_old.step_ && vx_buflen == 0 && vx_sp == __CPROVER_old(vx_sp) + 1 && vx_stk[vx_sp - 2] == %s && vx_stk[vx_sp - 1] == expr_state_number && p_ == vx_in + vx_off + 1)' % (ST0, C, HAVE, ST1)),
    ('ensures', '[C13] "[index]": the index expression pushed carries the integer written; "[]" is the flatten projection; the slice accumulator is not touched',
     '(state == %s && %s == \']\' && *ec_p == 0) ==> (VX_SLICE_EQ(slic, vx_old) && vx_tok_n == 1 && (%s ? (vx_tok_kind[0] == K_INDEX && vx_tok_index[0] == vx_bufval) : vx_tok_kind[0] == K_FLATTEN) && vx_buflen == 0 && vx_sp == __CPROVER_old(vx_sp) - 1 && p_ == vx_in + vx_off + 1)' % (ST0, C, HAVE)),
    ('ensures', '[C13] any other character is expected_rbracket',
     '(%s != \']\' && %s != \':\' && !(%s && !vx_bufok && state != %s) && !(state == %s && %s && vx_bufval == 0)) ==> *ec_p == jmespath_errc_expected_rbracket' % (C, C, HAVE, ST0, ST2, HAVE)),
]
CONTRACT = [c if c[0] != 'ensures' else (c[0], c[1], '!vx_tok_failed ==> (%s)' % c[2]) for c in CONTRACT]
SIG = r'jmespath_expression compile\(const char_type\* path, std::size_t length,\s*const jsoncons::jmespath::custom_functions<Json>& funcs,\s*std::error_code& ec\)'
SPECS = [
    EnumSpec('expr_state', P), EnumSpec('jmespath_errc', 'include/jsoncons_ext/jmespath/jmespath_error.hpp'),
    FuncSpec('slice_states', P, SIG, count=1, csig='void slice_states(uint8_t state, int* ec_p)', contract=CONTRACT, rules=RULES,
             slice_from=r'case expr_state::index_or_slice_expression:', slice_to=r'case expr_state::expect_rbracket:', prologue='switch (state) {', epilogue='default: break; }'),
]
SITE_CHECKS = [
    {'file': P, 'pattern': r'\bslic\b', 'count': 1, 'props': ['C13'], 'outside': [(r'case expr_state::index_or_slice_expression:', r'case expr_state::expect_rbracket:')],
     'what': 'outside the states under contract the slice accumulator of compile() is mentioned once: its declaration'},
    {'file': P, 'pattern': r'\n\s*slice slic\{\};', 'count': 1, 'props': ['C13'], 'what': 'the accumulator is declared value-initialised (slice(): no start, no stop, step 1)'},
]
HARNESSES = [Harness('slice_states', 'h_slice_states', enforce='slice_states', method='LF', props=['C13'])]
