/* vx_common.h -- definitions every assembled unit gets.  Ghost/model code only. */
#ifndef VX_COMMON_H
#define VX_COMMON_H
#include <stdint.h>
#include <stddef.h>
#include <stdbool.h>
#include <string.h>
#include <limits.h>

#define VX_MIN(a,b) ((a) < (b) ? (a) : (b))
#define VX_MAX(a,b) ((a) > (b) ? (a) : (b))

#ifdef VX_CBMC
#define VX_JSONCONS_ASSERT(c) __CPROVER_assert((c), "[C05] JSONCONS_ASSERT")
#define VX_ASSERT(c, msg) __CPROVER_assert((c), msg)
#define VX_ASSUME(c) __CPROVER_assume(c)
#else
#include <assert.h>
#include <stdio.h>
#include <stdlib.h>
#define VX_JSONCONS_ASSERT(c) do { if (!(c)) { vx_thrown = VX_THROW_assertion_error; } } while (0)
#define VX_ASSERT(c, msg) do { if (!(c)) { fprintf(stderr, "VX_ASSERT failed: %s\n", msg); vx_native_fail = 1; } } while (0)
#define VX_ASSUME(c) do { if (!(c)) { vx_native_skip = 1; } } while (0)
static int vx_native_fail, vx_native_skip;
#endif

/* JSONCONS_THROW(X(..)) is modelled as: record the kind, return (DESIGN 3.3 R5) */
enum vx_throw_kind { VX_THROW_none = 0, VX_THROW_ser_error, VX_THROW_json_runtime_error, VX_THROW_assertion_error,
                     VX_THROW_jsonpointer_error, VX_THROW_jsonpath_error, VX_THROW_jmespath_error, VX_THROW_other };
static int vx_thrown;

#ifdef VX_CBMC
uint8_t  nondet_u8(void);
uint16_t nondet_u16(void);
uint32_t nondet_u32(void);
uint64_t nondet_u64(void);
int64_t  nondet_i64(void);
int32_t  nondet_i32(void);
int      nondet_int(void);
size_t   nondet_size(void);
_Bool    nondet_bool(void);
#endif
#endif
