# U-PRETTIFY, U-DUMPBUF, U-WDOUBLE (DESIGN 6): printing of doubles, utility/write_number.hpp
#   fill_exponent, prettify_string : the text written for Grisu digits d1..dn and exponent k denotes exactly d1..dn * 10^k, is an RFC 8259
#                                    number and contains '.' or 'e' (so it re-parses as a double): loop contracts, unbounded zero padding
#   dump_buffer                    : printf text -> RFC 8259 number text, same number, '.'/'e' guaranteed: loop contract, unbounded length
#   dump_formatted, dtoa_*         : every buffer handed to dump_buffer / decstr_to_double is the complete snprintf output and lies inside
#                                    the buffer it was formatted into (the F5 defect class), snprintf by its ISO C contract
#   write_double::operator()       : dispatch, failure -> json_runtime_error
from core import FuncSpec, CopySpec, EnumSpec, DeclSpec, Harness, INF

W = 'include/jsoncons/utility/write_number.hpp'
PUSH = (r'result\.push_back\(', 'vx_out(')
MON_FRESH = 'vx_st == NUM_MINUS && vx_out_n == 0 && !vx_E_sat && !vx_bad && !vx_dot && !vx_e && vx_frac == 0 && vx_lead0 == 0 && vx_trail0 == 0 && vx_nbuf == 0 && vx_E == 0 && vx_edigits == 0 && !vx_eneg'
OUT_ASSIGNS = 'vx_st, vx_out_n, vx_bad, vx_dot, vx_e, vx_frac, vx_lead0, vx_trail0, vx_nbuf, vx_eneg, vx_E, vx_E_sat, vx_edigits'
EXP_ASSIGNS = 'vx_st, vx_out_n, vx_bad, vx_eneg, vx_E, vx_E_sat, vx_edigits'
RES = '__CPROVER_return_value'

FROM_INT = [
    ('requires', 'value >= 0 && vx_st == NUM_EXP2 && vx_e && vx_E == 0 && !vx_E_sat && vx_edigits == 0 && !vx_bad'),
    ('assigns', 'vx_st, vx_out_n, vx_bad, vx_E, vx_E_sat, vx_edigits'),
    ('ensures', '[C01][C08] from_integer<int> writes decimal digits only, at least one (value as such: unit integers, 64-bit instantiation)', 'vx_st == NUM_EXP3 && !vx_bad && vx_E >= 0 && vx_E <= 999'),
]
FILL_EXP = [
    ('requires', 'K > INT_MIN && vx_st == NUM_EXP1 && vx_e && vx_E == 0 && !vx_E_sat && vx_edigits == 0 && !vx_bad'),
    ('assigns', EXP_ASSIGNS),
    ('ensures', '[C04][C01][C08] fill_exponent writes a sign and the decimal digits of K: the exponent part is complete and denotes K',
     'vx_E >= 0 && vx_E < 1000 && vx_st == NUM_EXP3 && !vx_bad && ((K > -1000 && K < 1000) ==> (!vx_E_sat && VX_SIGNED_E() == (long long)K))'),
    ('ensures', '[C04] the sign written is that of K', '(K < 0) == vx_eneg'),
]
NB = 'nb_digits'
COMMON_INV = '!vx_bad && !vx_e && !vx_E_sat && vx_E == 0 && vx_edigits == 0 && !vx_eneg'
def L(assigns, inv, dec):
    return '__CPROVER_assigns(i, vx_st, vx_out_n, vx_bad, vx_frac, %s) __CPROVER_loop_invariant(%s && %s) __CPROVER_decreases(%s)' % (assigns, inv, COMMON_INV, dec)
PRETTY_LOOPS = {
    0: L('vx_nbuf', '0 <= i && i <= nb_digits && vx_nbuf == i && vx_st == (i == 0 ? NUM_MINUS : NUM_INT) && !vx_dot && vx_frac == 0 && vx_trail0 == 0 && vx_lead0 == 0', 'nb_digits - i'),
    1: L('vx_trail0, vx_lead0', 'nb_digits <= i && i <= kk && vx_nbuf == nb_digits && vx_trail0 == i - nb_digits && vx_st == NUM_INT && !vx_dot && vx_frac == 0 && vx_lead0 == 0', 'kk - i'),
    2: L('vx_nbuf', '0 <= i && i <= kk && vx_nbuf == i && vx_st == (i == 0 ? NUM_MINUS : NUM_INT) && !vx_dot && vx_frac == 0 && vx_trail0 == 0 && vx_lead0 == 0', 'kk - i'),
    3: L('vx_nbuf', 'kk <= i && i <= nb_digits && vx_nbuf == i && vx_frac == i - kk && vx_st == (i == kk ? NUM_FRAC1 : NUM_FRAC2) && vx_dot && vx_trail0 == 0 && vx_lead0 == 0', 'nb_digits - i'),
    4: L('vx_lead0, vx_trail0', '2 <= i && i <= offset && vx_lead0 == 1 + (i - 2) && vx_frac == i - 2 && vx_st == (i == 2 ? NUM_FRAC1 : NUM_FRAC2) && vx_nbuf == 0 && vx_dot && vx_trail0 == 0', 'offset - i'),
    5: L('vx_nbuf', '0 <= i && i <= nb_digits && vx_nbuf == i && vx_frac == (long long)(offset - 2) + i && vx_st == (vx_frac == 0 ? NUM_FRAC1 : NUM_FRAC2) && vx_dot && vx_trail0 == 0', 'nb_digits - i'),
    6: L('vx_nbuf', '1 <= i && i <= nb_digits && vx_nbuf == i && vx_frac == i - 1 && vx_st == (i == 1 ? NUM_FRAC1 : NUM_FRAC2) && vx_dot && vx_trail0 == 0 && vx_lead0 == 0', 'nb_digits - i'),
    'count': 7,
}
PRETTIFY = [
    # digits as Grisu3 delivers them: 1..18 decimal digits, the first one not 0; k any exponent a binary64 can have (|k| <= 343) with a margin; beyond +-999 the exponent value is not tracked by the ghost
    ('requires', 'buffer == vx_pbuf && length == vx_plen && vx_digits_ok(buffer, length) && k >= -900 && k <= 900'),
    ('requires', MON_FRESH),
    ('assigns', OUT_ASSIGNS),
    ('ensures', '[C04][C01] the text written denotes exactly digits * 10^k: the digits of the buffer in order, padded with zeros only, decimal point and exponent placed so that the value is unchanged',
     'VX_DENOTES(k)'),
    ('ensures', '[C01][C08][C04] the text is a complete RFC 8259 number containing a fraction or an exponent (it re-parses as a double, never as an integer)',
     'VX_COMPLETE_FLOAT()'),
]
DP_OK = "!(decimal_point >= '0' && decimal_point <= '9') && decimal_point != '-' && decimal_point != '+' && decimal_point != 'e' && decimal_point != 'E'"
DB_OFF = '__CPROVER_POINTER_OFFSET(q)'
DUMP_LOOP = ('__CPROVER_assigns(q, needs_dot, vx_st, vx_in_st, vx_mark, vx_out_n) '
             '__CPROVER_loop_invariant(__CPROVER_same_object(q, vx_db_ptr) && %s <= length && vx_out_n <= %s && (vx_in_st == NUM_ERR || (vx_st == vx_in_st && needs_dot == !vx_mark && vx_mark == (vx_st >= NUM_FRAC1 && vx_st <= NUM_EXP3)))) '
             '__CPROVER_decreases(length - %s)' % (DB_OFF, DB_OFF, DB_OFF))
DUMP_BUFFER = [
    ('requires', 'buffer == vx_db_ptr && length <= vx_db_cap'),
    ('requires', 'decimal_point == vx_dp && ' + DP_OK),
    ('requires', 'vx_st == NUM_MINUS && vx_in_st == NUM_MINUS && !vx_mark && vx_out_n == 0 && vx_db_calls == 0'),
    ('assigns', 'vx_st, vx_in_st, vx_mark, vx_out_n, vx_db_calls, vx_db_len, vx_db_arg'),
    ('ensures', '[C08][C01][C04] a number in printf form (RFC 8259 number syntax with the locale decimal point, e or E) is written as the same number in RFC 8259 form, and the output contains a fraction or an exponent',
     '(length > 0 && spec_num_accepting(vx_in_st)) ==> ((vx_st == NUM_FRAC2 || vx_st == NUM_EXP3) && vx_mark)'),
    ('ensures', '[C05] call record', 'vx_db_calls == 1 && vx_db_len == length && vx_db_arg == buffer'),
]
SN_FRESH = 'vx_db_calls == 0 && vx_st == NUM_MINUS && vx_in_st == NUM_MINUS && !vx_mark && vx_out_n == 0'
CALL_ASSIGNS = 'vx_st, vx_in_st, vx_mark, vx_out_n, vx_db_calls, vx_db_len, vx_db_arg, vx_sn_dst, vx_sn_size, vx_sn_ret, vx_sn_calls, vx_sn_conv, vx_sn_prec, vx_sn_exact, vx_db_ptr, vx_db_cap, vx_dp'
WHOLE = '(vx_db_calls == 1 && vx_db_arg == vx_sn_dst && vx_sn_ret >= 0 && vx_db_len == (size_t)vx_sn_ret && vx_db_len < vx_sn_size)'
DUMP_FORMATTED = [
    ('requires', SN_FRESH + ' && ' + DP_OK),
    ('requires', "format[0] == '%' && format[1] == '1' && format[2] == '.' && format[3] == '*' && (format[4] == 'e' || format[4] == 'f' || format[4] == 'g') && format[5] == 0"),
    ('assigns', CALL_ASSIGNS),
    ('ensures', '[C05][C08][C04] success: exactly the complete text snprintf produced (with the requested conversion and precision) is handed to dump_buffer: no truncated text, no read beyond the buffer it was formatted into',
     '%s ==> (%s && vx_sn_conv == format[4] && vx_sn_prec == precision)' % (RES, WHOLE)),
    ('ensures', '[C04] 17 significant digits identify the value (when the value printed is the one under study)',
     '(%s && val == vx_val && vx_sig17(format[4], precision, val)) ==> vx_sn_exact' % RES),
    ('ensures', '[C08] failure: nothing is written', '!%s ==> (vx_db_calls == 0 && vx_out_n == 0)' % RES),
]
FIN = '!__CPROVER_isnand(VAL) && !__CPROVER_isinfd(VAL) && VAL == vx_val && ((__CPROVER_fabs(VAL) < 1.0) == (vx_fl10_val < 0))'
def dtoa_false_contract(conv):
    return [
        ('requires', SN_FRESH + ' && ' + MON_FRESH + ' && ' + DP_OK),
        ('requires', FIN.replace('VAL', 'val')),
        ('assigns', CALL_ASSIGNS + ', ' + OUT_ASSIGNS),
        ('ensures', '[C08][C01] zero is written as 0.0', 'val == 0 ==> (%s && vx_st == NUM_FRAC2 && vx_dot && vx_out_n == 3 && vx_db_calls == 0)' % RES),
        ('ensures', '[C05][C08][C04] success on a non-zero value: exactly the complete text of the last snprintf call is handed to dump_buffer, formatted with %%1.*%s' % conv,
         "(val != 0 && %s) ==> (%s && vx_sn_conv == '%s')" % (RES, WHOLE, conv)),
        ('ensures', '[C04][C01] ... and that text parses back to exactly the value printed: either the code checked it (decstr_to_double(text) == val) or it carries at least 17 significant digits',
         '(val != 0 && %s) ==> vx_sn_exact' % RES),
        ('ensures', '[C08] failure: nothing is written', '!%s ==> (vx_db_calls == 0 && vx_out_n == 0)' % RES),
    ]
def dtoa_true_contract(conv):
    return [
        ('requires', SN_FRESH + ' && ' + MON_FRESH + ' && ' + DP_OK + ' && vx_grisu_calls == 0 && !vx_neg_written'),
        ('requires', FIN.replace('VAL', 'v')),
        ('assigns', CALL_ASSIGNS + ', ' + OUT_ASSIGNS + ', vx_grisu_calls, vx_grisu_ok, vx_grisu_k, vx_pbuf, vx_plen, vx_neg_written'),
        ('ensures', '[C08][C01] zero is written as 0.0', 'v == 0 ==> (%s && vx_st == NUM_FRAC2 && vx_dot && vx_out_n == 3 && vx_db_calls == 0 && !vx_neg_written)' % RES),
        ('ensures', '[C04][C01][C08] Grisu3 succeeded: a minus sign iff the value is negative, then text that denotes exactly the digits and exponent Grisu3 produced, a complete RFC 8259 number with fraction or exponent',
         '(v != 0 && vx_grisu_ok) ==> (%s && vx_grisu_calls == 1 && VX_DENOTES(vx_grisu_k) && VX_COMPLETE_FLOAT() && vx_neg_written == vx_signbit(v) && vx_db_calls == 0)' % RES),
        ('ensures', '[C04][C08] Grisu3 gave up: the printf path (%%1.*%s) decides, its text parses back to exactly the value, and nothing else is written' % conv,
         "(v != 0 && !vx_grisu_ok) ==> (vx_grisu_calls == 1 && !vx_neg_written && (%s ? (%s && vx_sn_conv == '%s' && vx_sn_exact) : (vx_db_calls == 0 && vx_out_n == 0)))" % (RES, WHOLE, conv)),
    ]
COMMON_DTOA_RULES = [
    (r'char buffer\[(\d+)\];', r'char buffer[\1]; VX_OWN(buffer, sizeof(buffer));', 1),
    (r'std::numeric_limits<double>::digits10', '15', 0, 1),
    (r'std::numeric_limits<double>::max_digits10', '17', 0, 4),
]
FALSE_RULES = COMMON_DTOA_RULES + [
    PUSH + (1, 20),
    (r'\bsnprintf\(', 'vx_snprintf(', 1, 6),
    (r'double x\{0\};', 'double x = 0;', 1),
    (r'auto res = decstr_to_double\(buffer, length, x\);', 'struct to_number_result res = decstr_to_double(buffer, (size_t)length, &x);', 1),
    (r'res\.ec == std::errc::invalid_argument', 'res.ec == VX_ERRC_invalid_argument', 1),
    (r'dump_buffer\(([^;]*?), decimal_point, result\);', r'dump_buffer(\1, decimal_point);', 1, 3),
]
def dtoa_true(name, anchor_name, conv, pretty_rule):
    return FuncSpec(name, W, r'bool %s\(double v, char decimal_point, Result& result, std::true_type\)' % anchor_name, count=1,
                    csig='bool %s(double v, char decimal_point)' % name, contract=dtoa_true_contract(conv),
                    rules=[PUSH + (1, 20), (r"vx_out\('-'\);", 'vx_neg_out();', 1),
                           (r'char buffer\[(\d+)\];', r'char buffer[\1]; vx_pbuf = buffer;', 1),
                           (r'std::signbit\(v\)', 'vx_signbit(v)', 2),
                           (r'jsoncons::detail::grisu3\(u, buffer, &length, &k\)', 'vx_grisu3(u, buffer, &length, &k)', 1),
                           pretty_rule,
                           (r'return %s\(v, decimal_point, result, std::false_type\(\)\);' % anchor_name, 'return %s_false(v, decimal_point);' % anchor_name, 1)])
def dispatcher(name):
    return FuncSpec(name, W, r'bool %s\(double v, char decimal_point, Result& result\)' % name, count=1, csig='bool %s(double v, char decimal_point)' % name,
                    contract=dtoa_true_contract('g' if name == 'dtoa_general' else 'f'),
                    # std::numeric_limits<double>::is_iec559 is true on this platform (assumption, listed): the Grisu3 overload is selected
                    rules=[(r'return %s\(v, decimal_point, result, std::integral_constant<bool, std::numeric_limits<double>::is_iec559>\(\)\);' % name,
                            'return %s_true(v, decimal_point);' % name, 1)])
WD_FRESH = SN_FRESH + ' && ' + MON_FRESH + ' && vx_grisu_calls == 0 && !vx_neg_written && vx_thrown == 0 && ' + FIN.replace('VAL', 'val')
WD_DP_OK = DP_OK.replace('decimal_point', 'self->decimal_point_')
WRITE_DOUBLE = [
    ('requires', WD_FRESH + ' && ' + WD_DP_OK),
    ('assigns', CALL_ASSIGNS + ', ' + OUT_ASSIGNS + ', vx_grisu_calls, vx_grisu_ok, vx_grisu_k, vx_pbuf, vx_plen, vx_neg_written, vx_thrown'),
    ('ensures', '[C05] the only exception write_double throws is json_runtime_error (a json_exception)', 'vx_thrown == 0 || vx_thrown == VX_THROW_json_runtime_error'),
    ('ensures', '[C08][C01][C04] normal return: one complete number was written - either the complete snprintf text through dump_buffer, or 0.0, or the Grisu3 digits laid out as a number with fraction or exponent',
     'vx_thrown == 0 ==> (%s || (vx_db_calls == 0 && VX_COMPLETE_FLOAT()))' % WHOLE),
    ('ensures', '[C08] failure: nothing is written', 'vx_thrown != 0 ==> (vx_db_calls == 0 && vx_out_n == 0 && !vx_neg_written)'),
    ('ensures', '[C04] a positive precision is honoured with the conversion of the chosen float_format (fixed: f, scientific: e, general: g)',
     "(vx_thrown == 0 && self->precision_ > 0) ==> (%s && vx_sn_prec == self->precision_ && vx_sn_conv == (self->float_format_ == float_chars_format_fixed ? 'f' : self->float_format_ == float_chars_format_scientific ? 'e' : 'g'))" % WHOLE),
    ('ensures', '[C04][C01] without a precision the shortest-digits path is used: Grisu3 digits written exactly, or the printf fallback with parse-back check',
     '(vx_thrown == 0 && self->precision_ <= 0 && self->float_format_ != float_chars_format_scientific && val != 0 && vx_grisu_ok) ==> (VX_DENOTES(vx_grisu_k) && VX_COMPLETE_FLOAT() && vx_neg_written == vx_signbit(val))'),
    ('ensures', '[C04][C01] without a precision, text produced through printf parses back to exactly the value',
     '(vx_thrown == 0 && self->precision_ <= 0 && val != 0 && vx_db_calls == 1) ==> vx_sn_exact'),
    ('ensures', '[C05] an unknown float_format is refused', '(self->float_format_ != float_chars_format_fixed && self->float_format_ != float_chars_format_scientific && self->float_format_ != float_chars_format_general) ==> vx_thrown != 0'),
]
SPECS = [
    FuncSpec('from_integer_int', W, r'\bfrom_integer\(Integer value, Result& result\)', count=1, csig='size_t from_integer_int(int value)', contract=FROM_INT,
             rules=[(r'using char_type = typename Result::value_type;', '', 1), (r'\bchar_type\b', 'char', 5), PUSH + (1, 20)]),
    FuncSpec('fill_exponent', W, r'void fill_exponent\(int K, Result& result\)', count=1, csig='void fill_exponent(int K)', contract=FILL_EXP,
             rules=[PUSH + (1, 40), (r'jsoncons::from_integer\(K, result\);', 'from_integer_int(K);', 1)]),
    FuncSpec('prettify_string', W, r'void prettify_string\(const char \*buffer, int length, int k, int min_exp, int max_exp, Result& result\)', count=1,
             csig='void prettify_string(const char *buffer, int length, int k, int min_exp, int max_exp)', contract=PRETTIFY,
             rules=[(r'result\.push_back\(buffer\[(\w+)\]\);', r'vx_out_buf(buffer, \1);', 1, 20), PUSH + (1, 40), (r'fill_exponent\(kk - 1, result\);', 'fill_exponent(kk - 1);', 2)],
             loops=PRETTY_LOOPS),
    FuncSpec('dump_buffer', W, r'void dump_buffer\(const char \*buffer, std::size_t length, char decimal_point, Result& result\)', count=1,
             csig='void dump_buffer(const char *buffer, size_t length, char decimal_point)', contract=DUMP_BUFFER,
             prologue='vx_db_calls++; vx_db_len = length; vx_db_arg = buffer;',
             rules=[(r'result\.push_back\(', 'vx_db_out(', 1, 20), (r'switch \(\*q\)', 'vx_in_step(*q); switch (*q)', 1)],
             loops={0: DUMP_LOOP, 'count': 1}),
    DeclSpec('decstr_decl', 'decstr_to_double', 'struct to_number_result decstr_to_double(const char* s, size_t length, double* x_p)',
             [('requires', 's == vx_db_ptr && length <= vx_db_cap && __CPROVER_w_ok(x_p, sizeof(*x_p))'), ('assigns', '*x_p'),
              ('ensures', 'decstr_to_double (std::from_chars, assumed correctly rounded): applied to the complete text of the last snprintf call it yields vx_val exactly iff that text parses back exactly',
               '(__CPROVER_return_value.ec != VX_ERRC_invalid_argument && s == vx_sn_dst && vx_sn_ret >= 0 && length == (size_t)vx_sn_ret && length < vx_sn_size) ==> ((*x_p == vx_val) == vx_sn_exact)'),
              ('ensures', 'decstr_to_double (std::from_chars / strtod, not under contract) reports success, invalid_argument or result_out_of_range',
               '__CPROVER_return_value.ec == VX_ERRC_ok || __CPROVER_return_value.ec == VX_ERRC_invalid_argument || __CPROVER_return_value.ec == VX_ERRC_result_out_of_range')],
             '(assumed: libstdc++ std::from_chars)'),
    FuncSpec('dump_formatted', W, r'bool dump_formatted\(const char\* format, int precision, double val, char decimal_point, Result& result\)', count=1,
             csig='bool dump_formatted(const char* format, int precision, double val, char decimal_point)', contract=DUMP_FORMATTED,
             prologue='vx_dp = decimal_point;',
             rules=[(r'char buffer\[(\d+)\];', r'char buffer[\1]; VX_OWN(buffer, sizeof(buffer));', 1),
                    (r'\bsnprintf\(', 'vx_snprintf(', 1, 6),
                    (r'std::vector<char> big\(([^;]+)\);', r'VX_VECTOR_CHAR(big, \1);', 1),
                    (r'big\.data\(\)', 'big_data', 2), (r'big\.size\(\)', 'big_size', 2),
                    (r'dump_buffer\(([^;]*?), decimal_point, result\);', r'dump_buffer(\1, decimal_point);', 1, 4)]),
    FuncSpec('dtoa_scientific', W, r'bool dtoa_scientific\(double val, char decimal_point, Result& result\)', count=1,
             csig='bool dtoa_scientific(double val, char decimal_point)', contract=dtoa_false_contract('e'), prologue='vx_dp = decimal_point;', rules=FALSE_RULES),
    FuncSpec('dtoa_general_false', W, r'bool dtoa_general\(double val, char decimal_point, Result& result, std::false_type\)', count=1,
             csig='bool dtoa_general_false(double val, char decimal_point)', contract=dtoa_false_contract('g'), prologue='vx_dp = decimal_point;', rules=FALSE_RULES),
    FuncSpec('dtoa_fixed_false', W, r'bool dtoa_fixed\(double val, char decimal_point, Result& result, std::false_type\)', count=1,
             csig='bool dtoa_fixed_false(double val, char decimal_point)', contract=dtoa_false_contract('f'), prologue='vx_dp = decimal_point;',
             rules=FALSE_RULES + [(r'static_cast<int>\(std::floor\(std::log10\((\w+)\)\)\)', r'vx_fl10(\1)', 0, 2), (r'std::fabs\(', '__CPROVER_fabs(', 0, 2),
                                  (r'return dump_formatted\(("%1\.\*f", [^;]*?), val, decimal_point, result\);', r'return dump_formatted(\1, val, decimal_point);', 0, 4)]),
    dtoa_true('dtoa_general_true', 'dtoa_general', 'g',
              (r'jsoncons::prettify_string\(buffer, length, k, -4, std::numeric_limits<double>::max_digits10, result\);', 'vx_plen = length; prettify_string(buffer, length, k, -4, 17);', 1)),
    dtoa_true('dtoa_fixed_true', 'dtoa_fixed', 'f',
              (r'jsoncons::prettify_string\(buffer, length, k, std::numeric_limits<int>::lowest\(\), \(std::numeric_limits<int>::max\)\(\), result\);', 'vx_plen = length; prettify_string(buffer, length, k, INT_MIN, INT_MAX);', 1)),
    dispatcher('dtoa_fixed'), dispatcher('dtoa_general'),
    EnumSpec('float_chars_format', 'include/jsoncons/json_options.hpp'),
    FuncSpec('write_double_call', W, r'std::size_t operator\(\)\(double val, Result& result\)', count=1, csig='size_t write_double_call(struct write_double* self, double val)',
             contract=WRITE_DOUBLE, aliases={'float_format_': '(self->float_format_)', 'precision_': '(self->precision_)', 'decimal_point_': '(self->decimal_point_)'},
             rules=[(r'JSONCONS_THROW\(json_runtime_error<std::invalid_argument>\("write_double failed\."\)\);', '{ vx_thrown = VX_THROW_json_runtime_error; return 0; }', 7),
                    (r'float_chars_format::(\w+)', r'float_chars_format_\1', 3),
                    (r'(dump_formatted|dtoa_fixed|dtoa_scientific|dtoa_general)\(([^;]*?), result\)', r'\1(\2)', 6)]),
]
HARNESSES = [
    Harness('from_integer_int', 'h_from_integer_int', enforce='from_integer_int', method='WU(12)', unwind=12, props=['C04', 'C01', 'C08'], timeout=900),
    Harness('fill_exponent', 'h_fill_exponent', enforce='fill_exponent', replace=['from_integer_int'], method='LF', props=['C04', 'C01', 'C08']),
    Harness('prettify_string', 'h_prettify', enforce='prettify_string', replace=['fill_exponent'], loop_contracts=True, method='LC', props=['C04', 'C01', 'C08'],
            expect_classes={'loop_invariant_step': 7}, timeout=900),
    Harness('dump_buffer', 'h_dump_buffer', enforce='dump_buffer', loop_contracts=True, method='LC', props=['C08', 'C01', 'C04'], expect_classes={'loop_invariant_step': 1}),
    Harness('dump_formatted', 'h_dump_formatted', enforce='dump_formatted', replace=['dump_buffer'], method='LF', props=['C08', 'C04']),
    Harness('dtoa_scientific', 'h_dtoa_scientific', enforce='dtoa_scientific', replace=['dump_buffer', 'decstr_to_double'], method='LF', props=['C08', 'C04', 'C01']),
    Harness('dtoa_general_false', 'h_dtoa_general_false', enforce='dtoa_general_false', replace=['dump_buffer', 'decstr_to_double'], method='LF', props=['C08', 'C04', 'C01']),
    Harness('dtoa_fixed_false', 'h_dtoa_fixed_false', enforce='dtoa_fixed_false', replace=['dump_buffer', 'decstr_to_double', 'dump_formatted'], method='LF', props=['C08', 'C04', 'C01']),
    Harness('dtoa_general_true', 'h_dtoa_general_true', enforce='dtoa_general_true', replace=['prettify_string', 'dtoa_general_false'], method='LF', props=['C04', 'C01', 'C08']),
    Harness('dtoa_fixed_true', 'h_dtoa_fixed_true', enforce='dtoa_fixed_true', replace=['prettify_string', 'dtoa_fixed_false'], method='LF', props=['C04', 'C01', 'C08']),
    Harness('dtoa_general', 'h_dtoa_general', enforce='dtoa_general', replace=['dtoa_general_true'], method='LF', props=['C04', 'C01', 'C08']),
    Harness('dtoa_fixed', 'h_dtoa_fixed', enforce='dtoa_fixed', replace=['dtoa_fixed_true'], method='LF', props=['C04', 'C01', 'C08']),
    Harness('write_double', 'h_write_double', enforce='write_double_call', replace=['dump_formatted', 'dtoa_fixed', 'dtoa_scientific', 'dtoa_general'], method='LF', props=['C04', 'C01', 'C08']),
]
