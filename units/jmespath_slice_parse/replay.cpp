// replay for unit jmespath_slice_parse: JMESPath expressions with two slice or index brackets joined by a pipe, "[s1] | [s2]", over every combination of
// present/absent start, stop and step.  Oracle: the pipe's definition -- search(doc, "[s1] | [s2]") == search(search(doc, "[s1]"), "[s2]") -- where each
// single-bracket expression is compiled on its own, so it does not depend on what an earlier bracket left behind in the parser.
#include <jsoncons/json.hpp>
#include <jsoncons_ext/jmespath/jmespath.hpp>
#include "replay_util.hpp"
using namespace jsoncons;
int main(int argc, char** argv)
{
    if (argc < 3) return 2;
    vx_replay_inputs in; in.load(argv[2]);
    std::vector<std::string> bounds = {"", "0", "1", "2", "-1", "-2", "4"};
    int64_t cb = in.i64("vx_bufval", 1); if (cb > -6 && cb < 6) bounds.push_back(std::to_string(cb));
    std::vector<std::string> sel;
    for (auto& a : bounds) for (auto& b : bounds) { sel.push_back(a + ":" + b); for (const char* st : {"", "1", "2", "-1"}) sel.push_back(a + ":" + b + ":" + st); }
    json doc(json_array_arg); for (int k = 0; k < 6; ++k) doc.push_back(k * 11);
    int bad = 0, total = 0; std::string first;
    for (size_t i = 0; i < sel.size(); ++i) for (size_t j = (i * 7) % 3; j < sel.size(); j += 3) {
        const std::string e1 = "[" + sel[i] + "]", e2 = "[" + sel[j] + "]";
        try { json got = jmespath::search(doc, e1 + " | " + e2); json mid = jmespath::search(doc, e1); json want = jmespath::search(mid, e2);
              ++total; if (got != want) { if (!bad) first = e1 + " | " + e2 + " on " + doc.to_string() + " gives " + got.to_string() + ", its parts give " + want.to_string(); ++bad; } }
        catch (const std::exception& e) { ++total; if (!bad) first = std::string(e.what()) + " for " + e1 + " | " + e2; ++bad; }
    }
    if (bad) VX_REPRO(bad << " of " << total << " two-bracket expressions differ from the composition of their parts, first: " << first);
    VX_NOREPRO("all " << total << " two-bracket expressions give what their parts give");
}
