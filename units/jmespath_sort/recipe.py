# unit jmespath_sort (C13): sort_by_function::evaluate - argument checks, the algorithm used (equal keys keep document order: the reference
# interpreter and the compliance suite's "stable sort order" require a stable sort) and one arbitrary call of the comparator (key type checks, order by key)
from core import FuncSpec, EnumSpec, Harness
J = 'include/jsoncons_ext/jmespath/jmespath.hpp'
RULES = [
    (r'JSONCONS_ASSERT\(args\.size\(\) == \*this->arity\(\)\);', '', 1),
    (r'args\[0\]\.is_value\(\)', 'vx_arg0_is_value', 1), (r'args\[1\]\.is_expression\(\)', 'vx_arg1_is_expr', 1), (r'jmespath_errc::(\w+)', r'jmespath_errc_\1', 3, 5),
    (r'return context\.null_value\(\);', '{ vx_ret = RET_NULL; return; }', 2, 3), (r'reference arg0 = args\[0\]\.value\(\);', '', 1), (r'arg0\.is_array\(\)', 'vx_arg0_is_array', 1), (r'arg0\.size\(\)', 'vx_n', 2, 4),
    (r'return arg0;', '{ vx_ret = RET_ARG0; return; }', 1), (r'const auto& expr = args\[1\]\.expression\(\);', '', 1),
    (r'auto result = context\.create_json\(json_array_arg\);\s*result->reserve\(vx_n\);\s*for \(std::size_t i = 0; i < vx_n; \+\+i\)\s*\{\s*result->emplace_back\(const_json_ptr_arg, &arg0\.at\(i\)\);\s*\}', 'vx_refs_to_all_elements = true;', 1),
    # the sort call: which algorithm, over which range; the comparator lambda becomes a block that is executed once for an arbitrary pair (lhs, rhs)
    (r'(?s)std::(stable_sort|sort)\(\(result->array_range\(\)\)\.begin\(\), \(result->array_range\(\)\)\.end\(\),\s*\[&expr,&context,&ec\]\(reference lhs, reference rhs\) -> bool\s*\{(.*?)\}\);',
     r'vx_sort_call(VX_ALG_\1); {\2 }', 1),
    (r'std::error_code ec2;', '', 1), (r'reference key1 = expr\.evaluate\(lhs, context, ec2\);', 'int key1 = vx_key(0);', 1), (r'reference key2 = expr\.evaluate\(rhs, context, ec2\);', 'int key2 = vx_key(1);', 1),
    (r'key1\.is_number\(\)', 'vx_is_number[0]', 1), (r'key1\.is_string\(\)', 'vx_is_string[0]', 1), (r'key2\.is_number\(\)', 'vx_is_number[1]', 1), (r'key2\.is_string\(\)', 'vx_is_string[1]', 1),
    (r'return key1 < key2;', 'vx_cmp_result = vx_less(key1, key2); vx_cmp_done = true;', 1),
    (r'return ec \? context\.null_value\(\) : \*result;', '{ vx_ret = (*ec_p) ? RET_NULL : RET_RESULT; return; }', 1),
]
BADARG = '(!(vx_arg0_is_value && vx_arg1_is_expr) || !vx_arg0_is_array)'
KEYS_OK = '((vx_is_number[0] || vx_is_string[0]) && vx_is_number[1] == vx_is_number[0] && vx_is_string[1] == vx_is_string[0])'
C = [
    ('requires', '*ec_p == 0 && vx_sorts == 0 && !vx_cmp_done && !vx_refs_to_all_elements && !(vx_is_number[0] && vx_is_string[0]) && !(vx_is_number[1] && vx_is_string[1])'),
    ('assigns', '*ec_p, vx_ret, vx_sorts, vx_alg, vx_cmp_done, vx_cmp_result, vx_refs_to_all_elements, vx_keys_evaluated'),
    ('ensures', '[C13] sort_by(array, &expr): a first argument that is not an array value, or a second that is not an expression, is invalid-type; nothing is sorted', '%s ==> (*ec_p == jmespath_errc_invalid_type && vx_ret == RET_NULL && vx_sorts == 0)' % BADARG),
    ('ensures', '[C13] an array of at most one element is returned as it is', '(!%s && vx_n <= 1) ==> (*ec_p == 0 && vx_ret == RET_ARG0 && vx_sorts == 0)' % BADARG),
    ('ensures', '[C13] otherwise all elements are sorted once, by an algorithm that keeps elements with equal keys in document order (stable sort: jmespath.py sorts with a stable sort and the compliance suite has a "stable sort order" case)',
     '(!%s && vx_n > 1) ==> (vx_sorts == 1 && vx_alg == VX_ALG_stable_sort && vx_refs_to_all_elements)' % BADARG),
    ('ensures', '[C13] the comparator (one arbitrary call): both keys are evaluated; keys that are not both numbers or both strings make the call invalid-type and null is returned; otherwise elements are ordered by their keys',
     '(!%s && vx_n > 1) ==> (vx_cmp_done && vx_keys_evaluated == 3 && (%s ? (*ec_p == 0 && vx_ret == RET_RESULT && vx_cmp_result == vx_key_less) : (*ec_p == jmespath_errc_invalid_type && vx_ret == RET_NULL)))' % (BADARG, KEYS_OK)),
]
SPECS = [
    EnumSpec('jmespath_errc', 'include/jsoncons_ext/jmespath/jmespath_error.hpp'),
    FuncSpec('sort_by_evaluate', J, r'reference evaluate\(const std::vector<parameter_type>& args, eval_context<Json>& context, std::error_code& ec\) const override', after=r'class sort_by_function : public function_base<Json>', ordinal=0,
             csig='void sort_by_evaluate(int* ec_p)', contract=C, aliases={'ec': '(*ec_p)'}, rules=RULES),
]
HARNESSES = [Harness('sort_by_evaluate', 'h_sort_by_evaluate', enforce='sort_by_evaluate', method='LF', props=['C13'],
                     note='the comparator lambda is turned into a block executed once for an arbitrary pair of elements (their keys are abstract values with a kind); std::stable_sort itself is the standard library')]
