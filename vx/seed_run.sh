#!/bin/sh
# usage: seed_run.sh <seed name> <property> [extra bin/check args]   -- run a check against a copy of the headers with a seeded change applied
# (equivalent to: git -C /repo apply patch; bin/check; git -C /repo checkout -- . ; but leaves /repo alone; evidence goes to out/seeded-evidence)
NAME=$1; PROP=$2; shift; shift
D=$(mktemp -d /tmp/seedrun.XXXXXX)
cp -r /repo/include $D/include
( cd $D && patch -s -p1 < /verif/seeded/$NAME/patch.diff ) || { echo "patch does not apply"; rm -rf $D; exit 3; }
VX_REPO=$D VX_EVIDENCE_DIR=/verif/out/seeded-evidence /verif/bin/check $PROP "$@" 2>&1 | tee /verif/out/seedrun-$NAME-$PROP.log | grep -E "VIOLATION|failed obligation|KNOWN|BROKEN|tier=" | cut -c1-300
rm -rf $D
