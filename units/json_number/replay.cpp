// replay for unit json_number: the counterexample chunk is fed to the real basic_json_parser
// (a) in one piece and (b) split after the chunk, with several continuations; outcomes must agree (C03)
// and must agree with the RFC 8259 number DFA (C02).
#include <jsoncons/json.hpp>
#include "replay_util.hpp"
extern "C" {
#include "spec_num.h"
}
using namespace jsoncons;
struct rec_visitor : public default_json_visitor {
    std::string log;
    bool visit_begin_array(semantic_tag, const ser_context&, std::error_code&) override { log += "["; return true; }
    bool visit_end_array(const ser_context&, std::error_code&) override { log += "]"; return true; }
    bool visit_uint64(uint64_t v, semantic_tag, const ser_context&, std::error_code&) override { log += "u" + std::to_string(v) + ","; return true; }
    bool visit_int64(int64_t v, semantic_tag, const ser_context&, std::error_code&) override { log += "i" + std::to_string(v) + ","; return true; }
    bool visit_double(double v, semantic_tag, const ser_context&, std::error_code&) override { log += "d" + std::to_string(v) + ","; return true; }
    bool visit_string(const string_view& s, semantic_tag t, const ser_context&, std::error_code&) override { log += "s" + std::string(s) + "/" + std::to_string((int)t) + ","; return true; }
};
static std::string run_chunks(const std::vector<std::string>& chunks)
{
    json_parser parser; rec_visitor v; std::error_code ec;
    for (auto& c : chunks) {
        parser.update(c.data(), c.size());
        parser.parse_some(v, ec);
        if (ec) return v.log + " ERR:" + ec.message();
    }
    parser.finish_parse(v, ec);
    if (ec) return v.log + " ERR:" + ec.message();
    parser.check_done(ec);
    if (ec) return v.log + " ERR:" + ec.message();
    return v.log + " OK";
}
int main(int argc, char** argv)
{
    if (argc < 3) return 2;
    vx_replay_inputs in; if (!in.load(argv[2])) return 2;
    size_t n = in.u64("vx_n"), off = in.u64("vx_off");
    if (n > 64) VX_NOREPRO("counterexample not minimised (chunk of " << n << " bytes)");
    static const char* prefix[] = {"-", "0", "1", "1.", "1.5", "1e", "1e+", "1e5"};
    unsigned st = (unsigned)in.u64("p.number_state_");
    if (st > 7) VX_NOREPRO("entry state out of range");
    std::string chunk;
    for (size_t i = off; i < n; ++i) {
        std::string key = "vx_buf[" + std::to_string(i) + "]";
        chunk.push_back(in.has(key) ? (char)in.i64(key) : '0');
    }
    // the malloc'ed buffer appears in the trace as dynamic_object: accept both spellings
    for (size_t i = off; i < n; ++i) { std::string k2 = "dynamic_object[" + std::to_string(i) + "]"; if (in.has(k2)) chunk[i - off] = (char)in.i64(k2); }
    const char* conts[] = {"", "]", "1]", "0]", ".5]", "e5]", "-]", " ]", ",2]"};
    for (const char* cont : conts) {
        std::string part1 = std::string("[") + prefix[st] + chunk;
        std::string whole = part1 + cont;
        std::string a = run_chunks({whole});
        std::string b = run_chunks({part1, cont});
        if (a != b) VX_REPRO("chunk split changes the outcome: \"" << whole << "\" in one piece: " << a << " ; split as \"" << part1 << "\" + \"" << cont << "\": " << b);
        // C02: the number token against the RFC 8259 DFA
        std::string tok; size_t i = 1;
        while (i < whole.size() && std::string("+-.eE0123456789").find(whole[i]) != std::string::npos) tok.push_back(whole[i++]);
        int s = tok.size() && tok[0] == '-' ? NUM_MINUS : (tok.size() && tok[0] == '0' ? NUM_ZERO : (tok.size() && tok[0] >= '1' && tok[0] <= '9' ? NUM_INT : NUM_ERR));
        for (size_t k = 1; k < tok.size(); ++k) s = spec_num_step(s, tok[k]);
        bool rest_ok = (i < whole.size()) && (whole.substr(i) == "]" || whole.substr(i) == " ]" || whole.substr(i) == ",2]");
        bool want_ok = spec_num_accepting(s) && rest_ok;
        bool got_ok = a.size() >= 3 && a.substr(a.size() - 3) == " OK";
        if (i == whole.size() || rest_ok || !spec_num_accepting(s))
            if (want_ok != got_ok && !(i == whole.size()))
                VX_REPRO("\"" << whole << "\": RFC 8259 says " << (want_ok ? "valid" : "invalid") << ", parser says: " << a);
    }
    VX_NOREPRO("one-piece and split parses agree and match the RFC 8259 number grammar for all continuations tried");
}
