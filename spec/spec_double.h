/* S-DBL: IEEE 754 binary64 decomposition and rounding-interval boundaries.
 * A positive finite double with biased exponent b and fraction field t is  f * 2^e  with
 *     b != 0: f = 2^52 + t, e = b - 1075        b == 0 (subnormal): f = t, e = -1074.
 * Its neighbours are (f+1)*2^e above and (f-1)*2^e below, except that below a power of two (t == 0, b > 1) the gap is
 * half as large: the predecessor is (2f-1)*2^(e-1).  A decimal parses back to v exactly when it lies between the
 * midpoints  m- = (v_pred + v)/2  and  m+ = (v + v_succ)/2  (Steele & White / Loitsch 2010, section 2.2):
 *     m+ = (2f+1) * 2^(e-1);     m- = (2f-1) * 2^(e-1),  or (4f-1) * 2^(e-2) below a power of two.
 * Not derived from jsoncons. */
#ifndef SPEC_DOUBLE_H
#define SPEC_DOUBLE_H
#include <stdint.h>
static inline uint64_t spec_dbl_f(uint64_t bits) { uint64_t b = (bits >> 52) & 0x7ff, t = bits & 0xfffffffffffffull; return b ? ((1ull << 52) + t) : t; }
static inline int spec_dbl_e(uint64_t bits) { int b = (int)((bits >> 52) & 0x7ff); return b ? b - 1075 : -1074; }
static inline int spec_dbl_lower_gap_is_half(uint64_t bits) { uint64_t b = (bits >> 52) & 0x7ff, t = bits & 0xfffffffffffffull; return t == 0 && b > 1; }
static inline int spec_dbl_is_min_normal(uint64_t bits) { return ((bits >> 52) & 0x7ff) == 1 && (bits & 0xfffffffffffffull) == 0; }
#endif
