# U-MERGEPATCH (C16): own level of apply_merge_patch_ and of from_diff against RFC 7386
from core import FuncSpec, CopySpec, EnumSpec, Harness
M = 'include/jsoncons_ext/mergepatch/mergepatch.hpp'
LOOP = '''__CPROVER_assigns(vx_i, vx_cur, vx_erases, vx_emplaces, vx_recursions, vx_rec_on_existing, vx_emplaced_null, vx_emplaced_copy, vx_order_bad)
  __CPROVER_loop_invariant(vx_i <= vx_n && !vx_order_bad && (vx_k >= vx_i ==> (vx_erases == 0 && vx_emplaces == 0 && vx_recursions == 0 && !vx_emplaced_null && !vx_emplaced_copy)) && (vx_k < vx_i ==> (%s)))
  __CPROVER_decreases(vx_n - vx_i)'''
# RFC 7386 for the watched member: null -> removed if it exists, nothing else; otherwise Target[Name] = MergePatch(Target[Name], Value): the old pair (if any) is replaced by one new pair
# whose value is the recursive result on the old value (or on "nothing", which the code represents by an empty object)
APPLY_W = ('(vx_null[vx_k] ? (vx_emplaces == 0 && vx_recursions == 0 && vx_erases == (vx_found[vx_k] ? 1 : 0)) '
           ': (vx_emplaces == 1 && vx_recursions == 1 && vx_rec_on_existing == (vx_found[vx_k] != 0) && vx_erases == (vx_found[vx_k] ? 1 : 0)))')
APPLY = [
    ('requires', 'vx_n <= 100000000 && vx_k < vx_n && __CPROVER_is_fresh(vx_null, vx_n * sizeof(bool)) && __CPROVER_is_fresh(vx_found, vx_n * sizeof(bool)) && vx_erases == 0 && vx_emplaces == 0 && vx_recursions == 0 && !vx_emplaced_null && !vx_emplaced_copy && !vx_order_bad && !vx_reset_target && !vx_returned_patch && !vx_returned_target'),
    ('assigns', 'vx_cur, vx_erases, vx_emplaces, vx_recursions, vx_rec_on_existing, vx_emplaced_null, vx_emplaced_copy, vx_order_bad, vx_reset_target, vx_returned_patch, vx_returned_target, vx_target_is_object'),
    ('ensures', '[C16] a patch that is not an object replaces the target: it is returned and nothing is edited', '!vx_patch_is_object ==> (vx_returned_patch && !vx_returned_target && vx_erases == 0 && vx_emplaces == 0 && !vx_reset_target)'),
    ('ensures', '[C16] an object patch: a target that is not an object is replaced by an empty object first; the (edited) target is returned', 'vx_patch_is_object ==> (vx_returned_target && !vx_returned_patch && vx_reset_target == !__CPROVER_old(vx_target_is_object))'),
    ('ensures', '[C16] for every Name/Value pair of the patch (watched: any): a null Value removes the pair with that Name if it exists and adds nothing; any other Value makes Target[Name] the merge of the old Target[Name] (or of nothing) with Value - the old pair, if any, is removed before the new one is added',
     'vx_patch_is_object ==> (!vx_order_bad && %s)' % APPLY_W),
]
A_RULES = [
    (r'patch\.is_object\(\)', 'vx_patch_is_object', 1), (r'!target\.is_object\(\)', '!vx_target_is_object', 1), (r'target = Json\(json_object_arg\);', 'vx_reset_target = true; vx_target_is_object = true;', 1),
    (r'for \(auto& member : patch\.object_range\(\)\)\s*\{', 'for (size_t vx_i = 0; vx_i < vx_n; ++vx_i) { vx_cur = vx_i;', 1),
    (r'auto it = target\.find\(member\.key\(\)\);\s*if \(it != target\.object_range\(\)\.end\(\)\)', 'if (vx_found[vx_i])', 1),
    (r'Json item = \(\*it\)\.value\(\);', 'bool vx_item_existing = true;', 1), (r'target\.erase\(it\);', 'vx_erase();', 0, 2), (r'member\.value\(\)\.is_null\(\)', 'vx_null[vx_i]', 0, 3),
    (r'target\.try_emplace\(member\.key\(\), apply_merge_patch_\(item, member\.value\(\)\)\);', 'vx_emplace_merged(vx_item_existing);', 1, 3),
    (r'\bitem\.is_object\(\)', 'nondet_bool()', 0, 2), (r'target\.try_emplace\(member\.key\(\), member\.value\(\)\);', 'vx_emplace_asis();', 0, 2),
    (r'Json item\(json_object_arg\);', 'bool vx_item_existing = false;', 1), (r'return target;', 'vx_returned_target = true; return;', 1), (r'return patch;', 'vx_returned_patch = true; return;', 1),
]
# from_diff: for each member of source: absent in target -> null; present and different -> nested diff; present and equal -> nothing.  For each member of target: absent in source -> copied.
# first loop, judged by what RFC 7386 does with the patch member it produces for a member s of the source whose counterpart in the target is t (absent, or a value without nulls):
#   no member in the patch: the result keeps s           -> right iff t exists and s == t
#   null:                   the member is removed        -> right iff t does not exist
#   t as it is:             MergePatch(s, t)             -> right iff t exists and (s, t are not both objects - then the result is t - or s == t)
#   from_diff(s, t):        MergePatch(s, from_diff(s,t)) = t by the induction hypothesis (this very property one level down) -> right iff t exists
#   s as it is:             MergePatch(s, s) = s         -> right iff t exists and s == t
# whether a nested diff is empty follows from the induction hypothesis too: for two objects it is {} exactly when they are equal; otherwise from_diff returns t itself.
DIFF1_W = '(vx_first_h == 0 ? (vx_found[vx_k] && vx_equal[vx_k]) : vx_first_h == VX_H_NULL ? !vx_found[vx_k] : vx_first_h == VX_H_TARGET ? (vx_found[vx_k] && (!(vx_s_obj[vx_k] && vx_t_obj[vx_k]) || vx_equal[vx_k])) : vx_first_h == VX_H_DIFF ? vx_found[vx_k] : (vx_found[vx_k] && vx_equal[vx_k]))'
LOOP_D = '''__CPROVER_assigns(vx_i, vx_cur, vx_emplaces, vx_first_h)
  __CPROVER_loop_invariant(vx_i <= vx_n && (vx_k >= vx_i ==> (vx_emplaces == 0 && vx_first_h == 0)) && (vx_k < vx_i ==> (%s)))
  __CPROVER_decreases(vx_n - vx_i)'''
DIFF1 = [('requires', 'vx_n <= 100000000 && vx_k < vx_n && __CPROVER_is_fresh(vx_equal, vx_n * sizeof(bool)) && __CPROVER_is_fresh(vx_found, vx_n * sizeof(bool)) && __CPROVER_is_fresh(vx_s_obj, vx_n * sizeof(bool)) && __CPROVER_is_fresh(vx_t_obj, vx_n * sizeof(bool)) && __CPROVER_is_fresh(vx_t_empty, vx_n * sizeof(bool)) && vx_emplaces == 0 && vx_first_h == 0'),
         ('requires', 'vx_equal[vx_k] ==> (vx_s_obj[vx_k] == vx_t_obj[vx_k])'),
         ('assigns', 'vx_cur, vx_emplaces, vx_first_h'),
         ('ensures', '[C16] from_diff, members of the source (watched: any): the patch member produced for it (none, null, the target value, the nested diff) is one under which RFC 7386 MergePatch turns the source member into the target member: '
                     'removed iff the target lacks it, left alone only if equal, the target value as it is only where MergePatch would not merge it with the source value', DIFF1_W)]
DIFF2_W = '(vx_erases == 0) && (!vx_found[vx_k] ? (vx_emplaces == 1 && vx_emplaced_copy) : vx_emplaces == 0)'
def DIFF(w, what):
    return [('requires', 'vx_n <= 100000000 && vx_k < vx_n && __CPROVER_is_fresh(vx_equal, vx_n * sizeof(bool)) && __CPROVER_is_fresh(vx_found, vx_n * sizeof(bool)) && vx_erases == 0 && vx_emplaces == 0 && vx_recursions == 0 && !vx_emplaced_null && !vx_emplaced_copy && !vx_order_bad'),
            ('assigns', 'vx_cur, vx_erases, vx_emplaces, vx_recursions, vx_rec_on_existing, vx_emplaced_null, vx_emplaced_copy, vx_order_bad'),
            ('ensures', '[C16] ' + what, '%s && vx_erases == 0' % w)]
D_RULES1 = [
    (r'for \(const auto& member : source\.object_range\(\)\)\s*\{', 'for (size_t vx_i = 0; vx_i < vx_n; ++vx_i) { vx_cur = vx_i;', 1),
    (r'auto it = target\.find\(member\.key\(\)\);\s*if \(it != target\.object_range\(\)\.end\(\)\)', 'if (vx_found[vx_i])', 1),
    (r'member\.value\(\) != \(\*it\)\.value\(\)', '!vx_equal[vx_i]', 0, 3), (r'member\.value\(\) == \(\*it\)\.value\(\)', 'vx_equal[vx_i]', 0, 3),
    (r'\(\*it\)\.value\(\)\.is_object\(\)', 'vx_t_obj[vx_i]', 0, 4), (r'member\.value\(\)\.is_object\(\)', 'vx_s_obj[vx_i]', 0, 4),
    (r'from_diff\(member\.value\(\), \(\*it\)\.value\(\)\)', 'VX_H_DIFF', 1, 3), (r'Json::null\(\)', 'VX_H_NULL', 1, 2), (r'\(\*it\)\.value\(\)', 'VX_H_TARGET', 0, 3), (r'member\.value\(\)', 'VX_H_SOURCE', 0, 3),
    (r'\bJson (\w+) = ', r'int \1 = ', 0, 3), (r'std::move\((\w+)\)', r'\1', 0, 3), (r'\b(\w+)\.empty\(\)', r'vx_h_empty(\1)', 0, 3),
    (r'result\.try_emplace\(member\.key\(\), ([^;]+)\);', r'vx_emplace_h(\1);', 2, 5),
]
D_RULES2 = [
    (r'for \(const auto& member : target\.object_range\(\)\)\s*\{', 'for (size_t vx_i = 0; vx_i < vx_n; ++vx_i) { vx_cur = vx_i;', 1),
    (r'auto it = source\.find\(member\.key\(\)\);\s*if \(it (==|!=) source\.object_range\(\)\.end\(\)\)', r'if ((vx_found[vx_i] != 0) \1 false)', 1),
    (r'result\.try_emplace\(member\.key\(\), member\.value\(\)\);', 'vx_emplace_copy();', 1),
]
SIG_A = r'Json apply_merge_patch_\(Json& target, const Json& patch\)'
SIG_D = r'Json from_diff\(const Json& source, const Json& target\)'
SPECS = [
    FuncSpec('apply_merge_patch_level', M, SIG_A, count=1, csig='void apply_merge_patch_level(void)', contract=APPLY, rules=A_RULES, loops={0: LOOP % APPLY_W, 'count': 1}),
    FuncSpec('from_diff_source_loop', M, SIG_D, count=1, csig='void from_diff_source_loop(void)', contract=DIFF1,
             rules=D_RULES1, slice_from=r'for \(const auto& member : source\.object_range\(\)\)', slice_to=r'for \(const auto& member : target\.object_range\(\)\)', loops={0: LOOP_D % DIFF1_W, 'count': 1}),
    FuncSpec('from_diff_target_loop', M, SIG_D, count=1, csig='void from_diff_target_loop(void)', contract=DIFF(DIFF2_W, 'from_diff, members of the target (watched: any): a member that the source lacks is copied into the patch; the others were handled by the first loop'),
             rules=D_RULES2, slice_from=r'for \(const auto& member : target\.object_range\(\)\)', slice_to=r'return result;', loops={0: LOOP % DIFF2_W, 'count': 1}),
]
HARNESSES = [
    Harness('apply_merge_patch_level', 'h_apply_merge_patch_level', enforce='apply_merge_patch_level', loop_contracts=True, method='LC', props=['C16'], expect_classes={'loop_invariant_step': 1},
            note='one level of the recursion; the recursive call is an event carrying whether it was given the existing member value or an empty object'),
    Harness('from_diff_source_loop', 'h_from_diff_source_loop', enforce='from_diff_source_loop', loop_contracts=True, method='LC', props=['C16'], expect_classes={'loop_invariant_step': 1}),
    Harness('from_diff_target_loop', 'h_from_diff_target_loop', enforce='from_diff_target_loop', loop_contracts=True, method='LC', props=['C16'], expect_classes={'loop_invariant_step': 1}),
]
