// replay for unit toon: encode/decode round trips through the real TOON encoder and reader over strings built from the characters that matter for quoting,
// escaping and row scanning (quotes, backslashes, delimiters, control characters), as object values, inline arrays and tabular rows
// (digits, signs, ".", "e" are left out here: number look-alikes have their own unit, toon_number)
#include <jsoncons/json.hpp>
#include <jsoncons_ext/toon/encode_toon.hpp>
#include <jsoncons_ext/toon/decode_toon.hpp>
#include "replay_util.hpp"
#include <random>
using namespace jsoncons;
int main(int argc, char** argv)
{
    if (argc < 3) return 2;
    std::mt19937 rng(12345); int bad = 0, total = 0; std::string first;
    const std::string alpha[] = {"a", "b", " ", "\\", "\"", "\n", "\r", "\t", "\b", "\f", "\x01", "\x1f", "\x7f", ":", ",", "|", "[", "]", "{", "}", "#", "/", "\xc3\xa9", "x"};
    const size_t na = sizeof(alpha) / sizeof(alpha[0]);
    auto rs = [&]() { std::string s; int n = rng() % 6; for (int i = 0; i < n; ++i) s += alpha[rng() % na]; return s; };
    for (int it = 0; it < 30000; ++it) {
        json v;
        switch (rng() % 4) {
            case 0: { v = json(json_object_arg); v["k" + rs()] = rs(); v["z" + rs()] = rs(); break; }
            case 1: { v = json(json_array_arg); for (int i = 0; i < 3; ++i) v.push_back(rs()); break; }
            case 2: { v = json(json_array_arg); for (int i = 0; i < 3; ++i) { json o(json_object_arg); o["a"] = rs(); o["b"] = rs(); v.push_back(o); } break; }
            default: { json in(json_array_arg); in.push_back(rs()); in.push_back(rs()); v = json(json_object_arg); v["k"] = in; v["q" + rs()] = json(json_object_arg, {{"r" + rs(), rs()}}); break; }
        }
        ++total; std::string t;
        for (auto delim : {toon::toon_delimiter_kind::comma, toon::toon_delimiter_kind::pipe, toon::toon_delimiter_kind::tab}) {
            toon::toon_options opt; opt.delimiter(delim);
            try { t.clear(); toon::encode_toon(v, t, opt); json back = toon::decode_toon<json>(t, opt); if (back != v) { if (!bad) first = v.to_string() + " -> " + back.to_string(); ++bad; } }
            catch (const std::exception& e) { if (!bad) first = std::string(e.what()) + " for " + v.to_string() + " encoded as " + t; ++bad; }
        }
    }
    if (bad) VX_REPRO(bad << " TOON round trips failed, first: " << first.substr(0, 300));
    VX_NOREPRO("all " << total << " values x 3 delimiters round-trip through TOON");
}
