/* unit ubjson: integer writers and the length reader */
#define VX_SINK_CAP 16
#define VX_SRC_CAP 32
#include "vx_common.h"
#include "model_sink.h"
#include "model_source.h"
#include "model_stack.h"
#include "spec_ubjson.h"

/*@ENUM ubjson_errc@*/
/*@COPY ubjson_types@*/
/*@GROUP binary@*/

struct ubjson_parser { bool more_; };
static size_t vx_items; static int vx_dec_ok;
static void vx_end_value(void) { vx_items++; }   /* end_value(): ++stack_.back().count_ when inside a container */

/*@FUNC visit_int64@*/
/*@FUNC visit_uint64@*/
/*@FUNC put_length@*/
/*@FUNC get_length@*/
/*@ENUM parse_mode@*/
/* begin_array / begin_object: ghost visitor */
struct ubjson_parser2 { bool more_; bool cursor_mode_; int nesting_depth_, max_nesting_depth_; size_t max_items_; };
static unsigned vx_events; static bool vx_ev_counted; static size_t vx_ev_len;
static void vx_ev_begin(int counted, size_t n) { vx_events++; vx_ev_counted = counted; vx_ev_len = n; }
/*@FUNC begin_array@*/
/*@FUNC begin_object@*/

#ifdef VX_CBMC
void h_visit_int64(void) { vx_sink_n = 0; vx_items = 0; visit_int64(nondet_i64()); }
void h_visit_uint64(void) { vx_sink_n = 0; vx_items = 0; int ec = 0; visit_uint64(nondet_u64(), &ec); }
void h_put_length(void) { vx_sink_n = 0; vx_thrown = 0; put_length(nondet_size()); }
void h_get_length(void)
{
    struct ubjson_parser p; p.more_ = true; int ec = 0;
    __CPROVER_havoc_object(vx_src);
    vx_src_n = nondet_size(); vx_src_pos = nondet_size();
    __CPROVER_assume(vx_src_n <= VX_SRC_CAP - 9 && vx_src_pos <= vx_src_n);
    get_length(&p, &ec);
}
static struct ubjson_parser2 vx_p2;
static void setup_p2(void)
{
    __CPROVER_havoc_object(vx_src);
    vx_src_n = nondet_size(); vx_src_pos = nondet_size();
    __CPROVER_assume(vx_src_n <= VX_SRC_CAP - 9 && vx_src_pos <= vx_src_n);
    vx_p2.more_ = true; vx_p2.cursor_mode_ = nondet_bool(); vx_p2.nesting_depth_ = nondet_int(); vx_p2.max_nesting_depth_ = nondet_int(); vx_p2.max_items_ = nondet_size();
    vx_pushes = 0; vx_events = 0;
}
void h_begin_array(void) { setup_p2(); int ec = 0; begin_array(&vx_p2, &ec); }
void h_begin_object(void) { setup_p2(); int ec = 0; begin_object(&vx_p2, &ec); }
void h_length_rt(void)
{
    size_t n = nondet_size(); __CPROVER_assume(n <= (size_t)INT64_MAX);
    vx_sink_n = 0; vx_thrown = 0;
    put_length(n);
    __CPROVER_assert(vx_thrown == 0 && vx_sink_n <= 9, "[C06] put_length accepts every length up to 2^63-1");
    memcpy(vx_src, vx_sink, 9); vx_src_n = vx_sink_n; vx_src_pos = 0;
    struct ubjson_parser p; p.more_ = true; int ec = 0;
    size_t m = get_length(&p, &ec);
    __CPROVER_assert(ec == 0 && m == n && vx_src_pos == vx_src_n, "[C06] get_length(put_length(n)) == n, consuming exactly what was written");
}
#endif
