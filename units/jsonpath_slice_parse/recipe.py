# U-JP-SLICEPARSE: the bracket states of jsonpath_evaluator::compile() that build slice and index selectors (program slices of the state switch; one step = one
# pass through the switch for the current character).  C12: the selector built is the one written.
from core import FuncSpec, CopySpec, EnumSpec, Harness
P = 'include/jsoncons_ext/jsonpath/jsonpath_parser.hpp'
N = 60
RULES = [
    (r'int64_t n\{0\};', 'int64_t n = 0;', 1, N),
    (r'auto r = jsoncons::to_integer\(buffer\.data\(\), buffer\.size\(\), n\);', 'bool r = vx_to_integer(&n);', 1, N),
    (r'ec = jsonpath_errc::(\w+);\s*return path_expression_type\(alloc_\);', r'*ec_p = jsonpath_errc_\1; return;', 1, N),
    (r'if \(JSONCONS_UNLIKELY\(ec\)\) \{return path_expression_type\(alloc_\);\}', 'if (*ec_p) return;', 1, N),
    (r'push_token\(resources, token_type\(begin_union_arg\), ec\);', 'vx_push_token(K_BEGIN_UNION, 0, ec_p);', 0, N),
    (r'push_token\(resources, token_type\(separator_arg\), ec\);', 'vx_push_token(K_SEPARATOR, 0, ec_p);', 0, N),
    (r'push_token\(resources, token_type\(resources\.new_selector\(index_selector<Json,JsonReference>\(n\)\)\), ec\);', 'vx_push_token(K_INDEX, n, ec_p);', 1, N),
    (r'push_token\(resources, token_type\(resources\.new_selector\(slice_selector<Json,JsonReference>\(slic\)\)\), ec\);', 'vx_push_slice(slic, ec_p);', 0, N),
    (r'buffer\.empty\(\)', '(vx_buflen == 0)', 1, N), (r'buffer\.clear\(\);', 'vx_buflen = 0;', 1, N),
    (r'slic\.(start|stop)_ = (?:jsoncons::optional<int64_t>\()?n\)?;', r'slic.\1_has = true; slic.\1_ = n;', 1, 3),
    (r'slic = slice\{\};', 'slic = vx_slice_default();', 0, 2),
    (r'state_stack_\.back\(\) = path_state::(\w+);', r'vx_stk[vx_sp - 1] = path_state_\1;', 1, N), (r'state_stack_\.emplace_back\(path_state::(\w+)\);', r'vx_stk[vx_sp++] = path_state_\1;', 1, N),
    (r'state_stack_\.pop_back\(\);', 'vx_sp--;', 1, N), (r'advance_past_space_character\(\);', 'vx_advance_ws();', 1, N), (r'case path_state::(\w+):', r'case path_state_\1:', 1, N),
]
C = 'vx_in[vx_off]'
OLD = '__CPROVER_old(slic)'
WS = "(%s == ' ' || %s == '\\t' || %s == '\\r' || %s == '\\n')" % (C, C, C, C)
HAVE = '__CPROVER_old(vx_buflen) > 0'
PRE = [
    ('requires', 'p_ == vx_in + vx_off && vx_off < vx_n && vx_n <= 100000000 && column_ <= SIZE_MAX / 2 && *ec_p == 0 && vx_tok_n == 0 && !vx_tok_failed && vx_sp >= 1 && vx_sp <= 4 && vx_stk[vx_sp - 1] == state && VX_SLICE_EQ(vx_old, slic)'),
    ('assigns', '*ec_p, vx_tok_failed, slic, p_, column_, vx_buflen, vx_sp, __CPROVER_object_whole(vx_stk), vx_tok_n, __CPROVER_object_whole(vx_tok_kind), __CPROVER_object_whole(vx_tok_index), __CPROVER_object_whole(vx_tok_slice)'),
]
SLICE_STATES = PRE + [
    ('requires', 'state == path_state_index_or_slice_or_union || state == path_state_slice_expression_stop || state == path_state_slice_expression_step'),
    ('ensures', '[C12] a bound that does not read as an integer is invalid_number and a step of 0 is step_cannot_be_zero; nothing is pushed',
     '((%s && !vx_bufok && (state != path_state_index_or_slice_or_union || %s == \']\' || %s == \',\' || %s == \':\')) ==> (*ec_p == jsonpath_errc_invalid_number && vx_tok_n <= (state == path_state_index_or_slice_or_union && %s == \',\' ? 1 : 0))) '
     '&& ((state == path_state_slice_expression_step && %s && vx_bufok && vx_bufval == 0) ==> (*ec_p == jsonpath_errc_step_cannot_be_zero && vx_tok_n == 0))' % (HAVE, C, C, C, C, HAVE)),
    ('ensures', '[C12] "[...:stop]" / "[...:stop," : the slice selector pushed has the start read before, the stop written here (absent if nothing was written) and the step it had; then the accumulator is the default slice again',
     '(state == path_state_slice_expression_stop && (%s == \']\' || %s == \',\') && *ec_p == 0) ==> (vx_tok_n == 1 && vx_tok_kind[0] == K_SLICE '
     '&& VX_OPT_EQ(vx_tok_slice[0].start_has, vx_tok_slice[0].start_, vx_old.start_has, vx_old.start_) && vx_tok_slice[0].step_ == vx_old.step_ '
     '&& (%s ? (vx_tok_slice[0].stop_has && vx_tok_slice[0].stop_ == vx_bufval) : VX_OPT_EQ(vx_tok_slice[0].stop_has, vx_tok_slice[0].stop_, vx_old.stop_has, vx_old.stop_)) '
     '&& VX_IS_DEFAULT(slic) && vx_sp == __CPROVER_old(vx_sp) - 1 && p_ == vx_in + vx_off)' % (C, C, HAVE)),
    ('ensures', '[C12] "[...:...:step]" / "...:step," : the slice selector pushed has the start and stop read before and the step written here (the previous one if nothing was written); then the accumulator is the default slice again',
     '(state == path_state_slice_expression_step && (%s == \']\' || %s == \',\') && *ec_p == 0) ==> (vx_tok_n == 1 && vx_tok_kind[0] == K_SLICE '
     '&& VX_OPT_EQ(vx_tok_slice[0].start_has, vx_tok_slice[0].start_, vx_old.start_has, vx_old.start_) && VX_OPT_EQ(vx_tok_slice[0].stop_has, vx_tok_slice[0].stop_, vx_old.stop_has, vx_old.stop_) '
     '&& vx_tok_slice[0].step_ == (%s ? vx_bufval : vx_old.step_) && VX_IS_DEFAULT(slic) && vx_buflen == 0 && vx_sp == __CPROVER_old(vx_sp) - 1 && p_ == vx_in + vx_off)' % (C, C, HAVE)),
    ('ensures', '[C12] the second ":" keeps start, stores the stop written (if any) and goes on to read the step',
     '(state == path_state_slice_expression_stop && %s == \':\' && *ec_p == 0) ==> (vx_tok_n == 0 && VX_OPT_EQ(slic.start_has, slic.start_, vx_old.start_has, vx_old.start_) && slic.step_ == vx_old.step_ '
     '&& (%s ? (slic.stop_has && slic.stop_ == vx_bufval) : VX_OPT_EQ(slic.stop_has, slic.stop_, vx_old.stop_has, vx_old.stop_)) && vx_buflen == 0 '
     '&& vx_sp == __CPROVER_old(vx_sp) + 1 && vx_stk[vx_sp - 2] == path_state_slice_expression_step && vx_stk[vx_sp - 1] == path_state_integer && p_ == vx_in + vx_off + 1)' % (C, HAVE)),
    ('ensures', '[C12] the first ":" of a union element stores the start written (if any), opens the union and goes on to read the stop; stop and step are untouched',
     '(state == path_state_index_or_slice_or_union && %s == \':\' && *ec_p == 0) ==> (vx_tok_n == 1 && vx_tok_kind[0] == K_BEGIN_UNION && (%s ? (slic.start_has && slic.start_ == vx_bufval) : VX_OPT_EQ(slic.start_has, slic.start_, vx_old.start_has, vx_old.start_)) '
     '&& VX_OPT_EQ(slic.stop_has, slic.stop_, vx_old.stop_has, vx_old.stop_) && slic.step_ == vx_old.step_ && vx_buflen == 0 && vx_sp == __CPROVER_old(vx_sp) + 2 && vx_stk[vx_sp - 3] == path_state_union_expression '
     '&& vx_stk[vx_sp - 2] == path_state_slice_expression_stop && vx_stk[vx_sp - 1] == path_state_integer && p_ == vx_in + vx_off + 1)' % (C, HAVE)),
    ('ensures', '[C12] "[index]" and "[index," : the index selector pushed carries the integer written; an empty index is invalid_number; the slice accumulator is not touched',
     '(state == path_state_index_or_slice_or_union && (%s == \']\' || %s == \',\')) ==> (VX_SLICE_EQ(slic, vx_old) && (__CPROVER_old(vx_buflen) == 0 ==> *ec_p == jsonpath_errc_invalid_number) '
     '&& (*ec_p == 0 ==> (vx_tok_kind[%s == \',\' ? 1 : 0] == K_INDEX && vx_tok_index[%s == \',\' ? 1 : 0] == vx_bufval && vx_tok_n == (%s == \',\' ? 3 : 1) && vx_buflen == 0 && p_ == vx_in + vx_off + 1)))' % (C, C, C, C, C)),
    ('ensures', '[C12] white space is skipped; any other character is expected_rbracket',
     '((%s && *ec_p == 0) ==> (p_ == vx_in + vx_off + 1 && vx_tok_n == 0 && vx_sp == __CPROVER_old(vx_sp))) && ((!%s && %s != \']\' && %s != \',\' && %s != \':\' && !(%s && !vx_bufok && state != path_state_index_or_slice_or_union) '
     '&& !(state == path_state_slice_expression_step && %s && vx_bufval == 0)) ==> *ec_p == jsonpath_errc_expected_rbracket)' % (WS, WS, C, C, C, HAVE, HAVE)),
]
INDEX_OR_SLICE = PRE + [
    ('requires', 'state == path_state_index_or_slice'),
    ('ensures', '[C12] "[index]" : the index selector pushed carries the integer written; an empty index is invalid_number; the slice accumulator is not touched',
     '((%s == \']\' || %s == \',\') ==> (VX_SLICE_EQ(slic, vx_old) && (__CPROVER_old(vx_buflen) == 0 ==> *ec_p == jsonpath_errc_invalid_number) && ((%s && !vx_bufok) ==> *ec_p == jsonpath_errc_invalid_number) '
     '&& (*ec_p == 0 ==> (vx_tok_n == 1 && vx_tok_kind[0] == K_INDEX && vx_tok_index[0] == vx_bufval && vx_buflen == 0 && vx_sp == __CPROVER_old(vx_sp) - 1))))' % (C, C, HAVE)),
    ('ensures', '[C12] the first ":" stores the start written (if any) and goes on to read the stop; stop and step are untouched',
     '(%s == \':\' && *ec_p == 0) ==> (vx_tok_n == 0 && (%s ? (slic.start_has && slic.start_ == vx_bufval) : VX_OPT_EQ(slic.start_has, slic.start_, vx_old.start_has, vx_old.start_)) '
     '&& VX_OPT_EQ(slic.stop_has, slic.stop_, vx_old.stop_has, vx_old.stop_) && slic.step_ == vx_old.step_ && vx_buflen == 0 && vx_sp == __CPROVER_old(vx_sp) + 1 '
     '&& vx_stk[vx_sp - 2] == path_state_slice_expression_stop && vx_stk[vx_sp - 1] == path_state_integer && p_ == vx_in + vx_off + 1)' % (C, HAVE)),
    ('ensures', '[C12] a start that does not read as an integer is invalid_number; any other character is expected_rbracket',
     '((%s == \':\' && %s && !vx_bufok) ==> *ec_p == jsonpath_errc_invalid_number) && ((!%s && %s != \']\' && %s != \',\' && %s != \':\') ==> *ec_p == jsonpath_errc_expected_rbracket)' % (C, HAVE, WS, C, C, C)),
]
def _g(cl):
    return [c if c[0] != 'ensures' else (c[0], c[1], '!vx_tok_failed ==> (%s)' % c[2]) for c in cl]
SLICE_STATES = _g(SLICE_STATES); INDEX_OR_SLICE = _g(INDEX_OR_SLICE)
SIG = r'path_expression_type compile\(static_resources<value_type>& resources,\s*const string_view_type& path,\s*std::error_code& ec\)'
SPECS = [
    EnumSpec('path_state', P), EnumSpec('jsonpath_errc', 'include/jsoncons_ext/jsonpath/jsonpath_error.hpp'),
    FuncSpec('slice_states', P, SIG, count=1, csig='void slice_states(uint8_t state, int* ec_p)', contract=SLICE_STATES, rules=RULES,
             slice_from=r'case path_state::index_or_slice_or_union:', slice_to=r'case path_state::bracketed_unquoted_name_or_union:', prologue='switch (state) {', epilogue='default: break; }'),
    FuncSpec('index_or_slice', P, SIG, count=1, csig='void index_or_slice(uint8_t state, int* ec_p)', contract=INDEX_OR_SLICE, rules=RULES,
             slice_from=r'case path_state::index_or_slice:', slice_to=r'case path_state::wildcard_or_union:', prologue='switch (state) {', epilogue='default: break; }'),
]
SITE_CHECKS = [
    {'file': P, 'pattern': r'\bslic\b', 'count': 1, 'props': ['C12'],
     'outside': [(r'case path_state::index_or_slice_or_union:', r'case path_state::bracketed_unquoted_name_or_union:'), (r'case path_state::index_or_slice:', r'case path_state::wildcard_or_union:')],
     'what': 'outside the states under contract the slice accumulator of compile() is mentioned once: its declaration'},
    {'file': P, 'pattern': r'\n\s*slice slic;', 'count': 1, 'props': ['C12'], 'what': 'the accumulator is declared default-constructed (no start, no stop, step 1)'},
]
HARNESSES = [
    Harness('slice_states', 'h_slice_states', enforce='slice_states', method='LF', props=['C12']),
    Harness('index_or_slice', 'h_index_or_slice', enforce='index_or_slice', method='LF', props=['C12']),
]
