# U-*-DEPTH (DESIGN 6): the nesting-depth guard at every container-opening path of the CBOR / UBJSON / BSON parsers and
# encoders and of the JSON encoders, as a program slice: the guard statement is verbatim, the rest of the function is cut to VX_REST().
# (The JSON parser and the MessagePack parser/encoder guards are verified in full in units json_depth, msgpack_read, msgpack.)
from core import FuncSpec, CopySpec, EnumSpec, Harness, INF
import re

SLICE = [
    (r'\A(\s*if \([^{;]*\{[^{}]*\})(.*)\Z', r'\1 VX_REST();', 1),
    (r'\w+_errc::max_nesting_depth_exceeded', 'VX_ERR_MAX_DEPTH', 1),
    (r'JSONCONS_VISITOR_RETURN;', 'return;', 0, 1),
    (r'options_\.max_nesting_depth\(\)', 'max_nesting_depth_', 0, 1),
    (r'state_stack_\.size\(\)', 'vx_stack_size', 0, 1),
]
AL = {'ec': '(*ec_p)', 'nesting_depth_': '(self->nesting_depth_)', 'max_nesting_depth_': '(self->max_nesting_depth_)', 'more_': '(self->more_)'}
COUNTER = [
    ('requires', '*ec_p == 0 && !vx_rest && self->nesting_depth_ >= 0 && self->nesting_depth_ <= self->max_nesting_depth_ && self->max_nesting_depth_ < INT_MAX'),
    ('assigns', '*ec_p, self->nesting_depth_, self->more_, vx_rest'),
    ('ensures', '[C10] a container opened at depth == max_nesting_depth is refused with max_nesting_depth_exceeded before anything else happens (no output, no push, no visitor event)',
     '__CPROVER_old(self->nesting_depth_) == self->max_nesting_depth_ ==> (*ec_p == VX_ERR_MAX_DEPTH && !vx_rest)'),
    ('ensures', '[C10] a container opened below the limit proceeds with depth + 1 (nesting exactly to the limit is accepted)',
     '__CPROVER_old(self->nesting_depth_) < self->max_nesting_depth_ ==> (*ec_p == 0 && vx_rest && self->nesting_depth_ == __CPROVER_old(self->nesting_depth_) + 1)'),
]
STACKSIZE = [
    ('requires', '*ec_p == 0 && !vx_rest && vx_stack_size <= (size_t)INT_MAX && self->max_nesting_depth_ >= 0'),
    ('assigns', '*ec_p, self->more_, vx_rest'),
    ('ensures', '[C10] a document/array opened with more than max_nesting_depth containers already open is refused before anything is read',
     '(int)vx_stack_size > self->max_nesting_depth_ ==> (*ec_p == VX_ERR_MAX_DEPTH && !vx_rest && !self->more_)'),
    ('ensures', '[C10] otherwise it proceeds', '(int)vx_stack_size <= self->max_nesting_depth_ ==> (*ec_p == 0 && vx_rest)'),
]
SITES = [
    # (name, file, anchor, ordinal, count, contract)
    ('cbor_parser_begin_array', 'include/jsoncons_ext/cbor/cbor_parser.hpp', r'void begin_array\(generic_visitor& visitor, uint8_t info, std::error_code& ec\)', 0, 1, COUNTER),
    ('cbor_parser_begin_classical_array_storage', 'include/jsoncons_ext/cbor/cbor_parser.hpp', r'void begin_classical_array_storage\(uint8_t info, std::error_code& ec\)', 0, 1, COUNTER),
    ('cbor_parser_begin_object', 'include/jsoncons_ext/cbor/cbor_parser.hpp', r'void begin_object\(generic_visitor& visitor, uint8_t info, std::error_code& ec\)', 0, 1, COUNTER),
    ('ubjson_parser_begin_array', 'include/jsoncons_ext/ubjson/ubjson_parser.hpp', r'void begin_array\(json_visitor& visitor, std::error_code& ec\)', 0, 1, COUNTER),
    ('ubjson_parser_begin_object', 'include/jsoncons_ext/ubjson/ubjson_parser.hpp', r'void begin_object\(json_visitor& visitor, std::error_code& ec\)', 0, 1, COUNTER),
    ('bson_parser_begin_document', 'include/jsoncons_ext/bson/bson_parser.hpp', r'void begin_document\(json_visitor& visitor, std::error_code& ec\)', 0, 1, STACKSIZE),
    ('bson_parser_begin_array', 'include/jsoncons_ext/bson/bson_parser.hpp', r'void begin_array\(json_visitor& visitor, std::error_code& ec\)', 0, 1, STACKSIZE),
]
for enc, f in (('cbor', 'include/jsoncons_ext/cbor/cbor_encoder.hpp'), ('ubjson', 'include/jsoncons_ext/ubjson/ubjson_encoder.hpp')):
    for kind in ('object', 'array'):
        SITES.append(('%s_encoder_begin_%s_indef' % (enc, kind), f, r'visit_begin_%s\(semantic_tag, const ser_context&, std::error_code& ec\) final' % kind, 0, 1, COUNTER))
        SITES.append(('%s_encoder_begin_%s_len' % (enc, kind), f, r'visit_begin_%s\(std::size_t length, semantic_tag, const ser_context&, std::error_code& ec\) final' % kind, 0, 1, COUNTER))
for kind in ('object', 'array'):
    SITES.append(('bson_encoder_begin_%s' % kind, 'include/jsoncons_ext/bson/bson_encoder.hpp', r'visit_begin_%s\(semantic_tag, const ser_context&, std::error_code& ec\) final' % kind, 0, 1, COUNTER))
    for i, cls in enumerate(('pretty', 'compact')):
        SITES.append(('json_%s_encoder_begin_%s' % (cls, kind), 'include/jsoncons/json_encoder.hpp', r'visit_begin_%s\(semantic_tag, const ser_context&, std::error_code& ec\) final' % kind, i, 2, COUNTER))

SPECS = [FuncSpec(n, f, a, ordinal=o, count=c, csig='void %s(struct vx_codec* self, int* ec_p)' % n, contract=ct, aliases=AL, rules=SLICE)
         for (n, f, a, o, c, ct) in SITES]
SITE_CHECKS = [
    {'file': 'include/jsoncons_ext/cbor/cbor_parser.hpp', 'pattern': r'state_stack_\.emplace_back\(parse_mode::(indefinite_array|array|indefinite_map_key|map_key)', 'count': 6, 'props': ['C10'],
     'what': 'CBOR parser: containers are pushed only inside the three guarded functions (two pushes each)'},
    {'file': 'include/jsoncons_ext/cbor/cbor_parser.hpp', 'pattern': r'\+\+nesting_depth_ > max_nesting_depth_', 'count': 3, 'props': ['C10'], 'what': 'CBOR parser: three guarded container-opening functions'},
    {'file': 'include/jsoncons_ext/cbor/cbor_encoder.hpp', 'pattern': r'stack_\.emplace_back\(cbor_container_type::', 'count': 4, 'props': ['C10'], 'what': 'CBOR encoder: containers are pushed only in the four guarded visit_begin_* functions'},
    {'file': 'include/jsoncons_ext/ubjson/ubjson_parser.hpp', 'pattern': r'\+\+nesting_depth_ > max_nesting_depth_', 'count': 2, 'props': ['C10'], 'what': 'UBJSON parser: two guarded container-opening functions'},
    {'file': 'include/jsoncons_ext/ubjson/ubjson_encoder.hpp', 'pattern': r'stack_\.emplace_back\(ubjson_container_type::', 'count': 4, 'props': ['C10'], 'what': 'UBJSON encoder: containers are pushed only in the four guarded functions'},
    {'file': 'include/jsoncons_ext/bson/bson_parser.hpp', 'pattern': r'static_cast<int>\(state_stack_\.size\(\)\) > max_nesting_depth_', 'count': 2, 'props': ['C10'], 'what': 'BSON parser: begin_document and begin_array test the stack size'},
    {'file': 'include/jsoncons/json_encoder.hpp', 'pattern': r'\+\+nesting_depth_ > options_\.max_nesting_depth\(\)', 'count': 4, 'props': ['C10'], 'what': 'JSON encoders: four guarded visit_begin_* functions'},
]
HARNESSES = [Harness(n, 'h_' + n, enforce=n, method='LF', props=['C10']) for (n, f, a, o, c, ct) in SITES]
