# U-KINDS (C09, C05): storage-kind predicates and the copy / swap dispatch of basic_json
from core import FuncSpec, CopySpec, EnumSpec, Harness
T = 'include/jsoncons/json_type.hpp'
B = 'include/jsoncons/basic_json.hpp'
RV = '__CPROVER_return_value'
PRED_RULES = [(r'static constexpr uint8_t mask\{', 'const uint8_t mask = (', 1), (r'\)\s*\};', '));', 1), (r'uint8_t\(json_storage_kind::(\w+)\)', r'(uint8_t)(json_storage_kind_\1)', 4, 6), (r'uint8_t\(storage_kind\)', '(uint8_t)(storage_kind)', 1)]
KR = [(r'json_storage_kind::(\w+)', r'json_storage_kind_\1', 2, 40), (r'other\.storage_kind\(\)', 'vx_other_kind', 0, 8), (r'(?<![.\w])storage_kind\(\)', 'vx_this_kind', 0, 4)]
COPY = [('requires', 'VX_LEGAL(vx_other_kind) && vx_memcpys == 0 && vx_deep == 0 && vx_follow_ref == 0'), ('assigns', 'vx_memcpys, vx_deep, vx_follow_ref, vx_deep_kind'),
        ('ensures', '[C09][C05] copy construction: the bytes of the source are copied only if the source owns no heap memory and is not a reference; a reference is followed; each heap-owning kind gets its own deep copy',
         '(VX_IS_REF(vx_other_kind) ? (vx_follow_ref == 1 && vx_memcpys == 0 && vx_deep == 0) : VX_OWNS_HEAP(vx_other_kind) ? (vx_deep == 1 && vx_deep_kind == vx_other_kind && vx_memcpys == 0 && vx_follow_ref == 0) : (vx_memcpys == 1 && vx_deep == 0 && vx_follow_ref == 0))')]
SWAP = [('requires', 'VX_LEGAL(vx_this_kind) && VX_LEGAL(vx_other_kind) && vx_memcpys == 0 && vx_typed == 0'), ('assigns', 'vx_memcpys, vx_typed, vx_typed_l'),
        ('ensures', '[C09][C05] swap: the two values are swapped bytewise only if neither owns heap memory; otherwise the typed swap for the storage type of this value is used; swapping a value with itself does nothing',
         'vx_same_object ? (vx_memcpys == 0 && vx_typed == 0) : (!VX_OWNS_HEAP(vx_this_kind) && !VX_OWNS_HEAP(vx_other_kind)) ? (vx_memcpys == 3 && vx_typed == 0) : (vx_memcpys == 0 && vx_typed == 1 && vx_typed_l == vx_this_kind)')]
SWAPL = [('requires', 'VX_LEGAL(vx_other_kind) && vx_typed == 0'), ('assigns', 'vx_typed, vx_typed_l, vx_typed_r'),
         ('ensures', '[C09][C05] the typed swap picks the storage type of the other value by its kind, for every kind', 'vx_typed == 1 && vx_typed_l == type_l && vx_typed_r == vx_other_kind')]
SPECS = [
    EnumSpec('json_storage_kind', T),
    FuncSpec('is_primitive_storage', T, r'inline bool is_primitive_storage\(json_storage_kind storage_kind\) noexcept', count=1, csig='bool is_primitive_storage(uint8_t storage_kind)', rules=PRED_RULES,
             contract=[('assigns', ''), ('ensures', '[C09][C05] for every legal kind: primitive (its bytes are the whole value) iff it neither owns heap memory nor is a reference', 'VX_LEGAL(storage_kind) ==> ((%s != 0) == (!VX_OWNS_HEAP(storage_kind) && !VX_IS_REF(storage_kind)))' % RV)]),
    FuncSpec('is_trivial_storage', T, r'inline bool is_trivial_storage\(json_storage_kind storage_kind\) noexcept', count=1, csig='bool is_trivial_storage(uint8_t storage_kind)', rules=PRED_RULES,
             contract=[('assigns', ''), ('ensures', '[C09][C05] for every legal kind: trivially relocatable iff it does not own heap memory', 'VX_LEGAL(storage_kind) ==> ((%s != 0) == !VX_OWNS_HEAP(storage_kind))' % RV)]),
    FuncSpec('uninitialized_copy', B, r'void uninitialized_copy\(const basic_json& other\)', count=1, csig='void uninitialized_copy(void)', contract=COPY,
             rules=KR + [(r'uninitialized_copy\(other\.cast<(?:const_)?json_ref_storage>\(\)\.value\(\)\);', 'vx_follow_ref++;', 2), (r'std::memcpy\(static_cast<void\*>\(this\), &other, sizeof\(basic_json\)\);', 'vx_memcpys++;', 1),
                         (r'case json_storage_kind_(long_str|byte_str|array|object):\s*\{.*?break;\s*\}', lambda m: 'case json_storage_kind_%s: { vx_deep++; vx_deep_kind = json_storage_kind_%s; break; }' % (m.group(1), m.group(1)), 4)]),
    FuncSpec('swap', B, r'void swap\(basic_json& other\) noexcept', count=1, csig='void swap(void)', contract=SWAP,
             rules=KR + [(r'this == &other', 'vx_same_object', 1), (r'basic_json temp;', '', 1), (r'std::memcpy\(static_cast<void\*>\(&?\w+\), static_cast<void\*>\(&?\w+\), sizeof\(basic_json\)\);', 'vx_memcpys++;', 3),
                         (r'swap_l<(\w+)>\(other\);', r'vx_typed++; vx_typed_l = ST_\1;', 14)]),
    FuncSpec('swap_l', B, r'void swap_l\(basic_json& other\) noexcept', count=1, csig='void swap_l(int type_l)', contract=SWAPL,
             rules=KR + [(r'swap_l_r<TypeL, (\w+)>\(other\);', r'vx_typed++; vx_typed_l = type_l; vx_typed_r = ST_\1;', 14)]),
]
HARNESSES = [
    Harness('is_primitive_storage', 'h_is_primitive_storage', enforce='is_primitive_storage', method='LF', props=['C09', 'C05']),
    Harness('is_trivial_storage', 'h_is_trivial_storage', enforce='is_trivial_storage', method='LF', props=['C09', 'C05']),
    Harness('uninitialized_copy', 'h_uninitialized_copy', enforce='uninitialized_copy', replace=['is_primitive_storage'], method='LF', props=['C09', 'C05']),
    Harness('swap', 'h_swap', enforce='swap', replace=['is_trivial_storage'], method='LF', props=['C09', 'C05']),
    Harness('swap_l', 'h_swap_l', enforce='swap_l', method='LF', props=['C09', 'C05']),
]
