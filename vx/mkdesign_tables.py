#!/usr/bin/env python3
# regenerate the as-built unit catalogue inside DESIGN.md (between the CATALOGUE markers) from the recipes
import os, sys, re
sys.path.insert(0, os.path.dirname(os.path.abspath(__file__)))
import core, units
rows = []
nfun = set(); nh = 0
for un in units.all_units():
    mod = units.load_unit(un)
    files = {}
    for s in list(mod.SPECS) + [x for g in getattr(mod, 'GROUPS', {}).values() for x in g]:
        if isinstance(s, core.FuncSpec):
            files.setdefault(s.file.replace('include/', ''), []).append(s.name + (' (slice)' if s.slice_from else ''))
            nfun.add((s.file, s.name))
    hs = {}
    for h in mod.HARNESSES:
        nh += 1
        key = re.sub(r'(_link_|_n)\d+$', r'\1*', re.sub(r'_[0-9a-f]{2}_[0-9a-f]{2}$', '_*', h.name))
        e = hs.setdefault(key, {'n': 0, 'method': h.method, 'props': set(), 'replace': set(), 'bounded': h.bounded, 'tier': h.tier})
        e['n'] += 1; e['props'] |= set(h.props); e['replace'] |= set(h.replace)
    first = True
    for k, e in hs.items():
        rows.append('| %s | %s%s | %s | %s | %s | %s |' % (un if first else '', k, (' x%d' % e['n']) if e['n'] > 1 else '', e['method'] + (' **bounded**' if e['bounded'] else ''),
                                                      ' '.join(sorted(e['props'])), ', '.join(sorted(e['replace'])) or '-', e['tier']))
        first = False
    rows.append('| | *extracted from* %s | | | | |' % '; '.join('%s: %s' % (f, ', '.join(n)) for f, n in files.items()))
txt = ['| unit | harness (= one contract proof) | method | serves | callees used through their contract | tier |', '|---|---|---|---|---|---|'] + rows
txt.append('')
txt.append('%d units, %d harnesses, %d functions (or program slices of functions) extracted from the headers on every run.' % (len(units.all_units()), nh, len(nfun)))
out = '\n'.join(txt)
p = os.path.join(core.VERIF, 'DESIGN.md')
s = open(p).read()
a, b = '<!-- BEGIN CATALOGUE -->', '<!-- END CATALOGUE -->'
if a in s and b in s:
    s = s[:s.index(a) + len(a)] + '\n' + out + '\n' + s[s.index(b):]
    open(p, 'w').write(s)
    print('DESIGN.md catalogue updated')
else:
    print(out)

# --- section 12: seeded changes (from seeded/*/meta.json and out/seeds_summary.json, if present) ---
import json
sd = os.path.join(core.VERIF, 'seeded')
summ = {}
sp = os.path.join(core.VERIF, 'out', 'seeds_summary.json')
if os.path.exists(sp):
    summ = json.load(open(sp))
rows = ['| seeded change | property | needs, to manifest | result of `bin/check` with the change applied | first failed obligation | replay on the real code |', '|---|---|---|---|---|---|']
for name in sorted(os.listdir(sd)):
    mp = os.path.join(sd, name, 'meta.json')
    if not os.path.exists(mp):
        continue
    m = json.load(open(mp)); r = summ.get(name)
    if r:
        res = {0: 'exit 0: **not detected**', 1: 'exit 1: VIOLATION', 2: 'exit 2: CHECK-BROKEN'}.get(r['exit'], '?')
        ob = ('%s %s' % (r['failed_obligations'][0]['harness'], r['failed_obligations'][0]['id'])) if r['failed_obligations'] else '-'
        rp = 'REPRODUCED' if r['reproduced_on_real_code'] else ('no-failing-input-found' if r['violations'] else '-')
    else:
        res, ob, rp = 'not run', '-', '-'
    rows.append('| `%s`: %s | %s | %s | %s | %s | %s |' % (name, m['summary'].replace('|', '/'), m['property'], m['needs'].replace('|', '/'), res, ob, rp))
out = '\n'.join(rows)
s = open(p).read()
a, b = '<!-- BEGIN SEEDED -->', '<!-- END SEEDED -->'
if a in s and b in s:
    s = s[:s.index(a) + len(a)] + '\n' + out + '\n' + s[s.index(b):]
    open(p, 'w').write(s)
    print('DESIGN.md seeded table updated')
