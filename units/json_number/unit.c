/* unit json_number: the number sub-automaton of basic_json_parser */
#include "vx_common.h"
#include "spec_num.h"

/*@ENUM parse_number_state@*/
/*@ENUM json_errc@*/
/*@COPY digit_tables@*/

struct json_parser { uint8_t number_state_; const char* input_end_; size_t position_; bool more_; };

/* ghost state */
static char* vx_buf; static size_t vx_n, vx_off;   /* the chunk is vx_buf[vx_off .. vx_n) */
static int vx_mon;                                  /* S-NUM state of the characters consumed so far */
enum { VX_EV_NONE = 0, VX_EV_INTEGER, VX_EV_FRACTION };
static int vx_event; static bool vx_err_called; static int vx_err_code;
static unsigned vx_appends; static size_t vx_app_from, vx_app_to;

/* the monitor advances on exactly the statements that consume a character */
#define VX_MON_STEP(c) (vx_mon = spec_num_step(vx_mon, (c)))
/* after each label: the code position agrees with the DFA state of the consumed prefix */
#define VX_AT_LABEL(st) __CPROVER_assert(vx_mon == (st), "[C02][C03] label reached in the RFC 8259 DFA state it stands for")
/* err_handler_ is a std::function; parse_number ignores its result */
#define VX_ERR_HANDLER(code) do { vx_err_called = true; vx_err_code = (code); } while (0)
#define VX_BUF_APPEND(from, to) do { vx_appends++; vx_app_from = (size_t)((from) - vx_buf); vx_app_to = (size_t)((to) - vx_buf); } while (0)
static void vx_end_integer_value(int* ec_p) { __CPROVER_assert(vx_event == VX_EV_NONE, "[C02] at most one value event per number"); vx_event = VX_EV_INTEGER; if (nondet_bool()) *ec_p = nondet_int(); }
static void vx_end_fraction_value(int* ec_p) { __CPROVER_assert(vx_event == VX_EV_NONE, "[C02] at most one value event per number"); vx_event = VX_EV_FRACTION; if (nondet_bool()) *ec_p = nondet_int(); }

/*@FUNC parse_number@*/

#ifdef VX_CBMC
#include <stdlib.h>
void h_parse_number(void)
{
    struct json_parser p; int ec = 0;
    vx_n = nondet_size(); vx_off = nondet_size();
#ifdef VX_SMALL
    __CPROVER_assume(vx_n <= 12);
#endif
    __CPROVER_assume(vx_off <= vx_n && vx_n <= 100000000);
    vx_buf = malloc(vx_n ? vx_n : 1);
    __CPROVER_assume(vx_buf != 0);
    p.number_state_ = nondet_u8(); __CPROVER_assume(p.number_state_ <= parse_number_state_exp3);
    p.input_end_ = vx_buf + vx_n; p.position_ = nondet_size(); __CPROVER_assume(p.position_ <= SIZE_MAX / 2); p.more_ = true;
    vx_mon = p.number_state_; vx_event = VX_EV_NONE; vx_err_called = false; vx_appends = 0;
    parse_number(&p, vx_buf + vx_off, &ec);
}
#endif
