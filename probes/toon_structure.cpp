// finding probe toon_structure (C18): JSON values of the nesting shapes listed below are encoded to TOON by the real encoder and decoded by the real reader;
// one line per case: "PROBE <case> HOLDS" or "PROBE <case> FAILS: <what came back>".  The cases that fail on the pinned tree are the open findings F34/*
// of /verif/known_findings.json; the others are their neighbours, which hold, and are reported as violations if they ever stop holding.
#include <jsoncons/json.hpp>
#include <jsoncons_ext/toon/decode_toon.hpp>
#include <jsoncons_ext/toon/encode_toon.hpp>
#include <iostream>
using namespace jsoncons;
struct pcase { const char* id; const char* doc; };
static const pcase cases[] = {
    {"root_keyed_array_escaped_key", R"({"\t":[1,2]})"}, {"root_keyed_array_quote_in_key", R"({"q\"x":[5]})"}, {"root_keyed_tabular_backslash_key", R"({"a\\b":[{"id":1}]})"},
    {"second_line_keyed_array_escaped_key", R"({"a":1,"x\ty":[1,2]})"}, {"nested_keyed_array_escaped_key", R"({"x":{"\t":[1,2]}})"},
    {"tabular_field_name_escaped", R"({"k":[{"\t":1,"b":2}]})"}, {"tabular_field_name_plain", R"({"k":[{"a":1,"b":2}]})"}, {"tabular_field_name_quoted", R"({"k":[{"a b":1,"c,d":2}]})"},
    {"array_in_array_tabular", R"([[{"a":1}]])"}, {"array_in_array_tabular_second", R"([[1],[{"a":1,"b":2}]])"}, {"array_in_array_primitives", R"([[1,2],[3]])"}, {"array_in_array_empty", R"([[],[1]])"},
    {"list_item_first_member_object", R"([{"e":{"a":1}}])"}, {"list_item_first_member_empty_object", R"([{"e":{}}])"}, {"list_item_first_member_primitive_then_object", R"([{"a":1,"e":{"b":2}}])"},
    {"list_item_empty_object_then_value", R"([{},1])"}, {"list_item_empty_object_only", R"([{}])"}, {"list_item_first_member_array", R"([{"a":[1,2],"b":3}])"}, {"list_item_first_member_tabular", R"([{"a":[{"x":1}],"b":3}])"},
    {"list_in_list_of_objects", R"([[{"a":1,"b":[1]}]])"}, {"object_in_object_in_list", R"({"d":[{"k":{"b":1}},2]})"}, {"mixed_list", R"([1,"a",[2],{"b":3}])"},
    {"nested_objects", R"({"a":{"b":{"c":{}}}})"}, {"empty_root_object", R"({})"}, {"empty_root_array", R"([])"}, {"root_primitive_string", R"("a: b")"}, {"object_with_empty_array", R"({"a":[],"b":{}})"},
    {"array_of_uniform_objects", R"([{"id":1,"n":"a"},{"id":2,"n":"b"}])"}, {"array_of_non_uniform_objects", R"([{"a":1},{"b":2}])"}, {"keyed_list_of_lists", R"({"m":[[1,2],[3,[4]]]})"},
};
int main(int argc, char** argv)
{
    for (const pcase& c : cases) {
        if (argc > 1 && std::string(argv[1]) != c.id) continue;
        json v = json::parse(c.doc); std::string t, what;
        try { toon::encode_toon(v, t); auto r = toon::try_decode_toon<json>(t, toon::toon_options{}); if (!r) what = "decoder error: " + r.error().message(); else if (*r != v) what = "decoded as " + r->to_string(); }
        catch (const std::exception& e) { what = std::string("exception: ") + e.what(); }
        for (auto& ch : t) if (ch == '\n') ch = '|';
        if (what.empty()) std::cout << "PROBE " << c.id << " HOLDS\n"; else std::cout << "PROBE " << c.id << " FAILS: " << c.doc << " is written as " << t << " and " << what << "\n";
    }
    return 0;
}
