# U-PLIT, U-PSPACE (DESIGN 6): the literal names and insignificant whitespace of RFC 8259 (sections 2, 3) in basic_json_parser
from core import FuncSpec, EnumSpec, Harness
J = 'include/jsoncons/json_parser.hpp'
AL = {'ec': '(*ec_p)', 'level_': '(self->level_)', 'more_': '(self->more_)', 'cursor_mode_': '(self->cursor_mode_)', 'state_': '(self->state_)', 'input_end_': '(self->input_end_)',
      'input_ptr_': '(self->input_ptr_)', 'position_': '(self->position_)', 'begin_position_': '(self->begin_position_)', 'line_': '(self->line_)', 'mark_position_': '(self->mark_position_)'}
RULES = [
    (r'err_handler_\(json_errc::(\w+), \*this\)', r'vx_err_handler(json_errc_\1)', 0, 30), (r'json_errc::(\w+)', r'json_errc_\1', 0, 30), (r'parse_state::(\w+)', r'parse_state_\1', 1, 60),
    (r'visitor\.bool_value\(true, semantic_tag::none, \*this, ec\);', 'vx_event(VX_EV_TRUE, ec_p);', 0, 1),
    (r'visitor\.bool_value\(false, semantic_tag::none, \*this, ec\);', 'vx_event(VX_EV_FALSE, ec_p);', 0, 2),
    (r'visitor\.null_value\(semantic_tag::none, \*this, ec\);', 'vx_event(VX_EV_NULL, ec_p);', 0, 2),
    (r'const char_type\*', 'const char*', 0, 4),
]
RES = '__CPROVER_return_value'
def lit(name, text, ev, susp, by_ptr):
    n = len(text)
    cur = 'self->input_ptr_' if by_ptr else 'cur'
    newpos = 'self->input_ptr_' if by_ptr else RES
    return [
        ('requires', '%s == vx_buf + vx_off && vx_off < vx_n && vx_n <= 100000000 && self->input_end_ == vx_buf + vx_n && vx_buf[vx_off] == \'%s\' && *ec_p == 0 && vx_events == 0 && !vx_err_called && self->position_ <= SIZE_MAX / 2' % (cur, text[0])),
        ('assigns', '*ec_p, self->more_, self->state_, self->position_, self->begin_position_, self->input_ptr_, vx_events, vx_ev_kind, vx_err_called, vx_err_code'),
        ('ensures', '[C02] the complete literal %s in the chunk: exactly one %s event, %d characters consumed, accept at level 0 and otherwise a comma or a closing bracket is expected' % (text, text, n),
         '(vx_lit_matches("%s", %d) && !vx_visitor_fails) ==> (*ec_p == 0 && vx_events == 1 && vx_ev_kind == %s && %s == vx_buf + vx_off + %d && self->position_ == __CPROVER_old(self->position_) + %d && self->state_ == (self->level_ == 0 ? parse_state_accept : parse_state_expect_comma_or_end) && self->more_ == !self->cursor_mode_)' % (text, n, ev, newpos, n, n)),
        ('ensures', '[C02] at least %d characters available that do not spell %s: invalid_value, no event' % (n, text),
         '(vx_n - vx_off >= %d && !vx_lit_matches("%s", %d)) ==> (*ec_p == json_errc_invalid_value && vx_events == 0 && !self->more_ && vx_err_called)' % (n, text, n)),
        ('ensures', '[C03] fewer than %d characters in the chunk: the first character is consumed and the parser suspends in the state that names it, no event, no error (the remaining characters are checked by the resumable states of parse_some_, not under contract)' % n,
         '(vx_n - vx_off < %d) ==> (*ec_p == 0 && vx_events == 0 && !vx_err_called && %s == vx_buf + vx_off + 1 && self->state_ == parse_state_%s && self->position_ == __CPROVER_old(self->position_) + 1)' % (n, newpos, susp)),
        ('ensures', '[C05] the position returned lies inside the chunk', '__CPROVER_same_object(%s, vx_buf) && __CPROVER_POINTER_OFFSET(%s) <= vx_n' % (newpos, newpos)),
    ]
OC = '__CPROVER_POINTER_OFFSET(cur)'
SPACE_LOOP = ('__CPROVER_assigns(cur, position_, line_, mark_position_) '
              '__CPROVER_loop_invariant(__CPROVER_same_object(cur, vx_buf) && vx_off <= %s && %s <= vx_n && position_ == __CPROVER_loop_entry(position_) + (%s - vx_off) && position_ <= SIZE_MAX / 2 + 200000000'
              ' && line_ >= __CPROVER_loop_entry(line_) && line_ - __CPROVER_loop_entry(line_) <= %s - vx_off'
              ' && (vx_w >= vx_off && vx_w < %s ==> vx_is_ws(vx_buf[vx_w]))) '
              '__CPROVER_decreases(vx_n - %s)' % (OC, OC, OC, OC, OC, OC))
PO = '__CPROVER_POINTER_OFFSET(*ptr)'
SKIP_SPACE = [
    ('requires', '*ptr == vx_buf + vx_off && vx_off <= vx_n && vx_n <= 100000000 && self->input_end_ == vx_buf + vx_n && self->position_ <= SIZE_MAX / 2 && self->line_ <= SIZE_MAX / 2 && vx_state_pushes == 0 && __CPROVER_w_ok(ptr, sizeof(*ptr))'),
    ('assigns', '*ptr, self->position_, self->line_, self->mark_position_, self->state_, vx_state_pushes, vx_pushed_state'),
    ('ensures', '[C02][C05] the new position lies inside the chunk, at or after the old one', '__CPROVER_same_object(*ptr, vx_buf) && vx_off <= %s && %s <= vx_n' % (PO, PO)),
    ('ensures', '[C02] only insignificant whitespace (space, tab, LF, CR) is skipped (watched position)', '(vx_w >= vx_off && vx_w < %s) ==> vx_is_ws(vx_buf[vx_w])' % PO),
    ('ensures', '[C02] all of it is skipped: skipping stops only at the end of the chunk or at a character that is not whitespace', '%s < vx_n ==> !vx_is_ws(vx_buf[%s])' % (PO, PO)),
    ('ensures', '[C03] a CR as the last character of the chunk suspends in state cr with the interrupted state saved (the LF of a CR LF pair may follow in the next chunk); nothing else changes the state',
     '(vx_state_pushes != 0) ==> (vx_state_pushes == 1 && %s == vx_n && vx_n > vx_off && vx_buf[vx_n - 1] == \'\\r\' && self->state_ == parse_state_cr && vx_pushed_state == __CPROVER_old(self->state_)) && (vx_state_pushes == 0 ==> self->state_ == __CPROVER_old(self->state_))' % PO),
    ('ensures', '[C02] the column counter advances by the number of characters skipped', 'self->position_ == __CPROVER_old(self->position_) + (%s - vx_off)' % PO),
]
# ---- the resumable literal states of parse_some_ (t, tr, tru, f, fa, fal, fals, n, nu, nul): one character per step
LITS = {'t': ('r', 'tr'), 'tr': ('u', 'tru'), 'tru': ('e', None), 'f': ('a', 'fa'), 'fa': ('l', 'fal'), 'fal': ('s', 'fals'), 'fals': ('e', None), 'n': ('u', 'nu'), 'nu': ('l', 'nul'), 'nul': ('l', None)}
EVOF = {'tru': 'VX_EV_TRUE', 'fals': 'VX_EV_FALSE', 'nul': 'VX_EV_NULL'}
def step_contract():
    c = [('requires', 'self->input_ptr_ == vx_buf + vx_off && vx_off < vx_n && vx_n <= 100000000 && self->input_end_ == vx_buf + vx_n && *ec_p == 0 && vx_events == 0 && !vx_err_called && !vx_other_state && self->position_ <= SIZE_MAX / 2 && self->more_'),
         ('assigns', '*ec_p, self->more_, self->state_, self->position_, self->input_ptr_, vx_events, vx_ev_kind, vx_err_called, vx_err_code, vx_other_state')]
    for st, (ch, nxt) in LITS.items():
        S = '__CPROVER_old(self->state_) == parse_state_%s' % st
        if nxt:
            c.append(('ensures', "[C02][C03] resumed in state %s: '%s' continues the literal (one character consumed, state %s, no event); anything else is invalid_value" % (st, ch, nxt),
                      "(%s) ==> (vx_buf[vx_off] == '%s' ? (*ec_p == 0 && vx_events == 0 && self->state_ == parse_state_%s && self->input_ptr_ == vx_buf + vx_off + 1 && self->position_ == __CPROVER_old(self->position_) + 1 && self->more_) : (*ec_p == json_errc_invalid_value && vx_events == 0 && !self->more_))" % (S, ch, nxt)))
        else:
            c.append(('ensures', "[C02][C03] resumed in state %s: '%s' completes the literal: exactly the event the one-piece parse delivers, the same next state, and the parser pauses after it in pull mode exactly as on the fast path (more_ == !cursor_mode_); anything else is invalid_value" % (st, ch),
                      "(%s) ==> (vx_buf[vx_off] == '%s' ? (vx_visitor_fails || (*ec_p == 0 && vx_events == 1 && vx_ev_kind == %s && self->state_ == (self->level_ == 0 ? parse_state_accept : parse_state_expect_comma_or_end) && self->input_ptr_ == vx_buf + vx_off + 1 && self->more_ == !self->cursor_mode_)) : (*ec_p == json_errc_invalid_value && vx_events == 0 && !self->more_))" % (S, ch, EVOF[st])))
    c.append(('ensures', '[C02] the slice covers exactly these ten states', 'vx_other_state == !(%s)' % ' || '.join('__CPROVER_old(self->state_) == parse_state_%s' % st for st in LITS)))
    return c
SPECS = [
    EnumSpec('parse_state', J), EnumSpec('json_errc', 'include/jsoncons/json_error.hpp'),
    FuncSpec('parse_true', J, r'const char_type\* parse_true\(const char_type\* cur, basic_json_visitor<char_type>& visitor, std::error_code& ec\)', count=1,
             csig='const char* parse_true(struct json_parser* self, const char* cur, int* ec_p)', contract=lit('parse_true', 'true', 'VX_EV_TRUE', 't', False), aliases=AL, rules=RULES),
    FuncSpec('parse_false', J, r'const char_type\* parse_false\(const char_type\* cur, basic_json_visitor<char_type>& visitor, std::error_code& ec\)', count=1,
             csig='const char* parse_false(struct json_parser* self, const char* cur, int* ec_p)', contract=lit('parse_false', 'false', 'VX_EV_FALSE', 'f', False), aliases=AL, rules=RULES),
    FuncSpec('parse_null', J, r'void parse_null\(basic_json_visitor<char_type>& visitor, std::error_code& ec\)', count=1,
             csig='void parse_null(struct json_parser* self, int* ec_p)', contract=lit('parse_null', 'null', 'VX_EV_NULL', 'n', True), aliases=AL, rules=RULES),
    FuncSpec('skip_space', J, r'void skip_space\(char_type const \*\* ptr\)', count=1, csig='void skip_space(struct json_parser* self, const char** ptr)', contract=SKIP_SPACE, aliases=AL,
             rules=[(r'const char_type\*', 'const char*', 2), (r'push_state\(state_\);', 'vx_push_state(state_);', 1), (r'parse_state::(\w+)', r'parse_state_\1', 1)],
             loops={0: SPACE_LOOP, 'count': 1}),
    FuncSpec('literal_step', J, r'void parse_some_\(basic_json_visitor<char_type>& visitor, std::error_code& ec\)', count=1, csig='void literal_step(struct json_parser* self, int* ec_p)',
             contract=step_contract(), aliases=AL, slice_from=r'case parse_state::t: ', slice_to=r'case parse_state::slash: ',
             prologue='switch (state_) {', epilogue=' default: vx_other_state = true; break; }',
             rules=RULES + [(r'visitor\.bool_value\(true,  semantic_tag::none, \*this, ec\);', 'vx_event(VX_EV_TRUE, ec_p);', 1)]),
]
SITE_CHECKS = [
    {'file': J, 'pattern': r"case 't':\s*input_ptr_ = parse_true\(input_ptr_, visitor, ec\);", 'count': (1, 6), 'props': ['C02'], 'what': "parse_true is entered only on the character 't' (its precondition)"},
    {'file': J, 'pattern': r"case 'f':\s*input_ptr_ = parse_false\(input_ptr_, visitor, ec\);", 'count': (1, 6), 'props': ['C02'], 'what': "parse_false is entered only on the character 'f'"},
    {'file': J, 'pattern': r"case 'n':\s*parse_null\(visitor, ec\);", 'count': (1, 6), 'props': ['C02'], 'what': "parse_null is entered only on the character 'n'"},
]
HARNESSES = [
    Harness('parse_true', 'h_parse_true', enforce='parse_true', method='LF', props=['C02', 'C03']),
    Harness('parse_false', 'h_parse_false', enforce='parse_false', method='LF', props=['C02', 'C03']),
    Harness('parse_null', 'h_parse_null', enforce='parse_null', method='LF', props=['C02', 'C03']),
    Harness('literal_step', 'h_literal_step', enforce='literal_step', method='LF', props=['C02', 'C03'],
            note='program slice of parse_some_: the ten case labels of the partially read literals, wrapped in a switch on state_'),
    Harness('skip_space', 'h_skip_space', enforce='skip_space', loop_contracts=True, method='LC', props=['C02', 'C03'], expect_classes={'loop_invariant_step': 1}),
]
