/* Ghost container stack (DESIGN 3.3 R5 / 5.4): exposes only the depth and the top item.
 * Items below the top are abstracted: after a pop the new top is an arbitrary item. */
#ifndef VX_MODEL_STACK_H
#define VX_MODEL_STACK_H
#include "vx_common.h"
struct vx_stack_item { int type_; size_t length_; size_t index_; };
static struct vx_stack_item vx_top;
static size_t vx_depth;          /* number of items on the stack */
static size_t vx_pushes, vx_pops; /* events in this call */
#ifdef VX_CBMC
#define VX_STACK_EMPLACE(t, l) do { vx_depth++; vx_top.type_ = (t); vx_top.length_ = (l); vx_top.index_ = 0; vx_pushes++; } while (0)
#define VX_STACK_POP() do { __CPROVER_assert(vx_depth > 0, "[C05] pop_back on an empty container stack"); vx_depth--; vx_pops++; \
    vx_top.type_ = nondet_int(); vx_top.length_ = nondet_size(); vx_top.index_ = nondet_size(); } while (0)
#endif
#define VX_STACK_EMPTY() (vx_depth == 0)
#endif
