# U-CSV-QUOTE (DESIGN 6): csv_encoder escape_string + write_string_value
from core import FuncSpec, CopySpec, EnumSpec, Harness, INF
E = 'include/jsoncons_ext/csv/csv_encoder.hpp'

LOOP = '''__CPROVER_assigns(it, vx_k, vx_st, vx_bad, vx_out_n)
  __CPROVER_loop_invariant(__CPROVER_same_object(it, vx_in) && __CPROVER_POINTER_OFFSET(it) <= vx_len && vx_k == __CPROVER_POINTER_OFFSET(it) && vx_st == 0 && !vx_bad)
  __CPROVER_decreases(vx_len - __CPROVER_POINTER_OFFSET(it))'''
ESC_CONTRACT = [
    ('requires', 'vx_len <= VX_IN_MAX && s == vx_in && length == vx_len && vx_k == 0 && vx_st == 0 && !vx_bad && quote_char == vx_q && quote_escape_char == vx_e'),
    ('assigns', 'vx_k, vx_st, vx_bad, vx_out_n'),
    ('ensures', '[C18] the escaped text, read as the interior of a quoted field with these quote and escape characters, decodes to exactly the field content and contains no unescaped quote',
     '!vx_bad && vx_k == vx_len && vx_st == 0'),
]
WSV_CONTRACT = [
    ('requires', 'vx_len <= VX_IN_MAX && vx_w < vx_len && vx_pushes == 0 && vx_escape_calls == 0 && !vx_order_bad'),
    ('assigns', 'vx_pushes, vx_escape_calls, vx_first_push, vx_last_push, vx_order_bad, vx_quote_before, vx_quote_after'),
    ('ensures', '[C18] the field content is written exactly once', 'vx_escape_calls == 1 && !vx_order_bad'),
    ('ensures', '[C18] quote styles all and nonnumeric: the string field is enclosed in quote characters',
     '(self->quote_style_ == quote_style_kind_all || self->quote_style_ == quote_style_kind_nonnumeric) ==> (vx_quote_before && vx_quote_after)'),
    ('ensures', '[C18] quote style minimal: a field containing the delimiter, the quote character, CR or LF is always enclosed in quote characters',
     '(self->quote_style_ == quote_style_kind_minimal && (spec_csv_needs_quotes(vx_in[vx_w], self->field_delimiter_) || vx_in[vx_w] == self->quote_char_)) ==> (vx_quote_before && vx_quote_after)'),
    ('ensures', '[C18] quote style minimal: a field containing the quote-escape character is enclosed in quote characters too, because escape_string doubles that character and only a quoted field is un-escaped by the reader',
     '(self->quote_style_ == quote_style_kind_minimal && vx_in[vx_w] == self->quote_escape_char_) ==> (vx_quote_before && vx_quote_after)'),
    ('ensures', '[C18] the quotes are balanced: an opening quote iff a closing quote', 'vx_quote_before == vx_quote_after'),
]
SPECS = [
    EnumSpec('quote_style_kind', 'include/jsoncons_ext/csv/csv_options.hpp'),
    FuncSpec('escape_string', E, r'void escape_string\(const CharT\* s,\s*std::size_t length,\s*CharT quote_char, CharT quote_escape_char,\s*string_type& sink\)', count=1,
             csig='void escape_string(const char* s, size_t length, char quote_char, char quote_escape_char)', contract=ESC_CONTRACT,
             rules=[(r'\bconst CharT\*', 'const char*', 3), (r'\bCharT c\b', 'char c', 1), (r'sink\.push_back\(', 'vx_csv_out(', 3)],
             loops={0: LOOP, 'count': 1}),
    FuncSpec('write_string_value', E, r'void write_string_value\(const string_view_type& value, string_type& str\)', count=1,
             csig='void write_string_value(struct csv_encoder* self)', contract=WSV_CONTRACT,
             rules=[(r'const char\* s = value\.data\(\);', 'const char* s = vx_in;', 1),
                    (r'const std::size_t length = value\.length\(\);', 'const size_t length = vx_len;', 1),
                    (r'std::char_traits<CharT>::find\(s, length, ([^)]+)\) != nullptr', r'vx_find(\1)', 1, 8),
                    # variants of the same test over a set of characters (an option string)
                    (r'value\.find_first_of\(string_view_type\((\w+)\.data\(\), \1\.size\(\)\)\) != string_view_type::npos', r'vx_find_set(self->\1, self->\1len)', 0, 4),
                    (r'quote_style_kind::(\w+)', r'quote_style_kind_\1', 3),
                    (r'(?<!>)\b(quote_style_|field_delimiter_|quote_char_|quote_escape_char_)\b', r'self->\1', 6, 14),
                    (r'str\.push_back\(', 'vx_push(', 2),
                    (r'escape_string\(s, length, self->quote_char_, self->quote_escape_char_, str\);', 'vx_escape_call();', 1)]),
]
HARNESSES = [
    Harness('escape_string', 'h_escape', enforce='escape_string', loop_contracts=True, method='LC', props=['C18'], expect_classes={'loop_invariant_step': 1}),
    Harness('write_string_value', 'h_wsv', enforce='write_string_value', method='LF', props=['C18'], unwind=6),
]
