/* unit grisu: rounding-interval boundaries (detail/grisu3.hpp) */
#include "vx_common.h"
#include "spec_double.h"
typedef struct diy_fp_t { uint64_t f; int e; } diy_fp_t;
#define diy_significand_size 64
/*@COPY dp_consts@*/
static uint64_t vx_bits;
static bool vx_d_is_bits;   /* ghost: the harness built the argument d from the bit pattern vx_bits */
/*@FUNC double_to_uint64@*/
/*@FUNC double2diy_fp@*/
/*@FUNC normalize_boundary@*/
/*@FUNC normalized_boundaries@*/
#ifdef VX_CBMC
void h_bounds(void)
{
    vx_bits = nondet_u64();
    __CPROVER_assume((vx_bits >> 63) == 0 && ((vx_bits >> 52) & 0x7ff) != 0x7ff && vx_bits != 0);
    union { double d; uint64_t u; } cv; cv.u = vx_bits; double d = cv.d; vx_d_is_bits = true;
    diy_fp_t mi, pl;
    normalized_boundaries(d, &mi, &pl);
}
#endif
