# U-CBOR-ITEM (DESIGN 6): cbor_parser::read_item - dispatch on the initial byte of a data item (RFC 8949 section 3, 3.3, 3.4), with
# read_tags (loop contract), read_double, handle_string; read_uint64 / read_int64 enter through their contracts (unit cbor_head)
from core import FuncSpec, CopySpec, EnumSpec, DeclSpec, Harness, INF
import common_specs as cs
import units as _u
_head = _u.load_unit('cbor_head')

P = 'include/jsoncons_ext/cbor/cbor_parser.hpp'
D = 'include/jsoncons_ext/cbor/cbor_detail.hpp'
AL = {'ec': '(*ec_p)', 'more_': '(self->more_)', 'cursor_mode_': '(self->cursor_mode_)', 'raw_tag_': '(self->raw_tag_)', 'other_tags_': '(self->other_tags_)', 'order_': '(self->order_)'}
N = 40
COMMON = [
    (r'cbor_errc::(\w+)', r'cbor_errc_\1', 0, N),
    (r'jsoncons::cbor::detail::cbor_major_type major_type', 'uint8_t major_type', 0, 2),
    (r'jsoncons::cbor::detail::cbor_major_type::(\w+)', r'cbor_major_type_\1', 0, N),
    (r'semantic_tag::(\w+)', r'semantic_tag_\1', 0, N), (r'\bsemantic_tag tag\b', 'int tag', 0, 4),
    (r'auto c = source_\.peek\(\);', 'struct vx_peek_result c = vx_source_peek();', 0, 2),
    (r'\bc = source_\.peek\(\);', 'c = vx_source_peek();', 0, 2),
    (r'source_\.read\(', 'vx_source_read(', 0, 8), (r'source_\.ignore\(', 'vx_source_ignore(', 0, 8),
    (r'read_uint64\(ec\)', 'read_uint64(self, ec_p)', 0, 4), (r'read_int64\(ec\)', 'read_int64(self, ec_p)', 0, 2),
    (r'binary::big_to_native<float>\(', 'big_to_native_f32(', 0, 1), (r'binary::big_to_native<double>\(', 'big_to_native_f64(', 0, 1),
]
OT = 'self->other_tags_[stringref_tag], self->other_tags_[stringref_namespace_tag], self->other_tags_[item_tag]'
SRC_OK = 'vx_src_pos <= vx_src_n && vx_src_n <= VX_SRC_CAP - 12 && *ec_p == 0'
OTL = 'other_tags_[stringref_tag], other_tags_[stringref_namespace_tag], other_tags_[item_tag]'   # (inside the body the member alias macros apply)
TAGS_LOOP = ('__CPROVER_assigns(c, major_type, vx_src_pos, ec, more_, raw_tag_, %s) '
             '__CPROVER_loop_invariant(vx_src_pos < vx_src_n && vx_src_n <= VX_SRC_CAP - 12 && ec == 0 && more_ && !c.eof && c.value == vx_src[vx_src_pos] && major_type == (vx_src[vx_src_pos] >> 5) && vx_src_pos >= __CPROVER_loop_entry(vx_src_pos) '
             '&& (__CPROVER_loop_entry(other_tags_[stringref_tag]) ==> other_tags_[stringref_tag]) && (__CPROVER_loop_entry(other_tags_[item_tag]) ==> other_tags_[item_tag]) '
             '&& (__CPROVER_loop_entry(other_tags_[stringref_namespace_tag]) ==> other_tags_[stringref_namespace_tag])) '
             '__CPROVER_decreases(vx_src_n - vx_src_pos)' % OTL)
READ_TAGS = [
    ('requires', SRC_OK + ' && self->more_'),
    ('assigns', 'vx_src_pos, *ec_p, self->more_, self->raw_tag_, ' + OT),
    ('ensures', '[C07] after the tags of an item have been read, the next byte exists and starts a data item that is not itself a tag',
     '*ec_p == 0 ==> (vx_src_pos < vx_src_n && (vx_src[vx_src_pos] >> 5) != 6 && self->more_)'),
    ('ensures', '[C07][C05] a truncated or malformed tag head is an error that stops the parser', '*ec_p != 0 ==> !self->more_'),
    ('ensures', '[C07] tags only set flags, they never clear one', '(__CPROVER_old(self->other_tags_[stringref_tag]) ==> self->other_tags_[stringref_tag]) && (__CPROVER_old(self->other_tags_[item_tag]) ==> self->other_tags_[item_tag]) && (__CPROVER_old(self->other_tags_[stringref_namespace_tag]) ==> self->other_tags_[stringref_namespace_tag])'),
    ('ensures', '[C05] the cursor stays within the input', 'vx_src_pos <= vx_src_n && vx_src_pos >= __CPROVER_old(vx_src_pos)'),
]
P0 = '__CPROVER_old(vx_src_pos)'
AV0 = '(vx_src_n - %s)' % P0
READ_DOUBLE = [
    ('requires', SRC_OK),
    ('assigns', 'vx_src_pos, *ec_p, self->more_'),
    ('ensures', '[C07][C06] single precision (info 26): the four following bytes, big endian, widened exactly to double (NaN stays NaN)',
     '(%s >= 5 && (vx_src_at(%s) & 0x1f) == 0x1a) ==> (*ec_p == 0 && vx_src_pos == %s + 5 && (vx_bits32((float)__CPROVER_return_value) == (uint32_t)vx_src_be(%s + 1, 4) || __CPROVER_return_value != __CPROVER_return_value))' % (AV0, P0, P0, P0)),
    ('ensures', '[C07][C06] double precision (info 27): the eight following bytes, big endian, bit for bit',
     '(%s >= 9 && (vx_src_at(%s) & 0x1f) == 0x1b) ==> (*ec_p == 0 && vx_src_pos == %s + 9 && vx_bits64(__CPROVER_return_value) == vx_src_be(%s + 1, 8))' % (AV0, P0, P0, P0)),
    ('ensures', '[C07][C03][C05] a truncated float is unexpected_eof',
     '(%s == 0 || ((vx_src_at(%s) & 0x1f) == 0x1a && %s < 5) || ((vx_src_at(%s) & 0x1f) == 0x1b && %s < 9)) ==> (*ec_p == cbor_errc_unexpected_eof && !self->more_)' % (AV0, P0, AV0, P0, AV0)),
    ('ensures', '[C05] the cursor stays within the input', 'vx_src_pos <= vx_src_n'),
]
TAG_OF_RAW = '(__CPROVER_old(self->raw_tag_) == 0 ? semantic_tag_datetime : __CPROVER_old(self->raw_tag_) == 32 ? semantic_tag_uri : __CPROVER_old(self->raw_tag_) == 33 ? semantic_tag_base64url : __CPROVER_old(self->raw_tag_) == 34 ? semantic_tag_base64 : semantic_tag_none)'
HANDLE_STRING = [
    ('requires', 'vx_events == 0 && vx_hs_calls == 0'),
    ('assigns', 'self->more_, self->other_tags_[item_tag], vx_events, vx_ev_kind, vx_ev_tag, vx_hs_calls, vx_str_src'),
    ('ensures', '[C07][C06] a text string is delivered as one string event; tags 0, 32, 33, 34 become datetime, uri, base64url, base64, any other tag none',
     'vx_events == 1 && vx_ev_kind == VX_EV_STRING && vx_hs_calls == 1 && vx_str_src == from && vx_ev_tag == (__CPROVER_old(self->other_tags_[item_tag]) ? %s : semantic_tag_none)' % TAG_OF_RAW),
    ('ensures', '[C07] the item tag is consumed', '!self->other_tags_[item_tag] && self->more_ == !self->cursor_mode_'),
]
# ---- read_item -------------------------------------------------------------------------------------------------------------------------
T = 'vx_src_at(vx_p0)'
M = '(%s >> 5)' % T
I = '(%s & 0x1f)' % T
AV = '(vx_src_n - vx_p0)'
NB = 'spec_cbor_arg_bytes(%s)' % I
ARG = '(%s < 24 ? (uint64_t)%s : vx_src_be(vx_p0 + 1, %s))' % (I, I, NB)
COMPLETE = '(%s >= 0 && %s >= 1 + (size_t)%s)' % (NB, AV, NB)
OK = '(vx_tags_ec == 0)'
NOEV = '(vx_events == 0)'
NOCALL = '(vx_bytes_calls == 0 && vx_text_calls == 0 && vx_hs_calls == 0 && vx_array_calls == 0 && vx_object_calls == 0 && vx_decfrac_calls == 0 && vx_bigfloat_calls == 0 && vx_md_calls == 0 && vx_sr_ats == 0)'
SR = '(!vx_sr_empty && vx_f_sr)'
ETAG = '((vx_f_item && vx_raw == 1) ? semantic_tag_epoch_second : semantic_tag_none)'
READ_ITEM = [
    ('requires', SRC_OK + ' && self->more_ && vx_events == 0 && %s' % NOCALL),
    ('requires', 'vx_sr_type == cbor_major_type_text_string || vx_sr_type == cbor_major_type_byte_string'),
    ('assigns', 'vx_src_pos, *ec_p, self->more_, self->raw_tag_, self->order_, %s, vx_events, vx_ev_kind, vx_ev_u, vx_ev_i, vx_ev_d, vx_ev_tag, vx_str_src, vx_sr_ats, vx_sr_index, vx_bytes_calls, vx_text_calls, vx_hs_calls, vx_array_calls, vx_object_calls, vx_decfrac_calls, vx_bigfloat_calls, vx_md_calls, vx_begin_info, vx_p0, vx_f_sr, vx_f_item, vx_raw, vx_tags_ec' % OT),
    ('ensures', '[C07][C05] a failure while reading the tags is passed on, nothing is delivered', '!%s ==> (*ec_p == vx_tags_ec && %s && %s)' % (OK, NOEV, NOCALL)),
    ('ensures', '[C07][C06] major type 0 (no stringref pending): one unsigned-integer event carrying the argument (any width), epoch_second iff tag 1, exactly the head consumed',
     '(%s && %s == 0 && !%s && %s) ==> (*ec_p == 0 && vx_events == 1 && vx_ev_kind == VX_EV_UINT64 && vx_ev_u == %s && vx_ev_tag == %s && vx_src_pos == vx_p0 + 1 + (size_t)%s && %s)' % (OK, M, SR, COMPLETE, ARG, ETAG, NB, NOCALL)),
    ('ensures', '[C07][C05] major type 0 under a stringref tag inside a stringref namespace: an index at or beyond the table size is stringref_too_large, nothing is looked up or delivered',
     '(%s && %s == 0 && %s && %s && %s >= (uint64_t)vx_sr_size) ==> (*ec_p == cbor_errc_stringref_too_large && %s && vx_sr_ats == 0 && !self->more_)' % (OK, M, SR, COMPLETE, ARG, NOEV)),
    ('ensures', '[C07][C06] ... an index below the table size delivers exactly that table entry (text: through handle_string, byte string: through read_byte_string), and the stringref flag is consumed',
     '(%s && %s == 0 && %s && %s && %s < (uint64_t)vx_sr_size) ==> (vx_sr_ats == 1 && (uint64_t)vx_sr_index == %s && vx_str_src == 2 && !self->other_tags_[stringref_tag] && (vx_sr_type == cbor_major_type_text_string ? (vx_hs_calls == 1 && vx_bytes_calls == 0) : (vx_bytes_calls == 1 && vx_hs_calls == 0)))' % (OK, M, SR, COMPLETE, ARG, ARG)),
    ('ensures', '[C07][C06] major type 1: one signed-integer event carrying -1 - argument when that is an int64, otherwise an error and no event',
     '(%s && %s == 1 && %s) ==> (spec_cbor_nint_fits_i64(%s) ? (*ec_p == 0 && vx_events == 1 && vx_ev_kind == VX_EV_INT64 && vx_ev_i == spec_cbor_nint_i64(%s) && vx_ev_tag == %s) : (*ec_p != 0 && %s))' % (OK, M, COMPLETE, ARG, ARG, ETAG, NOEV)),
    ('ensures', '[C07][C03] major types 0/1 with a truncated or reserved argument: an error, nothing delivered',
     '(%s && %s <= 1 && !%s) ==> (*ec_p != 0 && %s && vx_sr_ats == 0)' % (OK, M, COMPLETE, NOEV)),
    ('ensures', '[C07] major type 2: the byte string is read from the input, once', '(%s && %s == 2) ==> (vx_bytes_calls == 1 && vx_str_src == 1 && vx_text_calls == 0 && vx_hs_calls == 0 && vx_sr_ats == 0)' % (OK, M)),
    ('ensures', '[C07] major type 3: the text is read, validated as UTF-8 and delivered only if valid (invalid_utf8_text_string otherwise)',
     '(%s && %s == 3) ==> (vx_text_calls == 1 && vx_bytes_calls == 0 && ((*ec_p == 0) ==> (vx_utf8_ok && vx_hs_calls == 1 && vx_str_src == 1)) && (!vx_utf8_ok ==> (vx_hs_calls == 0 && %s && *ec_p != 0)))' % (OK, M, NOEV)),
    ('ensures', '[C07] major type 4: tag 4 -> decimal fraction (bigdec text), tag 5 -> bigfloat text, tags 40/1040 -> multi-dimensional array header, otherwise an array is opened with the additional information of the initial byte',
     '(%s && %s == 4) ==> ((vx_f_item && vx_raw == 4) ? (vx_decfrac_calls == 1 && vx_array_calls == 0 && (*ec_p == 0 ==> (vx_events == 1 && vx_ev_kind == VX_EV_TEXT && vx_ev_tag == semantic_tag_bigdec))) : (vx_f_item && vx_raw == 5) ? (vx_bigfloat_calls == 1 && vx_array_calls == 0 && (*ec_p == 0 ==> (vx_events == 1 && vx_ev_kind == VX_EV_TEXT && vx_ev_tag == semantic_tag_bigfloat))) : (vx_f_item && (vx_raw == 40 || vx_raw == 1040)) ? (vx_md_calls == 1 && vx_array_calls == 0 && self->order_ == (vx_raw == 40 ? mdarray_order_row_major : mdarray_order_column_major)) : (vx_array_calls == 1 && vx_begin_info == %s && vx_md_calls == 0 && vx_decfrac_calls == 0 && vx_bigfloat_calls == 0))' % (OK, M, I)),
    ('ensures', '[C07] major type 5: a map is opened with the additional information of the initial byte', '(%s && %s == 5) ==> (vx_object_calls == 1 && vx_begin_info == %s && vx_array_calls == 0 && %s)' % (OK, M, I, NOEV)),
    ('ensures', '[C07] major type 7: false, true, null, undefined',
     '(%s && %s == 7 && %s >= 0x14 && %s <= 0x17) ==> (*ec_p == 0 && vx_events == 1 && vx_src_pos == vx_p0 + 1 && vx_ev_kind == (%s == 0x14 ? VX_EV_FALSE : %s == 0x15 ? VX_EV_TRUE : VX_EV_NULL) && vx_ev_tag == (%s == 0x17 ? semantic_tag_undefined : semantic_tag_none))' % (OK, M, I, I, I, I, I)),
    ('ensures', '[C07][C06] major type 7, info 25: one half-precision event carrying the two following bytes (big endian); truncated -> error',
     '(%s && %s == 7 && %s == 0x19) ==> (%s >= 3 ? (*ec_p == 0 && vx_events == 1 && vx_ev_kind == VX_EV_HALF && vx_ev_u == vx_src_be(vx_p0 + 1, 2) && vx_src_pos == vx_p0 + 3) : (*ec_p != 0 && %s))' % (OK, M, I, AV, NOEV)),
    ('ensures', '[C07][C06] major type 7, info 26/27: one double event with the value read_double delivers; truncated -> error',
     '(%s && %s == 7 && (%s == 0x1a || %s == 0x1b)) ==> (%s >= (%s == 0x1a ? 5 : 9) ? (*ec_p == 0 && vx_events == 1 && vx_ev_kind == VX_EV_DOUBLE && vx_ev_tag == %s && (%s == 0x1b ? vx_bits64(vx_ev_d) == vx_src_be(vx_p0 + 1, 8) : (vx_bits32((float)vx_ev_d) == (uint32_t)vx_src_be(vx_p0 + 1, 4) || vx_ev_d != vx_ev_d))) : (*ec_p != 0 && %s))' % (OK, M, I, I, AV, I, ETAG, I, NOEV)),
    ('ensures', '[C07] major type 7, anything else (unassigned simple values, reserved 28-30, a break code where an item is expected): unknown_type, nothing delivered',
     '(%s && %s == 7 && !(%s >= 0x14 && %s <= 0x17) && !(%s >= 0x19 && %s <= 0x1b)) ==> (*ec_p == cbor_errc_unknown_type && %s && %s && !self->more_)' % (OK, M, I, I, I, I, NOEV, NOCALL)),
    ('ensures', '[C07] an error never comes with a value event delivered by read_item itself; at most one event per item', 'vx_events <= 1 && ((*ec_p != 0 && vx_hs_calls == 0 && vx_decfrac_calls == 0 && vx_bigfloat_calls == 0) ==> vx_events == 0)'),
    ('ensures', '[C05] the cursor stays within the input', 'vx_src_pos <= vx_src_n'),
]
ITEM_RULES = [
    (r'read_tags\(ec\);', 'read_tags(self, ec_p); VX_SNAPSHOT();', 1),
    (r'stringref_map_stack_\.empty\(\)', 'vx_sr_empty', 1, 3), (r'stringref_map_stack_\.back\(\)\.size\(\)', 'vx_sr_size', 1, 3),
    (r'auto index = static_cast<typename stringref_map::size_type>\(val\);', 'size_t index = (size_t)(val);', 1),
    (r'auto& str = stringref_map_stack_\.back\(\)\.at\(index\);', 'VX_SR_AT(index);', 1), (r'switch \(str\.type\)', 'switch (vx_sr_type)', 1),
    (r'handle_string\(visitor, jsoncons::string_view\(str\.str\.data\(\),str\.str\.length\(\)\),\s*ec\);', 'handle_string(self, 2, ec_p);', 1),
    (r'read_byte_string_from_buffer read\(byte_string_view\(str\.bytes\)\);\s*read_byte_string\(read, visitor, ec\);', 'vx_read_byte_string(self, 2, ec_p);', 1),
    (r'read_byte_string_from_source read\(this\);\s*read_byte_string\(read, visitor, ec\);', 'vx_read_byte_string(self, 1, ec_p);', 1),
    (r'auto sv = read_text_string_view\(ec\);', 'vx_read_text(self, ec_p);', 1),
    (r'auto result = unicode_traits::validate\(sv\.data\(\),sv\.size\(\)\);', 'bool vx_ok = vx_utf8_ok;', 1),
    (r'result\.ec != unicode_traits::unicode_errc\(\)', '!vx_ok', 1),
    (r'handle_string\(visitor, sv, ec\);', 'handle_string(self, 1, ec_p);', 1),
    (r'visitor\.uint64_value\(val, tag, \*this, ec\);', 'vx_ev(VX_EV_UINT64, tag); vx_ev_u = val;', 1),
    (r'visitor\.int64_value\(val, tag, \*this, ec\);', 'vx_ev(VX_EV_INT64, tag); vx_ev_i = val;', 1),
    (r'visitor\.bool_value\(false, semantic_tag_none, \*this, ec\);', 'vx_ev(VX_EV_FALSE, semantic_tag_none);', 1),
    (r'visitor\.bool_value\(true, semantic_tag_none, \*this, ec\);', 'vx_ev(VX_EV_TRUE, semantic_tag_none);', 1),
    (r'visitor\.null_value\(semantic_tag_(\w+), \*this, ec\);', r'vx_ev(VX_EV_NULL, semantic_tag_\1);', 2),
    (r'visitor\.half_value\(static_cast<uint16_t>\(val\), semantic_tag_none, \*this, ec\);', 'vx_ev(VX_EV_HALF, semantic_tag_none); vx_ev_u = (uint16_t)(val);', 1),
    (r'visitor\.double_value\(val, tag, \*this, ec\);', 'vx_ev(VX_EV_DOUBLE, tag); vx_ev_d = val;', 1),
    (r'read_double\(ec\)', 'read_double(self, ec_p)', 1),
    (r'text_buffer_\.clear\(\);', '', 2),
    (r'read_decimal_fraction\(text_buffer_, ec\);', 'vx_read_decimal_fraction(self, ec_p);', 1), (r'read_bigfloat\(text_buffer_, ec\);', 'vx_read_bigfloat(self, ec_p);', 1),
    (r'visitor\.string_value\(text_buffer_, semantic_tag_(\w+), \*this, ec\);', r'vx_ev(VX_EV_TEXT, semantic_tag_\1);', 2),
    (r'mdarray_order::(\w+)', r'mdarray_order_\1', 2), (r'read_mdarray_header\(visitor, ec\);', 'vx_read_mdarray_header(self, ec_p);', 2),
    (r'begin_array\(visitor, info, ec\);', 'vx_begin_array(self, info, ec_p);', 2), (r'begin_object\(visitor, info, ec\);', 'vx_begin_object(self, info, ec_p);', 1),
]
SPECS = [
    EnumSpec('cbor_errc', 'include/jsoncons_ext/cbor/cbor_error.hpp'), EnumSpec('cbor_major_type', D), EnumSpec('semantic_tag', 'include/jsoncons/semantic_tag.hpp'),
    CopySpec('cbor_0x00_0x17', D, r'#define JSONCONS_EXT_CBOR_0x00_0x17', r'case 0x17\s*\n', include_end=True),
    CopySpec('tag_slots', P, r'enum \{stringref_tag,', r'num_of_tags\};', include_end=True),
    FuncSpec('get_additional_information_value', P, r'static uint8_t get_additional_information_value\(uint8_t type\)', csig='static uint8_t get_additional_information_value(uint8_t type)'),
    FuncSpec('get_major_type', P, r'static jsoncons::cbor::detail::cbor_major_type get_major_type\(uint8_t type\)', csig='static uint8_t get_major_type(uint8_t type)',
             rules=[(r'static_cast<jsoncons::cbor::detail::cbor_major_type>\(value\)', '(uint8_t)(value)', 1)]),
    DeclSpec('read_uint64_decl', 'read_uint64', 'uint64_t read_uint64(struct cbor_parser* self, int* ec_p)', _head.READ_U64_CONTRACT, 'cbor_head'),
    DeclSpec('read_int64_decl', 'read_int64', 'int64_t read_int64(struct cbor_parser* self, int* ec_p)', _head.READ_I64_CONTRACT, 'cbor_head'),
    FuncSpec('read_tags', P, r'void read_tags\(std::error_code& ec\)', count=1, csig='void read_tags(struct cbor_parser* self, int* ec_p)', contract=READ_TAGS, aliases=AL,
             rules=COMMON, loops={0: TAGS_LOOP, 'count': 1}),
    FuncSpec('read_double', P, r'double read_double\(std::error_code& ec\)', count=1, csig='double read_double(struct cbor_parser* self, int* ec_p)', contract=READ_DOUBLE, aliases=AL, rules=COMMON),
    FuncSpec('handle_string', P, r'void handle_string\(generic_visitor& visitor, const jsoncons::string_view& v, std::error_code& ec\)', count=1,
             csig='void handle_string(struct cbor_parser* self, int from, int* ec_p)', contract=HANDLE_STRING, aliases=AL,
             rules=COMMON + [(r'visitor\.string_value\(v, tag, \*this, ec\);', 'vx_ev(VX_EV_STRING, tag); vx_hs_calls++; vx_str_src = from;', 1)]),
    FuncSpec('read_item', P, r'void read_item\(generic_visitor& visitor, std::error_code& ec\)', count=1, csig='void read_item(struct cbor_parser* self, int* ec_p)',
             contract=READ_ITEM, aliases=AL, rules=COMMON + ITEM_RULES),
]
GROUPS = {'binary': cs.binary_group(widths=(16, 32, 64)) + [cs.byte_swap_float(32), cs.byte_swap_float(64), cs.big_to_native_float(32), cs.big_to_native_float(64)]}
SITE_CHECKS = [
    {'file': P, 'pattern': r'stringref_map_stack_\.back\(\)\.emplace_back\(mapped_string\(', 'count': 4, 'props': ['C07', 'C05'],
     'what': 'the stringref table is filled at four sites only, each storing a text string or a byte string (the only entry types read_item has to expect)'},
]
HARNESSES = [
    Harness('read_tags', 'h_read_tags', enforce='read_tags', replace=['read_uint64'], loop_contracts=True, method='LC', props=['C07', 'C05'], expect_classes={'loop_invariant_step': 1}),
    Harness('read_double', 'h_read_double', enforce='read_double', method='LF', props=['C07', 'C06', 'C03'], unwind=10),
    Harness('handle_string', 'h_handle_string', enforce='handle_string', method='LF', props=['C07', 'C06']),
    Harness('read_item', 'h_read_item', enforce='read_item', replace=['read_tags', 'read_uint64', 'read_int64', 'read_double', 'handle_string'], method='LF', props=['C07', 'C06', 'C05', 'C03'], timeout=1800,
            note='the initial byte of the item after its tags: every major type, every additional information value, every truncation point'),
]
