/* unit json_reader (C03, C02): the refill loops of basic_json_reader: read_next (read_chunk -> update -> parse_some until the parser stops, then skip trailing
 * white space) and check_done (the rest of the input is looked at for trailing content).  Source and parser are events; a monitor checks the hand-over
 * discipline that makes the result independent of the chunking: a chunk is requested only when the parser has consumed everything it was given; every
 * non-empty chunk is handed to the parser before anything else happens; the parser is never run on a chunk twice; an error stops the reader at once. */
#include "vx_common.h"
/*@ENUM json_errc@*/
static bool vx_exhausted, vx_pending, vx_source_eof, vx_source_error, vx_mon_bad; static size_t vx_last_size; static unsigned vx_reads, vx_updates, vx_parses, vx_checks; static bool vx_after_error;
static bool vx_done;
struct vx_chunk { size_t n; };
static void vx_bad(bool c) { if (c) vx_mon_bad = true; }
static bool vx_is_exhausted(void) { return vx_exhausted; }
static struct vx_chunk vx_read_chunk(int* ec)
{
    struct vx_chunk s; s.n = 0;
    vx_bad(!vx_exhausted); vx_bad(vx_pending); vx_bad(vx_after_error);
    __CPROVER_assert(!vx_mon_bad, "[C03] a chunk is requested from the source only when the parser has consumed all it was given, and never after an error");
    vx_reads++;
    if (nondet_bool()) { int e = nondet_int(); __CPROVER_assume(e != 0); *ec = e; vx_after_error = true; return s; }
    if (vx_source_eof) return s;                     /* at end of file the source delivers empty chunks */
    s.n = nondet_size(); if (s.n > 0) { vx_pending = true; vx_last_size = s.n; } if (nondet_bool()) vx_source_eof = true;
    return s;
}
static void vx_update(size_t n) { vx_bad(!vx_pending || n != vx_last_size); __CPROVER_assert(!vx_mon_bad, "[C03] the parser is given exactly the chunk just read, once"); vx_pending = false; vx_exhausted = false; vx_updates++; }
static void vx_parse_some(int* ec) { vx_bad(vx_pending); vx_bad(vx_after_error); __CPROVER_assert(!vx_mon_bad, "[C03] the parser runs only after it has been given the chunk that was read"); vx_parses++; if (!vx_exhausted) vx_exhausted = nondet_bool();
    if (nondet_bool()) { int e = nondet_int(); __CPROVER_assume(e != 0); *ec = e; vx_after_error = true; } }
static void vx_skip_ws(void) { vx_bad(vx_pending); if (!vx_exhausted) vx_exhausted = nondet_bool(); }
static void vx_check_done(int* ec) { vx_bad(vx_pending); __CPROVER_assert(!vx_mon_bad, "[C02][C03] trailing content is checked on input the parser has been given"); vx_checks++; if (!vx_exhausted) vx_exhausted = nondet_bool();
    if (nondet_bool()) { int e = nondet_int(); __CPROVER_assume(e != 0); *ec = e; vx_after_error = true; } }
/*@FUNC read_next@*/
/*@FUNC cursor_read_next@*/
/*@FUNC check_done@*/
#ifdef VX_CBMC
static int vx_ec;
static void setup(void) { vx_exhausted = nondet_bool(); vx_pending = false; vx_source_eof = nondet_bool(); vx_source_error = nondet_bool(); vx_mon_bad = false; vx_reads = 0; vx_updates = 0; vx_parses = 0; vx_checks = 0; vx_after_error = false; vx_ec = 0; }
void h_read_next(void) { setup(); read_next(&vx_ec); }
void h_cursor_read_next(void) { setup(); cursor_read_next(&vx_ec); }
void h_check_done(void) { setup(); check_done(&vx_ec); }
#endif
