// replay for unit integers: dec_to_integer (signed and unsigned 64 bit) and from_integer on the boundaries of every digit count and of the two ranges, the
// values +-1 around them, strings of 19..22 digits around 2^63 and 2^64, malformed strings, and the counterexample's string/value; reference: __int128.
#include <jsoncons/json.hpp>
#include "replay_util.hpp"
using namespace jsoncons;
typedef __int128 i128;
static std::string dec(i128 v) { if (v == 0) return "0"; bool neg = v < 0; unsigned __int128 u = neg ? (unsigned __int128)(-(v + 1)) + 1 : (unsigned __int128)v; std::string s; while (u) { s.insert(s.begin(), (char)('0' + (int)(u % 10))); u /= 10; } return neg ? "-" + s : s; }
int main(int argc, char** argv)
{
    if (argc < 3) return 2;
    vx_replay_inputs in; if (!in.load(argv[2])) return 2;
    std::vector<i128> vals = {0, 1, -1, (i128)INT64_MAX, (i128)INT64_MIN, (i128)UINT64_MAX, (i128)INT64_MAX + 1, (i128)INT64_MIN - 1, (i128)UINT64_MAX + 1, (i128)UINT64_MAX * 10, ((i128)1 << 100)};
    i128 p = 1; for (int d = 1; d <= 21; ++d) { p *= 10; for (int k = -1; k <= 1; ++k) { vals.push_back(p + k); vals.push_back(-(p + k)); } }
    if (in.has("v")) vals.push_back((i128)in.i64("v")); if (in.has("value")) vals.push_back((i128)in.u64("value"));
    int bad = 0, total = 0; std::string first;
    auto fail = [&](const std::string& w) { if (!bad) first = w; ++bad; };
    for (i128 v : vals) {
        std::string s = dec(v);
        { ++total; int64_t x = 77; auto r = dec_to_integer(s.data(), s.size(), x); bool fits = v >= (i128)INT64_MIN && v <= (i128)INT64_MAX;
          if ((bool)r != fits) fail("dec_to_integer<int64_t>(\"" + s + "\") " + (r ? "accepted" : "refused")); else if (fits && x != (int64_t)v) fail("dec_to_integer<int64_t>(\"" + s + "\") = " + std::to_string(x)); else if (!fits && x != 77) fail("dec_to_integer<int64_t> touched the output on error"); }
        { ++total; uint64_t x = 77; auto r = dec_to_integer(s.data(), s.size(), x); bool fits = v >= 0 && v <= (i128)UINT64_MAX;
          if ((bool)r != fits) fail("dec_to_integer<uint64_t>(\"" + s + "\") " + (r ? "accepted" : "refused")); else if (fits && x != (uint64_t)v) fail("dec_to_integer<uint64_t>(\"" + s + "\") = " + std::to_string(x)); }
        if (v >= (i128)INT64_MIN && v <= (i128)INT64_MAX) { ++total; std::string o; from_integer((int64_t)v, o); if (o != s) fail("from_integer(int64 " + s + ") = " + o); }
        if (v >= 0 && v <= (i128)UINT64_MAX) { ++total; std::string o; from_integer((uint64_t)v, o); if (o != s) fail("from_integer(uint64 " + s + ") = " + o); }
    }
    for (std::string s : {"", "-", "+1", " 1", "1 ", "1a", "0x10", "--1", "1-", "١"}) { ++total; int64_t x; uint64_t y; if (dec_to_integer(s.data(), s.size(), x) || dec_to_integer(s.data(), s.size(), y)) fail("malformed \"" + s + "\" accepted"); }
    if (bad) VX_REPRO(bad << " of " << total << " conversions differ from exact integer arithmetic, first: " << first);
    VX_NOREPRO("all " << total << " conversions agree with exact integer arithmetic");
}
