# unit is_integer (C09): basic_json::is_integer<T>() for the eight integer types of at most 64 bits - is<T>() is true exactly when the stored integer (int64 or
# uint64 storage) is representable in T, so that as<T>() - a static_cast of the stored value - returns the stored number exactly
from core import FuncSpec, EnumSpec, Harness
B = 'include/jsoncons/basic_json.hpp'
SIGNED = {'int8_t': ('INT8_MIN', 'INT8_MAX'), 'int16_t': ('INT16_MIN', 'INT16_MAX'), 'int32_t': ('INT32_MIN', 'INT32_MAX'), 'int64_t': ('INT64_MIN', 'INT64_MAX')}
UNSIGNED = {'uint8_t': 'UINT8_MAX', 'uint16_t': 'UINT16_MAX', 'uint32_t': 'UINT32_MAX', 'uint64_t': 'UINT64_MAX'}
def rules(lo, hi):
    return [(r'storage_kind\(\)', 'vx_kind', 1), (r'json_storage_kind::(\w+)', r'json_storage_kind_\1', 4), (r'as_integer<int64_t>\(\)', 'vx_i64', 0, 4), (r'as_integer<uint64_t>\(\)', 'vx_u64', 0, 4),
            (r'\(ext_traits::integer_limits<(?:T|IntegerType)>::lowest\)\(\)', '((int64_t)%s)' % lo, 0, 1), (r'\(ext_traits::integer_limits<(?:T|IntegerType)>::max\)\(\)', '(%s)' % hi, 2, 3),
            (r'cast<(?:const_)?json_ref_storage>\(\)\.value\(\)\.template is_integer<(?:T|IntegerType)>\(\)', 'vx_ref_is_integer()', 2)]
FNS = []
for t, (lo, hi) in SIGNED.items():
    FNS.append(FuncSpec('is_integer_' + t[:-2], B, r'is_integer\(\) const noexcept', ordinal=0, csig='bool is_integer_%s(void)' % t[:-2], rules=rules(lo, '((%s)%s)' % (t, hi)),
        contract=[('assigns', 'vx_ref_calls'),
                  ('ensures', '[C09] is<%s>() is true exactly when the stored integer is a value of %s: an int64 within [%s, %s], a uint64 of at most %s (a uint64 of 2^63 or more is no signed 64-bit value); then as<%s>() returns the stored number exactly' % (t, t, lo, hi, hi, t),
                   '(vx_kind == json_storage_kind_int64 ==> __CPROVER_return_value == (vx_i64 >= (int64_t)%s && vx_i64 <= (int64_t)%s)) && (vx_kind == json_storage_kind_uint64 ==> __CPROVER_return_value == (vx_u64 <= (uint64_t)%s))' % (lo, hi, hi)),
                  ('ensures', '[C09] a value that is not an integer (and not a reference to one) is not a %s' % t, '(vx_kind != json_storage_kind_int64 && vx_kind != json_storage_kind_uint64 && vx_kind != json_storage_kind_const_json_ref && vx_kind != json_storage_kind_json_ref) ==> !__CPROVER_return_value')]))
for t, hi in UNSIGNED.items():
    FNS.append(FuncSpec('is_integer_' + t[:-2], B, r'is_integer\(\) const noexcept', ordinal=2, csig='bool is_integer_%s(void)' % t[:-2], rules=rules('0', '((%s)%s)' % (t, hi)),
        contract=[('assigns', 'vx_ref_calls'),
                  ('ensures', '[C09] is<%s>() is true exactly when the stored integer is a value of %s: a non-negative int64 of at most %s, a uint64 of at most %s; then as<%s>() returns the stored number exactly' % (t, t, hi, hi, t),
                   '(vx_kind == json_storage_kind_int64 ==> __CPROVER_return_value == (vx_i64 >= 0 && (uint64_t)vx_i64 <= (uint64_t)%s)) && (vx_kind == json_storage_kind_uint64 ==> __CPROVER_return_value == (vx_u64 <= (uint64_t)%s))' % (hi, hi)),
                  ('ensures', '[C09] a value that is not an integer (and not a reference to one) is not a %s' % t, '(vx_kind != json_storage_kind_int64 && vx_kind != json_storage_kind_uint64 && vx_kind != json_storage_kind_const_json_ref && vx_kind != json_storage_kind_json_ref) ==> !__CPROVER_return_value')]))
SPECS = [EnumSpec('json_storage_kind', 'include/jsoncons/json_type.hpp')]
GROUPS = {'instances': FNS}
HARNESSES = [Harness(f.name, 'h_' + f.name, enforce=f.name, method='LF', props=['C09'], note='template instantiated by extraction rules (integer_limits<T> become the limits of the type); the stored value is symbolic') for f in FNS]
