/* unit staj_typed_array: basic_staj_cursor::read_typed_array<T>, instantiated for the ten element types */
#include "vx_common.h"
/*@ENUM typed_array_tags@*/
/* S-TAELEM: bytes per element of each typed-array kind (RFC 8746: uint8..uint64, sint8..sint64, binary16, binary32, binary64); 0 = not a kind */
static size_t spec_elem_size(int tag)
{
    switch (tag) { case typed_array_tags_uint8: case typed_array_tags_int8: return 1; case typed_array_tags_uint16: case typed_array_tags_int16: case typed_array_tags_half_float: return 2;
                   case typed_array_tags_uint32: case typed_array_tags_int32: case typed_array_tags_float32: return 4; case typed_array_tags_uint64: case typed_array_tags_int64: case typed_array_tags_float64: return 8; default: return 0; }
}
/* the cursor's typed array: a byte buffer of symbolic length; the data pointer of an empty buffer may be null (std::vector<uint8_t>().data(), span{}) */
static bool vx_is_typed_array; static int vx_array_tag; static size_t vx_buf_size; static bool vx_buf_null; static uint8_t vx_buf[8];
struct vx_span { const void* data; size_t size; };
static struct vx_span vx_cast(size_t esz) { struct vx_span s; s.data = vx_buf_null ? (const void*)0 : (const void*)vx_buf; s.size = vx_buf_size / esz; return s; }   /* typed_array_cast<T>: {reinterpret_cast<T*>(bytes.data()), bytes.size() / sizeof(T)} */
/* the destination vector: size and whether data() is null (allowed for an empty vector) */
static unsigned vx_resizes, vx_copies, vx_push_calls, vx_to_end; static size_t vx_v_size, vx_copy_bytes, vx_pushes_n, vx_reserved; static bool vx_v_null, vx_push_half; static uint8_t vx_vmem[8];
static void vx_resize(size_t n) { vx_resizes++; vx_v_size = n; vx_v_null = (n == 0) ? nondet_bool() : false; }
static void vx_reserve(size_t n) { vx_reserved = n; }
static void* vx_v_data(void) { return vx_v_null ? (void*)0 : (void*)vx_vmem; }
static void vx_push_all(size_t n, int half) { vx_push_calls++; vx_pushes_n = n; vx_push_half = half; }   /* for (auto item : ta) v.push_back(static_cast<value_type>(...)) : n push_backs in order */
/* C11 7.24.1p2: pointer arguments of memcpy must be valid even when n is 0 */
#define VX_MEMCPY(d, s, n) do { __CPROVER_assert((d) != (void*)0, "[C05] memcpy: destination pointer is not null (C11 7.24.1p2: also when the size is 0)"); \
    __CPROVER_assert((s) != (const void*)0, "[C05] memcpy: source pointer is not null (C11 7.24.1p2: also when the size is 0)"); vx_copies++; vx_copy_bytes = (n); } while (0)
/*@GROUP instances@*/
#ifdef VX_CBMC
static void setup(void) { vx_is_typed_array = nondet_bool(); vx_array_tag = nondet_int(); vx_buf_size = nondet_size(); vx_buf_null = nondet_bool(); __CPROVER_assume(vx_buf_size > 0 ? !vx_buf_null : 1);
    vx_copies = 0; vx_pushes_n = 0; vx_push_calls = 0; vx_resizes = 0; vx_to_end = 0; vx_v_null = false; }
void h_read_typed_array_int8(void) { setup(); read_typed_array_int8(); }
void h_read_typed_array_int16(void) { setup(); read_typed_array_int16(); }
void h_read_typed_array_int32(void) { setup(); read_typed_array_int32(); }
void h_read_typed_array_int64(void) { setup(); read_typed_array_int64(); }
void h_read_typed_array_uint8(void) { setup(); read_typed_array_uint8(); }
void h_read_typed_array_uint16(void) { setup(); read_typed_array_uint16(); }
void h_read_typed_array_uint32(void) { setup(); read_typed_array_uint32(); }
void h_read_typed_array_uint64(void) { setup(); read_typed_array_uint64(); }
void h_read_typed_array_float(void) { setup(); read_typed_array_float(); }
void h_read_typed_array_double(void) { setup(); read_typed_array_double(); }
#endif
