/* unit source_reader: source_reader<Source>::read(source, buffer, length), the helper through which every binary decoder reads string / byte-string
 * payloads of a length claimed by the input: the destination buffer grows only with the bytes the source actually delivers (C10) */
#include "vx_common.h"
/* ghost source: chunk size (fixed, >= 1), what is buffered, end of input; read / read_buffer deliver at most n bytes and, while not at the end of
 * input, at least one (contract of stream_source / iterator_source assumed; of bytes_source proved in unit source) */
static size_t vx_chunk; static size_t vx_remaining; static bool vx_eof;
static size_t vx_total_left;     /* bytes the input still has */
static size_t vx_src_read(size_t n)
{
    size_t k = nondet_size(); __CPROVER_assume(k <= n && k <= vx_total_left && (n > 0 && !vx_eof ==> k >= 1));
    vx_total_left -= k; vx_remaining = nondet_size(); if (vx_total_left == 0) vx_eof = true;
    return k;
}
/* ghost destination buffer: current size, largest size ever requested, bytes delivered into it */
static size_t vx_bsize, vx_b0, vx_peak, vx_delivered;
static void vx_resize(size_t n) { vx_bsize = n; if (n > vx_peak) vx_peak = n; }
#define VX_DELIVER(actual, offset, n) do { __CPROVER_assert((actual) <= (n), "[C05] the source never delivers more than was asked for"); vx_delivered += (actual); } while (0)
/*@FUNC source_reader_read@*/
#ifdef VX_CBMC
void h_read(void)
{
    vx_chunk = nondet_size(); vx_remaining = nondet_size(); vx_eof = nondet_bool(); vx_total_left = nondet_size();
    vx_bsize = nondet_size(); vx_b0 = vx_bsize; vx_peak = vx_bsize; vx_delivered = 0;
    source_reader_read(nondet_size());
}
#endif
