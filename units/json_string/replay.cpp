// replay for unit json_string: JSON texts whose strings use every escape class (short escapes, \uXXXX, surrogate pairs, literal UTF-8), fed to the real
// incremental parser in one piece and split in two at every position (and in three at a sample of positions); every delivery must give the same events
// as the one-piece parse (C03), and the decoded string must be the RFC 8259 decoding (C01/C02: checked against hand-written expectations)
#include <jsoncons/json.hpp>
#include "replay_util.hpp"
using namespace jsoncons;
struct rec_visitor : public default_json_visitor {
    std::string log;
    bool visit_begin_array(semantic_tag, const ser_context&, std::error_code&) override { log += "["; return true; }
    bool visit_end_array(const ser_context&, std::error_code&) override { log += "]"; return true; }
    bool visit_begin_object(semantic_tag, const ser_context&, std::error_code&) override { log += "{"; return true; }
    bool visit_end_object(const ser_context&, std::error_code&) override { log += "}"; return true; }
    bool visit_key(const string_view& s, const ser_context&, std::error_code&) override { log += "k(" + std::string(s) + ")"; return true; }
    bool visit_string(const string_view& s, semantic_tag, const ser_context&, std::error_code&) override { log += "s(" + std::string(s) + ")"; return true; }
    bool visit_uint64(uint64_t v, semantic_tag, const ser_context&, std::error_code&) override { log += "u" + std::to_string(v); return true; }
};
static std::string run_chunks(const std::vector<std::string>& chunks)
{
    json_parser parser; rec_visitor v; std::error_code ec;
    for (auto& c : chunks) { parser.update(c.data(), c.size()); parser.parse_some(v, ec); if (ec) return v.log + " ERR:" + ec.message(); }
    parser.finish_parse(v, ec); if (ec) return v.log + " ERR:" + ec.message();
    parser.check_done(ec); if (ec) return v.log + " ERR:" + ec.message();
    return v.log + " OK";
}
int main(int argc, char** argv)
{
    if (argc < 3) return 2;
    struct { const char* text; const char* expect; } cases[] = {
        {"[\"plain\"]", "[s(plain)] OK"},
        {"[\"a\\\"b\\\\c\\/d\\be\\ff\\ng\\rh\\ti\"]", "[s(a\"b\\c/d\be\ff\ng\rh\ti)] OK"},
        {"[\"\\u0041\\u00e9\\u20AC\"]", "[s(A\xc3\xa9\xe2\x82\xac)] OK"},
        {"[\"x\\uD83D\\uDE00y\"]", "[s(x\xf0\x9f\x98\x80y)] OK"},
        {"[\"\\uD800\\uDC00\\uDBFF\\uDFFF\"]", "[s(\xf0\x90\x80\x80\xf4\x8f\xbf\xbf)] OK"},
        {"{\"k\\u0031\":\"v\\n\",\"\xc3\xa9\":\"\xf0\x9f\x98\x80\"}", "{k(k1)s(v\n)k(\xc3\xa9)s(\xf0\x9f\x98\x80)} OK"},
        {"[\"\\ud83d\\ude00\",\"\\uFFFF\",1]", "[s(\xf0\x9f\x98\x80)s(\xef\xbf\xbf)u1] OK"},
        {"[\"bad\\x\"]", nullptr}, {"[\"bad\\u12G4\"]", nullptr}, {"[\"\\uD83Dx\"]", nullptr}, {"[\"\\uD83D\\n\"]", nullptr}, {"[\"ctl\x01\"]", nullptr}, {"[\"unterminated", nullptr},
    };
    int bad = 0; std::string first;
    for (auto& c : cases) {
        std::string t = c.text; std::string whole = run_chunks({t});
        if (c.expect && whole != c.expect) { if (!bad) first = "one piece: " + t + " -> " + whole; ++bad; }
        if (!c.expect && whole.find(" ERR:") == std::string::npos) { if (!bad) first = "invalid text accepted: " + t + " -> " + whole; ++bad; }
        for (size_t i = 1; i < t.size(); ++i) {   // (an empty chunk means end of input to the parser, so chunks are non-empty)
            std::string a = run_chunks({t.substr(0, i), t.substr(i)});
            if (a != whole) { if (!bad) first = "split after " + std::to_string(i) + " characters of " + t + ": " + a + " instead of " + whole; ++bad; }
            for (size_t j = i + 1; j < t.size(); j += 3) { std::string b = run_chunks({t.substr(0, i), t.substr(i, j - i), t.substr(j)}); if (b != whole) { if (!bad) first = "three-way split " + std::to_string(i) + "/" + std::to_string(j) + " of " + t + ": " + b + " instead of " + whole; ++bad; } }
        }
    }
    if (bad) VX_REPRO(bad << " deliveries decode differently, first: " << first);
    VX_NOREPRO("every split of every text gives the events of the one-piece parse, and the strings decode as RFC 8259 prescribes");
}
