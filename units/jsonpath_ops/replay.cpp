// replay for unit jsonpath_ops: filters `$[?(@.k OP v)]` with each of the six comparison operators, over members whose k is a number or string below, equal
// to and above the operand v (number or string), and of another type; the selected elements must be those the comparison defines.
#include <jsoncons/json.hpp>
#include <jsoncons_ext/jsonpath/jsonpath.hpp>
#include "replay_util.hpp"
using namespace jsoncons;
int main(int argc, char** argv)
{
    if (argc < 3) return 2;
    json doc = json::parse(R"([{"k":1},{"k":2},{"k":3},{"k":2.0},{"k":"a"},{"k":"m"},{"k":"z"},{"k":""},{"k":true},{"k":null},{"k":[2]},{"x":1}])");
    struct opd { const char* sym; int kind; };   // kind: 0 == 1 != 2 < 3 <= 4 > 5 >=
    const opd ops[] = {{"==", 0}, {"!=", 1}, {"<", 2}, {"<=", 3}, {">", 4}, {">=", 5}};
    const char* operands[] = {"2", "'m'"};
    int bad = 0, total = 0; std::string first;
    for (const opd& o : ops) for (const char* v : operands) {
        bool num = v[0] != '\''; std::string expr = std::string("$[?(@.k ") + o.sym + " " + v + ")]"; ++total;
        json want(json_array_arg);
        for (const auto& e : doc.array_range()) { if (!e.contains("k")) { if (o.kind == 1) want.push_back(e); continue; } /* a missing member is "nothing": only != holds against a value */  const json& k = e["k"]; bool comparable = num ? k.is_number() : k.is_string(); int c = 0;
            if (comparable) { if (num) { double x = k.as<double>(); c = x < 2 ? -1 : x > 2 ? 1 : 0; } else { std::string x = k.as<std::string>(); c = x < "m" ? -1 : x > "m" ? 1 : 0; } }
            bool sel; switch (o.kind) { case 0: sel = comparable && c == 0; break; case 1: sel = !(comparable && c == 0); break; case 2: sel = comparable && c < 0; break; case 3: sel = comparable && c <= 0; break; case 4: sel = comparable && c > 0; break; default: sel = comparable && c >= 0; }
            if (sel) want.push_back(e); }
        json got = jsonpath::json_query(doc, expr);
        if (got != want) { if (!bad) first = expr + " selects " + got.to_string() + ", the comparison defines " + want.to_string(); ++bad; }
    }
    // arithmetic in filters (jsoncons extension): no crash and no sanitizer report for division by zero, INT64_MIN / -1, overflowing + - * and -INT64_MIN; exact results elsewhere
    { json nd = json::parse(R"([{"a":7,"m":-9223372036854775808,"x":9223372036854775807,"u":18446744073709551615,"z":0}])");
      const char* safe[] = {"$[?(@.a / @.z > 0)]", "$[?(@.a % @.z == 0)]", "$[?(@.m / -1 > 0)]", "$[?(@.m % -1 == 0)]", "$[?(@.x + 1 > 0)]", "$[?(@.m - 1 < 0)]", "$[?(@.x * 2 > 0)]", "$[?(-@.m > 0)]", "$[?(@.u / @.z > 0)]", "$[?(@.u % @.z > 0)]"};
      for (const char* e : safe) { ++total; try { json r = jsonpath::json_query(nd, e); (void)r; } catch (const jsoncons::json_exception&) {} catch (const std::exception& ex) { if (!bad) first = std::string(e) + " lets " + ex.what() + " escape"; ++bad; } }
      struct ex_case { const char* e; bool sel; }; const ex_case exact[] = {{"$[?(@.a / 2 == 3)]", true}, {"$[?(@.a % 4 == 3)]", true}, {"$[?(@.a * 3 == 21)]", true}, {"$[?(@.a - 9 == -2)]", true}, {"$[?(-@.a == -7)]", true}, {"$[?(@.a / -1 == -7)]", true}, {"$[?(@.a + 1 == 7)]", false}};
      for (const ex_case& c : exact) { ++total; json r = jsonpath::json_query(nd, c.e); if ((r.size() == 1) != c.sel) { if (!bad) first = std::string(c.e) + " selects " + r.to_string(); ++bad; } } }
    if (bad) VX_REPRO(bad << " of " << total << " filters select other elements than the comparison defines, first: " << first);
    VX_NOREPRO("all " << total << " comparison filters select the elements the comparison defines");
}
