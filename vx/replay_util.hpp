// helper for the per-unit replay programs: parse "in name=value" lines of a replay file
#pragma once
#include <map>
#include <string>
#include <fstream>
#include <sstream>
#include <iostream>
#include <cstdint>
#include <vector>
struct vx_replay_inputs {
    std::map<std::string, std::string> kv;
    std::string harness;
    bool load(const char* path) {
        std::ifstream f(path);
        if (!f) return false;
        std::string line;
        while (std::getline(f, line)) {
            if (line.rfind("in ", 0) == 0) {
                auto eq = line.find('=');
                if (eq != std::string::npos) kv[line.substr(3, eq - 3)] = line.substr(eq + 1);
            }
        }
        return true;
    }
    bool has(const std::string& k) const { return kv.count(k) != 0; }
    uint64_t u64(const std::string& k, uint64_t dflt = 0) const {
        auto it = kv.find(k); if (it == kv.end()) return dflt;
        const std::string& s = it->second;
        if (s == "TRUE" || s == "true") return 1; if (s == "FALSE" || s == "false") return 0;
        try { if (!s.empty() && s[0] == '-') return (uint64_t)std::stoll(s, nullptr, 0); return std::stoull(s, nullptr, 0); } catch (...) { return dflt; }
    }
    int64_t i64(const std::string& k, int64_t dflt = 0) const { return (int64_t)u64(k, (uint64_t)dflt); }
    std::vector<uint8_t> bytes(const std::string& name, size_t n) const {
        std::vector<uint8_t> v(n, 0);
        for (size_t i = 0; i < n; ++i) v[i] = (uint8_t)u64(name + "[" + std::to_string(i) + "]", 0);
        return v;
    }
};
#define VX_REPRO(msg) do { std::cout << "REPRODUCED: " << msg << std::endl; return 1; } while (0)
#define VX_NOREPRO(msg) do { std::cout << "NOT-REPRODUCED: " << msg << std::endl; return 0; } while (0)
