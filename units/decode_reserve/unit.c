/* unit decode_reserve: reserve_storage of decode_traits.hpp (five identical helpers, one per container family) */
#include "vx_common.h"
static unsigned vx_reserves; static size_t vx_reserved;
static void vx_reserve(size_t n) { vx_reserves++; vx_reserved = n; }
/*@GROUP fns@*/
#ifdef VX_CBMC
void h_reserve_storage_0(void) { vx_reserves = 0; size_t n = nondet_size(); reserve_storage_0(n); }
void h_reserve_storage_1(void) { vx_reserves = 0; size_t n = nondet_size(); reserve_storage_1(n); }
void h_reserve_storage_2(void) { vx_reserves = 0; size_t n = nondet_size(); reserve_storage_2(n); }
void h_reserve_storage_3(void) { vx_reserves = 0; size_t n = nondet_size(); reserve_storage_3(n); }
void h_reserve_storage_4(void) { vx_reserves = 0; size_t n = nondet_size(); reserve_storage_4(n); }
#endif
