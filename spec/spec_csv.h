/* S-CSV: RFC 4180 section 2 rules 5-7, parameterised by the delimiter, quote and quote-escape characters (jsoncons options):
 *   5. fields may be enclosed in quote characters;  6. fields containing line breaks (CR, LF), quote characters or delimiters
 *   must be enclosed in quotes;  7. a quote character inside a quoted field is represented by the escape character followed by
 *   the quote character (RFC 4180: the quote doubled).  When the escape character differs from the quote character a literal
 *   escape character must itself be escaped, otherwise the field cannot be decoded unambiguously.
 * Decoder of the interior of a quoted field, one character at a time.  Not derived from jsoncons. */
#ifndef SPEC_CSV_H
#define SPEC_CSV_H
/* *st: 0 normal, 1 after the escape character.  Returns the decoded character (>= 0), -1 nothing yet, -2 the interior is not well formed
 * (an unescaped quote would end the field early; a dangling or unknown escape) */
static inline int spec_csv_quoted_step(int* st, int c, int quote, int esc)
{
    c &= 0xff; quote &= 0xff; esc &= 0xff;
    if (*st == 0) {
        if (c == esc) { *st = 1; return -1; }
        if (c == quote) return -2;
        return c;
    }
    *st = 0;
    if (c == quote) return quote;
    if (c == esc) return esc;
    return -2;
}
static inline int spec_csv_needs_quotes(int c, int delim) { return (c & 0xff) == (delim & 0xff) || c == '\n' || c == '\r'; }
#endif
