# (the indent option is any value from 0: F46, division by zero for indent(0))
# unit toon_lines (C05, C18): read_lines of the TOON reader - the loop that cuts the input into lines with their indentation: one arbitrary iteration (step
# function) and the statements after the loop; the content span of every line lies inside the input (F45: a tab counted as indent_size characters, "\t" alone
# gave a span of length 2^64-1)
from core import FuncSpec, EnumSpec, Harness
R = 'include/jsoncons_ext/toon/toon_reader.hpp'
AL = {'i': 'vx_i', 'indent': 'vx_indent', 'indent_chars': 'vx_indent_chars', 'start': 'vx_start', 'is_blank_line': 'vx_blank', 'trailing_blanks': 'vx_trailing', 'line_num': 'vx_line_num', 'strict': 'vx_strict', 'indent_size': 'vx_indent_size'}
RULES = [
    (r'using result_type = read_result<std::vector<parsed_line>>;', '', 1), (r'std::vector<parsed_line> lines;', '', 1), (r'std::size_t indent_size = options\.indent\(\) == 0 \? 1 : options\.indent\(\);', 'vx_indent_size = vx_opt_indent == 0 ? 1 : vx_opt_indent;', 0, 1), (r'std::size_t indent_size = options\.indent\(\);', 'vx_indent_size = vx_opt_indent;', 0, 1), (r'bool strict = options\.strict\(\);', '', 1),
    (r'std::size_t line_num = 1;\s*std::size_t indent = 0;\s*(?:std::size_t indent_chars = 0;\s*)?std::size_t start = 0;\s*bool is_blank_line = true;\s*std::size_t trailing_blanks = 0;\s*std::size_t i = 0;', '', 1),
    (r'for \(; i < raw\.size\(\); \+\+i\)', 'if (vx_phase == 0 && vx_i < vx_raw_size && (vx_stepped = true))', 1), (r'char c = raw\[i\];', 'char c = vx_c;', 1), (r'\bcontinue;', '{ vx_i++; return; }', 1),
    (r'return result_type\{jsoncons::unexpect, toon_errc::(\w+), line_num, 0\};', r'{ vx_error = toon_errc_\1; return; }', 3),
    (r'std::size_t depth = compute_depth_from_indent\(indent, indent_size\);', '', 2),
    (r'lines\.push_back\(parsed_line\{depth, indent, jsoncons::span<char>\{raw\.data\(\)\+\(([^)]+)\), ([^}]+)\}, line_num\}\);', r'vx_push_line((\1), (\2));', 2),
    (r'if \(start < i\)', 'if (vx_phase == 1 && vx_start < vx_i)', 1), (r'return result_type\{std::move\(lines\)\};', 'return;', 1),
]
INV = '(vx_start <= vx_i && vx_i <= vx_raw_size && vx_indent_chars <= vx_i - vx_start && vx_trailing <= vx_i - vx_start - vx_indent_chars && (vx_blank ==> (vx_trailing == 0 && vx_indent_chars == vx_i - vx_start)))'
BOUNDS = 'vx_indent <= SIZE_MAX / 4 && vx_opt_indent <= 64 && vx_raw_size <= SIZE_MAX / 4'
C = [
    ('requires', INV + ' && ' + BOUNDS + ' && vx_pushes == 0 && vx_error == 0 && !vx_stepped && (vx_phase == 0 || (vx_phase == 1 && vx_i == vx_raw_size)) && vx_line_num <= SIZE_MAX / 2'),
    ('assigns', 'vx_indent_size, vx_i, vx_indent, vx_indent_chars, vx_start, vx_blank, vx_trailing, vx_line_num, vx_pushes, vx_push_off, vx_push_len, vx_error, vx_stepped'),
    ('ensures', '[C05] the content of a line is a span inside the input: it starts after the characters of the indentation (a tab is one character) and ends before the trailing blanks; never a negative - wrapped - length',
     'vx_pushes <= 1 && (vx_pushes == 1 ==> (vx_push_off <= vx_raw_size && vx_push_len <= vx_raw_size - vx_push_off && vx_push_off + vx_push_len <= __CPROVER_old(vx_i)))'),
    ('ensures', '[C05] the bookkeeping of one character keeps the relation that makes this so (start <= i, indentation characters and trailing blanks lie between them): the same holds for the next character',
     '(vx_phase == 0 && vx_error == 0 && vx_stepped) ==> ((vx_c == \'\\t\' && __CPROVER_old(vx_blank) && !vx_strict) ? vx_i == __CPROVER_old(vx_i) + 1 : vx_i == __CPROVER_old(vx_i)) && '
     '(vx_phase == 0 && vx_error == 0 && vx_stepped ==> ((vx_i == __CPROVER_old(vx_i) + 1) ? %s : %s))' % (INV, __import__('re').sub(r'\bvx_i\b', '(vx_i + 1)', INV))),
]
SPECS = [EnumSpec('toon_errc', 'include/jsoncons_ext/toon/toon_error.hpp'),
         FuncSpec('read_lines_step', R, r'read_result<std::vector<parsed_line>> read_lines\(jsoncons::span<char> raw,\s*const toon_decode_options& options\)', count=1, csig='void read_lines_step(void)', contract=C, rules=RULES, aliases=AL)]
HARNESSES = [Harness('read_lines_step', 'h_read_lines_step', enforce='read_lines_step', method='LF', props=['C05', 'C18'],
                     note='phase 0: the loop body for an arbitrary character and bookkeeping state that satisfies the relation; phase 1: the statements after the loop (i == raw.size()); the for statement increments i after the body unless the body says continue')]
