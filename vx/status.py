#!/usr/bin/env python3
# run every harness of every unit (or of the listed units) and print one line each; debugging aid
import sys, os
sys.path.insert(0, os.path.dirname(os.path.abspath(__file__)))
import units, core
from concurrent.futures import ThreadPoolExecutor
sel = sys.argv[1:]
jobs = []
for un in units.all_units():
    if sel and un not in sel:
        continue
    try:
        mod = units.load_unit(un)
        ctext, info = units.assemble_unit(mod)
    except Exception as e:
        print('%-40s BROKEN %s' % (un, e)); continue
    for h in mod.HARNESSES:
        jobs.append((mod, h, ctext, info))
import json
try:
    _costs = json.load(open(os.path.join(os.path.dirname(os.path.abspath(__file__)), 'costs.json')))
except Exception:
    _costs = {}
jobs.sort(key=lambda j: -_costs.get('%s/%s' % (j[0].NAME, j[1].name), 1.0))
with ThreadPoolExecutor(16) as ex:
    futs = [ex.submit(units.run_harness, *j) for j in jobs]
    for f in futs:
        print(units.summarize(f.result()), flush=True)
