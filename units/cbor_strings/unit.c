/* unit cbor_strings (C07, C06): the string readers of basic_cbor_parser between the item dispatch and the chunk loop.  The parser keeps two scratch buffers
 * (text_buffer_, bytes_buffer_) that other items use too (big numbers, decimal fractions, earlier strings): a buffer is a size and a "dirty" flag here.
 * iterate_string_chunks (unit cbor_chunks), read_size (unit cbor_chunks / cbor_head), source_.read_span and source_reader::read (units source, source_reader)
 * are events.  The stringref table is its size and the entries added. */
#include "vx_common.h"
/*@ENUM cbor_errc@*/
/*@ENUM cbor_major_type@*/
/*@FUNC get_additional_information_value@*/
/*@FUNC get_major_type@*/
/*@FUNC min_length_for_stringref@*/
/* S-STRREF (stringref specification, cbor.schmorp.de/stringref): minimum length of a string that gets the next index */
static size_t spec_strref_min_length(uint64_t index) { return index < 24 ? 3 : index < 256 ? 4 : index < 65536 ? 5 : index < 4294967296ull ? 7 : 11; }
struct cbor_parser { bool more_; };
struct vx_peek_result { uint8_t value; bool eof; };
enum { B_TEXT = 0, B_BYTES = 1, B_VEC = 2 };
enum { VIEW_NONE = 0, VIEW_BUFFER = 1, VIEW_SPAN = 2 };
struct vx_view { int kind; size_t len; };
struct vx_span { size_t size; };
static size_t vx_buf_size[3]; static bool vx_dirty;      /* vx_dirty: chunks or payload were appended to a buffer that still held something */
static unsigned vx_peeks, vx_ignored, vx_iterates, vx_sizes, vx_spans, vx_table_adds; static bool vx_peek_eof, vx_iter_ok, vx_size_ok, vx_has_table; static uint8_t vx_peek_val, vx_major;
static size_t vx_len, vx_span_got, vx_table_size, vx_table_added_len; static int vx_view_kind; static size_t vx_view_len;
static struct vx_peek_result vx_peek(void) { struct vx_peek_result r; vx_peeks++; r.eof = nondet_bool(); r.value = r.eof ? 0 : (uint8_t)((vx_major << 5) | (nondet_u8() & 0x1f)); vx_peek_eof = r.eof; vx_peek_val = r.value; return r; }
static void vx_ignore(size_t n) { (void)n; vx_ignored++; }
static void vx_buf_clear(int b) { vx_buf_size[b] = 0; }
static void vx_iterate(int b, uint8_t type, int* ec_p)
{
    __CPROVER_assert(type == vx_major, "[C07] the chunks are read as chunks of this string's major type");
    __CPROVER_assert(vx_ignored == 1, "[C07] the indefinite-length indicator is consumed before the chunks are read");
    if (vx_buf_size[b] != 0) vx_dirty = true;
    __CPROVER_assert(vx_buf_size[b] == 0, "[C07][C06] the chunks of an indefinite-length string are appended to an empty buffer: what is delivered is the concatenation of the chunks and nothing else");
    vx_iterates++; vx_iter_ok = nondet_bool();
    size_t n = nondet_size(); vx_buf_size[b] = n;
    if (!vx_iter_ok) { int e = nondet_int(); __CPROVER_assume(e != 0); *ec_p = e; }
}
static size_t vx_read_size(int* ec_p) { vx_sizes++; vx_size_ok = nondet_bool(); if (!vx_size_ok) { int e = nondet_int(); __CPROVER_assume(e != 0); *ec_p = e; return 0; } vx_len = nondet_size(); return vx_len; }
/* source_.read_span(length, buffer): up to length bytes, either in place or through the buffer, which read_span empties itself first (source.hpp) */
static struct vx_span vx_read_span(size_t length, int b) { struct vx_span s; vx_spans++; size_t k = nondet_size(); __CPROVER_assume(k <= length); if (nondet_bool()) vx_buf_size[b] = k; s.size = k; vx_span_got = k; return s; }
/* source_reader<Source>::read(source_, v, length): appends up to length bytes to v */
static size_t vx_read_into(int b, size_t length) { vx_spans++; size_t k = nondet_size(); __CPROVER_assume(k <= length); if (vx_buf_size[b] != 0) vx_dirty = true;
    __CPROVER_assert(vx_buf_size[b] == 0, "[C07][C06] the payload is appended to an empty vector"); vx_buf_size[b] = k; vx_span_got = k; return k; }
static struct vx_view vx_view_none(void) { struct vx_view v; v.kind = VIEW_NONE; v.len = 0; vx_view_kind = VIEW_NONE; vx_view_len = 0; return v; }
static struct vx_view vx_view_buffer(int b) { struct vx_view v; v.kind = VIEW_BUFFER; v.len = vx_buf_size[b]; vx_view_kind = VIEW_BUFFER; vx_view_len = v.len; return v; }
static struct vx_view vx_view_span(struct vx_span s) { struct vx_view v; v.kind = VIEW_SPAN; v.len = s.size; vx_view_kind = VIEW_SPAN; vx_view_len = s.size; return v; }
#define VX_VIEW_LEN vx_view_len
static void vx_table_add(size_t len) { vx_table_adds++; vx_table_added_len = len; }
/*@FUNC read_text_string_view@*/
/*@FUNC read_byte_string_view@*/
/*@FUNC read_byte_string@*/
#ifdef VX_CBMC
static struct cbor_parser vx_p; static int vx_ec;
static void setup(uint8_t major)
{
    vx_p.more_ = true; vx_ec = 0; vx_major = major; vx_peeks = 0; vx_ignored = 0; vx_iterates = 0; vx_sizes = 0; vx_spans = 0; vx_table_adds = 0; vx_dirty = false; vx_view_kind = VIEW_NONE;
    vx_buf_size[0] = nondet_size(); vx_buf_size[1] = nondet_size(); vx_buf_size[2] = nondet_size(); vx_has_table = nondet_bool(); vx_table_size = nondet_size(); __CPROVER_assume(vx_table_size <= SIZE_MAX - 1);
}
void h_read_text_string_view(void) { setup(cbor_major_type_text_string); read_text_string_view(&vx_p, &vx_ec); }
void h_read_byte_string_view(void) { setup(cbor_major_type_byte_string); read_byte_string_view(&vx_p, &vx_ec); }
void h_read_byte_string(void) { setup(cbor_major_type_byte_string); read_byte_string(&vx_p, &vx_ec); }
#endif
