# unit jsonpath_ops (C12): the comparison operators of JSONPath filter expressions (eq, ne, lt, lte, gt, gte of token_evaluator.hpp): comparisons are defined
# between two numbers and between two strings (RFC 9535 2.3.5.2.2; anything else is "nothing" - null here), == and != for values of any type
from core import FuncSpec, Harness
T = 'include/jsoncons_ext/jsonpath/token_evaluator.hpp'
A = r'Json evaluate\(const_reference lhs, const_reference rhs, std::error_code&\) const override'
RULES = [
    (r'lhs\.is_number\(\) && rhs\.is_number\(\)', '(vx_lk == VK_NUMBER && vx_rk == VK_NUMBER)', 0, 1), (r'lhs\.is_string\(\) && rhs\.is_string\(\)', '(vx_lk == VK_STRING && vx_rk == VK_STRING)', 0, 1),
    (r'\blhs (==|!=|<=|>=|<|>) rhs\b', r'(vx_cmp \1 0)', 1, 2), (r'Json\(true, semantic_tag::none\)', 'R_TRUE', 1, 2), (r'Json\(false, semantic_tag::none\)', 'R_FALSE', 1, 2),
    (r'return Json::null\(\);', '{ vx_result = R_NULL; return; }', 0, 1), (r'return (\(?[^;{}]+\? R_TRUE : R_FALSE);', r'{ vx_result = (\1); return; }', 1, 2),
]
def op(name, cls, post, what):
    return FuncSpec(name, T, A, after=r'class %s final : public binary_operator<Json>' % cls, csig='void %s(void)' % name, rules=RULES,
                    contract=[('requires', 'vx_result == R_NONE && vx_cmp >= -1 && vx_cmp <= 1'), ('assigns', 'vx_result'), ('ensures', '[C12] ' + what, post)])
COMPARABLE = '((vx_lk == VK_NUMBER && vx_rk == VK_NUMBER) || (vx_lk == VK_STRING && vx_rk == VK_STRING))'
def cmpop(name, cls, sym):
    return op(name, cls, '%s ? vx_result == ((vx_cmp %s 0) ? R_TRUE : R_FALSE) : vx_result == R_NULL' % (COMPARABLE, sym), 'a %s b is the order of the two values for two numbers and for two strings, and nothing (null) for anything else' % sym)
OPS = [op('op_eq', 'eq_operator', 'vx_result == ((vx_cmp == 0) ? R_TRUE : R_FALSE)', '== is value equality for values of any type'),
       op('op_ne', 'ne_operator', 'vx_result == ((vx_cmp != 0) ? R_TRUE : R_FALSE)', '!= is the negation of =='),
       cmpop('op_lt', 'lt_operator', '<'), cmpop('op_lte', 'lte_operator', '<='), cmpop('op_gt', 'gt_operator', '>'), cmpop('op_gte', 'gte_operator', '>=')]
# ---- arithmetic of filter expressions (a jsoncons extension): for every pair of operands the evaluation is free of undefined behaviour - no division by zero, no
# signed overflow (F49: `$[?(@.a / 0 > 0)]` died with SIGFPE) - and integer results are the exact result where it fits
AR_RULES = [
    (r'lhs\.is_number\(\) && rhs\.is_number\(\)', '(vx_lk == VK_NUMBER && vx_rk == VK_NUMBER)', 0, 1), (r'lhs\.is_int64\(\)', 'vx_l_is_i', 0, 1), (r'rhs\.is_int64\(\)', 'vx_r_is_i', 0, 1), (r'lhs\.is_uint64\(\)', 'vx_l_is_u', 0, 1), (r'rhs\.is_uint64\(\)', 'vx_r_is_u', 0, 1),
    (r'lhs\.template as<int64_t>\(\)', 'vx_li', 0, 2), (r'rhs\.template as<int64_t>\(\)', 'vx_ri', 0, 4), (r'lhs\.template as<uint64_t>\(\)', 'vx_lu', 0, 2), (r'rhs\.template as<uint64_t>\(\)', 'vx_ru', 0, 3),
    (r'val\.is_int64\(\)', 'vx_l_is_i', 0, 1), (r'val\.is_double\(\)', 'vx_l_is_d', 0, 1), (r'val\.template as<int64_t>\(\)', 'vx_li', 0, 1), (r'val\.as_double\(\)', 'vx_ld', 0, 1),
    (r'lhs\.as_double\(\)', 'vx_ld', 0, 1), (r'rhs\.as_double\(\)', 'vx_rd', 0, 1), (r'\bfmod\(', 'vx_fmod(', 0, 1), (r'uint64_t\(0\)', '((uint64_t)0)', 0, 1),
    (r'return Json::null\(\);', '{ vx_result = R_NULL; return; }', 1), (r'return Json\(([^;]*), semantic_tag::none\);', r'{ VX_RET(\1); return; }', 2, 3),
]
def arith(name, cls, unary, post, what):
    anchor = r'Json evaluate\(const_reference val,\s*std::error_code&\) const override' if unary else A
    base = 'unary_operator<Json>' if unary else 'binary_operator<Json>'
    return FuncSpec(name, T, anchor, after=r'class %s final : public %s' % (cls, base), csig='void %s(void)' % name, rules=AR_RULES,
                    contract=[('requires', 'vx_result == R_NONE && !(vx_l_is_i && vx_l_is_u) && !(vx_r_is_i && vx_r_is_u)'), ('assigns', 'vx_result, vx_res_i, vx_res_u, vx_res_d, vx_res_kind'), ('ensures', '[C05][C12] ' + what, post)])
II = '(vx_lk == VK_NUMBER && vx_rk == VK_NUMBER && vx_l_is_i && vx_r_is_i)'
ARITH = [
    arith('op_plus', 'plus_operator', False, '%s ==> (vx_res_kind == RK_I && vx_res_i == (int64_t)((uint64_t)vx_li + (uint64_t)vx_ri))' % II, 'a + b of two signed integers is their sum (two\'s complement wrap-around beyond 64 bits), computed without signed overflow'),
    arith('op_minus', 'minus_operator', False, '%s ==> (vx_res_kind == RK_I && vx_res_i == (int64_t)((uint64_t)vx_li - (uint64_t)vx_ri))' % II, 'a - b of two signed integers, computed without signed overflow'),
    arith('op_mult', 'mult_operator', False, '%s ==> (vx_res_kind == RK_I)' % II, 'a * b of two signed integers is computed without signed overflow'),
    arith('op_div', 'div_operator', False, '(%s && vx_ri != 0 && vx_ri != -1) ==> (vx_res_kind == RK_I && vx_res_i == vx_li / vx_ri)' % II, 'a / b: integer division only by a divisor that is neither 0 nor -1 (no division by zero, no INT64_MIN / -1); those cases are divided as floating-point numbers'),
    arith('op_mod', 'modulus_operator', False, '(%s && vx_ri != 0 && vx_ri != -1) ==> (vx_res_kind == RK_I && vx_res_i == vx_li %% vx_ri)' % II, 'a % b: the same for the remainder'),
    arith('op_neg', 'unary_minus_operator', True, 'vx_l_is_i ==> (vx_res_kind == RK_I && vx_res_i == (int64_t)((uint64_t)0 - (uint64_t)vx_li))', '-a of a signed integer is computed without signed overflow (the minimum has no negation)'),
]
SPECS = []
GROUPS = {'ops': OPS, 'arith': ARITH}
HARNESSES = [Harness(o.name, 'h_' + o.name, enforce=o.name, method='LF', props=['C05', 'C12'], flags=['--signed-overflow-check'], note='operands are abstract numbers of a storage kind (int64, uint64 or double) with arbitrary values; built-in checks: division by zero, signed overflow') for o in ARITH] + [Harness(o.name, 'h_' + o.name, enforce=o.name, method='LF', props=['C12'], note='operands are abstract: their kinds and the sign of their comparison (basic_json::compare: unit cmp)') for o in OPS]
