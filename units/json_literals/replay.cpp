// replay for unit json_literals: texts with the literals true / false / null and whitespace (CR, LF, CR LF) are read (a) by the push parser in one piece and
// split at every position, (b) by the pull cursor over a contiguous string and over a stream with every small buffer size; all deliveries must report
// the same events
#include <jsoncons/json.hpp>
#include <jsoncons/json_cursor.hpp>
#include "replay_util.hpp"
#include <sstream>
using namespace jsoncons;
struct rec_visitor : public default_json_visitor {
    std::string log;
    bool visit_begin_array(semantic_tag, const ser_context&, std::error_code&) override { log += "["; return true; }
    bool visit_end_array(const ser_context&, std::error_code&) override { log += "]"; return true; }
    bool visit_begin_object(semantic_tag, const ser_context&, std::error_code&) override { log += "{"; return true; }
    bool visit_end_object(const ser_context&, std::error_code&) override { log += "}"; return true; }
    bool visit_key(const string_view& s, const ser_context&, std::error_code&) override { log += "k(" + std::string(s) + ")"; return true; }
    bool visit_null(semantic_tag, const ser_context&, std::error_code&) override { log += "N"; return true; }
    bool visit_bool(bool b, semantic_tag, const ser_context&, std::error_code&) override { log += b ? "T" : "F"; return true; }
    bool visit_uint64(uint64_t v, semantic_tag, const ser_context&, std::error_code&) override { log += "u" + std::to_string(v); return true; }
};
static std::string push(const std::vector<std::string>& chunks)
{
    json_parser parser; rec_visitor v; std::error_code ec;
    for (auto& c : chunks) { parser.update(c.data(), c.size()); parser.parse_some(v, ec); if (ec) return v.log + " ERR"; }
    parser.finish_parse(v, ec); if (ec) return v.log + " ERR"; parser.check_done(ec); if (ec) return v.log + " ERR";
    return v.log + " OK";
}
template <class Cursor> static std::string pull(Cursor& cur, std::error_code& ec)
{
    std::string log;
    while (!cur.done() && !ec) {
        const auto& e = cur.current();
        switch (e.event_type()) {
        case staj_event_type::begin_array: log += "["; break; case staj_event_type::end_array: log += "]"; break;
        case staj_event_type::begin_object: log += "{"; break; case staj_event_type::end_object: log += "}"; break;
        case staj_event_type::key: log += "k(" + e.template get<std::string>() + ")"; break;
        case staj_event_type::null_value: log += "N"; break; case staj_event_type::bool_value: log += e.template get<bool>() ? "T" : "F"; break;
        case staj_event_type::uint64_value: log += "u" + std::to_string(e.template get<uint64_t>()); break;
        default: log += "?"; break;
        }
        cur.next(ec);
    }
    return log + (ec ? " ERR" : " OK");
}
int main(int argc, char** argv)
{
    if (argc < 3) return 2;
    const char* texts[] = {"[true,false,null]", "[false,1]", "{\"a\":false,\"b\":true,\"c\":null}", "[[false],[true],[null],false]", "true", "false", "null", " \r\n[\r\n true ,\r false\n, null\r\n]\r\n",
                           "[tru]", "[falsy]", "[nul,1]", "[truefalse]", "[fals", "\r[1]\r"};
    int bad = 0; std::string first;
    for (const char* tx : texts) {
        std::string t = tx; std::string whole = push({t});
        for (size_t i = 1; i < t.size(); ++i) { std::string a = push({t.substr(0, i), t.substr(i)}); if (a != whole) { if (!bad) first = "push parser, split after " + std::to_string(i) + " of " + t + ": " + a + " instead of " + whole; ++bad; } }
        std::error_code ec0; json_string_cursor c0(t, ec0); std::string ref = ec0 ? std::string(" ERR") : pull(c0, ec0);
        if (ref.substr(ref.size() - 2) == "OK" && ref != whole) { if (!bad) first = "pull cursor on a string: " + ref + " instead of " + whole + " for " + t; ++bad; }
        for (size_t k = 1; k <= 9; ++k) {
            std::istringstream is(t); std::error_code ec; json_stream_cursor c(stream_source<char>(is, k), ec);   // stream source with a k-character buffer
            std::string got = ec ? std::string(" ERR") : pull(c, ec);
            if (got != ref) { if (!bad) first = "pull cursor over a stream with buffer size " + std::to_string(k) + ": " + got + " instead of " + ref + " for " + t; ++bad; }
        }
    }
    if (bad) VX_REPRO(bad << " deliveries report different events, first: " << first);
    VX_NOREPRO("push (every split) and pull (every small stream buffer) deliveries report the same events");
}
