/* unit to_integer: jsoncons::to_integer (read_number.hpp), the text-to-integer routine behind JSONPath and JMESPath indices and slice bounds, the TOON reader's
 * integers and staj/as<integer>.  Unsigned 64-bit version: prefix selection (decimal; 0 = octal; 0b/0B binary; 0x/0X hexadecimal) and the four digit loops, each
 * under a loop contract with a 128-bit Horner ghost: the result is exactly the value of the digit string in its radix, or result_out_of_range exactly when that
 * value does not fit, or invalid_argument exactly at the first character that is not a digit of the radix.  Signed version on top of the unsigned contract. */
#include "vx_common.h"
#include <stdlib.h>
typedef unsigned __int128 spec_u128;
enum { VX_ERRC_ok = 0, VX_ERRC_invalid_argument = 22 /* EINVAL */, VX_ERRC_result_out_of_range = 34 /* ERANGE */ };
struct to_number_result { const char* ptr; int ec; };
static struct to_number_result vx_mk_result(const char* p, int ec) { struct to_number_result r; r.ptr = p; r.ec = ec; return r; }
/*@ENUM integer_chars_state@*/
/* value of a digit character in a radix, -1 = not a digit of that radix (positional notation: ISO C 6.4.4.1 / the usual meaning of 0b, 0, 0x prefixes) */
static int spec_digit(int c, int radix)
{
    int v = (c >= '0' && c <= '9') ? c - '0' : (c >= 'a' && c <= 'f') ? c - 'a' + 10 : (c >= 'A' && c <= 'F') ? c - 'A' + 10 : -1;
    return (v >= 0 && v < radix) ? v : -1;
}
static const char* vx_s; static size_t vx_len;
/* ghost: radix chosen, index of the first digit, Horner value of the digits folded so far, how many */
static int vx_radix; static size_t vx_dstart, vx_cnt; static spec_u128 vx_h; static bool vx_over, vx_bad_digit, vx_ok_u;
#define VX_RADIX_OF(state) ((state) == integer_chars_state_binary ? 2 : (state) == integer_chars_state_octal ? 8 : (state) == integer_chars_state_decimal ? 10 : 16)
#define VX_FOLD(c, x) do { int vx_d = spec_digit((c), vx_radix); __CPROVER_assert(vx_d >= 0 && (uint64_t)vx_d == (uint64_t)(x), "[C04] the digit value added is the value of the character in the radix of the prefix"); vx_h = vx_h * (unsigned)vx_radix + (unsigned)vx_d; vx_cnt++; } while (0)
#define VX_AT_RANGE(c) do { int vx_d = spec_digit((c), vx_radix); __CPROVER_assert(vx_d >= 0 && vx_h * (unsigned)vx_radix + (unsigned)vx_d > (spec_u128)UINT64_MAX, "[C04] result_out_of_range is returned only where the value including this digit exceeds 2^64-1 (never for a value that fits)"); vx_over = true; } while (0)
#define VX_AT_INVALID(c) do { __CPROVER_assert(spec_digit((c), vx_radix) < 0, "[C04] invalid_argument inside the digits is returned only at a character that is not a digit of the radix"); vx_bad_digit = true; } while (0)
/*@FUNC to_integer_u64@*/
/*@FUNC to_integer_i64@*/
#ifdef VX_CBMC
static uint64_t vx_u; static int64_t vx_i;
static void setup(void)
{
    vx_len = nondet_size();
#ifdef VX_SMALL
    __CPROVER_assume(vx_len <= 8);
#endif
    __CPROVER_assume(vx_len <= 100000000);
    char* b = malloc(vx_len ? vx_len : 1); __CPROVER_assume(b != 0); vx_s = b;
    vx_radix = 0; vx_dstart = 0; vx_cnt = 0; vx_h = 0; vx_over = false; vx_bad_digit = false;
}
void h_to_integer_u64(void) { setup(); struct to_number_result r = to_integer_u64(vx_s, vx_len, &vx_u); (void)r; }
void h_to_integer_i64(void) { setup(); struct to_number_result r = to_integer_i64(vx_s, vx_len, &vx_i); (void)r; }
#endif
