/* unit source: chars_source<uint8_t> (= bytes_source), the contiguous source every binary parser reads through:
 * read / read_span / ignore / peek deliver the bytes of the buffer in order, never beyond its end (the contract assumed by model_source.h) */
#include "vx_common.h"
#include <stdlib.h>
struct chars_source { const uint8_t* data_end_; const uint8_t* current_; const uint8_t* end_; };
static uint8_t* vx_buf; static size_t vx_n, vx_off;   /* buffer, its size, position of current_ on entry */
static size_t vx_w;                                    /* watched index into what is delivered */
/* memcpy modelled at the watched position (trusted: memcpy copies n bytes); ISO C 7.24.1p2: both pointers must be valid even for n == 0 */
static void* vx_memcpy(void* dst, const void* src, size_t n)
{
    /* the data() of an empty std::vector / string_view may be a null pointer: the source's pointers must not reach memcpy then (CBMC's pointer checks
     * reject relational operators on null pointers, so the null case is modelled by this condition instead of a null vx_buf) */
    __CPROVER_assert(dst != 0 && src != 0 && !(vx_n == 0 && src == (const void*)(vx_buf + vx_off)), "[C05] memcpy is never given a null pointer - in particular not the data pointer of an empty buffer (undefined behaviour even for size 0)");
    __CPROVER_assert(__CPROVER_r_ok(src, n) && __CPROVER_w_ok(dst, n), "[C05] memcpy stays inside the source buffer and the destination");
    if (vx_w < n) ((uint8_t*)dst)[vx_w] = ((const uint8_t*)src)[vx_w];
    return dst;
}
struct char_result { uint8_t value; bool eof; };
struct span_result { const uint8_t* data; size_t size; };
/*@GROUP fns@*/
#ifdef VX_CBMC
static struct chars_source vx_s;
static void setup(void)
{
    vx_n = nondet_size(); vx_off = nondet_size(); vx_w = nondet_size();
#ifdef VX_SMALL
    __CPROVER_assume(vx_n <= 8);
#endif
    __CPROVER_assume(vx_off <= vx_n && vx_n <= 100000000);
    vx_buf = malloc(vx_n ? vx_n : 1); __CPROVER_assume(vx_buf != 0);
    vx_s.data_end_ = vx_buf; vx_s.current_ = vx_buf + vx_off; vx_s.end_ = vx_buf + vx_n;
}
void h_read(void)
{
    setup(); size_t length = nondet_size(); __CPROVER_assume(length <= 100000000);
    uint8_t* p = malloc(length ? length : 1); __CPROVER_assume(p != 0);
    src_read(&vx_s, p, length);
}
void h_read_span(void) { setup(); src_read_span(&vx_s, nondet_size()); }
void h_ignore(void) { setup(); src_ignore(&vx_s, nondet_size()); }
void h_peek(void) { setup(); src_peek(&vx_s); }
#endif
