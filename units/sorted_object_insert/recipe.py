# U-SOBJ-INSERT (C09): unique sorted keys of sorted_json_object under try_emplace / insert_or_assign, with and without hint
from core import FuncSpec, CopySpec, EnumSpec, Harness
F = 'include/jsoncons/sorted_json_object.hpp'
RULES = [
    (r'std::lower_bound\(([^,;]+),\s*data_\.end\(\), name,\s*(?:Comp\(\)|\[\]\(const key_value_type& a, const string_view_type& k\) -> bool \{return string_view_type\(a\.key\(\)\)\.compare\(k\) < 0;\})\);', r'vx_lower_bound(\1, vx_size);', 1, 2),
    (r'hint->key\(\) (<=|<|>=|>|==|!=) name', r'vx_key_at(hint) \1 vx_name', 0, 2), (r'\(\*it\)\.key\(\) (<=|<|>=|>|==|!=) name', r'vx_key_at(it) \1 vx_name', 1, 2),
    (r'data_\.emplace_back\(key_type\(name\.begin\(\),\s*name\.end\(\)(?:,\s*get_allocator\(\))?\),\s*std::forward<(?:Args|T)>\((?:args|value)\)(?:\.\.\.)?\);', 'vx_emplace(vx_size);', 1),
    (r'data_\.emplace\(it,\s*key_type\(name\.begin\(\),\s*name\.end\(\)(?:,\s*get_allocator\(\))?\),\s*std::forward<(?:Args|T)>\((?:args|value)\)(?:\.\.\.)?\);', 'vx_emplace(it);', 1),
    (r'\(\*it\)\.value\(Json\(std::forward<T>\(value\)(?:,\s*get_allocator\(\))?\)\);', 'vx_assign(it);', 0, 1),
    (r'data_\.begin\(\) \+ \(?data_\.size\(\) - 1\)?', '(vx_size - 1)', 1), (r'data_\.end\(\)', 'vx_size', 0, 3), (r'data_\.begin\(\)', '(size_t)0', 0, 3), (r'std::next\((\w+)\)', r'(\1 + 1)', 0, 2),
    (r'\biterator it\b', 'size_t it', 0, 1), (r'\bauto it\b', 'size_t it', 0, 1), (r'return std::make_pair\(it,\s*inserted\);', 'vx_inserted_flag = inserted; return it;', 0, 1),
]
RV = '__CPROVER_return_value'
def contract(hinted, assigns_value):
    c = [('requires', 'vx_size <= 100000000 && vx_size == vx_size0 && vx_inserts == 0 && vx_assigns == 0 && vx_t_n <= 1 && (vx_has_w ==> (vx_w < vx_size && vx_t_n == 1 && vx_t_idx[0] == vx_w && vx_t_key[0] == vx_wkey)) && (!vx_has_w ==> (vx_size == 0 && vx_t_n == 0))'
          + (' && hint <= vx_size' if hinted else '')),
         ('assigns', 'vx_size, vx_inserts, vx_assigns, vx_ins_pos, vx_assign_pos, vx_inserted_flag, vx_t_n, __CPROVER_object_whole(vx_t_idx), __CPROVER_object_whole(vx_t_key)'),
         ('ensures', '[C09] keys stay unique: a member is inserted only if the name is not the key of any member that was there (watched member: any)', '(vx_inserts == 1 && vx_has_w) ==> vx_wkey != vx_name'),
         ('ensures', '[C09] the vector stays sorted: the new member goes after every smaller key and before every larger key', '(vx_inserts == 1 && vx_has_w) ==> ((vx_w < vx_ins_pos) == (vx_wkey < vx_name))'),
         ('ensures', '[C09] if nothing is inserted then a member with that name exists and it is the one returned' + (' and assigned' if assigns_value else ''),
          'vx_inserts == 0 ==> (%s < vx_size0 && ((vx_has_w && vx_w == %s) ==> vx_wkey == vx_name)%s)' % (RV, RV, (' && vx_assigns == 1 && vx_assign_pos == %s' % RV) if assigns_value else ' && vx_assigns == 0')),
         ('ensures', '[C09] at most one member is inserted, the size grows by exactly that, and the iterator returned is the position of the member with the name',
          'vx_inserts <= 1 && vx_size == vx_size0 + vx_inserts && (vx_inserts == 1 ==> (%s == vx_ins_pos && vx_ins_pos <= vx_size0%s))' % (RV, '' if assigns_value else ' && vx_assigns == 0')),
         ('ensures', '[C09] a member that has the name is found, never duplicated (watched member: any)', '(vx_has_w && vx_wkey == vx_name) ==> (vx_inserts == 0 && %s == vx_w)' % RV)]
    return c
def spec(cname, cxxname, hinted, assigns_value, ordinal, count):
    params = r'\(iterator hint, const string_view_type& name, (?:Args&&\.\.\. args|T&& value)\)' if hinted else r'\(const string_view_type& name, (?:Args&&\.\.\. args|T&& value)\)'
    return FuncSpec(cname, F, r'\b%s%s' % (cxxname, params), count=count, ordinal=ordinal, csig='size_t %s(%s)' % (cname, 'size_t hint' if hinted else 'void'),
                    contract=contract(hinted, assigns_value), rules=RULES, prologue='' if hinted else 'bool vx_unused_hint = false; (void)vx_unused_hint;')
FUNCS = [
    spec('try_emplace_0', 'try_emplace', False, False, 0, 2), spec('try_emplace_1', 'try_emplace', False, False, 1, 2),
    spec('try_emplace_hint_0', 'try_emplace', True, False, 0, 2), spec('try_emplace_hint_1', 'try_emplace', True, False, 1, 2),
    spec('insert_or_assign_0', 'insert_or_assign', False, True, 0, 2), spec('insert_or_assign_1', 'insert_or_assign', False, True, 1, 2),
    spec('insert_or_assign_hint_0', 'insert_or_assign', True, True, 0, 2), spec('insert_or_assign_hint_1', 'insert_or_assign', True, True, 1, 2),
]
# ---- merge(&&) / merge_or_update(&&), with and without hint: one iteration of the loop over the members of the source (an arbitrary member, its key is vx_name)
M_RULES = [
    (r'for \(; it != end; \+\+it\)', '', 1),
    (r'std::lower_bound\(([^,;]+),\s*data_\.end\(\), \(\*it\)\.key\(\),\s*Comp\(\)\);', r'vx_lower_bound(\1, vx_size);', 1, 2),
    (r'\bauto pos = ', 'size_t pos = ', 0, 1), (r'\biterator pos;', 'size_t pos;', 0, 1),
    (r'hint->key\(\) (<=|<|>=|>|==|!=) \(\*it\)\.key\(\)', r'vx_key_at(hint) \1 vx_name', 0, 1), (r'\(\*it\)\.key\(\) (==|!=) pos->key\(\)', r'vx_name \1 vx_key_at(pos)', 0, 2),
    (r'data_\.emplace_back\(\*it\);', 'vx_emplace(vx_size);', 1), (r'data_\.emplace\(pos,\s*\*it\)', 'vx_emplace(pos)', 0, 1), (r'pos->value\(\(\*it\)\.value\(\)\);', 'vx_assign(pos);', 0, 1),
    (r'data_\.begin\(\) \+ \(?data_\.size\(\) - 1\)?', '(vx_size - 1)', 0, 1), (r'data_\.end\(\)', 'vx_size', 0, 3), (r'data_\.begin\(\)', '(size_t)0', 0, 3),
]
def merge_contract(update, hinted):
    pre = ('vx_size <= 100000000 && vx_size == vx_size0 && vx_inserts == 0 && vx_assigns == 0 && vx_t_n <= 1 && (vx_has_w ==> (vx_w < vx_size && vx_t_n == 1 && vx_t_idx[0] == vx_w && vx_t_key[0] == vx_wkey)) && (!vx_has_w ==> (vx_size == 0 && vx_t_n == 0))'
           + (' && *hint_p <= vx_size' if hinted else ''))
    c = [('requires', pre),
         ('assigns', 'vx_size, vx_inserts, vx_assigns, vx_ins_pos, vx_assign_pos, vx_t_n, __CPROVER_object_whole(vx_t_idx), __CPROVER_object_whole(vx_t_key)' + (', *hint_p' if hinted else '')),
         ('ensures', '[C09] merging one member of the source: keys stay unique - it is inserted only if no member has its name (watched member: any)', '(vx_inserts == 1 && vx_has_w) ==> vx_wkey != vx_name'),
         ('ensures', '[C09] ... and the vector stays sorted: it goes after every smaller key and before every larger key', '(vx_inserts == 1 && vx_has_w) ==> ((vx_w < vx_ins_pos) == (vx_wkey < vx_name))'),
         ('ensures', '[C09] a member whose name is not in the object is inserted, never dropped: nothing is inserted only when a member with that name was seen', 'vx_inserts <= 1 && vx_size == vx_size0 + vx_inserts && (vx_inserts == 0 ==> vx_touched_has_name())')]
    if update:
        c += [('ensures', '[C09] merge_or_update: a member that has the name gets the new value; no other member is ever assigned (watched member: any)',
               '(vx_has_w && vx_wkey == vx_name) ==> (vx_inserts == 0 && vx_assigns == 1 && vx_assign_pos == vx_w)'),
              ('ensures', '[C09] ... exactly one of insert and assign happens, and the member assigned is one with that name', 'vx_inserts + vx_assigns == 1 && ((vx_assigns == 1 && vx_has_w && vx_w == vx_assign_pos) ==> vx_wkey == vx_name)')]
    else:
        c += [('ensures', '[C09] merge: a member that has the name is kept as it is', 'vx_assigns == 0 && ((vx_has_w && vx_wkey == vx_name) ==> vx_inserts == 0)')]
    if hinted:
        c += [('ensures', '[C09][C05] the hint carried to the next member stays a position of the vector', '*hint_p <= vx_size')]
    return c
def mspec(cname, cxx, hinted, update):
    params = r'\(iterator hint, sorted_json_object&& source\)' if hinted else r'\(sorted_json_object&& source\)'
    return FuncSpec(cname, F, r'void %s%s' % (cxx, params), count=1, csig='void %s(%s)' % (cname, 'size_t* hint_p' if hinted else 'void'), contract=merge_contract(update, hinted), rules=M_RULES,
                    aliases={'hint': '(*hint_p)'} if hinted else None, slice_from=r'for \(; it != end; \+\+it\)')
MERGES = [mspec('merge_step', 'merge', False, False), mspec('merge_hint_step', 'merge', True, False), mspec('merge_or_update_step', 'merge_or_update', False, True), mspec('merge_or_update_hint_step', 'merge_or_update', True, True)]
SPECS = []
GROUPS = {'funcs': FUNCS, 'merges': MERGES}
HARNESSES = [Harness(f.name, 'h_' + f.name, enforce=f.name, method='LF', props=['C09'], unwind=14) for f in FUNCS] + [
    Harness(f.name, 'h_' + f.name, enforce=f.name, method='LF', props=['C09'], unwind=14, note='one iteration of the loop over the (moved-from) source object, for an arbitrary source member; the whole merge follows by induction over the source members') for f in MERGES]
