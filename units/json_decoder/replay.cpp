// replay for unit json_decoder: pseudo-random nested documents are delivered to the real json_decoder as events - once with the plain begin events, once with
// begin events that declare a (wrong, up to 2^60) length - and the value it builds is compared with the value parsed from the equivalent JSON text.
#include <jsoncons/json.hpp>
#include "replay_util.hpp"
#include <random>
using namespace jsoncons;
static std::mt19937_64 rng(20260101);
template <class V> static void gen(V& v, std::string& text, int depth, bool declare)
{
    int k = (int)(rng() % (depth >= 4 ? 4 : 6));
    switch (k) {
    case 0: v.int64_value(-7); text += "-7"; break;
    case 1: v.string_value("s\"x"); text += "\"s\\\"x\""; break;
    case 2: v.bool_value(true); text += "true"; break;
    case 3: v.null_value(); text += "null"; break;
    case 4: { size_t n = rng() % 4; if (declare) v.begin_array((size_t)(rng() % 3 == 0 ? ((uint64_t)1 << 60) : n + rng() % 3)); else v.begin_array(); text += "[";
              for (size_t i = 0; i < n; ++i) { if (i) text += ","; gen(v, text, depth + 1, declare); } v.end_array(); text += "]"; break; }
    default: { size_t n = rng() % 4; if (declare) v.begin_object((size_t)(rng() % 3 == 0 ? ((uint64_t)1 << 60) : n)); else v.begin_object(); text += "{";
              for (size_t i = 0; i < n; ++i) { if (i) text += ","; std::string key = std::string(1, (char)('a' + rng() % 3)); v.key(key); text += "\"" + key + "\":"; gen(v, text, depth + 1, declare); } v.end_object(); text += "}"; break; }
    }
}
template <class J> static void run(const char* name, int& bad, int& total, std::string& first)
{
    for (int declare = 0; declare < 2; ++declare) for (int i = 0; i < 3000; ++i) {
        ++total; json_decoder<J> dec; std::string text; gen(dec, text, 0, declare != 0); dec.flush();
        try { if (!dec.is_valid()) { if (!bad) first = std::string(name) + ": decoder not valid after " + text; ++bad; continue; }
              J got = dec.get_result(); J want = J::parse(text); if (got != want) { if (!bad) first = std::string(name) + ": events of " + text + " built " + got.to_string(); ++bad; } }
        catch (const std::exception& e) { if (!bad) first = std::string(name) + ": " + e.what() + " for " + text; ++bad; }
    }
}
int main(int argc, char** argv)
{
    if (argc < 3) return 2;
    int bad = 0, total = 0; std::string first;
    run<json>("json", bad, total, first); run<ojson>("ojson", bad, total, first);
    if (bad) VX_REPRO(bad << " of " << total << " event sequences built a value different from the parsed text, first: " << first);
    VX_NOREPRO("all " << total << " event sequences built the value the text denotes, whatever lengths were declared");
}
