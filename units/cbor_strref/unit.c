/* unit cbor_strref: stringref (tag 25/256) index assignment in the CBOR encoder */
#include "vx_common.h"
#include "spec_cbor.h"

struct cbor_encoder { bool pack_strings_; size_t next_stringref_; };
/* ghost model of the two std::unordered_maps: only the result of find() and what is entered */
static bool vx_find_result; static size_t vx_text_count, vx_bytes_count;
static unsigned vx_registered; static size_t vx_reg_index; static size_t vx_items;
enum { VX_OUT_NONE = 0, VX_OUT_LITERAL, VX_OUT_REF };
static int vx_out;
static void vx_out_literal(void) { __CPROVER_assert(vx_out == VX_OUT_NONE, "[C06][C08] exactly one encoding is written per string"); vx_out = VX_OUT_LITERAL; }
static void vx_out_ref(void) { __CPROVER_assert(vx_out == VX_OUT_NONE, "[C06][C08] exactly one encoding is written per string"); vx_out = VX_OUT_REF; }
#define VX_REGISTER(idx) do { vx_reg_index = (idx); vx_registered++; } while (0)
#define VX_UTF8_VALIDATED() do { } while (0)
#define VX_PROLOGUE_CUT() do { } while (0)

/*@FUNC min_length_for_stringref@*/
/*@FUNC write_byte_string@*/
/*@FUNC write_bignum@*/
/*@FUNC write_string@*/
/*@FUNC visit_byte_string@*/
/*@FUNC visit_byte_string_tagged@*/

#ifdef VX_CBMC
static struct cbor_encoder vx_enc;
static void setup_enc(void)
{
    vx_enc.pack_strings_ = nondet_bool(); vx_enc.next_stringref_ = nondet_size();
    __CPROVER_assume(vx_enc.next_stringref_ < ((size_t)1 << 60));
#ifdef VX_SMALL
    __CPROVER_assume(vx_enc.next_stringref_ <= 300);
#endif
    vx_registered = 0; vx_out = VX_OUT_NONE; vx_items = 0;
    vx_find_result = nondet_bool();
    vx_text_count = nondet_size(); vx_bytes_count = nondet_size(); __CPROVER_assume(vx_text_count <= vx_enc.next_stringref_ && vx_bytes_count <= vx_enc.next_stringref_ - vx_text_count);
}
void h_min_length(void) { min_length_for_stringref(nondet_u64()); }
void h_write_byte_string(void) { setup_enc(); write_byte_string(&vx_enc, nondet_size()); }
void h_write_bignum(void) { setup_enc(); write_bignum(&vx_enc, nondet_size()); }
void h_write_string(void) { setup_enc(); write_string(&vx_enc, nondet_size()); }
void h_bytes(void) { setup_enc(); visit_byte_string(&vx_enc, nondet_size()); }
void h_bytes_tagged(void) { setup_enc(); visit_byte_string_tagged(&vx_enc, nondet_size()); }
#endif
