/* unit jsonpatch (C15): one operation of jsonpatch::apply_patch (the body of its loop over the operations) and the undo replay of operation_unwinder.
 * The document edits are jsonpointer calls (get / add_if_absent / replace / remove: each under contract in unit jsonpointer as far as addressing goes); here they
 * are events that may fail.  A monitor inside the events checks RFC 6902 atomicity bookkeeping: every successful edit is followed, before anything else happens,
 * by the push of its inverse onto the undo stack (remove <-> add of the value read before, replace <-> replace by the value read before, insertion <-> remove),
 * every failure sets an error code, marks the run aborted and returns, and an operation name other than the six of RFC 6902 section 4 is an error. */
#include "vx_common.h"
#include <stdlib.h>
/*@ENUM jsonpatch_errc@*/
/*@ENUM op_type@*/
/*@ENUM state_type@*/
enum { OP_TEST = 1, OP_ADD, OP_REMOVE, OP_REPLACE, OP_MOVE, OP_COPY, OP_OTHER };
enum { P_LOC = 1, P_NPATH, P_FROM };          /* which pointer a call addresses: the operation's path, its definite form, the "from" pointer */
enum { V_NULL = 0, V_NEW = 1000 };            /* value tokens: Json::null(), the operation's "value" member; values read by get are 1, 2, ... */
static int vx_op; static bool vx_has_op, vx_has_path, vx_has_value, vx_has_from, vx_test_differs;
static uint8_t vx_state;                      /* unwinder.state */
/* monitor */
static int vx_tok; static bool vx_get_valid; static int vx_get_path, vx_get_tok;
static int vx_pend_kind, vx_pend_path, vx_pend_tok; static bool vx_pending; static unsigned vx_edits, vx_pushes; static bool vx_after_failure;
static bool vx_fail(int* ec) { if (nondet_bool()) { int e = nondet_int(); __CPROVER_assume(e != 0); *ec = e; return true; } return false; }
static void vx_pre(void) { __CPROVER_assert(!vx_pending, "[C15] the inverse of a successful edit is pushed onto the undo stack before anything else is done"); }
static int vx_get(int path, int* ec) { vx_pre(); if (vx_fail(ec)) return -1; vx_tok++; vx_get_valid = true; vx_get_path = path; vx_get_tok = vx_tok; return vx_tok; }
/* a value of the document taken by reference and moved out of (Json& r = jsonpointer::get(...); Json v(std::move(r));): the location is left moved-from
 * (null) - a change of the document without an undo entry - until it is replaced by a new value */
static bool vx_hollow; static int vx_hollow_path;
static int vx_move_out(int tok) { __CPROVER_assert(vx_get_valid && tok == vx_get_tok, "[C15] only the value just read is moved out"); vx_hollow = true; vx_hollow_path = vx_get_path; return tok; }
static unsigned vx_def_stamp; /* number of edits made when the definite form was computed */
static int vx_definite(int path) { (void)path; vx_def_stamp = vx_edits; return P_NPATH; }
static void vx_edit(int inverse, int path, bool needs_old)
{
    if (needs_old) __CPROVER_assert(vx_get_valid && vx_get_path == path, "[C15] the old value at a location is read, from that location and with no edit in between, before it is replaced or removed");
    vx_pending = true; vx_pend_kind = inverse; vx_pend_path = path; vx_pend_tok = needs_old ? vx_get_tok : V_NULL; vx_get_valid = false; vx_edits++;
}
static void vx_add_if_absent(int path, int val, int* ec) { (void)val; vx_pre();
    if (path == P_NPATH) __CPROVER_assert(vx_def_stamp == vx_edits, "[C15] the definite form of a location ('-' resolved to an index) is computed on the document the insertion is applied to: for move, after the removal (RFC 6902 4.4: remove, then add)");
    if (vx_fail(ec)) return; vx_edit(op_type_remove, path, false); }
static void vx_replace(int path, int val, int* ec) { (void)val; vx_pre(); if (vx_fail(ec)) return; vx_edit(op_type_replace, path, true); if (vx_hollow && vx_hollow_path == path) vx_hollow = false; }
static void vx_remove(int path, int* ec) { vx_pre(); if (vx_fail(ec)) return; vx_edit(op_type_add, path, true); }
static void vx_push(int kind, int path, int tok)
{
    __CPROVER_assert(vx_pending && kind == vx_pend_kind && path == vx_pend_path && (kind == op_type_remove || tok == vx_pend_tok),
                     "[C15] the undo entry pushed is the inverse of the edit just made: same location; add / replace carry the value that was there before");
    vx_pending = false; vx_pushes++;
}
/* unwinder replay */
static size_t vx_n, vx_k; static uint8_t* vx_ekind; static size_t vx_replayed, vx_next_expected; static bool vx_order_bad, vx_stop; static unsigned vx_k_replays; static uint8_t vx_k_kind;
static size_t vx_last;
static void vx_replay(size_t idx, int kind, int* ec) { if (vx_replayed > 0 && idx >= vx_last) vx_order_bad = true; vx_last = idx; if (idx == vx_k) { vx_k_replays++; vx_k_kind = (uint8_t)kind; } vx_replayed++; if (vx_stop) { *ec = 1; } }
/* definite_path: location = vx_ntok reference tokens; the parent (all tokens but the last) resolves or not, to an array of vx_parent_size elements or to something else */
static size_t vx_ntok, vx_copied, vx_parent_size, vx_appended_value; static bool vx_last_is_dash, vx_parent_ok, vx_parent_is_array, vx_returned_same, vx_returned_new, vx_appended, vx_copy_bad;
static void vx_copy_token(size_t idx) { if (idx != vx_copied) vx_copy_bad = true; vx_copied++; }
/*@FUNC definite_path@*/
/*@FUNC patch_operation@*/
/*@FUNC unwinder_replay@*/
#ifdef VX_CBMC
static int vx_ec;
void h_patch_operation(void)
{
    vx_op = nondet_int(); vx_has_op = nondet_bool(); vx_has_path = nondet_bool(); vx_has_value = nondet_bool(); vx_has_from = nondet_bool(); vx_test_differs = nondet_bool(); vx_state = nondet_u8();
    vx_tok = 0; vx_get_valid = false; vx_pending = false; vx_edits = 0; vx_pushes = 0; vx_ec = 0; vx_def_stamp = 0; vx_hollow = false;
    patch_operation(&vx_ec);
}
void h_definite_path(void)
{
    vx_ntok = nondet_size(); __CPROVER_assume(vx_ntok <= 100000000); vx_last_is_dash = nondet_bool(); vx_parent_ok = nondet_bool(); vx_parent_is_array = nondet_bool(); vx_parent_size = nondet_size();
    vx_copied = 0; vx_returned_same = false; vx_returned_new = false; vx_appended = false; vx_copy_bad = false;
    definite_path();
}
void h_unwinder_replay(void)
{
    vx_n = nondet_size(); vx_k = nondet_size(); __CPROVER_assume(vx_n <= 100000000 && vx_k < vx_n); vx_ekind = malloc(vx_n); __CPROVER_assume(vx_ekind != 0);
    vx_state = nondet_u8(); vx_replayed = 0; vx_order_bad = false; vx_stop = false; vx_k_replays = 0;
    unwinder_replay();
}
#endif
