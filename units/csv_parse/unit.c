/* unit csv_parse: the field-level states of basic_csv_parser::parse_some (program slices of the state switch; one step = one pass for the current character):
 * inside and after a quoted field (quoted_string, escaped_value, between_values) and inside an unquoted field (unquoted_string).  The quoted states are compared
 * with the S-CSV decoder of the interior of a quoted field -- the same decoder the encoder's escape_string is proved against (unit csv_quote), which is what makes
 * the two halves inverse. */
#include "vx_common.h"
#include "spec_csv.h"
#include <stdlib.h>
/*@ENUM csv_parse_state@*/
/*@ENUM csv_errc@*/
struct csv_parser { uint8_t state_; bool more_, trim_leading_, trim_trailing_, ignore_empty_values_; char quote_char_, quote_escape_char_, field_delimiter_, subfield_delimiter_;
                    const char* input_ptr_; size_t column_; size_t line_; bool ignore_empty_lines_; };
static char* vx_in; static size_t vx_n, vx_off;
/* buffer_ and the events of one step */
static size_t vx_buflen; static unsigned vx_pushes, vx_clears, vx_before_values, vx_trims; static char vx_pushed;
static void vx_buf_push(char c) { vx_pushed = c; vx_pushes++; vx_buflen++; }
static void vx_buf_clear(void) { vx_clears++; vx_buflen = 0; }
static void vx_before_value(int* ec_p) { vx_before_values++; if (nondet_bool()) { int e = nondet_int(); __CPROVER_assume(e != 0); *ec_p = e; } }
static unsigned vx_begin_records, vx_state_pushes; static size_t vx_header_line_offset; static bool vx_mode_header;   /* header_line_offset_; stack_.back() == csv_mode::header */
static void vx_begin_record(int* ec_p) { (void)ec_p; vx_begin_records++; }   /* begin_record(visitor, ec): the begin_array / begin_object event of a row */
static unsigned vx_opens_subfields; static bool vx_mode_subfields;   /* before_value(..., true) calls; stack_.back() == csv_mode::subfields */
static int vx_spec_r;   /* what the S-CSV decoder does with this character in this state */
static void vx_trim(void) { vx_trims++; size_t k = nondet_size(); __CPROVER_assume(k <= vx_buflen); vx_buflen = k; }
/*@FUNC quoted_states@*/
/*@FUNC unquoted_string@*/
/*@FUNC expect_record@*/
static unsigned vx_end_quoted, vx_err_handler_calls; static bool vx_default_arm; static size_t vx_column_index;
/*@FUNC eof_quoted@*/
/*@ENUM csv_mapping_kind@*/
static uint8_t vx_mapping_kind; static size_t vx_ncols, vx_offset, vx_key_index; static unsigned vx_keys, vx_end_values, vx_skips; static bool vx_cursor_mode;
/*@FUNC before_value_data@*/
/*@FUNC m_columns_unquoted@*/
/*@FUNC m_columns_quoted@*/
/*@ENUM csv_mode@*/
static int vx_mode, vx_level, vx_mark_level; static unsigned vx_lists_open, vx_begin_arrays, vx_end_arrays, vx_end_unquoted, vx_end_quoted2;
/*@FUNC field_states@*/
/*@ENUM csv_column_type@*/
struct vx_ct { uint8_t col_type; size_t level; size_t rep_count; }; static struct vx_ct vx_types[8]; static size_t vx_ntypes, vx_depth;
/*@FUNC end_value_repeat@*/
#ifdef VX_CBMC
static struct csv_parser vx_p; static int vx_ec;
static void setup(void)
{
    vx_n = nondet_size(); vx_off = nondet_size(); __CPROVER_assume(vx_off < vx_n && vx_n <= 100000000);
    vx_in = malloc(vx_n); __CPROVER_assume(vx_in != 0);
    vx_p.state_ = nondet_u8(); vx_p.more_ = true; vx_p.trim_leading_ = nondet_bool(); vx_p.trim_trailing_ = nondet_bool(); vx_p.ignore_empty_values_ = nondet_bool();
    vx_p.quote_char_ = (char)nondet_u8(); vx_p.quote_escape_char_ = (char)nondet_u8(); vx_p.field_delimiter_ = (char)nondet_u8(); vx_p.subfield_delimiter_ = (char)nondet_u8();
    vx_p.input_ptr_ = vx_in + vx_off; vx_p.column_ = nondet_size(); __CPROVER_assume(vx_p.column_ <= SIZE_MAX / 2);
    vx_buflen = nondet_size(); __CPROVER_assume(vx_buflen <= SIZE_MAX / 2); vx_pushes = 0; vx_clears = 0; vx_before_values = 0; vx_trims = 0; vx_ec = 0; vx_opens_subfields = 0; vx_mode_subfields = nondet_bool();
    vx_p.line_ = nondet_size(); __CPROVER_assume(vx_p.line_ <= SIZE_MAX / 2); vx_p.ignore_empty_lines_ = nondet_bool(); vx_begin_records = 0; vx_state_pushes = 0;
}
void h_quoted_states(void) { setup(); quoted_states(&vx_p, &vx_ec); }
void h_eof_quoted(void) { setup(); vx_end_quoted = 0; vx_default_arm = false; vx_column_index = nondet_size(); __CPROVER_assume(vx_column_index <= SIZE_MAX / 2); uint8_t st = nondet_u8(); __CPROVER_assume(st == csv_parse_state_quoted_string || st == csv_parse_state_escaped_value || st == csv_parse_state_before_last_quoted_field || st == csv_parse_state_between_values); vx_p.state_ = st; eof_quoted(&vx_p, &vx_ec); }
void h_field_states(void) { setup(); vx_mode = nondet_int(); vx_level = nondet_int(); vx_mark_level = nondet_int(); vx_lists_open = nondet_u8(); vx_mapping_kind = nondet_u8(); vx_cursor_mode = nondet_bool(); vx_column_index = nondet_size(); vx_begin_arrays = 0; vx_end_arrays = 0; vx_end_unquoted = 0; vx_end_quoted2 = 0;
    __CPROVER_assume(vx_column_index <= SIZE_MAX / 2 && vx_level >= 0 && vx_level <= 1000000 && vx_lists_open <= 1 && (vx_mode == csv_mode_header || vx_mode == csv_mode_data || vx_mode == csv_mode_subfields) && ((vx_mode == csv_mode_subfields) == (vx_lists_open == 1)));
    uint8_t st = nondet_u8(); __CPROVER_assume(st >= csv_parse_state_before_unquoted_string && st <= csv_parse_state_before_last_quoted_field_tail); vx_p.state_ = st; field_states(&vx_p, &vx_ec); }
void h_end_value_repeat(void) { setup(); vx_level = nondet_int(); vx_mark_level = nondet_int(); vx_mapping_kind = nondet_u8(); vx_cursor_mode = nondet_bool(); vx_ntypes = nondet_size(); vx_offset = nondet_size(); vx_column_index = nondet_size(); vx_depth = nondet_size(); vx_end_arrays = 0; vx_lists_open = nondet_u8();
    for (int i = 0; i < 8; ++i) { vx_types[i].col_type = nondet_u8(); vx_types[i].level = nondet_size(); vx_types[i].rep_count = nondet_size(); }
    end_value_repeat(&vx_p); }
void h_before_value_data(void) { setup(); vx_mapping_kind = nondet_u8(); vx_ncols = nondet_size(); vx_offset = nondet_size(); vx_column_index = nondet_size(); vx_cursor_mode = nondet_bool(); vx_keys = 0; __CPROVER_assume(vx_column_index >= vx_offset && vx_column_index <= SIZE_MAX / 4 && vx_ncols <= SIZE_MAX / 4 && vx_offset <= SIZE_MAX / 4); before_value_data(&vx_p, &vx_ec, nondet_bool()); }
void h_m_columns_unquoted(void) { setup(); vx_end_values = 0; vx_skips = 0; m_columns_unquoted(&vx_p); }
void h_m_columns_quoted(void) { setup(); vx_end_values = 0; vx_skips = 0; m_columns_quoted(&vx_p); }
void h_expect_record(void) { setup(); vx_header_line_offset = nondet_size(); vx_mode_header = nondet_bool(); __CPROVER_assume(vx_header_line_offset <= SIZE_MAX / 2); vx_p.state_ = csv_parse_state_expect_record; vx_buflen = 0; expect_record(&vx_p, &vx_ec); }
void h_unquoted_string(void) { setup(); unquoted_string(&vx_p, &vx_ec); }
#endif
