// replay for unit bigint_shift: bigints of 1..5 limbs (all ones, single bits, alternating patterns, the counterexample's limbs) shifted left and right by
// 0, 1, 31, 32, 63, 64, 65, 127, 128, 129, 200 bits with the real operators, against a bit-vector reference; built with UBSan, so a shift by 64 aborts.
#include <jsoncons/json.hpp>
#include <jsoncons/utility/bigint.hpp>
#include "replay_util.hpp"
using jsoncons::bigint;
typedef std::vector<int> bits;   // little endian
static bits to_bits(const std::vector<uint64_t>& limbs) { bits b; for (uint64_t w : limbs) for (int i = 0; i < 64; ++i) b.push_back((int)((w >> i) & 1)); return b; }
static std::string hex_of(bits b) { while (b.size() % 4) b.push_back(0); std::string s; for (size_t i = b.size(); i >= 4; i -= 4) { int d = b[i-1]*8 + b[i-2]*4 + b[i-3]*2 + b[i-4]; s.push_back("0123456789ABCDEF"[d]); } size_t p = s.find_first_not_of('0'); return p == std::string::npos ? "0" : s.substr(p); }
static bigint from_limbs(const std::vector<uint64_t>& limbs) { bigint r(0); for (size_t i = limbs.size(); i-- > 0; ) { r *= bigint((uint64_t)1 << 32); r *= bigint((uint64_t)1 << 32); r += bigint(limbs[i]); } return r; }
static std::string norm(std::string s) { for (auto& c : s) c = (char)toupper(c); size_t p = s.find_first_not_of('0'); return p == std::string::npos ? "0" : s.substr(p); }
int main(int argc, char** argv)
{
    if (argc < 3) return 2;
    vx_replay_inputs in; if (!in.load(argv[2])) return 2;
    std::vector<std::vector<uint64_t>> vals;
    for (int n = 1; n <= 5; ++n) { vals.push_back(std::vector<uint64_t>(n, ~0ull)); std::vector<uint64_t> a(n, 0); a[n-1] = 1; vals.push_back(a); a[n-1] = 0x8000000000000000ull; vals.push_back(a); std::vector<uint64_t> p(n); for (int i = 0; i < n; ++i) p[i] = 0xA5A5F00F12345678ull * (i + 1) + i; vals.push_back(p); }
    vals.push_back({in.u64("vx_cell_i", 7), in.u64("vx_cell_i1", 9)});
    std::vector<size_t> ks = {0, 1, 31, 32, 63, 64, 65, 127, 128, 129, 200}; size_t ck = in.u64("k", 0); if (ck <= 1000) ks.push_back(ck);
    int bad = 0, total = 0; std::string first;
    for (auto& v : vals) for (size_t k : ks) {
        bits b = to_bits(v); bigint x = from_limbs(v);
        if (norm(x.to_string_hex()) != hex_of(b)) { if (!bad) first = "construction of the test value failed"; ++bad; continue; }
        bits l(k, 0); l.insert(l.end(), b.begin(), b.end()); bits r(b.begin() + std::min(k, b.size()), b.end());
        bigint xl = x; xl <<= k; bigint xr = x; xr >>= k; total += 2;
        if (norm(xl.to_string_hex()) != hex_of(l)) { if (!bad) first = "0x" + hex_of(b) + " << " + std::to_string(k) + " gives 0x" + norm(xl.to_string_hex()); ++bad; }
        if (norm(xr.to_string_hex()) != hex_of(r)) { if (!bad) first = "0x" + hex_of(b) + " >> " + std::to_string(k) + " gives 0x" + norm(xr.to_string_hex()); ++bad; }
    }
    if (bad) VX_REPRO(bad << " of " << total << " shifts differ from the bit-vector reference, first: " << first);
    VX_NOREPRO("all " << total << " shifts agree with the bit-vector reference, without sanitizer reports");
}
