# U-DEC, U-ITOA, L-INT-RT (DESIGN 6): decimal text <-> 64-bit integers
from core import FuncSpec, CopySpec, EnumSpec, Harness, INF

R = 'include/jsoncons/utility/read_number.hpp'
W = 'include/jsoncons/utility/write_number.hpp'

DIGITS = CopySpec('digit_tables', R, r'JSONCONS_INLINE_CONSTEXPR uint8_t DIGIT_TYPE_ZERO', r'constexpr bool is_sign\(wchar_t d\)', include_end=False,
                  rules=[(r'JSONCONS_INLINE_CONSTEXPR', 'static const', 7), (r'constexpr bool', 'static bool', 7)], common=True)

MK = [(r'to_number_result<CharT>\(([^,()]+), std::errc::(\w+)\)', r'vx_mk_result(\1, VX_ERRC_\2)', 1, 12),
      (r'to_number_result<CharT>\(([^,()]+), std::errc\{\}\)', r'vx_mk_result(\1, VX_ERRC_ok)', 1, 4),
      (r'\bconst CharT\*', 'const char*', 0, 6)]

# Ghost binding and lockstep Horner ghost (DESIGN 5):
#   vx_s/vx_len: the string; vx_k: length of its digit prefix (computed by S-INT in the harness);
#   vx_h (128 bit): Horner value  h_0 = 0, h_{i+1} = 10*h_i + digit(vx_s[i])  of the vx_h_i characters the code has folded in so far.
# The ghost reads its digits from the input string by its own index and is stepped in lockstep with the code (R6 insertions);
# each step asserts num == h_i and h_i < 10^i and then assumes them, so the induction over the digit loop is explicit and every
# step is a small obligation (a 19-fold chained multiplier equivalence does not terminate on the SAT back end).
BIND = 's == vx_s && length == vx_len && __CPROVER_w_ok(value_p, sizeof(*value_p)) && vx_h == 0 && vx_h_i == 0'
ALLDIG = '(vx_k == vx_len)'
RES = '__CPROVER_return_value'
DEC_U64 = [
    ('requires', BIND),
    ('assigns', '*value_p, vx_h, vx_h_i'),
    ('ensures', '[C04][C14] empty string is invalid_argument', 'vx_len == 0 ==> %s.ec == VX_ERRC_invalid_argument' % RES),
    ('ensures', '[C04][C14][C01] success: every character is a digit, all of them were folded in, and the result is exactly the Horner (mathematical) value of the string, which fits 64 bits',
     '%s.ec == VX_ERRC_ok ==> (%s && vx_len >= 1 && vx_h_i == vx_len && vx_h <= (spec_u128)UINT64_MAX && *value_p == (uint64_t)vx_h && %s.ptr == vx_s + vx_len)' % (RES, ALLDIG, RES)),
    ('ensures', '[C04] a numeral of i <= 19 digits is below 10^i', '(%s.ec == VX_ERRC_ok && vx_len <= 19) ==> vx_h < (spec_u128)SPEC_POW10[vx_len]' % RES),
    ('ensures', '[C04][C14] a digit string of 1..19 digits is always accepted (10^19 - 1 < 2^64)',
     '(%s && vx_len >= 1 && vx_len <= 19) ==> %s.ec == VX_ERRC_ok' % (ALLDIG, RES)),
    ('ensures', '[C04] a 20-digit string is accepted iff its value is at most 2^64-1, and otherwise result_out_of_range (never wrapped)',
     '(%s && vx_len == 20) ==> (vx_h_i == 20 && ((%s.ec == VX_ERRC_ok) == (vx_h <= (spec_u128)UINT64_MAX)) && (%s.ec == VX_ERRC_ok || %s.ec == VX_ERRC_result_out_of_range))' % (ALLDIG, RES, RES, RES)),
    ('ensures', '[C04] a digit string of 21 or more digits is result_out_of_range (without leading zero its value is >= 10^20 > 2^64-1)',
     '(%s && vx_len >= 21) ==> %s.ec == VX_ERRC_result_out_of_range' % (ALLDIG, RES)),
    ('ensures', '[C04][C14] a string containing a non-digit is never accepted',
     '(vx_len >= 1 && !%s) ==> %s.ec != VX_ERRC_ok' % (ALLDIG, RES)),
    ('ensures', '[C14] a non-digit among the first 19 characters is invalid_argument at that character',
     '(vx_len >= 1 && vx_k < VX_MIN(vx_len, 19)) ==> (%s.ec == VX_ERRC_invalid_argument && %s.ptr == vx_s + vx_k)' % (RES, RES)),
    ('ensures', '[C04] the output is untouched on error', '%s.ec != VX_ERRC_ok ==> *value_p == __CPROVER_old(*value_p)' % RES),
]
# signed: ghost vx_neg = (first char is '-'); vx_s/vx_len/vx_k describe the digits after the optional sign
BIND_I = 's == vx_s - vx_neg && length == vx_len + vx_neg && __CPROVER_w_ok(value_p, sizeof(*value_p)) && vx_h == 0 && vx_h_i == 0 && (length >= 1 ==> vx_neg == (s[0] == \'-\')) && (length == 0 ==> !vx_neg)'
DEC_I64 = [
    ('requires', BIND_I),
    ('assigns', '*value_p, vx_h, vx_h_i'),
    ('ensures', '[C04] empty string is invalid_argument', 'length == 0 ==> %s.ec == VX_ERRC_invalid_argument' % RES),
    ('ensures', '[C04][C01] success: optional minus then digits only, and the result is exactly +/- the Horner value, which lies in [-2^63, 2^63-1]',
     '%s.ec == VX_ERRC_ok ==> (%s && vx_len >= 1 && vx_h_i == vx_len && %s.ptr == vx_s + vx_len && (vx_neg ? (vx_h <= ((spec_u128)1 << 63) && (uint64_t)*value_p == (uint64_t)0 - (uint64_t)vx_h) : (vx_h <= (spec_u128)INT64_MAX && *value_p == (int64_t)(uint64_t)vx_h)))' % (RES, ALLDIG, RES)),
    ('ensures', '[C04] up to 18 digits after the optional sign are always accepted',
     '(%s && vx_len >= 1 && vx_len <= 18) ==> %s.ec == VX_ERRC_ok' % (ALLDIG, RES)),
    ('ensures', '[C04] 19 or 20 digits: accepted iff the value is in range, otherwise result_out_of_range (INT64_MIN accepted, never wrapped)',
     '(%s && (vx_len == 19 || vx_len == 20)) ==> (vx_h_i == vx_len && ((%s.ec == VX_ERRC_ok) == (vx_neg ? vx_h <= ((spec_u128)1 << 63) : vx_h <= (spec_u128)INT64_MAX)) && (%s.ec == VX_ERRC_ok || %s.ec == VX_ERRC_result_out_of_range))' % (ALLDIG, RES, RES, RES)),
    ('ensures', '[C04] 21 or more digits are result_out_of_range', '(%s && vx_len >= 21) ==> %s.ec == VX_ERRC_result_out_of_range' % (ALLDIG, RES)),
    ('ensures', '[C04] anything else (non-digit, lone minus) is never accepted',
     '(length >= 1 && (vx_len == 0 || !%s)) ==> %s.ec != VX_ERRC_ok' % (ALLDIG, RES)),
    ('ensures', '[C04] the output is untouched on error', '%s.ec != VX_ERRC_ok ==> *value_p == __CPROVER_old(*value_p)' % RES),
]


def from_integer(suffix, ctype, contract):
    return FuncSpec('from_integer_' + suffix, W, r'\bfrom_integer\(Integer value, Result& result\)', count=1,
                    csig='size_t from_integer_%s(%s value)' % (suffix, ctype), contract=contract,
                    prologue='VX_G_BEGIN(value);',
                    rules=[(r'using char_type = typename Result::value_type;', '', 1),
                           (r'\bchar_type\b', 'char', 5),
                           (r'result\.push_back\(', 'vx_sink_push(', 2),
                           # R6 ghost insertions (add ghost code only): record the value before each digit and check the digit character
                           (r'\bdo\s*\{', 'do { VX_G_DIGIT(value);', 2),
                           (r'(\*p\+\+ = static_cast<char>\(48 [-+] \(?value % 10\)?\);)', r'\1 VX_G_CHAR(p[-1]);', 2),
                           (r'JSONCONS_ASSERT\(p != last\);', 'JSONCONS_ASSERT(p != last); VX_G_END(value);', 1)])


SINKS = '((const char*)vx_sink)'
RES = '__CPROVER_return_value'
GA = 'vx_sink_n, __CPROVER_object_whole(vx_sink), __CPROVER_object_whole(vx_gv), __CPROVER_object_whole(vx_gd), vx_g_i, vx_g_n'
def _link_clause(i):
    return ('ensures', '[C04][C01] ghost record, digit position %d: |value_i| == 10 * |value_{i+1}| + digit_i with digit_i <= 9, and output character n-1-i (after the sign) is that digit' % i,
            '((%d < vx_g_n) ==> (vx_gv[%d] == 10 * vx_gv[%d] + vx_gd[%d] && vx_gd[%d] <= 9 && vx_gv[%d] <= UINT64_MAX / 10 && vx_gd[%d] <= UINT64_MAX - 10 * vx_gv[%d] && vx_sink[vx_sink_n - 1 - %d] == 48 + vx_gd[%d]))'
            % (i, i, i + 1, i, i, i + 1, i, i + 1, i, i))


def GHOST_POST(mag, neg):
    return [
        ('ensures', '[C04][C01] ghost record: n digits were generated, one output character each, most significant first; the record starts at |value| and ends at 0',
         'vx_g_n >= 1 && vx_g_n <= 20 && vx_sink_n == vx_g_n + (' + neg + ') && vx_gv[0] == (' + mag + ') && vx_gv[vx_g_n] == 0'),
    ] + [_link_clause(i) for i in range(20)]


ITOA_I64 = [
    ('requires', 'vx_sink_n == 0'),
    ('assigns', GA),
    ('ensures', '[C04][C01][C08] at most 20 characters, return value = characters pushed', '%s == vx_sink_n && vx_sink_n >= 1 && vx_sink_n <= 20' % RES),
    ('ensures', '[C04][C01] negative values print as minus sign followed by canonical digits (RFC 8259 int: no leading zero)',
     'value < 0 ==> (vx_sink[0] == \'-\' && spec_canonical_digits(%s + 1, vx_sink_n - 1))' % SINKS),
    ('ensures', '[C04][C01][C08] non-negative values print as canonical digits only (no sign, no leading zero)',
     'value >= 0 ==> spec_canonical_digits(%s, vx_sink_n)' % SINKS),
    ('ensures', '[C04][C01] zero prints as "0"', 'value == 0 ==> (vx_sink_n == 1 && vx_sink[0] == \'0\')'),
] + GHOST_POST('value < 0 ? (uint64_t)0 - (uint64_t)value : (uint64_t)value', 'value < 0 ? 1 : 0')
ITOA_U64 = [
    ('requires', 'vx_sink_n == 0'),
    ('assigns', GA),
    ('ensures', '[C04][C01][C08] at most 20 characters, return value = characters pushed', '%s == vx_sink_n && vx_sink_n >= 1 && vx_sink_n <= 20' % RES),
    ('ensures', '[C04][C01][C08] the text is canonical digits (RFC 8259 int: no leading zero)', 'spec_canonical_digits(%s, vx_sink_n)' % SINKS),
    ('ensures', '[C04][C01] zero prints as "0"', 'value == 0 ==> (vx_sink_n == 1 && vx_sink[0] == \'0\')'),
] + GHOST_POST('value', '0')

SPECS = [
    DIGITS,
    FuncSpec('dec_to_integer_u64', R, r'!ext_traits::integer_limits<T>::is_signed,to_number_result<CharT>>::type\s*dec_to_integer\(const CharT\* s, std::size_t length, T& value\)', count=1,
             csig='struct to_number_result dec_to_integer_u64(const char* s, size_t length, uint64_t* value_p)',
             contract=DEC_U64, aliases={'value': '(*value_p)'},
             rules=[(r'num = static_cast<T>\(d\) \+ num\*10;', 'num = static_cast<T>(d) + num*10; VX_H_STEP(num);', 1),
                    (r'if \(is_digit\(\*cur\)\)\s*\{', 'if (is_digit(*cur)) { VX_H_LAST();', 1),
                    (r'num \+= d;', 'num += d; VX_H_CHECK(num);', 1)] + MK + [(r'\(ext_traits::integer_limits<T>::max\)\(\)', 'UINT64_MAX', 1),
                         (r'static_cast<std::size_t>\(ext_traits::integer_limits<T>::digits10\)', '((size_t)19)', 1),
                         (r'static_cast<T>\(', '(uint64_t)(', 1),
                         (r'\bT (max_value|max_value_div_10|num)\b', r'uint64_t \1', 3)]),
    FuncSpec('dec_to_integer_i64', R, r'&& ext_traits::integer_limits<T>::is_signed,to_number_result<CharT>>::type\s*dec_to_integer\(const CharT\* s, std::size_t length, T& value\)', count=1,
             csig='struct to_number_result dec_to_integer_i64(const char* s, size_t length, int64_t* value_p)',
             contract=DEC_I64, aliases={'value': '(*value_p)'},
             rules=[(r'to_number_result<CharT>\(([^,()]+), std::errc::(\w+)\)', r'vx_mk_result(\1, VX_ERRC_\2)', 3),
                    (r'to_number_result<CharT>\(ru\.ptr, ru\.ec\)', 'vx_mk_result(ru.ptr, ru.ec)', 1),
                    (r'to_number_result<CharT>\(([^,()]+), std::errc\{\}\)', r'vx_mk_result(\1, VX_ERRC_ok)', 2),
                    (r'ru\.ec != std::errc\{\}', 'ru.ec != VX_ERRC_ok', 1),
                    (r'using U = typename ext_traits::make_unsigned<T>::type;', '', 1),
                    (r'\bU num;', 'uint64_t num;', 1),
                    (r'auto ru = dec_to_integer\(s, length, num\);', 'struct to_number_result ru = dec_to_integer_u64(s, length, &num);', 1),
                    (r'static_cast<U>\(', '(uint64_t)(', 2), (r'static_cast<T>\(', '(int64_t)(', 2),
                    (r'\(ext_traits::integer_limits<T>::lowest\)\(\)', 'INT64_MIN', 1),
                    (r'\(ext_traits::integer_limits<T>::max\)\(\)', 'INT64_MAX', 1),
                    (r'\bT\(1\)', '((int64_t)1)', 1), (r'\bU\(1\)', '((uint64_t)1)', 1), (r'\bU\(0\)', '((uint64_t)0)', 1)]),
    from_integer('i64', 'int64_t', ITOA_I64),
    from_integer('u64', 'uint64_t', ITOA_U64),
]

US = ['--unwindset', 'spec_digit_prefix.0:25,spec_dec_value.0:25,spec_dec_value64.0:21,spec_pos_value64.0:21']
LINKS = [Harness('itoa_%s_link_%d' % (sfx, k), 'h_itoa_' + sfx, enforce='from_integer_' + sfx, method='WU(22)', unwind=22, flags=US,
                 defines=['VX_K=%d' % k], only=[r'ghost: \|value\| == 10'], props=['C04', 'C01'], timeout=600, min_obligations=1,
                 note='ghost link fact of digit position %d (assumed in the other itoa/lemma harnesses)' % k)
         for sfx in ('u64', 'i64') for k in range(1, 21)]
HARNESSES = LINKS + [
    Harness('dec_u64', 'h_dec_u64', enforce='dec_to_integer_u64', method='WU(22)', unwind=22, flags=US, props=['C04', 'C14'], timeout=600),
    Harness('dec_i64', 'h_dec_i64', enforce='dec_to_integer_i64', replace=['dec_to_integer_u64'], method='WU(22)', unwind=22, flags=US, props=['C04'], timeout=600),
    Harness('itoa_i64', 'h_itoa_i64', enforce='from_integer_i64', method='WU(22)', unwind=22, split=True, flags=US, props=['C04', 'C01', 'C08'], timeout=300),
    Harness('itoa_u64', 'h_itoa_u64', enforce='from_integer_u64', method='WU(22)', unwind=22, split=True, flags=US, props=['C04', 'C01', 'C08'], timeout=300)
] + [Harness('lemma_int_rt_n%d' % n, 'h_int_rt', replace=['from_integer_i64', 'from_integer_u64'], method='WU(22)', unwind=22, flags=US, solver='cadical', props=['C04', 'C01'], timeout=1500,
             defines=['VX_H_lemma_int_rt', 'VX_N=%d' % n],
             note='L-INT-RT, case n=%d digits: dec_to_integer(from_integer(v)) == v, signed and unsigned: real extracted body of dec_to_integer, from_integer through its contract (ghost digit record), explicit induction over the digits' % n)
     for n in range(1, 21)]
