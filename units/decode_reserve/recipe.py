# unit decode_reserve (C10, C05): the five reserve_storage helpers of reflect/decode_traits.hpp, which pre-size a std::vector / container from the length that a
# begin_array event announces - a length the input merely claims (CBOR / MessagePack / UBJSON array heads): the reservation is bounded whatever is claimed (F43)
from core import FuncSpec, Harness
D = 'include/jsoncons/reflect/decode_traits.hpp'
C = [('requires', 'vx_reserves == 0'), ('assigns', 'vx_reserves, vx_reserved'),
     ('ensures', '[C10] memory is not committed in proportion to a length the input merely claims: at most a fixed number of elements is reserved ahead (the rest grows with the elements actually read), and never more than was announced',
      'vx_reserves <= 1 && (vx_reserves == 1 ==> (vx_reserved <= new_cap && vx_reserved <= 65536))')]
FNS = [FuncSpec('reserve_storage_%d' % i, D, r'static void reserve_storage\(std::true_type, T& v, std::size_t new_cap\)', ordinal=i, csig='void reserve_storage_%d(size_t new_cap)' % i, contract=C,
                rules=[(r'v\.reserve\(', 'vx_reserve(', 1)]) for i in range(5)]
SPECS = []
GROUPS = {'fns': FNS}
SITE_CHECKS = [{'file': D, 'pattern': r'\.reserve\(', 'count': 5, 'props': ['C10'], 'what': 'decode_traits.hpp reserves container capacity only inside the five reserve_storage helpers under contract'}]
HARNESSES = [Harness(f.name, 'h_' + f.name, enforce=f.name, method='LF', props=['C10', 'C05'], note='the container is its reserve() call; new_cap is the announced length, any size_t') for f in FNS]
