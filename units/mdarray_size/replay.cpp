// replay for unit mdarray_size: CBOR multi-dimensional arrays (RFC 8746 tags 40 and 1040) whose extents contain zeros in every position, ones, large values
// whose product wraps, and matching / non-matching element counts, through decode_cbor (bytes and stream): every input is either decoded or refused through
// the error channel; built with UBSan / ASan (a division by zero is reported by the sanitizer and fails the replay).
#include <jsoncons/json.hpp>
#include <jsoncons_ext/cbor/cbor.hpp>
#include "replay_util.hpp"
#include <sstream>
using namespace jsoncons;
typedef std::vector<uint8_t> bytes;
static void put_uint(bytes& b, uint64_t v) { if (v < 24) b.push_back((uint8_t)v); else if (v <= 0xff) { b.push_back(0x18); b.push_back((uint8_t)v); } else if (v <= 0xffffffffull) { b.push_back(0x1a); for (int i = 3; i >= 0; --i) b.push_back((uint8_t)(v >> (8 * i))); } else { b.push_back(0x1b); for (int i = 7; i >= 0; --i) b.push_back((uint8_t)(v >> (8 * i))); } }
int main(int argc, char** argv)
{
    if (argc < 3) return 2;
    const uint64_t ext[] = {0, 1, 2, 3, 0xffffffffull, 0x100000000ull, 0xffffffffffffffffull};
    int bad = 0, total = 0; std::string first;
    for (int tag : {40, 1040}) for (uint64_t e0 : ext) for (uint64_t e1 : ext) for (int third = 0; third < 3; ++third) for (int typed = 0; typed < 2; ++typed) {
        bytes b; if (tag == 40) { b.push_back(0xd8); b.push_back(40); } else { b.push_back(0xd9); b.push_back(0x04); b.push_back(0x10); }
        b.push_back(0x82); b.push_back((uint8_t)(0x82 + (third ? 1 : 0))); put_uint(b, e0); put_uint(b, e1); if (third) put_uint(b, third == 1 ? 0 : 2);
        unsigned __int128 n = (unsigned __int128)e0 * e1 * (third == 0 ? 1 : third == 1 ? 0 : 2); size_t cnt = n <= 6 ? (size_t)n : 2;
        if (typed) { b.push_back(0xd8); b.push_back(0x40); b.push_back((uint8_t)(0x40 + cnt)); for (size_t i = 0; i < cnt; ++i) b.push_back((uint8_t)i); } else { b.push_back((uint8_t)(0x80 + cnt)); for (size_t i = 0; i < cnt; ++i) b.push_back((uint8_t)i); }
        for (int mode = 0; mode < 2; ++mode) { ++total;
            try { std::error_code ec; json_decoder<json> dec; if (mode == 0) { cbor::cbor_bytes_reader r(b, dec); r.read(ec); } else { std::string s(b.begin(), b.end()); std::istringstream is(s); cbor::cbor_stream_reader r(is, dec); r.read(ec); } (void)ec; }
            catch (const jsoncons::json_exception&) { }
            catch (const std::exception& e) { if (!bad) first = std::string("foreign exception ") + e.what(); ++bad; } }
    }
    if (bad) VX_REPRO(bad << " of " << total << " multi-dimensional arrays are not handled through the error channel, first: " << first);
    VX_NOREPRO("all " << total << " multi-dimensional arrays are decoded or refused through the error channel, without sanitizer reports");
}
