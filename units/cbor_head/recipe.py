# U-CBOR-HEAD-R / U-CBOR-HEAD-W / L-CBOR-RT  (DESIGN 6, binary formats)
from core import FuncSpec, CopySpec, EnumSpec, Harness, INF
import common_specs as cs

P = 'include/jsoncons_ext/cbor/cbor_parser.hpp'
E = 'include/jsoncons_ext/cbor/cbor_encoder.hpp'
D = 'include/jsoncons_ext/cbor/cbor_detail.hpp'

ALIASES_P = {'ec': '(*ec_p)', 'more_': '(self->more_)'}
RULES_P = [
    (r'cbor_errc::(\w+)', r'cbor_errc_\1', 1, 12),
    (r'source_\.read\(', 'vx_source_read(', 0, 8),
    (r'binary::big_to_native<uint(16|32|64)_t>\(', r'big_to_native_u\1(', 3),
]

# --- contracts -------------------------------------------------------------
# ghost: vx_src[0..vx_src_n) is the input, vx_src_pos the cursor; OLD(pos) is named p0 via __CPROVER_old.
AVAIL = '(vx_src_n - __CPROVER_old(vx_src_pos))'
B0 = 'vx_src_at(__CPROVER_old(vx_src_pos))'
INFO = '(%s & 0x1f)' % B0
NB = 'spec_cbor_arg_bytes(%s)' % INFO

READ_U64_CONTRACT = [
    ('requires', 'vx_src_pos <= vx_src_n && vx_src_n <= VX_SRC_CAP && *ec_p == 0'),
    ('assigns', 'vx_src_pos, *ec_p, self->more_'),
    ('ensures', '[C07][C05] empty input is reported as unexpected_eof',
     '%s == 0 ==> *ec_p == cbor_errc_unexpected_eof' % AVAIL),
    ('ensures', '[C07] argument in the initial byte (info 0..23): value = info, one byte consumed',
     '(%s >= 1 && %s < 24) ==> (*ec_p == 0 && __CPROVER_return_value == %s && vx_src_pos == __CPROVER_old(vx_src_pos) + 1)' % (AVAIL, INFO, INFO)),
    ('ensures', '[C07][C06] argument in 1/2/4/8 following bytes (info 24..27), any width accepted: value = big-endian value, exactly 1+n bytes consumed',
     '(%s >= 1 && %s > 0 && %s >= 1 + (size_t)%s) ==> (*ec_p == 0 && __CPROVER_return_value == vx_src_be(__CPROVER_old(vx_src_pos) + 1, %s) && vx_src_pos == __CPROVER_old(vx_src_pos) + 1 + (size_t)%s)'
     % (AVAIL, NB, AVAIL, NB, NB, NB)),
    ('ensures', '[C07][C05][C03] truncated argument is reported as unexpected_eof',
     '(%s >= 1 && %s > 0 && %s < 1 + (size_t)%s) ==> *ec_p == cbor_errc_unexpected_eof' % (AVAIL, NB, AVAIL, NB)),
    ('ensures', '[C07] reserved additional information 28..30 and 31 (no argument) are not decoded to a value',
     '(%s >= 1 && %s < 0) ==> *ec_p != 0' % (AVAIL, NB)),
    ('ensures', '[C05] the cursor never passes the end of the input', 'vx_src_pos <= vx_src_n && vx_src_pos >= __CPROVER_old(vx_src_pos)'),
    ('ensures', '[C07] an error stops the parser (and nothing else touches the run flag)', '(*ec_p != 0 ==> self->more_ == 0) && (*ec_p == 0 ==> self->more_ == __CPROVER_old(self->more_))'),
]

MAJOR = '(%s >> 5)' % B0
ARG = '(%s < 24 ? (uint64_t)%s : vx_src_be(__CPROVER_old(vx_src_pos) + 1, %s))' % (INFO, INFO, NB)
COMPLETE = '(%s >= 1 && %s >= 0 && %s >= 1 + (size_t)%s)' % (AVAIL, NB, AVAIL, NB)
READ_I64_CONTRACT = [
    ('requires', 'vx_src_pos <= vx_src_n && vx_src_n <= VX_SRC_CAP && *ec_p == 0'),
    ('assigns', 'vx_src_pos, *ec_p, self->more_'),
    ('ensures', '[C07][C05] empty input is reported as unexpected_eof', '%s == 0 ==> *ec_p == cbor_errc_unexpected_eof' % AVAIL),
    ('ensures', '[C07][C06] major type 1: value = -1 - n for every argument width when representable in int64',
     '(%s == 1 && %s && spec_cbor_nint_fits_i64(%s)) ==> (*ec_p == 0 && __CPROVER_return_value == spec_cbor_nint_i64(%s) && vx_src_pos == __CPROVER_old(vx_src_pos) + 1 + (size_t)%s)'
     % (MAJOR, COMPLETE, ARG, ARG, NB)),
    ('ensures', '[C07][C06] major type 1 with n > 2^63-1 (-1-n not an int64) is never returned as some int64 without an error',
     '(%s == 1 && %s && !spec_cbor_nint_fits_i64(%s)) ==> *ec_p != 0' % (MAJOR, COMPLETE, ARG)),
    ('ensures', '[C07] major type 0 within int64: value = n',
     '(%s == 0 && %s && %s <= (uint64_t)INT64_MAX) ==> (*ec_p == 0 && __CPROVER_return_value == (int64_t)%s)' % (MAJOR, COMPLETE, ARG, ARG)),
    ('ensures', '[C07] major type 0 beyond int64 is never returned as some int64 without an error',
     '(%s == 0 && %s && %s > (uint64_t)INT64_MAX) ==> *ec_p != 0' % (MAJOR, COMPLETE, ARG)),
    ('ensures', '[C07][C05][C03] truncated argument is reported as unexpected_eof',
     '(%s <= 1 && %s >= 1 && %s > 0 && %s < 1 + (size_t)%s) ==> *ec_p == cbor_errc_unexpected_eof' % (MAJOR, AVAIL, NB, AVAIL, NB)),
    ('ensures', '[C07] reserved additional information 28..31 is not decoded to a value',
     '(%s <= 1 && %s >= 1 && %s < 0) ==> *ec_p != 0' % (MAJOR, AVAIL, NB)),
    ('ensures', '[C05] the cursor never passes the end of the input', 'vx_src_pos <= vx_src_n && vx_src_pos >= __CPROVER_old(vx_src_pos)'),
    ('ensures', '[C07] an error stops the parser (and nothing else touches the run flag)', '(*ec_p != 0 ==> self->more_ == 0) && (*ec_p == 0 ==> self->more_ == __CPROVER_old(self->more_))'),
]

HEAD = 'spec_cbor_head((uint8_t)(major_type >> 5), length, vx_exp)'
WRITE_CONTRACT = [
    ('requires', 'vx_sink_n == 0 && (major_type & 0x1f) == 0'),
    ('assigns', 'vx_sink_n, __CPROVER_object_whole(vx_sink), __CPROVER_object_whole(vx_exp)'),
    ('ensures', '[C06][C08] the sink receives exactly the RFC 8949 head of (major,length) in preferred (shortest) form: length',
     'vx_sink_n == (size_t)%s' % HEAD),
    ('ensures', '[C06][C08] ... and content (byte 0..8)',
     ' && '.join('(vx_sink_n > %d ==> vx_sink[%d] == vx_exp[%d])' % (i, i, i) for i in range(9))),
]

SPECS = [
    EnumSpec('cbor_errc', 'include/jsoncons_ext/cbor/cbor_error.hpp'),
    CopySpec('cbor_0x00_0x17', D, r'#define JSONCONS_EXT_CBOR_0x00_0x17', r'case 0x17\s*\n', include_end=True),
    FuncSpec('get_additional_information_value', P, r'static uint8_t get_additional_information_value\(uint8_t type\)',
             csig='static uint8_t get_additional_information_value(uint8_t type)'),
    FuncSpec('get_major_type', P, r'static jsoncons::cbor::detail::cbor_major_type get_major_type\(uint8_t type\)',
             csig='static uint8_t get_major_type(uint8_t type)',
             rules=[(r'static_cast<jsoncons::cbor::detail::cbor_major_type>\(value\)', '(uint8_t)(value)', 1)]),
    FuncSpec('read_uint64', P, r'uint64_t read_uint64\(std::error_code& ec\)', count=1,
             csig='uint64_t read_uint64(struct cbor_parser* self, int* ec_p)',
             contract=READ_U64_CONTRACT, aliases=ALIASES_P, rules=RULES_P),
    FuncSpec('read_int64', P, r'int64_t read_int64\(std::error_code& ec\)', count=1,
             csig='int64_t read_int64(struct cbor_parser* self, int* ec_p)',
             contract=READ_I64_CONTRACT, aliases=ALIASES_P,
             rules=RULES_P + [
                 (r'auto ch = source_\.peek\(\);', 'struct vx_peek_result ch = vx_source_peek();', 1),
                 (r'source_\.ignore\(', 'vx_source_ignore(', 1),
                 (r'jsoncons::cbor::detail::cbor_major_type major_type', 'uint8_t major_type', 1),
                 (r'jsoncons::cbor::detail::cbor_major_type::(\w+)', r'cbor_major_type_\1', 2),
                 (r'auto x = big_to_native_u(16|32|64)\(', r'uint\1_t x = big_to_native_u\1(', 3),
                 (r'read_uint64\(ec\)', 'read_uint64(self, ec_p)', 1),
             ]),
    EnumSpec('cbor_major_type', D),
    FuncSpec('write_type_and_length', E, r'void write_type_and_length\(uint8_t major_type, uint64_t length\)', count=1,
             csig='void write_type_and_length(uint8_t major_type, uint64_t length)',
             contract=WRITE_CONTRACT,
             rules=[(r'sink_\.push_back\(', 'vx_sink_push(', 6),
                    (r'binary::native_to_big\(\s*\(uint(16|32|64)_t\)\(length\),\s*std::back_inserter\(sink_\)\)', r'native_to_big_u\1((uint\1_t)(length))', 3)],
             ),
]
# rules see the text before R1_COMMON runs, so static_cast is still there: use a pre-pass
for s in SPECS:
    if getattr(s, 'name', '') == 'write_type_and_length':
        s.rules = [(r'static_cast<uint(16|32|64)_t>\(length\)', r'(uint\1_t)(length)', 3)] + list(s.rules)

BIGNUM_CONTRACT = [
    ('requires', 'vx_sink_n == 0 && vx_tags == 0'),
    ('assigns', 'vx_sink_n, __CPROVER_object_whole(vx_sink), __CPROVER_object_whole(vx_exp), vx_tags, vx_tag'),
    ('ensures', '[C06][C08] a big number is written as tag 2 (non-negative) or tag 3 (negative) ...', 'vx_tags == 1 && vx_tag == (vx_is_neg ? 3 : 2)'),
    ('ensures', '[C06][C08] ... followed by a byte-string head (major type 2) that denotes exactly the number of magnitude bytes, in the RFC 8949 preferred form: length',
     'vx_sink_n == (size_t)spec_cbor_head(2, vx_len, vx_exp)'),
    ('ensures', '[C06][C08] ... and content (byte 0..8)', ' && '.join('(vx_sink_n > %d ==> vx_sink[%d] == vx_exp[%d])' % (i, i, i) for i in range(9))),
]
INT_W_CONTRACT = lambda signed: [
    ('requires', 'vx_sink_n == 0'),
    ('assigns', 'vx_sink_n, __CPROVER_object_whole(vx_sink), __CPROVER_object_whole(vx_exp)'),
    ('ensures', '[C06][C08] an integer is written as major type 0 with argument v (v >= 0) or major type 1 with argument -1-v (v < 0), preferred (shortest) form: length',
     'vx_sink_n == (size_t)spec_cbor_head(%s, vx_exp)' % ('(value < 0 ? 1 : 0), (value < 0 ? (uint64_t)(-1 - value) : (uint64_t)value)' if signed else '0, value')),
    ('ensures', '[C06][C08] ... and content', ' && '.join('(vx_sink_n > %d ==> vx_sink[%d] == vx_exp[%d])' % (i, i, i) for i in range(9))),
]
SPECS += [
    FuncSpec('write_bignum_head', E, r'void write_bignum\(bigint& n\)', count=1, csig='void write_bignum_head(void)', contract=BIGNUM_CONTRACT,
             rules=[# program slice: the bigint part (sign handling, write_bytes_be) is not under contract; what is verified is the head written for its byte length
                    (r'\A.*?std::size_t length = data\.size\(\);', 'bool is_neg = vx_is_neg; size_t length = vx_len;', 1),
                    # dropped here: the stringref index bookkeeping of the same function, which is under contract in unit cbor_strref (write_bignum)
                    (r'if \(pack_strings_ && length >= jsoncons::cbor::detail::min_length_for_stringref\(next_stringref_\)\)\s*\{\s*\+\+next_stringref_;\s*\}', '', 1),
                    (r'write_tag\((2|3)\);', r'vx_write_tag(\1);', 2),
                    (r'static_cast<uint(8|16|32|64)_t>\(0x(4|5)([0-9a-b]) \+ length\)', r'(uint\1_t)(0x\2\3 + length)', 1),
                    (r'binary::native_to_big\(static_cast<uint8_t>\(([^,]+?)\),\s*std::back_inserter\(sink_\)\)', r'vx_sink_push((uint8_t)(\1))', 5),
                    (r'binary::native_to_big\(\(uint8_t\)\(([^;]+?)\),\s*std::back_inserter\(sink_\)\)', r'vx_sink_push((uint8_t)(\1))', 1),
                    (r'binary::native_to_big\(static_cast<uint(16|32|64)_t>\(length\),\s*std::back_inserter\(sink_\)\)', r'native_to_big_u\1((uint\1_t)(length))', 3),
                    (r'uint64_t\(length\)', '(uint64_t)(length)', 1),
                    (r'for \(auto c : data\)\s*\{\s*sink_\.push_back\(c\);\s*\}', 'VX_PAYLOAD(length);', 1)]),
    FuncSpec('write_uint64_value', E, r'void write_uint64_value\(uint64_t value\)', count=1, csig='void write_uint64_value(uint64_t value)', contract=INT_W_CONTRACT(False)),
    FuncSpec('write_int64_value', E, r'void write_int64_value\(int64_t value\)', count=1, csig='void write_int64_value(int64_t value)', contract=INT_W_CONTRACT(True)),
]
GROUPS = {'binary': cs.binary_group()}

SAFE = ['C05']
HARNESSES = [
    Harness('read_uint64', 'h_read_uint64', enforce='read_uint64', method='LF', props=['C07', 'C06', 'C05', 'C03'], unwind=9),
    Harness('read_int64', 'h_read_int64', enforce='read_int64', method='LF', props=['C07', 'C06', 'C05', 'C03'], unwind=9),
    Harness('write_type_and_length', 'h_write', enforce='write_type_and_length', method='LF', props=['C06', 'C08', 'C05'], unwind=9),
    Harness('write_bignum_head', 'h_bignum_head', enforce='write_bignum_head', method='LF', props=['C06', 'C08'], unwind=9),
    Harness('write_uint64_value', 'h_write_u64', enforce='write_uint64_value', replace=['write_type_and_length'], method='LF', props=['C06', 'C08'], unwind=9),
    Harness('write_int64_value', 'h_write_i64', enforce='write_int64_value', replace=['write_type_and_length'], method='LF', props=['C06', 'C08'], unwind=9),
    Harness('lemma_roundtrip', 'h_roundtrip', enforce=None, method='LF', props=['C06'], unwind=9, dfcc=False,
            note='L-CBOR-RT: read_uint64(write_type_and_length(m,x)) == x for all m,x over the real extracted bodies'),
    Harness('byte_swap', 'h_byte_swap', enforce=None, method='LF', props=['C06', 'C07'], dfcc=False,
            note='U-BSWAP: byte_swap / native_to_big / big_to_native are byte-order conversions and inverse pairs'),
]
TEMPLATE = 'unit.c'
