// replay for unit json_structure: the RFC 8259 action table (spec/spec_json.h) against the real basic_json_parser, exhaustively over the table's domain:
// every grammar position x parent container x next character (256) x {allow_trailing_comma} x {allow_comments}.  A prefix text brings the real parser to the
// position, the character is fed, and the real parser's verdict (error code or none) is compared with the table's.  The counterexample's tuple is reported first.
#include <jsoncons/json.hpp>
#include "replay_util.hpp"
extern "C" {
#include "spec_json.h"
}
using namespace jsoncons;
static const char* prefix_of(int g, int parent)
{
    switch (g) {
    case G_VALUE_ROOT: return parent == P_ROOT ? "" : nullptr;
    case G_VALUE: return parent == P_ARRAY ? "[true," : parent == P_OBJECT ? "{\"a\":" : nullptr;
    case G_VALUE_OR_END: return parent == P_ARRAY ? "[" : nullptr;
    case G_NAME_OR_END: return parent == P_OBJECT ? "{" : nullptr;
    case G_NAME: return parent == P_OBJECT ? "{\"a\":true," : nullptr;
    case G_COLON: return parent == P_OBJECT ? "{\"a\"" : nullptr;
    case G_SEP_OR_END: return parent == P_ARRAY ? "[true" : parent == P_OBJECT ? "{\"a\":true" : nullptr;
    }
    return nullptr;
}
static int run(const std::string& text, bool tc, bool cm)
{
    auto opt = json_options{}.allow_trailing_comma(tc).allow_comments(cm);
    json_parser parser(opt); json_decoder<json> dec; std::error_code ec;
    parser.update(text.data(), text.size());
    parser.parse_some(dec, ec);
    return ec ? ec.value() : 0;
}
int main(int argc, char** argv)
{
    if (argc < 3) return 2;
    vx_replay_inputs in; in.load(argv[2]);
    spec_json_errs e; e.illegal_control_character = (int)json_errc::illegal_control_character; e.syntax_error = (int)json_errc::syntax_error; e.unexpected_rbrace = (int)json_errc::unexpected_rbrace;
    e.unexpected_rbracket = (int)json_errc::unexpected_rbracket; e.expected_value = (int)json_errc::expected_value; e.single_quote = (int)json_errc::single_quote; e.extra_comma = (int)json_errc::extra_comma;
    e.expected_key = (int)json_errc::expected_key; e.expected_colon = (int)json_errc::expected_colon; e.expected_comma_or_rbracket = (int)json_errc::expected_comma_or_rbracket;
    e.expected_comma_or_rbrace = (int)json_errc::expected_comma_or_rbrace; e.unexpected_character = (int)json_errc::unexpected_character;
    int bad = 0, total = 0; std::string first;
    for (int g = G_VALUE_ROOT; g <= G_SEP_OR_END; ++g) for (int parent = P_ROOT; parent <= P_OBJECT; ++parent) {
        const char* pre = prefix_of(g, parent); if (!pre) continue;
        for (int tc = 0; tc < 2; ++tc) for (int cm = 0; cm < 2; ++cm) for (int c = 0; c < 256; ++c) {
            int act = spec_json_action(g, c, parent, tc, &e);
            std::string text = std::string(pre) + (char)c;
            int want, got;
            if (act == A_SLASH) { // decided by the next character
                for (const char* nx : {"*", "/", "x"}) {
                    want = (nx[0] == 'x') ? (int)json_errc::syntax_error : cm ? 0 : (int)json_errc::illegal_comment; got = run(text + nx, tc, cm); ++total;
                    if (got != want) { if (!bad) first = "after \"" + std::string(pre) + "\" the text \"/" + nx + "\" gives error " + std::to_string(got) + ", expected " + std::to_string(want); ++bad; }
                }
                continue;
            }
            want = act >= A_ERR ? act - A_ERR : (act == A_END_OBJECT || act == A_END_ARRAY) ? spec_json_close_error(parent, c, &e) : 0;
            got = run(text, tc, cm); ++total;
            if (got != want) { if (!bad) first = "after \"" + std::string(pre) + "\" character " + std::to_string(c) + " (allow_trailing_comma=" + std::to_string(tc) + ") gives error " + std::to_string(got) + ", the table says " + std::to_string(want); ++bad; }
        }
    }
    if (bad) VX_REPRO(bad << " of " << total << " (position, character, options) entries differ from RFC 8259, first: " << first);
    VX_NOREPRO("the real parser agrees with the RFC 8259 action table on all " << total << " entries");
}
