/* unit utf8: UTF-8 validation, decoding and encoding (utility/unicode_traits.hpp) */
#define VX_SINK_CAP 8
#define VX_BUF_CAP 16
#include "vx_common.h"
#include "model_sink.h"
#include "spec_utf8.h"

struct unicode_result { const char* ptr; int ec; };
struct unicode_result32 { const uint32_t* ptr; int ec; };
static struct unicode_result vx_ures(const char* p, int ec) { struct unicode_result r; r.ptr = p; r.ec = ec; return r; }
static struct unicode_result32 vx_ures32(const uint32_t* p, int ec) { struct unicode_result32 r; r.ptr = p; r.ec = ec; return r; }

/* ghost input buffer */
static uint8_t* vx_buf; static size_t vx_n, vx_off;
static uint8_t vx_exp[4];
static uint8_t vx_at(size_t i) { return i < vx_n ? vx_buf[i] : 0; }
/* is there a complete well-formed sequence at offset i ? */
static bool vx_wf_at(size_t i)
{
    if (i >= vx_n) return false;
    int l = spec_utf8_len(vx_buf[i]);
    return l >= 1 && vx_n - i >= (size_t)l && spec_wf_utf8(vx_at(i), vx_at(i + 1), vx_at(i + 2), vx_at(i + 3), l);
}
/* ghost for validate: every advance must cover exactly one well-formed sequence, contiguously */
static bool vx_chunks_ok; static size_t vx_chunks_end;
#define VX_ADV(it, len) do { size_t vx_o = (size_t)((const uint8_t*)(it) - vx_buf); \
    __CPROVER_assert(vx_o == vx_chunks_end, "[C02][C08] validate advances contiguously"); \
    __CPROVER_assert(vx_wf_at(vx_o) && (size_t)spec_utf8_len(vx_buf[vx_o]) == (size_t)(len), "[C02][C07][C08] validate advances over exactly one well-formed UTF-8 sequence"); \
    if (!(vx_o == vx_chunks_end && vx_wf_at(vx_o) && (size_t)spec_utf8_len(vx_buf[vx_o]) == (size_t)(len))) vx_chunks_ok = false; \
    vx_chunks_end = vx_o + (len); } while (0)

/*@ENUM unicode_errc@*/
/*@ENUM strict_flag@*/
/*@COPY unicode_tables@*/
/*@COPY repeat8@*/
/*@FUNC is_legal_utf8@*/
/*@FUNC to_codepoint@*/
/*@FUNC convert_utf32_to_utf8@*/
/*@FUNC validate_utf8@*/

#ifdef VX_CBMC
#include <stdlib.h>
static void setup_buf(void)
{
    vx_n = nondet_size(); __CPROVER_assume(vx_n <= VX_BUF_CAP);
    vx_buf = malloc(vx_n ? vx_n : 1);
    __CPROVER_assume(vx_buf != 0);
    vx_off = nondet_size(); __CPROVER_assume(vx_off <= vx_n);
}
void h_is_legal(void)
{
    uint8_t bytes[6]; size_t length = nondet_size();
    is_legal_utf8(bytes, length);
}
void h_tocp(void)
{
    setup_buf(); uint32_t ch; int flags = nondet_int();
    to_codepoint((const char*)vx_buf + vx_off, (const char*)vx_buf + vx_n, &ch, flags);
}
void h_fromcp(void)
{
    uint32_t cp = nondet_u32(); vx_sink_n = 0;
    convert_utf32_to_utf8(&cp, 1, strict_flag_strict);
}
void h_validate(void)
{
    setup_buf(); vx_chunks_ok = true; vx_chunks_end = 0;
    validate_utf8((const char*)vx_buf, vx_n);
}
void h_utf8_rt(void)
{
    uint32_t cp = nondet_u32(); __CPROVER_assume(spec_is_scalar(cp));
    vx_sink_n = 0;
    struct unicode_result32 r = convert_utf32_to_utf8(&cp, 1, strict_flag_strict);
    __CPROVER_assert(r.ec == unicode_errc_success && vx_sink_n >= 1 && vx_sink_n <= 4, "[C01] convert(utf32->utf8) accepts every scalar value");
    uint32_t back = 0;
    struct unicode_result q = to_codepoint((const char*)vx_sink, (const char*)vx_sink + vx_sink_n, &back, strict_flag_strict);
    __CPROVER_assert(q.ec == unicode_errc_success && back == cp && q.ptr == (const char*)vx_sink + vx_sink_n, "[C01] to_codepoint(convert(cp)) == cp");
}
#endif
