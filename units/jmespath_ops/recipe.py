# U-JM-OPS (C13): truthiness, logical and comparison operators of JMESPath
from core import FuncSpec, CopySpec, EnumSpec, Harness
J = 'include/jsoncons_ext/jmespath/jmespath.hpp'
RV = '__CPROVER_return_value'
FALSELIKE = '((%s.kind == VK_ARRAY && %s.empty) || (%s.kind == VK_OBJECT && %s.empty) || (%s.kind == VK_STRING && %s.empty) || (%s.kind == VK_BOOL && !%s.bval) || %s.kind == VK_NULL)'
def fl(x): return FALSELIKE % ((x,) * 9)
VAL = [(r'ref\.is_array\(\)', '(ref->kind == VK_ARRAY)', 0, 2), (r'ref\.is_object\(\)', '(ref->kind == VK_OBJECT)', 0, 2), (r'ref\.is_string\(\)', '(ref->kind == VK_STRING)', 0, 2), (r'ref\.is_bool\(\)', '(ref->kind == VK_BOOL)', 0, 2), (r'ref\.is_null\(\)', '(ref->kind == VK_NULL)', 0, 2),
       (r'ref\.as_string_view\(\)\.size\(\) == 0', 'ref->empty', 0, 1), (r'ref\.as_string_view\(\)\.empty\(\)', 'ref->empty', 0, 1), (r'ref\.empty\(\)', 'ref->empty', 0, 3), (r'ref\.as_bool\(\)', 'ref->bval', 0, 2)]
OPR = [(r'is_false\((lhs|val)\)', r'is_false(&vx_lhs)', 0, 1), (r'is_true\(lhs\)', '(!is_false(&vx_lhs))', 0, 1), (r'return rhs->evaluate\(val, context, ec\);', '{ vx_rhs_evals++; vx_result = R_RHS_EVAL; return; }', 0, 1),
       (r'return lhs;', '{ vx_result = R_LHS; return; }', 0, 1), (r'context\.true_value\(\)', 'R_TRUE', 0, 1), (r'context\.false_value\(\)', 'R_FALSE', 0, 1), (r'return context\.null_value\(\);', '{ vx_result = R_NULL; return; }', 0, 1),
       (r'lhs\.is_number\(\) && rhs\.is_number\(\)', '(vx_lhs.kind == VK_NUMBER && vx_rhs.kind == VK_NUMBER)', 0, 1),
       (r'\blhs (==|!=|<=|>=|<|>) rhs\b', r'(vx_cmp \1 0)', 0, 1), (r'return (\(?[^;{}]+\? R_TRUE : R_FALSE);', r'{ vx_result = (\1); return; }', 0, 1)]
ASG = ('assigns', 'vx_result, vx_rhs_evals')
A_UN = r'reference evaluate\(reference val, eval_context<Json>& context, std::error_code&\) const override'
A_LOG = r'reference evaluate\(reference lhs, reference val, const expression_type\* rhs, eval_context<Json>& context, std::error_code& ec\) const override'
A_BIN = r'reference evaluate\(reference lhs, reference rhs, eval_context<Json>& context, std::error_code&\) const override'
def op(cname, anchor, cls, post, what):
    return FuncSpec(cname, J, anchor, after=r'class %s final' % cls, csig='void %s(void)' % cname,
                    contract=[('requires', 'vx_result == R_NONE && vx_rhs_evals == 0 && vx_lhs.kind <= VK_OBJECT && vx_rhs.kind <= VK_OBJECT && vx_cmp >= -1 && vx_cmp <= 1'), ASG, ('ensures', '[C13] ' + what, post)], rules=OPR)
L = fl('vx_lhs')
def cmpop(c, cls, sym, word):
    return op(c, A_BIN, cls, '(vx_lhs.kind == VK_NUMBER && vx_rhs.kind == VK_NUMBER) ? (vx_result == ((vx_cmp %s 0) ? R_TRUE : R_FALSE)) : vx_result == R_NULL' % sym, '%s is defined for two numbers and is null for anything else' % word)
OPS = [
    op('op_not', A_UN, 'not_expression', 'vx_result == (%s ? R_TRUE : R_FALSE)' % L, '!a is true iff a is false-like'),
    op('op_or', A_LOG, 'or_operator', '%s ? (vx_result == R_RHS_EVAL && vx_rhs_evals == 1) : (vx_result == R_LHS && vx_rhs_evals == 0)' % L, 'a || b is a when a is true-like (b is not evaluated), otherwise b'),
    op('op_and', A_LOG, 'and_operator', '%s ? (vx_result == R_LHS && vx_rhs_evals == 0) : (vx_result == R_RHS_EVAL && vx_rhs_evals == 1)' % L, 'a && b is a when a is false-like (b is not evaluated), otherwise b'),
    op('op_eq', A_BIN, 'eq_operator', 'vx_result == ((vx_cmp == 0) ? R_TRUE : R_FALSE)', '== is value equality, for values of any type'),
    op('op_ne', A_BIN, 'ne_operator', 'vx_result == ((vx_cmp != 0) ? R_TRUE : R_FALSE)', '!= is the negation of =='),
    cmpop('op_lt', 'lt_operator', '<', '<'), cmpop('op_lte', 'lte_operator', '<=', '<='), cmpop('op_gt', 'gt_operator', '>', '>'), cmpop('op_gte', 'gte_operator', '>=', '>='),
]
SPECS = [
    FuncSpec('is_false', J, r'static bool is_false\(reference ref\)', count=1, csig='bool is_false(const struct jval* ref)', rules=VAL,
             contract=[('assigns', ''), ('ensures', '[C13] the false-like values are exactly: empty list, empty object, empty string, false, null', '(%s != 0) == %s' % (RV, fl('(*ref)')))]),
]
GROUPS = {'ops': OPS}
NAMES = {'op_not': 'not', 'op_or': 'or', 'op_and': 'and', 'op_eq': 'eq', 'op_ne': 'ne', 'op_lt': 'lt', 'op_lte': 'lte', 'op_gt': 'gt', 'op_gte': 'gte'}
HARNESSES = [Harness('is_false', 'h_is_false', enforce='is_false', method='LF', props=['C13'])] + [Harness(o.name, 'h_' + NAMES[o.name], enforce=o.name, method='LF', props=['C13']) for o in OPS]
