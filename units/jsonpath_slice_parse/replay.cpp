// replay for unit jsonpath_slice_parse: JSONPath expressions with two bracket selectors (slices with every combination of present/absent start, stop, step,
// and indices), as a union "$[s1,s2]" and chained "$[s1][s2]".  Oracle: composition of the real single-selector queries -- "$[s1,s2]" selects what "$[s1]"
// selects followed by what "$[s2]" selects; "$[s1][s2]" selects "$[s2]" of every element that "$[s1]" selects.  (Single-selector expressions start from a
// fresh parser, so they do not depend on what an earlier selector left behind.)  The counterexample's bounds are added to the candidates.
#include <jsoncons/json.hpp>
#include <jsoncons_ext/jsonpath/jsonpath.hpp>
#include "replay_util.hpp"
using namespace jsoncons;
int main(int argc, char** argv)
{
    if (argc < 3) return 2;
    vx_replay_inputs in; in.load(argv[2]);
    std::vector<std::string> bounds = {"", "0", "1", "2", "-1", "-2", "3"};
    int64_t cb = in.i64("vx_bufval", 1); if (cb > -6 && cb < 6) bounds.push_back(std::to_string(cb));
    std::vector<std::string> sel;
    for (auto& a : bounds) for (auto& b : bounds) { sel.push_back(a + ":" + b); for (const char* st : {"", "1", "2", "-1"}) sel.push_back(a + ":" + b + ":" + st); }
    for (const char* i : {"0", "1", "-1"}) sel.push_back(i);
    json row(json_array_arg); for (int k = 0; k < 5; ++k) row.push_back(k);
    json doc(json_array_arg); for (int r = 0; r < 4; ++r) { json x(json_array_arg); for (int k = 0; k < 5; ++k) x.push_back(r * 10 + k); doc.push_back(x); }
    int bad = 0, total = 0; std::string first;
    auto q = [](const json& d, const std::string& e) { return jsonpath::json_query(d, e); };
    for (size_t i = 0; i < sel.size(); i += 1) for (size_t j = (i * 7) % 5; j < sel.size(); j += 5) {
        const std::string &s1 = sel[i], &s2 = sel[j];
        try {
            json u = q(row, "$[" + s1 + "," + s2 + "]"); json want(json_array_arg);
            json p1 = q(row, "$[" + s1 + "]"), p2 = q(row, "$[" + s2 + "]");
            for (auto& v : p1.array_range()) want.push_back(v); for (auto& v : p2.array_range()) want.push_back(v);
            ++total; if (u != want) { if (!bad) first = "$[" + s1 + "," + s2 + "] on [0,1,2,3,4] selects " + u.to_string() + ", its parts select " + want.to_string(); ++bad; }
            json c = q(doc, "$[" + s1 + "][" + s2 + "]"); json want2(json_array_arg);
            json d1 = q(doc, "$[" + s1 + "]");
            for (auto& e : d1.array_range()) { json d2 = q(e, "$[" + s2 + "]"); for (auto& v : d2.array_range()) want2.push_back(v); }
            ++total; if (c != want2) { if (!bad) first = "$[" + s1 + "][" + s2 + "] selects " + c.to_string() + ", its parts select " + want2.to_string(); ++bad; }
        } catch (const std::exception& e) { ++total; if (!bad) first = std::string(e.what()) + " for " + s1 + " / " + s2; ++bad; }
    }
    if (bad) VX_REPRO(bad << " of " << total << " two-selector expressions differ from the composition of their parts, first: " << first);
    VX_NOREPRO("all " << total << " two-selector expressions select what their parts select");
}
