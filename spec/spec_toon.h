/* S-TOON: TOON specification (github.com/toon-format/spec), section "Strings and keys / escaping": inside a quoted string or key exactly five escape
 * sequences are valid:  \\ -> backslash, \" -> double quote, \n -> LF, \r -> CR, \t -> TAB;  any other backslash sequence is an error and decoders
 * MUST reject it; the characters backslash, double quote, LF, CR, TAB never appear raw inside quotes.  A row of delimited values consists of cells
 * separated by the active delimiter; a cell is either a quoted string (from a double quote to the next unescaped double quote) or unquoted text
 * that contains neither a double quote nor the delimiter.  Not derived from jsoncons. */
#ifndef SPEC_TOON_H
#define SPEC_TOON_H
/* decoder of the interior of a quoted string, one character at a time: returns the decoded character, -1 after a backslash (nothing yet), -2 invalid */
static inline int spec_toon_unescape_step(int* st, int c)
{
    c &= 0xff;
    if (*st == 0) {
        if (c == '\\') { *st = 1; return -1; }
        if (c == '"' || c == '\n' || c == '\r' || c == '\t') return -2;    /* must be escaped */
        return c;
    }
    *st = 0;
    switch (c) { case '\\': return '\\'; case '"': return '"'; case 'n': return '\n'; case 'r': return '\r'; case 't': return '\t'; default: return -2; }
}
/* scanner of a row of delimited values */
enum spec_toon_row_state { ROW_START = 0, ROW_UNQ = 1, ROW_INQ = 2, ROW_ESC = 3, ROW_AFTER = 4, ROW_BAD = 5 };
#endif
