// replay for unit cbor_item: decodes, with the real jsoncons CBOR decoder, the counterexample item (when the trace has its bytes) and a corpus of items, in
// several contexts (bare, inside an array, inside a stringref namespace); a foreign exception, a sanitizer report or a scalar value that differs from an
// independent RFC 8949 reading REPRODUCES
#include <jsoncons/json.hpp>
#include <jsoncons_ext/cbor/cbor.hpp>
#include "replay_util.hpp"
#include <cstring>
#include <cmath>
using namespace jsoncons;
typedef std::vector<uint8_t> bytes_t;
static int bad = 0;
static std::string hex(const bytes_t& b) { std::string s; char t[4]; for (auto c : b) { snprintf(t, sizeof t, "%02x", c); s += t; } return s; }
// independent reading of a scalar item (major 0, 1, 7 simple/float without tags): returns false when not such an item or not well-formed
static bool ref_scalar(const bytes_t& b, json& out)
{
    if (b.empty()) return false;
    unsigned m = b[0] >> 5, i = b[0] & 31; size_t n = i < 24 ? 0 : i == 24 ? 1 : i == 25 ? 2 : i == 26 ? 4 : i == 27 ? 8 : 99;
    if (n == 99 || b.size() != 1 + n) return false;
    uint64_t a = i; if (n) { a = 0; for (size_t k = 0; k < n; ++k) a = (a << 8) | b[1 + k]; }
    if (m == 0) { out = json(a); return true; }
    if (m == 1) { if (a > (uint64_t)INT64_MAX) return false; out = json((int64_t)(-1 - (int64_t)a)); return true; }
    if (m == 7) {
        if (i == 20) { out = json(false); return true; } if (i == 21) { out = json(true); return true; } if (i == 22 || i == 23) { out = json::null(); return true; }
        if (i == 26) { uint32_t u = (uint32_t)a; float f; std::memcpy(&f, &u, 4); out = json((double)f); return true; }
        if (i == 27) { double d; std::memcpy(&d, &a, 8); out = json(d); return true; }
    }
    return false;
}
static void try_decode(const bytes_t& doc, const char* ctx, const json* expect)
{
    try {
        std::error_code ec; json_decoder<json> dec; cbor::cbor_bytes_reader rd(doc, dec); rd.read(ec);
        if (!ec && expect) { json v = dec.get_result();
            bool same = (v == *expect) || v.to_string() == expect->to_string();   // (NaN prints as null on both sides)
            if (!same) { std::cout << ctx << " " << hex(doc) << ": decoded " << v.to_string() << ", RFC 8949 says " << expect->to_string() << "\n"; ++bad; } }
        else if (ec && expect) { std::cout << ctx << " " << hex(doc) << ": well-formed item rejected: " << ec.message() << "\n"; ++bad; }
    } catch (const json_exception&) { /* documented channel */ }
    catch (const std::exception& e) { std::cout << ctx << " " << hex(doc) << ": foreign exception escaped the decoder: " << e.what() << "\n"; ++bad; }
}
static void one(const bytes_t& item)
{
    json ex; bool has = ref_scalar(item, ex);
    try_decode(item, "bare", has ? &ex : nullptr);
    bytes_t a = {0x81}; a.insert(a.end(), item.begin(), item.end());
    json exa(json_array_arg); if (has) exa.push_back(ex);
    try_decode(a, "in-array", has ? &exa : nullptr);
    // stringref namespace with k registered strings, then the item under tag 25
    for (int k : {0, 1, 2, 24}) {
        bytes_t d = {0xd9, 0x01, 0x00, (uint8_t)(0x98), (uint8_t)(k + 1)};
        for (int j = 0; j < k; ++j) { d.push_back(0x64); d.push_back('a'); d.push_back('b'); d.push_back('c'); d.push_back((uint8_t)('A' + j)); }
        d.push_back(0xd8); d.push_back(0x19); d.insert(d.end(), item.begin(), item.end());
        try_decode(d, "stringref", nullptr);
    }
}
int main(int argc, char** argv)
{
    if (argc < 3) return 2;
    vx_replay_inputs in; if (!in.load(argv[2])) return 2;
    std::vector<bytes_t> items;
    if (in.has("vx_src_n")) { size_t n = (size_t)in.u64("vx_src_n"), p = (size_t)in.u64("vx_p0", in.u64("vx_src_pos")); if (n <= 64 && p <= n) { bytes_t b; for (size_t i = p; i < n; ++i) b.push_back((uint8_t)in.u64("vx_src[" + std::to_string(i) + "]")); if (!b.empty()) items.push_back(b); } }
    for (unsigned ib = 0; ib < 256; ++ib) {            // every initial byte with an all-zero, an all-ones and a counting argument, complete and truncated
        unsigned i = ib & 31; size_t n = i < 24 ? 0 : i == 24 ? 1 : i == 25 ? 2 : i == 26 ? 4 : i == 27 ? 8 : 0;
        for (int fill : {0x00, 0xff, 0x01, 0x80}) for (size_t len = 0; len <= n; ++len) { bytes_t b = {(uint8_t)ib}; for (size_t k = 0; k < len; ++k) b.push_back((uint8_t)(fill == 0x01 ? k + 1 : fill)); items.push_back(b); }
    }
    for (auto& it : items) { unsigned m = it[0] >> 5; if (m == 2 || m == 3 || m == 4 || m == 5 || m == 6) { json* none = nullptr; (void)none; } one(it); }
    if (bad) VX_REPRO(bad << " CBOR items are decoded wrongly or raise a foreign exception (see above)");
    VX_NOREPRO(items.size() << " items x 6 contexts decode as RFC 8949 prescribes or are rejected through the documented channel");
}
