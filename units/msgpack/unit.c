/* unit msgpack: MessagePack encoder - integer formats, container/str/bin headers, item counting, depth guard */
#define VX_SINK_CAP 16
#include "vx_common.h"
#include "model_sink.h"
#include "model_stack.h"
#include "spec_msgpack.h"

/*@ENUM msgpack_errc@*/
/*@ENUM msgpack_container_type@*/
/*@ENUM semantic_tag@*/
/*@COPY msgpack_types@*/
/*@GROUP binary@*/

struct msgpack_encoder { int nesting_depth_; int max_nesting_depth_; };
static const int64_t nanos_in_milli = 1000000, nanos_in_second = 1000000000, millis_in_second = 1000;
static uint8_t vx_exp[9];
static bool vx_ts_called;
struct vx_div_t { int64_t quot, rem; };
static struct vx_div_t vx_div(int64_t a, int64_t b) { struct vx_div_t r; r.quot = 0; r.rem = 0; vx_ts_called = true; return r; }
static void vx_write_timestamp(int64_t s, int64_t n) { vx_ts_called = true; }
#define VX_UTF8_VALIDATED() do { } while (0)   /* UTF-8 validation precedes the header: unit utf8 (validate) */
#define VX_PAYLOAD(n) do { } while (0)         /* the payload bytes follow verbatim (loop cut off by the extraction rule) */
/* S-MSGPACK: number of items of a container = index for arrays, index/2 (key+value) for maps */
static size_t spec_count(struct vx_stack_item it) { return it.type_ == msgpack_container_type_object ? it.index_ / 2 : it.index_; }

/*@FUNC stack_item_length@*/
/*@FUNC stack_item_is_object@*/
/*@FUNC stack_item_count@*/
/*@FUNC end_value@*/
/*@FUNC visit_int64@*/
/*@FUNC visit_uint64@*/
/*@FUNC visit_begin_object@*/
/*@FUNC visit_begin_array@*/
/*@FUNC visit_end_object@*/
/*@FUNC visit_end_array@*/
/*@FUNC write_string_head@*/
/*@FUNC write_bin_head@*/
/*@FUNC visit_begin_object_toolong@*/
/*@FUNC visit_begin_array_toolong@*/
/*@FUNC write_string_head_toolong@*/
/*@FUNC write_bin_head_toolong@*/

#ifdef VX_CBMC
static struct msgpack_encoder vx_enc;
static void setup_enc(void)
{
    vx_enc.nesting_depth_ = nondet_int(); vx_enc.max_nesting_depth_ = nondet_int();
    vx_depth = nondet_size(); vx_top.type_ = nondet_bool() ? msgpack_container_type_object : msgpack_container_type_array;
    vx_top.length_ = nondet_size(); vx_top.index_ = nondet_size();
    __CPROVER_assume(vx_top.index_ < SIZE_MAX);
    vx_pushes = 0; vx_pops = 0; vx_sink_n = 0; vx_ts_called = false;
}
void h_visit_int64(void) { setup_enc(); visit_int64(&vx_enc, nondet_i64(), nondet_int()); }
void h_visit_uint64(void) { setup_enc(); visit_uint64(&vx_enc, nondet_u64(), nondet_int()); }
void h_begin_object(void) { setup_enc(); int ec = 0; visit_begin_object(&vx_enc, nondet_size(), &ec); }
void h_begin_array(void) { setup_enc(); int ec = 0; visit_begin_array(&vx_enc, nondet_size(), &ec); }
void h_end_object(void) { setup_enc(); int ec = 0; visit_end_object(&vx_enc, &ec); }
void h_end_array(void) { setup_enc(); int ec = 0; visit_end_array(&vx_enc, &ec); }
void h_begin_object_toolong(void) { setup_enc(); int ec = 0; visit_begin_object_toolong(&vx_enc, nondet_size(), &ec); }
void h_begin_array_toolong(void) { setup_enc(); int ec = 0; visit_begin_array_toolong(&vx_enc, nondet_size(), &ec); }
void h_str_head_toolong(void) { vx_sink_n = 0; vx_thrown = 0; write_string_head_toolong(nondet_size()); }
void h_bin_head_toolong(void) { setup_enc(); vx_thrown = 0; write_bin_head_toolong(&vx_enc, nondet_size()); }
void h_str_head(void) { vx_sink_n = 0; write_string_head(nondet_size()); }
void h_bin_head(void) { setup_enc(); write_bin_head(&vx_enc, nondet_size()); }
#endif
