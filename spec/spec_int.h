/* S-INT: mathematical value of a decimal digit string (Horner, 128-bit), canonical literal predicate.
 * RFC 8259 section 6: int = zero / ( digit1-9 *DIGIT ), optional leading minus.  Not derived from jsoncons. */
#ifndef SPEC_INT_H
#define SPEC_INT_H
#include <stdint.h>
#include <stddef.h>
typedef unsigned __int128 spec_u128;
#define SPEC_INT_MAXLEN 24
static inline int spec_is_dec_digit(char c) { return c >= '0' && c <= '9'; }
/* number of leading decimal digits of s[0..n) */
static inline size_t spec_digit_prefix(const char* s, size_t n)
{
    size_t k = 0;
    for (size_t i = 0; i < SPEC_INT_MAXLEN; ++i) { if (i < n && k == i && spec_is_dec_digit(s[i])) k = i + 1; }
    return k;
}
/* value of the digit string s[0..n), n <= 24 (so < 10^24 < 2^80) */
static inline spec_u128 spec_dec_value(const char* s, size_t n)
{
    spec_u128 v = 0;
    for (size_t i = 0; i < SPEC_INT_MAXLEN; ++i) { if (i < n) v = (v << 3) + (v << 1) + (spec_u128)(unsigned char)(s[i] - 48); /* v*10 + digit, written with shifts: cheaper to bit-blast */ }
    return v;
}
/* 64-bit variant with explicit overflow flag: returns 1 and the value iff the digit string s[0..n), n <= 20, denotes a number <= 2^64-1 */
#define SPEC_INT_MAXLEN64 20
static inline int spec_dec_value64(const char* s, size_t n, uint64_t* out)
{
    uint64_t v = 0; int ok = (n <= SPEC_INT_MAXLEN64); /* more than 20 significant digits never fit (callers exclude leading zeros) */
    for (size_t i = 0; i < SPEC_INT_MAXLEN64; ++i) {
        if (i < n) {
            uint64_t d = (uint64_t)(unsigned char)(s[i] - 48);
            if (d > 9) ok = 0;
            if (v > UINT64_MAX / 10) ok = 0;
            if (v * 10 > UINT64_MAX - d) ok = 0;
            v = d + v * 10;   /* Horner step */
        }
    }
    *out = v;
    return ok;
}
/* positional notation, least significant digit first: value = sum_{i<n} digit(s[n-1-i]) * 10^i.
 * Returns 1 and the value iff all characters are digits, n <= 20 and nothing exceeds 2^64-1. */
static const uint64_t SPEC_POW10[20] = { 1ull, 10ull, 100ull, 1000ull, 10000ull, 100000ull, 1000000ull, 10000000ull, 100000000ull,
    1000000000ull, 10000000000ull, 100000000000ull, 1000000000000ull, 10000000000000ull, 100000000000000ull, 1000000000000000ull,
    10000000000000000ull, 100000000000000000ull, 1000000000000000000ull, 10000000000000000000ull };
static inline int spec_pos_value64(const char* s, size_t n, uint64_t* out)
{
    uint64_t acc = 0; int ok = (n <= 20);
    for (size_t i = 0; i < 20; ++i) {
        if (i < n) {
            uint64_t d = (uint64_t)(unsigned char)(s[n - 1 - i] - 48);
            if (d > 9) ok = 0;
            if (i == 19 && d > 1) ok = 0;              /* 2 * 10^19 > 2^64 */
            uint64_t term = d * SPEC_POW10[i];
            if (acc > UINT64_MAX - term) ok = 0;
            acc = acc + term;
        }
    }
    *out = acc;
    return ok;
}
/* canonical: no leading zero unless the literal is "0" */
static inline int spec_canonical_digits(const char* s, size_t n) { return n >= 1 && spec_digit_prefix(s, n) == n && (n == 1 || s[0] != '0'); }
#endif
