# unit mdarray_size (C05, C10, C07): calculate_mdarray_size (typed_array.hpp) - the number of elements of an RFC 8746 multi-dimensional array from its extents,
# one arbitrary iteration of the product loop: never a division by zero, never a wrapped product, zero extents after the first refused
from core import FuncSpec, Harness
T = 'include/jsoncons/typed_array.hpp'
C = [
    ('requires', 'vx_rets == 0'),
    ('assigns', 'vx_rets, vx_ret_ok, vx_ret_val, vx_steps, vx_n_after'),
    ('ensures', '[C07] no extents: zero elements', 'vx_len == 0 ==> (vx_rets == 1 && vx_ret_ok && vx_ret_val == 0)'),
    ('ensures', '[C05][C10] one step of the product (any position i >= 1, any running product n): an extent of zero ends with value_too_large before anything is divided or multiplied; nothing is ever divided by zero (built-in check); a step that is taken multiplies the running product by the extent',
     '(vx_len >= 2 && vx_i >= 1 && vx_i < vx_len) ==> ((vx_e == 0 ? (vx_rets == 1 && !vx_ret_ok && vx_steps == 0) : true) && (vx_steps == 1 ==> (vx_e != 0 && vx_n_after == vx_n_in * vx_e)) && (vx_steps == 0 ==> (vx_rets == 1 && !vx_ret_ok)))'),
    ('ensures', '[C07] the value returned at the end is the running product', '(vx_rets == 1 && vx_ret_ok && vx_len >= 1) ==> vx_ret_val == (vx_steps == 1 ? vx_n_after : vx_n_in)'),
]
SPECS = [
    FuncSpec('calculate_mdarray_size', T, r'calculate_mdarray_size\(jsoncons::span<const std::size_t> extents\)', count=1, csig='void calculate_mdarray_size(void)', contract=C,
             rules=[(r'using result_type = jsoncons::expected<std::size_t,std::errc>;', '', 1), (r'extents\.empty\(\)', '(vx_len == 0)', 1), (r'return result_type\(0\);', '{ vx_return(true, 0); return; }', 1),
                    (r'std::size_t n = extents\[0\];', 'size_t n = vx_n_in;   /* the running product when iteration i is entered (extents[0] for i == 1) */', 1),
                    (r'for \(std::size_t i = 1; i < extents\.size\(\); \+\+i\)', 'size_t i = vx_i; if (i >= 1 && i < vx_len)', 1), (r'extents\[i\]', 'vx_e', 3, 4),
                    (r'\(std::numeric_limits<std::size_t>::max\)\(\)', 'SIZE_MAX', 1), (r'return result_type\(jsoncons::unexpect, std::errc::value_too_large\);', '{ vx_return(false, 0); return; }', 1),
                    (r'n \*= vx_e;', 'n *= vx_e; vx_steps++; vx_n_after = n;', 1), (r'return n;', '{ vx_return(true, n); return; }', 1)]),
]
HARNESSES = [Harness('calculate_mdarray_size', 'h_calculate_mdarray_size', enforce='calculate_mdarray_size', method='LF', unwind=10, props=['C05', 'C10', 'C07'], solver='cadical', timeout=1200,
                     note='the loop is replaced by one iteration at an arbitrary position with an arbitrary running product (step function). That the product formed does not wrap (n <= SIZE_MAX / e implies n * e <= SIZE_MAX) is NOT decided: a 64 x 64 bit product against a 64-bit division did not finish on any back end (20 minutes); it is listed in the unverified remainder')]
