// replay for unit json_escape: strings containing every Unicode scalar value at and around the encoding boundaries, the characters with short escapes,
// control characters and '/', serialized by the real encoder under the four escape option combinations and parsed back by the real parser
#include <jsoncons/json.hpp>
#include "replay_util.hpp"
using namespace jsoncons;
static std::string utf8(uint32_t cp) { std::string s; if (cp < 0x80) s += (char)cp; else if (cp < 0x800) { s += (char)(0xC0 | (cp >> 6)); s += (char)(0x80 | (cp & 0x3F)); } else if (cp < 0x10000) { s += (char)(0xE0 | (cp >> 12)); s += (char)(0x80 | ((cp >> 6) & 0x3F)); s += (char)(0x80 | (cp & 0x3F)); } else { s += (char)(0xF0 | (cp >> 18)); s += (char)(0x80 | ((cp >> 12) & 0x3F)); s += (char)(0x80 | ((cp >> 6) & 0x3F)); s += (char)(0x80 | (cp & 0x3F)); } return s; }
int main(int argc, char** argv)
{
    if (argc < 3) return 2;
    std::vector<uint32_t> cps;
    for (uint32_t c = 0; c < 0x100; ++c) cps.push_back(c);
    for (uint32_t c : {0x7ffu, 0x800u, 0x801u, 0xd7feu, 0xd7ffu, 0xe000u, 0xe001u, 0xfffdu, 0xfffeu, 0xffffu, 0x10000u, 0x10001u, 0x1f600u, 0x10fffeu, 0x10ffffu}) cps.push_back(c);
    for (uint32_t c = 0x100; c < 0x110000; c += 997) if (c < 0xd800 || c > 0xdfff) cps.push_back(c);
    int bad = 0; std::string first;
    for (int ea = 0; ea < 2; ++ea) for (int es = 0; es < 2; ++es) {
        json_options opt; opt.escape_all_non_ascii(ea != 0).escape_solidus(es != 0);
        for (uint32_t cp : cps) {
            std::string s = "a" + utf8(cp) + "b";
            json j(json_object_arg); j[s] = s;
            std::string text; j.dump(text, opt);
            bool ok = true;
            try { json back = json::parse(text); ok = (back == j); } catch (const std::exception&) { ok = false; }
            if (ea) for (unsigned char ch : text) if (ch >= 0x80) ok = false;
            if (!ok) { if (!bad) { char b[64]; snprintf(b, sizeof b, "U+%04X with escape_all_non_ascii=%d escape_solidus=%d: ", cp, ea, es); first = b + text; } ++bad; }
        }
    }
    if (bad) VX_REPRO(bad << " strings do not survive dump + parse (or are not pure ASCII when asked to be), first: " << first);
    VX_NOREPRO("all " << cps.size() << " code points x 4 option combinations survive dump + parse");
}
