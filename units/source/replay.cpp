// replay for unit source: the binary decoders on an empty input (an empty std::vector: data() is null) and bytes_source reads around the end of a buffer,
// under ASan/UBSan
#include <jsoncons/json.hpp>
#include <jsoncons_ext/cbor/cbor.hpp>
#include <jsoncons_ext/msgpack/msgpack.hpp>
#include <jsoncons_ext/ubjson/ubjson.hpp>
#include <jsoncons_ext/bson/bson.hpp>
#include "replay_util.hpp"
using namespace jsoncons;
int main(int argc, char** argv)
{
    if (argc < 3) return 2;
    int bad = 0;
    std::vector<uint8_t> e;
    try { cbor::decode_cbor<json>(e); ++bad; } catch (const json_exception&) {} catch (...) { ++bad; }
    try { msgpack::decode_msgpack<json>(e); ++bad; } catch (const json_exception&) {} catch (...) { ++bad; }
    try { ubjson::decode_ubjson<json>(e); ++bad; } catch (const json_exception&) {} catch (...) { ++bad; }
    try { bson::decode_bson<json>(e); ++bad; } catch (const json_exception&) {} catch (...) { ++bad; }
    for (size_t n = 0; n <= 9; ++n) for (size_t want = 0; want <= 12; ++want) {
        std::vector<uint8_t> buf(n); for (size_t i = 0; i < n; ++i) buf[i] = (uint8_t)(i + 1);
        bytes_source s(buf); uint8_t out[16] = {0};
        s.ignore(n / 2); size_t rem = n - n / 2;
        size_t got = s.read(out, want);
        if (got != (want < rem ? want : rem)) ++bad;
        for (size_t i = 0; i < got; ++i) if (out[i] != buf[n / 2 + i]) ++bad;
        if (s.eof() != (got == rem)) ++bad;
    }
    if (bad) VX_REPRO(bad << " source reads / empty-input decodes misbehave");
    VX_NOREPRO("empty inputs are rejected through the documented channel and bytes_source delivers min(n, remaining) bytes in order, without undefined behaviour");
}
