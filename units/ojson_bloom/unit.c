/* unit ojson_bloom: the Bloom filter ordered_json_object uses to skip the duplicate-key search when members are inserted in bulk.
 * The filter is only sound if it has no false negatives: a key that was entered must always be reported as possibly present. */
#include "vx_common.h"
#define bloom_bytes 512
#define bloom_bits (bloom_bytes * 8)
#define bloom_mask ((uint32_t)(bloom_bits - 1))
static uint8_t vx_bloom[bloom_bytes];
/* ghost: a watched key hash that has been entered earlier, and a watched byte/bit of the filter */
static uint32_t vx_hw; static size_t vx_byte; static uint8_t vx_bit;
/*@FUNC bloom_set@*/
/*@FUNC bloom_may_contain@*/
#ifdef VX_CBMC
void h_set(void) { __CPROVER_havoc_object(vx_bloom); vx_byte = nondet_size(); vx_bit = nondet_u8(); __CPROVER_assume(vx_byte < bloom_bytes && vx_bit < 8); bloom_set(vx_bloom, nondet_u32()); }
void h_may_contain(void) { __CPROVER_havoc_object(vx_bloom); bloom_may_contain(vx_bloom, nondet_u32()); }
/* lemma: no false negatives, for any history: if the watched key hw is reported present, it still is after any other key h is entered; and right
 * after entering hw it is reported present.  By induction over the insertions, every entered key stays reported (real extracted bodies). */
void h_no_false_negative(void)
{
    __CPROVER_havoc_object(vx_bloom);
    uint32_t hw = nondet_u32(), h = nondet_u32();
    bool before = bloom_may_contain(vx_bloom, hw);
    bloom_set(vx_bloom, h);
    __CPROVER_assert(!before || bloom_may_contain(vx_bloom, hw), "[C09] Bloom filter: entering another key never makes an entered key disappear (no false negatives, so no duplicate key slips past the filter)");
    bloom_set(vx_bloom, hw);
    __CPROVER_assert(bloom_may_contain(vx_bloom, hw), "[C09] Bloom filter: a key is reported as possibly present right after it has been entered");
}
#endif
