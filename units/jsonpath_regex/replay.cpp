// replay for unit jsonpath_regex: filters with `=~ /pattern/` where the pattern is and is not a regular expression (unbalanced parentheses and brackets,
// bad ranges, bad repetition counts, a trailing backslash ...), with and without the i option, through make_expression, json_query and json_replace:
// a JSONPath error (error code or jsonpath_error), never another exception type; valid patterns select what the regular expression matches.
#include <jsoncons/json.hpp>
#include <jsoncons_ext/jsonpath/jsonpath.hpp>
#include "replay_util.hpp"
using namespace jsoncons;
int main(int argc, char** argv)
{
    if (argc < 3) return 2;
    const json doc = json::parse(R"({"a":["ab","cd","AB"]})");
    const char* badp[] = {"(", ")", "[", "a{2,1}", "x{*", "[z-a]", "a**", "\\\\", "(?<n", "a{99999999999}", "*a"};
    int bad = 0, total = 0; std::string first;
    for (const char* p : badp) for (const char* opt : {"", "i"}) { std::string e = std::string("$.a[?(@ =~ /") + p + "/" + opt + ")]"; ++total;
        try { std::error_code ec; auto x = jsonpath::make_expression<json>(e, ec); if (!ec) { json r = x.evaluate(doc); (void)r; } }
        catch (const jsoncons::json_exception&) {} catch (const std::exception& ex) { if (!bad) first = "make_expression(" + e + ") lets " + ex.what() + " escape"; ++bad; }
        ++total; try { json r = jsonpath::json_query(doc, e); (void)r; } catch (const jsoncons::json_exception&) {} catch (const std::exception& ex) { if (!bad) first = "json_query(" + e + ") lets " + ex.what() + " escape"; ++bad; } }
    ++total; if (jsonpath::json_query(doc, "$.a[?(@ =~ /a.*/)]") != json::parse(R"(["ab"])")) { if (!bad) first = "/a.*/ does not select ab"; ++bad; }
    ++total; if (jsonpath::json_query(doc, "$.a[?(@ =~ /a.*/i)]") != json::parse(R"(["ab","AB"])")) { if (!bad) first = "/a.*/i does not select ab and AB"; ++bad; }
    if (bad) VX_REPRO(bad << " of " << total << " regular-expression filters are not handled as JSONPath prescribes, first: " << first);
    VX_NOREPRO("all " << total << " regular-expression filters are compiled or refused with a JSONPath error");
}
