/* unit json_decoder (C02, C10): json_decoder builds the value from the parse events with two stacks: item_stack_ (every finished value, with its member name
 * and arrival index) and structure_stack_ (for every open container: its kind and the position of its own item).  Abstraction: item_stack_ is its size, the
 * items themselves are events on positions; the top two entries of structure_stack_ are explicit.
 * Proved: a scalar becomes one item (named iff it arrives inside an object; the result itself at the root); begin pushes the container's own item and frame;
 * end collects exactly the items above the container's own item - each one once, in order (watched child: any), nothing from below - sizes the container by
 * that count (never by a length the input declared: C10), removes them, and hands the finished root to the result. */
#include "vx_common.h"
/*@ENUM json_structure_kind@*/
static size_t vx_items, vx_index_;                 /* item_stack_.size(), index_ */
static uint8_t vx_top_kind, vx_parent_kind; static size_t vx_top_index, vx_depth;   /* structure_stack_.back(), the entry below it, structure_stack_.size() */
static bool vx_is_valid, vx_result_set; static size_t vx_result_from;
/* events */
static unsigned vx_item_pushes, vx_frame_pushes, vx_frame_pops; static bool vx_pushed_named, vx_pushed_container; static size_t vx_pushed_index, vx_frame_index; static uint8_t vx_frame_kind;
static size_t vx_w, vx_moves, vx_next_pos; static unsigned vx_w_moves; static size_t vx_w_pos; static bool vx_order_bad;
static size_t vx_reserved; static unsigned vx_reserves, vx_inits, vx_erases; static size_t vx_init_first, vx_init_size, vx_erase_first;
static void vx_push_item(bool named, size_t index, bool container) { vx_item_pushes++; vx_pushed_named = named; vx_pushed_index = index; vx_pushed_container = container; vx_items++; }
static void vx_push_frame(uint8_t kind, size_t index) { vx_frame_pushes++; vx_frame_kind = kind; vx_frame_index = index; vx_parent_kind = vx_top_kind; vx_top_kind = kind; vx_top_index = index; vx_depth++; }
static void vx_move_child(size_t i) { if (i != vx_next_pos) vx_order_bad = true; if (i == vx_w) { vx_w_moves++; vx_w_pos = vx_moves; } vx_moves++; vx_next_pos = i + 1; }
static void vx_set_result(size_t from) { vx_result_set = true; vx_result_from = from; }
/*@FUNC visit_begin_array@*/
/*@FUNC visit_begin_object@*/
/*@FUNC visit_end_array@*/
/*@FUNC visit_end_object@*/
/*@FUNC visit_string@*/
#ifdef VX_CBMC
static void setup(void)
{
    vx_items = nondet_size(); vx_index_ = nondet_size(); vx_top_kind = nondet_u8(); vx_parent_kind = nondet_u8(); vx_top_index = nondet_size(); vx_depth = nondet_size(); vx_is_valid = false; vx_result_set = false;
    vx_item_pushes = 0; vx_frame_pushes = 0; vx_frame_pops = 0; vx_w = nondet_size(); vx_moves = 0; vx_w_moves = 0; vx_order_bad = false; vx_reserves = 0; vx_inits = 0; vx_erases = 0;
}
void h_visit_begin_array(void) { setup(); visit_begin_array(); }
void h_visit_begin_object(void) { setup(); visit_begin_object(); }
void h_visit_end_array(void) { setup(); vx_next_pos = vx_top_index + 1; visit_end_array(); }
void h_visit_end_object(void) { setup(); visit_end_object(); }
void h_visit_string(void) { setup(); visit_string(); }
#endif
