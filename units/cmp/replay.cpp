// replay for unit cmp: the relational laws of basic_json over a pool of values of every scalar storage kind (int64, uint64, double, half, bool, null, short and
// long strings, byte strings, with and without tags) at the boundaries of the numeric ranges: symmetry of ==, antisymmetry of the order, a < b iff b > a,
// <= / >= consistent with < / >, and for pairs of numbers agreement of the order with the mathematical order of the two values.
#include <jsoncons/json.hpp>
#include "replay_util.hpp"
#include <cmath>
using namespace jsoncons;
struct num { bool is; bool nan; long double v; };
static num val(const json& j) { if (j.is_uint64()) return {true, false, (long double)j.as<uint64_t>()}; if (j.is_int64()) return {true, false, (long double)j.as<int64_t>()};
    if (j.is_double()) { double d = j.as<double>(); return {true, std::isnan(d), (long double)d}; } return {false, false, 0}; }   // half floats are ordered against the other kinds by kind, not by value (a choice the property leaves open)
int main(int argc, char** argv)
{
    if (argc < 3) return 2;
    std::vector<json> pool = {json(INT64_MIN), json(-1), json(0), json(1), json(INT64_MAX), json((uint64_t)0), json((uint64_t)1), json((uint64_t)INT64_MAX), json((uint64_t)INT64_MAX + 1), json(UINT64_MAX),
        json(-INFINITY), json(-1.5), json(-1.0), json(-0.0), json(0.0), json(1.0), json(1.5), json(9223372036854775808.0), json(18446744073709551616.0), json(INFINITY), json(NAN),
        json(half_arg, 0x3c00), json(half_arg, 0xc000), json(half_arg, 0x7c00), json(true), json(false), json::null(), json("a"), json("b"), json("a", semantic_tag::datetime),
        json("a long string that does not fit the short-string storage"), json(byte_string_arg, std::string("a")), json(1, semantic_tag::epoch_second), json((uint64_t)1, semantic_tag::epoch_milli)};
    { size_t n = pool.size(); for (size_t i = 0; i < n && i < 21; ++i) { json a(json_array_arg); a.push_back(pool[i]); pool.push_back(a); } }   // and the numbers wrapped in arrays
    int bad = 0, total = 0; std::string first;
    auto fail = [&](const std::string& what, const json& a, const json& b) { if (!bad) first = what + " for a = " + a.to_string() + ", b = " + b.to_string(); ++bad; };
    for (const json& a : pool) for (const json& b : pool) {
        ++total; num x = val(a), y = val(b); if (a.is_array() && a.size() && val(a[0]).nan) x.nan = true; if (b.is_array() && b.size() && val(b[0]).nan) y.nan = true; bool nan = x.nan || y.nan || a.to_string().find("null") != std::string::npos && (a.is_array() || b.is_array());
        if ((a == b) != (b == a)) fail("== is not symmetric", a, b);
        if ((a == b) == (a != b)) fail("== and != are not complementary", a, b);
        if (!x.nan && !y.nan) { if ((a < b) != (b > a)) fail("a < b differs from b > a", a, b); if ((a < b) && (b < a)) fail("a < b and b < a", a, b);
            if ((a <= b) != !(a > b)) fail("a <= b differs from !(a > b)", a, b); if ((a >= b) != !(a < b)) fail("a >= b differs from !(a < b)", a, b); if ((a == b) != ((a <= b) && (a >= b))) fail("== disagrees with <= and >=", a, b); }
        if (x.is && y.is && !x.nan && !y.nan && ((std::fabs((double)x.v) <= 9007199254740992.0 && std::fabs((double)y.v) <= 9007199254740992.0) || (a.is_double() == b.is_double()) || std::isinf((double)x.v) || std::isinf((double)y.v))) {   // integers are compared with doubles through double: exact up to 2^53
            if ((a < b) != (x.v < y.v)) fail("the order of two numbers is not the order of their values", a, b); if ((a == b) != (x.v == y.v)) fail("equality of two numbers is not equality of their values", a, b); }
        (void)nan;
    }
    if (bad) VX_REPRO(bad << " of " << total << " pairs break a relational law, first: " << first);
    VX_NOREPRO("all " << total << " pairs satisfy the relational laws");
}
