/* S-STR: RFC 8259 section 7 "Strings": the interior of a JSON string as a DFA with decoder.
 *   char = unescaped / escape ( %x22 / %x5C / %x2F / %x62 / %x66 / %x6E / %x72 / %x74 / %x75 4HEXDIG )
 *   unescaped = %x20-21 / %x23-5B / %x5D-10FFFF
 * Section 7 also: a code point outside the BMP is written as a 12-character sequence encoding the UTF-16 surrogate pair;
 * section 8.2 calls an unpaired surrogate escape "unpredictable" -> marked unspecified here.
 * The decoder works on bytes (UTF-8 text): literal bytes are passed through, escapes yield their character re-encoded to
 * UTF-8 (RFC 3629).  Not derived from jsoncons. */
#ifndef SPEC_STR_H
#define SPEC_STR_H
#include <stdint.h>
enum spec_str_state { STR_TEXT = 0, STR_ESC = 1, STR_U1 = 2, STR_U2 = 3, STR_U3 = 4, STR_U4 = 5,
                      STR_HS_BS = 6, STR_HS_U = 7, STR_L1 = 8, STR_L2 = 9, STR_L3 = 10, STR_L4 = 11, STR_ERR = 12, STR_END = 13 };
struct spec_str_mon { int st; uint32_t acc; uint32_t hi; };
/* result of one step: number of decoded bytes emitted (0..4) in out[], or -1 on a grammar violation */
static inline int spec_str_hex(int c) { return (c >= '0' && c <= '9') ? c - '0' : (c >= 'a' && c <= 'f') ? c - 'a' + 10 : (c >= 'A' && c <= 'F') ? c - 'A' + 10 : -1; }
static inline int spec_str_utf8(uint32_t cp, uint8_t out[4])
{
    if (cp < 0x80) { out[0] = (uint8_t)cp; return 1; }
    if (cp < 0x800) { out[0] = (uint8_t)(0xC0 | (cp >> 6)); out[1] = (uint8_t)(0x80 | (cp & 0x3F)); return 2; }
    if (cp < 0x10000) { out[0] = (uint8_t)(0xE0 | (cp >> 12)); out[1] = (uint8_t)(0x80 | ((cp >> 6) & 0x3F)); out[2] = (uint8_t)(0x80 | (cp & 0x3F)); return 3; }
    out[0] = (uint8_t)(0xF0 | (cp >> 18)); out[1] = (uint8_t)(0x80 | ((cp >> 12) & 0x3F)); out[2] = (uint8_t)(0x80 | ((cp >> 6) & 0x3F)); out[3] = (uint8_t)(0x80 | (cp & 0x3F));
    return 4;
}
/* interior = 1: a raw quotation mark is a grammar violation (encoder output monitor);
 * interior = 0: a raw quotation mark ends the string (parser input monitor): state STR_END */
static inline int spec_str_step(struct spec_str_mon* m, int c, uint8_t out[4], int interior)
{
    c &= 0xff;
    switch (m->st) {
    case STR_TEXT:
        if (c == '"') { m->st = interior ? STR_ERR : STR_END; return interior ? -1 : 0; }
        if (c == '\\') { m->st = STR_ESC; return 0; }
        if (c < 0x20) { m->st = STR_ERR; return -1; }
        out[0] = (uint8_t)c; return 1;
    case STR_ESC:
        m->st = STR_TEXT;
        switch (c) {
        case '"': out[0] = '"'; return 1;   case '\\': out[0] = '\\'; return 1;  case '/': out[0] = '/'; return 1;
        case 'b': out[0] = 0x08; return 1;  case 'f': out[0] = 0x0C; return 1;   case 'n': out[0] = 0x0A; return 1;
        case 'r': out[0] = 0x0D; return 1;  case 't': out[0] = 0x09; return 1;
        case 'u': m->st = STR_U1; m->acc = 0; return 0;
        default: m->st = STR_ERR; return -1;
        }
    case STR_U1: case STR_U2: case STR_U3: case STR_U4: {
        int h = spec_str_hex(c);
        if (h < 0) { m->st = STR_ERR; return -1; }
        m->acc = (m->acc << 4) | (uint32_t)h;
        if (m->st != STR_U4) { m->st = m->st + 1; return 0; }
        if (m->acc >= 0xD800 && m->acc <= 0xDBFF) { m->hi = m->acc; m->st = STR_HS_BS; return 0; }
        if (m->acc >= 0xDC00 && m->acc <= 0xDFFF) { m->st = STR_ERR; return -1; }   /* unpaired low surrogate: unspecified */
        m->st = STR_TEXT; return spec_str_utf8(m->acc, out);
    }
    case STR_HS_BS: if (c == '\\') { m->st = STR_HS_U; return 0; } m->st = STR_ERR; return -1;   /* unpaired high surrogate: unspecified */
    case STR_HS_U:  if (c == 'u') { m->st = STR_L1; m->acc = 0; return 0; } m->st = STR_ERR; return -1;
    case STR_L1: case STR_L2: case STR_L3: case STR_L4: {
        int h = spec_str_hex(c);
        if (h < 0) { m->st = STR_ERR; return -1; }
        m->acc = (m->acc << 4) | (uint32_t)h;
        if (m->st != STR_L4) { m->st = m->st + 1; return 0; }
        if (!(m->acc >= 0xDC00 && m->acc <= 0xDFFF)) { m->st = STR_ERR; return -1; }
        m->st = STR_TEXT;
        return spec_str_utf8(0x10000 + ((m->hi - 0xD800) << 10) + (m->acc - 0xDC00), out);
    }
    default: return -1;
    }
}
#endif
