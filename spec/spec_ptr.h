/* S-PTR: RFC 6901 sections 3 and 4.
 *   json-pointer = *( "/" reference-token );  reference-token = *( unescaped / escaped );  escaped = "~" ( "0" / "1" )
 *   "~0" represents "~", "~1" represents "/".   array-index = %x30 / ( %x31-39 *(%x30-39) ), "-" = past the end.
 * Not derived from jsoncons. */
#ifndef SPEC_PTR_H
#define SPEC_PTR_H
#include <stddef.h>
/* DFA over the characters of a JSON Pointer string */
enum spec_ptr_state { PTR_START = 0,   /* nothing read */
                      PTR_TOKEN = 1,   /* inside a reference token (after "/" or a token character) */
                      PTR_TILDE = 2,   /* after "~", expecting 0 or 1 */
                      PTR_ERR_SLASH = 3, /* first character is not "/" */
                      PTR_ERR_ESC = 4 }; /* "~" followed by something other than 0 / 1 */
static inline int spec_ptr_step(int s, int c)
{
    switch (s) {
    case PTR_START: return c == '/' ? PTR_TOKEN : PTR_ERR_SLASH;
    case PTR_TOKEN: return c == '~' ? PTR_TILDE : PTR_TOKEN;
    case PTR_TILDE: return (c == '0' || c == '1') ? PTR_TOKEN : PTR_ERR_ESC;
    default: return s;
    }
}
/* decoder of one escaped reference token, one character at a time: returns -1 = nothing emitted yet (after "~"),
 * -2 = not a valid escaped token (raw "/" or bad escape), otherwise the decoded character; *st is 0 (normal) or 1 (after "~") */
static inline int spec_ptr_unescape_step(int* st, int c)
{
    if (*st == 0) { if (c == '~') { *st = 1; return -1; } if (c == '/') return -2; return (unsigned char)c; }
    *st = 0;
    if (c == '0') return '~';
    if (c == '1') return '/';
    return -2;
}
/* array-index syntax: "0" or a non-zero digit followed by digits */
static inline int spec_ptr_is_array_index(const char* s, size_t n, size_t digit_prefix)
{
    return n >= 1 && digit_prefix == n && (n == 1 || s[0] != '0');
}
#endif
