# unit bigint_add (C04): basic_bigint::operator+=(unsigned integer) on a non-negative number, and the carry ripple of operator+=(const basic_bigint&):
# the sum as a sequence of limbs, for a number of any length, judged at one arbitrary limb (watched) against schoolbook addition
from core import FuncSpec, Harness
B = 'include/jsoncons/utility/bigint.hpp'
COMMON = [
    (r'auto this_view = get_storage_view\(\);', '', 1), (r'this_view = get_storage_view\(\);', '', 1), (r'this_view\.size\(\)', 'vx_n', 1, 4),
    (r'this_view\[([^\]]+)\] = ', r'VX_SET(\1) = ', 0, 8), (r'this_view\[([^\]]+)\] \+= ', r'VX_ADDTO(\1) += ', 0, 4), (r'this_view\[([^\]]+)\]', r'vx_get(\1)', 0, 12),
    (r'\bsize_type\b', 'size_t', 0, 8), (r'\bword_type\b', 'uint64_t', 0, 6), (r'reduce\(\);', 'vx_reduce();', 1), (r'return \*this;', 'return;', 1, 2),
]
# schoolbook: limb 0 becomes a0 + y; the carry out of limb 0 travels through limbs 1 .. z-1, which are all ones, and is absorbed by limb z (the first limb above 0 that
# is not all ones; the limb added by resize is 0, so z exists); every other limb keeps its value
C0 = '(vx_a0 > UINT64_MAX - (uint64_t)y)'
WANT = '((%s && vx_w <= vx_z) ? vx_old_w + 1 : vx_old_w)' % C0
LOOP = ('__CPROVER_assigns(i, d, carry, vx_new_w, vx_w_written, vx_reads, vx_scratch) '
        '__CPROVER_loop_invariant(i >= 1 && i <= this_size && carry <= 1 && (carry == 1) == (%s && i <= vx_z) && (vx_w >= i ==> !vx_w_written) && (vx_w < i ==> (vx_w_written ? vx_new_w == %s : vx_old_w == %s)) && vx_limb0 == vx_a0 + (uint64_t)y) '
        '__CPROVER_decreases(this_size - i)' % (C0, WANT, WANT))
ADD_U = [
    ('requires', '!vx_negative && vx_n0 == vx_n && vx_n <= SIZE_MAX / 16 && vx_n >= 1 && vx_z >= 1 && vx_z <= vx_n && vx_w >= 1 && vx_w <= vx_n && !vx_w_written && vx_reduces == 0 && vx_limb0 == vx_a0 && (vx_w == vx_n ==> vx_old_w == 0)'
                 ' && ((vx_w >= 1 && vx_w < vx_z) ==> vx_old_w == UINT64_MAX) && (vx_w == vx_z ==> vx_old_w != UINT64_MAX)'),
    ('assigns', 'vx_n, vx_new_w, vx_w_written, vx_reduces, vx_reads, vx_scratch, vx_limb0'),
    ('ensures', '[C04] x += y for a non-negative x of any number of limbs and an unsigned y of at most 64 bits: every limb of the result (watched: any) is the limb of the schoolbook sum - limb 0 is a0 + y mod 2^64, the carry runs through the limbs that are all ones and is absorbed by the first that is not, all other limbs are unchanged',
     'vx_limb0 == vx_a0 + (uint64_t)y && (vx_w_written ? vx_new_w : vx_old_w) == %s' % WANT),
    ('ensures', '[C04] one limb is added for the carry and the result is normalised', 'vx_n == vx_n0 + 1 && vx_reduces == 1'),
]
# the signed overload: same limbs with the magnitude of y; the sign handling must not negate a signed value (INT64_MIN: F35)
MAG = '(y < 0 ? (uint64_t)0 - (uint64_t)y : (uint64_t)y)'
C0S = '(vx_a0 > UINT64_MAX - %s)' % MAG
WANTS = '((%s && vx_w <= vx_z) ? vx_old_w + 1 : vx_old_w)' % C0S
LOOPS = ('__CPROVER_assigns(i, d, carry, vx_new_w, vx_w_written, vx_reads, vx_scratch) '
         '__CPROVER_loop_invariant(i >= 1 && i <= this_size && carry <= 1 && (carry == 1) == (%s && i <= vx_z) && (vx_w >= i ==> !vx_w_written) && (vx_w < i ==> (vx_w_written ? vx_new_w == %s : vx_old_w == %s)) && vx_limb0 == vx_a0 + %s) '
         '__CPROVER_decreases(this_size - i)' % (C0S, WANTS, WANTS, MAG))
ADD_S = [(ADD_U[0][0], ADD_U[0][1].replace('!vx_negative && ', '')), ('assigns', 'vx_n, vx_new_w, vx_w_written, vx_reduces, vx_reads, vx_scratch, vx_limb0, vx_sub_path, vx_neg_arg'),
    ('ensures', '[C04] x += y for a signed y of the sign of x (magnitudes are added): every limb of the result (watched: any) is the limb of the schoolbook sum of the magnitudes; no signed value is negated on the way (INT64_MIN has no negation: built-in overflow check)',
     '(vx_negative == (y < 0)) ==> (!vx_sub_path && vx_limb0 == vx_a0 + %s && (vx_w_written ? vx_new_w : vx_old_w) == %s && vx_n == vx_n0 + 1 && vx_reduces == 1)' % (MAG, WANTS)),
    ('ensures', '[C04] a y of the other sign is handed to the subtraction', '(vx_negative != (y < 0)) ==> (vx_sub_path && !vx_w_written && vx_n == vx_n0)'),
]
SPECS = [
    FuncSpec('add_signed', B, r'operator\+=\(IntegerType y\)', ordinal=0, csig='void add_signed(int64_t y)', contract=ADD_S,
             rules=[(r'if \( is_negative\(\) != \(y < 0\)\)\s*return \*this -= -basic_bigint<Allocator>\(y\);', 'if (vx_negative != (y < 0)) { vx_sub_path = true; return; }', 0, 1),
                    (r'if \( is_negative\(\) != \(y < 0\)\)\s*return \*this -= -y;', 'if (vx_negative != (y < 0)) { vx_sub_path = true; vx_neg_arg = -y; return; }   /* -y is evaluated on the signed value */', 0, 1), (r'resize\(this_view\.size\(\) \+ 1\);', 'vx_resize_plus1();', 1),
                    (r'word_type\(0\)', '((uint64_t)0)', 0, 2), (r'const size_t y_size = 1;', 'const size_t y_size = 1;', 1)] + COMMON,
             loops={1: LOOPS, 'count': 2}),
    FuncSpec('add_unsigned', B, r'operator\+=\(IntegerType y\)', ordinal=1, csig='void add_unsigned(uint64_t y)', contract=ADD_U,
             rules=[(r'if \( is_negative\(\)\)\s*return \*this -= -basic_bigint<Allocator>\(y\);', 'if (vx_negative) { vx_sub_path = true; return; }', 1), (r'resize\(this_view\.size\(\) \+ 1\);', 'vx_resize_plus1();', 1)] + COMMON,
             loops={0: LOOP, 'count': 1, 'optional': True}),
]
HARNESSES = [Harness('add_signed', 'h_add_signed', enforce='add_signed', loop_contracts=True, pre_unwind=2, method='LC', props=['C04', 'C05'], flags=['--signed-overflow-check'],
                     note='the loop over the single limb of y is unwound, the carry ripple has a loop contract; negating y itself would overflow for INT64_MIN (checked by --signed-overflow-check)'),
             Harness('add_unsigned', 'h_add_unsigned', enforce='add_unsigned', loop_contracts=True, method='LC', props=['C04'],
                     note='limbs are materialised when read: limb 0 is a0, limbs 1 .. z-1 are all ones, limb z is not, the limb appended by resize is 0; the watched limb keeps the value written to it')]
