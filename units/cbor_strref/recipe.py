# U-CBOR-STRREF (DESIGN 6): stringref index assignment on the encoder side (http://cbor.schmorp.de/stringref).
# The decoder gives every definite-length text or byte string inside the namespace whose length reaches min_length_for_stringref(table size) the next
# index (table size), whether or not it is referenced later.  The encoder must therefore advance its running index next_stringref_ for exactly the
# strings it writes literally that meet that rule at the moment they are written, and must write a reference only to an index it assigned.
from core import FuncSpec, CopySpec, EnumSpec, Harness, INF

E = 'include/jsoncons_ext/cbor/cbor_encoder.hpp'
P = 'include/jsoncons_ext/cbor/cbor_parser.hpp'
D = 'include/jsoncons_ext/cbor/cbor_detail.hpp'

N0 = '__CPROVER_old(self->next_stringref_)'
ELIG = '(self->pack_strings_ && vx_len >= spec_strref_min_length(%s))' % N0
REQ = 'self->next_stringref_ < ((size_t)1 << 60) && vx_registered == 0 && vx_out == VX_OUT_NONE'
ASG = 'self->next_stringref_, vx_registered, vx_reg_index, vx_out, vx_items'
TRACK = ('ensures', '[C06][C08] the running index follows the decoder\'s table: a string written literally takes the next index exactly when packing is on and its length reaches the stringref minimum for the current index; a reference takes none',
         '(vx_out == VX_OUT_LITERAL ==> self->next_stringref_ == %s + (%s ? 1 : 0)) && (vx_out == VX_OUT_REF ==> self->next_stringref_ == %s)' % (N0, ELIG, N0))
def contract():
    return [
        ('requires', REQ), ('assigns', ASG), TRACK,
        ('ensures', '[C06][C08] a new string is entered in the encoder\'s table exactly when packing is on, it is not yet there and its length reaches the stringref minimum for the running index',
         '(vx_registered == 1) == (%s && !vx_find_result)' % ELIG),
        ('ensures', '[C06][C08] it is entered under the index the decoder will give it (the running index at that moment) and written literally', 'vx_registered == 1 ==> (vx_reg_index == %s && vx_out == VX_OUT_LITERAL)' % N0),
        ('ensures', '[C06][C08] an eligible string that is already in the table is written as a reference (tag 25 + index), nothing is entered',
         '(%s && vx_find_result) ==> (vx_out == VX_OUT_REF && vx_registered == 0)' % ELIG),
        ('ensures', '[C06][C08] a string below the minimum length (or with packing off) is written literally and not entered', '!%s ==> (vx_out == VX_OUT_LITERAL && vx_registered == 0)' % ELIG),
        ('ensures', '[C06][C08] exactly one encoding per string', 'vx_registered <= 1 && vx_out != VX_OUT_NONE'),
    ]
LITERAL = [('requires', 'self->next_stringref_ < ((size_t)1 << 60) && vx_out == VX_OUT_NONE'), ('assigns', 'self->next_stringref_, vx_out'), TRACK, ('ensures', '[C06][C08] the string is written literally, once', 'vx_out == VX_OUT_LITERAL')]
COMMON0 = [
    (r'jsoncons::cbor::detail::min_length_for_stringref\(', 'min_length_for_stringref(', 0, 2),
    (r'\bpack_strings_\b', '(self->pack_strings_)', 0, 2),
    (r'\bnext_stringref_\b', '(self->next_stringref_)', 0, 4),
    # the sizes of the two maps (number of text / byte strings entered so far) are ghost values: each at most the running index
    (r'\bstringref_map_\.size\(\)', 'vx_text_count', 0, 3), (r'\bbytestringref_map_\.size\(\)', 'vx_bytes_count', 0, 3),
    (r'write_tag\(25\);\s*write_uint64_value\(\(\*it\)\.second\);', 'vx_out_ref();', 0, 1),
    (r'end_value\(\);', 'vx_items++;', 0, 1),
    (r'JSONCONS_VISITOR_RETURN;', 'return;', 0, 1),
]
TEXT = COMMON0 + [
    (r'auto sink = unicode_traits::validate\(sv\.data\(\), sv\.size\(\)\);\s*if \(sink\.ec != unicode_traits::unicode_errc\(\)\)\s*\{\s*JSONCONS_THROW\(ser_error\(cbor_errc::invalid_utf8_text_string\)\);\s*\}', 'VX_UTF8_VALIDATED();', 1),
    (r'sv\.size\(\)', 'vx_len', 1, 3),
    (r'string_type s\(sv\.data\(\), vx_len, alloc_\);', '', 1),
    (r'auto it = stringref_map_\.find\(s\);', 'bool vx_found = vx_find_result;', 1),
    (r'it == stringref_map_\.end\(\)', '!vx_found', 1),
    (r'stringref_map_\.emplace\(std::make_pair\(std::move\(s\), ([^;]+?)\)\);', r'VX_REGISTER(\1);', 1),
    (r'write_utf8_string\(sv\);', 'vx_out_literal();', 2),
]
def BYTES(tagged):
    return [
        # program slice: the tag-hint prologue (semantic tag -> CBOR tag 21/22/23) does not touch the stringref state
        (r'\A.*?(?=if \(pack_strings_ &&)', 'VX_PROLOGUE_CUT(); ', 1),
        (r'b\.size\(\)', 'vx_len', 1, 3),
        (r'byte_string_type bs\(b\.data\(\), vx_len, alloc_\);', '', 1),
        (r'auto it = bytestringref_map_\.find\(bs\);', 'bool vx_found = vx_find_result;', 1),
        (r'it == bytestringref_map_\.end\(\)', '!vx_found', 1),
        (r'bytestringref_map_\.emplace\(std::make_pair\(bs, ([^;]+?)\)\);', r'VX_REGISTER(\1);', 1),
        (r'write_tag\(raw_tag\);\s*', '', 2 if tagged else 0),
        (r'write_byte_string\(bs?\);', 'write_byte_string(self, vx_len);', 2),
    ] + COMMON0
SPECS = [
    FuncSpec('min_length_for_stringref', D, r'size_t min_length_for_stringref\(uint64_t index\)', count=1,
             csig='static size_t min_length_for_stringref(uint64_t index)',
             contract=[('assigns', ''), ('ensures', '[C06][C08] min_length_for_stringref is the stringref table at every index', '__CPROVER_return_value == spec_strref_min_length(index)')]),
    FuncSpec('write_byte_string', E, r'void write_byte_string\(const byte_string_view& b\)', count=1, csig='void write_byte_string(struct cbor_encoder* self, size_t vx_len)', contract=LITERAL,
             rules=COMMON0 + [(r'b\.size\(\)', 'vx_len', 1, 3), (r'write_type_and_length\(0x40, vx_len\);\s*sink_\.append\(b\.data\(\), vx_len\);', 'vx_out_literal();', 1)]),
    FuncSpec('write_bignum', E, r'void write_bignum\(bigint& n\)', count=1, csig='void write_bignum(struct cbor_encoder* self, size_t vx_len)', contract=LITERAL,
             # program slice: sign handling and the conversion of the bigint to bytes are not under contract; the head written for the byte length is proved in unit cbor_head
             rules=COMMON0 + [(r'\A.*?std::size_t length = data\.size\(\);', 'size_t length = vx_len;', 1),
                              (r'if \(is_neg\)\s*\{\s*write_tag\(3\);\s*\}\s*else\s*\{\s*write_tag\(2\);\s*\}', '', 1),
                              (r'if \(length <= 0x17\).*\Z', 'vx_out_literal();', 1)]),
    FuncSpec('write_string', E, r'void write_string\(const string_view& sv\)', count=1,
             csig='void write_string(struct cbor_encoder* self, size_t vx_len)', contract=contract(), rules=TEXT),
    FuncSpec('visit_byte_string', E, r'visit_byte_string\(const byte_string_view& b,\s*semantic_tag tag,\s*const ser_context&,\s*std::error_code&\) final', count=1,
             csig='void visit_byte_string(struct cbor_encoder* self, size_t vx_len)', contract=contract(), rules=BYTES(False)),
    FuncSpec('visit_byte_string_tagged', E, r'visit_byte_string\(const byte_string_view& b,\s*uint64_t raw_tag,\s*const ser_context&,\s*std::error_code&\) final', count=1,
             csig='void visit_byte_string_tagged(struct cbor_encoder* self, size_t vx_len)', contract=contract(), rules=BYTES(True)),
]
SITE_CHECKS = [
    {'file': P, 'pattern': r'\.(length|size)\(\) >= jsoncons::cbor::detail::min_length_for_stringref\(stringref_map_stack_\.back\(\)\.size\(\)\)\)\s*\{\s*stringref_map_stack_\.back\(\)\.emplace_back\(', 'count': 4, 'props': ['C06'],
     'what': 'all four decoder sites register a string iff its length reaches min_length_for_stringref(current table size), and append it to the table (index = table size)'},
    {'file': E, 'pattern': r'(sink_\.append\(b\.data\(\), b\.size\(\)\)|write_utf8_string\(sv\)|for \(auto c : data\)\s*\{\s*sink_\.push_back\(c\);)', 'count': 4, 'props': ['C06'],
     'what': 'string payloads are written literally at exactly four places: write_byte_string, write_string (twice), write_bignum - all under contract here'},
]
HARNESSES = [
    Harness('min_length_for_stringref', 'h_min_length', enforce='min_length_for_stringref', method='LF', props=['C06', 'C08']),
    Harness('write_byte_string', 'h_write_byte_string', enforce='write_byte_string', replace=['min_length_for_stringref'], method='LF', props=['C06', 'C08']),
    Harness('write_bignum', 'h_write_bignum', enforce='write_bignum', replace=['min_length_for_stringref'], method='LF', props=['C06', 'C08'],
            note='program slice: the index bookkeeping of write_bignum (its head bytes: unit cbor_head)'),
    Harness('write_string', 'h_write_string', enforce='write_string', replace=['min_length_for_stringref'], method='LF', props=['C06', 'C08']),
    Harness('visit_byte_string', 'h_bytes', enforce='visit_byte_string', replace=['min_length_for_stringref', 'write_byte_string'], method='LF', props=['C06', 'C08']),
    Harness('visit_byte_string_tagged', 'h_bytes_tagged', enforce='visit_byte_string_tagged', replace=['min_length_for_stringref', 'write_byte_string'], method='LF', props=['C06', 'C08']),
]
