// replay for unit jmespath_sort: sort_by over arrays of 0..40 objects whose keys repeat (so that equal keys occur at every distance), with number and string
// keys: the result must be the stable sort by key (equal keys in document order); mixed or non-scalar keys and non-array arguments must be invalid-type errors.
#include <jsoncons/json.hpp>
#include <jsoncons_ext/jmespath/jmespath.hpp>
#include "replay_util.hpp"
#include <algorithm>
using namespace jsoncons;
int main(int argc, char** argv)
{
    if (argc < 3) return 2;
    int bad = 0, total = 0; std::string first;
    for (int strk = 0; strk < 2; ++strk) for (size_t n = 0; n <= 40; ++n) for (int mod : {1, 2, 3, 7}) {
        json a(json_array_arg); std::vector<std::pair<int, size_t>> ref;
        for (size_t i = 0; i < n; ++i) { int k = (int)((i * 5 + 3) % mod); json o(json_object_arg); if (strk) o.try_emplace("k", std::string(1, (char)('a' + k))); else o.try_emplace("k", k); o.try_emplace("pos", i); a.push_back(o); ref.emplace_back(k, i); }
        std::stable_sort(ref.begin(), ref.end(), [](const std::pair<int, size_t>& x, const std::pair<int, size_t>& y) { return x.first < y.first; });
        ++total; std::error_code ec; json r = jmespath::search(a, "sort_by(@, &k)", ec);
        bool ok = !ec && r.is_array() && r.size() == n; for (size_t i = 0; ok && i < n; ++i) ok = r[i]["pos"].as<size_t>() == ref[i].second;
        if (!ok) { if (!bad) first = "sort_by over " + std::to_string(n) + " elements with " + std::to_string(mod) + " distinct " + (strk ? "string" : "number") + " keys is not the stable sort by key"; ++bad; }
    }
    for (const char* doc : {R"([{"k":1},{"k":"a"}])", R"([{"k":[1]},{"k":[2]}])", R"([{"k":true},{"k":false}])", R"({"k":1})"}) { ++total; std::error_code ec; json r = jmespath::search(json::parse(doc), "sort_by(@, &k)", ec); if (!ec) { if (!bad) first = std::string("no error for ") + doc; ++bad; } }
    if (bad) VX_REPRO(bad << " of " << total << " sort_by results differ from the JMESPath specification, first: " << first);
    VX_NOREPRO("all " << total << " sort_by results are the stable sort by key, type errors are reported");
}
