# FuncSpecs shared by several units: utility/binary.hpp (byte order), etc.
from core import FuncSpec, CopySpec, INF

BIN = 'include/jsoncons/utility/binary.hpp'
W = {8: 0, 16: 1, 32: 2, 64: 3}


def byte_swap_macros():
    return CopySpec('byte_swap_macros', 'include/jsoncons/config/compiler_support.hpp',
                    r'#if defined\(__GNUC__\)\s*\n#if \(__GNUC__ \* 100', r'#elif defined\(__sun\)', include_end=False,
                    rules=[(r'\Z', '\n#endif\n', 1, 1)])


def byte_swap(bits):
    return FuncSpec('byte_swap_u%d' % bits, BIN, r'\bbyte_swap\s*\(T val\)', ordinal=W[bits],
                    csig='static uint%d_t byte_swap_u%d(uint%d_t val)' % (bits, bits, bits),
                    contract=[('ensures', '[C06][C07] byte_swap reverses the byte order',
                               ' && '.join('((__CPROVER_return_value >> %d) & 0xff) == ((val >> %d) & 0xff)' % (8 * i, bits - 8 - 8 * i)
                                           for i in range(bits // 8))),
                              ('assigns', '')])


def native_to_big(bits, push='vx_sink_push'):
    # template <T,OutputIt,Endian> native_to_big(T val, OutputIt d_first): little-endian definition (ordinal 1)
    return FuncSpec('native_to_big_u%d' % bits, BIN, r'\bnative_to_big\s*\(T val, OutputIt d_first\)', ordinal=1, count=2,
                    csig='static void native_to_big_u%d(uint%d_t val)' % (bits, bits),
                    rules=[(r'\bT val2\b', 'uint%d_t val2' % bits, 1),
                           (r'\bbyte_swap\(', 'byte_swap_u%d(' % bits, 1),
                           (r'sizeof\(T\)', 'sizeof(uint%d_t)' % bits, 2),
                           (r'for \(auto item : buf\)\s*\{\s*\*d_first\+\+ = item;\s*\}',
                            'for (size_t vx_i = 0; vx_i < sizeof(buf); ++vx_i) { %s(buf[vx_i]); }' % push, 1)])


def native_to_little(bits, push='vx_sink_push'):
    return FuncSpec('native_to_little_u%d' % bits, BIN, r'\bnative_to_little\s*\(T val, OutputIt d_first\)', ordinal=0, count=2,
                    csig='static void native_to_little_u%d(uint%d_t val)' % (bits, bits),
                    rules=[(r'sizeof\(T\)', 'sizeof(uint%d_t)' % bits, 2),
                           (r'for \(auto item : buf\)\s*\{\s*\*d_first\+\+ = item;\s*\}',
                            'for (size_t vx_i = 0; vx_i < sizeof(buf); ++vx_i) { %s(buf[vx_i]); }' % push, 1)])


def big_to_native(bits):
    return FuncSpec('big_to_native_u%d' % bits, BIN, r'\bbig_to_native\s*\(const uint8_t\* first, std::size_t count\)', ordinal=1, count=2,
                    csig='static uint%d_t big_to_native_u%d(const uint8_t* first, size_t count)' % (bits, bits),
                    rules=[(r'\bT val;', 'uint%d_t val;' % bits, 1),
                           (r'\bbyte_swap\(', 'byte_swap_u%d(' % bits, 1),
                           (r'return T\{\};', 'return 0;', 1),
                           (r'sizeof\(T\)', 'sizeof(uint%d_t)' % bits, 2)])


def little_to_native(bits):
    return FuncSpec('little_to_native_u%d' % bits, BIN, r'\blittle_to_native\s*\(const uint8_t\* first, std::size_t count\)', ordinal=0, count=2,
                    csig='static uint%d_t little_to_native_u%d(const uint8_t* first, size_t count)' % (bits, bits),
                    rules=[(r'\bT val;', 'uint%d_t val;' % bits, 1),
                           (r'return T\{\};', 'return 0;', 1),
                           (r'sizeof\(T\)', 'sizeof(uint%d_t)' % bits, 2)])


def binary_group(push='vx_sink_push', widths=(16, 32, 64), little=False):
    g = [byte_swap_macros()]
    for b in widths:
        g.append(byte_swap(b))
    for b in widths:
        g.append(native_to_big(b, push))
        g.append(big_to_native(b))
        if little:
            g.append(native_to_little(b, push))
            g.append(little_to_native(b))
    return g


def byte_swap_float(bits):
    # the two floating-point overloads of byte_swap come after the four integral ones and before the 128-bit one
    return FuncSpec('byte_swap_f%d' % bits, BIN, r'\bbyte_swap\s*\(T val\)', ordinal={32: 4, 64: 5}[bits],
                    csig='static %s byte_swap_f%d(%s val)' % ({32: 'float', 64: 'double'}[bits], bits, {32: 'float', 64: 'double'}[bits]),
                    rules=[(r'\bT val2;', '%s val2;' % {32: 'float', 64: 'double'}[bits], 1),
                           (r'byte_swap\(x\)', 'byte_swap_u%d(x)' % bits, 1)])


def big_to_native_float(bits):
    t = {32: 'float', 64: 'double'}[bits]
    return FuncSpec('big_to_native_f%d' % bits, BIN, r'\bbig_to_native\s*\(const uint8_t\* first, std::size_t count\)', ordinal=1, count=2,
                    csig='static %s big_to_native_f%d(const uint8_t* first, size_t count)' % (t, bits),
                    rules=[(r'\bT val;', '%s val;' % t, 1), (r'\bbyte_swap\(', 'byte_swap_f%d(' % bits, 1), (r'return T\{\};', 'return 0;', 1),
                           (r'sizeof\(T\)', 'sizeof(%s)' % t, 2)])


def little_to_native_float(bits):
    t = {32: 'float', 64: 'double'}[bits]
    return FuncSpec('little_to_native_f%d' % bits, BIN, r'\blittle_to_native\s*\(const uint8_t\* first, std::size_t count\)', ordinal=0, count=2,
                    csig='static %s little_to_native_f%d(const uint8_t* first, size_t count)' % (t, bits),
                    rules=[(r'\bT val;', '%s val;' % t, 1), (r'return T\{\};', 'return 0;', 1), (r'sizeof\(T\)', 'sizeof(%s)' % t, 2)])


def native_to_big_float(bits, push='vx_sink_push'):
    # the little-endian definition of native_to_big instantiated with T = float / double (goes through the floating byte_swap overload)
    t = {32: 'float', 64: 'double'}[bits]
    return FuncSpec('native_to_big_f%d' % bits, BIN, r'\bnative_to_big\s*\(T val, OutputIt d_first\)', ordinal=1, count=2,
                    csig='static void native_to_big_f%d(%s val)' % (bits, t),
                    rules=[(r'\bT val2\b', '%s val2' % t, 1),
                           (r'\bbyte_swap\(', 'byte_swap_f%d(' % bits, 1),
                           (r'sizeof\(T\)', 'sizeof(%s)' % t, 2),
                           (r'for \(auto item : buf\)\s*\{\s*\*d_first\+\+ = item;\s*\}',
                            'for (size_t vx_i = 0; vx_i < sizeof(buf); ++vx_i) { %s(buf[vx_i]); }' % push, 1)])
