/* unit half: binary::decode_half (IEEE 754 binary16 -> binary64, used for CBOR half-precision floats) */
#include "vx_common.h"
/* ldexp(x, e) = x * 2^e (ISO C 7.12.6.6), exact here: modelled as the multiplication by the exactly representable power of two (e in [-24, 5]) */
static double vx_ldexp(double x, int e)
{
    __CPROVER_assert(e >= -24 && e <= 5, "[C05] ldexp exponent within the range of half-precision scaling");
    union { double d; uint64_t u; } p; p.u = (uint64_t)(e + 1023) << 52;
    return x * p.d;
}
static uint64_t vx_bits64(double d) { union { double d; uint64_t u; } x; x.d = d; return x.u; }
/* S-HALF: IEEE 754-2019 binary16 (1 sign, 5 exponent bits bias 15, 10 fraction bits) widened exactly to binary64; returns the bit pattern, NaN -> any NaN */
static uint64_t spec_half_to_double_bits(uint16_t h, int* is_nan)
{
    uint64_t sign = (uint64_t)(h >> 15) << 63; int e = (h >> 10) & 0x1f; uint64_t m = h & 0x3ff;
    *is_nan = 0;
    if (e == 31) { if (m) { *is_nan = 1; return 0; } return sign | (0x7ffull << 52); }
    if (e != 0) return sign | ((uint64_t)(e - 15 + 1023) << 52) | (m << 42);
    if (m == 0) return sign;
    int k = m & 0x200 ? 9 : m & 0x100 ? 8 : m & 0x80 ? 7 : m & 0x40 ? 6 : m & 0x20 ? 5 : m & 0x10 ? 4 : m & 0x8 ? 3 : m & 0x4 ? 2 : m & 0x2 ? 1 : 0;   /* highest set bit */
    return sign | ((uint64_t)(k - 24 + 1023) << 52) | ((m - (1ull << k)) << (52 - k));
}
static int vx_is_nan_spec;
/*@FUNC decode_half@*/
#ifdef VX_CBMC
void h_decode_half(void) { decode_half(nondet_u16()); }
#endif
