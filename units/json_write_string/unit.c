/* unit json_write_string (C01, C08): write_string of both JSON encoders (the pretty-printing one and the compact one): which strings are copied verbatim
 * between the quotes and which go through escape_string.  The verbatim copy is sound only for strings that the parser tagged noesc (it saw no escape
 * sequence: unit json_string) and only while neither escaping option is on; big-number strings go to write_bignum_value. */
#include "vx_common.h"
/*@ENUM semantic_tag@*/
/*@ENUM bignum_format_kind@*/
struct enc_options { bool escape_all_non_ascii_, escape_solidus_; uint8_t bignum_format_; };
static struct enc_options vx_opt; static size_t column_, vx_len, vx_esc_len;
enum { EV_QUOTE = 1, EV_RAW, EV_ESCAPE, EV_BIGNUM };
static int vx_ev[4]; static unsigned vx_nev; static bool vx_esc_a, vx_esc_s;
static void vx_event(int e) { if (vx_nev < 4) vx_ev[vx_nev] = e; vx_nev++; }
static size_t vx_escape(bool all_non_ascii, bool solidus) { vx_event(EV_ESCAPE); vx_esc_a = all_non_ascii; vx_esc_s = solidus; return vx_esc_len; }
/*@FUNC write_string_pretty@*/
/*@FUNC write_string_compact@*/
#ifdef VX_CBMC
static void setup(void) { vx_opt.escape_all_non_ascii_ = nondet_bool(); vx_opt.escape_solidus_ = nondet_bool(); vx_opt.bignum_format_ = nondet_u8(); column_ = nondet_size(); vx_len = nondet_size(); vx_esc_len = nondet_size();
    __CPROVER_assume(column_ <= SIZE_MAX / 4 && vx_len <= SIZE_MAX / 4 && vx_esc_len <= SIZE_MAX / 4); vx_nev = 0; }
void h_write_string_pretty(void) { setup(); write_string_pretty(nondet_u8()); }
void h_write_string_compact(void) { setup(); write_string_compact(nondet_u8()); }
#endif
