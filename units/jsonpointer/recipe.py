# U-PTR-ESC, U-PTR-PARSE, U-PTR-RESOLVE (DESIGN 6): JSON Pointer string level (RFC 6901)
from core import FuncSpec, CopySpec, EnumSpec, DeclSpec, Harness, INF
import units as _u
_int = _u.load_unit('integers')

JP = 'include/jsoncons_ext/jsonpointer/jsonpointer.hpp'
RES = '__CPROVER_return_value'

# ---- escape / escape_string / to_string inner loop: output monitor = S-PTR token decoder compared with the input on the fly
ESC_LOOP = '''__CPROVER_assigns(vx_i, vx_k, vx_ust, vx_bad, vx_out_n)
  __CPROVER_loop_invariant(vx_i <= vx_len && vx_k == vx_i && vx_ust == 0 && !vx_bad && vx_out_n >= vx_i && vx_out_n <= 2 * vx_i)
  __CPROVER_decreases(vx_len - vx_i)'''
ESC_CONTRACT = [
    ('requires', 'vx_len <= VX_IN_MAX && vx_k == 0 && vx_ust == 0 && !vx_bad && vx_out_n == 0'),
    ('assigns', 'vx_k, vx_ust, vx_bad, vx_out_n'),
    ('ensures', '[C14] the escaped text decodes (RFC 6901 section 4: ~1 -> /, ~0 -> ~) back to exactly the input token, character by character, and contains no raw "/"',
     '!vx_bad && vx_k == vx_len && vx_ust == 0'),
    ('ensures', '[C14] escaping applied exactly as specified: at most two output characters per input character', 'vx_out_n >= vx_len && vx_out_n <= 2 * vx_len'),
]
ESC_RULES = [
    (r'std::basic_string<CharT(,std::char_traits<CharT>,Allocator)?> result;', '', 1),
    (r'for \(auto c : s\)\s*\{', 'for (size_t vx_i = 0; vx_i < vx_len; ++vx_i) { char c = vx_in[vx_i];', 1),
    (r'result\.push_back\(', 'VX_ESC_OUT(', 5),
    (r'return result;', 'return;', 1),
]

# ---- parse: flattened ghost token stream; re-escaping the produced tokens must reproduce the input
PARSE_LOOP = '''__CPROVER_assigns(p, state, vx_mon, vx_k, vx_open, vx_bad, vx_ntok)
  __CPROVER_loop_invariant(__CPROVER_same_object(p, vx_in) && __CPROVER_POINTER_OFFSET(p) <= vx_len && *ec_p == 0 && !vx_bad
     && (state == pointer_state_start || state == pointer_state_escaped || state == pointer_state_new_token || state == pointer_state_part)
     && ((state == pointer_state_start) == (vx_mon == PTR_START)) && ((state == pointer_state_escaped) == (vx_mon == PTR_TILDE))
     && ((state == pointer_state_new_token || state == pointer_state_part) == (vx_mon == PTR_TOKEN))
     && (state == pointer_state_start ==> (__CPROVER_POINTER_OFFSET(p) == 0 && !vx_open))
     && vx_k + (state == pointer_state_escaped ? 1 : 0) + ((vx_mon != PTR_START && !vx_open) ? 1 : 0) == __CPROVER_POINTER_OFFSET(p)
     && ((vx_mon != PTR_START && !vx_open) ==> (vx_k < vx_len && vx_in[vx_k] == '/'))
     && ((state == pointer_state_escaped) ==> (__CPROVER_POINTER_OFFSET(p) >= 1 && vx_in[__CPROVER_POINTER_OFFSET(p) - 1] == '~')))
  __CPROVER_decreases(vx_len - __CPROVER_POINTER_OFFSET(p))'''
PARSE_CONTRACT = [
    ('requires', 'vx_len <= VX_IN_MAX && *ec_p == 0 && vx_mon == PTR_START && vx_k == 0 && !vx_open && !vx_bad && vx_ntok == 0'),
    ('assigns', '*ec_p, vx_mon, vx_final_mon, vx_k, vx_open, vx_bad, vx_ntok'),
    ('ensures', '[C14] accepted iff the string is a JSON Pointer by the RFC 6901 grammar (empty, or "/"-led tokens with every "~" followed by 0 or 1)',
     '(*ec_p == 0) == (vx_final_mon == PTR_START || vx_final_mon == PTR_TOKEN)'),
    ('ensures', '[C14] a non-empty pointer that does not start with "/" is expected_slash', '(vx_final_mon == PTR_ERR_SLASH) == (*ec_p == jsonpointer_errc_expected_slash)'),
    ('ensures', '[C14] "~" not followed by 0 or 1 (also at the end) is expected_0_or_1', '(vx_final_mon == PTR_ERR_ESC || vx_final_mon == PTR_TILDE) == (*ec_p == jsonpointer_errc_expected_0_or_1)'),
    ('ensures', '[C14] on success, printing the tokens back ("/" + escape(token) for each) reproduces the input exactly: to_string(parse(s)) == s',
     '*ec_p == 0 ==> (!vx_bad && vx_k == vx_len && !vx_open)'),
]
PARSE_RULES = [
    (r'std::vector<string_type> tokens;', '', 1),
    (r'input\.empty\(\)', '(vx_len == 0)', 1),
    (r'return basic_json_pointer<CharT>\(\);', '{ vx_final_mon = vx_mon; return; }', 1),
    (r'return basic_json_pointer\(\);', '{ vx_final_mon = vx_mon; return; }', 3),
    (r'return basic_json_pointer\(tokens\);', '{ vx_final_mon = vx_mon; return; }', 1),
    (r'const char_type\* p = input\.data\(\);', 'const char* p = vx_in;', 1),
    (r'const char_type\* pend = input\.data\(\) \+ input\.size\(\);', 'const char* pend = vx_in + vx_len;', 1),
    (r'string_type unescaped;', '', 1), (r'string_type buffer;', '', 1),
    (r'auto state = jsonpointer::detail::pointer_state::start;', 'int state = pointer_state_start;', 1),
    (r'jsonpointer::detail::pointer_state::(\w+)', r'pointer_state_\1', 10, 20),
    (r'jsonpointer_errc::(\w+)', r'jsonpointer_errc_\1', 3),
    (r'tokens\.push_back\(buffer\);', 'VX_TOKEN_END();', 2),
    (r'buffer\.clear\(\);', '', 1),
    (r'buffer\.push_back\(', 'VX_TOK_CHAR(', 3),
    # the monitor reads each character the loop body examines (R6 ghost insertion at the head of the loop body)
    (r'(while \(p < pend\)\s*\{)', r'\1 VX_MON_STEP(*p);', 1),
    (r'\};', '}', 3),
]

# ---- resolve (array branch): token -> index
TOK_IS_DASH = "(vx_len == 1 && vx_s[0] == '-')"
VALID = 'spec_ptr_is_array_index(vx_s, vx_len, vx_k)'
RESOLVE_CONTRACT = [
    ('requires', '*ec_p == 0 && vx_visits == 0 && vx_h == 0 && vx_h_i == 0 && vx_len <= SPEC_INT_MAXLEN && __CPROVER_r_ok(vx_s, vx_len)'),
    ('assigns', '*ec_p, vx_visits, vx_visited, vx_key_visits, vx_h, vx_h_i'),
    ('ensures', '[C14] array, token "-": refers to the (nonexistent) element after the last one -> index_exceeds_array_size, nothing selected',
     '(vx_is_array && %s) ==> (*ec_p == jsonpointer_errc_index_exceeds_array_size && vx_visits == 0)' % TOK_IS_DASH),
    ('ensures', '[C14] array, token not in the array-index syntax ("0" or digits without leading zero) -> invalid_index, nothing selected',
     '(vx_is_array && !%s && !%s) ==> (*ec_p == jsonpointer_errc_invalid_index && vx_visits == 0)' % (TOK_IS_DASH, VALID)),
    ('ensures', '[C14] array, valid index below the array size -> exactly that element is selected',
     '(vx_is_array && %s && vx_len <= 20 && vx_h_i == vx_len && vx_h < (spec_u128)vx_size) ==> (*ec_p == 0 && vx_visits == 1 && (spec_u128)vx_visited == vx_h)' % VALID),
    ('ensures', '[C14] an element is selected only for a valid index whose value (Horner value of the token) is below the array size',
     '(vx_is_array && vx_visits != 0) ==> (vx_visits == 1 && *ec_p == 0 && %s && vx_h_i == vx_len && (spec_u128)vx_visited == vx_h && vx_visited < vx_size)' % VALID),
    ('ensures', '[C14] array, valid syntax but not below the size (or not representable): an error, nothing selected',
     '(vx_is_array && %s && (vx_len > 20 || !(vx_h_i == vx_len && vx_h < (spec_u128)vx_size))) ==> (*ec_p != 0 && vx_visits == 0)' % VALID),
    ('ensures', '[C14] neither array nor object -> expected_object_or_array', '(!vx_is_array && !vx_is_object) ==> *ec_p == jsonpointer_errc_expected_object_or_array'),
    ('ensures', '[C14] object: the member is looked up by the token itself (no index interpretation); missing member -> key_not_found',
     '(!vx_is_array && vx_is_object) ==> (vx_visits == 0 && (vx_contains ? (vx_key_visits == 1 && *ec_p == 0) : (vx_key_visits == 0 && *ec_p == jsonpointer_errc_key_not_found)))'),
]
RESOLVE_RULES = [
    (r'current->is_array\(\)', 'vx_is_array', 1), (r'current->is_object\(\)', 'vx_is_object', 1),
    (r'buffer\.size\(\)', 'vx_len', 1), (r'buffer\.length\(\)', 'vx_len', 2), (r'buffer\[0\]', 'vx_s[0]', 2), (r'buffer\.data\(\)', 'vx_s', 1),
    (r'std::size_t index\{0\};', 'uint64_t index = 0;', 1),
    (r'auto result = jsoncons::dec_to_integer\(', 'struct to_number_result result = dec_to_integer_u64(', 1),
    (r', index\);', ', &index);', 1),
    (r'!result\b', '(result.ec != VX_ERRC_ok)', 1),
    (r'current->size\(\)', 'vx_size', 1),
    (r'current = std::addressof\(current->at\(index\)\);', 'VX_AT(index);', 1),
    (r'!current->contains\(buffer\)', '!vx_contains', 1),
    (r'current = std::addressof\(current->at\(buffer\)\);', 'VX_AT_KEY();', 1),
    (r'jsonpointer_errc::(\w+)', r'jsonpointer_errc_\1', 5),
    (r'return current;', 'return;', 6),
]

SPECS = [
    DeclSpec('dec_contract_decl', 'dec_to_integer_u64', 'struct to_number_result dec_to_integer_u64(const char* s, size_t length, uint64_t* value_p)', _int.DEC_U64, 'integers'),
    EnumSpec('jsonpointer_errc', 'include/jsoncons_ext/jsonpointer/jsonpointer_error.hpp'),
    EnumSpec('pointer_state', JP),
    FuncSpec('escape', JP, r'escape\(jsoncons::basic_string_view<CharT> s, const Allocator& = Allocator\(\)\)', count=1,
             csig='void escape(void)', contract=ESC_CONTRACT, rules=ESC_RULES, loops={0: ESC_LOOP, 'count': 1}),
    FuncSpec('escape_string', JP, r'std::basic_string<CharT> escape_string\(const std::basic_string<CharT>& s\)', count=1,
             csig='void escape_string(void)', contract=ESC_CONTRACT, rules=ESC_RULES, loops={0: ESC_LOOP, 'count': 1}),
    FuncSpec('to_string_token', JP, r'string_type to_string\(\) const', count=1,
             csig='void to_string_token(void)', contract=ESC_CONTRACT, loops={0: ESC_LOOP, 'count': 1},
             rules=[(r'string_type buffer;', '', 1),
                    # program slice: the outer loop over tokens and the "/" separator are dropped, the per-token escaping loop is verbatim
                    (r'for \(const auto& token : tokens_\)\s*\{\s*buffer\.push_back\(\'/\'\);', '{', 1),
                    (r'for \(auto c : token\)\s*\{', 'for (size_t vx_i = 0; vx_i < vx_len; ++vx_i) { char c = vx_in[vx_i];', 1),
                    (r'buffer\.push_back\(', 'VX_ESC_OUT(', 5), (r'return buffer;', 'return;', 1)]),
    FuncSpec('parse', JP, r'static basic_json_pointer parse\(const string_view_type& input, std::error_code& ec\)', count=1,
             csig='void parse(int* ec_p)', contract=PARSE_CONTRACT, aliases={'ec': '(*ec_p)'}, rules=PARSE_RULES, loops={0: PARSE_LOOP, 'count': 1}),
    FuncSpec('resolve_get', JP, r'const Json\* resolve\(const Json\* current, const typename Json::string_view_type& buffer, std::error_code& ec\)', count=1,
             csig='void resolve_get(int* ec_p)', contract=RESOLVE_CONTRACT, rules=RESOLVE_RULES + [(r'(?<![.\w])ec = ', '(*ec_p) = ', 5)]),
]
SITE_CHECKS = [
    {'file': JP, 'pattern': r"if \(!result \|\| \(buffer\.length\(\) > 1 && buffer\[0\] == '0'\)\)", 'count': 6, 'props': ['C14'],
     'what': 'all six array-index sites (resolve x2, add, add_if_absent, replace, remove) apply the same syntax test as the verified resolve'},
]
HARNESSES = [
    Harness('escape', 'h_escape', enforce='escape', loop_contracts=True, method='LC', props=['C14'], expect_classes={'loop_invariant_step': 1}),
    Harness('escape_string', 'h_escape_string', enforce='escape_string', loop_contracts=True, method='LC', props=['C14'], expect_classes={'loop_invariant_step': 1}),
    Harness('to_string_token', 'h_to_string_token', enforce='to_string_token', loop_contracts=True, method='LC', props=['C14'], expect_classes={'loop_invariant_step': 1}),
    Harness('parse', 'h_parse', enforce='parse', loop_contracts=True, method='LC', props=['C14'], expect_classes={'loop_invariant_step': 1}, timeout=900),
    Harness('resolve_get', 'h_resolve_get', enforce='resolve_get', replace=['dec_to_integer_u64'], method='WU(26)', unwind=26, props=['C14']),
]
