/* unit cbor_item: cbor_parser::read_tags, read_double, handle_string and the item dispatcher read_item (RFC 8949 section 3) */
#define VX_SRC_CAP 40
#include "vx_common.h"
#include "model_source.h"
#include "spec_cbor.h"

/*@ENUM cbor_errc@*/
/*@ENUM cbor_major_type@*/
/*@ENUM semantic_tag@*/
/*@COPY cbor_0x00_0x17@*/
/*@COPY tag_slots@*/
/*@GROUP binary@*/

enum { mdarray_order_row_major = 0, mdarray_order_column_major = 1 };
struct cbor_parser { bool more_; bool cursor_mode_; uint64_t raw_tag_; bool other_tags_[num_of_tags]; int order_; };

/* ghost visitor: the single event of an item */
enum { VX_EV_NONE = 0, VX_EV_UINT64, VX_EV_INT64, VX_EV_DOUBLE, VX_EV_HALF, VX_EV_NULL, VX_EV_TRUE, VX_EV_FALSE, VX_EV_STRING, VX_EV_TEXT };
static unsigned vx_events; static int vx_ev_kind; static uint64_t vx_ev_u; static int64_t vx_ev_i; static double vx_ev_d; static int vx_ev_tag;
static int vx_str_src;   /* where the string handed to handle_string / read_byte_string comes from: 1 = the input, 2 = the stringref table */
static void vx_ev(int kind, int tag) { vx_events++; vx_ev_kind = kind; vx_ev_tag = tag; }
/* ghost stringref table: only emptiness of the namespace stack, the size of the innermost table and the type of the addressed entry matter */
static bool vx_sr_empty; static size_t vx_sr_size; static uint8_t vx_sr_type; static unsigned vx_sr_ats; static size_t vx_sr_index;
#define VX_SR_AT(i) do { __CPROVER_assert((i) < vx_sr_size, "[C05][C07] stringref index is inside the stringref table (std::vector::at would throw std::out_of_range, a foreign exception)"); vx_sr_index = (i); vx_sr_ats++; } while (0)
/* callees not under contract here: each may fail with an error code */
static unsigned vx_bytes_calls, vx_text_calls, vx_hs_calls, vx_array_calls, vx_object_calls, vx_decfrac_calls, vx_bigfloat_calls, vx_md_calls; static uint8_t vx_begin_info;
static bool vx_utf8_ok;
static void vx_maybe_fail(struct cbor_parser* self, int* ec_p) { if (nondet_bool()) { int e = nondet_int(); __CPROVER_assume(e != 0); *ec_p = e; self->more_ = false; } }
static void vx_read_byte_string(struct cbor_parser* self, int from, int* ec_p) { vx_bytes_calls++; vx_str_src = from; vx_maybe_fail(self, ec_p); }
static void vx_read_text(struct cbor_parser* self, int* ec_p) { vx_text_calls++; vx_maybe_fail(self, ec_p); }
static void vx_begin_array(struct cbor_parser* self, uint8_t info, int* ec_p) { vx_array_calls++; vx_begin_info = info; vx_maybe_fail(self, ec_p); }
static void vx_begin_object(struct cbor_parser* self, uint8_t info, int* ec_p) { vx_object_calls++; vx_begin_info = info; vx_maybe_fail(self, ec_p); }
static void vx_read_decimal_fraction(struct cbor_parser* self, int* ec_p) { vx_decfrac_calls++; vx_maybe_fail(self, ec_p); }
static void vx_read_bigfloat(struct cbor_parser* self, int* ec_p) { vx_bigfloat_calls++; vx_maybe_fail(self, ec_p); }
static void vx_read_mdarray_header(struct cbor_parser* self, int* ec_p) { vx_md_calls++; vx_maybe_fail(self, ec_p); }
static uint64_t vx_bits64(double d) { union { double d; uint64_t u; } x; x.d = d; return x.u; }
static uint32_t vx_bits32(float f) { union { float f; uint32_t u; } x; x.f = f; return x.u; }
/* snapshot taken right after read_tags: position of the item's initial byte and the tag flags that apply to it */
static size_t vx_p0; static bool vx_f_sr, vx_f_item; static uint64_t vx_raw; static int vx_tags_ec;
/* (used inside read_item, where the member alias macros other_tags_, raw_tag_, ec are in force) */
#define VX_SNAPSHOT() do { vx_p0 = vx_src_pos; vx_f_sr = other_tags_[stringref_tag]; vx_f_item = other_tags_[item_tag]; vx_raw = raw_tag_; vx_tags_ec = ec; } while (0)

/*@FUNC get_additional_information_value@*/
/*@FUNC get_major_type@*/
/*@FUNC read_uint64_decl@*/
/*@FUNC read_int64_decl@*/
/*@FUNC read_tags@*/
/*@FUNC read_double@*/
/*@FUNC handle_string@*/
/*@FUNC read_item@*/

#ifdef VX_CBMC
static struct cbor_parser vx_p; static int vx_ec;
static void setup(void)
{
    __CPROVER_havoc_object(vx_src);
    vx_src_n = nondet_size(); vx_src_pos = nondet_size();
    __CPROVER_assume(vx_src_n <= VX_SRC_CAP - 12 && vx_src_pos <= vx_src_n);
    vx_p.more_ = true; vx_p.cursor_mode_ = nondet_bool(); vx_p.raw_tag_ = nondet_u64(); vx_p.order_ = 0;
    vx_p.other_tags_[0] = nondet_bool(); vx_p.other_tags_[1] = nondet_bool(); vx_p.other_tags_[2] = nondet_bool();
    vx_events = 0; vx_ev_kind = VX_EV_NONE; vx_ec = 0; vx_sr_empty = nondet_bool(); vx_sr_size = nondet_size(); vx_sr_type = nondet_u8(); vx_sr_ats = 0;
    vx_bytes_calls = 0; vx_text_calls = 0; vx_hs_calls = 0; vx_array_calls = 0; vx_object_calls = 0; vx_decfrac_calls = 0; vx_bigfloat_calls = 0; vx_md_calls = 0;
    vx_utf8_ok = nondet_bool(); vx_str_src = 0;
    /* the table holds only text and byte strings (the two insertion sites store exactly these types) */
    __CPROVER_assume(vx_sr_type == cbor_major_type_text_string || vx_sr_type == cbor_major_type_byte_string);
}
void h_read_tags(void) { setup(); read_tags(&vx_p, &vx_ec); }
void h_read_double(void) { setup(); read_double(&vx_p, &vx_ec); }
void h_handle_string(void) { setup(); handle_string(&vx_p, nondet_int(), &vx_ec); }
void h_read_item(void)
{
    setup();
    read_item(&vx_p, &vx_ec);
}
#endif
