// replay for unit cbor_head: runs the verifier's counterexample on the real template instantiations
#include <jsoncons/json.hpp>
#include <jsoncons_ext/cbor/cbor.hpp>
#include "replay_util.hpp"
extern "C" {
#include "spec_cbor.h"
}
using namespace jsoncons;
int main(int argc, char** argv)
{
    if (argc < 3) return 2;
    std::string h = argv[1];
    vx_replay_inputs in; if (!in.load(argv[2])) return 2;
    if (h == "read_uint64" || h == "read_int64") {
        size_t n = in.u64("vx_src_n"), pos = in.u64("vx_src_pos");
        auto all = in.bytes("vx_src", 24);
        std::vector<uint8_t> data(all.begin() + pos, all.begin() + n);
        cbor::basic_cbor_parser<bytes_source> p{bytes_source(data)};
        std::error_code ec;
        size_t avail = data.size();
        if (h == "read_uint64") {
            uint64_t v = p.read_uint64(ec);
            if (avail == 0) { if (!ec) VX_REPRO("empty input accepted"); VX_NOREPRO("eof reported"); }
            int nb = spec_cbor_arg_bytes(data[0] & 0x1f);
            if (nb < 0) { if (!ec) VX_REPRO("reserved additional information decoded as " << v); VX_NOREPRO("rejected"); }
            if (avail < 1 + (size_t)nb) { if (!ec) VX_REPRO("truncated argument accepted"); VX_NOREPRO("eof reported"); }
            uint64_t want = nb == 0 ? (uint64_t)(data[0] & 0x1f) : spec_be(&data[1], nb);
            if (ec || v != want) VX_REPRO("argument decoded as " << v << " expected " << want << " ec=" << ec.message());
            VX_NOREPRO("value ok");
        } else {
            int64_t v = p.read_int64(ec);
            if (avail == 0) { if (!ec) VX_REPRO("empty input accepted"); VX_NOREPRO("eof reported"); }
            int major = data[0] >> 5; int nb = spec_cbor_arg_bytes(data[0] & 0x1f);
            if (major > 1) VX_NOREPRO("not an integer item");
            if (nb < 0) { if (!ec) VX_REPRO("reserved additional information decoded as " << v); VX_NOREPRO("rejected"); }
            if (avail < 1 + (size_t)nb) { if (!ec) VX_REPRO("truncated argument accepted"); VX_NOREPRO("eof reported"); }
            uint64_t arg = nb == 0 ? (uint64_t)(data[0] & 0x1f) : spec_be(&data[1], nb);
            if (arg > (uint64_t)INT64_MAX) { if (!ec) VX_REPRO("argument " << arg << " beyond int64 decoded as " << v); VX_NOREPRO("rejected"); }
            int64_t want = major == 1 ? -1 - (int64_t)arg : (int64_t)arg;
            if (ec || v != want) VX_REPRO("decoded as " << v << " expected " << want);
            VX_NOREPRO("value ok");
        }
    }
    if (h == "write_type_and_length" || h == "lemma_roundtrip") {
        uint8_t m = (uint8_t)in.u64("m"); uint64_t len = in.u64(h == "lemma_roundtrip" ? "x" : "len");
        std::vector<uint8_t> out;
        cbor::basic_cbor_encoder<bytes_sink<std::vector<uint8_t>>> enc(out);
        enc.write_type_and_length(m, len);
        enc.flush();
        uint8_t exp[9]; int k = spec_cbor_head((uint8_t)(m >> 5), len, exp);
        if (out.size() != (size_t)k || std::memcmp(out.data(), exp, k) != 0)
            VX_REPRO("write_type_and_length(0x" << std::hex << (int)m << ", " << std::dec << len << ") wrote " << out.size() << " bytes, RFC 8949 preferred head has " << k);
        cbor::basic_cbor_parser<bytes_source> p{bytes_source(out)};
        std::error_code ec; uint64_t y = p.read_uint64(ec);
        if (ec || y != len) VX_REPRO("read_uint64(write(..)) = " << y << " != " << len);
        VX_NOREPRO("head ok");
    }
    if (h == "write_bignum_head" || h == "write_uint64_value" || h == "write_int64_value") {
        // big numbers of every magnitude length around the head-width boundaries, both signs: head must be tag 2/3 + preferred byte-string head, and decode back
        std::vector<size_t> lens; for (size_t l = 9; l <= 40; ++l) lens.push_back(l); for (size_t l : {255u, 256u, 257u, 300u}) lens.push_back(l);
        if (in.has("vx_len") && in.u64("vx_len") >= 9 && in.u64("vx_len") <= 2000) lens.push_back((size_t)in.u64("vx_len"));
        for (size_t l : lens) for (int neg = 0; neg < 2; ++neg) {
            bigint n(1); n <<= (int)(8 * l - 1); if (neg) n = -n;
            std::string text; n.write_string(text);
            json j(text, semantic_tag::bigint);
            std::vector<uint8_t> out; cbor::encode_cbor(j, out);
            uint8_t exp[9]; int k = spec_cbor_head(2, l, exp);   // (for -2^(8l-1) the magnitude of -1-n is 2^(8l-1)-1: also l bytes)
            if (out.size() < 1 + (size_t)k || out[0] != (neg ? 0xc3 : 0xc2) || std::memcmp(out.data() + 1, exp, k) != 0)
                VX_REPRO("big number with " << l << " magnitude bytes: head is not tag " << (neg ? 3 : 2) << " + RFC 8949 preferred byte-string head");
            try { json back = cbor::decode_cbor<json>(out); if (back.as<std::string>() != text) VX_REPRO("big number with " << l << " magnitude bytes does not decode back"); }
            catch (const std::exception& e) { VX_REPRO("big number with " << l << " magnitude bytes cannot be decoded: " << e.what()); }
        }
        for (uint64_t v : {0ull, 23ull, 24ull, 255ull, 256ull, 65535ull, 65536ull, 4294967295ull, 4294967296ull, 18446744073709551615ull}) {
            std::vector<uint8_t> out; cbor::encode_cbor(json(v), out); uint8_t exp[9]; int k = spec_cbor_head(0, v, exp);
            if (out.size() != (size_t)k || std::memcmp(out.data(), exp, k) != 0) VX_REPRO("unsigned " << v << " not written in preferred form");
            if (v <= (uint64_t)INT64_MAX) { int64_t s = -1 - (int64_t)v; std::vector<uint8_t> o2; cbor::encode_cbor(json(s), o2); int k2 = spec_cbor_head(1, v, exp); if (o2.size() != (size_t)k2 || std::memcmp(o2.data(), exp, k2) != 0) VX_REPRO("negative " << s << " not written in preferred form"); }
        }
        VX_NOREPRO("integers and big numbers are written with RFC 8949 preferred heads and decode back");
    }
    VX_NOREPRO("harness " << h << " has no replay");
}
