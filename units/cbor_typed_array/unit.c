/* unit cbor_typed_array: RFC 8746 typed-array tags on the encoder side (tag writers, typed branch of visit_typed_array) and the decoder's tag-field helpers */
#include "vx_common.h"
/*@ENUM semantic_tag@*/
/*@COPY tag_fields@*/
enum { endian_big = 0, endian_little = 1 };
/* S-TA: RFC 8746 section 2.1.  Tag = 0b010_f_s_e_ll:  f 0 integer / 1 float;  s 0 unsigned / 1 signed (0 for floats);  e 0 big / 1 little endian;
 * ll: integers 1 << ll bytes (uint8 .. uint64), floats 2 << ll bytes (binary16 .. binary128).  64 = uint8, 68 = uint8 clamped, 72 = sint8.  Not derived from jsoncons. */
static uint64_t spec_ta_tag(int f, int s, int e, int ll) { return 64u + (uint64_t)((f << 4) | (s << 3) | (e << 2) | ll); }
static int spec_ta_e(uint8_t tag) { return (tag >> 2) & 1; }
static size_t spec_ta_elem_size(uint8_t tag) { int f = (tag >> 4) & 1, ll = tag & 3; return f ? ((size_t)2 << ll) : ((size_t)1 << ll); }
static unsigned vx_tags; static uint64_t vx_tag_val;
static void vx_write_tag(uint64_t t) { vx_tags++; vx_tag_val = t; }
static unsigned vx_bs; static size_t vx_bs_len; static bool vx_bs_after_tag; static size_t vx_items; static bool use_typed_arrays_;
static void vx_write_byte_string(size_t n) { vx_bs++; vx_bs_len = n; vx_bs_after_tag = (vx_tags == 1); }
static void vx_end_value(void) { vx_items++; }
/*@GROUP tag_writers@*/
/*@GROUP visits@*/
/*@FUNC get_typed_array_endianness@*/
/*@FUNC get_typed_array_bytes_per_element@*/
#ifdef VX_CBMC
void h_wtat_be_u16(void) { vx_tags = 0; wtat_be_u16(); }
void h_wtat_le_u16(void) { vx_tags = 0; wtat_le_u16(); }
void h_wtat_be_u32(void) { vx_tags = 0; wtat_be_u32(); }
void h_wtat_le_u32(void) { vx_tags = 0; wtat_le_u32(); }
void h_wtat_be_u64(void) { vx_tags = 0; wtat_be_u64(); }
void h_wtat_le_u64(void) { vx_tags = 0; wtat_le_u64(); }
void h_wtat_be_i16(void) { vx_tags = 0; wtat_be_i16(); }
void h_wtat_le_i16(void) { vx_tags = 0; wtat_le_i16(); }
void h_wtat_be_i32(void) { vx_tags = 0; wtat_be_i32(); }
void h_wtat_le_i32(void) { vx_tags = 0; wtat_le_i32(); }
void h_wtat_be_i64(void) { vx_tags = 0; wtat_be_i64(); }
void h_wtat_le_i64(void) { vx_tags = 0; wtat_le_i64(); }
void h_wtat_be_f16(void) { vx_tags = 0; wtat_be_f16(); }
void h_wtat_le_f16(void) { vx_tags = 0; wtat_le_f16(); }
void h_wtat_be_f32(void) { vx_tags = 0; wtat_be_f32(); }
void h_wtat_le_f32(void) { vx_tags = 0; wtat_le_f32(); }
void h_wtat_be_f64(void) { vx_tags = 0; wtat_be_f64(); }
void h_wtat_le_f64(void) { vx_tags = 0; wtat_le_f64(); }
void h_visit_typed_array_u8(void) { vx_tags = 0; vx_bs = 0; vx_items = 0; use_typed_arrays_ = nondet_bool(); size_t n = nondet_size(); uint8_t t = nondet_u8(); visit_typed_array_u8(n, t); }
void h_visit_typed_array_u16(void) { vx_tags = 0; vx_bs = 0; vx_items = 0; use_typed_arrays_ = nondet_bool(); size_t n = nondet_size(); uint8_t t = nondet_u8(); visit_typed_array_u16(n, t); }
void h_visit_typed_array_u32(void) { vx_tags = 0; vx_bs = 0; vx_items = 0; use_typed_arrays_ = nondet_bool(); size_t n = nondet_size(); uint8_t t = nondet_u8(); visit_typed_array_u32(n, t); }
void h_visit_typed_array_u64(void) { vx_tags = 0; vx_bs = 0; vx_items = 0; use_typed_arrays_ = nondet_bool(); size_t n = nondet_size(); uint8_t t = nondet_u8(); visit_typed_array_u64(n, t); }
void h_visit_typed_array_i8(void) { vx_tags = 0; vx_bs = 0; vx_items = 0; use_typed_arrays_ = nondet_bool(); size_t n = nondet_size(); uint8_t t = nondet_u8(); visit_typed_array_i8(n, t); }
void h_visit_typed_array_i16(void) { vx_tags = 0; vx_bs = 0; vx_items = 0; use_typed_arrays_ = nondet_bool(); size_t n = nondet_size(); uint8_t t = nondet_u8(); visit_typed_array_i16(n, t); }
void h_visit_typed_array_i32(void) { vx_tags = 0; vx_bs = 0; vx_items = 0; use_typed_arrays_ = nondet_bool(); size_t n = nondet_size(); uint8_t t = nondet_u8(); visit_typed_array_i32(n, t); }
void h_visit_typed_array_i64(void) { vx_tags = 0; vx_bs = 0; vx_items = 0; use_typed_arrays_ = nondet_bool(); size_t n = nondet_size(); uint8_t t = nondet_u8(); visit_typed_array_i64(n, t); }
void h_visit_typed_array_f16(void) { vx_tags = 0; vx_bs = 0; vx_items = 0; use_typed_arrays_ = nondet_bool(); size_t n = nondet_size(); uint8_t t = nondet_u8(); visit_typed_array_f16(n, t); }
void h_visit_typed_array_f32(void) { vx_tags = 0; vx_bs = 0; vx_items = 0; use_typed_arrays_ = nondet_bool(); size_t n = nondet_size(); uint8_t t = nondet_u8(); visit_typed_array_f32(n, t); }
void h_visit_typed_array_f64(void) { vx_tags = 0; vx_bs = 0; vx_items = 0; use_typed_arrays_ = nondet_bool(); size_t n = nondet_size(); uint8_t t = nondet_u8(); visit_typed_array_f64(n, t); }
void h_endianness(void) { uint8_t t = nondet_u8(); get_typed_array_endianness(t); }
void h_bytes_per_element(void) { uint8_t t = nondet_u8(); get_typed_array_bytes_per_element(t); }
void h_tags_agree(void)
{
    vx_tags = 0; wtat_be_u16(); __CPROVER_assert(vx_tag_val <= 255 && get_typed_array_endianness((uint8_t)vx_tag_val) == endian_big && get_typed_array_bytes_per_element((uint8_t)vx_tag_val) == 2, "[C06] tag written for be u16: the decoder helpers recover byte order and element size");
    vx_tags = 0; wtat_le_u16(); __CPROVER_assert(vx_tag_val <= 255 && get_typed_array_endianness((uint8_t)vx_tag_val) == endian_little && get_typed_array_bytes_per_element((uint8_t)vx_tag_val) == 2, "[C06] tag written for le u16: the decoder helpers recover byte order and element size");
    vx_tags = 0; wtat_be_u32(); __CPROVER_assert(vx_tag_val <= 255 && get_typed_array_endianness((uint8_t)vx_tag_val) == endian_big && get_typed_array_bytes_per_element((uint8_t)vx_tag_val) == 4, "[C06] tag written for be u32: the decoder helpers recover byte order and element size");
    vx_tags = 0; wtat_le_u32(); __CPROVER_assert(vx_tag_val <= 255 && get_typed_array_endianness((uint8_t)vx_tag_val) == endian_little && get_typed_array_bytes_per_element((uint8_t)vx_tag_val) == 4, "[C06] tag written for le u32: the decoder helpers recover byte order and element size");
    vx_tags = 0; wtat_be_u64(); __CPROVER_assert(vx_tag_val <= 255 && get_typed_array_endianness((uint8_t)vx_tag_val) == endian_big && get_typed_array_bytes_per_element((uint8_t)vx_tag_val) == 8, "[C06] tag written for be u64: the decoder helpers recover byte order and element size");
    vx_tags = 0; wtat_le_u64(); __CPROVER_assert(vx_tag_val <= 255 && get_typed_array_endianness((uint8_t)vx_tag_val) == endian_little && get_typed_array_bytes_per_element((uint8_t)vx_tag_val) == 8, "[C06] tag written for le u64: the decoder helpers recover byte order and element size");
    vx_tags = 0; wtat_be_i16(); __CPROVER_assert(vx_tag_val <= 255 && get_typed_array_endianness((uint8_t)vx_tag_val) == endian_big && get_typed_array_bytes_per_element((uint8_t)vx_tag_val) == 2, "[C06] tag written for be i16: the decoder helpers recover byte order and element size");
    vx_tags = 0; wtat_le_i16(); __CPROVER_assert(vx_tag_val <= 255 && get_typed_array_endianness((uint8_t)vx_tag_val) == endian_little && get_typed_array_bytes_per_element((uint8_t)vx_tag_val) == 2, "[C06] tag written for le i16: the decoder helpers recover byte order and element size");
    vx_tags = 0; wtat_be_i32(); __CPROVER_assert(vx_tag_val <= 255 && get_typed_array_endianness((uint8_t)vx_tag_val) == endian_big && get_typed_array_bytes_per_element((uint8_t)vx_tag_val) == 4, "[C06] tag written for be i32: the decoder helpers recover byte order and element size");
    vx_tags = 0; wtat_le_i32(); __CPROVER_assert(vx_tag_val <= 255 && get_typed_array_endianness((uint8_t)vx_tag_val) == endian_little && get_typed_array_bytes_per_element((uint8_t)vx_tag_val) == 4, "[C06] tag written for le i32: the decoder helpers recover byte order and element size");
    vx_tags = 0; wtat_be_i64(); __CPROVER_assert(vx_tag_val <= 255 && get_typed_array_endianness((uint8_t)vx_tag_val) == endian_big && get_typed_array_bytes_per_element((uint8_t)vx_tag_val) == 8, "[C06] tag written for be i64: the decoder helpers recover byte order and element size");
    vx_tags = 0; wtat_le_i64(); __CPROVER_assert(vx_tag_val <= 255 && get_typed_array_endianness((uint8_t)vx_tag_val) == endian_little && get_typed_array_bytes_per_element((uint8_t)vx_tag_val) == 8, "[C06] tag written for le i64: the decoder helpers recover byte order and element size");
    vx_tags = 0; wtat_be_f16(); __CPROVER_assert(vx_tag_val <= 255 && get_typed_array_endianness((uint8_t)vx_tag_val) == endian_big && get_typed_array_bytes_per_element((uint8_t)vx_tag_val) == 2, "[C06] tag written for be f16: the decoder helpers recover byte order and element size");
    vx_tags = 0; wtat_le_f16(); __CPROVER_assert(vx_tag_val <= 255 && get_typed_array_endianness((uint8_t)vx_tag_val) == endian_little && get_typed_array_bytes_per_element((uint8_t)vx_tag_val) == 2, "[C06] tag written for le f16: the decoder helpers recover byte order and element size");
    vx_tags = 0; wtat_be_f32(); __CPROVER_assert(vx_tag_val <= 255 && get_typed_array_endianness((uint8_t)vx_tag_val) == endian_big && get_typed_array_bytes_per_element((uint8_t)vx_tag_val) == 4, "[C06] tag written for be f32: the decoder helpers recover byte order and element size");
    vx_tags = 0; wtat_le_f32(); __CPROVER_assert(vx_tag_val <= 255 && get_typed_array_endianness((uint8_t)vx_tag_val) == endian_little && get_typed_array_bytes_per_element((uint8_t)vx_tag_val) == 4, "[C06] tag written for le f32: the decoder helpers recover byte order and element size");
    vx_tags = 0; wtat_be_f64(); __CPROVER_assert(vx_tag_val <= 255 && get_typed_array_endianness((uint8_t)vx_tag_val) == endian_big && get_typed_array_bytes_per_element((uint8_t)vx_tag_val) == 8, "[C06] tag written for be f64: the decoder helpers recover byte order and element size");
    vx_tags = 0; wtat_le_f64(); __CPROVER_assert(vx_tag_val <= 255 && get_typed_array_endianness((uint8_t)vx_tag_val) == endian_little && get_typed_array_bytes_per_element((uint8_t)vx_tag_val) == 8, "[C06] tag written for le f64: the decoder helpers recover byte order and element size");
}
#endif
