# U-UTF8-LEGAL, U-UTF8-TOCP, U-UTF8-FROMCP, U-UTF8-VALIDATE (DESIGN 6)
from core import FuncSpec, CopySpec, EnumSpec, Harness, INF
import unicode_specs as us
U = us.U

RES = '__CPROVER_return_value'
# ghost: vx_buf[0..vx_n) is the input; first == vx_buf + vx_off; last == vx_buf + vx_n
# ghost: vx_buf[0..vx_n) is the input; first points into it at offset OFF; last == vx_buf + vx_n
OFF = '__CPROVER_POINTER_OFFSET(first)'
AV = '(vx_n - %s)' % OFF
b = lambda i: 'vx_at(%s + %d)' % (OFF, i)
L = 'spec_utf8_len(%s)' % b(0)
WF = '(%s >= 1 && %s >= (size_t)%s && spec_wf_utf8(%s, %s, %s, %s, %s))' % (L, AV, L, b(0), b(1), b(2), b(3), L)
TOCP_CONTRACT = [
    ('requires', 'vx_n <= VX_BUF_CAP && __CPROVER_same_object(first, vx_buf) && %s <= vx_n && last == (const char*)vx_buf + vx_n && (flags == strict_flag_strict || flags == strict_flag_lenient)' % OFF),
    ('requires', '__CPROVER_w_ok(ch_p, sizeof(*ch_p))'),
    ('assigns', '*ch_p'),
    ('ensures', '[C01][C08] a well-formed sequence at first decodes to its scalar value and the pointer advances by its length',
     '%s ==> (%s.ec == unicode_errc_success && *ch_p == spec_utf8_scalar(%s, %s, %s, %s, %s) && %s.ptr == first + %s)' % (WF, RES, b(0), b(1), b(2), b(3), L, RES, L)),
    ('ensures', '[C01][C08][C02] success only for a well-formed sequence, and the result is then a Unicode scalar value (never a surrogate, never above U+10FFFF)',
     '%s.ec == unicode_errc_success ==> (%s && spec_is_scalar(*ch_p))' % (RES, WF)),
    ('ensures', '[C08] empty or truncated input is source_exhausted',
     '(%s == 0 || (size_t)trailing_bytes_for_utf8[%s] >= %s) ==> %s.ec == unicode_errc_source_exhausted' % (AV, b(0), AV, RES)),
    ('ensures', '[C08] on error the pointer stays at the offending sequence', '%s.ec != unicode_errc_success ==> %s.ptr == first' % (RES, RES)),
]
TOCP = FuncSpec('to_codepoint', U, r'to_codepoint\(const CharT\* first, const CharT\* last,\s*CodepointT& ch,\s*strict_flag flags = strict_flag::strict\)', count=1,
                body_match=r'trailing_bytes_for_utf8',
                csig='struct unicode_result to_codepoint(const char* first, const char* last, uint32_t* ch_p, int flags)',
                contract=TOCP_CONTRACT, aliases={'ch': '(*ch_p)'},
                rules=[(r'unicode_errc::(\w+)', r'unicode_errc_\1', 4, 8), (r'unicode_errc\(\)', 'unicode_errc_success', 1),
                       (r'unicode_errc\s+result\{\};', 'int result = unicode_errc_success;', 1),
                       (r'unicode_result<CharT>\{reinterpret_cast<const CharT\*>\(it\),\s*([\w:]+)\}', r'vx_ures((const char*)(it), \1)', 5),
                       (r'reinterpret_cast<const uint8_t\*>\((first|last)\)', r'((const uint8_t*)(\1))', 2),
                       (r'strict_flag::(\w+)', r'strict_flag_\1', 1)])

# convert(utf32 -> utf8): the parser calls it with length 1
OUT = 'vx_sink'
FROMCP_CONTRACT = [
    ('requires', 'length == 1 && __CPROVER_r_ok(data, sizeof(uint32_t)) && vx_sink_n == 0 && flags == strict_flag_strict'),
    ('assigns', 'vx_sink_n, __CPROVER_object_whole(vx_sink), __CPROVER_object_whole(vx_exp)'),
    ('ensures', '[C01][C02] a Unicode scalar value is emitted as exactly its RFC 3629 encoding',
     'spec_is_scalar(__CPROVER_old(data[0])) ==> (%s.ec == unicode_errc_success && vx_sink_n == (size_t)spec_utf8_encode(__CPROVER_old(data[0]), vx_exp) && vx_sink[0] == vx_exp[0] && (vx_sink_n > 1 ==> vx_sink[1] == vx_exp[1]) && (vx_sink_n > 2 ==> vx_sink[2] == vx_exp[2]) && (vx_sink_n > 3 ==> vx_sink[3] == vx_exp[3]))' % RES),
    ('ensures', '[C02] a surrogate code point is refused and nothing is emitted',
     '(__CPROVER_old(data[0]) >= 0xD800 && __CPROVER_old(data[0]) <= 0xDFFF) ==> (%s.ec == unicode_errc_illegal_surrogate_value && vx_sink_n == 0)' % RES),
    ('ensures', '[C02][C08] a value above U+10FFFF is reported and only the replacement character U+FFFD is emitted',
     '__CPROVER_old(data[0]) > 0x10FFFF ==> (%s.ec == unicode_errc_source_illegal && vx_sink_n == 3 && vx_sink[0] == 0xEF && vx_sink[1] == 0xBF && vx_sink[2] == 0xBD)' % RES),
]
FROMCP = FuncSpec('convert_utf32_to_utf8', U, r'convert\(const CharT\* data, std::size_t length,\s*Container& target,\s*strict_flag flags = strict_flag::strict\)', count=1,
                  body_match=r'uint16_t bytes_to_write = 0;\s*static constexpr uint32_t byteMask = 0xBF;\s*static constexpr uint32_t byteMark = 0x80;\s*uint32_t ch = \*data\+\+;\s*if \(flags == strict_flag::strict \)',
                  csig='struct unicode_result32 convert_utf32_to_utf8(const uint32_t* data, size_t length, int flags)',
                  contract=FROMCP_CONTRACT,
                  rules=[(r'unicode_errc::(\w+)', r'unicode_errc_\1', 2, 4), (r'unicode_errc\s+result\{\};', 'int result = unicode_errc_success;', 1),
                         (r'const CharT\* last', 'const uint32_t* last', 1),
                         (r'target\.push_back\(', 'vx_sink_push(', 10),
                         (r'strict_flag::(\w+)', r'strict_flag_\1', 1),
                         (r'return unicode_result<CharT>\{data,result\}', 'return vx_ures32(data, result)', 1)])

# validate<char>
VALIDATE_CONTRACT = [
    ('requires', 'vx_n <= VX_BUF_CAP && data == (const char*)vx_buf && length == vx_n && vx_chunks_ok'),
    ('assigns', 'vx_chunks_ok, vx_chunks_end'),
    ('ensures', '[C02][C07][C08] every step of the scan advanced over exactly one well-formed sequence (ghost check at each advance)', 'vx_chunks_ok'),
    ('ensures', '[C02][C07][C08] success means the whole buffer was consumed sequence by sequence',
     '%s.ec == unicode_errc_success ==> (%s.ptr == data + length && vx_chunks_end == vx_n)' % (RES, RES)),
    ('ensures', '[C02][C07][C08] an error is reported at the start of the first sequence that is not well-formed or is truncated',
     '%s.ec != unicode_errc_success ==> (%s.ptr == data + vx_chunks_end && vx_chunks_end < vx_n && !vx_wf_at(vx_chunks_end))' % (RES, RES)),
    ('ensures', '[C08] source_exhausted is reported exactly for a truncated final sequence',
     '%s.ec == unicode_errc_source_exhausted ==> (size_t)trailing_bytes_for_utf8[vx_at(vx_chunks_end)] + 1 > vx_n - vx_chunks_end' % RES),
]
VALIDATE_LOOP = '''__CPROVER_assigns(it, result, vx_chunks_end, vx_chunks_ok)
  __CPROVER_loop_invariant(__CPROVER_same_object(it, vx_buf) && __CPROVER_POINTER_OFFSET(it) <= vx_n && __CPROVER_POINTER_OFFSET(it) == vx_chunks_end && vx_chunks_ok && result == unicode_errc_success)
  __CPROVER_decreases(vx_n - __CPROVER_POINTER_OFFSET(it))'''
VALIDATE = FuncSpec('validate_utf8', U, r'validate\(const CharT\* data, std::size_t length\)', count=1, body_match=r'non_ascii',
                    csig='struct unicode_result validate_utf8(const char* data, size_t length)', contract=VALIDATE_CONTRACT,
                    loops={0: VALIDATE_LOOP, 'count': 1},
                    rules=[(r'unicode_errc::(\w+)', r'unicode_errc_\1', 1, 3), (r'unicode_errc\(\)', 'unicode_errc_success', 1),
                           (r'unicode_errc\s+result\{\};', 'int result = unicode_errc_success;', 1),
                           (r'unicode_result<CharT>\{reinterpret_cast<const CharT\*>\(it\),\s*([\w:]+)\}', r'vx_ures((const char*)(it), \1)', 3),
                           (r'reinterpret_cast<const uint8_t\*>\(data\)', '((const uint8_t*)(data))', 1),
                           (r'\+\+it; else goto non_ascii;', '{ VX_ADV(it, 1); ++it; } else goto non_ascii;', 1),
                           (r'it \+= len;', 'VX_ADV(it, len); it += len;', 1),
                           (r'non_ascii:\s*const', 'non_ascii:; const', 1)])
REPEAT8 = CopySpec('repeat8', 'include/jsoncons/config/jsoncons_config.hpp', r'#define JSONCONS_REPEAT8\(', r'\n', include_end=True)

SPECS = [us.TABLES, us.ERRC, EnumSpec('strict_flag', U), us.IS_LEGAL, TOCP, FROMCP, VALIDATE, REPEAT8]

SITE_CHECKS = [
    {'file': U, 'pattern': r'is_legal_utf8\(', 'count': (5, 8), 'props': ['C02', 'C07', 'C08'],
     'what': 'is_legal_utf8 call sites (precondition length == trailing_bytes_for_utf8[first]+1 is established at each)'},
    {'file': U, 'pattern': r'is_legal_utf8\(it, (extra_bytes_to_read\+1|len|length)\)', 'count': (4, 8), 'props': ['C02', 'C07', 'C08'],
     'what': 'is_legal_utf8 is called with the table-announced length'},
]

HARNESSES = [
    Harness('is_legal_utf8', 'h_is_legal', enforce='is_legal_utf8', method='LF', props=['C02', 'C07', 'C08']),
    Harness('to_codepoint', 'h_tocp', enforce='to_codepoint', replace=['is_legal_utf8'], method='LF', props=['C01', 'C08', 'C02']),
    Harness('convert_utf32_to_utf8', 'h_fromcp', enforce='convert_utf32_to_utf8', method='WU(3)', unwind=3, props=['C01', 'C02', 'C08']),
    Harness('validate', 'h_validate', enforce='validate_utf8', replace=['is_legal_utf8'], loop_contracts=True, method='LC', props=['C02', 'C07', 'C08'],
            expect_classes={'loop_invariant_step': 1}, timeout=900),
    Harness('lemma_utf8_rt', 'h_utf8_rt', dfcc=False, method='WU(3)', unwind=3, props=['C01'],
            note='to_codepoint(convert(cp)) == cp for every Unicode scalar value (real extracted bodies)'),
]
