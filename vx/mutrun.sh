#!/bin/sh
# usage: mutrun.sh <file relative to include/> <sed expression> <unit> [harness...]   -- debugging aid: run a unit against a mutated copy of the headers
set -e
D=$(mktemp -d /tmp/mut.XXXXXX)
mkdir -p $D && cp -r /repo/include $D/include
sed -i -E "$2" "$D/include/$1"
if diff -rq /repo/include $D/include >/dev/null; then echo "MUTATION DID NOT CHANGE ANYTHING"; rm -rf $D; exit 3; fi
shift; shift
VX_REPO=$D python3 /verif/vx/units.py "$@" 2>&1 | cut -c1-260
rm -rf $D
