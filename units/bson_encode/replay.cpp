// replay for unit bson_encode: nested documents and arrays and integers of every width class, with and without epoch tags, are encoded with the real BSON
// encoder; an independent reader of the BSON grammar (bsonspec.org) checks every length field, terminator, array element name, type byte and integer value.
#include <jsoncons/json.hpp>
#include <jsoncons_ext/bson/bson.hpp>
#include "replay_util.hpp"
#include <cstring>
#include <functional>
using namespace jsoncons;
typedef std::vector<uint8_t> bytes;
struct elem { uint8_t type; int64_t ival; };
static std::vector<std::string> g_strs;
static bool rd_doc(const bytes& b, size_t& p, size_t end, bool is_array, std::vector<elem>& leaves, std::string& why)
{
    if (p + 5 > end) { why = "document shorter than 5 bytes"; return false; }
    int32_t len = (int32_t)(b[p] | b[p+1] << 8 | b[p+2] << 16 | (uint32_t)b[p+3] << 24);
    if (len < 5 || (size_t)len > end - p) { why = "length field " + std::to_string(len) + " does not fit"; return false; }
    size_t dend = p + (size_t)len; p += 4; size_t idx = 0;
    while (p < dend - 1) {
        uint8_t t = b[p++]; std::string name; while (p < dend && b[p]) name.push_back((char)b[p++]); if (p >= dend) { why = "unterminated name"; return false; } ++p;
        if (is_array && name != std::to_string(idx)) { why = "array element named " + name + ", expected " + std::to_string(idx); return false; } ++idx;
        auto need = [&](size_t n) { return p + n <= dend - 1; };
        if (t == 0x10) { if (!need(4)) { why = "int32 cut"; return false; } int32_t v = (int32_t)(b[p] | b[p+1] << 8 | b[p+2] << 16 | (uint32_t)b[p+3] << 24); leaves.push_back({t, v}); p += 4; }
        else if (t == 0x12 || t == 0x09) { if (!need(8)) { why = "int64 cut"; return false; } uint64_t v = 0; for (int k = 7; k >= 0; --k) v = v << 8 | b[p+k]; leaves.push_back({t, (int64_t)v}); p += 8; }
        else if (t == 0x01) { if (!need(8)) { why = "double cut"; return false; } uint64_t v = 0; for (int k = 7; k >= 0; --k) v = v << 8 | b[p+k]; leaves.push_back({t, (int64_t)v}); p += 8; }
        else if (t == 0x08) { if (!need(1)) { why = "bool cut"; return false; } leaves.push_back({t, b[p]}); p += 1; }
        else if (t == 0x0a || t == 0x06) { leaves.push_back({t, 0}); }
        else if (t == 0x02 || t == 0x0d) { if (!need(4)) { why = "string cut"; return false; } int32_t n = (int32_t)(b[p] | b[p+1] << 8 | b[p+2] << 16 | (uint32_t)b[p+3] << 24); p += 4; if (n < 1 || !need((size_t)n) || b[p+n-1] != 0) { why = "bad string length"; return false; } leaves.push_back({t, n - 1}); g_strs.push_back(std::string((const char*)&b[p], (size_t)n - 1)); p += (size_t)n; }
        else if (t == 0x03 || t == 0x04) { if (!rd_doc(b, p, dend - 1, t == 0x04, leaves, why)) return false; }
        else { why = "unexpected type byte " + std::to_string(t); return false; }
    }
    if (p != dend - 1 || b[p] != 0) { why = "terminator missing or elements overrun the declared length"; return false; }
    ++p; return true;
}
int main(int argc, char** argv)
{
    if (argc < 3) return 2;
    int bad = 0, total = 0; std::string first;
    const int64_t vals[] = {0, 1, -1, 127, 128, INT32_MAX, (int64_t)INT32_MAX + 1, INT32_MIN, (int64_t)INT32_MIN - 1, INT64_MAX, INT64_MIN, 9223372036854775LL, 9223372036854776LL, -9223372036854775LL, -9223372036854776LL, 1000000, 999999, -1000001};
    const uint64_t uvals[] = {0, 1, (uint64_t)INT32_MAX, (uint64_t)INT32_MAX + 1, (uint64_t)INT64_MAX, (uint64_t)INT64_MAX + 1, UINT64_MAX, 9223372036854775ULL, 9223372036854776ULL, 18446744073709551ULL, 10000000000000000ULL};
    const semantic_tag tags[] = {semantic_tag::none, semantic_tag::epoch_second, semantic_tag::epoch_milli, semantic_tag::epoch_nano};
    auto run = [&](std::function<void(bson::bson_bytes_encoder&)> body, std::function<bool(const std::vector<elem>&, bool, std::string&)> judge, const std::string& what) {
        ++total; bytes out; bool refused = false; std::string why;
        try { bson::bson_bytes_encoder enc(out); enc.begin_object(); enc.key("a"); enc.begin_array(); enc.int64_value(7); enc.begin_object(); enc.key("k"); body(enc); enc.end_object(); body(enc); enc.end_array(); enc.key("z"); enc.null_value(); enc.end_object(); enc.flush(); }
        catch (const std::exception&) { refused = true; }
        std::vector<elem> leaves; size_t p = 0; g_strs.clear(); bool ok = refused || (rd_doc(out, p, out.size(), false, leaves, why) && p == out.size());
        if (ok && !judge(leaves, refused, why)) ok = false;
        if (!ok) { if (!bad) first = what + ": " + why; ++bad; }
    };
    for (auto tag : tags) for (int64_t v : vals) run([&](bson::bson_bytes_encoder& e) { e.int64_value(v, tag); }, [&](const std::vector<elem>& l, bool refused, std::string& why) {
        __int128 ms = tag == semantic_tag::epoch_second ? (__int128)v * 1000 : tag == semantic_tag::epoch_nano ? (__int128)(v / 1000000) : (__int128)v; bool fits = ms >= INT64_MIN && ms <= INT64_MAX;
        if (refused) { if (fits) { why = "refused although the value fits"; return false; } return true; }
        if (!fits) { why = "written although the milliseconds do not fit an int64"; return false; }
        if (l.size() != 4) { why = "wrong number of values"; return false; }
        uint8_t want = tag == semantic_tag::none ? ((v >= INT32_MIN && v <= INT32_MAX) ? 0x10 : 0x12) : 0x09;
        for (int k : {1, 2}) if (l[k].type != want || (__int128)l[k].ival != ms) { why = "value " + std::to_string(v) + " written as type " + std::to_string(l[k].type) + " value " + std::to_string(l[k].ival); return false; } return true; }, "int64 " + std::to_string(v) + " tag " + std::to_string((int)tag));
    for (auto tag : tags) for (uint64_t v : uvals) run([&](bson::bson_bytes_encoder& e) { e.uint64_value(v, tag); }, [&](const std::vector<elem>& l, bool refused, std::string& why) {
        unsigned __int128 ms = tag == semantic_tag::epoch_second ? (unsigned __int128)v * 1000 : tag == semantic_tag::epoch_nano ? (unsigned __int128)(v / 1000000) : (unsigned __int128)v; bool fits = ms <= (unsigned __int128)INT64_MAX;
        if (refused) { if (fits) { why = "refused although the value fits"; return false; } return true; }
        if (!fits) { why = "written although the value does not fit an int64"; return false; }
        if (l.size() != 4) { why = "wrong number of values"; return false; }
        uint8_t want = tag == semantic_tag::none ? (v <= (uint64_t)INT32_MAX ? 0x10 : 0x12) : 0x09;
        for (int k : {1, 2}) if (l[k].type != want || (unsigned __int128)(uint64_t)l[k].ival != ms) { why = "value " + std::to_string(v) + " written as type " + std::to_string(l[k].type) + " value " + std::to_string(l[k].ival); return false; } return true; }, "uint64 " + std::to_string(v) + " tag " + std::to_string((int)tag));
    // the other scalar writers: null / undefined, booleans, doubles (bit patterns), strings (plain and code; lengths around 0, 1, 127/128, 255/256, 65535/65536; invalid UTF-8 refused)
    for (auto tag : {semantic_tag::none, semantic_tag::undefined}) run([&](bson::bson_bytes_encoder& e) { e.null_value(tag); }, [&](const std::vector<elem>& l, bool refused, std::string& why) {
        if (refused || l.size() != 4) { why = "refused or wrong number of values"; return false; } uint8_t want = tag == semantic_tag::undefined ? 0x06 : 0x0a;
        for (int k : {1, 2}) if (l[k].type != want) { why = "null written as type " + std::to_string(l[k].type); return false; } return true; }, "null");
    for (bool v : {false, true}) run([&](bson::bson_bytes_encoder& e) { e.bool_value(v); }, [&](const std::vector<elem>& l, bool refused, std::string& why) {
        if (refused || l.size() != 4) { why = "refused or wrong number of values"; return false; }
        for (int k : {1, 2}) if (l[k].type != 0x08 || l[k].ival != (v ? 1 : 0)) { why = "bool written as type " + std::to_string(l[k].type) + " byte " + std::to_string(l[k].ival); return false; } return true; }, std::string("bool ") + (v ? "true" : "false"));
    const uint64_t dbits[] = {0, 0x8000000000000000ull, 1, 0x3ff8000000000000ull, 0x7ff0000000000000ull, 0xfff0000000000000ull, 0x7ff8000000000000ull, 0x7ff0000000000001ull, 0xfff8000000000123ull, 0x7fefffffffffffffull, 0x3fb999999999999aull, 0x47efffffe0000000ull};
    for (uint64_t u : dbits) run([&](bson::bson_bytes_encoder& e) { double d; std::memcpy(&d, &u, 8); e.double_value(d); }, [&](const std::vector<elem>& l, bool refused, std::string& why) {
        if (refused || l.size() != 4) { why = "refused or wrong number of values"; return false; }
        for (int k : {1, 2}) if (l[k].type != 0x01 || (uint64_t)l[k].ival != u) { why = "double bits written as type " + std::to_string(l[k].type) + " bits " + std::to_string((uint64_t)l[k].ival); return false; } return true; }, "double bits " + std::to_string(u));
    for (auto tag : {semantic_tag::none, semantic_tag::code, semantic_tag::datetime}) for (size_t n : {(size_t)0, (size_t)1, (size_t)2, (size_t)127, (size_t)128, (size_t)255, (size_t)256, (size_t)65535, (size_t)65536}) for (int kind = 0; kind < 3; ++kind) {
        std::string t(n, 'a'); for (size_t i = 0; i < n; ++i) t[i] = (char)('a' + i % 23);
        if (kind == 1 && n >= 2) { t[n - 2] = (char)0xc3; t[n - 1] = (char)0xa9; }        // ends with a two-byte character
        if (kind == 2) { if (n == 0) continue; t[n - 1] = (char)0xc3; }                    // truncated character: not UTF-8
        run([&](bson::bson_bytes_encoder& e) { e.string_value(t, tag); }, [&](const std::vector<elem>& l, bool refused, std::string& why) {
            if (kind == 2) { if (!refused) { why = "invalid UTF-8 was written"; return false; } return true; }
            if (refused || l.size() != 4 || g_strs.size() != 2) { why = "refused or wrong number of values"; return false; }
            uint8_t want = tag == semantic_tag::code ? 0x0d : 0x02;
            for (int k : {1, 2}) if (l[k].type != want || (size_t)l[k].ival != n) { why = "written as type " + std::to_string(l[k].type) + " length " + std::to_string(l[k].ival); return false; }
            if (g_strs[0] != t || g_strs[1] != t) { why = "the text differs"; return false; } return true; }, "string of " + std::to_string(n) + " bytes, kind " + std::to_string(kind));
    }
    if (bad) VX_REPRO(bad << " of " << total << " BSON encodings are malformed or carry the wrong value, first: " << first);
    VX_NOREPRO("all " << total << " BSON encodings are well-formed and carry the values given");
}
