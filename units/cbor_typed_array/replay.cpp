// replay for unit cbor_typed_array: vectors of every element type are encoded by the real CBOR encoder with use_typed_arrays on; an independent reader of
// RFC 8746 (tag 64 + f s e ll, one byte string, elements in the byte order the tag names) must get the elements back; then the real decoder must too.
#include <jsoncons/json.hpp>
#include <jsoncons_ext/cbor/cbor.hpp>
#include "replay_util.hpp"
#include <cstring>
#include <cmath>
using namespace jsoncons;
static int bad = 0, total = 0; static std::string first;
static void fail(const std::string& s) { if (!bad) first = s; ++bad; }
template <class T> static void one(const std::vector<T>& v, int f, int s, const char* name)
{
    ++total;
    std::vector<uint8_t> b; cbor::cbor_options opt; opt.use_typed_arrays(true);
    try { cbor::encode_cbor(v, b, opt); } catch (const std::exception& e) { fail(std::string(name) + ": encoder threw " + e.what()); return; }
    if (b.size() < 3 || b[0] != 0xd8) { fail(std::string(name) + ": no one-byte tag in front"); return; }
    unsigned tag = b[1]; int tf = (tag >> 4) & 1, ts = (tag >> 3) & 1, te = (tag >> 2) & 1, ll = tag & 3;
    size_t esz = tf ? ((size_t)2 << ll) : ((size_t)1 << ll);
    if ((tag >> 5) != 2 || tf != f || ts != s || esz != sizeof(T)) { fail(std::string(name) + ": tag " + std::to_string(tag) + " does not describe the element type"); return; }
    size_t p = 2; if ((b[p] >> 5) != 2) { fail(std::string(name) + ": tag not followed by a byte string"); return; }
    uint64_t len = b[p] & 0x1f; ++p; if (len == 24) { len = b[p]; p += 1; } else if (len == 25) { len = (b[p] << 8) | b[p+1]; p += 2; } else if (len > 25) { fail("length form not expected in this replay"); return; }
    if (len != v.size() * sizeof(T) || p + len != b.size()) { fail(std::string(name) + ": byte string length " + std::to_string(len) + " for " + std::to_string(v.size()) + " elements"); return; }
    for (size_t i = 0; i < v.size(); ++i) { uint8_t raw[16]; for (size_t k = 0; k < sizeof(T); ++k) raw[te ? k : sizeof(T) - 1 - k] = b[p + i * sizeof(T) + k];   // to little endian (this machine)
        T x; std::memcpy(&x, raw, sizeof(T)); if (std::memcmp(&x, &v[i], sizeof(T)) != 0) { fail(std::string(name) + ": element " + std::to_string(i) + " differs under the byte order the tag names"); return; } }
    try { auto back = cbor::decode_cbor<std::vector<T>>(b); if (back.size() != v.size() || (v.size() && std::memcmp(back.data(), v.data(), v.size() * sizeof(T)) != 0)) fail(std::string(name) + ": the real decoder returns other elements"); }
    catch (const std::exception& e) { fail(std::string(name) + ": decoder threw " + e.what()); }
}
int main(int argc, char** argv)
{
    if (argc < 3) return 2;
    for (size_t n : {(size_t)0, (size_t)1, (size_t)3, (size_t)23, (size_t)24, (size_t)100}) {
        std::vector<uint8_t> u8; std::vector<uint16_t> u16; std::vector<uint32_t> u32; std::vector<uint64_t> u64; std::vector<int8_t> i8; std::vector<int16_t> i16; std::vector<int32_t> i32; std::vector<int64_t> i64; std::vector<float> f32; std::vector<double> f64;
        for (size_t i = 0; i < n; ++i) { uint64_t x = 0x0123456789abcdefull * (i + 1) + i; u8.push_back((uint8_t)x); u16.push_back((uint16_t)x); u32.push_back((uint32_t)x); u64.push_back(x); i8.push_back((int8_t)x); i16.push_back((int16_t)x); i32.push_back((int32_t)x); i64.push_back((int64_t)x);
            f32.push_back((float)std::ldexp(1.0 + i, (int)(i % 40) - 20) * (i % 2 ? -1 : 1)); f64.push_back(std::ldexp(1.0 + i / 3.0, (int)(i % 600) - 300) * (i % 2 ? -1 : 1)); }
        one(u8, 0, 0, "uint8"); one(u16, 0, 0, "uint16"); one(u32, 0, 0, "uint32"); one(u64, 0, 0, "uint64"); one(i8, 0, 1, "int8"); one(i16, 0, 1, "int16"); one(i32, 0, 1, "int32"); one(i64, 0, 1, "int64"); one(f32, 1, 0, "float"); one(f64, 1, 0, "double");
    }
    if (bad) VX_REPRO(bad << " of " << total << " typed arrays are not what RFC 8746 prescribes, first: " << first);
    VX_NOREPRO("all " << total << " typed arrays carry the RFC 8746 tag of their element type and the elements in the byte order it names");
}
