# U-SLICE-JP, U-IDX-JP, U-SLICE-JM (DESIGN 6): slice/index arithmetic of JSONPath and JMESPath.
# Program slices: statements whose only effect is on JSON values are replaced by the observation VX_VISIT(j).
from core import FuncSpec, CopySpec, EnumSpec, Harness, INF

JP = 'include/jsoncons_ext/jsonpath/jsonpath_selector.hpp'
JM = 'include/jsoncons_ext/jmespath/jmespath.hpp'


def getter(name, file, which, ordinal_hint):
    m = 'start_' if which == 'get_start' else 'stop_'
    return FuncSpec(name, file, r'int64_t %s\(std::size_t size\) const' % which, count=1,
                    csig='static int64_t %s(const struct vx_slice* self, size_t size)' % name,
                    rules=[(r'if \(%s\)' % m, 'if (self->%s.has)' % m, 1),
                           (r'\*%s' % m, '(self->%s.v)' % m, 3),
                           (r'\bstep_\b', '(self->step_)', 1),
                           (r'auto len\b', 'int64_t len', 1)])


# one loop contract per loop; ghost state: vx_next (next index the spec expects), vx_lower / vx_upper (spec bounds)
LOOP_POS = '''__CPROVER_assigns(i, vx_next, vx_visits)
  __CPROVER_loop_invariant(step > 0 && end <= (int64_t)vx_size && !vx_bad
      && ((i < end) ? (i >= 0 && (spec_i128)i == vx_next && (spec_i128)end == vx_upper) : (vx_next >= vx_upper)))
  __CPROVER_decreases(i < end ? end - i : 0)'''
LOOP_NEG = '''__CPROVER_assigns(i, vx_next, vx_visits)
  __CPROVER_loop_invariant(step < 0 && end >= -1 && i <= (int64_t)vx_size - 1 && !vx_bad
      && ((i > end) ? ((spec_i128)i == vx_next && (spec_i128)end == vx_lower) : (vx_next <= vx_lower)))
  __CPROVER_decreases(i > end ? i - end : 0)'''

SELECT_POST = [
    ('requires', 'vx_size <= (uint64_t)INT64_MAX && vx_visits == 0 && !vx_bad && vx_ec == 0'),
    ('requires', 'vx_spec_ready && vx_next == (slice_->step_ > 0 ? vx_lower : vx_upper)'),
    ('assigns', 'vx_next, vx_visits, vx_bad, vx_ec'),
    ('ensures', '[C12][C13] every index visited was the next index of the RFC 9535 slice sequence, in order, and in bounds (VX_VISIT never flagged)', '!vx_bad'),
    ('ensures', '[C12][C13] step > 0: the whole sequence lower, lower+step, ... < upper was visited', '(vx_is_array && slice_->step_ > 0 && vx_ec == 0) ==> vx_next >= vx_upper'),
    ('ensures', '[C12][C13] step < 0: the whole sequence upper, upper+step, ... > lower was visited', '(vx_is_array && slice_->step_ < 0 && vx_ec == 0) ==> vx_next <= vx_lower'),
    ('ensures', '[C12][C13] step == 0 or not an array: nothing is selected', '(!vx_is_array || slice_->step_ == 0) ==> vx_visits == 0'),
]

JP_RULES = [
    (r'current\.is_array\(\)', 'vx_is_array', 1),
    (r'current\.size\(\)', 'vx_size', 1, 20),
    (r'auto start = slice_\.get_start\(', 'int64_t start = jp_get_start(slice_, ', 1),
    (r'auto end = slice_\.get_stop\(', 'int64_t end = jp_get_stop(slice_, ', 1),
    (r'auto step = slice_\.step\(\);', 'int64_t step = slice_->step_;', 1),
    (r'auto j = ', 'size_t j = ', 2),
    # program slice: the two statements that touch JSON values
    (r'this->tail_select\(context, root,\s*path_generator_type::generate\(context, last,\s*j,\s*options\),\s*current\[j\], receiver, options\);', 'VX_VISIT(j);', 2),
]
JM_RULES = [
    (r'if \(!val\.is_array\(\)\)\s*\{\s*return context\.null_value\(\);\s*\}', 'if (!vx_is_array) { return; }', 1),
    (r'val\.size\(\)', 'vx_size', 1, 20),
    (r'auto start = slice_\.get_start\(', 'int64_t start = jm_get_start(slice_, ', 1),
    (r'auto end = slice_\.get_stop\(', 'int64_t end = jm_get_stop(slice_, ', 1),
    (r'auto step = slice_\.step\(\);', 'int64_t step = slice_->step_;', 1),
    (r'ec = jmespath_errc::step_cannot_be_zero;\s*return context\.null_value\(\);', 'vx_ec = VX_EC_step_cannot_be_zero; return;', 1),
    (r'auto result = context\.create_json\(json_array_arg\);', '', 1),
    (r'reference j = this->apply_expressions\(val\.at\(static_cast<std::size_t>\(i\)\), context, ec\);\s*if \(!j\.is_null\(\)\)\s*\{\s*result->emplace_back\(const_json_ptr_arg, &j\);\s*\}',
     'VX_VISIT((size_t)(i));', 2),
    (r'return \*result;', 'return;', 1),
]
JM_POST = SELECT_POST + [
    ('ensures', '[C13] a zero step is reported as step_cannot_be_zero', '(vx_is_array && slice_->step_ == 0) ==> vx_ec == VX_EC_step_cannot_be_zero'),
    ('ensures', '[C13] no other error is raised by the slice arithmetic', '(slice_->step_ != 0 || !vx_is_array) ==> vx_ec == 0'),
]

IDX_POST = [
    ('requires', 'vx_size <= (uint64_t)INT64_MAX && vx_visits == 0 && !vx_bad'),
    ('assigns', 'vx_visits, vx_bad, vx_visited'),
    ('ensures', '[C12] index i >= 0 selects element i iff i < size; i < 0 selects element size+i iff size+i >= 0; nothing otherwise',
     '(vx_is_array && (spec_i128)index_ >= 0 && (spec_i128)index_ < (spec_i128)vx_size) ? (vx_visits == 1 && vx_visited == (size_t)index_) : '
     '(vx_is_array && index_ < 0 && (spec_i128)vx_size + index_ >= 0) ? (vx_visits == 1 && (spec_i128)vx_visited == (spec_i128)vx_size + index_) : vx_visits == 0'),
    ('ensures', '[C12][C05] the selected index is in bounds', '!vx_bad'),
]
IDX_RULES = [
    (r'current\.is_array\(\)', 'vx_is_array', 1),
    (r'auto slen = static_cast<int64_t>\(current\.size\(\)\);', 'int64_t slen = (int64_t)(vx_size);', 1),
    (r'auto i = ', 'size_t i = ', 2),
]

SPECS = [
    getter('jp_get_start', JP, 'get_start', 0), getter('jp_get_stop', JP, 'get_stop', 0),
    getter('jm_get_start', JM, 'get_start', 0), getter('jm_get_stop', JM, 'get_stop', 0),
    FuncSpec('jp_slice_select', JP, r'void select\(eval_context<Json,JsonReference>& context,\s*reference root,\s*const path_node_type& last,\s*reference current,\s*node_receiver_type& receiver,\s*result_options options\) const override', body_match=r'^\{\s*if \(current\.is_array\(\)\)\s*\{\s*auto start = slice_\.get_start', count=1,
             csig='void jp_slice_select(const struct vx_slice* slice_)', contract=SELECT_POST, rules=JP_RULES,
             loops={0: LOOP_POS, 1: LOOP_NEG, 'count': 2}),
    FuncSpec('jm_slice_evaluate', JM, r'reference evaluate\(reference val, eval_context<Json>& context, std::error_code& ec\) const override', body_match=r'auto start = slice_\.get_start', count=1,
             csig='void jm_slice_evaluate(const struct vx_slice* slice_)', contract=JM_POST, rules=JM_RULES,
             loops={0: LOOP_POS, 1: LOOP_NEG, 'count': 2}),
    FuncSpec('jp_index_select', JP, r'void select\(eval_context<Json,JsonReference>& context,\s*reference root,\s*const path_node_type& last,\s*reference current,\s*node_receiver_type& receiver,\s*result_options options\) const override', body_match=r'^\{\s*if \(current\.is_array\(\)\)\s*\{\s*auto slen', count=1,
             csig='void jp_index_select(int64_t index_)', contract=IDX_POST,
             rules=IDX_RULES + [(r'this->tail_select\(context, root,\s*path_generator_type::generate\(context, last, i, options\),\s*current\.at\(i\), receiver, options\);', 'VX_VISIT_IDX(i);', 2)]),
    FuncSpec('jp_index_evaluate', JP, r'reference evaluate\(eval_context<Json,JsonReference>& context,\s*reference root,\s*const path_node_type& last,\s*reference current,\s*result_options options,\s*std::error_code& ec\) const override', body_match=r'^\{\s*if \(current\.is_array\(\)\)\s*\{\s*auto slen', count=1,
             csig='void jp_index_evaluate(int64_t index_)', contract=IDX_POST,
             rules=IDX_RULES + [(r'return this->evaluate_tail\(context, root,\s*path_generator_type::generate\(context, last, i, options\),\s*current\.at\(i\), options, ec\);', '{ VX_VISIT_IDX(i); return; }', 2),
                                (r'return context\.null_value\(\);', 'return;', 2)]),
]

HARNESSES = [
    Harness('jp_slice', 'h_jp_slice', enforce='jp_slice_select', loop_contracts=True, method='LC', props=['C12'],
            expect_classes={'loop_invariant_step': 2}, timeout=600),
    Harness('jm_slice', 'h_jm_slice', enforce='jm_slice_evaluate', loop_contracts=True, method='LC', props=['C13'],
            expect_classes={'loop_invariant_step': 2}, timeout=600),
    Harness('jp_index_select', 'h_jp_index_select', enforce='jp_index_select', method='LF', props=['C12']),
    Harness('jp_index_evaluate', 'h_jp_index_evaluate', enforce='jp_index_evaluate', method='LF', props=['C12']),
]
