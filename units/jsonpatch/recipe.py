# U-JSONPATCH (C15): one operation of apply_patch, and the undo replay
from core import FuncSpec, CopySpec, EnumSpec, Harness
J = 'include/jsoncons_ext/jsonpatch/jsonpatch.hpp'
NS = r'(?:jsoncons::jsonpatch::)?(?:detail::)?'
NAMES = NS + r'jsonpatch_names<char_type>::'
def has(member, var):
    return (r'auto it_%s = operation\.find\(%s%s_name\(\)\);\s*if \(it_%s == operation\.object_range\(\)\.end\(\)\)' % (member, NAMES, member, member), 'if (!%s)' % var)
OP_RULES = [
    (r'unwinder\.state\s*=\s*%sstate_type::(\w+);' % NS, r'vx_state = state_type_\1;', 10, 60),
    has('op', 'vx_has_op') + (1,), has('path', 'vx_has_path') + (1,),
    (has('value', 'vx_has_value')[0], 'if (!vx_has_value)', 3), (has('from', 'vx_has_from')[0], 'if (!vx_has_from)', 2),
    (r'string_type op = it_op->value\(\)\.template as<string_type>\(\);', '', 1), (r'string_type path = it_path->value\(\)\.template as<string_type>\(\);', '', 1),
    (r'auto location = json_pointer_type::parse\(path, local_ec\);', 'int location = P_LOC; (void)vx_fail(&local_ec);', 1),
    (r'string_type from = it_from->value\(\)\.as_string\(\);', 'int from = P_FROM;', 2), (r'auto from_pointer = json_pointer_type::parse\(from, local_ec\);', 'int from_pointer = P_FROM; (void)vx_fail(&local_ec);', 1),
    (r'op\s*==\s*%s(\w+)_name\(\)' % NAMES, lambda m: 'vx_op == OP_' + m.group(1).upper(), 6, 8),
    (r'Json (val|orig_val) = jsonpointer::get\(target,\s*(\w+),\s*(\w+)\);', r'int \1 = vx_get(\2, &\3);', 3, 12),
    (r'Json& (\w+) = jsonpointer::get\(target,\s*(\w+),\s*(\w+)\);', r'int \1 = vx_get(\2, &\3);', 0, 6), (r'Json (\w+)\(std::move\((\w+)\)\);', r'int \1 = vx_move_out(\2);', 0, 6), (r'Json (\w+) = std::move\((\w+)\);', r'int \1 = vx_move_out(\2);', 0, 6),
    (r'Json val = it_value->value\(\);', 'int val = V_NEW;', 1),
    (r'val != it_value->value\(\)', 'vx_test_differs', 1),
    (r'auto npath = jsonpatch::detail::definite_path\(target,\s*location\);', 'int npath = vx_definite(location);', 3),
    (r'jsonpointer::add_if_absent\(target,\s*npath,\s*val,\s*insert_ec\);', 'vx_add_if_absent(npath, val, &insert_ec);', 3),
    (r'jsonpointer::replace\(target,\s*(\w+),\s*(?:val|it_value->value\(\)),\s*(\w+)\);', r'vx_replace(\1, V_NEW, &\2);', 4),
    (r'jsonpointer::remove\(target,\s*(\w+),\s*(\w+)\);', r'vx_remove(\1, &\2);', 2),
    (r'unwinder\.stack\.emplace_back\(%sop_type::(\w+),\s*(\w+),\s*(Json::null\(\)|it_value->value\(\)|\w+)\);' % NS, lambda m: 'vx_push(op_type_%s, %s, %s);' % (m.group(1), m.group(2), 'V_NULL' if 'null' in m.group(3) else 'V_NEW' if 'it_value' in m.group(3) else m.group(3)), 6, 12),
    (r'std::error_code (insert_ec|select_ec|replace_ec);', r'int \1 = 0;', 6, 12),
    (r'ec = jsonpatch_errc::(\w+);', r'*ec_p = jsonpatch_errc_\1;', 10, 40), (r'it_value->value\(\)', 'V_NEW', 0, 4),
]
KNOWN = '(vx_op == OP_TEST || vx_op == OP_ADD || vx_op == OP_REMOVE || vx_op == OP_REPLACE || vx_op == OP_MOVE || vx_op == OP_COPY)'
OPC = [
    ('requires', '*ec_p == 0 && vx_tok == 0 && !vx_get_valid && !vx_pending && vx_edits == 0 && vx_pushes == 0 && !vx_hollow'),
    ('assigns', '*ec_p, vx_hollow, vx_hollow_path, vx_def_stamp, vx_state, vx_tok, vx_get_valid, vx_get_path, vx_get_tok, vx_pend_kind, vx_pend_path, vx_pend_tok, vx_pending, vx_edits, vx_pushes'),
    ('ensures', '[C15] every successful edit of the document has its inverse on the undo stack when the operation is left, whether it succeeded or failed', '!vx_pending && vx_pushes == vx_edits'),
    ('ensures', '[C15] no location of the document is left moved-from (emptied through a reference) when the operation is left: such a change has no undo entry', '!vx_hollow'),
    ('ensures', '[C15] a failure is reported through the error code and marks the run aborted, so that the unwinder restores the document; success leaves the run open for commit',
     '(*ec_p != 0) == (vx_state == state_type_abort) && (*ec_p == 0 ==> vx_state == state_type_begin)'),
    ('ensures', '[C15] RFC 6902 section 4: an operation without "op" or "path", or whose "op" is not one of add, remove, replace, move, copy, test, is an error (invalid_patch) and edits nothing',
     '(!vx_has_op || !vx_has_path || !%s) ==> (*ec_p == jsonpatch_errc_invalid_patch && vx_edits == 0)' % KNOWN),
    ('ensures', '[C15] add, replace and test need "value", move and copy need "from": without it the operation is invalid_patch',
     '(vx_has_op && vx_has_path && *ec_p == 0) ==> (((vx_op == OP_ADD || vx_op == OP_REPLACE || vx_op == OP_TEST) ==> vx_has_value) && ((vx_op == OP_MOVE || vx_op == OP_COPY) ==> vx_has_from))'),
    ('ensures', '[C15] test never edits; it fails when the value differs; a successful add, remove, replace or copy makes exactly one edit and a successful move two',
     '(vx_op == OP_TEST ==> (vx_edits == 0 && (vx_test_differs ==> *ec_p != 0))) && ((*ec_p == 0 && vx_has_op && vx_has_path) ==> ((vx_op == OP_ADD || vx_op == OP_REMOVE || vx_op == OP_REPLACE || vx_op == OP_COPY) ? vx_edits == 1 : vx_op == OP_MOVE ? vx_edits == 2 : vx_edits == 0))'),
]
LOOP = '''__CPROVER_assigns(vx_j, ec, vx_replayed, vx_last, vx_order_bad, vx_k_replays, vx_k_kind)
  __CPROVER_loop_invariant(vx_j <= vx_n && !vx_order_bad && ec == 0 && vx_replayed <= vx_n - vx_j && (vx_replayed > 0 ==> vx_last >= vx_j) && vx_k_replays == ((vx_k >= vx_j && vx_ekind[vx_k] <= op_type_replace) ? 1 : 0) && (vx_k_replays == 1 ==> vx_k_kind == vx_ekind[vx_k]))
  __CPROVER_decreases(vx_j)'''
U_RULES = [
    (r'std::error_code ec;', 'int ec = 0;', 1), (r'state != state_type::commit', 'vx_state != state_type_commit', 1),
    (r'for \(auto it = stack\.rbegin\(\); it != stack\.rend\(\); \+\+it\)', 'for (size_t vx_j = vx_n; vx_j > 0; --vx_j)', 1),
    (r'\(\*it\)\.op == op_type::(\w+)', r'vx_ekind[vx_j - 1] == op_type_\1', 3),
    (r'jsonpointer::(add|replace)\(target,\s*\(\*it\)\.path,\s*\(\*it\)\.value,\s*ec\);', r'vx_replay(vx_j - 1, op_type_\1, &ec);', 2), (r'jsonpointer::remove\(target,\s*\(\*it\)\.path,\s*ec\);', 'vx_replay(vx_j - 1, op_type_remove, &ec);', 1),
    (r'if \(JSONCONS_UNLIKELY\(ec\)\)', 'if (ec)', 3),
]
UNW = [
    ('requires', 'vx_n <= 100000000 && vx_k < vx_n && __CPROVER_is_fresh(vx_ekind, vx_n) && vx_replayed == 0 && !vx_order_bad && !vx_stop && vx_k_replays == 0'),
    ('assigns', 'vx_replayed, vx_last, vx_order_bad, vx_k_replays, vx_k_kind'),
    ('ensures', '[C15] after a committed run nothing is undone', 'vx_state == state_type_commit ==> vx_replayed == 0'),
    ('ensures', '[C15] otherwise every undo entry whose kind is add, remove or replace is replayed exactly once, last entry first, with its own operation (watched entry: any)',
     '(vx_state != state_type_commit && vx_ekind[vx_k] <= op_type_replace) ==> (!vx_order_bad && vx_k_replays == 1 && vx_k_kind == vx_ekind[vx_k])'),
]
D_LOOP = '''__CPROVER_assigns(vx_it, vx_copied, vx_copy_bad)
  __CPROVER_loop_invariant(vx_ntok >= 1 && vx_it <= vx_ntok - 1 && vx_copied == vx_it && !vx_copy_bad)
  __CPROVER_decreases(vx_ntok - 1 - vx_it)'''
D_RULES = [
    (r'using char_type = typename Json::char_type;', '', 1), (r'using string_type = std::basic_string<char_type>;', '', 1),
    (r'auto rit = location\.rbegin\(\);\s*if \(rit == location\.rend\(\)\)', 'if (vx_ntok == 0)', 1), (r'\*rit != jsonpatch_names<char_type>::dash_name\(\)', '!vx_last_is_dash', 1),
    (r'return location;', 'vx_returned_same = true; return;', 3), (r'std::vector<string_type> tokens;', '', 1),
    (r'for \(auto it = location\.begin\(\); it != ([^;]+); \+\+it\)', r'for (size_t vx_it = 0; vx_it != (\1); ++vx_it)', 1), (r'location\.rbegin\(\)\.base\(\)', 'vx_ntok', 1), (r'tokens\.push_back\(\*it\);', 'vx_copy_token(vx_it);', 1),
    (r'jsonpointer::basic_json_pointer<char_type> pointer\(tokens\);', '', 1), (r'std::error_code ec;', 'int ec = 0;', 1),
    (r'Json val = jsonpointer::get\(root, pointer, ec\);', 'if (!vx_parent_ok) ec = 1;', 1), (r'!val\.is_array\(\)', '!vx_parent_is_array', 1),
    (r'val\.size\(\)', 'vx_parent_size', 1, 2), (r'string_type last_token;\s*jsoncons::from_integer\(([^;]+?), last_token\);\s*tokens\.emplace_back\(std::move\(last_token\)\);', r'vx_appended = true; vx_appended_value = (\1);', 1),
    (r'return jsonpointer::basic_json_pointer<char_type>\(std::move\(tokens\)\);', 'vx_returned_new = true; return;', 1),
]
DEF = [
    ('requires', 'vx_ntok <= 100000000 && vx_copied == 0 && !vx_returned_same && !vx_returned_new && !vx_appended && !vx_copy_bad'),
    ('assigns', 'vx_copied, vx_copy_bad, vx_returned_same, vx_returned_new, vx_appended, vx_appended_value'),
    ('ensures', '[C15] a location whose last token is "-" and whose parent is an array becomes the same location with "-" replaced by the number of elements of that array (the position the element will get), every other location is returned as it is',
     '(vx_ntok >= 1 && vx_last_is_dash && vx_parent_ok && vx_parent_is_array) ? (vx_returned_new && !vx_returned_same && !vx_copy_bad && vx_copied == vx_ntok - 1 && vx_appended && vx_appended_value == vx_parent_size) : (vx_returned_same && !vx_returned_new)'),
]
SPECS = [
    EnumSpec('jsonpatch_errc', 'include/jsoncons_ext/jsonpatch/jsonpatch_error.hpp'), EnumSpec('op_type', J), EnumSpec('state_type', J),
    FuncSpec('patch_operation', J, r'void apply_patch\(Json& target, const Json& patch, std::error_code& ec\)', count=1, csig='void patch_operation(int* ec_p)', contract=OPC, rules=OP_RULES,
             slice_from=r'unwinder\.state\s*=\s*jsoncons::jsonpatch::detail::state_type::begin;', slice_to=r'\}\s*if \(unwinder\.state\s*==\s*jsoncons::jsonpatch::detail::state_type::begin\)', prologue='int local_ec = 0;'),
    FuncSpec('definite_path', J, r'definite_path\(const Json& root, jsonpointer::basic_json_pointer<typename Json::char_type>& location\)', count=1, csig='void definite_path(void)', contract=DEF, rules=D_RULES, loops={0: D_LOOP, 'count': 1}),
    FuncSpec('unwinder_replay', J, r'~operation_unwinder\(\) noexcept', count=1, csig='void unwinder_replay(void)', contract=UNW, rules=U_RULES, loops={0: LOOP, 'count': 1}),
]
SITE_CHECKS = [
    {'file': J, 'pattern': r'jsoncons::jsonpatch::detail::operation_unwinder<Json> unwinder\(target\);', 'count': 1, 'props': ['C15'], 'what': 'apply_patch owns one unwinder for the whole run; its destructor runs on every return'},
    {'file': J, 'pattern': r'if \(unwinder\.state\s*==\s*jsoncons::jsonpatch::detail::state_type::begin\)\s*\{\s*unwinder\.state\s*=\s*jsoncons::jsonpatch::detail::state_type::commit;', 'count': 1, 'props': ['C15'], 'what': 'the run is committed only after the loop, and only if no operation aborted'},
]
HARNESSES = [
    Harness('patch_operation', 'h_patch_operation', enforce='patch_operation', method='LF', props=['C15'], note='the body of the loop over the operations of a patch, for every operation name and every outcome of every document edit'),
    Harness('definite_path', 'h_definite_path', enforce='definite_path', loop_contracts=True, method='LC', props=['C15'], expect_classes={'loop_invariant_step': 1}),
    Harness('unwinder_replay', 'h_unwinder_replay', enforce='unwinder_replay', loop_contracts=True, method='LC', props=['C15'], expect_classes={'loop_invariant_step': 1}, note='replay steps are taken not to fail (they undo edits that just succeeded)'),
]
