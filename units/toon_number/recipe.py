# U-TOON-NUM (C18, C04): number recognition on both sides of TOON
from core import FuncSpec, CopySpec, EnumSpec, Harness
R = 'include/jsoncons_ext/toon/toon_reader.hpp'
E = 'include/jsoncons_ext/toon/encode_toon.hpp'
S = 'parse_number_state_'
# --- reader ---
REL_Q = ('((state == %ssign) ==> (i == 0 && vx_q == TM_START && vx_num_len == 0)) && ((state == %szero) ==> ((vx_q == TM_ZERO && vx_num_len == 1) || (vx_q == TM_EXP && i == vx_n && vx_num_len == 2))) '
         '&& ((state == %sdigits) ==> ((vx_num_len == 0 && (vx_q == TM_START || vx_q == TM_NEG) && vx_nz_i == i && vx_nz_c != \'0\' && (vx_q == TM_START ==> vx_nz_c != \'-\') && (i < vx_n ==> vx_tok[i] == vx_nz_c)) || (vx_num_len > 0 && vx_q == TM_INT))) '
         '&& ((state == %sfraction) ==> ((decimal_places == 0 && vx_q == TM_DOT) || (decimal_places > 0 && vx_q == TM_FRAC))) '
         '&& ((state == %sexponent_sign) ==> (vx_q == TM_E && vx_exp_len == 0)) '
         '&& ((state == %sexponent_value) ==> ((vx_exp_len == 0 && (vx_q == TM_E || vx_q == TM_ESIGN)) || (vx_exp_len > 0 && vx_q == TM_EXP))) && state <= %sexponent_value && (state <= %sdigits ==> decimal_places == 0) && (state <= %sexponent_sign ==> vx_exp_len == 0)') % ((S,) * 9)
REL_P = ('(vx_qp != TP_REJ) ==> (vx_q == vx_qp && !not_a_number && vx_exp_len == 0 && vx_num_len == vx_ndig && decimal_places == vx_nfrac && !vx_push_bad '
         '&& ((vx_qp == TP_START) == (i == 0)) && (vx_qp == TP_NEG ==> (state == %sdigits && vx_num_len == 0)) && (vx_qp == TP_ZERO ==> state == %szero) && (vx_qp == TP_INT ==> (state == %sdigits && vx_num_len > 0)) '
         '&& ((vx_qp == TP_DOT || vx_qp == TP_FRAC) ==> state == %sfraction) && (vx_seen_dot == (vx_qp == TP_DOT || vx_qp == TP_FRAC)))') % ((S,) * 4)
R_LOOP = '''__CPROVER_assigns(i, state, neg_value, neg_exp, not_a_number, decimal_places, vx_num_len, vx_exp_len, vx_push_bad, vx_q, vx_qp, vx_consumed, vx_ndig, vx_nfrac, vx_seen_dot, vx_gave_up, vx_nz_i, vx_nz_c)
  __CPROVER_loop_invariant(i <= vx_n && vx_consumed == i && vx_ndig <= i && vx_nfrac <= vx_ndig && decimal_places <= i && vx_num_len <= i + 1 && vx_exp_len <= i && (not_a_number ==> vx_qp == TP_REJ)
      && (!not_a_number ==> (%s)) && (%s) && (i == 0 ==> (!neg_value && !vx_seen_dot && (!not_a_number ==> vx_qp == TP_START))) && (!not_a_number ==> ((vx_q == TM_START) == (i == 0))) && (i >= 1 ==> (neg_value ==> vx_first == '-')) && ((vx_qp != TP_REJ && i >= 1) ==> (neg_value == (vx_first == '-' && !(i == 2 && vx_n == 2 && vx_qp == TP_ZERO)))))''' % (REL_Q, REL_P)
R_RULES = [
    (r'std::string num_str;', '', 1), (r'std::string exponent_str;', '', 1),
    (r'bool (neg_value|neg_exp|not_a_number) = false;', r'\1 = false;', 3), (r'std::size_t decimal_places = 0;', 'decimal_places = 0; char vx_first = vx_tok[0];', 1),
    (r'parse_number_state state = parse_number_state::sign;', 'uint8_t state = parse_number_state_sign;', 1),
    (r'state = parse_number_state::digits;', 'state = parse_number_state_digits; VX_NOTE(i);', 1, 2),
    (r'parse_number_state::(\w+)', r'parse_number_state_\1', 10, 40),
    (r'\n        not_a_number = true;', '\n        VX_END_REJECT(); not_a_number = true;', 0, 1),
    (r'(?<!VX_END_REJECT\(\); )not_a_number = true;', 'VX_GIVE_UP(i); not_a_number = true;', 4, 8),
    (r'if \(\+\+i == token\.size\(\)\)', 'VX_STEP_AT(i); if (++i == vx_n)', 1),
    (r'i \+= 2;', 'VX_STEP_AT(i); VX_STEP_AT(i + 1); i += 2;', 0, 1),
    (r'(?<!\+)\+\+i;', 'VX_STEP_AT(i); ++i;', 6, 14),
    (r'token\.size\(\)', 'vx_n', 3, 10), (r'token\[([^\]]+)\]', r'vx_tok[\1]', 4, 12),
    (r"num_str\.push_back\('0'\);", "vx_num_push('0', vx_tok[i]);", 1, 3), (r'num_str\.push_back\(c\);', 'vx_num_push(c, vx_tok[i]);', 1, 4), (r'num_str\.empty\(\)', '(vx_num_len == 0)', 0, 2),
    (r'exponent_str\.push_back\(c\);', 'vx_exp_len++;', 1), (r'exponent_str\.empty\(\)', '(vx_exp_len == 0)', 0, 2),
]
SCAN = [
    ('requires', 'vx_n >= 1 && vx_n <= 100000000 && __CPROVER_is_fresh(vx_tok, vx_n) && vx_q == TM_START && vx_qp == TP_START && vx_consumed == 0 && vx_ndig == 0 && vx_nfrac == 0 && !vx_seen_dot && !vx_gave_up && vx_num_len == 0 && vx_exp_len == 0 && !vx_push_bad'),
    ('assigns', 'neg_value, neg_exp, not_a_number, decimal_places, vx_num_len, vx_exp_len, vx_push_bad, vx_q, vx_qp, vx_consumed, vx_ndig, vx_nfrac, vx_seen_dot, vx_gave_up, vx_nz_i, vx_nz_c'),
    ('ensures', '[C18] a token is taken as a number only if it is a number look-alike (in M): optional minus, integer part without leading zeros, a fraction and an exponent with at least one digit each; such strings are the ones the encoder quotes',
     '!not_a_number ==> (vx_consumed == vx_n && spec_toon_numlike_accepting(vx_q))'),
    ('ensures', '[C18][C04] every plain decimal number (the form the encoder writes) is taken as a number; the digits kept are the digits of the token in order, the number of decimal places is the number of fraction digits, there is no exponent, and the sign is the token\'s (minus zero without fraction is written 0)',
     '(vx_consumed == vx_n && spec_toon_plain_accepting(vx_qp)) ==> (!not_a_number && vx_num_len == vx_ndig && decimal_places == vx_nfrac && vx_exp_len == 0 && !vx_push_bad && neg_value == (vx_tok[0] == \'-\' && !(vx_n == 2 && vx_qp == TP_ZERO)))'),
    ('ensures', '[C18][C04] the monitors have either seen the whole token or the scan stopped at a character that P rejects', 'vx_consumed == vx_n || (not_a_number && vx_qp == TP_REJ)'),
]
# --- encoder ---
T = 'is_number_state_'
E_REL = ('((state == %sinitial) ==> (i == 0 && vx_q == TM_START)) && ((state == %snegative) ==> vx_q == TM_NEG) && ((state == %sleading_zero || state == %sleading_decimal_zero) ==> vx_q == TM_ZERO) '
         '&& ((state == %soctal) ==> ((vx_q == TM_ZERO && vx_nz_i == i && vx_nz_c != \'.\' && vx_nz_c != \'e\' && vx_nz_c != \'E\' && (i < vx_n ==> vx_tok[i] == vx_nz_c)) || vx_q == TM_REJ)) '
         '&& ((state == %sdigits_or_dot_or_exp) ==> (((vx_q == TM_START || vx_q == TM_NEG) && vx_nz_i == i && vx_nz_c != \'0\' && (vx_q == TM_START ==> vx_nz_c != \'-\') && (i < vx_n ==> vx_tok[i] == vx_nz_c)) || vx_q == TM_INT)) '
         '&& ((state == %sdecimal_digit) ==> vx_q == TM_DOT) && ((state == %sdigits_or_exp) ==> vx_q == TM_FRAC) && ((state == %sexponent) ==> vx_q == TM_E) && ((state == %sdigits) ==> (vx_q == TM_ESIGN || vx_q == TM_EXP)) '
         '&& ((state == %snot_number) ==> vx_q == TM_REJ) && state != %sdecimal_zero && state <= %snot_number') % ((T,) * 13)
E_LOOP = '''__CPROVER_assigns(i, state, vx_q, vx_qp, vx_consumed, vx_ndig, vx_nfrac, vx_seen_dot, vx_nz_i, vx_nz_c)
  __CPROVER_loop_invariant(i <= vx_n && (vx_consumed == i || state == is_number_state_not_number) && vx_consumed <= vx_n && vx_ndig <= vx_consumed && vx_nfrac <= vx_ndig && (%s))''' % E_REL
E_RULES = [
    (r'is_number_state state = is_number_state::initial;', 'uint8_t state = is_number_state_initial;', 1),
    (r'state = is_number_state::not_number;', 'VX_E_GIVE_UP(i); state = is_number_state_not_number;', 6, 16),
    (r'state = is_number_state::digits_or_dot_or_exp;', 'state = is_number_state_digits_or_dot_or_exp; VX_NOTE(i);', 2, 6),
    (r'state = is_number_state::octal;', 'state = is_number_state_octal; VX_NOTE(i);', 1, 2),
    (r'is_number_state::(\w+)', r'is_number_state_\1', 20, 60),
    (r'i = str\.size\(\);', 'i = vx_n;', 1, 2), (r'(?<!\+)\+\+i;', 'VX_STEP_AT(i); ++i;', 10, 24), (r'str\.size\(\)', 'vx_n', 1, 3), (r'str\[i\]', 'vx_tok[i]', 1, 2),
]
ISNUM = [
    ('requires', 'vx_n >= 1 && vx_n <= 100000000 && __CPROVER_is_fresh(vx_tok, vx_n) && vx_q == TM_START && vx_qp == TP_START && vx_consumed == 0 && vx_ndig == 0 && vx_nfrac == 0 && !vx_seen_dot'),
    ('assigns', 'vx_q, vx_qp, vx_consumed, vx_ndig, vx_nfrac, vx_seen_dot, vx_nz_i, vx_nz_c'),
    ('ensures', '[C18] every number look-alike (string in M) is recognised, so that is_unquoted_safe refuses it and the encoder quotes it', '(vx_consumed == vx_n && spec_toon_numlike_accepting(vx_q)) ==> __CPROVER_return_value'),
    ('ensures', '[C18] the monitor has seen the whole string unless is_number gave up at a character where M rejects', 'vx_consumed == vx_n || (vx_q == TM_REJ && !__CPROVER_return_value)'),
]
# --- encoder: which strings may be written without quotes (TOON specification, "Quoting rules for string values") ---
SPECIAL = "(%s == ':' || %s == '[' || %s == ']' || %s == '{' || %s == '}' || %s == '\\\"' || %s == '\\\\' || %s == '\\n' || %s == '\\r' || %s == '\\t')"
def sp(x): return SPECIAL % ((x,) * 10)
Q_LOOP = '''__CPROVER_assigns(vx_i)
  __CPROVER_loop_invariant(vx_i <= vx_n && (vx_w < vx_i ==> (!%s && vx_tok[vx_w] != delimiter)))
  __CPROVER_decreases(vx_n - vx_i)''' % sp('vx_tok[vx_w]')
Q_RULES = [
    (r'str\.empty\(\)', '(vx_n == 0)', 1, 2), (r'std::isspace\(static_cast<unsigned char>\(([^()]+\(\))\)\)', r'vx_isspace(\1)', 2, 3),
    (r'is_number\(str\)', 'is_number()', 1), (r'str == null_literal \|\| str == true_literal \|\| str == false_literal', 'vx_is_literal', 1),
    (r'for \(auto c : str\)\s*\{', 'for (size_t vx_i = 0; vx_i < vx_n; ++vx_i) { char c = vx_tok[vx_i];', 1),
    (r'str\.front\(\)', 'vx_tok[0]', 1, 4), (r'str\.back\(\)', 'vx_tok[vx_n - 1]', 1, 2), (r'str\.(?:size|length)\(\)', 'vx_n', 0, 3),
]
UNQ = [
    ('requires', 'vx_n <= 100000000 && (vx_n == 0 || __CPROVER_is_fresh(vx_tok, vx_n)) && (vx_n == 0 || vx_w < vx_n) && vx_q == TM_START && vx_qp == TP_START && vx_consumed == 0 && vx_ndig == 0 && vx_nfrac == 0 && !vx_seen_dot'),
    ('assigns', 'vx_q, vx_qp, vx_consumed, vx_ndig, vx_nfrac, vx_seen_dot, vx_nz_i, vx_nz_c'),
    ('ensures', '[C18] a string is written without quotes only if it is not empty, has no white space at either end, is not true / false / null, does not start with "-", and is not a number look-alike (so a reader cannot take it for anything but this string)',
     '__CPROVER_return_value ==> (vx_n >= 1 && !vx_isspace(vx_tok[0]) && !vx_isspace(vx_tok[vx_n - 1]) && !vx_is_literal && vx_tok[0] != \'-\' && !(vx_consumed == vx_n && spec_toon_numlike_accepting(vx_q)))'),
    ('ensures', '[C18] ... and contains (watched position: any) none of : [ ] { } " \\ LF CR TAB and not the active delimiter (the characters that end a token, open a structure or need an escape)',
     '(__CPROVER_return_value && vx_n >= 1) ==> (!%s && vx_tok[vx_w] != delimiter)' % sp('vx_tok[vx_w]')),
]
SPECS = [
    EnumSpec('parse_number_state', R), EnumSpec('is_number_state', E),
    FuncSpec('scan_number_token', R, r'jsoncons::expected<void,std::error_code> parse_primitive\(jsoncons::span<char> token, jsoncons::json_visitor& visitor\)', count=1, csig='void scan_number_token(void)', contract=SCAN, rules=R_RULES,
             slice_from=r'std::string num_str;', slice_to=r'if \(not_a_number\)\s*\{\s*visitor\.string_value\(jsoncons::string_view\(token\.data\(\), token\.size\(\)\)\);\s*return result_type\{\};\s*\}\s*if \(!exponent_str\.empty\(\)\)',
             loops={0: R_LOOP, 'count': 1}),
    FuncSpec('is_number', E, r'bool is_number\(jsoncons::string_view str\)', count=1, csig='bool is_number(void)', contract=ISNUM, rules=E_RULES, loops={0: E_LOOP, 'count': 1}),
    FuncSpec('is_unquoted_safe', E, r'bool is_unquoted_safe\(jsoncons::string_view str, char delimiter = \',\'\)', count=1, csig='bool is_unquoted_safe(char delimiter)', contract=UNQ, rules=Q_RULES, loops={0: Q_LOOP, 'count': 1}),
]
SITE_CHECKS = [
    {'file': E, 'pattern': r'if \(is_number\(str\)\)\s*\{\s*return false;\s*\}', 'count': 1, 'props': ['C18'], 'what': 'is_unquoted_safe refuses every string that is_number recognises, so such strings are quoted'},
    {'file': R, 'pattern': r'\bparse_number\(', 'count': 1, 'props': ['C18'], 'what': 'the second number routine of the reader (parse_number) is defined but never called: parse_primitive is the only place where tokens become numbers'},
]
HARNESSES = [
    Harness('is_unquoted_safe', 'h_is_unquoted_safe', enforce='is_unquoted_safe', replace=['is_number'], loop_contracts=True, method='LC', props=['C18'], expect_classes={'loop_invariant_step': 1}),
    Harness('scan_number_token', 'h_scan_number_token', enforce='scan_number_token', loop_contracts=True, method='LC', props=['C18', 'C04'], expect_classes={'loop_invariant_step': 1}, timeout=1200,
            note='slice of parse_primitive: from the declaration of the scan results to the decision "not a number -> string"; the assembly of the normalised text (insertion of "." and "-", exponent shifting) and the conversions are not under contract'),
    Harness('is_number', 'h_is_number', enforce='is_number', loop_contracts=True, method='LC', props=['C18'], expect_classes={'loop_invariant_step': 1}, timeout=1200),
]
