// finding probe csv_options (C05): CSV texts decoded under option combinations found by a native mutation run; decode_csv must return a value or fail with a
// json_exception - never with an internal assertion (assertion_error is a std::runtime_error, not a json_exception).  The neighbours hold.
#include <jsoncons/json.hpp>
#include <jsoncons_ext/csv/csv.hpp>
#include <iostream>
using namespace jsoncons;
struct pcase { const char* id; const char* text; bool header; csv::csv_mapping_kind kind; int header_lines; bool ignore_empty; const char* column_types; bool empty_is_null; };
static const pcase cases[] = {
    {"header_lines2_leading_empty_line", "\nh\nc\n", true, csv::csv_mapping_kind::n_rows, 2, false}, {"header_lines2_leading_empty_line_eof", "\nh", true, csv::csv_mapping_kind::n_rows, 2, false},
    {"header_lines2_plain", "a\nb\nc\n", true, csv::csv_mapping_kind::n_rows, 2, false}, {"header_lines0_leading_empty_line", "\nh", true, csv::csv_mapping_kind::n_rows, 0, false},
    {"header_lines3_n_rows", "h\nc\nd\ne\n", true, csv::csv_mapping_kind::n_rows, 3, false}, {"header_lines3_n_objects", "h\nc\nd\ne\n", true, csv::csv_mapping_kind::n_objects, 3, false}, {"header_lines3_n_rows_no_header", "h\nc\nd\ne\n", false, csv::csv_mapping_kind::n_rows, 3, false},
    {"typed_group_repeat_empty_is_null", "1,x,,3\n", false, csv::csv_mapping_kind::n_rows, 0, false, "integer,string,[float]*", true}, {"typed_group_repeat_empty_is_null_objects", "a,b,c,d\n1,x,,3\n", true, csv::csv_mapping_kind::n_objects, 0, false, "integer,string,[float]*", true},
    {"typed_group_repeat_ignore_empty_objects", "a,b,c,d\n1,x,,3\n", true, csv::csv_mapping_kind::n_objects, 0, true, "integer,string,[float]*", false},
    {"nested_typed_groups_objects", "a,b,c,d\n1,x,2,3\n", true, csv::csv_mapping_kind::n_objects, 0, false, "integer,[string,[float]*]", false}, {"single_typed_group_objects", "a,b,c,d\n1,x,2,3\n", true, csv::csv_mapping_kind::n_objects, 0, false, "integer,string,[float]*", false},
    {"typed_group_repeat_empty_kept", "1,x,,3\n", false, csv::csv_mapping_kind::n_rows, 0, false, "integer,string,[float]*", false}, {"typed_group_repeat_no_empty_is_null", "1,x,2,3\n", false, csv::csv_mapping_kind::n_rows, 0, false, "integer,string,[float]*", true},
    {"repeat_plain_float", "a,b\n1,2\n", true, csv::csv_mapping_kind::n_rows, 0, false, "float*", false},
    {"nameless_objects_quote_after_text_at_eof_ignore_empty", "a,b\n1x\"\"", false, csv::csv_mapping_kind::n_objects, 0, true}, {"nameless_objects_quote_after_text_at_eof", "a,b\n1x\"\"", false, csv::csv_mapping_kind::n_objects, 0, false},
    {"nameless_objects_plain", "a,b\n1,2\n", false, csv::csv_mapping_kind::n_objects, 0, true}, {"named_objects_quote_after_text_at_eof_ignore_empty", "a,b\n1x\"\"", true, csv::csv_mapping_kind::n_objects, 0, true},
};
int main(int argc, char** argv)
{
    for (const pcase& c : cases) {
        if (argc > 1 && std::string(argv[1]) != c.id) continue;
        std::string what; auto o = csv::csv_options{}.assume_header(c.header).mapping_kind(c.kind).ignore_empty_values(c.ignore_empty); if (c.header_lines) o.header_lines(c.header_lines); if (c.column_types) o.column_types(c.column_types); if (c.empty_is_null) o.unquoted_empty_value_is_null(true);
        try { json j = csv::decode_csv<json>(std::string(c.text), o); (void)j; }
        catch (const jsoncons::json_exception&) {}
        catch (const std::exception& e) { what = std::string("foreign exception: ") + e.what(); }
        if (what.empty()) std::cout << "PROBE " << c.id << " HOLDS\n"; else std::cout << "PROBE " << c.id << " FAILS: " << what << "\n";
    }
    return 0;
}
