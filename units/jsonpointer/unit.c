/* unit jsonpointer: RFC 6901 string level - escaping, tokenizer, array-index resolution */
#include "vx_common.h"
#include "spec_ptr.h"
#include "spec_int.h"

/*@ENUM jsonpointer_errc@*/
/*@ENUM pointer_state@*/

#define VX_IN_MAX 100000000
/* ghost input: vx_in[0..vx_len) */
static char* vx_in; static size_t vx_len;
/* escape: output monitor (S-PTR token decoder) with ghost input cursor vx_k */
static size_t vx_k, vx_out_n; static int vx_ust; static bool vx_bad;
#define VX_ESC_OUT(ch) do { int vx_r = spec_ptr_unescape_step(&vx_ust, (ch)); vx_out_n++; \
    if (vx_r == -2) vx_bad = true; \
    else if (vx_r >= 0) { if (!(vx_k < vx_len) || (unsigned char)vx_in[vx_k] != vx_r) vx_bad = true; vx_k++; } \
    __CPROVER_assert(!vx_bad, "[C14] every escaped character decodes to the next character of the input token"); } while (0)
/* parse: input DFA monitor and re-escaping cursor */
static int vx_mon, vx_final_mon; static bool vx_open; static size_t vx_ntok;
#define VX_MON_STEP(c) (vx_mon = spec_ptr_step(vx_mon, (c)))
/* (inline functions rather than do-while(0) macros: goto-instrument treats a do-while inside a loop under contract as a nested loop) */
static inline void vx_expect(char ch) { if (!(vx_k < vx_len) || vx_in[vx_k] != ch) vx_bad = true; vx_k++; }
static inline void vx_open_token(void) { if (!vx_open) { vx_expect('/'); vx_open = true; } }
static inline void VX_TOK_CHAR(char ch)
{
    vx_open_token();
    if (ch == '~') { vx_expect('~'); vx_expect('0'); } else if (ch == '/') { vx_expect('~'); vx_expect('1'); } else { vx_expect(ch); }
    __CPROVER_assert(!vx_bad, "[C14] re-escaping the decoded token character reproduces the input");
}
static inline void VX_TOKEN_END(void)
{
    vx_open_token(); vx_open = false; vx_ntok++;
    __CPROVER_assert(!vx_bad, "[C14] every token is introduced by its \"/\" in the input");
}
/* resolve: ghost container and token */
static bool vx_is_array, vx_is_object, vx_contains; static size_t vx_size;
static unsigned vx_visits, vx_key_visits; static uint64_t vx_visited;
#define VX_AT(i) do { __CPROVER_assert((i) < vx_size, "[C05][C14] array element access is in bounds"); vx_visited = (i); vx_visits++; } while (0)
#define VX_AT_KEY() do { vx_key_visits++; } while (0)
/* edits of the final step: each records what was modified and where */
static unsigned vx_appends, vx_inserts, vx_erases, vx_assigns, vx_obj_sets, vx_obj_adds, vx_obj_erases; static uint64_t vx_mod_index;
#define VX_MODS() (vx_appends + vx_inserts + vx_erases + vx_assigns + vx_obj_sets + vx_obj_adds + vx_obj_erases)
#define VX_NOMOD() (vx_appends == 0 && vx_inserts == 0 && vx_erases == 0 && vx_assigns == 0 && vx_obj_sets == 0 && vx_obj_adds == 0 && vx_obj_erases == 0)
#define VX_APPEND() do { vx_appends++; } while (0)
#define VX_INSERT(i) do { __CPROVER_assert((i) <= vx_size, "[C05][C14] array insertion position is within [0, size]"); vx_mod_index = (i); vx_inserts++; } while (0)
#define VX_ERASE(i) do { __CPROVER_assert((i) < vx_size, "[C05][C14] erased array element is in bounds"); vx_mod_index = (i); vx_erases++; } while (0)
#define VX_ASSIGN(i) do { __CPROVER_assert((i) < vx_size, "[C05][C14] replaced array element is in bounds"); vx_mod_index = (i); vx_assigns++; } while (0)
#define VX_OBJ_SET() do { vx_obj_sets++; } while (0)
#define VX_OBJ_ADD() do { vx_obj_adds++; } while (0)
#define VX_OBJ_ERASE() do { vx_obj_erases++; } while (0)
/* dec_to_integer<uint64_t> is used through its contract (proved in unit integers) */
enum { VX_ERRC_ok = 0, VX_ERRC_invalid_argument = 22, VX_ERRC_result_out_of_range = 34 };
struct to_number_result { const char* ptr; int ec; };
static const char* vx_s; static size_t vx_k_unused;
static spec_u128 vx_h; static size_t vx_h_i;
/*@COPY dec_contract_decl@*/
/*@COPY dec_i64_contract_decl@*/
#define VX_DEC_TO_INTEGER(s, n, p) _Generic((p), uint64_t*: dec_to_integer_u64, int64_t*: dec_to_integer_i64)((s), (n), (p))

/*@FUNC escape@*/
/*@FUNC escape_string@*/
/*@FUNC to_string_token@*/
/*@FUNC parse@*/
/*@FUNC resolve_get@*/
/*@FUNC resolve_mut@*/
/*@FUNC add_final@*/
/*@FUNC add_if_absent_final@*/
/*@FUNC remove_final@*/
/*@FUNC replace_final@*/

#ifdef VX_CBMC
#include <stdlib.h>
static void setup_in(void)
{
    vx_len = nondet_size();
#ifdef VX_SMALL
    __CPROVER_assume(vx_len <= 10);
#endif
    __CPROVER_assume(vx_len <= VX_IN_MAX);
    vx_in = malloc(vx_len ? vx_len : 1); __CPROVER_assume(vx_in != 0);
    vx_k = 0; vx_ust = 0; vx_bad = false; vx_out_n = 0; vx_mon = PTR_START; vx_open = false; vx_ntok = 0;
}
void h_escape(void) { setup_in(); escape(); }
void h_escape_string(void) { setup_in(); escape_string(); }
void h_to_string_token(void) { setup_in(); to_string_token(); }
void h_parse(void) { setup_in(); int ec = 0; parse(&ec); }
static char vx_tok[SPEC_INT_MAXLEN];
static int vx_ec;
static void setup_resolve(void)
{
    vx_ec = 0;
    __CPROVER_havoc_object(vx_tok);
    vx_len = nondet_size(); __CPROVER_assume(vx_len <= SPEC_INT_MAXLEN);
    vx_s = vx_tok; vx_k = spec_digit_prefix(vx_tok, vx_len); vx_h = 0; vx_h_i = 0;
    vx_is_array = nondet_bool(); vx_is_object = nondet_bool(); vx_contains = nondet_bool(); vx_size = nondet_size();
    vx_visits = 0; vx_key_visits = 0;
    vx_appends = 0; vx_inserts = 0; vx_erases = 0; vx_assigns = 0; vx_obj_sets = 0; vx_obj_adds = 0; vx_obj_erases = 0;
}
void h_resolve_get(void) { setup_resolve(); resolve_get(&vx_ec); }
void h_resolve_mut(void) { setup_resolve(); resolve_mut(nondet_bool(), &vx_ec); }
void h_add_final(void) { setup_resolve(); add_final(nondet_bool(), &vx_ec); }
void h_add_if_absent_final(void) { setup_resolve(); add_if_absent_final(nondet_bool(), &vx_ec); }
void h_remove_final(void) { setup_resolve(); remove_final(&vx_ec); }
void h_replace_final(void) { setup_resolve(); replace_final(nondet_bool(), &vx_ec); }
#endif
