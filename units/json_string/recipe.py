# U-PSTR (DESIGN 6, 5.2, 5.3): basic_json_parser::parse_string + append_to_codepoint against the RFC 8259 string DFA with decoder,
# all 12 entry states, unbounded buffer, decoded content checked at an arbitrary watched position, backward "goto text" cut by re-entry assertion.
from core import FuncSpec, CopySpec, EnumSpec, Harness, INF

J = 'include/jsoncons/json_parser.hpp'
LABELS = {'text': 'STR_TEXT', 'escape': 'STR_ESC', 'escape_u1': 'STR_U1', 'escape_u2': 'STR_U2', 'escape_u3': 'STR_U3', 'escape_u4': 'STR_U4',
          'escape_expect_surrogate_pair1': 'STR_HS_BS', 'escape_expect_surrogate_pair2': 'STR_HS_U',
          'escape_u5': 'STR_L1', 'escape_u6': 'STR_L2', 'escape_u7': 'STR_L3', 'escape_u8': 'STR_L4'}
LABEL_RULES = [(r'(?m)^%s:' % l, '%s: VX_AT_LABEL(%s%s);' % (l, s, ', 1' if l == 'text' else ', 0'), 1) for l, s in LABELS.items()]
RULES = [
    # cut points: every backward jump to text (the first "goto text" is the forward entry dispatch and stays)
    (r'(?s)\A(.*?goto text;)(.*)\Z', lambda m: m.group(1) + m.group(2).replace('goto text;', 'VX_REENTER_TEXT();'), 1),
    (r'VX_REENTER_TEXT\(\);', 'VX_REENTER_TEXT();', 9),
    (r'parse_string_state::(\w+)', r'parse_string_state_\1', 30, 40),
    (r'parse_string_state\{\}', 'parse_string_state_text', 4),
    (r'json_errc::(\w+)', r'json_errc_\1', 8, 14),
    (r'semantic_tag\{\}', 'semantic_tag_none', 1),
    (r'more_ = err_handler_\((\w+), \*this\);', r'more_ = vx_err_handler(\1);', 1),
    (r'!err_handler_\((\w+), \*this\)', r'!vx_err_handler(\1)', 1),
    (r'err_handler_\((\w+), \*this\);', r'vx_err_handler(\1);', 3),
    (r'buffer_\.append\(sb,\s*cur-sb\);', 'vx_sbuf_append(sb, (size_t)(cur-sb));', 5),
    (r"buffer_\.push_back\('(\\?.)'\);", r"vx_sbuf_push('\1');", 8),
    (r'buffer_\.empty\(\)', '(vx_sbuf_len == 0)', 1),
    (r'end_string_value\(sb,\s*cur-sb, visitor, ec\);', 'vx_end_string_value_in(sb, (size_t)(cur-sb), ec_p);', 1),
    (r'end_string_value\(buffer_\.data\(\), buffer_\.length\(\), visitor, ec\);', 'vx_end_string_value_buf(ec_p);', 1),
    (r'unicode_traits::convert\(&(\w+), 1, buffer_\);', r'vx_sbuf_append_cp(\1);', 2),
    (r'unicode_traits::is_high_surrogate\(', 'is_high_surrogate(', 1),
    (r'append_to_codepoint\((\w+), \*cur, ec\)', r'append_to_codepoint(self, \1, *cur, ec_p)', 8),
    (r'sb = \+\+cur;', 'VX_MON_STEP(*cur); sb = ++cur;', 10),
    (r'(?<!sb = )\+\+cur;', 'VX_MON_STEP(*cur); ++cur;', 14),
    (r'const char_type\*', 'const char*', 2),
] + LABEL_RULES
# position of cur / sb inside the chunk
OC, OS = '__CPROVER_POINTER_OFFSET(cur)', '__CPROVER_POINTER_OFFSET(sb)'
LOOP = '''__CPROVER_assigns(cur, sb, vx_mon, vx_exp_len, vx_exp_w, vx_saw_escape, vx_unspec, position_, more_, vx_err_called, vx_err_code, vx_sbuf_len, vx_act_w)
  __CPROVER_loop_invariant(__CPROVER_same_object(cur, vx_buf) && __CPROVER_same_object(sb, vx_buf) && vx_off <= %s && %s <= %s && %s <= vx_n
      && vx_mon.st == STR_TEXT && *ec_p == 0 && vx_event == 0 && !vx_cut && !vx_err_called && more_ && vx_sbuf_len <= SIZE_MAX / 4
      && (escape_tag_ == semantic_tag_noesc ==> !vx_saw_escape)
      && VX_CONSISTENT(%s, %s))
  __CPROVER_decreases(vx_n - %s)''' % (OS, OS, OC, OC, OS, OC, OC)
RES = '__CPROVER_return_value'
RO = '__CPROVER_POINTER_OFFSET(%s)' % RES
QUIET = '(vx_event == 0 && !vx_err_called && !vx_cut)'
CONTRACT = [
    ('requires', 'vx_off <= vx_n && cur == vx_buf + vx_off && self->input_end_ == vx_buf + vx_n && *ec_p == 0 && self->more_'),
    ('requires', 'self->string_state_ <= parse_string_state_escape_u8 && vx_state_agrees(self->string_state_) && vx_mon_wf() && vx_accumulators_agree(self)'),
    ('requires', 'vx_event == 0 && !vx_err_called && !vx_cut && self->position_ <= SIZE_MAX / 2 && vx_n <= SIZE_MAX / 4 && vx_sbuf_len <= SIZE_MAX / 4 && vx_exp_len <= SIZE_MAX / 4'),
    ('requires', '(self->escape_tag_ == semantic_tag_noesc ==> !vx_saw_escape) && VX_CONSISTENT0()'),
    ('assigns', 'self->string_state_, self->position_, self->more_, self->cp_, self->cp2_, self->escape_tag_, *ec_p, vx_mon, vx_exp_len, vx_exp_w, vx_saw_escape, vx_unspec, vx_event, vx_ev_len, vx_ev_w, vx_err_called, vx_err_code, vx_cut, vx_sbuf_len, vx_act_w'),
    ('ensures', '[C05][C03] the returned position lies inside the chunk', '__CPROVER_same_object(%s, vx_buf) && vx_off <= %s && %s <= vx_n' % (RES, RO, RO)),
    ('ensures', '[C03][C02] suspension (buffer exhausted, or yield after a \\\\uXXXX escape): the saved state is the RFC 8259 string-DFA state of the characters consumed, with the \\\\u accumulators saved',
     '%s ==> (vx_state_agrees(self->string_state_) && vx_mon_wf() && vx_accumulators_agree(self) && *ec_p == 0 && (%s == vx_n || vx_mon.st == STR_TEXT))' % (QUIET, RO)),
    ('ensures', '[C03][C01][C02] suspension: the scratch buffer holds exactly the decoded text of everything consumed so far (length and content at the watched position)',
     '%s ==> VX_CONSISTENT0()' % QUIET),
    ('ensures', '[C02][C01] a string value is delivered exactly when the closing quotation mark has been consumed, and it is the RFC 8259 decoding of the string: same length, same content (watched position), escapes and surrogate pairs decoded to their UTF-8',
     'vx_event != 0 ==> (vx_event == 1 && (*ec_p == 0 ? vx_mon.st == STR_END : (vx_mon.st == STR_TEXT && %s < vx_n && vx_buf[%s] == \'"\')) && !vx_err_called && (vx_unspec || (vx_ev_len == vx_exp_len && (vx_w < vx_ev_len ==> vx_ev_w == vx_exp_w))))' % (RO, RO)),
    ('ensures', '[C01] the noesc tag survives only if no escape sequence was consumed (so the encoder may copy such a string verbatim)',
     '(self->escape_tag_ == semantic_tag_noesc ==> !vx_saw_escape)'),
    ('ensures', '[C02] an error is raised only where the RFC 8259 string grammar has no transition for the next character (control character, bad escape, bad hex digit, high surrogate not followed by \\\\u)',
     'vx_err_called ==> (vx_event == 0 && *ec_p == vx_err_code && *ec_p != 0 && !self->more_ && %s < vx_n && vx_no_transition(vx_buf[%s]))' % (RO, RO)),
    ('ensures', '[C02] ... with the documented error code',
     'vx_err_called ==> vx_err_code == vx_expected_error(vx_buf[%s])' % RO),
]
AL = {'ec': '(*ec_p)', 'string_state_': '(self->string_state_)', 'input_end_': '(self->input_end_)', 'position_': '(self->position_)', 'more_': '(self->more_)',
      'cp_': '(self->cp_)', 'cp2_': '(self->cp2_)', 'escape_tag_': '(self->escape_tag_)'}
SPECS = [
    EnumSpec('parse_string_state', J), EnumSpec('json_errc', 'include/jsoncons/json_error.hpp'), EnumSpec('semantic_tag', 'include/jsoncons/semantic_tag.hpp'),
    CopySpec('illegal_control', J, r'#define JSONCONS_ILLEGAL_CONTROL_CHARACTER', r'case 0x1f\s*\n', include_end=True),
    FuncSpec('is_high_surrogate', 'include/jsoncons/utility/unicode_traits.hpp', r'bool is_high_surrogate\(uint32_t ch\)', count=1,
             csig='static bool is_high_surrogate(uint32_t ch)', rules=[(r'sur_high_start', '0xD800', 1), (r'sur_high_end', '0xDBFF', 1)],
             contract=[('assigns', ''), ('ensures', '[C02] is_high_surrogate is true exactly for D800..DBFF', '__CPROVER_return_value == (ch >= 0xD800 && ch <= 0xDBFF)')]),
    FuncSpec('append_to_codepoint', J, r'uint32_t append_to_codepoint\(uint32_t cp, int c, std::error_code& ec\)', count=1,
             csig='uint32_t append_to_codepoint(struct json_parser* self, uint32_t cp, int c, int* ec_p)', aliases={'ec': '(*ec_p)', 'more_': '(self->more_)'},
             rules=[(r'more_ = err_handler_\(json_errc::(\w+), \*this\);', r'more_ = vx_err_handler(json_errc_\1);', 1), (r'json_errc::(\w+)', r'json_errc_\1', 1)]),
    FuncSpec('parse_string', J, r'const char_type\* parse_string\(const char_type\* cur, basic_json_visitor<char_type>& visitor, std::error_code& ec\)', count=1,
             csig='const char* parse_string(struct json_parser* self, const char* cur, int* ec_p)', contract=CONTRACT, aliases=AL, rules=RULES,
             loops={0: LOOP, 'count': 1}),
]
def H(st, name, tier):
    return Harness('parse_string_' + name, 'h_parse_string', enforce='parse_string', loop_contracts=True, method='LC+cut', props=['C01', 'C02', 'C03'],
                   expect_classes={'loop_invariant_step': 1}, timeout=2400, solver='cadical', defines=['VX_ENTRY=%d' % st], tier=tier, mem_gb=14,
                   note='entry state %s; backward "goto text" cut by the re-entry assertion (DESIGN 5.3)' % name)
STATES = ['text', 'escape', 'escape_u1', 'escape_u2', 'escape_u3', 'escape_u4', 'escape_expect_surrogate_pair1', 'escape_expect_surrogate_pair2', 'escape_u5', 'escape_u6', 'escape_u7', 'escape_u8']
HARNESSES = [H(i, n, 'quick') for i, n in enumerate(STATES)]
