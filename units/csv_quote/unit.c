/* unit csv_quote: quoting and escaping of CSV string fields (csv_encoder.hpp) */
#include "vx_common.h"
#include "spec_csv.h"
/*@ENUM quote_style_kind@*/
#define VX_IN_MAX 100000000
struct csv_encoder { int quote_style_; char field_delimiter_, quote_char_, quote_escape_char_; char line_delimiter_[4]; size_t line_delimiter_len; /* std::string line_delimiter_ */ };
static char* vx_in; static size_t vx_len, vx_w;   /* field content, witness position */
static char vx_q, vx_e;
/* escape_string: output monitor = S-CSV quoted-field decoder, compared with the content on the fly */
static size_t vx_k, vx_out_n; static int vx_st; static bool vx_bad;
static void vx_csv_out(char ch)
{
    int r = spec_csv_quoted_step(&vx_st, ch, vx_q, vx_e);
    vx_out_n++;
    if (r == -2) vx_bad = true;
    else if (r >= 0) { if (!(vx_k < vx_len) || (unsigned char)vx_in[vx_k] != r) vx_bad = true; vx_k++; }
    __CPROVER_assert(!vx_bad, "[C18] every character written decodes, inside a quoted field, to the next character of the content");
}
/* write_string_value: order of events */
static unsigned vx_pushes, vx_escape_calls; static char vx_first_push, vx_last_push; static bool vx_order_bad, vx_quote_before, vx_quote_after;
static void vx_push(char c)
{
    if (vx_escape_calls == 0) { if (vx_pushes != 0 || c != vx_q) vx_order_bad = true; vx_quote_before = true; }
    else { if (vx_quote_after || c != vx_q) vx_order_bad = true; vx_quote_after = true; }
    vx_pushes++;
}
static void vx_escape_call(void) { if (vx_escape_calls != 0) vx_order_bad = true; vx_escape_calls++; }
/* std::char_traits::find(s, n, c) != nullptr  iff  some s[i] == c; the model guarantees the "if" direction for the witness position */
static bool vx_find(char c) { bool r = nondet_bool(); __CPROVER_assume(!(vx_w < vx_len && vx_in[vx_w] == c) || r); __CPROVER_assume(!r || vx_len > 0); return r; }
/* string_view::find_first_of(set) != npos  iff  some s[i] is in the set (same one-directional model; the set is a short option string) */
static bool vx_find_set(const char* set, size_t n) { bool in = false; for (size_t i = 0; i < 4; ++i) if (i < n && vx_w < vx_len && vx_in[vx_w] == set[i]) in = true; bool r = nondet_bool(); __CPROVER_assume(!in || r); __CPROVER_assume(!r || vx_len > 0); return r; }

/*@FUNC escape_string@*/
/*@FUNC write_string_value@*/

#ifdef VX_CBMC
#include <stdlib.h>
static struct csv_encoder vx_enc;
static void setup(void)
{
    vx_len = nondet_size();
#ifdef VX_SMALL
    __CPROVER_assume(vx_len <= 8);
#endif
    __CPROVER_assume(vx_len <= VX_IN_MAX);
    vx_in = malloc(vx_len ? vx_len : 1); __CPROVER_assume(vx_in != 0);
    vx_q = (char)nondet_u8(); vx_e = (char)nondet_u8();
    vx_k = 0; vx_st = 0; vx_bad = false; vx_out_n = 0;
    vx_pushes = 0; vx_escape_calls = 0; vx_order_bad = false; vx_quote_before = false; vx_quote_after = false;
}
void h_escape(void) { setup(); escape_string(vx_in, vx_len, vx_q, vx_e); }
void h_wsv(void)
{
    setup(); vx_w = nondet_size(); __CPROVER_assume(vx_w < vx_len);
    vx_enc.quote_style_ = nondet_int(); vx_enc.field_delimiter_ = (char)nondet_u8(); vx_enc.quote_char_ = vx_q; vx_enc.quote_escape_char_ = vx_e;
    for (int i = 0; i < 4; ++i) vx_enc.line_delimiter_[i] = (char)nondet_u8(); vx_enc.line_delimiter_len = nondet_size(); __CPROVER_assume(vx_enc.line_delimiter_len <= 4);
    write_string_value(&vx_enc);
}
#endif
