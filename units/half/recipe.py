# U-HALF (C07, C06): binary::decode_half widens every IEEE 754 binary16 value exactly (all 65536 bit patterns)
from core import FuncSpec, Harness
C = 'include/jsoncons/config/compiler_support.hpp'
SPECS = [
    FuncSpec('decode_half', C, r'double decode_half\(uint16_t half\)', count=1, csig='double decode_half(uint16_t half)',
             contract=[('assigns', 'vx_is_nan_spec'),
                       ('ensures', '[C07][C06] every half-precision value is widened exactly: same sign, same value (zeros, subnormals, normals, infinities); a NaN stays a NaN',
                        '(spec_half_to_double_bits(half, &vx_is_nan_spec), vx_is_nan_spec) ? (__CPROVER_return_value != __CPROVER_return_value) : (vx_bits64(__CPROVER_return_value) == spec_half_to_double_bits(half, &vx_is_nan_spec))')],
             rules=[(r'\bldexp\(', 'vx_ldexp(', 2), (r'std::numeric_limits<double>::infinity\(\)', '__builtin_inf()', 1), (r'std::nan\(""\)', '__builtin_nan("")', 1)]),
]
HARNESSES = [Harness('decode_half', 'h_decode_half', enforce='decode_half', method='LF', props=['C07', 'C06'], timeout=900,
                     note='the portable (#else) branch of the function; the F16C intrinsic branch is not compiled here (assumed equivalent: hardware conversion)')]
