/* unit slices: integer skeleton of the JSONPath / JMESPath slice and index selectors */
#include "vx_common.h"
#include "spec_slice.h"

struct vx_opt_i64 { bool has; int64_t v; };
struct vx_slice { struct vx_opt_i64 start_, stop_; int64_t step_; };
enum { VX_EC_step_cannot_be_zero = 1 };

/* ghost state */
static uint64_t vx_size;            /* number of elements of the array */
static bool vx_is_array;
static spec_i128 vx_lower, vx_upper; /* RFC 9535 Bounds */
static spec_i128 vx_next;            /* next index of the specified sequence */
static int64_t vx_step;
static uint64_t vx_visits;
static bool vx_bad, vx_spec_ready;
static int vx_ec;
static size_t vx_visited;

/* observation that replaces tail_select(... current[j] ...) / val.at(i): checks the visited index against the spec sequence */
#define VX_VISIT(j) do { \
    __CPROVER_assert((uint64_t)(j) < vx_size, "[C05][C12][C13] selected index is inside the array"); \
    __CPROVER_assert((spec_i128)(j) == vx_next, "[C12][C13] selected index is the next index of the RFC 9535 slice sequence"); \
    __CPROVER_assert(vx_step > 0 ? vx_next < vx_upper : vx_next > vx_lower, "[C12][C13] selected index is inside the slice bounds"); \
    if (!((uint64_t)(j) < vx_size) || (spec_i128)(j) != vx_next || !(vx_step > 0 ? vx_next < vx_upper : vx_next > vx_lower)) vx_bad = true; \
    vx_next += vx_step; vx_visits++; } while (0)
#define VX_VISIT_IDX(i) do { \
    __CPROVER_assert((uint64_t)(i) < vx_size, "[C05][C12] selected index is inside the array"); \
    if (!((uint64_t)(i) < vx_size)) vx_bad = true; \
    vx_visited = (i); vx_visits++; } while (0)

/*@FUNC jp_get_start@*/
/*@FUNC jp_get_stop@*/
/*@FUNC jm_get_start@*/
/*@FUNC jm_get_stop@*/
/*@FUNC jp_slice_select@*/
/*@FUNC jm_slice_evaluate@*/
/*@FUNC jp_index_select@*/
/*@FUNC jp_index_evaluate@*/

#ifdef VX_CBMC
static struct vx_slice vx_in_slice;
static void setup_slice(void)
{
    vx_in_slice.start_.has = nondet_bool(); vx_in_slice.start_.v = nondet_i64();
    vx_in_slice.stop_.has = nondet_bool(); vx_in_slice.stop_.v = nondet_i64();
    vx_in_slice.step_ = nondet_i64();
    vx_size = nondet_u64(); vx_is_array = nondet_bool();
    __CPROVER_assume(vx_size <= (uint64_t)INT64_MAX);
#ifdef VX_SMALL
    __CPROVER_assume(vx_size <= 12);
#endif
    struct spec_slice_bounds b = spec_slice(vx_in_slice.start_.has, vx_in_slice.start_.v, vx_in_slice.stop_.has, vx_in_slice.stop_.v, vx_in_slice.step_, vx_size);
    vx_lower = b.lower; vx_upper = b.upper; vx_step = vx_in_slice.step_;
    vx_next = vx_step > 0 ? vx_lower : vx_upper;
    vx_visits = 0; vx_bad = false; vx_ec = 0; vx_spec_ready = true;
}
void h_jp_slice(void) { setup_slice(); jp_slice_select(&vx_in_slice); }
void h_jm_slice(void) { setup_slice(); jm_slice_evaluate(&vx_in_slice); }
void h_jp_index_select(void)
{
    int64_t idx = nondet_i64(); vx_size = nondet_u64(); vx_is_array = nondet_bool();
    __CPROVER_assume(vx_size <= (uint64_t)INT64_MAX); vx_visits = 0; vx_bad = false;
#ifdef VX_SMALL
    __CPROVER_assume(vx_size <= 12);
#endif
    jp_index_select(idx);
}
void h_jp_index_evaluate(void)
{
    int64_t idx = nondet_i64(); vx_size = nondet_u64(); vx_is_array = nondet_bool();
    __CPROVER_assume(vx_size <= (uint64_t)INT64_MAX); vx_visits = 0; vx_bad = false;
#ifdef VX_SMALL
    __CPROVER_assume(vx_size <= 12);
#endif
    jp_index_evaluate(idx);
}
#endif
