/* Ghost byte source (DESIGN 3.3 R5): a contiguous symbolic buffer; read(p,n)
 * delivers min(n, remaining) bytes in order and advances.  For bytes_source
 * this contract is proved in unit src; for stream/iterator sources it is assumed.
 * Loop-free for n <= 16 (all head reads); larger n are asserted away. */
#ifndef VX_MODEL_SOURCE_H
#define VX_MODEL_SOURCE_H
#include "vx_common.h"
#ifndef VX_SRC_CAP
#define VX_SRC_CAP 24
#endif
static uint8_t vx_src[VX_SRC_CAP];
static size_t vx_src_n;      /* bytes available in total, <= VX_SRC_CAP */
static size_t vx_src_pos;    /* bytes consumed */

static size_t vx_source_read(uint8_t* p, size_t n)
{
    VX_ASSERT(n <= 16, "model: source read of more than 16 bytes needs the chunked model");
    size_t avail = vx_src_n - vx_src_pos;
    size_t k = n < avail ? n : avail;
    if (k > 0) p[0] = vx_src[vx_src_pos + 0];
    if (k > 1) p[1] = vx_src[vx_src_pos + 1];
    if (k > 2) p[2] = vx_src[vx_src_pos + 2];
    if (k > 3) p[3] = vx_src[vx_src_pos + 3];
    if (k > 4) p[4] = vx_src[vx_src_pos + 4];
    if (k > 5) p[5] = vx_src[vx_src_pos + 5];
    if (k > 6) p[6] = vx_src[vx_src_pos + 6];
    if (k > 7) p[7] = vx_src[vx_src_pos + 7];
    if (k > 8) p[8] = vx_src[vx_src_pos + 8];
    if (k > 9) p[9] = vx_src[vx_src_pos + 9];
    if (k > 10) p[10] = vx_src[vx_src_pos + 10];
    if (k > 11) p[11] = vx_src[vx_src_pos + 11];
    if (k > 12) p[12] = vx_src[vx_src_pos + 12];
    if (k > 13) p[13] = vx_src[vx_src_pos + 13];
    if (k > 14) p[14] = vx_src[vx_src_pos + 14];
    if (k > 15) p[15] = vx_src[vx_src_pos + 15];
    vx_src_pos += k;
    return k;
}
struct vx_peek_result { uint8_t value; bool eof; };
static struct vx_peek_result vx_source_peek(void)
{
    struct vx_peek_result r;
    if (vx_src_pos < vx_src_n) { r.value = vx_src[vx_src_pos]; r.eof = false; }
    else { r.value = 0; r.eof = true; }
    return r;
}
static void vx_source_ignore(size_t n)
{
    size_t avail = vx_src_n - vx_src_pos;
    vx_src_pos += (n < avail ? n : avail);
}
/* total accessors for use in contracts (never out of bounds) */
static uint8_t vx_src_at(size_t i) { return i < VX_SRC_CAP ? vx_src[i] : 0; }
static uint64_t vx_src_be(size_t i, int n)
{
    uint64_t v = 0;
    if (n == 1 || n == 2 || n == 4 || n == 8) {
        if (i + (size_t)n <= VX_SRC_CAP) {
            v = vx_src[i];
            if (n >= 2) v = (v << 8) | vx_src[i + 1];
            if (n >= 4) { v = (v << 8) | vx_src[i + 2]; v = (v << 8) | vx_src[i + 3]; }
            if (n >= 8) { v = (v << 8) | vx_src[i + 4]; v = (v << 8) | vx_src[i + 5]; v = (v << 8) | vx_src[i + 6]; v = (v << 8) | vx_src[i + 7]; }
        }
    }
    return v;
}
static bool vx_source_eof(void) { return vx_src_pos >= vx_src_n; }
#endif
