# U-STRSTORE: the two places where basic_json copies string contents into its own storage; empty strings arrive as (nullptr, 0) from the
# binary decoders (an empty std::vector's data()), and memcpy must not be handed a null pointer
from core import FuncSpec, Harness
B = 'include/jsoncons/basic_json.hpp'
H = 'include/jsoncons/utility/heap_string.hpp'
SPECS = [
    FuncSpec('short_string_ctor', B, r'short_string_storage\(const char_type\* p, uint8_t length, semantic_tag tag\)', count=1,
             csig='void short_string_ctor(struct short_string_storage* self, const char* p, uint8_t length)',
             contract=[('requires', 'length <= max_length && __CPROVER_w_ok(self, sizeof(*self)) && (p == 0 ? length == 0 : __CPROVER_r_ok(p, length))'),
                       ('assigns', '__CPROVER_object_whole(self)'),
                       ('ensures', '[C09][C05] the short-string storage holds a NUL-terminated copy of the characters (watched position)', 'self->data_[length] == 0 && (vx_w < length ==> self->data_[vx_w] == p[vx_w])')],
             aliases={'data_': '(self->data_)'},
             rules=[(r'std::memcpy\(', 'vx_memcpy(', 1), (r'sizeof\(char_type\)', 'sizeof(char)', 1)]),
    FuncSpec('heap_string_copy', H, r'static pointer create\(const char_type\* s, std::size_t length, Extra extra, const Allocator& alloc\)', count=1,
             csig='void heap_string_copy(const char* s, size_t length)', slice_from=r'CharT\* p = new\(&psa->c\)char_type\[length \+ 1\];',
             contract=[('requires', 'vx_cap == length + 1 && __CPROVER_w_ok(vx_dst, vx_cap) && (s == 0 ? length == 0 : __CPROVER_r_ok(s, length))'),
                       ('assigns', '__CPROVER_object_whole(vx_dst)'),
                       ('ensures', '[C09][C05] the heap string holds a NUL-terminated copy of the characters (watched position)', 'vx_dst[length] == 0 && (vx_w < length ==> vx_dst[vx_w] == s[vx_w])')],
             rules=[(r'CharT\* p = new\(&psa->c\)char_type\[length \+ 1\];', 'char* p = vx_dst;', 1),
                    (r'std::memcpy\(', 'vx_memcpy(', 1), (r'sizeof\(char_type\)', 'sizeof(char)', 1),
                    (r'ps->p_ = [^;]*;', '', 1), (r'ps->length_ = length;', '', 1), (r'ps->offset_ = [^;]*;', '', 1), (r'ps->align_pad_ = align_pad;', '', 1),
                    (r'return std::pointer_traits<pointer>::pointer_to\(\*ps\);', 'return;', 1)]),
]
HARNESSES = [
    Harness('short_string_ctor', 'h_short', enforce='short_string_ctor', method='LF', props=['C09', 'C05']),
    Harness('heap_string_copy', 'h_heap', enforce='heap_string_copy', method='LF', props=['C09', 'C05'], note='program slice: the copy at the end of heap_string_factory::create; allocation and alignment are dropped'),
]
