// replay for unit string_storage: empty strings and byte strings as the binary decoders deliver them (null data pointer, length 0), under UBSan
#include <jsoncons/json.hpp>
#include <jsoncons_ext/cbor/cbor.hpp>
#include <jsoncons_ext/msgpack/msgpack.hpp>
#include "replay_util.hpp"
using namespace jsoncons;
int main(int argc, char** argv)
{
    if (argc < 3) return 2;
    int bad = 0;
    { std::vector<uint8_t> b = {0x40}; auto j = cbor::decode_cbor<json>(b); if (!(j.is_byte_string() && j.as_byte_string_view().size() == 0)) ++bad; }
    { std::vector<uint8_t> b = {0x60}; auto j = cbor::decode_cbor<json>(b); if (!(j.is_string() && j.as<std::string>().empty())) ++bad; }
    { std::vector<uint8_t> b = {0xa0}; auto j = msgpack::decode_msgpack<json>(b); if (!(j.is_string() && j.as<std::string>().empty())) ++bad; }
    { std::vector<uint8_t> b = {0xc4, 0x00}; auto j = msgpack::decode_msgpack<json>(b); if (!(j.is_byte_string())) ++bad; }
    { json j{string_view()}; if (!j.as<std::string>().empty()) ++bad; }
    { json j(string_view(nullptr, 0), semantic_tag::bigint); if (!j.as<std::string>().empty()) ++bad; }
    if (bad) VX_REPRO(bad << " empty strings are not stored as empty strings");
    VX_NOREPRO("empty strings (null data pointer) are stored without undefined behaviour");
}
