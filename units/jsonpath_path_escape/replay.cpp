// replay for unit jsonpath_path_escape: objects whose member names contain quotes, backslashes, control characters, brackets and non-ASCII text; every
// normalized path returned by a query with result_options::path, used as a query of its own, must select exactly the value it was returned for.
#include <jsoncons/json.hpp>
#include <jsoncons_ext/jsonpath/jsonpath.hpp>
#include "replay_util.hpp"
using namespace jsoncons;
int main(int argc, char** argv)
{
    if (argc < 3) return 2;
    const std::vector<std::string> pieces = {"a", "'", "\"", "\\", "\\'", "\b", "\f", "\n", "\r", "\t", "/", "]", "['", "u0041", "\xc3\xa9", " ", ""};
    int bad = 0, total = 0; std::string first;
    for (auto& p1 : pieces) for (auto& p2 : pieces) {
        std::string name = p1 + "x" + p2; json doc(json_object_arg); json inner(json_object_arg); inner[p2 + p1] = 7; doc[name] = inner; doc["plain"] = 1;
        try {
            json paths = jsonpath::json_query(doc, "$..*", jsonpath::result_options::path); json values = jsonpath::json_query(doc, "$..*");
            for (size_t i = 0; i < paths.size(); ++i) { ++total; json r = jsonpath::json_query(doc, paths[i].as<std::string>());
                if (!(r.size() == 1 && r[0] == values[i])) { if (!bad) first = "normalized path " + paths[i].as<std::string>() + " of " + doc.to_string() + " selects " + r.to_string() + " instead of [" + values[i].to_string() + "]"; ++bad; } }
        } catch (const std::exception& e) { ++total; if (!bad) first = std::string(e.what()) + " for a name in " + doc.to_string(); ++bad; }
    }
    if (bad) VX_REPRO(bad << " of " << total << " normalized paths do not address the value they were returned for, first: " << first);
    VX_NOREPRO("all " << total << " normalized paths address the value they were returned for");
}
