/* unit cbor_chunks (C07, C05): indefinite-length strings of CBOR (RFC 8949 section 3.2.3): iterate_string_chunks and read_size of cbor_parser.hpp.
 * "Indefinite-length strings are represented by a byte containing the major type for byte string or text string with an additional information value of 31,
 * followed by a series of zero or more strings of the specified type ("chunks") that have definite lengths, and finished by the "break" stop code ...
 * if any item between the indefinite-length string indicator and the break is not a definite-length string item of the same major type, the string is not
 * well-formed ... each chunk of a text string must itself be valid UTF-8."
 * The source, the payload read (source_reader::read, unit source_reader) and UTF-8 validation (unit utf8) are events; a monitor inside the events follows the
 * chunk grammar. */
#include "vx_common.h"
/*@ENUM cbor_errc@*/
/*@ENUM cbor_major_type@*/
/*@FUNC get_additional_information_value@*/
/*@FUNC get_major_type@*/
struct cbor_parser { bool more_; };
struct vx_peek_result { uint8_t value; bool eof; };
enum { M_PEEK = 0, M_AFTER_BREAK_SEEN, M_END, M_SIZE, M_PAYLOAD, M_VALIDATE };
static int vx_mon; static bool vx_mon_bad; static uint8_t vx_cur, vx_type; static size_t vx_len, vx_vsize, vx_off, vx_chunks; static int vx_want_ec;
static struct vx_peek_result vx_peek(void)
{
    struct vx_peek_result r; r.eof = nondet_bool(); r.value = r.eof ? 0 : nondet_u8();
    if (vx_mon != M_PEEK) vx_mon_bad = true;
    vx_cur = r.value;
    if (r.eof) vx_want_ec = cbor_errc_unexpected_eof;
    else if (r.value == 0xff) vx_mon = M_AFTER_BREAK_SEEN;
    else if ((r.value >> 5) != vx_type || (r.value & 0x1f) == 31) vx_want_ec = cbor_errc_illegal_chunked_string;
    else vx_mon = M_SIZE;
    return r;
}
static void vx_ignore(size_t n) { if (vx_mon != M_AFTER_BREAK_SEEN || n != 1) vx_mon_bad = true; vx_mon = M_END; }
static uint64_t vx_read_uint64(int* ec_p) { if (nondet_bool()) { int e = nondet_int(); __CPROVER_assume(e != 0); *ec_p = e; return 0; } return nondet_u64(); }
static size_t vx_read_payload(size_t length)
{
    if (vx_mon != M_PAYLOAD || length != vx_len) vx_mon_bad = true;
    size_t k = nondet_size(); __CPROVER_assume(k <= length && vx_vsize <= SIZE_MAX - k);
    vx_off = vx_vsize; vx_vsize += k;
    if (k != length) vx_want_ec = cbor_errc_unexpected_eof; else { vx_chunks++; vx_mon = (vx_type == cbor_major_type_text_string) ? M_VALIDATE : M_PEEK; }
    return k;
}
static bool vx_validate(size_t offset, size_t length)
{
    if (vx_mon != M_VALIDATE || offset != vx_off || length != vx_len) vx_mon_bad = true;
    bool ok = nondet_bool(); if (ok) vx_mon = M_PEEK; else vx_want_ec = cbor_errc_invalid_utf8_text_string;
    return ok;
}
/*@FUNC read_size@*/
static size_t vx_read_size(struct cbor_parser* self, int* ec_p) { if (vx_mon != M_SIZE) vx_mon_bad = true; size_t n = read_size(self, ec_p); if (*ec_p == 0) { vx_len = n; vx_mon = M_PAYLOAD; } else vx_want_ec = *ec_p; return n; }
/*@FUNC iterate_string_chunks@*/
#ifdef VX_CBMC
static struct cbor_parser vx_p; static int vx_ec;
void h_read_size(void) { vx_p.more_ = true; vx_ec = 0; size_t r = read_size(&vx_p, &vx_ec); (void)r; }
void h_iterate_string_chunks(void)
{
    vx_p.more_ = true; vx_ec = 0; vx_mon = M_PEEK; vx_mon_bad = false; vx_type = nondet_u8(); vx_vsize = nondet_size(); vx_chunks = 0; vx_want_ec = 0;
    iterate_string_chunks(&vx_p, vx_type, &vx_ec);
}
#endif
