# U-PTR-ESC, U-PTR-PARSE, U-PTR-RESOLVE (DESIGN 6): JSON Pointer string level (RFC 6901)
from core import FuncSpec, CopySpec, EnumSpec, DeclSpec, Harness, INF
import units as _u
_int = _u.load_unit('integers')
import core as _core, os as _os, re as _re
# the signed overload of dec_to_integer enters (through its contract) only when the source declares a signed index variable; goto-instrument refuses to replace a function that is never called
try:
    _SIGNED_INDEX = bool(_re.search(r'(?:ptrdiff_t|int64_t|intptr_t|long) index\{', open(_os.path.join(_core.REPO, 'include/jsoncons_ext/jsonpointer/jsonpointer.hpp')).read()))
except OSError:
    _SIGNED_INDEX = False

JP = 'include/jsoncons_ext/jsonpointer/jsonpointer.hpp'
RES = '__CPROVER_return_value'

# ---- escape / escape_string / to_string inner loop: output monitor = S-PTR token decoder compared with the input on the fly
ESC_LOOP = '''__CPROVER_assigns(vx_i, vx_k, vx_ust, vx_bad, vx_out_n)
  __CPROVER_loop_invariant(vx_i <= vx_len && vx_k == vx_i && vx_ust == 0 && !vx_bad && vx_out_n >= vx_i && vx_out_n <= 2 * vx_i)
  __CPROVER_decreases(vx_len - vx_i)'''
ESC_CONTRACT = [
    ('requires', 'vx_len <= VX_IN_MAX && vx_k == 0 && vx_ust == 0 && !vx_bad && vx_out_n == 0'),
    ('assigns', 'vx_k, vx_ust, vx_bad, vx_out_n'),
    ('ensures', '[C14] the escaped text decodes (RFC 6901 section 4: ~1 -> /, ~0 -> ~) back to exactly the input token, character by character, and contains no raw "/"',
     '!vx_bad && vx_k == vx_len && vx_ust == 0'),
    ('ensures', '[C14] escaping applied exactly as specified: at most two output characters per input character', 'vx_out_n >= vx_len && vx_out_n <= 2 * vx_len'),
]
ESC_RULES = [
    (r'std::basic_string<CharT(,std::char_traits<CharT>,Allocator)?> result;', '', 1),
    (r'for \(auto c : s\)\s*\{', 'for (size_t vx_i = 0; vx_i < vx_len; ++vx_i) { char c = vx_in[vx_i];', 1),
    (r'result\.push_back\(', 'VX_ESC_OUT(', 5),
    (r'return result;', 'return;', 1),
]

# ---- parse: flattened ghost token stream; re-escaping the produced tokens must reproduce the input
PARSE_LOOP = '''__CPROVER_assigns(p, state, vx_mon, vx_k, vx_open, vx_bad, vx_ntok)
  __CPROVER_loop_invariant(__CPROVER_same_object(p, vx_in) && __CPROVER_POINTER_OFFSET(p) <= vx_len && *ec_p == 0 && !vx_bad
     && (state == pointer_state_start || state == pointer_state_escaped || state == pointer_state_new_token || state == pointer_state_part)
     && ((state == pointer_state_start) == (vx_mon == PTR_START)) && ((state == pointer_state_escaped) == (vx_mon == PTR_TILDE))
     && ((state == pointer_state_new_token || state == pointer_state_part) == (vx_mon == PTR_TOKEN))
     && (state == pointer_state_start ==> (__CPROVER_POINTER_OFFSET(p) == 0 && !vx_open))
     && vx_k + (state == pointer_state_escaped ? 1 : 0) + ((vx_mon != PTR_START && !vx_open) ? 1 : 0) == __CPROVER_POINTER_OFFSET(p)
     && ((vx_mon != PTR_START && !vx_open) ==> (vx_k < vx_len && vx_in[vx_k] == '/'))
     && ((state == pointer_state_escaped) ==> (__CPROVER_POINTER_OFFSET(p) >= 1 && vx_in[__CPROVER_POINTER_OFFSET(p) - 1] == '~')))
  __CPROVER_decreases(vx_len - __CPROVER_POINTER_OFFSET(p))'''
PARSE_CONTRACT = [
    ('requires', 'vx_len <= VX_IN_MAX && *ec_p == 0 && vx_mon == PTR_START && vx_k == 0 && !vx_open && !vx_bad && vx_ntok == 0'),
    ('assigns', '*ec_p, vx_mon, vx_final_mon, vx_k, vx_open, vx_bad, vx_ntok'),
    ('ensures', '[C14] accepted iff the string is a JSON Pointer by the RFC 6901 grammar (empty, or "/"-led tokens with every "~" followed by 0 or 1)',
     '(*ec_p == 0) == (vx_final_mon == PTR_START || vx_final_mon == PTR_TOKEN)'),
    ('ensures', '[C14] a non-empty pointer that does not start with "/" is expected_slash', '(vx_final_mon == PTR_ERR_SLASH) == (*ec_p == jsonpointer_errc_expected_slash)'),
    ('ensures', '[C14] "~" not followed by 0 or 1 (also at the end) is expected_0_or_1', '(vx_final_mon == PTR_ERR_ESC || vx_final_mon == PTR_TILDE) == (*ec_p == jsonpointer_errc_expected_0_or_1)'),
    ('ensures', '[C14] on success, printing the tokens back ("/" + escape(token) for each) reproduces the input exactly: to_string(parse(s)) == s',
     '*ec_p == 0 ==> (!vx_bad && vx_k == vx_len && !vx_open)'),
]
PARSE_RULES = [
    (r'std::vector<string_type> tokens;', '', 1),
    (r'input\.empty\(\)', '(vx_len == 0)', 1),
    (r'return basic_json_pointer<CharT>\(\);', '{ vx_final_mon = vx_mon; return; }', 1),
    (r'return basic_json_pointer\(\);', '{ vx_final_mon = vx_mon; return; }', 3),
    (r'return basic_json_pointer\(tokens\);', '{ vx_final_mon = vx_mon; return; }', 1),
    (r'const char_type\* p = input\.data\(\);', 'const char* p = vx_in;', 1),
    (r'const char_type\* pend = input\.data\(\) \+ input\.size\(\);', 'const char* pend = vx_in + vx_len;', 1),
    (r'string_type unescaped;', '', 1), (r'string_type buffer;', '', 1),
    (r'auto state = jsonpointer::detail::pointer_state::start;', 'int state = pointer_state_start;', 1),
    (r'jsonpointer::detail::pointer_state::(\w+)', r'pointer_state_\1', 10, 20),
    (r'jsonpointer_errc::(\w+)', r'jsonpointer_errc_\1', 3),
    (r'tokens\.push_back\(buffer\);', 'VX_TOKEN_END();', 2),
    (r'buffer\.clear\(\);', '', 1),
    (r'buffer\.push_back\(', 'VX_TOK_CHAR(', 3),
    # the monitor reads each character the loop body examines (R6 ghost insertion at the head of the loop body)
    (r'(while \(p < pend\)\s*\{)', r'\1 VX_MON_STEP(*p);', 1),
    (r'\};', '}', 3),
]

# ---- resolve (array branch): token -> index
TOK_IS_DASH = "(vx_len == 1 && vx_s[0] == '-')"
VALID = 'spec_ptr_is_array_index(vx_s, vx_len, vx_k)'
RESOLVE_CONTRACT = [
    ('requires', '*ec_p == 0 && vx_visits == 0 && vx_key_visits == 0 && vx_h == 0 && vx_h_i == 0 && vx_len <= SPEC_INT_MAXLEN && __CPROVER_r_ok(vx_s, vx_len)'),
    ('assigns', '*ec_p, vx_visits, vx_visited, vx_key_visits, vx_h, vx_h_i'),
    ('ensures', '[C14] array, token "-": refers to the (nonexistent) element after the last one -> index_exceeds_array_size, nothing selected',
     '(vx_is_array && %s) ==> (*ec_p == jsonpointer_errc_index_exceeds_array_size && vx_visits == 0)' % TOK_IS_DASH),
    ('ensures', '[C14] array, token not in the array-index syntax ("0" or digits without leading zero) -> invalid_index, nothing selected',
     '(vx_is_array && !%s && !%s) ==> (*ec_p == jsonpointer_errc_invalid_index && vx_visits == 0)' % (TOK_IS_DASH, VALID)),
    ('ensures', '[C14] array, valid index below the array size -> exactly that element is selected',
     '(vx_is_array && %s && vx_len <= 20 && vx_h_i == vx_len && vx_h < (spec_u128)vx_size) ==> (*ec_p == 0 && vx_visits == 1 && (spec_u128)vx_visited == vx_h)' % VALID),
    ('ensures', '[C14] an element is selected only for a valid index whose value (Horner value of the token) is below the array size',
     '(vx_is_array && vx_visits != 0) ==> (vx_visits == 1 && *ec_p == 0 && %s && vx_h_i == vx_len && (spec_u128)vx_visited == vx_h && vx_visited < vx_size)' % VALID),
    ('ensures', '[C14] array, valid syntax but not below the size (or not representable): an error, nothing selected',
     '(vx_is_array && %s && (vx_len > 20 || !(vx_h_i == vx_len && vx_h < (spec_u128)vx_size))) ==> (*ec_p != 0 && vx_visits == 0)' % VALID),
    ('ensures', '[C14] neither array nor object -> expected_object_or_array', '(!vx_is_array && !vx_is_object) ==> *ec_p == jsonpointer_errc_expected_object_or_array'),
    ('ensures', '[C14] object: the member is looked up by the token itself (no index interpretation); missing member -> key_not_found',
     '(!vx_is_array && vx_is_object) ==> (vx_visits == 0 && (vx_contains ? (vx_key_visits == 1 && *ec_p == 0) : (vx_key_visits == 0 && *ec_p == jsonpointer_errc_key_not_found)))'),
]
N = 12   # token-level re-spellings: any number of occurrences (the ghost events decide what the code did, not the count of spellings)
RESOLVE_RULES = [
    (r'current->is_array\(\)', 'vx_is_array', 1, N), (r'current->is_object\(\)', 'vx_is_object', 1, N),
    (r'buffer\.size\(\)', 'vx_len', 0, N), (r'buffer\.length\(\)', 'vx_len', 0, N), (r'buffer\[(\w+)\]', r'vx_s[\1]', 0, N), (r'buffer\.data\(\)', 'vx_s', 0, N),
    (r'buffer\.empty\(\)', '(vx_len == 0)', 0, N), (r'buffer\.front\(\)', 'vx_s[0]', 0, N),
    (r'(?:std::size_t|size_t|std::uint64_t|uint64_t) index\{0?\};', 'uint64_t index = 0;', 0, 1),
    # a signed index variable selects the signed overload of dec_to_integer (which accepts a leading '-'): VX_DEC_TO_INTEGER dispatches on the pointer type like C++ overload resolution
    (r'(?:std::ptrdiff_t|ptrdiff_t|std::int64_t|int64_t|std::intptr_t|long long|long) index\{0?\};', 'int64_t index = 0;', 0, 1),
    (r'auto result = jsoncons::dec_to_integer\(', 'struct to_number_result result = VX_DEC_TO_INTEGER(', 1),
    (r', index\);', ', &index);', 1),
    (r'!result\b', '(result.ec != VX_ERRC_ok)', 0, N), (r'(?<![.\w!])result(?=\s*(\)|&&|\|\|))', '(result.ec == VX_ERRC_ok)', 0, N),
    (r'current->size\(\)', 'vx_size', 0, N),
    (r'current = std::addressof\(current->at\(index\)\);', 'VX_AT(index);', 0, 1),
    (r'current = std::addressof\(current->at\(buffer\)\);', 'VX_AT_KEY();', 0, 1),
    # edits of the final step (add / add_if_absent / replace / remove): observation calls (DESIGN 3.3 R5 program slices)
    (r'current->emplace_back\(std::forward<T>\(value\)\);', 'VX_APPEND();', 0, N),
    (r'current = std::addressof\(current->at\(vx_size-1\)\);', '', 0, N),
    (r'auto it2 = current->insert\(current->array_range\(\)\.begin\(\)\+index,\s*std::forward<T>\(value\)\);', 'VX_INSERT(index);', 0, N),
    (r'current = std::addressof\(\*it2\);', '', 0, N),
    (r'current->erase\(current->array_range\(\)\.begin\(\)\+index\);', 'VX_ERASE(index);', 0, N),
    (r'current->at\(index\) = std::forward<T>\(value\);', 'VX_ASSIGN(index);', 0, N),
    (r'auto r = current->insert_or_assign\(buffer,\s*std::forward<T>\(value\)\);', 'VX_OBJ_SET();', 0, N),
    (r'(auto r = )?current->try_emplace\(buffer,\s*(std::forward<T>\(value\)|Json\(\))\);', 'VX_OBJ_ADD();', 0, N),
    (r'current = std::addressof\(r\.first->value\(\)\);', '', 0, N),
    (r'current->erase\(buffer\);', 'VX_OBJ_ERASE();', 0, N),
    (r'current->contains\(buffer\)', 'vx_contains', 0, N),
    (r'jsonpointer_errc::(\w+)', r'jsonpointer_errc_\1', 1, 20),
    (r'return current;', 'return;', 0, N),
    (r'(?<![.\w])ec = ', '(*ec_p) = ', 1, 20),
]
REQ = '*ec_p == 0 && vx_visits == 0 && vx_key_visits == 0 && VX_NOMOD() && vx_h == 0 && vx_h_i == 0 && vx_len <= SPEC_INT_MAXLEN && __CPROVER_r_ok(vx_s, vx_len)'
ASG = '*ec_p, vx_visits, vx_visited, vx_key_visits, vx_h, vx_h_i, vx_appends, vx_inserts, vx_erases, vx_assigns, vx_mod_index, vx_obj_sets, vx_obj_adds, vx_obj_erases'
BELOW = lambda bound: '(vx_len <= 20 && vx_h_i == vx_len && vx_h %s)' % bound
NOTBELOW = lambda bound: '(vx_len > 20 || vx_h_i != vx_len || !(vx_h %s))' % bound
def edit_contract(kind):
    """final step of add / add_if_absent ('insert'), remove ('erase'), replace ('assign')"""
    ev = {'insert': 'vx_inserts', 'erase': 'vx_erases', 'assign': 'vx_assigns'}[kind]
    c = [('requires', REQ), ('assigns', ASG)]
    if kind == 'insert':
        c += [('ensures', '[C14] array, token "-": the value is appended after the last element (RFC 6902 use of the "-" token), nothing else is touched',
               '(vx_is_array && %s) ==> (*ec_p == 0 && vx_appends == 1 && VX_MODS() == 1)' % TOK_IS_DASH),
              ('ensures', '[C14] array, valid index equal to the array size: appended', '(vx_is_array && %s && %s) ==> (*ec_p == 0 && vx_appends == 1 && VX_MODS() == 1)' % (VALID, BELOW('== (spec_u128)vx_size'))),
              ('ensures', '[C14] array, valid index below the size: inserted exactly there', '(vx_is_array && %s && %s) ==> (*ec_p == 0 && vx_inserts == 1 && VX_MODS() == 1 && (spec_u128)vx_mod_index == vx_h)' % (VALID, BELOW('< (spec_u128)vx_size'))),
              ('ensures', '[C14] array, valid syntax but beyond the size (or not representable): an error, the document is untouched',
               '(vx_is_array && %s && %s) ==> (*ec_p != 0 && VX_NOMOD())' % (VALID, NOTBELOW('<= (spec_u128)vx_size')))]
    else:
        c += [('ensures', '[C14] array, token "-": there is no such element -> index_exceeds_array_size, the document is untouched',
               '(vx_is_array && %s) ==> (*ec_p == jsonpointer_errc_index_exceeds_array_size && VX_NOMOD())' % TOK_IS_DASH),
              ('ensures', '[C14] array, valid index below the size: exactly that element is %s' % ('removed' if kind == 'erase' else 'replaced'),
               '(vx_is_array && %s && %s) ==> (*ec_p == 0 && %s == 1 && VX_MODS() == 1 && (spec_u128)vx_mod_index == vx_h)' % (VALID, BELOW('< (spec_u128)vx_size'), ev)),
              ('ensures', '[C14] array, valid syntax but not below the size (or not representable): an error, the document is untouched',
               '(vx_is_array && %s && %s) ==> (*ec_p != 0 && VX_NOMOD())' % (VALID, NOTBELOW('< (spec_u128)vx_size')))]
    c += [('ensures', '[C14] array, token not in the array-index syntax ("0" or digits without leading zero, or "-") -> invalid_index, the document is untouched',
           '(vx_is_array && !%s && !%s) ==> (*ec_p == jsonpointer_errc_invalid_index && VX_NOMOD())' % (TOK_IS_DASH, VALID)),
          ('ensures', '[C14] neither array nor object -> expected_object_or_array, untouched', '(!vx_is_array && !vx_is_object) ==> (*ec_p == jsonpointer_errc_expected_object_or_array && VX_NOMOD())'),
          ('ensures', '[C14] an error leaves the document untouched; success modifies exactly one location', '(*ec_p != 0 ==> VX_NOMOD()) && (*ec_p == 0 ==> VX_MODS() == 1)')]
    return c
OBJ = '(!vx_is_array && vx_is_object)'
ADD_OBJ = [('ensures', '[C14] object: the member named by the token is set (added or replaced)', '%s ==> (*ec_p == 0 && vx_obj_sets == 1 && VX_MODS() == 1)' % OBJ)]
ADDIF_OBJ = [('ensures', '[C14] object: an existing member is key_already_exists and stays; a missing one is added',
              '%s ==> (vx_contains ? (*ec_p == jsonpointer_errc_key_already_exists && VX_NOMOD()) : (*ec_p == 0 && vx_obj_adds == 1 && VX_MODS() == 1))' % OBJ)]
REMOVE_OBJ = [('ensures', '[C14] object: a missing member is key_not_found; an existing one is erased',
               '%s ==> (vx_contains ? (*ec_p == 0 && vx_obj_erases == 1 && VX_MODS() == 1) : (*ec_p == jsonpointer_errc_key_not_found && VX_NOMOD()))' % OBJ)]
REPLACE_OBJ = [('ensures', '[C14] object: an existing member is replaced; a missing one is key_not_found unless create_if_missing',
                '%s ==> (vx_contains ? (*ec_p == 0 && vx_obj_sets == 1 && VX_MODS() == 1) : (create_if_missing ? (*ec_p == 0 && vx_obj_adds == 1 && VX_MODS() == 1) : (*ec_p == jsonpointer_errc_key_not_found && VX_NOMOD())))' % OBJ)]
RESOLVE_MUT_CONTRACT = [c for c in RESOLVE_CONTRACT if not (c[0] == 'ensures' and 'object: the member' in c[1])]
RESOLVE_MUT_CONTRACT = [(c[0], REQ) if c[0] == 'requires' else ((c[0], ASG) if c[0] == 'assigns' else c) for c in RESOLVE_MUT_CONTRACT] + [
    ('ensures', '[C14] object: an existing member is entered; a missing one is key_not_found unless create_if_missing (then it is created and entered)',
     '%s ==> (vx_visits == 0 && (vx_contains ? (vx_key_visits == 1 && *ec_p == 0 && VX_NOMOD()) : (create_if_missing ? (*ec_p == 0 && vx_obj_adds == 1 && VX_MODS() == 1) : (*ec_p == jsonpointer_errc_key_not_found && VX_NOMOD()))))' % OBJ),
    ('ensures', '[C14] resolving through an array never modifies it', 'vx_is_array ==> VX_NOMOD()'),
]
# the signed overload, used only if a change makes an index variable signed: all-digit strings are read like the unsigned overload up to 2^63-1; a string with a
# non-digit (e.g. a leading '-') may or may not be accepted and nothing is said about the value (the signed overload accepts "-0", "-12")
_R = '__CPROVER_return_value'
DEC_I64_HERE = [
    ('requires', _int.BIND), ('assigns', '*value_p, vx_h, vx_h_i'),
    ('ensures', 'empty string is invalid_argument', 'vx_len == 0 ==> %s.ec == VX_ERRC_invalid_argument' % _R),
    ('ensures', 'an all-digit string: accepted iff its value is at most 2^63-1, the value is exact', '(vx_k == vx_len && vx_len >= 1) ==> ((vx_len <= 20 ==> vx_h_i == vx_len) && ((%s.ec == VX_ERRC_ok) == (vx_len <= 20 && vx_h <= (spec_u128)INT64_MAX)) && (%s.ec == VX_ERRC_ok ==> *value_p == (int64_t)(uint64_t)vx_h))' % (_R, _R)),
]
SLICE = r'if \(current->is_array\(\)\)'
def final_step(name, anchor, csig, contract):
    return FuncSpec(name, JP, anchor, count=1, csig=csig, contract=contract, rules=RESOLVE_RULES, slice_from=SLICE)

SPECS = [
    DeclSpec('dec_i64_contract_decl', 'dec_to_integer_i64', 'struct to_number_result dec_to_integer_i64(const char* s, size_t length, int64_t* value_p)', DEC_I64_HERE, 'integers (consequence of DEC_I64, restated over the ghosts of the unsigned reading; for strings that are not all digits nothing is assumed)'),
    DeclSpec('dec_contract_decl', 'dec_to_integer_u64', 'struct to_number_result dec_to_integer_u64(const char* s, size_t length, uint64_t* value_p)', _int.DEC_U64, 'integers'),
    EnumSpec('jsonpointer_errc', 'include/jsoncons_ext/jsonpointer/jsonpointer_error.hpp'),
    EnumSpec('pointer_state', JP),
    FuncSpec('escape', JP, r'escape\(jsoncons::basic_string_view<CharT> s, const Allocator& = Allocator\(\)\)', count=1,
             csig='void escape(void)', contract=ESC_CONTRACT, rules=ESC_RULES, loops={0: ESC_LOOP, 'count': 1}),
    FuncSpec('escape_string', JP, r'std::basic_string<CharT> escape_string\(const std::basic_string<CharT>& s\)', count=1,
             csig='void escape_string(void)', contract=ESC_CONTRACT, rules=ESC_RULES, loops={0: ESC_LOOP, 'count': 1}),
    FuncSpec('to_string_token', JP, r'string_type to_string\(\) const', count=1,
             csig='void to_string_token(void)', contract=ESC_CONTRACT, loops={0: ESC_LOOP, 'count': 1},
             rules=[(r'string_type buffer;', '', 1),
                    # program slice: the outer loop over tokens and the "/" separator are dropped, the per-token escaping loop is verbatim
                    (r'for \(const auto& token : tokens_\)\s*\{\s*buffer\.push_back\(\'/\'\);', '{', 1),
                    (r'for \(auto c : token\)\s*\{', 'for (size_t vx_i = 0; vx_i < vx_len; ++vx_i) { char c = vx_in[vx_i];', 1),
                    (r'buffer\.push_back\(', 'VX_ESC_OUT(', 5), (r'return buffer;', 'return;', 1)]),
    FuncSpec('parse', JP, r'static basic_json_pointer parse\(const string_view_type& input, std::error_code& ec\)', count=1,
             csig='void parse(int* ec_p)', contract=PARSE_CONTRACT, aliases={'ec': '(*ec_p)'}, rules=PARSE_RULES, loops={0: PARSE_LOOP, 'count': 1}),
    FuncSpec('resolve_get', JP, r'const Json\* resolve\(const Json\* current, const typename Json::string_view_type& buffer, std::error_code& ec\)', count=1,
             csig='void resolve_get(int* ec_p)', contract=RESOLVE_CONTRACT, rules=RESOLVE_RULES),
    FuncSpec('resolve_mut', JP, r'Json\* resolve\(Json\* current, const typename Json::string_view_type& buffer, bool create_if_missing, std::error_code& ec\)', count=1,
             csig='void resolve_mut(bool create_if_missing, int* ec_p)', contract=RESOLVE_MUT_CONTRACT, rules=RESOLVE_RULES),
    final_step('add_final', r'void add\(Json& root,\s*const basic_json_pointer<typename Json::char_type>& location,\s*T&& value,\s*bool create_if_missing,\s*std::error_code& ec\)',
               'void add_final(bool create_if_missing, int* ec_p)', edit_contract('insert') + ADD_OBJ),
    final_step('add_if_absent_final', r'void add_if_absent\(Json& root,\s*const basic_json_pointer<typename Json::char_type>& location,\s*T&& value,\s*bool create_if_missing,\s*std::error_code& ec\)',
               'void add_if_absent_final(bool create_if_missing, int* ec_p)', edit_contract('insert') + ADDIF_OBJ),
    final_step('remove_final', r'void remove\(Json& root, const basic_json_pointer<typename Json::char_type>& location, std::error_code& ec\)',
               'void remove_final(int* ec_p)', edit_contract('erase') + REMOVE_OBJ),
    final_step('replace_final', r'void replace\(Json& root,\s*const basic_json_pointer<typename Json::char_type>& location,\s*T&& value,\s*bool create_if_missing,\s*std::error_code& ec\)',
               'void replace_final(bool create_if_missing, int* ec_p)', edit_contract('assign') + REPLACE_OBJ),
]
SITE_CHECKS = [
    {'file': JP, 'pattern': r'jsoncons::dec_to_integer\(buffer\.data\(\), buffer\.length\(\), index\)', 'count': 6, 'props': ['C14'],
     'what': 'array indices are converted at exactly six sites (resolve x2, add, add_if_absent, remove, replace): each of them is a function under contract in this unit'},
]
HARNESSES = [
    Harness('escape', 'h_escape', enforce='escape', loop_contracts=True, method='LC', props=['C14'], expect_classes={'loop_invariant_step': 1}),
    Harness('escape_string', 'h_escape_string', enforce='escape_string', loop_contracts=True, method='LC', props=['C14'], expect_classes={'loop_invariant_step': 1}),
    Harness('to_string_token', 'h_to_string_token', enforce='to_string_token', loop_contracts=True, method='LC', props=['C14'], expect_classes={'loop_invariant_step': 1}),
    Harness('parse', 'h_parse', enforce='parse', loop_contracts=True, method='LC', props=['C14'], expect_classes={'loop_invariant_step': 1}, timeout=900),
] + [Harness(n, 'h_' + n, enforce=n, replace=['dec_to_integer_u64'] + (['dec_to_integer_i64'] if _SIGNED_INDEX else []), method='WU(26)', unwind=26, props=['C14'],
             note=('array/object step of the final reference token; the loop over the earlier tokens (calls of resolve, itself under contract) is dropped' if n.endswith('_final') else ''))
     for n in ('resolve_get', 'resolve_mut', 'add_final', 'add_if_absent_final', 'remove_final', 'replace_final')]
