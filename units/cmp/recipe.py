# U-CMP (DESIGN 6): scalar arms of basic_json::compare on a ghost {kind, tag, payload} pair.
from core import FuncSpec, CopySpec, EnumSpec, Harness, INF

B = 'include/jsoncons/basic_json.hpp'
T = 'include/jsoncons/json_type.hpp'
S = 'include/jsoncons/semantic_tag.hpp'

FCAST = [(r'\buint8_t\(', '(uint8_t)(', 1, 20)]
CMP_RULES = [
    (r'this == &rhs', 'self == rhs', 1),
    # recursion through reference kinds (excluded by the precondition; see SITE_CHECKS)
    (r'cast<(const_)?json_ref_storage>\(\)\.value\(\)\.compare\(rhs\.cast<(const_)?json_ref_storage>\(\)\.value\(\)\)', 'vx_cmp_ref()', 2),
    (r'cast<(const_)?json_ref_storage>\(\)\.value\(\)\.compare\(rhs\)', 'vx_cmp_ref()', 2),
    (r'\bcompare\(rhs\.cast<(const_)?json_ref_storage>\(\)\.value\(\)\)', 'vx_cmp_ref()', 16, 30),
    (r'rhs\.cast<bool_storage>\(\)\.value\(\)', '(rhs->b)', 1, 4),
    (r'rhs\.cast<int64_storage>\(\)\.value\(\)', '(rhs->i)', 4, 16),
    (r'rhs\.cast<uint64_storage>\(\)\.value\(\)', '(rhs->u)', 3, 12),
    (r'rhs\.cast<double_storage>\(\)\.value\(\)', '(rhs->d)', 3, 12),
    (r'\bcast<bool_storage>\(\)\.value\(\)', '(self->b)', 1, 4),
    (r'\bcast<int64_storage>\(\)\.value\(\)', '(self->i)', 4, 16),
    (r'\bcast<uint64_storage>\(\)\.value\(\)', '(self->u)', 3, 12),
    (r'\bcast<double_storage>\(\)\.value\(\)', '(self->d)', 3, 12),
    # containers and strings: abstract rank oracle (total, antisymmetric); stated as an assumption
    (r'cast<(array|object)_storage>\(\)\.value\(\) == rhs\.cast<(array|object)_storage>\(\)\.value\(\)', '(self->rank == rhs->rank)', 2),
    (r'cast<(array|object)_storage>\(\)\.value\(\) < rhs\.cast<(array|object)_storage>\(\)\.value\(\)', '(self->rank < rhs->rank)', 2),
    (r'as_string_view\(\)\.compare\(rhs\.as_string_view\(\)\)', 'vx_rank_cmp(self->rank, rhs->rank)', 2, 4),
    (r'as_byte_string_view\(\)\.compare\(rhs\.as_byte_string_view\(\)\)', 'vx_rank_cmp(self->rank, rhs->rank)', 1),
    (r'rhs\.storage_kind\(\)', '(rhs->kind)', 20, 40),
    (r'\bstorage_kind\(\)', '(self->kind)', 8, 30),
    (r'rhs\.tag\(\)', '(rhs->tag)', 1, 6),
    (r'\btag\(\)', '(self->tag)', 1, 4),
    (r'rhs\.as_double\(\)', '(rhs->dval)', 1, 6),
    (r'\bas_double\(\)', '(self->dval)', 1, 6),
    (r'rhs\.empty\(\)', '(rhs->is_empty)', 1, 2),
    (r'\bempty\(\)', '(self->is_empty)', 1, 2),
    (r'json_storage_kind::(\w+)', r'json_storage_kind_\1', 40, 90),
    (r'\bauto r\b', 'double r', 0, 12),
]
OP = lambda sym, ordinal: FuncSpec('op_' + {'==': 'eq', '!=': 'ne', '<': 'lt', '<=': 'le', '>': 'gt', '>=': 'ge'}[sym], B,
                                   r'operator%s\(const Json& lhs, const Json& rhs\)' % sym.replace('<', r'\<').replace('>', r'\>'), count=1,
                                   csig='static bool op_%s(int vx_c_ab)' % {'==': 'eq', '!=': 'ne', '<': 'lt', '<=': 'le', '>': 'gt', '>=': 'ge'}[sym],
                                   rules=[(r'lhs\.compare\(rhs\)', 'vx_c_ab', 1)])

SPECS = [
    EnumSpec('json_storage_kind', T), EnumSpec('semantic_tag', S),
    FuncSpec('is_string_storage', T, r'inline bool is_string_storage\(json_storage_kind storage_kind\)', count=1,
             csig='static bool is_string_storage(uint8_t storage_kind)',
             contract=[('assigns', ''), ('ensures', '[C09] is_string_storage is true exactly for short_str and long_str',
                                        '__CPROVER_return_value == (storage_kind == json_storage_kind_short_str || storage_kind == json_storage_kind_long_str || (storage_kind > 15 && (storage_kind & 7) == 7))')],
             rules=FCAST + [(r'mask\{', 'mask = (', 1), (r'\)\s*\};', '));', 1), (r'json_storage_kind::(\w+)', r'json_storage_kind_\1', 2)]),
    FuncSpec('is_number_tag', S, r'inline bool is_number_tag\(semantic_tag tag\)', count=1,
             csig='static bool is_number_tag(uint8_t tag)',
             contract=[('assigns', ''), ('ensures', '[C09][C04] is_number_tag is true exactly for bigint, bigdec, bigfloat, float128',
                                        '__CPROVER_return_value == (tag == semantic_tag_bigint || tag == semantic_tag_bigdec || tag == semantic_tag_bigfloat || tag == semantic_tag_float128)')],
             rules=FCAST + [(r'mask([12])\{', r'mask\1 = (', 2), (r'\)\s*\};', '));', 2), (r'semantic_tag::(\w+)', r'semantic_tag_\1', 8),
                            (r'\(uint8_t\)tag', '(uint8_t)(tag)', 1)]),
    FuncSpec('compare', B, r'int compare\(const basic_json& rhs\) const noexcept', count=1,
             csig='int compare(const struct vx_json* self, const struct vx_json* rhs)',
             contract=[('requires', 'vx_valid(self) && vx_valid(rhs)'), ('assigns', 'vx_ref_called'),
                       ('ensures', '[C09][C05] compare is total: it returns for every pair of storage kinds (checked by the JSONCONS_UNREACHABLE assertion) and never recurses for non-reference kinds', '!vx_ref_called')],
             rules=CMP_RULES),
    OP('==', 0), OP('!=', 0), OP('<', 0), OP('<=', 0), OP('>', 0), OP('>=', 0),
]
SITE_CHECKS = [
    {'file': B, 'pattern': r'return compare\(rhs\.cast<(const_)?json_ref_storage>\(\)\.value\(\)\);', 'count': (16, 30), 'props': ['C09'],
     'what': 'reference kinds on the right-hand side only forward to compare on the referent'},
]
HARNESSES = [
    Harness('is_string_storage', 'h_is_string_storage', enforce='is_string_storage', method='LF', props=['C09']),
    Harness('is_number_tag', 'h_is_number_tag', enforce='is_number_tag', method='LF', props=['C09', 'C04']),
    Harness('compare_total', 'h_compare_total', enforce='compare', method='LF', props=['C09']),
    Harness('compare_laws', 'h_compare_laws', dfcc=False, method='LF', props=['C09'], timeout=900,
            note='relational laws over two calls of the real extracted body: symmetric equality, antisymmetry, reflexivity on equal representations, operator consistency'),
]
