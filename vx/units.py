# unit loading and running
import os, sys, importlib.util, json, time
sys.path.insert(0, os.path.dirname(os.path.abspath(__file__)))
import core
from core import Broken

UNITS_DIR = os.path.join(core.VERIF, 'units')


ALSO_SERVES = {
    'cbor_chunks': ['C06', 'C03'], 'json_compact_encoder': ['C01'], 'json_decoder': ['C01', 'C09'], 'json_literals': ['C01'], 'json_structure': ['C01'], 'json_depth': ['C01'],
    'object_dedup': ['C09', 'C01'], 'ojson_bloom': ['C02'], 'jsonpointer': ['C15'], 'sorted_object_insert': ['C16', 'C15', 'C02'], 'json_flatten': ['C09'], 'storage_kinds': ['C19'] and [],
    'json_reader': ['C01'], 'cbor_count': ['C10'], 'to_integer': ['C14'], 'toon_unescape': ['C03'] and [], 'half': ['C04'], 'digit_classes': ['C03'],
}


# harnesses that the mapping above does not extend (functions that the other properties' code paths do not call)
OWN_PROPS_ONLY = {('sorted_object_insert', n) for n in ('merge_step', 'merge_hint_step', 'merge_or_update_step', 'merge_or_update_hint_step')}


def load_unit(name):
    d = os.path.join(UNITS_DIR, name)
    p = os.path.join(d, 'recipe.py')
    if not os.path.exists(p):
        raise Broken('no such unit: ' + name)
    spec = importlib.util.spec_from_file_location('recipe_' + name, p)
    mod = importlib.util.module_from_spec(spec)
    spec.loader.exec_module(mod)
    mod.NAME = name
    mod.DIR = d
    # properties a unit serves in addition to the ones its recipe names (the same function often carries several properties: a JSON Pointer edit
    # is also a JSON Patch step, a decoder is also one half of a round trip); kept in one place so that the mapping can be reviewed as a whole
    for h in mod.HARNESSES:
        if getattr(h, 'own_props_only', False) or (name, h.name) in OWN_PROPS_ONLY:
            continue
        for q in ALSO_SERVES.get(name, ()):
            if q not in h.props:
                h.props = list(h.props) + [q]
    return mod


def all_units():
    return sorted(n for n in os.listdir(UNITS_DIR) if os.path.exists(os.path.join(UNITS_DIR, n, 'recipe.py')))


def assemble_unit(mod):
    tpl = os.path.join(mod.DIR, getattr(mod, 'TEMPLATE', 'unit.c'))
    return core.assemble(mod.NAME, tpl, mod.SPECS, getattr(mod, 'GROUPS', None))


def run_harness(mod, h, ctext, info, trace_prop=None, nocache=False, extra_defines=()):
    outdir = os.path.join(core.OUT, 'units', mod.NAME)
    return core.build_and_check(mod.NAME, h, ctext, info, outdir, nocache=nocache, trace_prop=trace_prop, extra_defines=extra_defines)


def summarize(res):
    if res.get('status') != 'ok':
        return '%-40s BROKEN %s' % (res['unit'] + '/' + res['harness'], res.get('reason', '')[:2000])
    ob = res['obligations']
    unknown = [o for o in ob if o['status'] == 'UNKNOWN']
    fails = [o for o in ob if o['status'] not in ('SUCCESS', 'UNKNOWN')]
    s = '%-40s %s %d/%d  %.1fs%s%s' % (res['unit'] + '/' + res['harness'], res['method'], len(ob) - len(fails) - len(unknown), len(ob),
                                     res.get('solver_s', 0), ' (cached)' if res.get('cached') else '', (' [%d UNKNOWN: undecided behind the failures]' % len(unknown)) if unknown else '')
    for o in fails:
        s += '\n     FAIL %s [%s] %s:%s %s' % (o['name'], o['class'], o['file'], o['line'], o['desc'][:160])
    for w in res.get('warnings', []):
        s += '\n     WARN ' + w[:160]
    return s


if __name__ == '__main__':
    import argparse
    ap = argparse.ArgumentParser()
    ap.add_argument('unit')
    ap.add_argument('harness', nargs='*')
    ap.add_argument('--nocache', action='store_true')
    ap.add_argument('--emit', action='store_true', help='only write the assembled C file')
    ap.add_argument('-j', type=int, default=8)
    ap.add_argument('--trace', help='print the counterexample inputs for this obligation id')
    a = ap.parse_args()
    try:
        mod = load_unit(a.unit)
        ctext, info = assemble_unit(mod)
    except Broken as e:
        print('CHECK-BROKEN', e)
        sys.exit(2)
    if a.emit:
        os.makedirs(os.path.join(core.OUT, 'units', mod.NAME), exist_ok=True)
        p = os.path.join(core.OUT, 'units', mod.NAME, 'emit.c')
        open(p, 'w').write(ctext)
        print(p)
        sys.exit(0)
    hs = [h for h in mod.HARNESSES if not a.harness or h.name in a.harness]
    if a.trace:
        import check
        for h in hs:
            r = run_harness(mod, h, ctext, info, trace_prop=a.trace)
            for o in r.get('obligations', []):
                if o['name'] == a.trace and o.get('trace'):
                    for k, v in check.trace_inputs(o['trace'], h.entry).items():
                        print('  %s = %s' % (k, v))
        sys.exit(0)
    from concurrent.futures import ThreadPoolExecutor
    with ThreadPoolExecutor(a.j) as ex:
        for r in ex.map(lambda h: run_harness(mod, h, ctext, info, nocache=a.nocache), hs):
            print(summarize(r))
