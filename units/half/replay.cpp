// replay for unit half: all 65536 half-precision encodings, as the CBOR item f9 hh ll, through the real decoder against an independent IEEE 754 binary16
// reference (value and sign; NaN stays NaN)
#include <jsoncons/json.hpp>
#include <jsoncons_ext/cbor/cbor.hpp>
#include "replay_util.hpp"
#include <cmath>
using namespace jsoncons;
static double ref_half(unsigned h) { int s = (h >> 15) & 1, e = (h >> 10) & 31, m = h & 1023; double v = e == 0 ? std::ldexp((double)m, -24) : e == 31 ? (m ? NAN : INFINITY) : std::ldexp((double)(m + 1024), e - 25); return s ? -v : v; }
int main(int argc, char** argv)
{
    if (argc < 3) return 2;
    int bad = 0; std::string first;
    for (unsigned h = 0; h < 65536; ++h) {
        std::vector<uint8_t> b = {0xf9, (uint8_t)(h >> 8), (uint8_t)h};
        try { json j = cbor::decode_cbor<json>(b); double got = j.as<double>(), want = ref_half(h);
              bool ok = std::isnan(want) ? std::isnan(got) : (got == want && std::signbit(got) == std::signbit(want));
              if (!ok) { if (!bad) first = "f9 " + std::to_string(h >> 8) + " " + std::to_string(h & 255) + " (decimal bytes) decoded as " + std::to_string(got) + ", IEEE 754 says " + std::to_string(want); ++bad; } }
        catch (const std::exception& e) { if (!bad) first = std::string(e.what()) + " for half " + std::to_string(h); ++bad; }
    }
    if (bad) VX_REPRO(bad << " of 65536 half-precision encodings decode to the wrong value, first: " << first);
    VX_NOREPRO("all 65536 half-precision encodings decode to their IEEE 754 value");
}
