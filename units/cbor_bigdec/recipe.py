# unit cbor_bigdec (C06, C08, C10): basic_cbor_encoder::write_decimal_value - how a decimal string (big decimal) becomes RFC 8949 tag 4 [exponent, mantissa]:
# (a) one arbitrary step of the scanning loop, (b) the part after the loop: tag, array of two through the encoder's own begin / end (nesting depth balanced),
# exponent = - (number of fraction digits) + the written exponent, mantissa = the digits as an integer (int64 or bignum)
from core import FuncSpec, EnumSpec, Harness
E = 'include/jsoncons_ext/cbor/cbor_encoder.hpp'
SIG = r'void write_decimal_value\(const string_view_type& sv, const ser_context& context, std::error_code& ec\)'
AL = {'ec': '(*ec_p)'}
TAIL_RULES = [
    (r'write_tag\(4\);', 'vx_ev_tag(4);', 1),
    (r'visit_begin_array\(\(std::size_t\)2, semantic_tag::none, context, ec\);', 'vx_begin_array(2, ec_p);', 0, 1),
    # what a change might write instead of going through the visitor: a raw stack push and a raw array head (no nesting-depth accounting)
    (r'stack_\.emplace_back\(cbor_container_type::array,\s*[^;]+\);', 'vx_raw_stack_push();', 0, 1), (r'write_type_and_length\(0x80,\s*2\);', 'vx_raw_array_head(2);', 0, 1),
    (r'exponent\.length\(\) > 0', 'vx_exp_len > 0', 1), (r'int64_t val\{\s*0?\s*\};', 'int64_t val = 0;', 1, 2),
    (r'auto r = jsoncons::dec_to_integer\(exponent\.data\(\), exponent\.length\(\), (\w+)\);', r'struct vx_res r = vx_dec_exponent(&\1);', 1),
    (r'auto r = jsoncons::dec_to_integer\(s\.data\(\),\s*s\.length\(\), (\w+)\);', r'struct vx_res r = vx_dec_mantissa(&\1);', 1),
    (r'if \(!r\)', 'if (!r.ok)', 1), (r'if \(r\)', 'if (r.ok)', 1), (r'r\.error_code\(\) == std::errc::result_out_of_range', 'r.code == VX_ERANGE', 1), (r'r\.error_code\(\)', 'r.code', 2),
    (r'visit_int64\((\w+), semantic_tag::none, context, ec\);', r'vx_visit_int64(\1, ec_p);', 2),
    (r'bigint n\(s\.data\(\), s\.length\(\)\);\s*write_bignum\(n\);\s*end_value\(\);', 'vx_write_bignum(); vx_end_value();', 1),
    (r'visit_end_array\(context, ec\);', 'vx_end_array(ec_p);', 1),
]
OKPATH = '(*ec_p == 0)'
TAIL = [
    ('requires', '*ec_p == 0 && vx_n_ev == 0 && vx_depth_delta == 0 && vx_raw == 0 && scale >= -1000000000000 && scale <= 0 && vx_exp_val >= -1000000000000000 && vx_exp_val <= 1000000000000000'),
    ('assigns', '*ec_p, vx_n_ev, __CPROVER_object_whole(vx_ev), vx_depth_delta, vx_raw, vx_exp_written, vx_mant_written, vx_mant_is_bignum, vx_items'),
    ('ensures', '[C06][C08] a decimal string is written as tag 4 followed by an array of exactly two items: the exponent, then the mantissa; in that order and nothing else',
     '%s ==> (vx_n_ev == 5 && vx_ev[0] == EV_TAG4 && vx_ev[1] == EV_BEGIN2 && vx_ev[2] == EV_EXPONENT && vx_ev[3] == EV_MANTISSA && vx_ev[4] == EV_END)' % OKPATH),
    ('ensures', '[C06][C08] the exponent written is minus the number of fraction digits plus the exponent written in the string (both parts count, whichever are present)',
     '%s ==> vx_exp_written == __CPROVER_old(scale) + (vx_exp_len > 0 ? vx_exp_val : 0)' % OKPATH),
    ('ensures', '[C06][C08] the mantissa written is the digit string as an integer: an int64 when it fits, otherwise a big number (tag 2 / 3), which counts as one item of the array',
     '%s ==> (vx_mant_fits ? (!vx_mant_is_bignum && vx_mant_written == vx_mant_val) : (vx_mant_is_bignum && vx_items == 1))' % OKPATH),
    ('ensures', '[C10] the array is opened through the encoder\'s own begin-array (which counts it against max_nesting_depth) and closed through its end-array: the nesting depth is what it was, never lower; nothing is pushed behind the visitor\'s back',
     'vx_raw == 0 && (%s ==> vx_depth_delta == 0) && vx_depth_delta >= 0' % OKPATH),
    ('ensures', '[C08] digits that are no integer (empty, a lone sign) and an exponent that does not fit are errors', '((vx_exp_len > 0 && !vx_exp_ok) || (!vx_mant_fits && !vx_mant_range)) ==> *ec_p != 0'),
]
STEP_RULES = [
    (r'decimal_parse_state::(\w+)', r'decimal_parse_state_\1', 10, 30), (r'\bs\.push_back\(c\);', 'vx_s_push(c);', 3, 6), (r'exponent\.push_back\(c\);', 'vx_e_push(c);', 2, 3), (r'cbor_errc::(\w+)', r'cbor_errc_\1', 5, 8),
]
D = "(c >= '0' && c <= '9')"
S0 = '__CPROVER_old(*state_p)'
STEP = [
    ('requires', '*ec_p == 0 && vx_s_pushes == 0 && vx_e_pushes == 0 && *state_p <= decimal_parse_state_fraction1 && *scale_p <= 0 && *scale_p >= -1000000000000'),
    ('assigns', '*ec_p, *state_p, *scale_p, vx_s_pushes, vx_e_pushes, vx_pushed'),
    ('ensures', '[C06] one character of the decimal string: a digit of the integer part goes to the mantissa digits; a digit of the fraction goes to the mantissa digits and lowers the exponent by one; a digit (or the minus sign) of the exponent part goes to the exponent digits; nothing else changes the exponent',
     '(*ec_p == 0) ==> ((%s == decimal_parse_state_fraction1 && %s) ? (*scale_p == __CPROVER_old(*scale_p) - 1 && vx_s_pushes == 1 && vx_pushed == c && vx_e_pushes == 0) : (*scale_p == __CPROVER_old(*scale_p) && '
     '(((%s == decimal_parse_state_start && (%s || c == \'-\')) || (%s == decimal_parse_state_integer && %s)) ? (vx_s_pushes == 1 && vx_pushed == c && vx_e_pushes == 0) : '
     '((%s == decimal_parse_state_exp1 && (%s || c == \'-\')) || (%s == decimal_parse_state_exp2 && %s)) ? (vx_e_pushes == 1 && vx_pushed == c && vx_s_pushes == 0) : (vx_s_pushes == 0 && vx_e_pushes == 0))))' % (S0, D, S0, D, S0, D, S0, D, S0, D)),
    ('ensures', '[C08] a character that cannot continue a decimal number in this position is invalid_decimal_fraction', '(*ec_p != 0) ==> (*ec_p == cbor_errc_invalid_decimal_fraction && vx_s_pushes == 0 && vx_e_pushes == 0)'),
]
SPECS = [
    EnumSpec('cbor_errc', 'include/jsoncons_ext/cbor/cbor_error.hpp'), EnumSpec('decimal_parse_state', E),
    FuncSpec('decimal_step', E, SIG, count=1, csig='void decimal_step(char c, uint8_t* state_p, int64_t* scale_p, int* ec_p)', contract=STEP, aliases={'ec': '(*ec_p)', 'state': '(*state_p)', 'scale': '(*scale_p)'}, rules=STEP_RULES,
             slice_from=r'switch \(state\)\s*\{\s*case decimal_parse_state::start:', slice_to=r'\}\s*write_tag\(4\);'),
    FuncSpec('decimal_tail', E, SIG, count=1, csig='void decimal_tail(int64_t scale, int* ec_p)', contract=TAIL, aliases=AL, rules=TAIL_RULES, slice_from=r'write_tag\(4\);'),
]
HARNESSES = [
    Harness('decimal_step', 'h_decimal_step', enforce='decimal_step', method='LF', props=['C06', 'C08'], note='the body of the loop over the characters for an arbitrary character, state and exponent so far (step function)'),
    Harness('decimal_tail', 'h_decimal_tail', enforce='decimal_tail', method='LF', unwind=8, props=['C06', 'C08', 'C10'], note='the statements after the loop; dec_to_integer (unit integers), visit_begin_array / visit_end_array (unit cbor_count) and write_bignum (unit cbor_head) are events'),
]
