// finding probe jmespath_pipe (C13, C05): a pipe whose right-hand side is a literal.  JMESPath: `a | \`1\`` evaluates the literal (the piped value is not used):
// 1.  jsoncons trips an internal assertion of its evaluator (assertion_error: 'stack.size() == 1') - F44.  The neighbours (literals elsewhere, other right-hand
// sides) hold.
#include <jsoncons/json.hpp>
#include <jsoncons_ext/jmespath/jmespath.hpp>
#include <iostream>
using namespace jsoncons;
struct pcase { const char* id; const char* expr; const char* want; };
static const pcase cases[] = {
    {"pipe_to_number_literal", "a | `1`", "1"}, {"pipe_to_array_literal", "a[*].b | `[1,2]`", "[1,2]"}, {"pipe_to_string_literal", "a | `\"x\"`", "\"x\""}, {"literal_pipe_literal", "`1` | `2`", "2"},
    {"literal_alone", "`[1,2]`", "[1,2]"}, {"pipe_to_identifier", "a | [0]", "{\"b\":[{\"c\":1}]}"}, {"pipe_to_current_node", "a[0].b | @", "[{\"c\":1}]"}, {"literal_in_comparison", "a[?b == `1`]", "[]"}, {"literal_or", "missing || `7`", "7"},
    {"raw_string_after_pipe", "a | 'x'", "\"x\""},
};
int main(int argc, char** argv)
{
    const json doc = json::parse(R"({"a":[{"b":[{"c":1}]}]})");
    for (const pcase& c : cases) {
        if (argc > 1 && std::string(argv[1]) != c.id) continue;
        std::string what;
        try { std::error_code ec; json r = jmespath::search(doc, c.expr, ec); if (ec) what = "error: " + ec.message(); else if (r != json::parse(c.want)) what = "result " + r.to_string(); }
        catch (const std::exception& e) { what = std::string("exception: ") + e.what(); }
        if (what.empty()) std::cout << "PROBE " << c.id << " HOLDS\n"; else std::cout << "PROBE " << c.id << " FAILS: " << c.expr << " should be " << c.want << ", got " << what << "\n";
    }
    return 0;
}
