// replay for unit sorted_object_insert: json objects over a small key alphabet; try_emplace and insert_or_assign with every possible hint (every iterator
// including end()) and without hint, for names that are present, absent-in-between, smaller than all and larger than all; compared with a std::map model.
#include <jsoncons/json.hpp>
#include "replay_util.hpp"
#include <map>
using namespace jsoncons;
int main(int argc, char** argv)
{
    if (argc < 3) return 2;
    const std::vector<std::string> keys = {"b", "d", "f", "h"}; const std::vector<std::string> names = {"a", "b", "c", "d", "e", "f", "g", "h", "i"};
    int bad = 0, total = 0; std::string first;
    for (unsigned mask = 0; mask < 16; ++mask) for (auto& name : names) for (int op = 0; op < 2; ++op) {
        std::map<std::string, int> model; json base(json_object_arg); int v = 1;
        for (size_t k = 0; k < keys.size(); ++k) if (mask & (1u << k)) { model[keys[k]] = v; base.try_emplace(keys[k], v); ++v; }
        size_t n = base.size();
        for (size_t hint = 0; hint <= n + 1; ++hint) {   // n + 1: no hint
            json j = base; std::map<std::string, int> m = model;
            if (op == 0) { m.emplace(name, 99); if (hint <= n) j.try_emplace(j.object_range().begin() + hint, name, 99); else j.try_emplace(name, 99); }
            else { m[name] = 99; if (hint <= n) j.insert_or_assign(j.object_range().begin() + hint, name, 99); else j.insert_or_assign(name, 99); }
            ++total; bool ok = j.size() == m.size(); auto it = m.begin();
            for (const auto& kv : j.object_range()) { if (it == m.end() || kv.key() != it->first || kv.value().as<int>() != it->second) { ok = false; break; } ++it; }
            if (!ok) { if (!bad) first = std::string(op ? "insert_or_assign" : "try_emplace") + " of \"" + name + "\" with hint " + (hint <= n ? std::to_string(hint) : std::string("none")) + " into " + base.to_string() + " gives " + j.to_string(); ++bad; }
        }
    }
    // merge / merge_or_update, all four overloads (const&, &&, hint + const&, hint + &&): all pairs of objects over the names a..f with up to 3 members each, every hint
    { const char* nm[] = {"a", "b", "c", "d", "e", "f"};
      for (unsigned tm = 0; tm < 64; ++tm) for (unsigned sm = 0; sm < 64; ++sm) { if (__builtin_popcount(tm) > 3 || __builtin_popcount(sm) > 3) continue;
        json t(json_object_arg), s(json_object_arg); for (int k = 0; k < 6; ++k) { if (tm & (1u << k)) t.try_emplace(nm[k], k); if (sm & (1u << k)) s.try_emplace(nm[k], 100 + k); }
        for (int upd = 0; upd < 2; ++upd) for (int mode = 0; mode < 4; ++mode) for (size_t h = 0; h <= (mode >= 2 ? t.size() : 0); ++h) {
            std::map<std::string, int> ref; for (auto& m : t.object_range()) ref[std::string(m.key())] = m.value().as<int>();
            for (auto& m : s.object_range()) { std::string k(m.key()); if (upd || !ref.count(k)) ref[k] = m.value().as<int>(); }
            json x = t; ++total;
            if (mode == 0) { if (upd) x.merge_or_update(s); else x.merge(s); } else if (mode == 1) { if (upd) x.merge_or_update(json(s)); else x.merge(json(s)); }
            else if (mode == 2) { if (upd) x.merge_or_update(x.object_range().begin() + h, s); else x.merge(x.object_range().begin() + h, s); }
            else { if (upd) x.merge_or_update(x.object_range().begin() + h, json(s)); else x.merge(x.object_range().begin() + h, json(s)); }
            bool ok = x.size() == ref.size(); auto it = ref.begin();
            for (const auto& kv : x.object_range()) { if (it == ref.end() || kv.key() != it->first || kv.value().as<int>() != it->second) { ok = false; break; } ++it; }
            if (!ok) { if (!bad) first = std::string(upd ? "merge_or_update" : "merge") + (mode == 0 ? "(const&)" : mode == 1 ? "(&&)" : mode == 2 ? "(hint, const&)" : "(hint, &&)") + " of " + s.to_string() + " into " + t.to_string() + " gives " + x.to_string(); ++bad; }
        } } }
    if (bad) VX_REPRO(bad << " of " << total << " insertions / merges leave the object different from the map model (duplicate or misplaced key), first: " << first);
    VX_NOREPRO("all " << total << " insertions and merges agree with the map model");
}
