/* unit mergepatch (C16): the own level of the two recursions of mergepatch.hpp against RFC 7386 section 2:
 *   define MergePatch(Target, Patch):  if Patch is an Object:  if Target is not an Object: Target = {}
 *       for each Name/Value pair in Patch:  if Value is null: if Name exists in Target: remove the Name/Value pair from Target
 *                                           else: Target[Name] = MergePatch(Target[Name], Value)
 *       return Target                   else: return Patch
 * JSON values are abstracted to what this level looks at: whether a value is an object, whether a patch member's value is null, whether the target has a member
 * of that name.  The patch members are an abstract sequence of symbolic length; the statements that edit the target or recurse are replaced by events, which
 * are recorded for one watched patch member (any).  The recursion itself enters as an event (it is this same function, one level down). */
#include "vx_common.h"
#include <stdlib.h>
static bool vx_patch_is_object, vx_target_is_object, vx_source_is_object;
static size_t vx_n, vx_k;                 /* number of members iterated over, watched member */
static bool* vx_null; static bool* vx_found; static bool* vx_equal;   /* per member: value is null; the other object has a member of that name; the two values are equal */
/* events for the watched member */
static unsigned vx_erases, vx_emplaces, vx_recursions; static bool vx_rec_on_existing, vx_emplaced_null, vx_emplaced_copy, vx_reset_target, vx_returned_patch, vx_returned_target, vx_order_bad;
static size_t vx_cur;                     /* member currently processed */
#define VX_W (vx_cur == vx_k)
static void vx_erase(void) { if (VX_W) { if (vx_emplaces) vx_order_bad = true; vx_erases++; } }
static void vx_emplace_merged(bool existing) { if (VX_W) { vx_emplaces++; vx_recursions++; vx_rec_on_existing = existing; } }
static void vx_emplace_asis(void) { if (VX_W) { vx_emplaces++; } }   /* the patch value inserted without being merged */
static void vx_emplace_null(void) { if (VX_W) { vx_emplaces++; vx_emplaced_null = true; } }
static void vx_emplace_copy(void) { if (VX_W) { vx_emplaces++; vx_emplaced_copy = true; } }
static void vx_emplace_diff(void) { if (VX_W) { vx_emplaces++; vx_recursions++; } }
/* from_diff, first loop: the values that can be put into the patch are handles; try_emplace keeps the first value emplaced for a name */
enum { VX_H_NULL = 1, VX_H_TARGET = 2, VX_H_DIFF = 3, VX_H_SOURCE = 4 };
static bool* vx_s_obj; static bool* vx_t_obj; static bool* vx_t_empty;   /* per member: the source value / the target value is an object; the target value is empty() */
static int vx_first_h;
static void vx_emplace_h(int h) { if (VX_W) { if (vx_emplaces == 0) vx_first_h = h; vx_emplaces++; } }
static bool vx_h_empty(int h) { return h == VX_H_DIFF ? ((vx_s_obj[vx_cur] && vx_t_obj[vx_cur]) ? vx_equal[vx_cur] : vx_t_empty[vx_cur]) : h == VX_H_TARGET ? vx_t_empty[vx_cur] : nondet_bool(); }
/*@FUNC apply_merge_patch_level@*/
/*@FUNC from_diff_source_loop@*/
/*@FUNC from_diff_target_loop@*/
#ifdef VX_CBMC
static void setup(void)
{
    vx_n = nondet_size(); vx_k = nondet_size(); __CPROVER_assume(vx_n <= 100000000 && vx_k < vx_n);
    vx_null = malloc(vx_n * sizeof(bool)); vx_found = malloc(vx_n * sizeof(bool)); vx_equal = malloc(vx_n * sizeof(bool)); __CPROVER_assume(vx_null && vx_found && vx_equal);
    vx_s_obj = malloc(vx_n * sizeof(bool)); vx_t_obj = malloc(vx_n * sizeof(bool)); vx_t_empty = malloc(vx_n * sizeof(bool)); __CPROVER_assume(vx_s_obj && vx_t_obj && vx_t_empty); vx_first_h = 0;
    vx_patch_is_object = nondet_bool(); vx_target_is_object = nondet_bool(); vx_source_is_object = nondet_bool();
    vx_erases = 0; vx_emplaces = 0; vx_recursions = 0; vx_rec_on_existing = false; vx_emplaced_null = false; vx_emplaced_copy = false; vx_reset_target = false; vx_returned_patch = false; vx_returned_target = false; vx_order_bad = false; vx_cur = 0;
}
void h_apply_merge_patch_level(void) { setup(); apply_merge_patch_level(); }
void h_from_diff_source_loop(void) { setup(); __CPROVER_assume(!vx_equal[vx_k] || vx_s_obj[vx_k] == vx_t_obj[vx_k]); from_diff_source_loop(); }
void h_from_diff_target_loop(void) { setup(); from_diff_target_loop(); }
#endif
