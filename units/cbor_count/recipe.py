# U-CBOR-COUNT (DESIGN 6): visit_begin_* / visit_end_* of basic_cbor_encoder - declared lengths equal actual content (C08, C06)
from core import FuncSpec, EnumSpec, DeclSpec, Harness
import units as _u
_head = _u.load_unit('cbor_head')
E = 'include/jsoncons_ext/cbor/cbor_encoder.hpp'
AL = {'ec': '(*ec_p)', 'nesting_depth_': '(self->nesting_depth_)', 'max_nesting_depth_': '(self->max_nesting_depth_)'}
N = 12
RULES = [
    (r'JSONCONS_VISITOR_RETURN;', 'return;', 1, 6), (r'cbor_errc::(\w+)', r'cbor_errc_\1', 0, 4),
    (r'stack_\.empty\(\)', '(vx_depth == 0)', 0, N), (r'stack_\.back\(\)\.is_indefinite_length\(\)', 'VX_IS_INDEF()', 0, N),
    (r'stack_\.back\(\)\.count\(\)', 'VX_COUNT()', 0, N), (r'stack_\.back\(\)\.length\(\)', 'vx_top.length_', 0, N),
    (r'stack_\.pop_back\(\);', 'VX_STACK_POP();', 0, 1), (r'end_value\(\);', 'vx_end_value();', 0, 1),
    (r'stack_\.emplace_back\(cbor_container_type::(\w+), length\);', r'VX_STACK_EMPLACE(cbor_container_type_\1, length);', 0, 1),
    (r'stack_\.emplace_back\(cbor_container_type::(\w+)\);', r'VX_STACK_EMPLACE(cbor_container_type_\1, 0);', 0, 1),
    (r'sink_\.push_back\(', 'vx_sink_push(', 0, 2),
]
REQ = '*ec_p == 0 && vx_sink_n == 0 && vx_pops == 0 && vx_pushes == 0 && vx_end_values == 0 && !vx_parent_index_inc'
def end_contract(kind):
    isk = 'VX_IS_OBJECT()' if kind == 'object' else '!VX_IS_OBJECT()'
    OLD = lambda e: '__CPROVER_old(%s)' % e
    indef = '(%s == cbor_container_type_indefinite_length_array || %s == cbor_container_type_indefinite_length_object)' % (OLD('vx_top.type_'), OLD('vx_top.type_'))
    isobj = '(%s == cbor_container_type_object || %s == cbor_container_type_indefinite_length_object)' % (OLD('vx_top.type_'), OLD('vx_top.type_'))
    cnt = '(%s ? %s / 2 : %s)' % (isobj, OLD('vx_top.index_'), OLD('vx_top.index_'))
    return [
        ('requires', REQ + ' && vx_depth >= 1 && vx_depth < 1000000 && self->nesting_depth_ >= 1 && vx_top.type_ >= cbor_container_type_object && vx_top.type_ <= cbor_container_type_indefinite_length_array && vx_top.index_ < SIZE_MAX'),
        ('assigns', '*ec_p, self->nesting_depth_, vx_sink_n, __CPROVER_object_whole(vx_sink), vx_depth, vx_top, vx_pops, vx_end_values, vx_parent_index_inc'),
        ('ensures', '[C08][C06] an indefinite-length container is closed with exactly the break byte 0xff and counts as one item of its parent',
         '%s ==> (*ec_p == 0 && vx_sink_n == 1 && vx_sink[0] == 0xff && vx_pops == 1 && vx_end_values == 1)' % indef),
        ('ensures', '[C08][C06] a definite-length container holding fewer items than declared cannot be closed: too_few_items, nothing written, not popped',
         '(!%s && %s < %s) ==> (*ec_p == cbor_errc_too_few_items && vx_sink_n == 0 && vx_pops == 0)' % (indef, cnt, OLD('vx_top.length_'))),
        ('ensures', '[C08][C06] ... nor one holding more: too_many_items', '(!%s && %s > %s) ==> (*ec_p == cbor_errc_too_many_items && vx_sink_n == 0 && vx_pops == 0)' % (indef, cnt, OLD('vx_top.length_'))),
        ('ensures', '[C08][C06] a definite-length container holding exactly the declared number of items is closed without any byte (its head already says where it ends) and counts as one item of its parent',
         '(!%s && %s == %s) ==> (*ec_p == 0 && vx_sink_n == 0 && vx_pops == 1 && vx_end_values == 1)' % (indef, cnt, OLD('vx_top.length_'))),
    ]
HEAD_OK = lambda major: 'vx_sink_n == (size_t)spec_cbor_head(%d, length, vx_exp) && %s' % (major, ' && '.join('(vx_sink_n > %d ==> vx_sink[%d] == vx_exp[%d])' % (i, i, i) for i in range(9)))
def begin_len(kind, major, ctype):
    return [
        ('requires', REQ + ' && vx_depth < 1000000 && self->nesting_depth_ >= 0 && self->nesting_depth_ < self->max_nesting_depth_ && self->max_nesting_depth_ < INT_MAX'),
        ('assigns', '*ec_p, self->nesting_depth_, vx_sink_n, __CPROVER_object_whole(vx_sink), __CPROVER_object_whole(vx_exp), vx_depth, vx_top, vx_pushes'),
        ('ensures', '[C08][C06] a definite-length %s is opened with the RFC 8949 head of major type %d whose argument is the declared length, and that length is what visit_end_%s will hold it to' % (kind, major, kind),
         '*ec_p == 0 && vx_pushes == 1 && vx_top.type_ == cbor_container_type_%s && vx_top.length_ == length && vx_top.index_ == 0 && %s' % (ctype, HEAD_OK(major))),
    ]
def begin_indef(kind, byte, ctype):
    return [
        ('requires', REQ + ' && vx_depth < 1000000 && self->nesting_depth_ >= 0 && self->nesting_depth_ < self->max_nesting_depth_ && self->max_nesting_depth_ < INT_MAX'),
        ('assigns', '*ec_p, self->nesting_depth_, vx_sink_n, __CPROVER_object_whole(vx_sink), vx_depth, vx_top, vx_pushes'),
        ('ensures', '[C08][C06] an indefinite-length %s is opened with the single byte 0x%02x' % (kind, byte),
         '*ec_p == 0 && vx_pushes == 1 && vx_top.type_ == cbor_container_type_%s && vx_top.index_ == 0 && vx_sink_n == 1 && vx_sink[0] == 0x%02x' % (ctype, byte)),
    ]
def F(name, anchor, csig, contract, extra=()):
    return FuncSpec(name, E, anchor, count=1, csig=csig, contract=contract, aliases=AL, rules=list(extra) + RULES)
WTL = [(r'write_type_and_length\(0x(a0|80), length\);', r'write_type_and_length(0x\1, length);', 1)]
FNS = [
    F('visit_end_array', r'visit_end_array\(const ser_context&, std::error_code& ec\) final', 'void visit_end_array(struct cbor_encoder* self, int* ec_p)', end_contract('array')),
    F('visit_end_object', r'visit_end_object\(const ser_context&, std::error_code& ec\) final', 'void visit_end_object(struct cbor_encoder* self, int* ec_p)', end_contract('object')),
    F('visit_begin_array_len', r'visit_begin_array\(std::size_t length, semantic_tag, const ser_context&, std::error_code& ec\) final', 'void visit_begin_array_len(struct cbor_encoder* self, size_t length, int* ec_p)', begin_len('array', 4, 'array'), WTL),
    F('visit_begin_object_len', r'visit_begin_object\(std::size_t length, semantic_tag, const ser_context&, std::error_code& ec\) final', 'void visit_begin_object_len(struct cbor_encoder* self, size_t length, int* ec_p)', begin_len('map', 5, 'object'), WTL),
    F('visit_begin_array_indef', r'visit_begin_array\(semantic_tag, const ser_context&, std::error_code& ec\) final', 'void visit_begin_array_indef(struct cbor_encoder* self, int* ec_p)', begin_indef('array', 0x9f, 'indefinite_length_array')),
    F('visit_begin_object_indef', r'visit_begin_object\(semantic_tag, const ser_context&, std::error_code& ec\) final', 'void visit_begin_object_indef(struct cbor_encoder* self, int* ec_p)', begin_indef('map', 0xbf, 'indefinite_length_object')),
]
SPECS = [EnumSpec('cbor_errc', 'include/jsoncons_ext/cbor/cbor_error.hpp'), EnumSpec('cbor_container_type', E),
         DeclSpec('write_type_and_length_decl', 'write_type_and_length', 'void write_type_and_length(uint8_t major_type, uint64_t length)', _head.WRITE_CONTRACT, 'cbor_head')]
GROUPS = {'fns': FNS}
HARNESSES = [Harness(f.name, 'h_' + f.name, enforce=f.name, replace=(['write_type_and_length'] if f.name.endswith('_len') else []), method='LF', unwind=12, props=['C08', 'C06']) for f in FNS]
