/* unit csv_columns: the column filter of mapping_kind m_columns (csv::detail::m_columns_filter: the calls that move between columns) and the cached events it
 * replays at the end of the input (csv::detail::parse_event::replay).  cached_events_ is modelled by the index it is accessed with (checked against the number of
 * columns); the visitor that receives the replayed events is a ghost recorder. */
#include "vx_common.h"
/*@ENUM staj_events@*/
static size_t vx_name_index, vx_level2, vx_ncols, vx_emplaced_at; static unsigned vx_emplaced; static uint64_t vx_emplaced_kind;
static void vx_emplace(size_t idx, uint64_t kind) { __CPROVER_assert(idx < vx_ncols, "[C05] cached_events_ is indexed with an existing column"); vx_emplaced++; vx_emplaced_at = idx; vx_emplaced_kind = kind; }
/*@FUNC skip_column@*/
/*@FUNC visit_begin_array@*/
/*@FUNC visit_end_array@*/
/*@FUNC visit_null@*/
struct vx_event { uint64_t event_type; union { bool bool_value; int64_t int64_value; uint64_t uint64_value; double double_value; }; int tag; };
static unsigned vx_out_n; static uint64_t vx_out_kind, vx_out_u64; static int64_t vx_out_i64; static bool vx_out_bool; static int vx_out_tag;
static void vx_emit0(uint64_t kind, int tag) { vx_out_n++; vx_out_kind = kind; vx_out_tag = tag; }
static void vx_emit_bool_value(bool v, int tag) { vx_emit0(staj_events_bool_value, tag); vx_out_bool = v; }
static void vx_emit_int64_value(int64_t v, int tag) { vx_emit0(staj_events_int64_value, tag); vx_out_i64 = v; }
static void vx_emit_uint64_value(uint64_t v, int tag) { vx_emit0(staj_events_uint64_value, tag); vx_out_u64 = v; }
static void vx_emit_double_value(double v, int tag) { union { double d; uint64_t u; } c; c.d = v; vx_emit0(staj_events_double_value, tag); vx_out_u64 = c.u; }
/*@FUNC replay@*/
#ifdef VX_CBMC
static void setup(void) { vx_name_index = nondet_size(); vx_level2 = nondet_size(); vx_ncols = nondet_size(); vx_emplaced = 0; }
void h_skip_column(void) { setup(); skip_column(); }
void h_visit_begin_array(void) { setup(); visit_begin_array(); }
void h_visit_end_array(void) { setup(); visit_end_array(); }
void h_visit_null(void) { setup(); visit_null(); }
void h_replay(void) { struct vx_event e; e.event_type = nondet_u64(); e.uint64_value = nondet_u64(); e.tag = nondet_int(); vx_out_n = 0; replay(&e); }
#endif
