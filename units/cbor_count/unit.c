/* unit cbor_count: container bookkeeping of the CBOR encoder: a definite-length array or map is closed only when exactly the declared number of items
 * was written; an indefinite one is closed with the break byte (RFC 8949 3.2.2, 3.2.3) */
#define VX_SINK_CAP 16
#include "vx_common.h"
#include "model_sink.h"
#include "model_stack.h"
#include "spec_cbor.h"
/*@ENUM cbor_errc@*/
/*@ENUM cbor_container_type@*/
struct cbor_encoder { int nesting_depth_, max_nesting_depth_; };
static uint8_t vx_exp[9]; static unsigned vx_end_values; static bool vx_parent_index_inc;
#define VX_IS_OBJECT() (vx_top.type_ == cbor_container_type_object || vx_top.type_ == cbor_container_type_indefinite_length_object)
#define VX_IS_INDEF() (vx_top.type_ == cbor_container_type_indefinite_length_array || vx_top.type_ == cbor_container_type_indefinite_length_object)
#define VX_COUNT() (VX_IS_OBJECT() ? vx_top.index_ / 2 : vx_top.index_)
static void vx_end_value(void) { vx_end_values++; if (vx_depth > 0) { vx_top.index_++; vx_parent_index_inc = true; } }
/*@FUNC write_type_and_length_decl@*/
/*@GROUP fns@*/
#ifdef VX_CBMC
static struct cbor_encoder vx_e; static int vx_ec;
static void setup(void)
{
    vx_e.nesting_depth_ = nondet_int(); vx_e.max_nesting_depth_ = nondet_int();
    vx_depth = nondet_size(); vx_top.type_ = nondet_int(); vx_top.length_ = nondet_size(); vx_top.index_ = nondet_size(); vx_pushes = 0; vx_pops = 0;
    vx_sink_n = 0; vx_ec = 0; vx_end_values = 0; vx_parent_index_inc = false;
}
void h_visit_end_array(void) { setup(); visit_end_array(&vx_e, &vx_ec); }
void h_visit_end_object(void) { setup(); visit_end_object(&vx_e, &vx_ec); }
void h_visit_begin_array_len(void) { setup(); visit_begin_array_len(&vx_e, nondet_size(), &vx_ec); }
void h_visit_begin_object_len(void) { setup(); visit_begin_object_len(&vx_e, nondet_size(), &vx_ec); }
void h_visit_begin_array_indef(void) { setup(); visit_begin_array_indef(&vx_e, &vx_ec); }
void h_visit_begin_object_indef(void) { setup(); visit_begin_object_indef(&vx_e, &vx_ec); }
#endif
