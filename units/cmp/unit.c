/* unit cmp: the kind x kind matrix of basic_json::compare on a ghost value representation */
#include "vx_common.h"
#include <math.h>

/*@ENUM json_storage_kind@*/
/*@ENUM semantic_tag@*/

/* ghost representation of a basic_json value: storage kind, tag, scalar payload.
 * Strings, byte strings, arrays and objects are represented by their rank in the (total) order that
 * std::basic_string_view::compare / the container operators define; dval is as_double() of a number-tagged string. */
/* int64_storage and uint64_storage overlay the same 8 bytes of basic_json's union (compare reads a uint64 through the int64 view) */
struct vx_json { uint8_t kind; uint8_t tag; bool b; union { int64_t i; uint64_t u; }; double d; uint16_t half; uint32_t rank; double dval; bool is_empty; };
static bool vx_ref_called;
static int vx_cmp_ref(void) { vx_ref_called = true; return 0; }
static int vx_rank_cmp(uint32_t a, uint32_t b) { return a == b ? 0 : (a < b ? -1 : 1); }
static bool vx_kind_ok(uint8_t k)
{
    return k == json_storage_kind_null || k == json_storage_kind_boolean || k == json_storage_kind_int64 || k == json_storage_kind_uint64
        || k == json_storage_kind_empty_object || k == json_storage_kind_float64 || k == json_storage_kind_half_float || k == json_storage_kind_short_str
        || k == json_storage_kind_byte_str || k == json_storage_kind_object || k == json_storage_kind_array || k == json_storage_kind_long_str;
}
/* a valid non-reference value */
static bool vx_valid(const struct vx_json* v) { return vx_kind_ok(v->kind) && v->tag <= semantic_tag_code; }

/*@FUNC is_string_storage@*/
/*@FUNC is_number_tag@*/
/*@FUNC compare@*/
/*@FUNC op_eq@*/
/*@FUNC op_ne@*/
/*@FUNC op_lt@*/
/*@FUNC op_le@*/
/*@FUNC op_gt@*/
/*@FUNC op_ge@*/

#ifdef VX_CBMC
static struct vx_json vx_a, vx_b;
static void setup_pair(void)
{
    __CPROVER_havoc_object(&vx_a); __CPROVER_havoc_object(&vx_b);
    __CPROVER_assume(vx_valid(&vx_a) && vx_valid(&vx_b));
    /* short and long strings live in one order; equal strings have equal numeric value */
    __CPROVER_assume(vx_a.rank != vx_b.rank || (vx_a.dval == vx_b.dval || (isnan(vx_a.dval) && isnan(vx_b.dval))));
    /* as_double() of a half float is a function of its 16 bits */
    __CPROVER_assume(vx_a.half != vx_b.half || vx_a.kind != json_storage_kind_half_float || vx_b.kind != json_storage_kind_half_float || (vx_a.dval == vx_b.dval || (isnan(vx_a.dval) && isnan(vx_b.dval))));
    /* as_double() of a float64 value is the value itself */
    __CPROVER_assume(vx_a.kind != json_storage_kind_float64 || vx_a.dval == vx_a.d || (isnan(vx_a.dval) && isnan(vx_a.d)));
    __CPROVER_assume(vx_b.kind != json_storage_kind_float64 || vx_b.dval == vx_b.d || (isnan(vx_b.dval) && isnan(vx_b.d)));
    vx_ref_called = false;
}
static bool vx_numeric_string(const struct vx_json* v) { return (v->kind == json_storage_kind_short_str || v->kind == json_storage_kind_long_str) && (v->tag == semantic_tag_bigint || v->tag == semantic_tag_bigdec || v->tag == semantic_tag_bigfloat || v->tag == semantic_tag_float128); }
static bool vx_has_nan(const struct vx_json* v) { return (v->kind == json_storage_kind_float64 && isnan(v->d)) || (v->kind == json_storage_kind_half_float && isnan(v->dval)) || (vx_numeric_string(v) && isnan(v->dval)); }
/* same representation: same kind, tag and payload */
static bool vx_same(const struct vx_json* a, const struct vx_json* b)
{
    if (a->kind != b->kind || a->tag != b->tag) return false;
    switch (a->kind) {
    case json_storage_kind_null: case json_storage_kind_empty_object: return true;
    case json_storage_kind_boolean: return a->b == b->b;
    case json_storage_kind_int64: return a->i == b->i;
    case json_storage_kind_uint64: return a->u == b->u;
    case json_storage_kind_float64: return a->d == b->d;
    case json_storage_kind_half_float: return a->half == b->half;
    case json_storage_kind_object: return a->rank == b->rank && a->is_empty == b->is_empty;
    default: return a->rank == b->rank && (a->dval == b->dval);
    }
}
static int sgn(int x) { return x > 0 ? 1 : (x < 0 ? -1 : 0); }
void h_is_string_storage(void) { is_string_storage(nondet_u8()); }
void h_is_number_tag(void) { is_number_tag(nondet_u8()); }
void h_compare_total(void) { setup_pair(); compare(&vx_a, &vx_b); }
void h_compare_laws(void)
{
    setup_pair();
    int c_ab = compare(&vx_a, &vx_b);
    int c_ba = compare(&vx_b, &vx_a);
    __CPROVER_assert((c_ab == 0) == (c_ba == 0), "[C09] equality is symmetric: compare(a,b) == 0 iff compare(b,a) == 0");
    if (!vx_has_nan(&vx_a) && !vx_has_nan(&vx_b)) {
        __CPROVER_assert(sgn(c_ab) == -sgn(c_ba), "[C09] ordering is antisymmetric (NaN aside): sign compare(a,b) == - sign compare(b,a)");
        if (vx_same(&vx_a, &vx_b))
            __CPROVER_assert(c_ab == 0, "[C09] equality is reflexive (NaN aside): values with the same representation compare equal");
    }
    /* the five relational operators are derived consistently from compare */
    __CPROVER_assert(op_eq(c_ab) == !op_ne(c_ab), "[C09] == and != are complementary");
    __CPROVER_assert(op_lt(c_ab) == op_gt(c_ba) || vx_has_nan(&vx_a) || vx_has_nan(&vx_b), "[C09] a < b iff b > a");
    __CPROVER_assert(op_le(c_ab) == !op_gt(c_ab), "[C09] a <= b iff not a > b");
    __CPROVER_assert(op_ge(c_ab) == !op_lt(c_ab), "[C09] a >= b iff not a < b");
    __CPROVER_assert(op_eq(c_ab) == (op_le(c_ab) && op_ge(c_ab)), "[C09] a == b iff a <= b and a >= b (equality agrees with the ordering operators)");
}
#endif
