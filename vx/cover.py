#!/usr/bin/env python3
# vacuity audit: which source lines of the function under contract (files under include/) cannot be reached in the instrumented harness under its preconditions.
# Unreachable code in a function under contract means that its obligations hold vacuously there.  One line per function is always reported by cbmc (the entry
# location of the wrapped original) and is not counted.  Used by the thorough tier of bin/check, and stand-alone:  cover.py [unit ...]
import sys, os, json, subprocess
sys.path.insert(0, os.path.dirname(os.path.abspath(__file__)))
import units, core


def unreached(un, h, timeout=900):
    """-> (dict file -> sorted list of unreached lines) or (None, reason)"""
    gb = os.path.join(core.OUT, 'units', un, h.name + '.i.gb')
    if not os.path.exists(gb):
        return None, 'no binary'
    cmd = ['cbmc', '--cover', 'location', '--json-ui'] + (['--unwind', str(h.unwind)] if h.unwind else []) + [gb]
    try:
        p = subprocess.run(cmd, capture_output=True, text=True, timeout=timeout)
        data = json.loads(p.stdout)
    except Exception as e:
        return None, 'error %r' % e
    dead = {}
    for item in data:
        for g in item.get('goals', []):
            sl = g.get('sourceLocation', {})
            f = sl.get('file', '')
            if f.startswith('include/') and g.get('status') != 'satisfied' and sl.get('function') == (h.enforce or ''):
                dead.setdefault(f, set()).add(int(sl.get('line', 0)))
    return {f: sorted(l) for f, l in dead.items()}, ''


def costs():
    try:
        return json.load(open(os.path.join(core.VERIF, 'vx', 'costs.json')))
    except Exception:
        return {}


if __name__ == '__main__':
    from concurrent.futures import ThreadPoolExecutor
    sel = sys.argv[1:]
    cs = costs(); maxc = float(os.environ.get('VX_COVER_MAX', '60'))
    jobs = []
    for un in units.all_units():
        if sel and un not in sel:
            continue
        mod = units.load_unit(un)
        for h in mod.HARNESSES:
            if cs.get('%s/%s' % (un, h.name), 1) <= maxc and h.dfcc and h.enforce:
                jobs.append((un, h))
    with ThreadPoolExecutor(12) as ex:
        for (un, h), (dead, msg) in zip(jobs, ex.map(lambda j: unreached(*j), jobs)):
            if dead is None:
                print('%-45s %s' % (un + '/' + h.name, msg))
            elif sum(len(l) for l in dead.values()) > 1:
                print('%-45s UNREACHED %s' % (un + '/' + h.name, '; '.join('%s:%s' % (f.split('/')[-1], ','.join(map(str, l[:40]))) for f, l in dead.items())), flush=True)
