// replay for unit jsonpath_selectors: wildcard, recursive descent and integer-like names on arrays, on arrays of 0..6 elements and objects of 0..4 members,
// against direct enumeration of the document
#include <jsoncons/json.hpp>
#include <jsoncons_ext/jsonpath/jsonpath.hpp>
#include "replay_util.hpp"
using namespace jsoncons;
// $..* : for every container in pre-order (the container itself first, then the containers among its children), all of its children
static void walk(const json& v, json& out) { if (v.is_array()) { for (auto& e : v.array_range()) out.push_back(e); for (auto& e : v.array_range()) walk(e, out); } else if (v.is_object()) { for (auto& m : v.object_range()) out.push_back(m.value()); for (auto& m : v.object_range()) walk(m.value(), out); } }
int main(int argc, char** argv)
{
    if (argc < 3) return 2;
    int bad = 0, total = 0; std::string first;
    auto cmp = [&](const json& got, const json& want, const std::string& what) { ++total; if (got != want) { if (!bad) first = what + " gives " + got.to_string() + ", expected " + want.to_string(); ++bad; } };
    for (int n = 0; n <= 6; ++n) {
        json a(json_array_arg); for (int k = 0; k < n; ++k) { if (k % 3 == 2) { json in(json_array_arg); in.push_back(k * 10); in.push_back(k * 10 + 1); a.push_back(in); } else a.push_back(k); }
        json doc(json_object_arg); doc["a"] = a;
        json want(json_array_arg); for (auto& e : a.array_range()) want.push_back(e);
        cmp(jsonpath::json_query(a, "$[*]"), want, "$[*] on " + a.to_string()); cmp(jsonpath::json_query(doc, "$.a.*"), want, "$.a.* on " + doc.to_string());
        json all(json_array_arg); walk(a, all); cmp(jsonpath::json_query(a, "$..*"), all, "$..* on " + a.to_string());
        for (int i = 0; i <= 8; ++i) { json w(json_array_arg); int idx = i >= 0 ? i : n + i; if (idx >= 0 && idx < n) w.push_back(a[idx]); cmp(jsonpath::json_query(doc, "$.a." + std::to_string(i)), w, "$.a." + std::to_string(i) + " on " + doc.to_string()); }
    }
    for (int n = 0; n <= 4; ++n) {
        json o(json_object_arg); for (int k = 0; k < n; ++k) o[std::string(1, (char)('p' + k))] = k;
        json want(json_array_arg); for (auto& m : o.object_range()) want.push_back(m.value());
        cmp(jsonpath::json_query(o, "$.*"), want, "$.* on " + o.to_string()); cmp(jsonpath::json_query(o, "$[*]"), want, "$[*] on " + o.to_string());
        json all(json_array_arg); walk(o, all); cmp(jsonpath::json_query(o, "$..*"), all, "$..* on " + o.to_string());
        for (int k = 0; k <= n; ++k) { std::string name(1, (char)('p' + k)); json w(json_array_arg); if (k < n) w.push_back(k); cmp(jsonpath::json_query(o, "$." + name), w, "$." + name + " on " + o.to_string()); }
    }
    if (bad) VX_REPRO(bad << " of " << total << " queries differ from direct enumeration, first: " << first);
    VX_NOREPRO("all " << total << " wildcard / recursive-descent / name queries agree with direct enumeration");
}
