/* unit json_string: the string sub-automaton of basic_json_parser */
#include "vx_common.h"
#include "spec_str.h"
#include "spec_utf8.h"

/*@ENUM parse_string_state@*/
/*@ENUM json_errc@*/
/*@ENUM semantic_tag@*/
/*@COPY illegal_control@*/

struct json_parser { uint8_t string_state_; const char* input_end_; size_t position_; bool more_; uint32_t cp_, cp2_; uint8_t escape_tag_; };

/* ---- ghost state -------------------------------------------------------------------------------------------------- */
static char* vx_buf; static size_t vx_n, vx_off;   /* the chunk is vx_buf[vx_off .. vx_n) */
static struct spec_str_mon vx_mon;                  /* S-STR state of everything consumed since the opening quote */
static bool vx_saw_escape;                          /* a backslash has been consumed */
static bool vx_unspec;                              /* an unpaired surrogate escape was consumed: RFC 8259 8.2 "unpredictable", content claims are dropped */
static size_t vx_w;                                 /* the watched position (arbitrary, fixed by the harness): DESIGN 5.2 */
static size_t vx_exp_len; static uint8_t vx_exp_w;  /* expected decoded text: length, byte at the watched position */
static size_t vx_sbuf_len; static uint8_t vx_act_w; /* the parser's scratch buffer_: length, byte at the watched position */
static int vx_event; static size_t vx_ev_len; static uint8_t vx_ev_w;   /* the delivered string value */
static bool vx_err_called; static int vx_err_code; static bool vx_cut, vx_lenient;

/* buffer_ = decoded text of everything consumed except the pending literal run [sb, cur) of the chunk, which decodes to itself */
#define VX_CONSISTENT(sbo, curo) (vx_unspec || (vx_exp_len == vx_sbuf_len + ((curo) - (sbo)) \
    && (vx_w < vx_sbuf_len ==> vx_exp_w == vx_act_w) \
    && ((vx_w >= vx_sbuf_len && vx_w < vx_exp_len) ==> vx_exp_w == (uint8_t)vx_buf[(sbo) + (vx_w - vx_sbuf_len)])))

/* the same with no pending literal run (sb == cur): used wherever the run is empty; avoids a symbolic read of the unbounded input array */
#define VX_CONSISTENT0() (vx_unspec || (vx_exp_len == vx_sbuf_len && (vx_w < vx_sbuf_len ==> vx_exp_w == vx_act_w)))

static void vx_expect_bytes(const uint8_t* out, int r)
{
    if (r >= 1) { if (vx_exp_len == vx_w) vx_exp_w = out[0]; vx_exp_len++; }
    if (r >= 2) { if (vx_exp_len == vx_w) vx_exp_w = out[1]; vx_exp_len++; }
    if (r >= 3) { if (vx_exp_len == vx_w) vx_exp_w = out[2]; vx_exp_len++; }
    if (r >= 4) { if (vx_exp_len == vx_w) vx_exp_w = out[3]; vx_exp_len++; }
}
/* the monitor advances on exactly the statements that consume a character; unpaired surrogates are "unspecified", not errors */
static void VX_MON_STEP(char ch)
{
    uint8_t out[4]; int c = (unsigned char)ch;
    if (vx_mon.st == STR_TEXT && c == '\\') vx_saw_escape = true;
    if (vx_mon.st == STR_U4 && spec_str_hex(c) >= 0 && (((vx_mon.acc << 4) | (uint32_t)spec_str_hex(c)) >= 0xDC00) && (((vx_mon.acc << 4) | (uint32_t)spec_str_hex(c)) <= 0xDFFF)) {
        vx_unspec = true; vx_mon.st = STR_TEXT; return;    /* lone low surrogate */
    }
    if (vx_mon.st == STR_L4 && spec_str_hex(c) >= 0 && !((((vx_mon.acc << 4) | (uint32_t)spec_str_hex(c)) >= 0xDC00) && (((vx_mon.acc << 4) | (uint32_t)spec_str_hex(c)) <= 0xDFFF))) {
        vx_unspec = true; vx_mon.st = STR_TEXT; return;    /* high surrogate followed by a \\u escape that is not a low surrogate */
    }
    int r = spec_str_step(&vx_mon, c, out, 0);
    if (r > 0) vx_expect_bytes(out, r);
}
static uint8_t vx_state_of_mon(void)
{
    switch (vx_mon.st) {
    case STR_TEXT: return parse_string_state_text; case STR_ESC: return parse_string_state_escape;
    case STR_U1: return parse_string_state_escape_u1; case STR_U2: return parse_string_state_escape_u2; case STR_U3: return parse_string_state_escape_u3; case STR_U4: return parse_string_state_escape_u4;
    case STR_HS_BS: return parse_string_state_escape_expect_surrogate_pair1; case STR_HS_U: return parse_string_state_escape_expect_surrogate_pair2;
    case STR_L1: return parse_string_state_escape_u5; case STR_L2: return parse_string_state_escape_u6; case STR_L3: return parse_string_state_escape_u7; case STR_L4: return parse_string_state_escape_u8;
    default: return 255;
    }
}
static bool vx_state_agrees(uint8_t string_state) { return vx_state_of_mon() == string_state; }
/* well-formedness of the monitor itself (an invariant of S-STR: the accumulator holds as many hex digits as the state says, the pending high surrogate is one) */
static bool vx_mon_wf(void)
{
    switch (vx_mon.st) {
    case STR_U1: return vx_mon.acc == 0;
    case STR_U2: return vx_mon.acc <= 0xF;
    case STR_U3: return vx_mon.acc <= 0xFF;
    case STR_U4: return vx_mon.acc <= 0xFFF;
    case STR_HS_BS: case STR_HS_U: return vx_mon.hi >= 0xD800 && vx_mon.hi <= 0xDBFF;
    case STR_L1: return vx_mon.acc == 0 && vx_mon.hi >= 0xD800 && vx_mon.hi <= 0xDBFF;
    case STR_L2: return vx_mon.acc <= 0xF && vx_mon.hi >= 0xD800 && vx_mon.hi <= 0xDBFF;
    case STR_L3: return vx_mon.acc <= 0xFF && vx_mon.hi >= 0xD800 && vx_mon.hi <= 0xDBFF;
    case STR_L4: return vx_mon.acc <= 0xFFF && vx_mon.hi >= 0xD800 && vx_mon.hi <= 0xDBFF;
    default: return true;
    }
}
/* the \u accumulators of the parser agree with the monitor (needed by the next call: DESIGN 3.6 "per saved state") */
static bool vx_accumulators_agree(const struct json_parser* p)
{
    switch (vx_mon.st) {
    case STR_U2: case STR_U3: case STR_U4: return p->cp_ == vx_mon.acc;
    case STR_HS_BS: case STR_HS_U: case STR_L1: return p->cp_ == vx_mon.hi;
    case STR_L2: case STR_L3: case STR_L4: return p->cp_ == vx_mon.hi && p->cp2_ == vx_mon.acc;
    default: return true;
    }
}
/* the RFC 8259 string grammar has no transition for ch in the current monitor state (pure; mirrors spec_str_step) */
static bool vx_no_transition(char ch)
{
    int c = (unsigned char)ch;
    switch (vx_mon.st) {
    case STR_TEXT: return c < 0x20;
    case STR_ESC: return !(c == '"' || c == '\\' || c == '/' || c == 'b' || c == 'f' || c == 'n' || c == 'r' || c == 't' || c == 'u');
    case STR_U1: case STR_U2: case STR_U3: case STR_U4: case STR_L1: case STR_L2: case STR_L3: case STR_L4: return spec_str_hex(c) < 0;
    case STR_HS_BS: return c != '\\';
    case STR_HS_U: return c != 'u';
    default: return true;
    }
}
static int vx_expected_error(char ch)
{
    switch (vx_mon.st) {
    case STR_TEXT: return (ch == '\n' || ch == '\r' || ch == '\t') ? json_errc_illegal_character_in_string : json_errc_illegal_control_character;
    case STR_ESC: return json_errc_illegal_escaped_character;
    case STR_HS_BS: case STR_HS_U: return json_errc_expected_codepoint_surrogate_pair;
    default: return json_errc_invalid_unicode_escape_sequence;
    }
}
/* after each label: the code position agrees with the DFA state, the accumulators agree, nothing of the chunk is pending outside text */
#define VX_AT_LABEL(vx_want, is_text) do { \
    __CPROVER_assert(vx_mon.st == (vx_want), "[C02][C03] label reached in the RFC 8259 string-DFA state it stands for"); \
    __CPROVER_assert(vx_accumulators_agree(self), "[C02][C03] the \\\\u accumulators hold the hex digits consumed so far"); \
    if (is_text) { string_state_ = nondet_u8(); } /* (expands through the member alias) */ \
    else { __CPROVER_assert(VX_CONSISTENT0(), "[C01][C02] outside the literal run the scratch buffer holds exactly the decoded text so far"); } } while (0)
/* cut point for the backward jumps to text (DESIGN 5.3): assert the entry condition of state text and stop this path */
#define VX_REENTER_TEXT() do { \
    __CPROVER_assert(vx_mon.st == STR_TEXT, "[C02][C03] re-entry into text: DFA state is text"); \
    __CPROVER_assert(sb == cur, "[C03] re-entry into text: the literal run restarts at the current position"); \
    __CPROVER_assert(VX_CONSISTENT0(), "[C01][C02] re-entry into text: the scratch buffer holds exactly the decoded text so far (length, watched content)"); \
    __CPROVER_assert(escape_tag_ == semantic_tag_noesc ==> !vx_saw_escape, "[C01] re-entry into text: noesc only without escapes"); \
    vx_cut = true; return cur; } while (0)
static bool vx_err_handler(int code) { vx_err_called = true; vx_err_code = code; bool r = nondet_bool(); __CPROVER_assume(!r || vx_lenient); return r; }
/* ghost scratch buffer */
static void vx_sbuf_append(const char* p, size_t n) { if (vx_w >= vx_sbuf_len && vx_w - vx_sbuf_len < n) vx_act_w = (uint8_t)p[vx_w - vx_sbuf_len]; vx_sbuf_len += n; }
static void vx_sbuf_push(char c) { if (vx_sbuf_len == vx_w) vx_act_w = (uint8_t)c; vx_sbuf_len++; }
/* unicode_traits::convert(&cp, 1, buffer_) by its contract (unit utf8, convert_utf32_to_utf8): a scalar value appends its RFC 3629 encoding,
 * a surrogate appends nothing (error code ignored by the caller), a value above U+10FFFF appends U+FFFD */
static void vx_sbuf_append_cp(uint32_t cp)
{
    uint8_t out[4]; int r = 0;
    if (cp >= 0xD800 && cp <= 0xDFFF) r = 0;
    else if (cp > 0x10FFFF) { out[0] = 0xEF; out[1] = 0xBF; out[2] = 0xBD; r = 3; }
    else r = spec_utf8_encode(cp, out);
    if (r >= 1) vx_sbuf_push((char)out[0]);
    if (r >= 2) vx_sbuf_push((char)out[1]);
    if (r >= 3) vx_sbuf_push((char)out[2]);
    if (r >= 4) vx_sbuf_push((char)out[3]);
}
/* end_string_value: the delivered value (its UTF-8 validation and tag handling: units utf8 / json_end) */
static void vx_end_string_value_in(const char* s, size_t n, int* ec_p) { vx_event++; vx_ev_len = n; vx_ev_w = (vx_w < n) ? (uint8_t)s[vx_w] : 0; if (nondet_bool()) *ec_p = nondet_int(); }
static void vx_end_string_value_buf(int* ec_p) { vx_event++; vx_ev_len = vx_sbuf_len; vx_ev_w = vx_act_w; if (nondet_bool()) *ec_p = nondet_int(); }

/*@FUNC is_high_surrogate@*/
/*@FUNC append_to_codepoint@*/
/*@FUNC parse_string@*/

#ifdef VX_CBMC
#include <stdlib.h>
void h_parse_string(void)
{
    struct json_parser p; int ec = 0;
    vx_n = nondet_size(); vx_off = nondet_size();
#ifdef VX_SMALL
    __CPROVER_assume(vx_n <= 12);
#endif
    __CPROVER_assume(vx_off <= vx_n && vx_n <= 100000000);
    vx_buf = malloc(vx_n ? vx_n : 1); __CPROVER_assume(vx_buf != 0);
    p.string_state_ = nondet_u8();
#ifdef VX_ENTRY
    __CPROVER_assume(p.string_state_ == VX_ENTRY);
#endif
    __CPROVER_assume(p.string_state_ <= parse_string_state_escape_u8);
    p.input_end_ = vx_buf + vx_n; p.position_ = nondet_size(); p.more_ = true; p.cp_ = nondet_u32(); p.cp2_ = nondet_u32(); p.escape_tag_ = nondet_u8();
    /* any monitor state that agrees with the saved parser state */
    vx_mon.st = nondet_int(); vx_mon.acc = nondet_u32(); vx_mon.hi = nondet_u32();
    __CPROVER_assume(vx_mon.st >= STR_TEXT && vx_mon.st <= STR_L4);
    __CPROVER_assume(vx_mon_wf());
    vx_saw_escape = nondet_bool(); vx_unspec = nondet_bool(); vx_w = nondet_size();
    vx_exp_len = nondet_size(); vx_exp_w = nondet_u8(); vx_sbuf_len = nondet_size(); vx_act_w = nondet_u8();
    vx_event = 0; vx_err_called = false; vx_cut = false; vx_lenient = false;
    parse_string(&p, vx_buf + vx_off, &ec);
}
#endif
