/* unit json_end: turning a completed number literal into a value event (json_parser.hpp end_*_value) */
#include "vx_common.h"
#include "spec_int.h"
/*@ENUM json_errc@*/
/*@ENUM semantic_tag@*/
enum { VX_ERRC_ok = 0, VX_ERRC_invalid_argument = 22, VX_ERRC_result_out_of_range = 34 };
struct to_number_result { const char* ptr; int ec; };
struct json_parser { bool more_, cursor_mode_, lossless_bignum_, lossless_number_; };
/* the parser's scratch buffer_ (the literal text) and the ghost binding of the dec_to_integer contracts (unit integers) */
static char vx_text[SPEC_INT_MAXLEN]; static size_t vx_text_len;
static const char* vx_s; static size_t vx_len, vx_k; static bool vx_neg; static spec_u128 vx_h; static size_t vx_h_i;
/* ghost visitor */
enum { VX_EV_NONE = 0, VX_EV_INT64, VX_EV_UINT64, VX_EV_DOUBLE, VX_EV_TEXT };
static unsigned vx_events; static int vx_ev_kind, vx_ev_tag; static int64_t vx_ev_i; static uint64_t vx_ev_u; static double vx_ev_d; static bool vx_visitor_fails; static unsigned vx_after;
static void vx_ev_int64(int64_t v, int* ec_p) { vx_events++; vx_ev_kind = VX_EV_INT64; vx_ev_i = v; if (vx_visitor_fails) *ec_p = json_errc_source_error; }
static void vx_ev_uint64(uint64_t v, int* ec_p) { vx_events++; vx_ev_kind = VX_EV_UINT64; vx_ev_u = v; if (vx_visitor_fails) *ec_p = json_errc_source_error; }
static void vx_ev_double(double d, int* ec_p) { vx_events++; vx_ev_kind = VX_EV_DOUBLE; vx_ev_d = d; if (vx_visitor_fails) *ec_p = json_errc_source_error; }
static void vx_ev_text(int tag, int* ec_p) { vx_events++; vx_ev_kind = VX_EV_TEXT; vx_ev_tag = tag; if (vx_visitor_fails) *ec_p = json_errc_source_error; }
static void vx_after_value(void) { vx_after++; }
/* decstr_to_double delegates to std::from_chars / strtod: opaque, assumed correctly rounded (DESIGN 10) */
static int vx_dbl_result;
static struct to_number_result vx_decstr_to_double(double* d) { struct to_number_result r; r.ptr = 0; r.ec = vx_dbl_result; *d = nondet_double(); return r; }
static unsigned vx_neg_calls, vx_pos_calls;
double nondet_double(void);
/*@COPY dec_u64_decl@*/
/*@COPY dec_i64_decl@*/
/*@FUNC end_positive_value@*/
/*@FUNC end_negative_value@*/
/*@FUNC end_fraction_value@*/
/*@FUNC end_integer_value@*/
#ifdef VX_CBMC
static struct json_parser vx_p;
static void setup(int neg)
{
    __CPROVER_havoc_object(vx_text);
    vx_text_len = nondet_size(); __CPROVER_assume(vx_text_len >= 1 + (size_t)neg && vx_text_len <= SPEC_INT_MAXLEN - 1 + (size_t)neg && vx_text_len <= SPEC_INT_MAXLEN);
    if (neg) __CPROVER_assume(vx_text[0] == '-');
    vx_neg = neg; vx_s = vx_text + neg; vx_len = vx_text_len - neg; vx_k = spec_digit_prefix(vx_s, vx_len); vx_h = 0; vx_h_i = 0;
    vx_p.more_ = true; vx_p.cursor_mode_ = nondet_bool(); vx_p.lossless_bignum_ = nondet_bool(); vx_p.lossless_number_ = nondet_bool();
    vx_events = 0; vx_ev_kind = VX_EV_NONE; vx_visitor_fails = false; vx_after = 0; vx_dbl_result = nondet_int();
    __CPROVER_assume(vx_dbl_result == VX_ERRC_ok || vx_dbl_result == VX_ERRC_result_out_of_range || vx_dbl_result == VX_ERRC_invalid_argument);
}
void h_end_positive(void) { setup(0); int ec = 0; end_positive_value(&vx_p, &ec); }
void h_end_negative(void) { setup(1); int ec = 0; end_negative_value(&vx_p, &ec); }
void h_end_fraction(void) { setup(0); int ec = 0; end_fraction_value(&vx_p, &ec); }
void h_end_integer(void) { setup(0); vx_neg_calls = 0; vx_pos_calls = 0; end_integer_value(); }
#endif
