/* S-JSONTXT (parser side): RFC 8259 sections 2-5 as an action table over grammar positions.
 *   JSON-text = ws value ws;  value = false / null / true / object / array / number / string
 *   object = begin-object [ member *( value-separator member ) ] end-object;  member = string name-separator value
 *   array  = begin-array [ value *( value-separator value ) ] end-array;  ws = *( %x20 / %x09 / %x0A / %x0D )
 * A grammar position says what may come next; the table says what a conforming parser does with the next character there.  Errors carry the json_errc
 * code the jsoncons documentation assigns (doc/ref/corelib/json_errc.md); acceptance or rejection itself is the RFC's.  Comments ("/" ...) and a comma
 * before a closing bracket are not JSON: they are errors unless the options allow_comments / allow_trailing_comma relax exactly these.  Not derived
 * from jsoncons' parser code. */
#ifndef SPEC_JSON_H
#define SPEC_JSON_H
enum spec_json_pos { G_VALUE_ROOT = 0,       /* start of the text: a value must come */
                     G_VALUE = 1,            /* after name-separator, or after value-separator inside an array: a value must come */
                     G_VALUE_OR_END = 2,     /* after begin-array: a value or end-array */
                     G_NAME_OR_END = 3,      /* after begin-object: a member name or end-object */
                     G_NAME = 4,             /* after value-separator inside an object: a member name must come */
                     G_COLON = 5,            /* after a member name: name-separator */
                     G_SEP_OR_END = 6 };     /* after a value inside a container: value-separator or the matching end */
enum spec_json_act { A_NONE = 0, A_SKIP_WS, A_SLASH, A_BEGIN_OBJECT, A_BEGIN_ARRAY, A_END_OBJECT, A_END_ARRAY, A_STRING, A_NUMBER_MINUS, A_NUMBER_ZERO, A_NUMBER_DIGIT,
                     A_NULL, A_TRUE, A_FALSE, A_COMMA, A_COLON, A_FLUSH, A_RESUME_STRING, A_RESUME_NUMBER, A_OTHER,
                     A_ERR = 1000 /* + error code */ };
enum spec_json_parent { P_ROOT = 0, P_ARRAY = 1, P_OBJECT = 2 };
/* error codes by name: filled in by the unit from the header's enum (json_errc_*) */
struct spec_json_errs { int illegal_control_character, syntax_error, unexpected_rbrace, unexpected_rbracket, expected_value, single_quote, extra_comma, expected_key, expected_colon,
                        expected_comma_or_rbracket, expected_comma_or_rbrace, unexpected_character; };
static inline int spec_json_is_ws(int c) { return c == ' ' || c == '\t' || c == '\n' || c == '\r'; }
static inline int spec_json_value_start(int c)
{
    if (c == '{') return A_BEGIN_OBJECT; if (c == '[') return A_BEGIN_ARRAY; if (c == '"') return A_STRING;
    if (c == '-') return A_NUMBER_MINUS; if (c == '0') return A_NUMBER_ZERO; if (c >= '1' && c <= '9') return A_NUMBER_DIGIT;
    if (c == 'n') return A_NULL; if (c == 't') return A_TRUE; if (c == 'f') return A_FALSE;
    return A_NONE;
}
static inline int spec_json_action(int g, int c, int parent, int allow_trailing_comma, const struct spec_json_errs* e)
{
    c &= 0xff;
    if (spec_json_is_ws(c)) return A_SKIP_WS;
    if (c < 0x20) return A_ERR + e->illegal_control_character;     /* a control character is never part of JSON outside ws */
    if (c == '/') return A_SLASH;                                   /* decided by the next character and allow_comments */
    int v = spec_json_value_start(c);
    switch (g) {
    case G_VALUE_ROOT: if (v) return v; return A_ERR + (c == '}' ? e->unexpected_rbrace : c == ']' ? e->unexpected_rbracket : e->syntax_error);
    case G_VALUE: if (v) return v;
        if (c == ']') return parent == P_ARRAY ? (allow_trailing_comma ? A_END_ARRAY : A_ERR + e->extra_comma) : A_ERR + e->expected_value;
        return A_ERR + (c == '\'' ? e->single_quote : e->expected_value);
    case G_VALUE_OR_END: if (v) return v; if (c == ']') return A_END_ARRAY; return A_ERR + (c == '\'' ? e->single_quote : e->expected_value);
    case G_NAME_OR_END: if (c == '"') return A_STRING; if (c == '}') return A_END_OBJECT; return A_ERR + (c == '\'' ? e->single_quote : e->expected_key);
    case G_NAME: if (c == '"') return A_STRING; if (c == '}') return allow_trailing_comma ? A_END_OBJECT : A_ERR + e->extra_comma; return A_ERR + (c == '\'' ? e->single_quote : e->expected_key);
    case G_COLON: if (c == ':') return A_COLON; return A_ERR + e->expected_colon;
    case G_SEP_OR_END: if (c == ',') return A_COMMA; if (c == '}') return A_END_OBJECT; if (c == ']') return A_END_ARRAY;
        return A_ERR + (parent == P_ARRAY ? e->expected_comma_or_rbracket : parent == P_OBJECT ? e->expected_comma_or_rbrace : e->unexpected_character);
    default: return A_OTHER;
    }
}
/* a closing bracket must match the innermost open container (RFC 8259 sections 4, 5); 0 = it matches.  The dispatch above hands "}" / "]" to the end-object / end-array
 * operation, which makes this check (unit json_depth has that operation under contract with the same error codes). */
static inline int spec_json_close_error(int parent, int closer, const struct spec_json_errs* e)
{
    if (closer == '}') return parent == P_OBJECT ? 0 : parent == P_ARRAY ? e->expected_comma_or_rbracket : e->unexpected_rbrace;
    return parent == P_ARRAY ? 0 : parent == P_OBJECT ? e->expected_comma_or_rbrace : e->unexpected_rbracket;
}
#endif
