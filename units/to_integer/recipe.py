# U-TOINT (C04, C12, C13, C18): jsoncons::to_integer, unsigned and signed 64 bit
from core import FuncSpec, CopySpec, EnumSpec, Harness
R = 'include/jsoncons/utility/read_number.hpp'
RES = '__CPROVER_return_value'
MK = [(r'to_number_result<CharT>\(([^,()]+), std::errc::(\w+)\)', r'vx_mk_result(\1, VX_ERRC_\2)', 1, 30),
      (r'to_number_result<CharT>\(([^,()]+), std::errc\{\}\)', r'vx_mk_result(\1, VX_ERRC_ok)', 1, 4), (r'\bconst CharT\*', 'const char*', 0, 6)]
def LOOP(radix):
    return '''__CPROVER_assigns(s, n, vx_h, vx_cnt, vx_over, vx_bad_digit)
  __CPROVER_loop_invariant(__CPROVER_same_object(s, vx_s) && __CPROVER_POINTER_OFFSET(s) <= vx_len && vx_radix == %d && __CPROVER_POINTER_OFFSET(s) >= vx_dstart && vx_cnt == __CPROVER_POINTER_OFFSET(s) - vx_dstart
      && vx_h <= (spec_u128)UINT64_MAX && n == (uint64_t)vx_h && !vx_over && !vx_bad_digit)
  __CPROVER_decreases(vx_len - __CPROVER_POINTER_OFFSET(s))''' % radix
U_RULES = MK + [
    (r'integer_chars_state state = integer_chars_state::initial;', 'uint8_t state = integer_chars_state_initial;', 1),
    (r'state = integer_chars_state::(binary|base16);\s*\+\+s;', r'state = integer_chars_state_\1; ++s; vx_radix = VX_RADIX_OF(state); vx_dstart = (size_t)(s - vx_s);', 2, 3),
    (r'state = integer_chars_state::(octal|decimal);', r'state = integer_chars_state_\1; vx_radix = VX_RADIX_OF(state); vx_dstart = (size_t)(s - vx_s);', 2, 3),
    (r'integer_chars_state::(\w+)', r'integer_chars_state_\1', 6, 20),
    (r'static constexpr T (max_value(?:_div_\d+)?) = ', r'const uint64_t \1 = ', 8), (r'\(ext_traits::integer_limits<T>::max\)\(\)', 'UINT64_MAX', 4),
    (r'\bT x = 0;', 'uint64_t x = 0;', 4), (r'CharT c = \*s;', 'char c = *s;', 1),
    (r'static_cast<T>\(\*s\) - static_cast<T>\(\'0\'\)', "(uint64_t)(*s) - (uint64_t)('0')", 3), (r'static_cast<T>\(c - ([^;]+)\);', r'(uint64_t)(c - \1);', 3),
    (r'n \+= x;', 'n += x; VX_FOLD(*s, x);', 4),
    (r'if \(n > max_value - x\)\s*\{\s*return', 'if (n > max_value - x) { VX_AT_RANGE(*s); return', 4), (r'if \(n > (max_value_div_\d+)\)\s*\{\s*return', r'if (n > \1) { VX_AT_RANGE(*s); return', 4),
    (r'default:\s*return vx_mk_result\(s, VX_ERRC_invalid_argument\);\s*\}\s*if \(n > max_value_div', 'default: VX_AT_INVALID(*s); return vx_mk_result(s, VX_ERRC_invalid_argument); } if (n > max_value_div', 4),
    (r'\bn = 0;', '*np = 0; uint64_t n = 0;', 1), (r'return \(state == integer_chars_state_initial\)', '*np = n; return (state == integer_chars_state_initial)', 1),
    (r'return vx_mk_result\(', '*np = n; return vx_mk_result(', 10, 30),
]
C0 = 'vx_s[0]'
U64 = [
    ('requires', 's == vx_s && length == vx_len && vx_len <= 100000000 && (vx_len == 0 || __CPROVER_r_ok(vx_s, vx_len)) && __CPROVER_w_ok(np, sizeof(*np)) && vx_radix == 0 && vx_cnt == 0 && vx_h == 0 && !vx_over && !vx_bad_digit'),
    ('assigns', '*np, vx_radix, vx_dstart, vx_cnt, vx_h, vx_over, vx_bad_digit'),
    ('ensures', '[C04][C12][C13] a string that starts with 1-9 is read in radix 10 from its first character; 0 followed by a digit is octal from the second character; 0b/0B and 0x/0X are binary and hexadecimal from the third; "0" alone is 0',
     '((vx_len >= 1 && %s >= \'1\' && %s <= \'9\') ==> (vx_radix == 10 && vx_dstart == 0)) && ((vx_len == 1 && %s == \'0\') ==> (%s.ec == VX_ERRC_ok && *np == 0)) '
     '&& ((vx_len >= 2 && %s == \'0\' && (vx_s[1] == \'x\' || vx_s[1] == \'X\')) ==> (vx_radix == 16 && vx_dstart == 2)) && ((vx_len >= 2 && %s == \'0\' && (vx_s[1] == \'b\' || vx_s[1] == \'B\')) ==> (vx_radix == 2 && vx_dstart == 2)) '
     '&& ((vx_len >= 2 && %s == \'0\' && vx_s[1] >= \'0\' && vx_s[1] <= \'9\') ==> (vx_radix == 8 && vx_dstart == 1))' % (C0, C0, C0, RES, C0, C0, C0)),
    ('ensures', '[C04][C12][C13][C18] success: every character after the prefix was a digit of the radix and was folded in exactly once, in order; the result is exactly the positional (Horner) value of those digits, which fits 64 bits',
     '%s.ec == VX_ERRC_ok ==> (vx_len >= 1 && %s.ptr == vx_s + vx_len && !vx_over && !vx_bad_digit && (vx_radix != 0 ==> (vx_cnt == vx_len - vx_dstart && vx_h <= (spec_u128)UINT64_MAX && *np == (uint64_t)vx_h)) && (vx_radix == 0 ==> (vx_len == 1 && *np == 0)))' % (RES, RES)),
    ('ensures', '[C04] failure is one of: empty string or a first character that is not a digit (invalid_argument); a character that is not a digit of the radix (invalid_argument at that character); a value that exceeds 2^64-1 at the digit where it first does (result_out_of_range)',
     '%s.ec != VX_ERRC_ok ==> ((%s.ec == VX_ERRC_result_out_of_range && vx_over) || (%s.ec == VX_ERRC_invalid_argument && (vx_bad_digit || vx_radix == 0)))' % (RES, RES, RES)),
    ('ensures', '[C04] the empty string is invalid_argument; the two failure ghosts belong to their error codes; without a radix nothing was folded',
     '(vx_len == 0 ==> %s.ec == VX_ERRC_invalid_argument) && (vx_over ==> %s.ec == VX_ERRC_result_out_of_range) && (vx_bad_digit ==> %s.ec == VX_ERRC_invalid_argument) && (vx_radix == 0 ==> (vx_h == 0 && vx_cnt == 0))' % (RES, RES, RES)),
    ('ensures', '[C05] the returned pointer is inside the string', '__CPROVER_same_object(%s.ptr, vx_s) && __CPROVER_POINTER_OFFSET(%s.ptr) <= vx_len' % (RES, RES)),
]
I_RULES = [(r'to_number_result<CharT>\(ru\.ptr, ru\.ec\)', 'vx_mk_result(ru.ptr, ru.ec)', 1)] + MK + [
    (r'\bn = 0;', '*np = 0;', 1), (r'using U = typename ext_traits::make_unsigned<T>::type;', '', 1), (r'\bU u;', 'uint64_t u;', 1),
    (r'auto ru = to_integer\(s, length, u\);', 'struct to_number_result ru = to_integer_u64(s, length, &u); vx_ok_u = (ru.ec == VX_ERRC_ok);', 1), (r'\+\+s;\s*--length;', '++s; --length; vx_s = s; vx_len = length;', 1), (r'std::errc\{\}', 'VX_ERRC_ok', 1, 3),
    (r'static_cast<U>\(-\(\(ext_traits::integer_limits<T>::lowest\)\(\)\+T\(1\)\)\) \+ U\(1\)', '(uint64_t)(-(INT64_MIN + (int64_t)1)) + (uint64_t)1', 1),
    (r'static_cast<U>\(\(ext_traits::integer_limits<T>::max\)\(\)\)', '(uint64_t)INT64_MAX', 1),
    (r'n = static_cast<T>\(U\(0\) - u\);', '*np = (int64_t)((uint64_t)0 - u);', 1), (r'n = static_cast<T>\(u\);', '*np = (int64_t)u;', 1),
]
NEG = '(__CPROVER_old(vx_len) >= 1 && __CPROVER_old(vx_s)[0] == \'-\')'
I64 = [
    ('requires', 's == vx_s && length == vx_len && vx_len <= 100000000 && (vx_len == 0 || __CPROVER_r_ok(vx_s, vx_len)) && __CPROVER_w_ok(np, sizeof(*np)) && vx_radix == 0 && vx_cnt == 0 && vx_h == 0 && !vx_over && !vx_bad_digit'),
    ('assigns', '*np, vx_ok_u, vx_s, vx_len, vx_radix, vx_dstart, vx_cnt, vx_h, vx_over, vx_bad_digit'),
    ('ensures', '[C04][C12][C13][C18] success: an optional leading minus, then an unsigned numeral whose value v (as decided by the unsigned routine) satisfies v <= 2^63-1, or v <= 2^63 after a minus; the result is v or -v exactly (INT64_MIN included, never wrapped)',
     '%s.ec == VX_ERRC_ok ==> (%s ? (vx_h <= ((spec_u128)1 << 63) && (uint64_t)*np == (uint64_t)0 - (uint64_t)vx_h) : (vx_h <= (spec_u128)INT64_MAX && *np == (int64_t)(uint64_t)vx_h))' % (RES, NEG)),
    ('ensures', '[C04] a value that the unsigned routine accepts but that is outside the signed range is result_out_of_range', '(!vx_over && !vx_bad_digit && vx_ok_u && (%s ? vx_h > ((spec_u128)1 << 63) : vx_h > (spec_u128)INT64_MAX)) ==> %s.ec == VX_ERRC_result_out_of_range' % (NEG, RES)),
    ('ensures', '[C04] an empty string and a lone minus are invalid_argument', '(__CPROVER_old(vx_len) == 0 || (__CPROVER_old(vx_len) == 1 && %s)) ==> %s.ec == VX_ERRC_invalid_argument' % (NEG, RES)),
]
SPECS = [
    EnumSpec('integer_chars_state', R),
    FuncSpec('to_integer_u64', R, r'typename std::enable_if<ext_traits::integer_limits<T>::is_specialized && !ext_traits::integer_limits<T>::is_signed,to_number_result<CharT>>::type\s*to_integer\(const CharT\* s, std::size_t length, T& n\)', count=1,
             csig='struct to_number_result to_integer_u64(const char* s, size_t length, uint64_t* np)', contract=U64, rules=U_RULES, loops={1: LOOP(2), 2: LOOP(8), 3: LOOP(10), 4: LOOP(16), 'count': 5}),
    FuncSpec('to_integer_i64', R, r'typename std::enable_if<ext_traits::integer_limits<T>::is_specialized && ext_traits::integer_limits<T>::is_signed,to_number_result<CharT>>::type\s*to_integer\(const CharT\* s, std::size_t length, T& n\)', count=1,
             csig='struct to_number_result to_integer_i64(const char* s, size_t length, int64_t* np)', contract=I64, rules=I_RULES),
]
HARNESSES = [
    Harness('to_integer_u64', 'h_to_integer_u64', enforce='to_integer_u64', loop_contracts=True, method='LC', props=['C04', 'C12', 'C13', 'C18'], expect_classes={'loop_invariant_step': 4}, pre_unwind=4, timeout=1800,
            note='the four digit loops are under loop contracts; the outer state loop runs at most three times (prefix, radix letter, digits) and is unwound with an unwinding assertion'),
    Harness('to_integer_i64', 'h_to_integer_i64', enforce='to_integer_i64', replace=['to_integer_u64'], method='LF', props=['C04', 'C12', 'C13', 'C18']),
]
