# U-PDEPTH (DESIGN 6): begin_object/begin_array/end_object/end_array of basic_json_parser: nesting limit and bracket matching
from core import FuncSpec, CopySpec, EnumSpec, Harness, INF
J = 'include/jsoncons/json_parser.hpp'
AL = {'ec': '(*ec_p)', 'level_': '(self->level_)', 'max_nesting_depth_': '(self->max_nesting_depth_)', 'more_': '(self->more_)',
      'cursor_mode_': '(self->cursor_mode_)', 'mark_level_': '(self->mark_level_)', 'state_': '(self->state_)'}
RULES = [
    (r'err_handler_\(json_errc::(\w+), \*this\)', r'vx_err_handler(json_errc_\1)', 1, 3),
    (r'json_errc::(\w+)', r'json_errc_\1', 1, 4),
    (r'push_state\(parse_state::(\w+)\);', r'VX_STACK_EMPLACE(parse_state_\1, 0);', 0, 1),
    (r'pop_state\(\)', 'vx_pop_state()', 0, 1),
    (r'parse_state::(\w+)', r'parse_state_\1', 1, 6),
    (r'visitor\.(begin|end)_(object|array)\((semantic_tag::none, )?\*this, ec\);', r'vx_event(VX_EV_\1_\2, ec_p);', 1),
]
def begin(kind, next_state):
    return [
        ('requires', '*ec_p == 0 && self->level_ >= 0 && self->level_ <= self->max_nesting_depth_ && self->max_nesting_depth_ < INT_MAX && vx_pushes == 0 && vx_events == 0 && vx_depth < 1000000 && !vx_err_called'),
        ('assigns', '*ec_p, self->level_, self->more_, self->state_, vx_pushes, vx_depth, vx_top, vx_events, vx_ev_kind, vx_err_called, vx_err_code'),
        ('ensures', '[C10][C02] opening a container at nesting level == max_nesting_depth is refused with max_nesting_depth_exceeded (default error handler), before any state push or visitor event',
         '(__CPROVER_old(self->level_) == self->max_nesting_depth_ && !vx_lenient) ==> (*ec_p == json_errc_max_nesting_depth_exceeded && vx_pushes == 0 && vx_events == 0 && !self->more_)'),
        ('ensures', '[C10][C02] opening a container below the limit is accepted (input nested exactly to the limit parses): level + 1, state pushed, begin event',
         '__CPROVER_old(self->level_) < self->max_nesting_depth_ ==> (!vx_err_called && self->level_ == __CPROVER_old(self->level_) + 1 && vx_pushes == 1 && vx_top.type_ == parse_state_%s && vx_events == 1 && vx_ev_kind == VX_EV_begin_%s && self->state_ == parse_state_%s)' % (kind, kind, next_state)),
        ('ensures', '[C02] the error handler is consulted only when the limit is exceeded', 'vx_err_called ==> (__CPROVER_old(self->level_) == self->max_nesting_depth_ && vx_err_code == json_errc_max_nesting_depth_exceeded)'),
    ]
def end(kind, other, err_self, err_other):
    return [
        ('requires', '*ec_p == 0 && self->level_ >= 0 && vx_pops == 0 && vx_events == 0 && vx_depth >= 1 && vx_depth < 1000000 && !vx_err_called && (self->level_ >= 1 ==> vx_depth >= 2)'),
        ('assigns', '*ec_p, self->level_, self->more_, self->state_, vx_pops, vx_depth, vx_top, vx_events, vx_ev_kind, vx_err_called, vx_err_code, vx_popped'),
        ('ensures', '[C02] a closing bracket at nesting level 0 is an error', '__CPROVER_old(self->level_) < 1 ==> (*ec_p == json_errc_%s && vx_events == 0 && !self->more_)' % err_self),
        ('ensures', '[C02] a closing bracket must match the innermost open container: closing a %s while a %s is open is an error' % (kind, other),
         '(__CPROVER_old(self->level_) >= 1 && __CPROVER_old(vx_top.type_) == parse_state_%s) ==> (*ec_p == json_errc_%s && vx_events == 0 && !self->more_)' % (other, err_other)),
        ('ensures', '[C02] a matching closing bracket ends the container: end event, level - 1, accept exactly when the outermost container closes',
         '(__CPROVER_old(self->level_) >= 1 && __CPROVER_old(vx_top.type_) == parse_state_%s && !vx_visitor_fails) ==> (*ec_p == 0 && vx_events == 1 && vx_ev_kind == VX_EV_end_%s && vx_pops == 1 && self->level_ == __CPROVER_old(self->level_) - 1 && (self->state_ == parse_state_accept) == (self->level_ == 0) && (self->level_ != 0 ==> self->state_ == parse_state_expect_comma_or_end))' % (kind, kind)),
        ('ensures', '[C02] any other state on the stack is an error', '(__CPROVER_old(self->level_) >= 1 && __CPROVER_old(vx_top.type_) != parse_state_object && __CPROVER_old(vx_top.type_) != parse_state_array) ==> (*ec_p == json_errc_%s && vx_events == 0)' % err_self),
    ]
def F(name, ret='void'):
    return FuncSpec(name, J, r'void %s\(basic_json_visitor<char_type>& visitor, std::error_code& ec\)' % name, count=1,
                    csig='void %s(struct json_parser* self, int* ec_p)' % name, aliases=AL, rules=RULES,
                    contract={'begin_object': begin('object', 'expect_member_name_or_end'), 'begin_array': begin('array', 'expect_value_or_end'),
                              'end_object': end('object', 'array', 'unexpected_rbrace', 'expected_comma_or_rbracket'),
                              'end_array': end('array', 'object', 'unexpected_rbracket', 'expected_comma_or_rbrace')}[name])
SPECS = [EnumSpec('parse_state', J), EnumSpec('json_errc', 'include/jsoncons/json_error.hpp'),
         F('begin_object'), F('end_object'), F('begin_array'), F('end_array')]
SITE_CHECKS = [
    {'file': J, 'pattern': r'\+\+level_ > max_nesting_depth_', 'count': 2, 'props': ['C10'], 'what': 'both container-opening functions of the JSON parser carry the nesting guard'},
    {'file': J, 'pattern': r'push_state\(parse_state::(object|array)\)', 'count': 2, 'props': ['C10'], 'what': 'containers are pushed only in begin_object / begin_array'},
    {'file': J, 'pattern': r'\bbegin_(object|array)\(visitor, ec\);', 'count': (4, 12), 'props': ['C10'], 'what': 'every "{" / "[" in parse_some_ goes through begin_object / begin_array'},
]
HARNESSES = [Harness(n, 'h_' + n, enforce=n, method='LF', props=['C10', 'C02']) for n in ('begin_object', 'end_object', 'begin_array', 'end_array')]
