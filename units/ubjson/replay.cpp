// replay for unit ubjson: strings, byte-valued arrays and integers at every width boundary go through the real UBJSON encoder and decoder; the bytes must decode back to the same
// value (a declared length that does not denote the actual length makes the decoder fail or return something else)
#include <jsoncons/json.hpp>
#include <jsoncons_ext/ubjson/ubjson.hpp>
#include "replay_util.hpp"
using namespace jsoncons;
static int bad = 0;
int main(int argc, char** argv)
{
    if (argc < 3) return 2;
    vx_replay_inputs in; in.load(argv[2]);
    std::vector<uint64_t> lens = {0, 1, 127, 128, 255, 256, 32767, 32768, 40000, 65535, 65536, 70000};
    if (in.has("length") && in.u64("length") <= 3000000) lens.push_back(in.u64("length"));
    for (uint64_t n : lens) {
        json s(std::string((size_t)n, 'x'));
        std::vector<uint8_t> out; ubjson::encode_ubjson(s, out);
        try { json back = ubjson::decode_ubjson<json>(out); if (back != s) { std::cout << "string of length " << n << " does not decode back\n"; ++bad; } }
        catch (const std::exception& e) { std::cout << "string of length " << n << ": " << e.what() << "\n"; ++bad; }
        json a(json_array_arg); a.reserve((size_t)n); for (uint64_t i = 0; i < n; ++i) a.push_back((uint8_t)(i & 0x7f));
        std::vector<uint8_t> out2; ubjson::encode_ubjson(a, out2);
        try { json back = ubjson::decode_ubjson<json>(out2); if (back != a) { std::cout << "array of " << n << " elements does not decode back\n"; ++bad; } }
        catch (const std::exception& e) { std::cout << "array of " << n << " elements: " << e.what() << "\n"; ++bad; }
    }
    for (int64_t v : {0ll, 127ll, 128ll, 255ll, 256ll, 32767ll, 32768ll, 2147483647ll, 2147483648ll, -1ll, -128ll, -129ll, -32768ll, -32769ll, -2147483648ll, -2147483649ll, (long long)INT64_MAX, (long long)INT64_MIN}) {
        json j(v); std::vector<uint8_t> out; ubjson::encode_ubjson(j, out);
        try { json back = ubjson::decode_ubjson<json>(out); if (back != j) { std::cout << "integer " << v << " does not decode back\n"; ++bad; } } catch (const std::exception& e) { std::cout << "integer " << v << ": " << e.what() << "\n"; ++bad; }
    }
    if (bad) VX_REPRO(bad << " UBJSON lengths / integers are written or read wrongly (see above)");
    VX_NOREPRO("all boundary lengths and integers decode back");
}
