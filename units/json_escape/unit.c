/* unit json_escape: detail::escape_string (json_encoders.hpp) */
#include "vx_common.h"
#include "spec_str.h"
#include "spec_utf8.h"

/*@ENUM unicode_errc@*/
/*@ENUM strict_flag@*/
/*@COPY unicode_tables@*/

#define VX_IN_MAX 100000000
/* ghost: input vx_in[0..vx_len), decoding monitor of the output with input cursor vx_k (DESIGN 5.1, 5.2) */
static uint8_t* vx_in; static size_t vx_len;
static struct spec_str_mon vx_mon; static size_t vx_k, vx_out_n; static bool vx_bad;
static bool vx_out_nonascii, vx_raw_solidus, vx_esc_solidus;
struct unicode_result { const char* ptr; int ec; };
/* ghost names used by the to_codepoint contract (unit utf8) */
#define vx_buf vx_in
#define vx_n vx_len
#define VX_BUF_CAP VX_IN_MAX
static size_t vx_off;
static uint8_t vx_at(size_t i) { return i < vx_len ? vx_in[i] : 0; }
static bool vx_wf_at(size_t i)
{
    if (i >= vx_len) return false;
    int l = spec_utf8_len(vx_in[i]);
    return l >= 1 && vx_len - i >= (size_t)l && spec_wf_utf8(vx_at(i), vx_at(i + 1), vx_at(i + 2), vx_at(i + 3), l);
}
/* ghost window: the input bytes at the current position, loaded once per loop iteration (an iteration consumes at most 4 bytes);
 * the decoded output is compared with the window instead of re-reading the unbounded input array for every character written */
static uint8_t vx_w[4]; static size_t vx_w_base;
static void vx_window(size_t off) { vx_w_base = off; vx_w[0] = vx_at(off); vx_w[1] = vx_at(off + 1); vx_w[2] = vx_at(off + 2); vx_w[3] = vx_at(off + 3); }
static bool vx_in_matches(size_t k, uint8_t b) { size_t d = k - vx_w_base; return k < vx_len && d < 4 && vx_w[d] == b; }
/* every character pushed to the sink goes through the RFC 8259 string decoder; what it decodes is compared with the input on the fly */
static void vx_esc_out(char ch)
{
    uint8_t out[4];
    int was_esc = (vx_mon.st == STR_ESC);
    int r = spec_str_step(&vx_mon, (unsigned char)ch, out, 1);
    vx_out_n++;
    if ((unsigned char)ch >= 0x80) vx_out_nonascii = true;
    if (ch == '/') { if (was_esc) vx_esc_solidus = true; else vx_raw_solidus = true; }
    if (r < 0) vx_bad = true;
    if (r >= 1) { if (!vx_in_matches(vx_k, out[0])) vx_bad = true; vx_k++; }
    if (r >= 2) { if (!vx_in_matches(vx_k, out[1])) vx_bad = true; vx_k++; }
    if (r >= 3) { if (!vx_in_matches(vx_k, out[2])) vx_bad = true; vx_k++; }
    if (r >= 4) { if (!vx_in_matches(vx_k, out[3])) vx_bad = true; vx_k++; }
    __CPROVER_assert(!vx_bad, "[C01][C08] every character written keeps the output inside the RFC 8259 string language and decodes to the next input bytes");
}

/*@COPY to_codepoint_decl@*/
/*@FUNC to_hex_character@*/
/*@FUNC is_control_character@*/
/*@FUNC is_non_ascii_codepoint@*/
/*@FUNC escape_string@*/

#ifdef VX_CBMC
#include <stdlib.h>
void h_hex(void) { to_hex_character(nondet_u8()); }
void h_escape_string(void)
{
    vx_len = nondet_size();
#ifdef VX_SMALL
    __CPROVER_assume(vx_len <= 8);
#endif
    __CPROVER_assume(vx_len <= VX_IN_MAX);
    vx_in = malloc(vx_len ? vx_len : 1); __CPROVER_assume(vx_in != 0);
    vx_k = 0; vx_mon.st = STR_TEXT; vx_mon.acc = 0; vx_mon.hi = 0; vx_bad = false; vx_out_n = 0; vx_thrown = 0;
    vx_out_nonascii = false; vx_raw_solidus = false; vx_esc_solidus = false;
    bool ea = nondet_bool(), es = nondet_bool();
#ifdef VX_EA
    ea = VX_EA; es = VX_ES;
#endif
    escape_string((const char*)vx_in, vx_len, ea, es);
}
#endif
