// replay for unit to_integer: jsoncons::to_integer<uint64_t> and <int64_t> on numerals of every radix (decimal, 0 octal, 0b binary, 0x hexadecimal) around the
// range boundaries, with an invalid character at every position, and on a pseudo-random sample, against an independent positional-value reference that
// works in 128-bit arithmetic.
#include <jsoncons/json.hpp>
#include "replay_util.hpp"
#include <random>
using namespace jsoncons;
typedef unsigned __int128 u128;
static int dig(char c, int r) { int v = (c >= '0' && c <= '9') ? c - '0' : (c >= 'a' && c <= 'f') ? c - 'a' + 10 : (c >= 'A' && c <= 'F') ? c - 'A' + 10 : -1; return (v >= 0 && v < r) ? v : -1; }
// reference: 0 ok (value in v), 1 invalid, 2 out of range (w.r.t. limit)
static int ref_u(const std::string& s, u128 limit, u128& v)
{
    v = 0; if (s.empty()) return 1;
    int radix = 10; size_t i = 0;
    if (s[0] == '0') { if (s.size() == 1) return 0; char c = s[1]; if (c == 'x' || c == 'X') { radix = 16; i = 2; } else if (c == 'b' || c == 'B') { radix = 2; i = 2; } else if (c >= '0' && c <= '9') { radix = 8; i = 1; } else return 1; }
    else if (!(s[0] >= '1' && s[0] <= '9')) return 1;
    for (; i < s.size(); ++i) { int d = dig(s[i], radix); if (d < 0) return 1; v = v * radix + d; if (v > limit) return 2; }
    return 0;
}
static std::string num(u128 v, int radix) { if (v == 0) return "0"; std::string r; while (v) { r.insert(r.begin(), "0123456789abcdef"[(int)(v % radix)]); v /= radix; } return r; }
int main(int argc, char** argv)
{
    if (argc < 3) return 2;
    int bad = 0, total = 0; std::string first;
    auto check = [&](const std::string& s) {
        { ++total; uint64_t n = 77; auto r = jsoncons::to_integer(s.data(), s.size(), n); u128 v; int want = ref_u(s, (u128)UINT64_MAX, v);
          int got = r.ec == std::errc{} ? 0 : r.ec == std::errc::invalid_argument ? 1 : 2;
          if (got != want || (want == 0 && n != (uint64_t)v)) { if (!bad) first = "to_integer<uint64_t>(\"" + s + "\"): verdict " + std::to_string(got) + " value " + std::to_string(n) + ", reference verdict " + std::to_string(want) + " value " + std::to_string((uint64_t)v); ++bad; } }
        { ++total; int64_t n = 77; auto r = jsoncons::to_integer(s.data(), s.size(), n); bool neg = !s.empty() && s[0] == '-'; std::string t = neg ? s.substr(1) : s; u128 v;
          int want = s.empty() ? 1 : ref_u(t, (u128)UINT64_MAX, v); if (want == 0 && v > (neg ? ((u128)1 << 63) : (u128)INT64_MAX)) want = 2;   // signed: the numeral is read as unsigned first, then range-checked
          int got = r.ec == std::errc{} ? 0 : r.ec == std::errc::invalid_argument ? 1 : 2;
          int64_t wv = neg ? (int64_t)((uint64_t)0 - (uint64_t)v) : (int64_t)(uint64_t)v;
          if (got != want || (want == 0 && n != wv)) { if (!bad) first = "to_integer<int64_t>(\"" + s + "\"): verdict " + std::to_string(got) + " value " + std::to_string(n) + ", reference verdict " + std::to_string(want) + " value " + std::to_string(wv); ++bad; } }
    };
    const char* pre[] = {"", "0", "0b", "0x", "0B", "0X"}; const int rad[] = {10, 8, 2, 16, 2, 16};
    std::vector<u128> vals = {0, 1, 7, 8, 9, 10, 15, 16, 255, 256, ((u128)1 << 63) - 1, (u128)1 << 63, ((u128)1 << 63) + 1, (u128)UINT64_MAX - 1, (u128)UINT64_MAX, (u128)UINT64_MAX + 1, (u128)UINT64_MAX * 2, (u128)UINT64_MAX * 16 + 15, (u128)UINT64_MAX / 10, (u128)UINT64_MAX / 10 + 1};
    for (int k = 0; k < 6; ++k) for (u128 v : vals) for (int neg = 0; neg < 2; ++neg) {
        if (k == 0 && v == 0) { check(neg ? "-0" : "0"); continue; }
        std::string body = num(v, rad[k]); std::string s = std::string(neg ? "-" : "") + pre[k] + body; check(s);
        for (size_t p = 0; p <= s.size(); ++p) for (char c : {'9', '8', '2', 'g', 'f', '-', ' ', 'x'}) { std::string t = s; t.insert(t.begin() + p, c); check(t); }
        for (size_t p = 0; p < s.size(); ++p) { std::string t = s; t.erase(t.begin() + p); check(t); }
    }
    for (const char* s : {"", "-", "--1", "+1", "00", "000", "08", "09", "0b", "0x", "0b2", "0xg", "0x0", "0b0", "-0x10", "-010", "1e5", "1.0", " 1", "1 "}) check(s);
    std::mt19937_64 rng(12345); const char alpha[] = "0123456789abfxXB-";
    for (int i = 0; i < 200000; ++i) { size_t len = 1 + rng() % 22; std::string s; for (size_t j = 0; j < len; ++j) s.push_back(alpha[rng() % (j < 3 ? 17 : 10)]); check(s); }
    if (bad) VX_REPRO(bad << " of " << total << " conversions differ from the positional-value reference, first: " << first);
    VX_NOREPRO("all " << total << " conversions agree with the positional-value reference");
}
