/* unit jsonpath_replace (C12): json_replace(root, path, T&& new_value).  new_value is a handle with a state: intact, or moved-from (a moved-from basic_json holds
 * whatever the assignment swapped into it).  std::forward<T>(new_value) moves when T is not an lvalue reference, i.e. when the caller passed a temporary. */
#include "vx_common.h"
enum { VX_COPY = 0, VX_FORWARD = 1 };
/*@ENUM result_options@*/
static bool vx_is_rvalue, vx_value_intact, vx_assigned_is_new_value, vx_compiled; static unsigned vx_callback_runs, vx_evaluations; static int vx_options;
static void vx_node_assign(int how) { vx_assigned_is_new_value = vx_value_intact; if (how == VX_FORWARD && vx_is_rvalue) vx_value_intact = false; }
static void vx_evaluate(int options) { vx_evaluations++; vx_options = options; }
/*@FUNC json_replace_value@*/
#ifdef VX_CBMC
void h_json_replace_value(void) { vx_is_rvalue = nondet_bool(); vx_value_intact = true; vx_callback_runs = 0; vx_evaluations = 0; vx_compiled = false; json_replace_value(); }
#endif
