# unit jmespath_compile (C05, C13): the state function_expression of the JMESPath compiler's main loop (between the arguments of a function call): every
# character either is consumed, changes the state stack, or ends the compilation with an error - the loop cannot stand still (F39: `length(a b)` never returned)
from core import FuncSpec, EnumSpec, Harness
J = 'include/jsoncons_ext/jmespath/jmespath.hpp'
RULES = [
    (r'advance_past_space_character\(\);', 'vx_advance_space();', 1), (r'push_token\((?:lparen_arg|token<Json>\(end_function_arg\)), resources, output_stack, ec\);', 'vx_push_token(ec_p);', 2),
    (r'if \(JSONCONS_UNLIKELY\(ec\)\) \{return jmespath_expression\{\};\}', 'if (*ec_p) { vx_returned = true; return; }', 2), (r'return jmespath_expression\{\};', '{ vx_returned = true; return; }', 0, 2),
    (r'state_stack\.push_back\(expr_state::(\w+)\);', r'vx_stack_push(expr_state_\1);', 1), (r'state_stack\.pop_back\(\);', 'vx_stack_pop();', 1), (r'\+\+p_;', 'vx_p++;', 2), (r'\+\+column_;', 'vx_column++;', 2),
    (r'\*p_', 'vx_c', 1), (r'jmespath_errc::(\w+)', r'jmespath_errc_\1', 0, 2),
]
C = [
    ('requires', '*ec_p == 0 && !vx_returned && vx_pushes == 0 && vx_pops == 0 && vx_p0 == vx_p && vx_column <= SIZE_MAX / 2 && vx_p <= SIZE_MAX / 2'),
    ('assigns', '*ec_p, vx_returned, vx_p, vx_column, vx_pushes, vx_pops, vx_pushed_state, vx_tokens, vx_stack_size'),
    ('ensures', '[C05] progress: a step of the compiler in this state consumes the character, or changes the state stack, or ends the compilation with an error - it never leaves everything as it was (the loop over the expression terminates)',
     'vx_p > vx_p0 || vx_pushes + vx_pops > 0 || (vx_returned && *ec_p != 0)'),
    ('ensures', '[C13] between the arguments of a function call: white space is skipped, a comma starts the next argument, a closing parenthesis ends the call; anything else is an error',
     "(vx_c == ' ' || vx_c == '\\t' || vx_c == '\\r' || vx_c == '\\n') ? (vx_p == vx_p0 + 1 && vx_pushes + vx_pops == 0 && !vx_returned) : vx_c == ',' ? (vx_returned ? *ec_p != 0 : (vx_pushes == 1 && vx_pushed_state == expr_state_expression_or_expression_type && vx_p == vx_p0 + 1)) "
     ": vx_c == ')' ? (vx_returned ? *ec_p != 0 : (vx_pops == 1 && vx_p == vx_p0 + 1)) : (vx_returned && *ec_p != 0 && vx_p == vx_p0)"),
]
# ---- state rhs_expression (after an operand): the state stack is never popped empty (F40: an unmatched ')' - `a)` - popped the last state and the loop went on with back() of an empty vector)
R_RULES = [
    (r'advance_past_space_character\(\);', 'vx_advance_space();', 1), (r'state_stack\.push_back\(expr_state::(\w+)\);', r'vx_stack_push(expr_state_\1);', 8, 14), (r'state_stack\.pop_back\(\);', 'vx_stack_pop();', 2, 3),
    (r'state_stack\.size\(\)', 'vx_stack_size', 1, 3), (r'return jmespath_expression\{\};', '{ vx_returned = true; return; }', 1, 3), (r'\+\+p_;', 'vx_p++;', 4, 8), (r'\+\+column_;', 'vx_column++;', 4, 8),
    (r'\*p_', 'vx_c', 1), (r'jmespath_errc::(\w+)', r'jmespath_errc_\1', 1, 3),
]
RC = [
    ('requires', '*ec_p == 0 && !vx_returned && vx_pushes == 0 && vx_pops == 0 && vx_p0 == vx_p && vx_column <= SIZE_MAX / 2 && vx_p <= SIZE_MAX / 2 && vx_stack_size >= 1 && vx_stack_size <= SIZE_MAX / 2 && vx_stack_size0 == vx_stack_size'),
    ('assigns', '*ec_p, vx_returned, vx_p, vx_column, vx_pushes, vx_pops, vx_pushed_state, vx_stack_size, vx_back_set'),
    ('ensures', '[C05] the state stack is never emptied while the compilation goes on: the loop reads state_stack.back() next (an unmatched closing parenthesis is an error, not a pop of the last state)', 'vx_returned || vx_stack_size >= 1'),
    ('ensures', '[C05] progress: the step consumes the character, or changes the state stack, or ends the compilation with an error', 'vx_p > vx_p0 || vx_pushes + vx_pops > 0 || (vx_returned && *ec_p != 0)'),
    ('ensures', '[C13] a closing parenthesis after an operand closes the innermost open construct when there is one, and is the error unbalanced_parentheses otherwise',
     "vx_c == ')' ==> (vx_stack_size0 > 1 ? (vx_pops == 1 && !vx_returned && vx_stack_size == vx_stack_size0 - 1) : (vx_returned && *ec_p == jmespath_errc_unbalanced_parentheses && vx_pops == 0))"),
]
SPECS = [
    EnumSpec('jmespath_errc', 'include/jsoncons_ext/jmespath/jmespath_error.hpp'), EnumSpec('expr_state', J),
    FuncSpec('function_expression_step', J, r'jmespath_expression compile\(const char_type\* path, std::size_t length,\s*const jsoncons::jmespath::custom_functions<Json>& funcs,\s*std::error_code& ec\)', csig='void function_expression_step(int* ec_p)', contract=C, rules=RULES, aliases={'ec': '(*ec_p)'},
             slice_from=r'switch \(\*p_\)\s*\{\s*case \' \':case \'\\t\':case \'\\r\':case \'\\n\':\s*advance_past_space_character\(\);\s*break;\s*case \',\':\s*push_token\(lparen_arg', slice_to=r'break;\s*case expr_state::argument:'),
    FuncSpec('rhs_expression_step', J, r'jmespath_expression compile\(const char_type\* path, std::size_t length,\s*const jsoncons::jmespath::custom_functions<Json>& funcs,\s*std::error_code& ec\)', csig='void rhs_expression_step(int* ec_p)', contract=RC, rules=R_RULES, aliases={'ec': '(*ec_p)'},
             slice_from=r'(?<=case expr_state::rhs_expression:)\s*switch\(\*p_\)', slice_to=r'break;\s*case expr_state::comparator_expression:'),
    FuncSpec('multi_select_hash_step', J, r'jmespath_expression compile\(const char_type\* path, std::size_t length,\s*const jsoncons::jmespath::custom_functions<Json>& funcs,\s*std::error_code& ec\)', csig='void multi_select_hash_step(int* ec_p)', aliases={'ec': '(*ec_p)'},
             contract=[RC[0], RC[1], RC[3],
                       ('ensures', '[C13] after the opening brace of a multi-select hash a key must follow: a character that cannot start a key is the error expected_key, anything else starts a key-value pair that must be closed by a brace',
                        "(vx_c == '*' || vx_c == ']' || vx_c == '?' || vx_c == ':' || vx_c == '-' || (vx_c >= '0' && vx_c <= '9')) ? (vx_returned && *ec_p == jmespath_errc_expected_key) : (!vx_returned && vx_pushes == 1 && vx_pushed_state == expr_state_key_val_expr && vx_back_set == expr_state_expect_rbrace)")],
             rules=[(r'state_stack\.back\(\) = expr_state::(\w+);', r'vx_back_set = expr_state_\1;', 1), (r'state_stack\.push_back\(expr_state::(\w+)\);', r'vx_stack_push(expr_state_\1);', 1), (r'return jmespath_expression\{\};', '{ vx_returned = true; return; }', 0, 2),
                    (r'\*p_', 'vx_c', 1), (r'jmespath_errc::(\w+)', r'jmespath_errc_\1', 0, 2)],
             slice_from=r'(?<=case expr_state::multi_select_hash:)\s*switch\(\*p_\)', slice_to=r'break;\s*case expr_state::index_or_slice_expression:'),
]
HARNESSES = [Harness('multi_select_hash_step', 'h_multi_select_hash_step', enforce='multi_select_hash_step', method='LF', props=['C05', 'C13'], note='program slice: the switch of state multi_select_hash for an arbitrary character'),
             Harness('rhs_expression_step', 'h_rhs_expression_step', enforce='rhs_expression_step', method='LF', props=['C05', 'C13'], note='program slice: the switch of state rhs_expression for an arbitrary character and an arbitrary depth of the state stack'),
             Harness('function_expression_step', 'h_function_expression_step', enforce='function_expression_step', method='LF', props=['C05', 'C13'],
                     note='program slice: the switch of state function_expression for an arbitrary character; the other states of compile() are not under contract')]
