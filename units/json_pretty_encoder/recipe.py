# U-JENC-PRETTY: the pretty-printing JSON encoder's visit_* functions (same representation invariant and contracts as unit json_compact_encoder): each keeps the output a prefix of a well-formed RFC 8259 text (C08);
# value tokens themselves are proved in units json_escape (strings), integers (from_integer), write_double (doubles)
from core import FuncSpec, EnumSpec, Harness
E = 'include/jsoncons/json_encoder.hpp'
N = 40
AL = {'nesting_depth_': '(self->nesting_depth_)'}
PRETTY = [
    (r'column_ \+= [^;]+;', '', 0, N), (r'column_ >= options_\.line_length_limit\(\)', 'nondet_bool()', 0, N),
    (r'stack_\.back\(\)\.(?:is_multi_line|is_indent_once|new_line_after)\(\)', 'nondet_bool()', 0, N), (r'stack_\.back\(\)\.new_line_after\(true\);', '', 0, N), (r'stack_\.back\(\)\.set_position\(column_\);', '', 0, 2),
    (r'new_line\(stack_\.back\(\)\.data_pos\(\)\);', 'VX_WS();', 0, 2), (r'\b(?:new_line|break_line|indent|unindent)\(\);', 'VX_WS();', 0, N),
    (r'line_split_kind split_kind = [^;]+;', 'int split_kind = nondet_int();', 0, 4), (r'line_split_kind::(\w+)', r'line_split_kind_\1', 0, N),
    (r'stack_\.emplace_back\(container_type::(\w+),\s*[^;]+;', r'VX_STACK_EMPLACE(container_type_\1, 0);', 0, 12), (r'stack_\.back\(\)\.is_object\(\)', '(vx_top.type_ == container_type_object)', 0, N),
    (r'sink_\.append\(comma_str_\.data\(\),\s*comma_str_\.length\(\)\);', "VX_TOK(',');", 0, N), (r'sink_\.append\(colon_str_\.data\(\),\s*colon_str_\.length\(\)\);', "VX_TOK(':');", 0, 2),
    (r'sink_\.append\(open_brace_str_\.data\(\),\s*open_brace_str_\.length\(\)\);', "VX_TOK('{');", 0, 1), (r'sink_\.append\(close_brace_str_\.data\(\),\s*close_brace_str_\.length\(\)\);', "VX_TOK('}');", 0, 1),
    (r'sink_\.append\(open_bracket_str_\.data\(\),\s*open_bracket_str_\.length\(\)\);', "VX_TOK('[');", 0, 1), (r'sink_\.append\(close_bracket_str_\.data\(\),\s*close_bracket_str_\.length\(\)\);', "VX_TOK(']');", 0, 1),
    (r'JSONCONS_ASSERT\(!stack_\.empty\(\)\);', '__CPROVER_assert(vx_depth > 0, "[C05] JSONCONS_ASSERT(!stack_.empty())");', 0, 2),
    (r"sink_\.push_back\('\\\"'\);\s*std::size_t length = jsoncons::detail::escape_string\(name\.data\(\), name\.length\(\),options_\.escape_all_non_ascii\(\),options_\.escape_solidus\(\),sink_\);\s*sink_\.push_back\('\\\"'\);", 'VX_TOK_STRING_KEY();', 0, 1),
    (r'sink_\.append\((null_literal|true_literal|false_literal)\(\)\.data\(\), \1\(\)\.size\(\)\);', 'VX_TOK_VALUE();', 0, N),
    (r'std::size_t length = jsoncons::from_integer\(value, sink_\);', 'VX_TOK_VALUE();', 0, 1), (r'std::size_t length = fp_\(value, sink_\);', 'VX_TOK_VALUE();', 0, 1),
    (r'begin_scalar_value\(\);', 'begin_scalar_value(self, ec_p);', 0, 2), (r'(?<!void )end_value\(\);', 'end_value(self, ec_p);', 0, 2),
]
RULES = PRETTY + [
    (r'JSONCONS_VISITOR_RETURN;', 'return;', 0, 4),
    (r'options_\.max_nesting_depth\(\)', 'self->max_nesting_depth_', 0, 1),
    (r'json_errc::(\w+)', r'json_errc_\1', 0, 2), (r'(?<![.\w>])\bec = ', '(*ec_p) = ', 0, 2),
    (r'stack_\.empty\(\)', '(vx_depth == 0)', 0, N), (r'stack_\.back\(\)\.is_array\(\)', '(vx_top.type_ == container_type_array)', 0, N),
    (r'stack_\.back\(\)\.count\(\)', 'vx_top.index_', 0, N), (r'stack_\.back\(\)\.increment_count\(\);', 'vx_top.index_++;', 0, N),
    (r'stack_\.emplace_back\(container_type::(\w+)\);', r'VX_STACK_EMPLACE(container_type_\1, 0);', 0, 1), (r'stack_\.pop_back\(\);', 'VX_ENC_POP();', 0, 1),
    # a quoted string (member name): quote, escaped content (unit json_escape), quote -> one STRING token
    (r"sink_\.push_back\('\\\"'\);\s*jsoncons::detail::escape_string\(name\.data\(\), name\.length\(\),options_\.escape_all_non_ascii\(\),options_\.escape_solidus\(\),sink_\);\s*sink_\.push_back\('\\\"'\);", 'VX_TOK_STRING_KEY();', 0, 1),
    (r"sink_\.push_back\('([,:{}\[\]])'\);", r"VX_TOK('\1');", 0, N),
    # value tokens (their text is proved in other units)
    (r'sink_\.append\((null_literal|true_literal|false_literal)\(\)\.data\(\), \1\(\)\.size\(\)\);', 'VX_TOK_VALUE();', 0, N),
    (r'sink_\.append\(options_\.(\w+)\(\)\.data\(\), options_\.\1\(\)\.length\(\)\);', 'VX_TOK_VALUE();', 0, N),
    (r'write_string\(options_\.\w+\(\), semantic_tag::none, context, ec\);', 'VX_TOK_VALUE();', 0, N),
    (r'write_string\(sv, tag, context, ec\);', 'VX_TOK_VALUE();', 0, 1),
    (r'jsoncons::from_integer\(value, sink_\);', 'VX_TOK_VALUE();', 0, 1), (r'fp_\(value, sink_\);', 'VX_TOK_VALUE();', 0, 1),
    (r'options_\.enable_(\w+)\(\)', r'nondet_bool()', 0, N),
    (r'!std::isfinite\(value\)', '(__CPROVER_isnand(value) || __CPROVER_isinfd(value))', 0, 1), (r'\(std::isnan\)\(value\)', '__CPROVER_isnand(value)', 0, 1),
    (r'std::numeric_limits<double>::infinity\(\)', '__builtin_inf()', 0, 1),
]
# (a container never holds 2^64-1 members: the element counter does not wrap; listed as an assumption)
REQ_I = 'VX_I() && *ec_p == 0 && vx_toks == 0 && vx_bytes_toks == 0 && vx_top.index_ < SIZE_MAX'
ASG = '*ec_p, vx_bytes_toks, vx_bytes_fmt, vx_ws, self->nesting_depth_, vx_depth, vx_top, vx_pushes, vx_pops, vx_m_kind, vx_m_st, vx_m_depth, vx_below_kind, vx_bad, vx_toks'
def value_contract(what):
    return [('requires', REQ_I), ('requires', 'vx_value_may_follow()'), ('assigns', ASG),
            ('ensures', '[C08] %s: the output stays a prefix of a well-formed JSON text (a comma is written exactly between the elements of an array), the representation invariant is kept' % what, 'VX_I()'),
            ('ensures', '[C08] exactly one value is written, preceded by a comma iff it is not the first element of its array', 'vx_m_st == S_AFTER_VALUE && vx_toks >= 1 && vx_toks <= 2 && vx_depth == __CPROVER_old(vx_depth)')]
def begin_contract(kind, k):
    return [('requires', REQ_I + ' && self->max_nesting_depth_ >= 0 && self->max_nesting_depth_ < INT_MAX'), ('requires', 'vx_value_may_follow()'), ('assigns', ASG),
            ('ensures', '[C10][C08] a container that would exceed max_nesting_depth is refused before anything is written', '__CPROVER_old(self->nesting_depth_) >= self->max_nesting_depth_ ==> (*ec_p == json_errc_max_nesting_depth_exceeded && vx_toks == 0 && vx_pushes == 0)'),
            ('ensures', '[C10][C08] otherwise the %s is opened: the output stays a prefix of a well-formed JSON text, invariant kept one level deeper' % kind,
             '__CPROVER_old(self->nesting_depth_) < self->max_nesting_depth_ ==> (*ec_p == 0 && VX_I() && vx_depth == __CPROVER_old(vx_depth) + 1 && vx_m_kind == %s && vx_m_st == S_EMPTY)' % k)]
def end_contract(kind, k):
    return [('requires', REQ_I), ('requires', 'vx_m_kind == %s && (vx_m_st == S_EMPTY || vx_m_st == S_AFTER_VALUE)' % k), ('assigns', ASG),
            ('ensures', '[C08] closing the %s: the bracket matches, the container counts as one value of the enclosing frame, invariant kept one level up' % kind,
             'VX_I() && vx_depth == __CPROVER_old(vx_depth) - 1 && vx_m_st == S_AFTER_VALUE && vx_toks == 1')]
KEY = [('requires', REQ_I), ('requires', 'vx_m_kind == K_OBJECT && (vx_m_st == S_EMPTY || vx_m_st == S_AFTER_VALUE)'), ('assigns', ASG),
       ('ensures', '[C08] a member name: comma iff not the first member, then the quoted name and a colon; the object now expects the value', 'VX_I() && vx_m_st == S_AFTER_COLON && vx_depth == __CPROVER_old(vx_depth)')]
# ---- visit_byte_string: which of the three RFC 4648 writers is used (option > tag hint > base64url) and that one quoted token is written
BYTES_RULES = [
    (r'jsoncons::detail::resolve_byte_string_chars_format\(options_\.byte_string_format\(\),', 'resolve_byte_string_chars_format(self->byte_string_format_,', 1),
    (r'byte_string_chars_format (encoding_hint|format)\b', r'int \1', 2),
    (r'byte_string_chars_format::(\w+)', r'byte_string_chars_format_\1', 0, 12), (r'semantic_tag::(\w+)', r'semantic_tag_\1', 3),
    (r"sink_\.push_back\('\\\"'\);\s*(?:std::size_t length = )?bytes_to_(base16|base64|base64url)\(b\.begin\(\),\s*b\.end\(\),\s*sink_\);\s*sink_\.push_back\('\\\"'\);", r'VX_TOK_BYTES(byte_string_chars_format_\1);', 3),
]
WANT = ('((self->byte_string_format_ == byte_string_chars_format_base16 || self->byte_string_format_ == byte_string_chars_format_base64 || self->byte_string_format_ == byte_string_chars_format_base64url) ? self->byte_string_format_ : '
        'tag == semantic_tag_base16 ? byte_string_chars_format_base16 : tag == semantic_tag_base64 ? byte_string_chars_format_base64 : byte_string_chars_format_base64url)')
BYTES = value_contract('a byte string') + [
    ('ensures', '[C08] a byte string is written as one quoted string produced by exactly one of the RFC 4648 writers: the one the byte_string_format option names, else the one the tag hints at (base16, base64, base64url), else base64url',
     'vx_bytes_toks == 1 && vx_bytes_fmt == %s' % WANT)]
RESOLVE = [('assigns', ''),
           ('ensures', '[C08][C05] the first of (format1, format2) that names an encoding wins, otherwise the default; the result is never none when the default is an encoding',
            '__CPROVER_return_value == ((format1 == byte_string_chars_format_base16 || format1 == byte_string_chars_format_base64 || format1 == byte_string_chars_format_base64url) ? format1 : '
            '(format2 == byte_string_chars_format_base16 || format2 == byte_string_chars_format_base64 || format2 == byte_string_chars_format_base64url) ? format2 : default_format)')]
def V(name, anchor, csig, contract, extra=()):
    return FuncSpec(name, E, anchor, ordinal=0, count=2, csig=csig, contract=contract, aliases=AL, rules=list(extra) + RULES)
VISITS = [
    V('visit_begin_object', r'visit_begin_object\(semantic_tag, const ser_context&, std::error_code& ec\) final', 'void visit_begin_object(struct pretty_encoder* self, int* ec_p)', begin_contract('object', 'K_OBJECT')),
    V('visit_end_object', r'visit_end_object\(const ser_context&, std::error_code&\) final', 'void visit_end_object(struct pretty_encoder* self, int* ec_p)', end_contract('object', 'K_OBJECT')),
    V('visit_begin_array', r'visit_begin_array\(semantic_tag, const ser_context&, std::error_code& ec\) final', 'void visit_begin_array(struct pretty_encoder* self, int* ec_p)', begin_contract('array', 'K_ARRAY')),
    V('visit_end_array', r'visit_end_array\(const ser_context&, std::error_code&\) final', 'void visit_end_array(struct pretty_encoder* self, int* ec_p)', end_contract('array', 'K_ARRAY')),
    V('visit_key', r'visit_key\(const string_view_type& name, const ser_context&, std::error_code&\) final', 'void visit_key(struct pretty_encoder* self, int* ec_p)', KEY),
    V('visit_null', r'visit_null\(semantic_tag, const ser_context&, std::error_code&\) final', 'void visit_null(struct pretty_encoder* self, int* ec_p)', value_contract('null')),
    V('visit_string', r'visit_string\(const string_view_type& sv, semantic_tag tag, const ser_context& context, std::error_code& ec\) final', 'void visit_string(struct pretty_encoder* self, int* ec_p)', value_contract('a string')),
    V('visit_double', r'visit_double\(double value,\s*semantic_tag,\s*const ser_context& context,\s*std::error_code& ec\) final', 'void visit_double(struct pretty_encoder* self, double value, int* ec_p)', value_contract('a double (NaN and infinities are replaced by null or the configured substitute)')),
    V('visit_int64', r'visit_int64\(int64_t value,\s*semantic_tag,\s*const ser_context&,\s*std::error_code&\) final', 'void visit_int64(struct pretty_encoder* self, int64_t value, int* ec_p)', value_contract('a signed integer')),
    V('visit_uint64', r'visit_uint64\(uint64_t value,\s*semantic_tag,\s*const ser_context&,\s*std::error_code&\) final', 'void visit_uint64(struct pretty_encoder* self, uint64_t value, int* ec_p)', value_contract('an unsigned integer')),
    V('visit_bool', r'visit_bool\(bool value, semantic_tag, const ser_context&, std::error_code&\) final', 'void visit_bool(struct pretty_encoder* self, bool value, int* ec_p)', value_contract('a boolean')),
    V('visit_byte_string', r'visit_byte_string\(const byte_string_view& b,\s*semantic_tag tag,\s*const ser_context&,\s*std::error_code&\) final', 'void visit_byte_string(struct pretty_encoder* self, uint8_t tag, int* ec_p)', BYTES, extra=BYTES_RULES),
]
HELP_ASG = ('assigns', ASG)
SPECS = [EnumSpec('json_errc', 'include/jsoncons/json_error.hpp'), EnumSpec('semantic_tag', 'include/jsoncons/semantic_tag.hpp'), EnumSpec('byte_string_chars_format', 'include/jsoncons/json_options.hpp'),
         FuncSpec('resolve_byte_string_chars_format', 'include/jsoncons/json_encoders.hpp', r'byte_string_chars_format resolve_byte_string_chars_format\(byte_string_chars_format format1,', count=1,
                  csig='static int resolve_byte_string_chars_format(int format1, int format2, int default_format)', contract=RESOLVE, rules=[(r'byte_string_chars_format::(\w+)', r'byte_string_chars_format_\1', 6), (r'byte_string_chars_format sink;', 'int sink;', 1)]), EnumSpec('line_split_kind', 'include/jsoncons/json_options.hpp'),
         FuncSpec('begin_scalar_value', E, r'void begin_scalar_value\(\)', count=1, csig='static void begin_scalar_value(struct pretty_encoder* self, int* ec_p)', aliases=AL, rules=RULES),
         FuncSpec('end_value', E, r'void end_value\(\)', count=1, csig='static void end_value(struct pretty_encoder* self, int* ec_p)', aliases=AL, rules=RULES)]
SITE_CHECKS = [
    {'file': E, 'pattern': r'void (?:indent|unindent)\(\)\s*\{\s*indent_amount_ [+-]= static_cast<\w+>\(options_\.indent_size\(\)\);\s*\}', 'count': 2, 'props': ['C01', 'C08'], 'what': 'indent() / unindent() only change the indentation amount'},
]
GROUPS = {'visits': VISITS}
HARNESSES = [Harness(v.name, 'h_' + v.name, enforce=v.name, method='LF', props=['C08', 'C01'] + (['C10'] if 'begin' in v.name else []),
                     note='first definition of the name in json_encoder.hpp = basic_json_encoder, the pretty-printing encoder; new_line / break_line / indent enter as white-space events') for v in VISITS]
