# U-UB-READ (C07): ubjson_parser::read_value / read_type_and_value against UBJSON draft 12 (value types and their payloads)
from core import FuncSpec, CopySpec, EnumSpec, DeclSpec, Harness
import common_specs as cs
import units as _u
_ub = _u.load_unit('ubjson')
P = 'include/jsoncons_ext/ubjson/ubjson_parser.hpp'
TY = 'include/jsoncons_ext/ubjson/ubjson_type.hpp'
AL = {'ec': '(*ec_p)', 'more_': '(self->more_)', 'cursor_mode_': '(self->cursor_mode_)'}
N = 40
RULES = [
    (r'(jsoncons::ubjson::)?ubjson_type::(\w+)', r'ubjson_type_\2', 0, N), (r'ubjson_errc::(\w+)', r'ubjson_errc_\1', 0, N), (r'semantic_tag::(\w+)', r'semantic_tag_\1', 0, N),
    (r'source_\.is_error\(\)', 'vx_src_error', 0, 1), (r'source_\.read\(', 'vx_source_read(', 0, N),
    (r'binary::big_to_native<(u?)int(8|16|32|64)_t>\(', r'(\1int\2_t)big_to_native_u\2(', 0, 8),
    (r'binary::big_to_native<float>\(', 'big_to_native_f32(', 0, 1), (r'binary::big_to_native<double>\(', 'big_to_native_f64(', 0, 1),
    (r'visitor\.null_value\(semantic_tag_none, \*this, ec\);', 'vx_ev(VX_EV_NULL, semantic_tag_none);', 0, 1),
    (r'visitor\.bool_value\(true, semantic_tag_none, \*this, ec\);', 'vx_ev(VX_EV_TRUE, semantic_tag_none);', 0, 1),
    (r'visitor\.bool_value\(false, semantic_tag_none, \*this, ec\);', 'vx_ev(VX_EV_FALSE, semantic_tag_none);', 0, 1),
    (r'visitor\.int64_value\(val, semantic_tag_none, \*this, ec\);', 'vx_ev(VX_EV_INT64, semantic_tag_none); vx_ev_i = val;', 0, 6),
    (r'visitor\.uint64_value\(b, semantic_tag_none, \*this, ec\);', 'vx_ev(VX_EV_UINT64, semantic_tag_none); vx_ev_u = b;', 0, 1),
    (r'visitor\.double_value\(val, semantic_tag_none, \*this, ec\);', 'vx_ev(VX_EV_DOUBLE, semantic_tag_none); vx_ev_d = val;', 0, 2),
    (r'uint8_t ch\{\};', 'uint8_t ch = 0;', 0, 1),
    # a single code unit is valid UTF-8 exactly when it is ASCII (unit utf8, is_legal_utf8 / validate)
    (r'auto result = unicode_traits::validate\(&ch, 1\);', 'bool vx_ok = ch < 0x80;', 0, 1),
    (r'visitor\.string_value\(string_view\(reinterpret_cast<const char\*>\(&ch\), 1\), semantic_tag_none, \*this, ec\);', 'vx_ev(VX_EV_STRING, semantic_tag_none); vx_ev_len = 1; vx_ev_ch = ch;', 0, 1),
    (r'get_length\(ec\)', 'get_length((struct ubjson_parser_len*)self, ec_p)', 0, 2),
    (r'auto data = source_\.read_span\(length, text_buffer_\);', 'size_t vx_data_size = vx_source_read_span(length);', 0, 2), (r'data\.size\(\)', 'vx_data_size', 0, 8),
    (r'auto result = unicode_traits::validate\(data\.data\(\), vx_data_size\);', 'bool vx_ok = vx_utf8_ok;', 0, 1),
    (r'result\.ec != unicode_traits::unicode_errc\(\)', '!vx_ok', 0, 2),
    (r'jsoncons::is_base10\(data\.data\(\), vx_data_size\)', 'vx_base10', 0, 1),
    (r'visitor\.string_value\(jsoncons::string_view\(reinterpret_cast<const char\*>\(data\.data\(\)\),\s*vx_data_size\),\s*semantic_tag_(\w+), \*this, ec\);', r'vx_ev(VX_EV_STRING, semantic_tag_\1); vx_ev_len = vx_data_size;', 0, 3),
    (r'begin_array\(visitor,\s*ec\);', 'vx_begin_array(self, ec_p);', 0, 1), (r'begin_object\(visitor,\s*ec\);', 'vx_begin_object(self, ec_p);', 0, 1),
    (r'read_value\(visitor, b, ec\);', 'read_value(self, b, ec_p);', 0, 1),
]
P0 = '__CPROVER_old(vx_src_pos)'
AV = '(vx_src_n - %s)' % P0
NB = 'spec_ub_int_size(type)'
NOEV = '(vx_events == 0 && vx_array_calls == 0 && vx_object_calls == 0)'
ONE = lambda k: '(vx_events == 1 && vx_ev_kind == %s && vx_ev_tag == semantic_tag_none && *ec_p == 0)' % k
ISINT = "(type == 'i' || type == 'U' || type == 'I' || type == 'l' || type == 'L')"
READ_VALUE = [
    ('requires', 'vx_src_pos <= vx_src_n && vx_src_n <= VX_SRC_CAP - 12 && *ec_p == 0 && vx_events == 0 && vx_array_calls == 0 && vx_object_calls == 0 && self->more_'),
    ('assigns', 'vx_src_pos, *ec_p, self->more_, vx_events, vx_ev_kind, vx_ev_tag, vx_ev_u, vx_ev_i, vx_ev_d, vx_ev_len, vx_ev_ch, vx_array_calls, vx_object_calls, vx_dec_ok'),
    ('ensures', '[C07] Z, T, F: null, true, false; N (no-op) delivers nothing and is no error',
     "(type == 'Z' ==> %s) && (type == 'T' ==> %s) && (type == 'F' ==> %s) && (type == 'N' ==> (%s && *ec_p == 0))" % (ONE('VX_EV_NULL'), ONE('VX_EV_TRUE'), ONE('VX_EV_FALSE'), NOEV)),
    ('ensures', '[C07][C06] i, U, I, l, L: the payload (1, 1, 2, 4, 8 bytes, big endian, two\'s complement; U unsigned) is delivered as one integer event with exactly that value, exactly the payload consumed',
     '(%s && %s >= (size_t)%s) ==> (*ec_p == 0 && vx_events == 1 && vx_src_pos == %s + (size_t)%s && (type == \'U\' ? (vx_ev_kind == VX_EV_UINT64 && vx_ev_u == (uint64_t)spec_ub_int_payload_value(type, &vx_src[%s])) : (vx_ev_kind == VX_EV_INT64 && vx_ev_i == spec_ub_int_payload_value(type, &vx_src[%s]))))'
     % (ISINT, AV, NB, P0, NB, P0, P0)),
    ('ensures', '[C07][C03] a truncated integer or float payload is unexpected_eof, nothing delivered',
     "((%s && %s < (size_t)%s) || (type == 'd' && %s < 4) || (type == 'D' && %s < 8) || (type == 'C' && %s < 1)) ==> (*ec_p == ubjson_errc_unexpected_eof && %s && !self->more_)" % (ISINT, AV, NB, AV, AV, AV, NOEV)),
    ('ensures', '[C07][C06] d / D: float32 / float64 big endian, one double event (float32 widened exactly)',
     "((type == 'd' && %s >= 4) ==> (%s && vx_src_pos == %s + 4 && (vx_bits32((float)vx_ev_d) == (uint32_t)vx_src_be(%s, 4) || vx_ev_d != vx_ev_d))) && ((type == 'D' && %s >= 8) ==> (%s && vx_src_pos == %s + 8 && vx_bits64(vx_ev_d) == vx_src_be(%s, 8)))"
     % (AV, ONE('VX_EV_DOUBLE'), P0, P0, AV, ONE('VX_EV_DOUBLE'), P0, P0)),
    ('ensures', '[C07] C: one character; it is delivered as a one-character string only if it is valid UTF-8 on its own (ASCII), otherwise invalid_utf8_text_string',
     "(type == 'C' && %s >= 1) ==> (vx_src_at(%s) < 0x80 ? (%s && vx_ev_kind == VX_EV_STRING && vx_ev_len == 1 && vx_ev_ch == vx_src_at(%s)) : (*ec_p == ubjson_errc_invalid_utf8_text_string && %s))" % (AV, P0, ONE('VX_EV_STRING'), P0, NOEV)),
    ('ensures', '[C07] S: length (unit ubjson, get_length), then exactly that many bytes: complete and valid UTF-8 -> one string event of that length; incomplete -> unexpected_eof; invalid -> invalid_utf8_text_string',
     "(type == 'S' && *ec_p == 0) ==> (vx_events == 1 && vx_ev_kind == VX_EV_STRING && vx_ev_tag == semantic_tag_none && vx_utf8_ok && vx_ev_len <= vx_span_avail)"),
    ('ensures', '[C07] H: a high-precision number is delivered as its exact text, tagged bigint when it is a base-10 integer and bigdec otherwise',
     "(type == 'H' && *ec_p == 0) ==> (vx_events == 1 && vx_ev_kind == VX_EV_STRING && vx_ev_tag == (vx_base10 ? semantic_tag_bigint : semantic_tag_bigdec) && vx_ev_len <= vx_span_avail)"),
    ('ensures', '[C07] [ and { open an array / an object (and nothing else does)', "((vx_array_calls == 1) == (type == '[')) && ((vx_object_calls == 1) == (type == '{')) && vx_array_calls <= 1 && vx_object_calls <= 1"),
    ('ensures', '[C07] any other marker is unknown_type, nothing delivered',
     "(!%s && type != 'Z' && type != 'N' && type != 'T' && type != 'F' && type != 'd' && type != 'D' && type != 'C' && type != 'S' && type != 'H' && type != '[' && type != '{') ==> (*ec_p == ubjson_errc_unknown_type && %s && !self->more_)" % (ISINT, NOEV)),
    ('ensures', '[C07] an error stops the parser and never comes with a value event', '*ec_p != 0 ==> (vx_events == 0 && !self->more_)'),
    ('ensures', '[C05] the cursor stays within the input', 'vx_src_pos <= vx_src_n'),
]
RTV = [
    ('requires', 'vx_src_pos <= vx_src_n && vx_src_n <= VX_SRC_CAP - 12 && *ec_p == 0 && vx_events == 0 && vx_array_calls == 0 && vx_object_calls == 0 && self->more_'),
    ('assigns', 'vx_src_pos, *ec_p, self->more_, vx_events, vx_ev_kind, vx_ev_tag, vx_ev_u, vx_ev_i, vx_ev_d, vx_ev_len, vx_ev_ch, vx_array_calls, vx_object_calls, vx_dec_ok'),
    ('ensures', '[C07][C05] a source error or an empty input is reported, nothing delivered',
     '(vx_src_error ==> (*ec_p == ubjson_errc_source_error && %s && !self->more_)) && ((!vx_src_error && %s == 0) ==> (*ec_p == ubjson_errc_unexpected_eof && %s && !self->more_))' % (NOEV, AV, NOEV)),
    ('ensures', '[C07] otherwise the next byte is the type marker of the value that follows (integers: value of marker + payload)',
     "(!vx_src_error && %s >= 2 && vx_src_at(%s) == 'i') ==> (*ec_p == 0 && vx_events == 1 && vx_ev_kind == VX_EV_INT64 && vx_ev_i == (int8_t)vx_src_at(%s + 1) && vx_src_pos == %s + 2)" % (AV, P0, P0, P0)),
    ('ensures', '[C07] an error never comes with a value event', '*ec_p != 0 ==> (vx_events == 0 && !self->more_)'),
]
SPECS = [
    EnumSpec('ubjson_errc', 'include/jsoncons_ext/ubjson/ubjson_error.hpp'), EnumSpec('semantic_tag', 'include/jsoncons/semantic_tag.hpp'),
    CopySpec('ubjson_types', TY, r'JSONCONS_INLINE_CONSTEXPR uint8_t null_type', r"count_marker = '#';", include_end=True,
             rules=[(r'JSONCONS_INLINE_CONSTEXPR uint8_t (\w+) = ([^;]+);', r'enum { ubjson_type_\1 = \2 };', 15, 30)]),
    DeclSpec('get_length_decl', 'get_length', 'struct ubjson_parser_len { bool more_; };\nsize_t get_length(struct ubjson_parser_len* self, int* ec_p)', _ub.GET_LENGTH, 'ubjson'),
    FuncSpec('read_value', P, r'void read_value\(json_visitor& visitor, uint8_t type, std::error_code& ec\)', count=1, csig='void read_value(struct ubjson_parser* self, uint8_t type, int* ec_p)',
             contract=READ_VALUE, aliases=AL, rules=RULES),
    FuncSpec('read_type_and_value', P, r'void read_type_and_value\(json_visitor& visitor, std::error_code& ec\)', count=1, csig='void read_type_and_value(struct ubjson_parser* self, int* ec_p)',
             contract=RTV, aliases=AL, rules=RULES),
]
GROUPS = {'binary': cs.binary_group(widths=(8, 16, 32, 64)) + [cs.byte_swap_float(32), cs.byte_swap_float(64), cs.big_to_native_float(32), cs.big_to_native_float(64)]}
HARNESSES = [
    Harness('read_value', 'h_read_value', enforce='read_value', replace=['get_length'], method='LF', unwind=10, props=['C07', 'C06', 'C03']),
    Harness('read_type_and_value', 'h_read_type_and_value', enforce='read_type_and_value', replace=['read_value'], method='LF', unwind=24, props=['C07', 'C05']),
]
