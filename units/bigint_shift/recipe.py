# unit bigint_shift (C04, C05): basic_bigint::operator>>= and operator<<= - the limb loops, one arbitrary iteration each (step functions), against the
# definition of a shift on the little-endian sequence of 64-bit limbs; every machine shift in them has an amount below 64 (F33: x >>= 0)
from core import FuncSpec, Harness
B = 'include/jsoncons/utility/bigint.hpp'
COMMON = [
    (r'auto this_view = get_storage_view\(\);', '', 0, 1), (r'this_view = get_storage_view\(\);', '', 0, 2), (r'this_view\.size\(\)', 'vx_n', 0, 8),
    (r'this_view\[([^\]]+)\]', r'(*vx_at(\1))', 0, 12), (r'\bsize_type\(', '(size_t)(', 0, 6), (r'\bssize_type\b', 'int64_t', 0, 2), (r'\bsize_type\b', 'size_t', 0, 12), (r'word_type\(1\)', '((uint64_t)1)', 0, 3), (r'\bword_type\b', 'uint64_t', 0, 6),
    (r'\bword_type_bits\b', '((size_t)64)', 0, 8), (r'reduce\(\);', 'vx_reduce();', 0, 3), (r'return \*this;', 'return;', 0, 4),
]
SHR_RULES = [
    (r'memmove\( this_view\.data\(\), this_view\.data\(\)\+q, size_type\(\(this_view\.size\(\) - q\)\*sizeof\(word_type\)\) \);', 'vx_drop_low(q);', 1),
    (r'resize\( 0 \);', 'vx_resize(0);', 1), (r'resize\( size_type\(this_view\.size\(\) - q\) \);', 'vx_resize(vx_n - q);', 1),
    (r'for \(size_type i = 0; i <= n; i\+\+\)', 'size_t i = vx_i; if (i <= n && ++vx_steps)', 1),
] + COMMON
K0 = '(__CPROVER_old(k) % 64)'; Q0 = '(__CPROVER_old(k) / 64)'
SHR = [
    ('requires', 'vx_n0 == vx_n && vx_off == 0 && vx_steps == 0 && vx_reduces == 0 && vx_n <= SIZE_MAX / 16'),
    ('assigns', 'vx_n, vx_off, vx_steps, vx_reduces, vx_cell_i, vx_cell_i1, vx_touched_other'),
    ('ensures', '[C04] x >>= k drops the k / 64 low limbs; shifting out every limb leaves zero', '%s >= vx_n0 ? vx_n == 0 : (vx_n == vx_n0 - %s && vx_off == %s)' % (Q0, Q0, Q0)),
    ('ensures', '[C04] ... and limb i of the rest (any i: the iteration is arbitrary) becomes its own bits shifted right by k % 64 with the low k % 64 bits of limb i+1 above them; for k % 64 == 0 no limb changes',
     '(%s < vx_n0 && vx_i < vx_n && !vx_touched_other) ==> (%s == 0 ? (vx_cell_i == vx_old_i && vx_cell_i1 == vx_old_i1) : (vx_steps == 1 && vx_cell_i1 == vx_old_i1 && vx_cell_i == ((vx_old_i >> %s) | (vx_i + 1 < vx_n ? (vx_old_i1 << (64 - %s)) : 0))))' % (Q0, K0, K0, K0)),
    ('ensures', '[C04] the result is normalised (reduce) exactly once unless everything was shifted out', '%s < vx_n0 ==> vx_reduces == 1' % Q0),
]
SHLW = [
    ('requires', 'vx_n0 == vx_n && vx_off == 0 && vx_steps == 0 && vx_n <= SIZE_MAX / 16 && k / 64 <= SIZE_MAX / 16'),
    ('assigns', 'vx_n, vx_steps, vx_cell_i, vx_cell_i1, vx_touched_other, vx_lo_is_src'),
    ('ensures', '[C04] x <<= k first grows the number by k / 64 limbs and moves limb i - q to position i, filling the low q limbs with zero (any i: the iteration is arbitrary)',
     'vx_n == vx_n0 + k / 64 && ((k / 64 > 0 && vx_i < vx_n && !vx_touched_other) ==> (vx_steps == 1 && (vx_i < k / 64 ? vx_cell_i == 0 : (vx_lo_is_src && vx_cell_i == vx_old_src))))'),
]
K1 = '(k % 64)'
SHLB = [
    ('requires', 'vx_n0 == vx_n && vx_steps == 0 && vx_reduces == 0 && vx_n <= SIZE_MAX / 16 && k < 64'),
    ('assigns', 'vx_n, vx_steps, vx_reduces, vx_cell_i, vx_cell_i1, vx_old_i, vx_old_im1, vx_touched_other'),
    ('ensures', '[C04] ... then, for k % 64 != 0, one more limb is added and limb i becomes its own bits shifted left with the high k % 64 bits of limb i-1 below them (any i: the iteration is arbitrary; limbs are processed from the top so that limb i-1 is still the old one)',
     'k == 0 ? (vx_n == vx_n0 && vx_steps == 0) : (vx_n == vx_n0 + 1 && ((vx_i < vx_n && !vx_touched_other) ==> (vx_steps == 1 && vx_cell_i == ((vx_old_i << k) | (vx_i > 0 ? (vx_old_im1 >> (64 - k)) : 0)))))'),
    ('ensures', '[C04] the result is normalised once', 'vx_reduces == 1'),
]
SPECS = [
    FuncSpec('shr', B, r'basic_bigint& operator>>=\(size_type k\)', count=1, csig='void shr(size_t k)', contract=SHR, rules=SHR_RULES),
    FuncSpec('shl_words', B, r'basic_bigint& operator<<=\(size_type k\)', count=1, csig='void shl_words(size_t k)', contract=SHLW, slice_to=r'if \( k \)',
             rules=[(r'resize\(this_view\.size\(\) \+ q\);', 'vx_resize(vx_n + q);', 1), (r'for \(size_type i = this_view\.size\(\); i-- > 0; \)', 'size_t i = vx_i; if (i < vx_n && ++vx_steps)', 1),
                    (r'this_view\[i\s*-\s*q\]', '(*vx_at_src(i - q, q))', 1)] + COMMON),
    FuncSpec('shl_bits', B, r'basic_bigint& operator<<=\(size_type k\)', count=1, csig='void shl_bits(size_t k)', contract=SHLB, slice_from=r'if \( k \)',
             rules=[(r'resize\( this_view\.size\(\) \+ 1 \);', 'vx_resize_top_zero(vx_n + 1);', 1), (r'for \(size_type i = this_view\.size\(\); i-- > 0; \)', 'size_t i = vx_i; if (i < vx_n && ++vx_steps)', 1),
                    (r'this_view\[i-1\]', '(*vx_at_below(i-1))', 1)] + COMMON),
]
HARNESSES = [
    Harness('shr', 'h_shr', enforce='shr', method='LF', props=['C04', 'C05'], note='the loop over the limbs is replaced by one iteration with an arbitrary index (step function); the limbs it reads and writes are two ghost cells'),
    Harness('shl_words', 'h_shl_words', enforce='shl_words', method='LF', props=['C04', 'C05'], note='first loop of operator<<= (whole limbs), one arbitrary iteration; slice up to the bit part'),
    Harness('shl_bits', 'h_shl_bits', enforce='shl_bits', method='LF', props=['C04', 'C05'], note='second loop of operator<<= (bits), one arbitrary iteration; slice from the bit part; k is the remainder k % 64 here'),
]
