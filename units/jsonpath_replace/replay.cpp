// replay for unit jsonpath_replace: json_replace with a temporary and with a moved named value (a json lvalue is not accepted by the overload set), of every storage kind (inline scalar, short string, long string, array,
// object), on expressions that select 0, 1 and several nodes (wildcard, union with a duplicate, descendants, filter): afterwards exactly the selected nodes -
// the ones the path query returns - hold the new value and every other node is unchanged.
#include <jsoncons/json.hpp>
#include <jsoncons_ext/jsonpath/jsonpath.hpp>
#include <jsoncons_ext/jsonpointer/jsonpointer.hpp>
#include "replay_util.hpp"
using namespace jsoncons;
int main(int argc, char** argv)
{
    if (argc < 3) return 2;
    const json doc = json::parse(R"({"a":[1,2,3],"b":{"c":"x","d":[4,{"e":5}]},"f":"long enough not to be stored inline in the value itself"})");
    const char* exprs[] = {"$.a[*]", "$.a[0,0,1]", "$..e", "$.b.*", "$.a[?(@ > 1)]", "$.zz", "$.f", "$.a[::-1]", "$.b.d[*]"};
    const json values[] = {json(7), json("s"), json("a long string that is certainly not stored inline in the value"), json::parse("[1,[2]]"), json::parse(R"({"k":"v"})"), json::null()};
    int bad = 0, total = 0; std::string first;
    for (const char* e : exprs) for (const json& nv : values) for (int rvalue = 0; rvalue < 2; ++rvalue) {
        ++total; json d = doc; json paths = jsonpath::json_query(doc, e, jsonpath::result_options::path | jsonpath::result_options::nodups);
        if (rvalue) jsonpath::json_replace(d, e, json(nv)); else { json named = nv; jsonpath::json_replace(d, e, std::move(named)); }
        json want = doc; for (const auto& p : paths.array_range()) jsonpath::json_replace(want, p.as<std::string>(), json(nv));   // one node per call: a normalized path selects exactly one node
        // (paths are replaced outermost-last by jsoncons (sort_descending); with these expressions no selected node lies inside another one)
        if (d != want) { if (!bad) first = std::string("json_replace(") + e + ", " + nv.to_string().substr(0, 30) + (rvalue ? " as a temporary" : " as a moved named value") + ") gives " + d.to_string().substr(0, 200); ++bad; }
    }
    if (bad) VX_REPRO(bad << " of " << total << " replacements leave the document different from 'the selected nodes hold the new value', first: " << first);
    VX_NOREPRO("all " << total << " replacements give exactly the selected nodes the new value");
}
