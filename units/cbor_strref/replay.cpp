// replay for unit cbor_strref: builds a document that brings the real encoder to the counterexample state
// (text_count registered text strings, bytes_count registered byte strings), then writes a string of the counterexample
// length several times, encodes with pack_strings and decodes with the real decoder; the round trip must be the identity.
#include <jsoncons/json.hpp>
#include <jsoncons_ext/cbor/cbor.hpp>
#include "replay_util.hpp"
using namespace jsoncons;
int main(int argc, char** argv)
{
    if (argc < 3) return 2;
    std::string h = argv[1];
    vx_replay_inputs in; if (!in.load(argv[2])) return 2;
    size_t tc = in.u64("vx_text_count"), bc = in.u64("vx_bytes_count"), len = in.u64("vx_len", in.u64("return_value_nondet_size", 3));
    if (tc > 100000 || bc > 100000 || len > 100000) VX_NOREPRO("counterexample not minimised (" << tc << " text, " << bc << " byte strings, length " << len << ")");
    json doc(json_array_arg);
    auto mk = [](size_t i, size_t l, char base) { std::string s(l, base); std::string d = std::to_string(i); for (size_t k = 0; k < d.size() && k < l; ++k) s[l - 1 - k] = d[d.size() - 1 - k]; return s; };
    for (size_t i = 0; i < bc; ++i) { std::string s = mk(i, 12, 'b'); doc.push_back(json(byte_string_arg, byte_string_view((const uint8_t*)s.data(), s.size()))); }
    for (size_t i = 0; i < tc; ++i) doc.push_back(mk(i, 12, 't'));
    bool bytes = (h != "write_string");
    for (int rep = 0; rep < 3; ++rep) {
        for (int v = 0; v < 2; ++v) {
            std::string s = mk(v, len, v ? 'q' : 'p');
            if (bytes) doc.push_back(json(byte_string_arg, byte_string_view((const uint8_t*)s.data(), s.size()))); else doc.push_back(s);
        }
    }
    doc.push_back("tail-string-0001"); doc.push_back("tail-string-0001"); doc.push_back("tail-string-0002"); doc.push_back("tail-string-0002");
    std::vector<uint8_t> out;
    auto opts = cbor::cbor_options{}.pack_strings(true);
    try {
        cbor::encode_cbor(doc, out, opts);
        json back = cbor::decode_cbor<json>(out);
        if (back != doc) VX_REPRO("pack_strings round trip differs with " << tc << " text + " << bc << " byte strings registered and a string of length " << len);
    } catch (const std::exception& e) {
        VX_REPRO("pack_strings round trip fails (" << e.what() << ") with " << tc << " text + " << bc << " byte strings registered and a string of length " << len);
    }
    VX_NOREPRO("round trip ok");
}
