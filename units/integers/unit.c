/* unit integers: decimal text <-> 64-bit integers */
#define VX_SINK_CAP 24
#include "vx_common.h"
#include "model_sink.h"
#include "spec_int.h"

enum { VX_ERRC_ok = 0, VX_ERRC_invalid_argument = 22 /* EINVAL */, VX_ERRC_result_out_of_range = 34 /* ERANGE */ };
struct to_number_result { const char* ptr; int ec; };
static struct to_number_result vx_mk_result(const char* p, int ec) { struct to_number_result r; r.ptr = p; r.ec = ec; return r; }

static uint64_t vx_spec_v;
/* ghost binding for dec_to_integer (see recipe) */
static const char* vx_s; static size_t vx_len, vx_k; static bool vx_neg;
/* lockstep Horner ghost: vx_h = value of the first vx_h_i characters of vx_s (128 bit, cannot wrap for <= 24 digits) */
static spec_u128 vx_h; static size_t vx_h_i;
#define VX_H_DIGIT() ((spec_u128)(unsigned char)(vx_s[vx_h_i] - 48))
#define VX_H_TIMES10(h) (((h) << 3) + ((h) << 1))   /* 10*h, written with shifts: cheaper to bit-blast at 128 bits */
#define VX_H_BOUND() (vx_h_i <= 19 ? vx_h < (spec_u128)SPEC_POW10[vx_h_i] : 1)
#ifdef VX_CBMC
/* one induction step: the code has just folded character vx_h_i into num */
#ifndef VX_H_lemma_int_rt
#define VX_H_STEP(num) do { \
    __CPROVER_assert(vx_h_i < vx_len && VX_H_DIGIT() <= 9, "[C04] ghost: the code folds in only decimal digits, in order"); \
    vx_h = VX_H_TIMES10(vx_h) + VX_H_DIGIT(); vx_h_i++; \
    __CPROVER_assert((spec_u128)(num) == vx_h && VX_H_BOUND(), "[C04][C01] ghost induction step: num == Horner value of the characters consumed (< 10^i, no wrap)"); \
    __CPROVER_assume((spec_u128)(num) == vx_h && VX_H_BOUND()); } while (0)
#else
/* in the round-trip lemma only the position counter and the lemma's own induction step are needed (the Horner facts are proved in dec_u64) */
#define VX_H_STEP(num) do { vx_h_i++; VX_H_LEMMA(num); } while (0)
#endif
/* L-INT-RT only: after folding in j = vx_h_i most significant digits of from_integer's output, num == |v| / 10^(n-j) == vx_gv[n-j] */
#ifdef VX_H_lemma_int_rt
#define VX_H_LEMMA(num) do { if (vx_rt_active && vx_h_i <= vx_g_n && vx_g_n <= 20) { \
    __CPROVER_assert((num) == vx_gv[vx_g_n - vx_h_i], "[C04][C01] L-INT-RT induction step: the digits read back so far denote |v| / 10^(remaining digits)"); \
    __CPROVER_assume((num) == vx_gv[vx_g_n - vx_h_i]); } } while (0)
#else
#define VX_H_LEMMA(num)
#endif
static bool vx_rt_active;
/* the 20th digit: the ghost folds it in before the code's overflow checks */
#ifndef VX_H_lemma_int_rt
#define VX_H_LAST() do { \
    __CPROVER_assert(vx_h_i == 19 && vx_h_i + 1 == vx_len && VX_H_DIGIT() <= 9, "[C04] ghost: the separately handled character is the 20th and last, a digit"); \
    vx_h = VX_H_TIMES10(vx_h) + VX_H_DIGIT(); vx_h_i++; } while (0)
#define VX_H_CHECK(num) do { __CPROVER_assert((spec_u128)(num) == vx_h, "[C04][C01] ghost: after the 20th digit num == Horner value (no wrap)"); } while (0)
#else
#define VX_H_LAST() do { vx_h_i++; } while (0)
#define VX_H_CHECK(num) VX_H_LEMMA(num)
#endif
#else
#define VX_H_STEP(num)
#define VX_H_LAST()
#define VX_H_CHECK(num)
#endif
/* Ghost record for from_integer (R6, ghost only): vx_gv[i] = |value| just before the digit of weight 10^i is generated,
 * vx_gd[i] = that digit, vx_gv[vx_g_n] = 0.  Each step asserts (and then assumes) the one-step fact
 *     vx_gv[i] == 10 * vx_gv[i+1] + vx_gd[i],  vx_gd[i] <= 9,  character i == '0' + vx_gd[i]
 * (the defining relation of truncating division, also for negative values), so that the round-trip lemma L-INT-RT is an
 * explicit induction of one-step obligations; no division or chained multiplication has to be re-derived by the solver. */
static uint64_t vx_gv[22]; static uint8_t vx_gd[22]; static unsigned vx_g_i, vx_g_n;
#define VX_MAG(v) ((v) < 0 ? (uint64_t)0 - (uint64_t)(v) : (uint64_t)(v))
#define VX_G_BEGIN(v) do { vx_g_i = 0; vx_g_n = 0; } while (0)
#ifdef VX_CBMC
/* The link fact of iteration k is proved in harness *_link_<k> (compiled with -DVX_K=k: asserted at iteration k, assumed at the others)
 * and assumed everywhere else: one division-uniqueness query per digit position instead of 20 in one formula (15 s each on SAT). */
#ifdef VX_K_ALL
#define VX_G_LINK_CHECK(cond) do { __CPROVER_assert(cond, "[C04][C01] ghost: |value| == 10 * |value / 10| + digit (truncating division, also for negative values)"); __CPROVER_assume(cond); } while (0)
#elif defined(VX_K)
#define VX_G_LINK_CHECK(cond) do { if (vx_g_i == VX_K) __CPROVER_assert(cond, "[C04][C01] ghost: |value| == 10 * |value / 10| + digit (truncating division, also for negative values)"); __CPROVER_assume(cond); } while (0)
#else
#define VX_G_LINK_CHECK(cond) __CPROVER_assume(cond)
#endif
#define VX_G_LINK(m) do { if (vx_g_i >= 1 && vx_g_i < 22) { \
    VX_G_LINK_CHECK(vx_gv[vx_g_i - 1] == 10 * (m) + vx_gd[vx_g_i - 1] && (m) <= UINT64_MAX / 10 && vx_gd[vx_g_i - 1] <= UINT64_MAX - 10 * (m)); } } while (0)
#define VX_G_DIGIT(v) do { uint64_t vx_m = VX_MAG(v); \
    __CPROVER_assert(vx_g_i < 20, "[C04] ghost: at most 20 digits are generated"); \
    VX_G_LINK(vx_m); \
    if (vx_g_i >= 1) { __CPROVER_assert(vx_m != 0, "[C04] ghost: a further digit is generated only while the value is non-zero (no leading zero)"); } \
    if (vx_g_i < 21) vx_gv[vx_g_i] = vx_m; \
    vx_g_i++; } while (0)
#define VX_G_CHAR(c) do { if (vx_g_i >= 1 && vx_g_i < 22) { \
    vx_gd[vx_g_i - 1] = (uint8_t)((unsigned char)(c) - 48); \
    __CPROVER_assert(vx_gd[vx_g_i - 1] <= 9, "[C04][C01][C08] ghost: every generated character is a decimal digit"); } } while (0)
#define VX_G_END(v) do { __CPROVER_assert((v) == 0, "[C04] ghost: the digit loop ends only when the value is exhausted"); \
    VX_G_LINK((uint64_t)0); if (vx_g_i < 22) vx_gv[vx_g_i] = 0; vx_g_n = vx_g_i; } while (0)
#else
#define VX_G_DIGIT(v)
#define VX_G_CHAR(c)
#define VX_G_END(v)
#endif
/*@COPY digit_tables@*/
/*@FUNC dec_to_integer_u64@*/
/*@FUNC dec_to_integer_i64@*/
/*@FUNC from_integer_i64@*/
/*@FUNC from_integer_u64@*/

#ifdef VX_CBMC
static char vx_buf[SPEC_INT_MAXLEN];
static void setup_dec(const char* s, size_t len)
{
    vx_s = s; vx_len = len; vx_h = 0; vx_h_i = 0;
    vx_k = spec_digit_prefix(s, len);
}
void h_dec_u64(void)
{
    size_t length = nondet_size(); uint64_t v = nondet_u64();
    __CPROVER_havoc_object(vx_buf);
    __CPROVER_assume(length <= SPEC_INT_MAXLEN);
    setup_dec(vx_buf, length); vx_neg = false;
    dec_to_integer_u64(vx_buf, length, &v);
}
void h_dec_i64(void)
{
    size_t length = nondet_size(); int64_t v = nondet_i64();
    __CPROVER_havoc_object(vx_buf);
    __CPROVER_assume(length <= SPEC_INT_MAXLEN);
    vx_neg = (length >= 1 && vx_buf[0] == '-');
    setup_dec(vx_buf + vx_neg, length - vx_neg);
    dec_to_integer_i64(vx_buf, length, &v);
}
void h_itoa_i64(void) { int64_t v = nondet_i64(); vx_sink_n = 0; from_integer_i64(v); }
void h_itoa_u64(void) { uint64_t v = nondet_u64(); vx_sink_n = 0; from_integer_u64(v); }
/* case split of the lemma on the number of digits n = 1..20 (one harness per n; together they cover every value) */
#ifdef VX_N
#define VX_CASE_N() __CPROVER_assume(vx_g_n == VX_N)
#else
#define VX_CASE_N() do { } while (0)
#endif
void h_int_rt(void)
{
    /* L-INT-RT: dec_to_integer(from_integer(v)) == v for all 2^64 bit patterns, real extracted bodies, explicit induction via the ghosts */
    bool is_signed = nondet_bool();
    vx_sink_n = 0; vx_rt_active = true;
    if (is_signed) {
        int64_t v = nondet_i64(); int64_t back = 0;
        size_t n = from_integer_i64(v);
        __CPROVER_assert(n == vx_sink_n && n <= 20, "[C04] from_integer returns the count");
        vx_neg = (vx_sink[0] == '-');
        __CPROVER_assert(vx_neg == (v < 0) && vx_g_n == vx_sink_n - vx_neg, "[C04] minus sign iff negative; one character per generated digit");
        VX_CASE_N();
        setup_dec((const char*)vx_sink + vx_neg, vx_sink_n - vx_neg);
        struct to_number_result r = dec_to_integer_i64((const char*)vx_sink, vx_sink_n, &back);
        __CPROVER_assert(r.ec == VX_ERRC_ok, "[C04][C01] L-INT-RT: the printed text is accepted");
        __CPROVER_assert(back == v, "[C04][C01] L-INT-RT: dec_to_integer<int64_t>(from_integer(v)) == v");
    } else {
        uint64_t u = nondet_u64(); uint64_t uback = 0;
        size_t n = from_integer_u64(u);
        vx_neg = false;
        __CPROVER_assert(vx_g_n == vx_sink_n, "[C04] one character per generated digit");
        VX_CASE_N();
        setup_dec((const char*)vx_sink, vx_sink_n);
        struct to_number_result r = dec_to_integer_u64((const char*)vx_sink, vx_sink_n, &uback);
        __CPROVER_assert(r.ec == VX_ERRC_ok, "[C04][C01] L-INT-RT: the printed text is accepted");
        __CPROVER_assert(uback == u, "[C04][C01] L-INT-RT: dec_to_integer<uint64_t>(from_integer(u)) == u");
    }
}
#endif
