// replay for unit source_reader: inputs that claim a huge string / byte string length but supply only a few bytes, read through stream and iterator
// sources (the payload begins exactly where the source's chunk is drained, and elsewhere); the largest single allocation request must stay small
#include <jsoncons/json.hpp>
#include <jsoncons_ext/cbor/cbor.hpp>
#include <jsoncons_ext/msgpack/msgpack.hpp>
#include "replay_util.hpp"
#include <sstream>
#include <list>
#include <new>
#include <cstdlib>
static size_t g_max = 0;
void* operator new(std::size_t n) { if (n > g_max) g_max = n; if (n > (size_t)1 << 28) throw std::bad_alloc(); void* p = std::malloc(n ? n : 1); if (!p) throw std::bad_alloc(); return p; }
void operator delete(void* p) noexcept { std::free(p); }
void operator delete(void* p, std::size_t) noexcept { std::free(p); }
using namespace jsoncons;
int main(int argc, char** argv)
{
    if (argc < 3) return 2;
    int bad = 0; std::string first;
    for (size_t pad : {(size_t)0, (size_t)1, (size_t)16384 - 7, (size_t)16384 - 6, (size_t)16384 - 5, (size_t)16384, (size_t)2 * 16384 - 6}) {
        for (int fmt = 0; fmt < 2; ++fmt) {
            // an array: [ "aaaa...a" (pad bytes), <byte string claiming 0x30000000 bytes with 10 bytes supplied> ]
            std::vector<uint8_t> doc;
            if (fmt == 0) { doc = {0x82, 0x7a, (uint8_t)(pad >> 24), (uint8_t)(pad >> 16), (uint8_t)(pad >> 8), (uint8_t)pad}; doc.insert(doc.end(), pad, 'a'); for (uint8_t b : {0x5a, 0x30, 0x00, 0x00, 0x00}) doc.push_back(b); }
            else { doc = {0x92, 0xdb, (uint8_t)(pad >> 24), (uint8_t)(pad >> 16), (uint8_t)(pad >> 8), (uint8_t)pad}; doc.insert(doc.end(), pad, 'a'); for (uint8_t b : {0xc6, 0x30, 0x00, 0x00, 0x00}) doc.push_back(b); }
            doc.insert(doc.end(), 10, 0x55);
            for (int src = 0; src < 2; ++src) {
                g_max = 0;
                try {
                    if (src == 0) { std::string s(doc.begin(), doc.end()); std::istringstream is(s); if (fmt == 0) cbor::decode_cbor<json>(is); else msgpack::decode_msgpack<json>(is); }
                    else { std::list<uint8_t> l(doc.begin(), doc.end()); if (fmt == 0) cbor::decode_cbor<json>(l.begin(), l.end()); else msgpack::decode_msgpack<json>(l.begin(), l.end()); }
                } catch (const std::exception&) {}
                if (g_max > doc.size() + (1u << 20)) { if (!bad) first = std::string(fmt ? "msgpack" : "cbor") + (src ? " iterator source" : " stream source") + ", payload after " + std::to_string(pad + 6) + " bytes: " + std::to_string(g_max) + " bytes requested for an input of " + std::to_string(doc.size()); ++bad; }
            }
        }
    }
    if (bad) VX_REPRO(bad << " decodes requested memory proportional to a length merely claimed by the input, first: " << first);
    VX_NOREPRO("allocation requests stay proportional to the bytes supplied");
}
