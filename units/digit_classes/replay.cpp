// replay for unit digit_classes: wide JSON text in which a non-ASCII code unit whose low byte is the code of a digit, sign, '.', 'e' or 'E' stands where the
// ASCII character could continue a number: every such text is outside RFC 8259 and must be rejected by the wchar_t parser.
#include <jsoncons/json.hpp>
#include "replay_util.hpp"
using namespace jsoncons;
int main(int argc, char** argv)
{
    if (argc < 3) return 2;
    int bad = 0, total = 0; std::string first;
    const std::wstring before[] = {L"[1", L"[-", L"[1.", L"[1.5", L"[1e", L"[1e+", L"[1e5", L"[0", L"{\"a\":12"};
    for (unsigned w = 0x100; w <= 0xFFFF; ++w) {
        unsigned lo = w & 0xFF; if (w >= 0xD800 && w <= 0xDFFF) continue;
        if (!((lo >= '0' && lo <= '9') || lo == 'e' || lo == 'E' || lo == '.' || lo == '+' || lo == '-')) continue;
        if (w % 7 != 0 && w > 0x600) continue;   // all of Latin/Greek/Cyrillic/Arabic, a seventh of the rest
        for (auto& b : before) {
            std::wstring text = b; text.push_back((wchar_t)w); text += (b[0] == L'{') ? L"}" : L"5]";
            ++total; std::error_code ec; json_decoder<wjson, std::allocator<char>> dec; wjson_string_reader reader(text, dec); reader.read(ec);
            if (!ec) { if (!bad) first = "wide text with U+" + std::to_string(w) + " (decimal) after position " + std::to_string(b.size()) + " was accepted"; ++bad; }
        }
    }
    if (bad) VX_REPRO(bad << " of " << total << " wide texts outside RFC 8259 were accepted, first: " << first);
    VX_NOREPRO("all " << total << " wide texts with a non-ASCII look-alike in a number are rejected");
}
