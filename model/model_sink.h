/* Ghost sink (DESIGN 3.3 R5): append-only, length counter, bounded content buffer. */
#ifndef VX_MODEL_SINK_H
#define VX_MODEL_SINK_H
#include "vx_common.h"
#ifndef VX_SINK_CAP
#define VX_SINK_CAP 24
#endif
static uint8_t vx_sink[VX_SINK_CAP];
static size_t vx_sink_n;
static void vx_sink_push(uint8_t c)
{
    if (vx_sink_n < VX_SINK_CAP) vx_sink[vx_sink_n] = c;
    vx_sink_n++;
}
#endif
