/* unit bson_encode (C06, C08, C10): the container framing and the integer writers of basic_bson_encoder against the BSON specification (bsonspec.org, version 1.1):
 *   document ::= int32 e_list "\x00"     (int32 = total number of bytes comprising the document, little endian, including itself and the terminator)
 *   e_list ::= element e_list | "";   element ::= type-byte e_name value;   e_name ::= cstring;   array = document whose names are "0", "1", ...
 *   "\x10" int32, "\x12" int64, "\x09" UTC datetime (int64 milliseconds since the epoch).
 * buffer_ is abstracted to its size and to the writes this unit cares about: the element type byte, back-patches (offset, value) and little-endian scalars
 * (value, width); byte order itself is proved for native_to_little in unit bson_read / cbor_head. */
#include "vx_common.h"
/*@ENUM bson_errc@*/
/*@ENUM bson_container_type@*/
/*@ENUM semantic_tag@*/
/*@COPY bson_types@*/
struct stack_item { int type_; size_t offset_, name_offset_, index_; };
struct bson_encoder { int nesting_depth_, max_nesting_depth_; };
static struct stack_item vx_top; static size_t vx_depth; static unsigned vx_pushes, vx_pops;
static size_t vx_bufsize;
/* writes of this call */
static unsigned vx_codes; static uint8_t vx_code; static bool vx_code_patched; static size_t vx_code_at;
static unsigned vx_patches; static size_t vx_patch_at; static uint32_t vx_patch_val;
static unsigned vx_scalars; static uint64_t vx_scalar; static int vx_scalar_width;
static uint8_t vx_subtype;
static unsigned vx_flushes, vx_terminators, vx_names; static size_t vx_name_index;
static unsigned vx_vals; static uint8_t vx_val; static unsigned vx_validations, vx_other_arms; static bool vx_utf8_ok;
static void vx_push_val(uint8_t b) { vx_vals++; vx_val = b; vx_bufsize++; }
static uint64_t vx_bits64(double f) { union { double f; uint64_t u; } x; x.f = f; return x.u; }
static void vx_push_byte(uint8_t b) { (void)b; vx_bufsize++; }
static void vx_put_le(uint64_t v, int width) { vx_scalars++; vx_scalar = v; vx_scalar_width = width; vx_bufsize += (size_t)width; }
static void vx_patch32(uint32_t v, size_t at) { __CPROVER_assert(at + 4 <= vx_bufsize, "[C05] the length is patched inside the buffer"); vx_patches++; vx_patch_at = at; vx_patch_val = v; }
static void vx_array_name(size_t index) { vx_names++; vx_name_index = index; size_t d = nondet_size(); __CPROVER_assume(d >= 1 && d <= 20); vx_bufsize += d; /* std::to_string(index): 1..20 decimal digits */ }
/* val / 1000000 (epoch_nano): constant division circuits are out of reach of the SAT back end here; the quotient is an opaque value with the sign and magnitude bounds of a quotient */
static uint64_t vx_div_in, vx_div_out;
static int64_t vx_div_nano_i(int64_t v) { int64_t q = nondet_i64(); __CPROVER_assume(v >= 0 ? (q >= 0 && q <= v) : (q <= 0 && q >= v)); vx_div_in = (uint64_t)v; vx_div_out = (uint64_t)q; return q; }
static uint64_t vx_div_nano_u(uint64_t v) { uint64_t q = nondet_u64(); __CPROVER_assume(q <= v); vx_div_in = v; vx_div_out = q; return q; }
#define VX_DIV_NANO(v) _Generic((v), int64_t: vx_div_nano_i, uint64_t: vx_div_nano_u)(v)
/*@FUNC before_value@*/
/*@FUNC visit_begin_object@*/
/*@FUNC visit_begin_array@*/
/*@FUNC visit_end_object@*/
/*@FUNC visit_end_array@*/
/*@FUNC visit_key@*/
/*@FUNC visit_byte_string@*/
/*@FUNC visit_byte_string_tagged@*/
/*@FUNC visit_null@*/
/*@FUNC visit_bool@*/
/*@FUNC visit_double@*/
/*@FUNC visit_string@*/
/*@FUNC visit_int64@*/
/*@FUNC visit_uint64@*/
#ifdef VX_CBMC
static struct bson_encoder vx_e; static int vx_ec;
static void setup(void)
{
    vx_e.nesting_depth_ = nondet_int(); vx_e.max_nesting_depth_ = nondet_int(); vx_depth = nondet_size(); vx_top.type_ = nondet_int(); vx_top.offset_ = nondet_size(); vx_top.name_offset_ = nondet_size(); vx_top.index_ = nondet_size();
    vx_bufsize = nondet_size(); vx_pushes = 0; vx_pops = 0; vx_codes = 0; vx_code_patched = false; vx_patches = 0; vx_scalars = 0; vx_flushes = 0; vx_terminators = 0; vx_names = 0; vx_ec = 0; vx_vals = 0; vx_validations = 0; vx_other_arms = 0; vx_utf8_ok = nondet_bool();
}
double nondet_double(void);
void h_before_value(void) { setup(); before_value(&vx_e, nondet_u8()); }
void h_visit_begin_object(void) { setup(); visit_begin_object(&vx_e, &vx_ec); }
void h_visit_begin_array(void) { setup(); visit_begin_array(&vx_e, &vx_ec); }
void h_visit_end_object(void) { setup(); visit_end_object(&vx_e, &vx_ec); }
void h_visit_end_array(void) { setup(); visit_end_array(&vx_e, &vx_ec); }
void h_visit_key(void) { setup(); visit_key(&vx_e, nondet_size()); }
void h_visit_byte_string(void) { setup(); visit_byte_string(&vx_e, nondet_size(), &vx_ec); }
void h_visit_byte_string_tagged(void) { setup(); visit_byte_string_tagged(&vx_e, nondet_size(), nondet_u64(), &vx_ec); }
void h_visit_null(void) { setup(); uint8_t t = nondet_u8(); visit_null(&vx_e, t, &vx_ec); }
void h_visit_bool(void) { setup(); bool b = nondet_bool(); visit_bool(&vx_e, b, &vx_ec); }
void h_visit_double(void) { setup(); double v = nondet_double(); visit_double(&vx_e, v, &vx_ec); }
void h_visit_string(void) { setup(); size_t n = nondet_size(); uint8_t t = nondet_u8(); visit_string(&vx_e, n, t, &vx_ec); }
static uint8_t vx_other_tag(void) { uint8_t t = nondet_u8(); __CPROVER_assume(t != semantic_tag_epoch_second && t != semantic_tag_epoch_milli && t != semantic_tag_epoch_nano); return t; }
void h_visit_int64_none(void) { setup(); visit_int64(&vx_e, nondet_i64(), vx_other_tag(), &vx_ec); }
void h_visit_int64_epoch_second(void) { setup(); visit_int64(&vx_e, nondet_i64(), semantic_tag_epoch_second, &vx_ec); }
void h_visit_int64_epoch_milli(void) { setup(); visit_int64(&vx_e, nondet_i64(), semantic_tag_epoch_milli, &vx_ec); }
void h_visit_int64_epoch_nano(void) { setup(); visit_int64(&vx_e, nondet_i64(), semantic_tag_epoch_nano, &vx_ec); }
void h_visit_uint64_none(void) { setup(); visit_uint64(&vx_e, nondet_u64(), vx_other_tag(), &vx_ec); }
void h_visit_uint64_epoch_second(void) { setup(); visit_uint64(&vx_e, nondet_u64(), semantic_tag_epoch_second, &vx_ec); }
void h_visit_uint64_epoch_milli(void) { setup(); visit_uint64(&vx_e, nondet_u64(), semantic_tag_epoch_milli, &vx_ec); }
void h_visit_uint64_epoch_nano(void) { setup(); visit_uint64(&vx_e, nondet_u64(), semantic_tag_epoch_nano, &vx_ec); }
#endif
