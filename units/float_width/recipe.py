# unit float_width: visit_double of the CBOR, MessagePack and UBJSON encoders - which width is chosen and that the item written denotes the value bit for bit (C06, C08)
from core import FuncSpec, CopySpec, EnumSpec, Harness, INF
import common_specs as cs

CE = 'include/jsoncons_ext/cbor/cbor_encoder.hpp'
ME = 'include/jsoncons_ext/msgpack/msgpack_encoder.hpp'
UE = 'include/jsoncons_ext/ubjson/ubjson_encoder.hpp'

COMMON = [
    (r'binary::native_to_big\(static_cast<uint8_t>\((0xf[ab])\),\s*std::back_inserter\(sink_\)\)', r'vx_sink_push((uint8_t)(\1))', 0, 2),
    (r'binary::native_to_big\(valf,\s*std::back_inserter\(sink_\)\)', 'native_to_big_f32(valf)', 1),
    (r'binary::native_to_big\(val,\s*std::back_inserter\(sink_\)\)', 'native_to_big_f64(val)', 1),
    (r'sink_\.push_back\(static_cast<uint8_t>\(jsoncons::ubjson::ubjson_type::float(32|64)_type\)\)', r'vx_sink_push(VX_UB_F\1)', 0, 2),
    (r'sink_\.push_back\(jsoncons::msgpack::msgpack_type::float(32|64)_type\)', r'vx_sink_push(VX_MP_F\1)', 0, 2),
    (r'JSONCONS_VISITOR_RETURN;', 'return;', 1),
    (r'end_value\(\);', 'vx_end_value();', 1),
    (r'semantic_tag::(\w+)', r'semantic_tag_\1', 0, 4),
    (r'write_tag\(1\);', 'vx_write_tag(1);', 0, 3),
    (r'val /= (millis_in_second|nanos_in_second);', r'val = vx_fdiv(val, \1);', 0, 2),
]
DEN = lambda m32, m64: 'spec_float_item(%s, %s, vx_sink, vx_sink_n, &vx_dec_ok)' % (m32, m64)
def contract(m32, m64, v='val'):
    return [
        ('requires', 'vx_sink_n == 0 && vx_items == 0'),
        ('assigns', 'vx_sink_n, __CPROVER_object_whole(vx_sink), vx_items, vx_dec_ok'),
        ('ensures', '[C06][C08] a double is written as one floating-point item, single or double precision, that denotes exactly the value: every bit for numbers (also -0.0, subnormals, infinities), a NaN as a NaN',
         '(vx_bits64(%s) == vx_bits64(%s) || (%s != %s && spec_isnan_item(%s, %s, vx_sink, vx_sink_n))) && vx_dec_ok' % (DEN(m32, m64), v, v, v, m32, m64)),
        ('ensures', '[C06] single precision is chosen only when widening it back gives the same number', 'vx_sink_n == 5 || vx_sink_n == 9'),
        ('ensures', '[C08] the item is counted once', 'vx_items == 1'),
    ]
CBOR = [
    ('requires', 'vx_sink_n == 0 && vx_items == 0 && vx_tags == 0 && vx_divs == 0'),
    ('assigns', 'vx_sink_n, __CPROVER_object_whole(vx_sink), vx_items, vx_dec_ok, vx_tags, vx_tag_val, vx_tag_at, vx_divs, vx_div_num, vx_div_den, vx_div_q'),
    ('ensures', '[C06][C08] the value written (for the epoch tags: the number of seconds) is one floating-point item that denotes it bit for bit, a NaN as a NaN',
     '(vx_bits64(%s) == vx_bits64(VX_WRITTEN) || (VX_WRITTEN != VX_WRITTEN && spec_isnan_item(0xfa, 0xfb, vx_sink, vx_sink_n))) && vx_dec_ok' % DEN('0xfa', '0xfb')),
    ('ensures', '[C06] epoch_second, epoch_milli and epoch_nano are announced by tag 1 (RFC 8949 3.4.2: epoch-based date/time in seconds) written before the number; no other tag',
     '((tag == semantic_tag_epoch_second || tag == semantic_tag_epoch_milli || tag == semantic_tag_epoch_nano) ? (vx_tags == 1 && vx_tag_val == 1 && vx_tag_at == 0) : vx_tags == 0)'),
    ('ensures', '[C06] milliseconds and nanoseconds are converted to seconds by one division by 1000 resp. 1000000000; zero is written as it is; nothing else is scaled',
     '(tag == semantic_tag_epoch_milli && __CPROVER_old(val) != 0) ? (vx_divs == 1 && vx_div_den == 1000 && vx_bits64(vx_div_num) == vx_bits64(__CPROVER_old(val))) : '
     '(tag == semantic_tag_epoch_nano && __CPROVER_old(val) != 0) ? (vx_divs == 1 && vx_div_den == 1000000000 && vx_bits64(vx_div_num) == vx_bits64(__CPROVER_old(val))) : vx_divs == 0'),
    ('ensures', '[C08] the item is counted once', 'vx_items == 1 && (vx_sink_n == 5 || vx_sink_n == 9)'),
]
SPECS = [
    EnumSpec('semantic_tag', 'include/jsoncons/semantic_tag.hpp'),
    CopySpec('cbor_units', CE, r'static constexpr int64_t nanos_in_second', r'static constexpr int64_t millis_in_second = 1000;', include_end=True, rules=[(r'static constexpr int64_t (\w+) = (\d+);', r'enum { \1 = \2 };', 2)]),
    CopySpec('msgpack_float_types', 'include/jsoncons_ext/msgpack/msgpack_type.hpp', r'JSONCONS_INLINE_CONSTEXPR uint8_t float32_type', r'float64_type = 0x[0-9a-f]+;', include_end=True,
             rules=[(r'JSONCONS_INLINE_CONSTEXPR uint8_t float(32|64)_type = ([^;]+);', r'enum { VX_MP_F\1 = \2 };', 2)]),
    CopySpec('ubjson_float_types', 'include/jsoncons_ext/ubjson/ubjson_type.hpp', r'JSONCONS_INLINE_CONSTEXPR uint8_t float32_type', r"float64_type = '.';", include_end=True,
             rules=[(r'JSONCONS_INLINE_CONSTEXPR uint8_t float(32|64)_type = ([^;]+);', r'enum { VX_UB_F\1 = \2 };', 2)]),
    cs.byte_swap_macros(), cs.byte_swap(32), cs.byte_swap(64), cs.byte_swap_float(32), cs.byte_swap_float(64), cs.native_to_big_float(32), cs.native_to_big_float(64),
    FuncSpec('cbor_visit_double', CE, r'visit_double\(double val,\s*semantic_tag tag,\s*const ser_context&,\s*std::error_code&\) final', count=1,
             csig='void cbor_visit_double(double val, int tag)', contract=CBOR, rules=COMMON),
    FuncSpec('msgpack_visit_double', ME, r'visit_double\(double val,\s*semantic_tag,\s*const ser_context&,\s*std::error_code&\) final', count=1,
             csig='void msgpack_visit_double(double val)', contract=contract('VX_MP_F32', 'VX_MP_F64'), rules=COMMON),
    FuncSpec('ubjson_visit_double', UE, r'visit_double\(double val,\s*semantic_tag,\s*const ser_context&,\s*std::error_code&\) final', count=1,
             csig='void ubjson_visit_double(double val)', contract=contract('VX_UB_F32', 'VX_UB_F64'), rules=COMMON),
]
HARNESSES = [
    Harness('cbor_visit_double', 'h_cbor_visit_double', enforce='cbor_visit_double', method='LF', unwind=10, props=['C06', 'C08'], timeout=900,
            note='every double bit pattern x every semantic tag; the two divisions enter as events with an unconstrained quotient (floating division itself is machine arithmetic)'),
    Harness('msgpack_visit_double', 'h_msgpack_visit_double', enforce='msgpack_visit_double', method='LF', unwind=10, props=['C06', 'C08'], timeout=900),
    Harness('ubjson_visit_double', 'h_ubjson_visit_double', enforce='ubjson_visit_double', method='LF', unwind=10, props=['C06', 'C08'], timeout=900),
]
