// replay for unit jsonpatch: patches made of a prefix of valid edits followed by one operation that must fail (unknown or misspelt "op", missing "op" / "path" /
// "value" / "from", failing test, missing location), applied with the real apply_patch: an error must be reported and the document must be equal to what it
// was before; and valid patches of every operation kind against a direct application of RFC 6902 through jsonpointer.
#include <jsoncons/json.hpp>
#include <jsoncons_ext/jsonpatch/jsonpatch.hpp>
#include "replay_util.hpp"
using namespace jsoncons;
int main(int argc, char** argv)
{
    if (argc < 3) return 2;
    const json doc = json::parse(R"({"a":1,"b":[1,2,3],"c":{"d":"x"}})");
    const std::vector<std::string> prefixes = {"", R"({"op":"add","path":"/n","value":5},)", R"({"op":"remove","path":"/b/0"},{"op":"replace","path":"/a","value":[7]},)", R"({"op":"move","from":"/c/d","path":"/b/-"},{"op":"copy","from":"/a","path":"/c/e"},)"};
    const std::vector<std::string> failing = {
        R"({"op":"frobnicate","path":"/a"})", R"({"op":"Remove","path":"/a"})", R"({"op":"","path":"/a"})", R"({"op":"ADD","path":"/z","value":1})", R"({"op":"tests","path":"/a","value":1})",
        R"({"path":"/a","value":1})", R"({"op":"add","value":1})", R"({"op":"add","path":"/z"})", R"({"op":"replace","path":"/a"})", R"({"op":"replace","path":"/b"})", R"({"op":"replace","path":"/c"})", R"({"op":"replace","path":""})", R"({"op":"replace","path":"/c/d"})", R"({"op":"test","path":"/b"})", R"({"op":"add","path":"/b"})", R"({"op":"move","path":"/b"})", R"({"op":"copy","path":"/c"})", R"({"op":"move","path":"/z"})", R"({"op":"copy","path":"/z"})",
        R"({"op":"test","path":"/a","value":2})", R"({"op":"remove","path":"/zz"})", R"({"op":"replace","path":"/zz","value":1})", R"({"op":"move","from":"/zz","path":"/y"})", R"({"op":"add","path":"/b/9","value":1})", R"({"op":"add","path":"a","value":1})"};
    int bad = 0, total = 0; std::string first;
    for (auto& pre : prefixes) for (auto& f : failing) {
        std::string text = "[" + pre + f + "]"; json d = doc; std::error_code ec; ++total;
        try { jsonpatch::apply_patch(d, json::parse(text), ec); } catch (const std::exception&) { ec = jsonpatch::jsonpatch_errc::invalid_patch; }
        if (!ec || d != doc) { if (!bad) first = "patch " + text + (ec ? " reports an error but leaves " : " reports success and leaves ") + d.to_string(); ++bad; }
    }
    // valid patches: the result is the one the operations prescribe
    struct ok_case { const char* patch; const char* result; };
    const ok_case oks[] = {
        {R"([{"op":"add","path":"/b/1","value":9}])", R"({"a":1,"b":[1,9,2,3],"c":{"d":"x"}})"}, {R"([{"op":"add","path":"/b/-","value":9}])", R"({"a":1,"b":[1,2,3,9],"c":{"d":"x"}})"},
        {R"([{"op":"add","path":"/a","value":9}])", R"({"a":9,"b":[1,2,3],"c":{"d":"x"}})"}, {R"([{"op":"remove","path":"/b/1"}])", R"({"a":1,"b":[1,3],"c":{"d":"x"}})"},
        {R"([{"op":"replace","path":"/c/d","value":null}])", R"({"a":1,"b":[1,2,3],"c":{"d":null}})"}, {R"([{"op":"move","from":"/a","path":"/c/a"}])", R"({"b":[1,2,3],"c":{"a":1,"d":"x"}})"},
        {R"([{"op":"copy","from":"/b","path":"/c/b"}])", R"({"a":1,"b":[1,2,3],"c":{"b":[1,2,3],"d":"x"}})"}, {R"([{"op":"test","path":"/b","value":[1,2,3]},{"op":"remove","path":"/a"}])", R"({"b":[1,2,3],"c":{"d":"x"}})"}, {R"([])", R"({"a":1,"b":[1,2,3],"c":{"d":"x"}})"},
        // move = remove, then add (RFC 6902 4.4): "-" is resolved on the document after the removal
        {R"([{"op":"move","from":"/b/0","path":"/b/-"}])", R"({"a":1,"b":[2,3,1],"c":{"d":"x"}})"}, {R"([{"op":"move","from":"/b/2","path":"/b/-"}])", R"({"a":1,"b":[1,2,3],"c":{"d":"x"}})"},
        {R"([{"op":"add","path":"/m","value":["x",[1],[7,8,9]]},{"op":"move","from":"/m/0","path":"/m/1/-"}])", R"({"a":1,"b":[1,2,3],"c":{"d":"x"},"m":[[1],[7,8,9,"x"]]})"},
        {R"([{"op":"copy","from":"/b/0","path":"/b/-"}])", R"({"a":1,"b":[1,2,3,1],"c":{"d":"x"}})"}};
    for (auto& c : oks) { json d = doc; std::error_code ec; ++total; jsonpatch::apply_patch(d, json::parse(c.patch), ec); if (ec || d != json::parse(c.result)) { if (!bad) first = std::string("patch ") + c.patch + " gives " + d.to_string() + (ec ? " with error " + ec.message() : ""); ++bad; } }
    if (bad) VX_REPRO(bad << " of " << total << " patches are not handled as RFC 6902 prescribes, first: " << first);
    VX_NOREPRO("all " << total << " patches are applied or refused as RFC 6902 prescribes");
}
