// replay for unit grisu: prints the counterexample double with the real library and parses it back
#include <jsoncons/json.hpp>
#include "replay_util.hpp"
#include <cstring>
#include <cmath>
using namespace jsoncons;
static bool roundtrips(uint64_t bits, std::string& text)
{
    double d; std::memcpy(&d, &bits, 8);
    json j(d);
    text.clear(); j.dump(text);
    json back = json::parse(text);
    double e = back.as<double>();
    return std::memcmp(&d, &e, 8) == 0;
}
int main(int argc, char** argv)
{
    if (argc < 3) return 2;
    vx_replay_inputs in; if (!in.load(argv[2])) return 2;
    uint64_t bits = in.u64("vx_bits");
    std::string text;
    if (!roundtrips(bits, text)) VX_REPRO("double with bit pattern 0x" << std::hex << bits << std::dec << " prints as " << text << " which parses back to a different double");
    // same significand, other exponents (the obligation that failed depends on the significand class only)
    uint64_t frac = bits & 0xfffffffffffffull;
    for (uint64_t b = 1; b < 0x7ff; ++b) {
        uint64_t v = (b << 52) | frac;
        if (!roundtrips(v, text)) VX_REPRO("double with bit pattern 0x" << std::hex << v << std::dec << " (same significand as the counterexample, exponent field " << b << ") prints as " << text << " which parses back to a different double");
    }
    VX_NOREPRO("the counterexample value and all doubles with the same significand print to text that parses back exactly");
}
