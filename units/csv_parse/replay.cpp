// replay for unit csv_parse (same round trips as unit csv_quote, plus a quote-escape character that differs from the quote character): rows whose string fields contain each character that needs quoting (delimiter, quote, CR, LF, and the counterexample's witness
// character) at the start, in the middle and at the end are encoded with the real csv encoder under every quote style and several delimiter / line-delimiter
// options and decoded again with the real csv decoder; the round trip must be the identity.
#include <jsoncons/json.hpp>
#include <jsoncons_ext/csv/csv.hpp>
#include "replay_util.hpp"
using namespace jsoncons;
int main(int argc, char** argv)
{
    if (argc < 3) return 2;
    vx_replay_inputs in; in.load(argv[2]);
    std::vector<char> specials = {',', ';', '"', '\'', '\r', '\n', '\t', '|', '\\'};
    size_t w = in.u64("vx_w", 0); if (in.has("vx_in[" + std::to_string(w) + "]")) { char c = (char)in.u64("vx_in[" + std::to_string(w) + "]"); if (c) specials.push_back(c); }
    int bad = 0, total = 0; std::string first;
    for (char esc : {'\0', '\\'}) for (char delim : {',', ';', '\t'}) for (char quote : {'"', '\''}) for (const char* eol : {"\n", "\r\n", "\r"}) for (auto style : {csv::quote_style_kind::minimal, csv::quote_style_kind::all, csv::quote_style_kind::nonnumeric})
    for (char sp : specials) {
        json rows(json_array_arg);
        for (int pos = 0; pos < 4; ++pos) {
            std::string f = pos == 0 ? std::string(1, sp) + "ab" : pos == 1 ? std::string("a") + sp + "b" : pos == 2 ? std::string("ab") + sp : std::string(1, sp);
            json row(json_array_arg); row.push_back("x"); row.push_back(f); row.push_back("tail"); rows.push_back(row);
        }
        auto opt = csv::csv_options{}.field_delimiter(delim).quote_char(quote).line_delimiter(eol).quote_style(style).assume_header(false).mapping_kind(csv::csv_mapping_kind::n_rows); if (esc) { opt.quote_escape_char(esc); }
        ++total;
        try { std::string text; csv::encode_csv(rows, text, opt); json back = csv::decode_csv<json>(text, opt);
              if (back != rows) { if (!bad) first = "field containing character " + std::to_string((int)sp) + " with delimiter " + std::to_string((int)delim) + ", line delimiter of length " + std::to_string(strlen(eol)) + " first byte " + std::to_string((int)eol[0]) + ": decoded " + back.to_string(); ++bad; } }
        catch (const std::exception& e) { if (!bad) first = std::string(e.what()) + " for character " + std::to_string((int)sp); ++bad; }
    }
    // empty fields in every position, for every delimiter (a row that begins with an empty field begins with the delimiter itself: F36 for tab separated values)
    for (char delim : {',', ';', '\t', '|', ' '}) for (auto style : {csv::quote_style_kind::minimal, csv::quote_style_kind::all, csv::quote_style_kind::nonnumeric}) for (int mask = 0; mask < 8; ++mask) {
        json rows(json_array_arg); json row(json_array_arg); for (int c = 0; c < 3; ++c) row.push_back((mask >> c) & 1 ? std::string("v") + std::to_string(c) : std::string()); rows.push_back(row); json row2(json_array_arg); row2.push_back("p"); row2.push_back(""); row2.push_back("q"); rows.push_back(row2);
        auto eopt = csv::csv_options{}.field_delimiter(delim).quote_style(style); auto dopt = csv::csv_options{}.field_delimiter(delim).assume_header(false).mapping_kind(csv::csv_mapping_kind::n_rows).infer_types(false);
        ++total;
        try { std::string text; csv::encode_csv(rows, text, eopt); json back = csv::decode_csv<json>(text, dopt);
              if (back != rows) { if (!bad) first = "rows with empty fields (mask " + std::to_string(mask) + "), delimiter " + std::to_string((int)delim) + ": " + rows.to_string() + " comes back as " + back.to_string(); ++bad; } }
        catch (const std::exception& e) { if (!bad) first = std::string(e.what()) + " for empty-field mask " + std::to_string(mask); ++bad; }
    }
    // the input ends inside, right after, or some blanks after a quoted field, with and without a header: an error (missing closing quote) or the same value as with a final line break (F41, F50)
    for (const char* body : {"\"x\"", "\"x\" ", "\"x\"\t ", "1,\"x\" ", "\"q\nr\" ", "1;\"x\"", "\"1\";\"x\"", "1;\"x\" "}) for (int hdr = 0; hdr < 2; ++hdr) { ++total;
        std::string t1 = std::string("a,b\n") + body, t2 = t1 + "\n"; auto o = csv::csv_options{}.assume_header(hdr != 0); if (strchr(body, ';')) o.subfield_delimiter(';');
        try { json j1 = csv::decode_csv<json>(t1, o), j2 = csv::decode_csv<json>(t2, o); if (j1 != j2) { if (!bad) first = "the text ending in " + std::string(body) + " without a final line break decodes to " + j1.to_string() + ", with one to " + j2.to_string(); ++bad; } }
        catch (const jsoncons::json_exception& e) { if (!bad) first = std::string("a complete quoted field at the end of the input is refused: ") + e.what(); ++bad; }
        catch (const std::exception& e) { if (!bad) first = std::string("foreign exception for a quoted field at the end of the input: ") + e.what(); ++bad; } }
    for (const char* body : {"\"x", "\"", "1,\"x\"\"", "\"x\ny"}) for (int hdr = 0; hdr < 2; ++hdr) { ++total;
        try { json j = csv::decode_csv<json>(std::string("a,b\n") + body, csv::csv_options{}.assume_header(hdr != 0)); if (!bad) first = "an unterminated quoted field is accepted: " + j.to_string(); ++bad; }
        catch (const jsoncons::json_exception&) {} catch (const std::exception& e) { if (!bad) first = std::string("foreign exception for an unterminated quoted field: ") + e.what(); ++bad; } }
    // sub-fields with ignore_empty_values (F51): the events of every mapping are balanced and every value in an object has its name - judged from the event stream of the cursor,
    // and decode_csv delivers a value (ASan decides about the column filter of m_columns)
    for (const char* text : {"a\n;\n", "a,b\n1,;\n", "a,b\n1;2,;\n", "a,b\n;,1\n", "a\n1;", "a\n1;\"\"\n", "a\n\"\";\n", "a,b,c\n1;6,;,5\n6,", "a\n1;\r\n2\n", "a,b\n1;2,3;4\n5,6\n", "a,b\n\"1\";\"2\",\"3\"\n", "a,b\n1;2;3,4"}) for (int mk = 0; mk < 3; ++mk) for (int iev = 0; iev < 2; ++iev) { ++total;
        auto o = csv::csv_options{}.assume_header(true).ignore_empty_values(iev != 0).subfield_delimiter(';').mapping_kind(mk == 0 ? csv::csv_mapping_kind::n_rows : mk == 1 ? csv::csv_mapping_kind::n_objects : csv::csv_mapping_kind::m_columns);
        std::string doc(text);
        try { std::vector<char> st; bool ok = true, pending_key = false; std::string why;
              csv::csv_string_cursor c(doc, o);
              for (; !c.done() && ok; c.next()) { auto t = c.current().event_type(); bool in_obj = !st.empty() && st.back() == 'o';
                  if (t == staj_event_type::key) { if (!in_obj || pending_key) { ok = false; why = "misplaced key"; } pending_key = true; continue; }
                  if (in_obj && t != staj_event_type::end_object) { if (!pending_key) { ok = false; why = "a value in an object without a name"; } pending_key = false; }
                  if (t == staj_event_type::begin_array) st.push_back('a'); else if (t == staj_event_type::begin_object) st.push_back('o');
                  else if (t == staj_event_type::end_array) { if (st.empty() || st.back() != 'a') { ok = false; why = "end_array without begin_array"; } else st.pop_back(); }
                  else if (t == staj_event_type::end_object) { if (st.empty() || st.back() != 'o' || pending_key) { ok = false; why = "end_object out of place"; } else st.pop_back(); } }
              if (ok && !st.empty()) { ok = false; why = "the input is exhausted with " + std::to_string(st.size()) + " containers open"; }
              if (!ok) { if (!bad) first = "csv text with sub-fields (mapping " + std::to_string(mk) + ", ignore_empty_values " + std::to_string(iev) + "): " + why; ++bad; continue; }
              json j = csv::decode_csv<json>(doc, o); (void)j; }
        catch (const std::exception& e) { if (!bad) first = std::string("csv text with sub-fields (mapping ") + std::to_string(mk) + ", ignore_empty_values " + std::to_string(iev) + ") is refused: " + e.what(); ++bad; } }
    // the end of the input and a final line break give the same value, also when every value of the last record is an ignored empty field (F53); always a value or a json_exception
    for (const char* body : {"\"\"", "\"\" ", "1x\"\"", "1,\"\"", " ", ","}) for (int mk = 1; mk <= 3; ++mk) for (int hdr = 0; hdr < 2; ++hdr) { ++total;
        std::string t1 = std::string("a,b\n") + body, t2 = t1 + "\n"; auto o = csv::csv_options{}.assume_header(hdr != 0).ignore_empty_values(true).trim_trailing(true).mapping_kind((csv::csv_mapping_kind)mk);
        try { json j1 = csv::decode_csv<json>(t1, o), j2 = csv::decode_csv<json>(t2, o); if (j1 != j2) { if (!bad) first = "ignore_empty_values: the text ending in " + std::string(body) + " without a final line break decodes to " + j1.to_string() + ", with one to " + j2.to_string(); ++bad; } }
        catch (const jsoncons::json_exception&) {}
        catch (const std::exception& e) { if (!bad) first = std::string("foreign exception for a record of ignored empty values at the end of the input (") + body + "): " + e.what(); ++bad; } }
    // column_types with a repeat entry (F56): every column of a row takes the repeated type, the events stay balanced
    for (const char* types : {"float*", "string*", "integer,float*", "string,integer,float*"}) for (int mk = 1; mk <= 3; ++mk) for (int ncol = 1; ncol <= 4; ++ncol) { ++total;
        std::string hdr, row; for (int c = 0; c < ncol; ++c) { hdr += (c ? "," : "") + std::string(1, (char)('a' + c)); row += (c ? "," : "") + std::to_string(c + 1); }
        auto o = csv::csv_options{}.assume_header(true).column_types(types).mapping_kind((csv::csv_mapping_kind)mk);
        try { json j = csv::decode_csv<json>(hdr + "\n" + row + "\n" + row + "\n", o); if (mk == 1 && (j.size() != 3 || j[1].size() != (size_t)ncol)) { if (!bad) first = "column_types " + std::string(types) + " with " + std::to_string(ncol) + " columns gives " + j.to_string(); ++bad; } }
        catch (const std::exception& e) { if (!bad) first = "column_types " + std::string(types) + " with " + std::to_string(ncol) + " columns (mapping " + std::to_string(mk) + "): " + e.what(); ++bad; } }
    if (bad) VX_REPRO(bad << " of " << total << " csv round trips differ, first: " << first);
    VX_NOREPRO("all " << total << " csv round trips are the identity");
}
