# U-CBOR-STRREF (DESIGN 6): stringref eligibility on the encoder side against the stringref table and the shared running index
from core import FuncSpec, CopySpec, EnumSpec, Harness, INF

E = 'include/jsoncons_ext/cbor/cbor_encoder.hpp'
P = 'include/jsoncons_ext/cbor/cbor_parser.hpp'
D = 'include/jsoncons_ext/cbor/cbor_detail.hpp'

TOTAL0 = '(__CPROVER_old(vx_text_count) + __CPROVER_old(vx_bytes_count))'
ELIG = '(self->pack_strings_ && vx_len >= spec_strref_min_length(%s))' % TOTAL0
def contract(kind):
    cnt = 'vx_text_count' if kind == 'text' else 'vx_bytes_count'
    return [
        ('requires', 'self->next_stringref_ == vx_text_count + vx_bytes_count && vx_text_count < ((size_t)1 << 60) && vx_bytes_count < ((size_t)1 << 60)'),
        ('requires', 'vx_registered == 0 && vx_out == VX_OUT_NONE && vx_find_result == (vx_find_result && %s > 0)' % cnt),
        ('assigns', 'self->next_stringref_, vx_text_count, vx_bytes_count, vx_registered, vx_reg_index, vx_out, vx_items'),
        ('ensures', '[C06] representation invariant: the next stringref index is the number of strings registered so far (text and byte strings share one namespace, as in the decoder table)',
         'self->next_stringref_ == vx_text_count + vx_bytes_count'),
        ('ensures', '[C06] a new string is registered exactly when packing is on, it is not yet in the table and its length reaches the stringref minimum for the running index (the decoder applies the same rule to its table size)',
         '(vx_registered == 1) == (%s && !vx_find_result)' % ELIG),
        ('ensures', '[C06] a registered string gets the running index and is written literally', 'vx_registered == 1 ==> (vx_reg_index == %s && vx_out == VX_OUT_LITERAL)' % TOTAL0),
        ('ensures', '[C06] an eligible string that is already in the table is written as a reference (tag 25 + index), nothing is registered',
         '(%s && vx_find_result) ==> (vx_out == VX_OUT_REF && vx_registered == 0)' % ELIG),
        ('ensures', '[C06] a string below the minimum length (or with packing off) is written literally and not registered',
         '!%s ==> (vx_out == VX_OUT_LITERAL && vx_registered == 0)' % ELIG),
        ('ensures', '[C06] at most one registration per string', 'vx_registered <= 1'),
    ]
COMMON0 = [
    (r'jsoncons::cbor::detail::min_length_for_stringref\(', 'min_length_for_stringref(', 1),
    (r'\bpack_strings_\b', '(self->pack_strings_)', 1),
    (r'\bnext_stringref_\b', '(self->next_stringref_)', 1, 3),
    (r'\bstringref_map_\.size\(\)', 'vx_text_count', 0, 3),
    (r'\bbytestringref_map_\.size\(\)', 'vx_bytes_count', 0, 3),
    (r'write_tag\(25\);\s*write_uint64_value\(\(\*it\)\.second\);', 'vx_out_ref();', 1),
    (r'end_value\(\);', 'vx_items++;', 0, 1),
    (r'JSONCONS_VISITOR_RETURN;', 'return;', 0, 1),
]
COMMON = COMMON0
TEXT = COMMON0 + [
    (r'auto sink = unicode_traits::validate\(sv\.data\(\), sv\.size\(\)\);\s*if \(sink\.ec != unicode_traits::unicode_errc\(\)\)\s*\{\s*JSONCONS_THROW\(ser_error\(cbor_errc::invalid_utf8_text_string\)\);\s*\}', 'VX_UTF8_VALIDATED();', 1),
    (r'sv\.size\(\)', 'vx_len', 1, 3),
    (r'string_type s\(sv\.data\(\), vx_len, alloc_\);', '', 1),
    (r'auto it = stringref_map_\.find\(s\);', 'bool vx_found = vx_find_result;', 1),
    (r'it == stringref_map_\.end\(\)', '!vx_found', 1),
    (r'stringref_map_\.emplace\(std::make_pair\(std::move\(s\), ([^;]+?)\)\);', r'VX_REGISTER_TEXT(\1);', 1),
    (r'write_utf8_string\(sv\);', 'vx_out_literal();', 2),
]
def BYTES(tagged):
    return [
        # program slice: the tag-hint prologue (semantic tag -> CBOR tag 21/22/23) does not touch the stringref state
        (r'\A.*?(?=if \(pack_strings_ &&)', 'VX_PROLOGUE_CUT(); ', 1),
        (r'b\.size\(\)', 'vx_len', 1, 3),
        (r'byte_string_type bs\(b\.data\(\), vx_len, alloc_\);', '', 1),
        (r'auto it = bytestringref_map_\.find\(bs\);', 'bool vx_found = vx_find_result;', 1),
        (r'it == bytestringref_map_\.end\(\)', '!vx_found', 1),
        (r'bytestringref_map_\.emplace\(std::make_pair\(bs, ([^;]+?)\)\);', r'VX_REGISTER_BYTES(\1);', 1),
        (r'write_tag\(raw_tag\);\s*', '', 2 if tagged else 0),
        (r'write_byte_string\(bs?\);', 'vx_out_literal();', 2),
    ] + COMMON0
SPECS = [
    FuncSpec('min_length_for_stringref', D, r'size_t min_length_for_stringref\(uint64_t index\)', count=1,
             csig='static size_t min_length_for_stringref(uint64_t index)',
             contract=[('assigns', ''), ('ensures', '[C06] min_length_for_stringref is the stringref table at every index', '__CPROVER_return_value == spec_strref_min_length(index)')]),
    FuncSpec('write_string', E, r'void write_string\(const string_view& sv\)', count=1,
             csig='void write_string(struct cbor_encoder* self, size_t vx_len)', contract=contract('text'), rules=TEXT),
    FuncSpec('visit_byte_string', E, r'visit_byte_string\(const byte_string_view& b,\s*semantic_tag tag,\s*const ser_context&,\s*std::error_code&\) final', count=1,
             csig='void visit_byte_string(struct cbor_encoder* self, size_t vx_len)', contract=contract('bytes'), rules=BYTES(False)),
    FuncSpec('visit_byte_string_tagged', E, r'visit_byte_string\(const byte_string_view& b,\s*uint64_t raw_tag,\s*const ser_context&,\s*std::error_code&\) final', count=1,
             csig='void visit_byte_string_tagged(struct cbor_encoder* self, size_t vx_len)', contract=contract('bytes'), rules=BYTES(True)),
]
SITE_CHECKS = [
    {'file': P, 'pattern': r'\.(length|size)\(\) >= jsoncons::cbor::detail::min_length_for_stringref\(stringref_map_stack_\.back\(\)\.size\(\)\)\)\s*\{\s*stringref_map_stack_\.back\(\)\.emplace_back\(', 'count': 4, 'props': ['C06'],
     'what': 'all four decoder sites register a string iff its length reaches min_length_for_stringref(current table size), and append it to the table (index = table size)'},
    {'file': E, 'pattern': r'next_stringref_\+\+', 'count': 3, 'props': ['C06'], 'what': 'the running index is advanced exactly at the three registration sites'},
]
HARNESSES = [
    Harness('min_length_for_stringref', 'h_min_length', enforce='min_length_for_stringref', method='LF', props=['C06']),
    Harness('write_string', 'h_write_string', enforce='write_string', replace=['min_length_for_stringref'], method='LF', props=['C06']),
    Harness('visit_byte_string', 'h_bytes', enforce='visit_byte_string', replace=['min_length_for_stringref'], method='LF', props=['C06']),
    Harness('visit_byte_string_tagged', 'h_bytes_tagged', enforce='visit_byte_string_tagged', replace=['min_length_for_stringref'], method='LF', props=['C06']),
]
