# unit jsonpath_ops (C12): the comparison operators of JSONPath filter expressions (eq, ne, lt, lte, gt, gte of token_evaluator.hpp): comparisons are defined
# between two numbers and between two strings (RFC 9535 2.3.5.2.2; anything else is "nothing" - null here), == and != for values of any type
from core import FuncSpec, Harness
T = 'include/jsoncons_ext/jsonpath/token_evaluator.hpp'
A = r'Json evaluate\(const_reference lhs, const_reference rhs, std::error_code&\) const override'
RULES = [
    (r'lhs\.is_number\(\) && rhs\.is_number\(\)', '(vx_lk == VK_NUMBER && vx_rk == VK_NUMBER)', 0, 1), (r'lhs\.is_string\(\) && rhs\.is_string\(\)', '(vx_lk == VK_STRING && vx_rk == VK_STRING)', 0, 1),
    (r'\blhs (==|!=|<=|>=|<|>) rhs\b', r'(vx_cmp \1 0)', 1, 2), (r'Json\(true, semantic_tag::none\)', 'R_TRUE', 1, 2), (r'Json\(false, semantic_tag::none\)', 'R_FALSE', 1, 2),
    (r'return Json::null\(\);', '{ vx_result = R_NULL; return; }', 0, 1), (r'return (\(?[^;{}]+\? R_TRUE : R_FALSE);', r'{ vx_result = (\1); return; }', 1, 2),
]
def op(name, cls, post, what):
    return FuncSpec(name, T, A, after=r'class %s final : public binary_operator<Json>' % cls, csig='void %s(void)' % name, rules=RULES,
                    contract=[('requires', 'vx_result == R_NONE && vx_cmp >= -1 && vx_cmp <= 1'), ('assigns', 'vx_result'), ('ensures', '[C12] ' + what, post)])
COMPARABLE = '((vx_lk == VK_NUMBER && vx_rk == VK_NUMBER) || (vx_lk == VK_STRING && vx_rk == VK_STRING))'
def cmpop(name, cls, sym):
    return op(name, cls, '%s ? vx_result == ((vx_cmp %s 0) ? R_TRUE : R_FALSE) : vx_result == R_NULL' % (COMPARABLE, sym), 'a %s b is the order of the two values for two numbers and for two strings, and nothing (null) for anything else' % sym)
OPS = [op('op_eq', 'eq_operator', 'vx_result == ((vx_cmp == 0) ? R_TRUE : R_FALSE)', '== is value equality for values of any type'),
       op('op_ne', 'ne_operator', 'vx_result == ((vx_cmp != 0) ? R_TRUE : R_FALSE)', '!= is the negation of =='),
       cmpop('op_lt', 'lt_operator', '<'), cmpop('op_lte', 'lte_operator', '<='), cmpop('op_gt', 'gt_operator', '>'), cmpop('op_gte', 'gte_operator', '>=')]
SPECS = []
GROUPS = {'ops': OPS}
HARNESSES = [Harness(o.name, 'h_' + o.name, enforce=o.name, method='LF', props=['C12'], note='operands are abstract: their kinds and the sign of their comparison (basic_json::compare: unit cmp)') for o in OPS]
