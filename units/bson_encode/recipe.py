# U-BSON-ENC (C06, C08, C10): container framing (length back-patching), element headers and integer writers of basic_bson_encoder
from core import FuncSpec, CopySpec, EnumSpec, Harness
E = 'include/jsoncons_ext/bson/bson_encoder.hpp'
TY = 'include/jsoncons_ext/bson/bson_type.hpp'
N = 40
AL = {'nesting_depth_': '(self->nesting_depth_)', 'max_nesting_depth_': '(self->max_nesting_depth_)', 'ec': '(*ec_p)'}
RULES = [
    (r'JSONCONS_VISITOR_RETURN;', 'return;', 0, 12), (r'jsoncons::bson::bson_type::(\w+)', r'bson_type_\1', 0, N), (r'bson_errc::(\w+)', r'bson_errc_\1', 0, N), (r'semantic_tag::(\w+)', r'semantic_tag_\1', 0, N),
    (r'jsoncons::bson::bson_container_type::(\w+)', r'bson_container_type_\1', 0, 4),
    (r'stack_\.empty\(\)', '(vx_depth == 0)', 0, 6), (r'stack_\.back\(\)\.is_object\(\)', '(vx_top.type_ == bson_container_type_document)', 0, 2),
    (r'stack_\.back\(\)\.offset\(\)', 'vx_top.offset_', 0, 4), (r'stack_\.back\(\)\.member_offset\(\)', 'vx_top.name_offset_', 0, 2), (r'stack_\.back\(\)\.member_offset\(buffer_\.size\(\)\);', 'vx_top.name_offset_ = vx_bufsize;', 0, 1),
    (r'stack_\.emplace_back\((bson_container_type_\w+), buffer_\.size\(\)\);', r'vx_depth++; vx_pushes++; vx_top.type_ = \1; vx_top.offset_ = vx_bufsize; vx_top.name_offset_ = 0; vx_top.index_ = 0;', 0, 1),
    (r'stack_\.pop_back\(\);', 'vx_depth--; vx_pops++; vx_top.type_ = nondet_int(); vx_top.offset_ = nondet_size(); vx_top.name_offset_ = nondet_size(); vx_top.index_ = nondet_size();', 0, 1),
    (r'buffer_\.insert\(buffer_\.end\(\), sizeof\(int32_t\), 0\);', 'vx_bufsize += sizeof(int32_t);', 0, 1),
    (r'buffer_\.push_back\(0x00\);\s*std::size_t length = buffer_\.size\(\) - ', 'vx_terminators++; vx_push_byte(0x00); size_t length = vx_bufsize - ', 0, 1),
    (r'binary::native_to_little\(static_cast<uint32_t>\(length\), buffer_\.begin\(\)\+vx_top\.offset_\);', 'vx_patch32((uint32_t)(length), vx_top.offset_);', 0, 1),
    (r'for \(auto c : buffer_\)\s*\{\s*sink_\.push_back\(c\);\s*\}', 'vx_flushes++;', 0, 1),
    (r'buffer_\[vx_top\.name_offset_\] = code;', 'vx_codes++; vx_code = code; vx_code_patched = true; vx_code_at = vx_top.name_offset_;', 0, 1),
    (r'buffer_\.push_back\(code\);\s*std::string name = std::to_string\(stack_\.back\(\)\.next_index\(\)\);\s*buffer_\.insert\(buffer_\.end\(\), name\.begin\(\), name\.end\(\)\);\s*buffer_\.push_back\(0x00\);',
     'vx_codes++; vx_code = code; vx_code_at = vx_bufsize; vx_push_byte(code); vx_array_name(vx_top.index_++); vx_push_byte(0x00);', 0, 1),
    (r'buffer_\.push_back\(0x00\);\s*for \(auto c : name\)\s*\{\s*buffer_\.push_back\(c\);\s*\}\s*buffer_\.push_back\(0x00\);', 'vx_bufsize += name_len + 2;', 0, 1),
    (r'buffer_\.push_back\(0x80\);', 'vx_subtype = 0x80; vx_push_byte(0x80);', 0, 1), (r'buffer_\.push_back\(static_cast<uint8_t>\(raw_tag\)\);', 'vx_subtype = (uint8_t)(raw_tag); vx_push_byte((uint8_t)(raw_tag));', 0, 1),
    (r'for \(auto c : b\)\s*\{\s*buffer_\.push_back\(c\);\s*\}', 'vx_bufsize += payload_len;', 0, 1), (r'std::size_t offset = buffer_\.size\(\);', 'size_t offset = vx_bufsize;', 0, 1),
    (r'binary::native_to_little\(static_cast<uint32_t>\(length\), buffer_\.begin\(\)\+offset\);', 'vx_patch32((uint32_t)(length), offset);', 0, 1),
    (r'buffer_\.size\(\)', 'vx_bufsize', 0, 4),
    (r'before_value\(', 'before_value(self, ', 0, 12),
    (r'binary::native_to_little\(static_cast<uint32_t>\(val\),\s*std::back_inserter\(buffer_\)\)', 'vx_put_le((uint64_t)(uint32_t)(val), 4)', 0, 2),
    (r'binary::native_to_little\(static_cast<(?:u?int64_t)>\(([^;]+?)\),\s*std::back_inserter\(buffer_\)\)', r'vx_put_le((uint64_t)(\1), 8)', 0, 6),
    (r'binary::native_to_little\((val(?:\*millis_in_second)?),\s*std::back_inserter\(buffer_\)\)', r'vx_put_le((uint64_t)(\1), 8)', 0, 3),
    (r'static constexpr (u?int64_t)', r'const \1', 0, 2), (r'\(std::numeric_limits<int64_t>::min\)\(\)', 'INT64_MIN', 0, 2), (r'\(std::numeric_limits<int64_t>::max\)\(\)', 'INT64_MAX', 0, 6), (r'\(std::numeric_limits<uint64_t>::max\)\(\)', 'UINT64_MAX', 0, 2),
    (r'\(std::numeric_limits<int32_t>::lowest\)\(\)', 'INT32_MIN', 0, 1), (r'\(std::numeric_limits<int32_t>::max\)\(\)', 'INT32_MAX', 0, 2), (r'static_cast<std::size_t>\(', '(size_t)(', 0, 1),
    (r'\bmillis_in_second\b', '1000', 0, 3), (r'val /= nanos_in_milli;', 'val = VX_DIV_NANO(val);', 0, 1), (r'\bnanos_in_milli\b', '1000000', 0, 2), (r'static_cast<uint64_t>\(', '(uint64_t)(', 0, 8),
]
ASG = '*ec_p, vx_vals, vx_val, vx_validations, vx_other_arms, vx_subtype, vx_div_in, vx_div_out, self->nesting_depth_, vx_top, vx_depth, vx_pushes, vx_pops, vx_bufsize, vx_codes, vx_code, vx_code_patched, vx_code_at, vx_patches, vx_patch_at, vx_patch_val, vx_scalars, vx_scalar, vx_scalar_width, vx_flushes, vx_terminators, vx_names, vx_name_index'
ASG0 = ASG.replace('*ec_p, vx_vals, vx_val, vx_validations, vx_other_arms, ', '')
WF = 'vx_vals == 0 && vx_validations == 0 && vx_other_arms == 0 && vx_bufsize <= SIZE_MAX / 4 && vx_top.index_ < SIZE_MAX && vx_codes == 0 && vx_patches == 0 && vx_scalars == 0 && vx_flushes == 0 && vx_terminators == 0 && vx_names == 0 && vx_pushes == 0 && vx_pops == 0'
# representation invariant of an open frame: its four length bytes and (inside a document, after visit_key) the reserved type byte lie inside the buffer
FRAME = '(vx_depth >= 1 && vx_top.offset_ + 4 <= vx_bufsize && (vx_top.type_ == bson_container_type_document ==> (vx_top.name_offset_ >= vx_top.offset_ + 4 && vx_top.name_offset_ < vx_bufsize)))'
BEFORE = [
    ('requires', WF + ' && ' + FRAME), ('assigns', ASG0),
    ('ensures', '[C06][C08] an element header: inside a document the type byte goes into the place that visit_key reserved in front of the name; inside an array the header is the type byte, the decimal index as name, and a NUL, and the index advances',
     'vx_codes == 1 && vx_code == code && ((__CPROVER_old(vx_top.type_) == bson_container_type_document) ? (vx_code_patched && vx_code_at == __CPROVER_old(vx_top.name_offset_) && vx_bufsize == __CPROVER_old(vx_bufsize) && vx_names == 0) '
     ': (!vx_code_patched && vx_code_at == __CPROVER_old(vx_bufsize) && vx_names == 1 && vx_name_index == __CPROVER_old(vx_top.index_) && vx_top.index_ == __CPROVER_old(vx_top.index_) + 1 && vx_bufsize >= __CPROVER_old(vx_bufsize) + 3))'),
]
BEFORE.append(('ensures', '[C06] nothing else of the encoder state changes: the frame stays as it is, at most 22 bytes are appended (type byte, up to 20 digits, NUL)',
               'vx_pushes == __CPROVER_old(vx_pushes) && vx_pops == __CPROVER_old(vx_pops) && vx_depth == __CPROVER_old(vx_depth) && vx_top.type_ == __CPROVER_old(vx_top.type_) && vx_top.offset_ == __CPROVER_old(vx_top.offset_) '
               '&& vx_top.name_offset_ == __CPROVER_old(vx_top.name_offset_) && vx_bufsize <= __CPROVER_old(vx_bufsize) + 22 && vx_patches == 0 && vx_scalars == 0 && vx_flushes == 0 && vx_terminators == 0 && self->nesting_depth_ == __CPROVER_old(self->nesting_depth_)'))
def BEGIN(kind, code):
    return [('requires', WF + ' && (vx_depth == 0 || %s) && self->max_nesting_depth_ >= 0 && self->max_nesting_depth_ < INT_MAX && self->nesting_depth_ >= 0 && self->nesting_depth_ <= self->max_nesting_depth_' % FRAME), ('assigns', ASG),
            ('ensures', '[C10] a container beyond max_nesting_depth is refused', '__CPROVER_old(self->nesting_depth_) >= self->max_nesting_depth_ ==> (*ec_p == bson_errc_max_nesting_depth_exceeded && vx_pushes == 0)'),
            ('ensures', '[C08] a second top-level value is refused (BSON has one document at the top)', '(__CPROVER_old(self->nesting_depth_) < self->max_nesting_depth_ && __CPROVER_old(vx_bufsize) > 0 && __CPROVER_old(vx_depth) == 0) ==> (*ec_p == bson_errc_expected_bson_document && vx_pushes == 0)'),
            ('ensures', '[C06][C08] otherwise the %s is opened: as an element of its parent it gets the type byte 0x%02x; four bytes are reserved for its length at the offset remembered on the stack' % (kind, code),
             '(__CPROVER_old(self->nesting_depth_) < self->max_nesting_depth_ && !(__CPROVER_old(vx_bufsize) > 0 && __CPROVER_old(vx_depth) == 0)) ==> (*ec_p == 0 && vx_pushes == 1 && vx_depth == __CPROVER_old(vx_depth) + 1 '
             '&& vx_top.type_ == bson_container_type_%s && vx_top.offset_ + 4 == vx_bufsize && vx_top.index_ == 0 && (__CPROVER_old(vx_bufsize) > 0 ? (vx_codes == 1 && vx_code == %d) : vx_codes == 0))' % (kind, code))]
def END():
    pre = WF + ' && self->nesting_depth_ >= 1 && ' + FRAME
    LONG = '(__CPROVER_old(vx_bufsize) + 1 - __CPROVER_old(vx_top.offset_) > (size_t)INT32_MAX)'
    return [('requires', pre), ('assigns', ASG),
            ('ensures', '[C06][C08] closing a document or array: the terminating NUL is appended and the int32 at the frame\'s own offset becomes the number of bytes from that offset to the end of the buffer, terminator included',
             '!%s ==> (*ec_p == 0 && vx_terminators == 1 && vx_bufsize == __CPROVER_old(vx_bufsize) + 1 && vx_patches == 1 && vx_patch_at == __CPROVER_old(vx_top.offset_) && (size_t)vx_patch_val == vx_bufsize - __CPROVER_old(vx_top.offset_) && vx_pops == 1 && vx_depth == __CPROVER_old(vx_depth) - 1)' % LONG),
            ('ensures', '[C06][C08] (F29) a document or array longer than 2^31-1 bytes cannot be expressed in BSON - its length is an int32 - and is refused with number_too_large: no length is written, nothing reaches the sink',
             '%s ==> (*ec_p == bson_errc_number_too_large && vx_patches == 0 && vx_flushes == 0)' % LONG),
            ('ensures', '[C08] the bytes are handed to the sink once, when the outermost document is closed', '*ec_p == 0 ==> (vx_flushes == (vx_depth == 0 ? 1 : 0) && self->nesting_depth_ == __CPROVER_old(self->nesting_depth_) - 1)')]
KEY = [('requires', WF + ' && ' + FRAME + ' && vx_top.type_ == bson_container_type_document && name_len <= SIZE_MAX / 4'), ('assigns', ASG0),
       ('ensures', '[C06][C08] a member name: one byte is reserved for the type of the value, then the name and a NUL; the reserved place is remembered for before_value', 'vx_top.name_offset_ == __CPROVER_old(vx_bufsize) && vx_bufsize == __CPROVER_old(vx_bufsize) + name_len + 2 && ' + FRAME)]
def INT(signed):
    t = 'int64_t' if signed else 'uint64_t'
    dt = 'bson_type_datetime_type'
    c = [('requires', WF + ' && (vx_depth == 0 || %s)' % FRAME), ('assigns', ASG),
         ('ensures', '[C08] a scalar outside any document is refused', '__CPROVER_old(vx_depth) == 0 ==> (*ec_p == bson_errc_expected_bson_document && vx_scalars == 0 && vx_codes == 0)'),
         ('ensures', '[C06][C08] an untagged integer is written as int32 (0x10) when it fits 32 bits and as int64 (0x12) otherwise, with its own value%s' % ('' if signed else '; above 2^63-1 it is number_too_large'),
          '(__CPROVER_old(vx_depth) > 0 && tag != semantic_tag_epoch_second && tag != semantic_tag_epoch_milli && tag != semantic_tag_epoch_nano) ==> '
          + ('((val >= INT32_MIN && val <= INT32_MAX) ? (vx_code == bson_type_int32_type && vx_scalar_width == 4 && (int32_t)(uint32_t)vx_scalar == val) : (vx_code == bson_type_int64_type && vx_scalar_width == 8 && (int64_t)vx_scalar == val)) && *ec_p == 0 && vx_scalars == 1 && vx_codes == 1' if signed else
             '(val <= (uint64_t)INT32_MAX ? (*ec_p == 0 && vx_code == bson_type_int32_type && vx_scalar_width == 4 && vx_scalar == val) : val <= (uint64_t)INT64_MAX ? (*ec_p == 0 && vx_code == bson_type_int64_type && vx_scalar_width == 8 && vx_scalar == val) : (*ec_p == bson_errc_number_too_large && vx_scalars == 0))')),
         ('ensures', '[C06][C08] epoch_second becomes a UTC datetime (0x09) of val x 1000 milliseconds, exactly, or datetime_too_small / datetime_too_large when that does not fit an int64',
          '(__CPROVER_old(vx_depth) > 0 && tag == semantic_tag_epoch_second) ==> (((__int128)val * 1000 >= (__int128)INT64_MIN && (__int128)val * 1000 <= (__int128)INT64_MAX) ? (*ec_p == 0 && vx_code == %s && vx_scalar_width == 8 && (__int128)(int64_t)vx_scalar == (__int128)val * 1000) : (*ec_p != 0 && vx_scalars == 0))' % dt),
         ('ensures', '[C06][C08] epoch_milli becomes a UTC datetime of val milliseconds, when that is an int64; epoch_nano becomes a UTC datetime of the quotient val / 1000000 (the division itself is the machine operation and is not evaluated by the solver: assumption A-DIV)',
          '((__CPROVER_old(vx_depth) > 0 && tag == semantic_tag_epoch_milli && (__int128)val <= (__int128)INT64_MAX) ==> (*ec_p == 0 && vx_code == %s && vx_scalar_width == 8 && (__int128)(int64_t)vx_scalar == (__int128)val)) '
          '&& ((__CPROVER_old(vx_depth) > 0 && tag == semantic_tag_epoch_nano) ==> (*ec_p == 0 && vx_code == %s && vx_scalar_width == 8 && (__CPROVER_old(val) == 0 ? vx_scalar == 0 : (vx_div_in == (uint64_t)__CPROVER_old(val) && vx_scalar == vx_div_out))))' % (dt, dt)),
         ('ensures', '[C06][C08] a datetime never wraps: epoch_milli above 2^63-1 is refused', '(__CPROVER_old(vx_depth) > 0 && tag == semantic_tag_epoch_milli && (__int128)val > (__int128)INT64_MAX) ==> (*ec_p != 0 && vx_scalars == 0)')]
    return c
def BYTES(raw):
    return [('requires', WF + ' && (vx_depth == 0 || %s) && payload_len <= (size_t)INT32_MAX' % FRAME), ('assigns', ASG),
            ('ensures', '[C08] a scalar outside any document is refused', '__CPROVER_old(vx_depth) == 0 ==> (*ec_p == bson_errc_expected_bson_document && vx_patches == 0 && vx_codes == 0)'),
            ('ensures', '[C06][C08] binary ::= int32 subtype (byte*): the element gets the type byte 0x05, the int32 in front of the subtype byte is the number of payload bytes (subtype not counted), then the subtype (%s) and the payload' % ('the tag given' if raw else '0x80, user defined'),
             '__CPROVER_old(vx_depth) > 0 ==> (*ec_p == 0 && vx_codes == 1 && vx_code == bson_type_binary_type && vx_patches == 1 && (size_t)vx_patch_val == payload_len && vx_bufsize == vx_patch_at + 4 + 1 + payload_len && vx_subtype == %s)' % ('(uint8_t)raw_tag' if raw else '0x80'))]
NOTOP = ('ensures', '[C08] a scalar outside any document is refused', '__CPROVER_old(vx_depth) == 0 ==> (*ec_p == bson_errc_expected_bson_document && vx_scalars == 0 && vx_codes == 0 && vx_vals == 0 && vx_bufsize == __CPROVER_old(vx_bufsize))')
SCALAR_PRE = [('requires', WF + ' && (vx_depth == 0 || %s)' % FRAME), ('assigns', ASG), NOTOP]
NULL = SCALAR_PRE + [('ensures', '[C06][C08] null is the element type 0x0A with no payload; a null tagged undefined is the (deprecated) type 0x06, also without payload',
                      '__CPROVER_old(vx_depth) > 0 ==> (*ec_p == 0 && vx_codes == 1 && vx_code == (tag == semantic_tag_undefined ? 0x06 : 0x0A) && vx_scalars == 0 && vx_vals == 0 && vx_patches == 0)')]
BOOL = SCALAR_PRE + [('ensures', '[C06][C08] a boolean is the element type 0x08 followed by one byte, 0x01 for true and 0x00 for false',
                      '__CPROVER_old(vx_depth) > 0 ==> (*ec_p == 0 && vx_codes == 1 && vx_code == 0x08 && vx_vals == 1 && vx_val == (val ? 1 : 0) && vx_scalars == 0 && vx_patches == 0)')]
DOUBLE = SCALAR_PRE + [('ensures', '[C06][C08] a double is the element type 0x01 followed by its eight IEEE 754 binary64 bytes, little endian, every bit pattern as it is (NaN payloads, -0.0)',
                        '__CPROVER_old(vx_depth) > 0 ==> (*ec_p == 0 && vx_codes == 1 && vx_code == 0x01 && vx_scalars == 1 && vx_scalar_width == 8 && vx_scalar == vx_bits64(val) && vx_vals == 0 && vx_patches == 0)')]
PLAIN = '(tag != semantic_tag_float128 && tag != semantic_tag_id && tag != semantic_tag_regex)'
STRING = [('requires', WF + ' && (vx_depth == 0 || %s) && sv_len < (size_t)INT32_MAX' % FRAME), ('assigns', ASG), NOTOP,
          ('ensures', '[C06][C08] string ::= int32 (byte*) NUL: the element gets the type byte 0x02 (0x0D JavaScript code for the tag code), the int32 in front of the text is the number of bytes of the text plus one for the NUL, then the text and the NUL',
           '(__CPROVER_old(vx_depth) > 0 && %s && vx_utf8_ok) ==> (*ec_p == 0 && vx_codes == 1 && vx_code == (tag == semantic_tag_code ? 0x0D : 0x02) && vx_patches == 1 && (size_t)vx_patch_val == sv_len + 1 && vx_terminators == 1 && vx_bufsize == vx_patch_at + 4 + sv_len + 1 && vx_other_arms == 0)' % PLAIN),
          ('ensures', '[C08] text that is not valid UTF-8 is refused with invalid_utf8_text_string; the text is validated exactly once, before any byte of it is written',
           '(__CPROVER_old(vx_depth) > 0 && %s) ==> (vx_validations == 1 && (!vx_utf8_ok ==> (*ec_p == bson_errc_invalid_utf8_text_string && vx_patches == 0 && vx_terminators == 0)))' % PLAIN),
          ('ensures', '[C06] decimal128, object id and regular expression texts take their own arms (not under contract here)', '(__CPROVER_old(vx_depth) > 0 && !%s) ==> (vx_other_arms == 1 && vx_patches == 0)' % PLAIN)]
STRING_RULES = [
    (r'(?s)case semantic_tag::float128:\s*\{.*?break;\s*\}\s*case semantic_tag::id:\s*\{.*?break;\s*\}\s*case semantic_tag::regex:\s*\{.*?break;\s*\}',
     'case semantic_tag_float128: case semantic_tag_id: case semantic_tag_regex: vx_other_arms++; break;', 1),
    (r'auto sink = unicode_traits::validate\(sv\.data\(\), sv\.size\(\)\);\s*if \(sink\.ec != unicode_traits::unicode_errc\(\)\)', 'vx_validations++; VX_JSONCONS_ASSERT(vx_bufsize == offset + 4); if (!vx_utf8_ok)', 1),
    (r'for \(auto c : sv\)\s*\{\s*buffer_\.push_back\(c\);\s*\}', 'vx_bufsize += sv_len;', 1),
]
def V(name, anchor, csig, contract, ordinal=0, pre=()):
    return FuncSpec(name, E, anchor, count=1, csig=csig, contract=contract, aliases=AL, rules=list(pre) + RULES)
SPECS = [
    EnumSpec('bson_errc', 'include/jsoncons_ext/bson/bson_error.hpp'), EnumSpec('bson_container_type', TY), EnumSpec('semantic_tag', 'include/jsoncons/semantic_tag.hpp'),
    CopySpec('bson_types', TY, r'JSONCONS_INLINE_CONSTEXPR uint8_t double_type', r'max_key_type = 0x7f;', include_end=True, rules=[(r'JSONCONS_INLINE_CONSTEXPR uint8_t (\w+) = ([^;]+);', r'enum { bson_type_\1 = \2 };', 15, 30)]),
    V('before_value', r'void before_value\(uint8_t code\)', 'void before_value(struct bson_encoder* self, uint8_t code)', BEFORE),
    V('visit_begin_object', r'visit_begin_object\(semantic_tag, const ser_context&, std::error_code& ec\) final', 'void visit_begin_object(struct bson_encoder* self, int* ec_p)', BEGIN('document', 3)),
    V('visit_begin_array', r'visit_begin_array\(semantic_tag, const ser_context&, std::error_code& ec\) final', 'void visit_begin_array(struct bson_encoder* self, int* ec_p)', BEGIN('array', 4)),
    V('visit_end_object', r'visit_end_object\(const ser_context&, std::error_code& ec\) final', 'void visit_end_object(struct bson_encoder* self, int* ec_p)', END()),
    V('visit_end_array', r'visit_end_array\(const ser_context&, std::error_code& ec\) final', 'void visit_end_array(struct bson_encoder* self, int* ec_p)', END()),
    V('visit_key', r'visit_key\(const string_view_type& name, const ser_context&, std::error_code&\) final', 'void visit_key(struct bson_encoder* self, size_t name_len)', KEY),
    V('visit_byte_string', r'visit_byte_string\(const byte_string_view& b,\s*semantic_tag,\s*const ser_context&,\s*std::error_code& ec\) final', 'void visit_byte_string(struct bson_encoder* self, size_t payload_len, int* ec_p)', BYTES(False)),
    V('visit_byte_string_tagged', r'visit_byte_string\(const byte_string_view& b,\s*uint64_t raw_tag,\s*const ser_context&,\s*std::error_code& ec\) final', 'void visit_byte_string_tagged(struct bson_encoder* self, size_t payload_len, uint64_t raw_tag, int* ec_p)', BYTES(True)),
    V('visit_int64', r'visit_int64\(int64_t val,\s*semantic_tag tag,\s*const ser_context&,\s*std::error_code& ec\) final', 'void visit_int64(struct bson_encoder* self, int64_t val, uint8_t tag, int* ec_p)', INT(True)),
    V('visit_uint64', r'visit_uint64\(uint64_t val,\s*semantic_tag tag,\s*const ser_context&,\s*std::error_code& ec\) final', 'void visit_uint64(struct bson_encoder* self, uint64_t val, uint8_t tag, int* ec_p)', INT(False)),
    V('visit_null', r'visit_null\(semantic_tag tag, const ser_context&, std::error_code& ec\) final', 'void visit_null(struct bson_encoder* self, uint8_t tag, int* ec_p)', NULL),
    V('visit_bool', r'visit_bool\(bool val, semantic_tag, const ser_context&, std::error_code& ec\) final', 'void visit_bool(struct bson_encoder* self, bool val, int* ec_p)', BOOL,
      pre=[(r'buffer_\.push_back\(0x01\);', 'vx_push_val(0x01);', 1), (r'buffer_\.push_back\(0x00\);', 'vx_push_val(0x00);', 1)]),
    V('visit_double', r'visit_double\(double val,\s*semantic_tag,\s*const ser_context&,\s*std::error_code& ec\) final', 'void visit_double(struct bson_encoder* self, double val, int* ec_p)', DOUBLE,
      pre=[(r'binary::native_to_little\(val,\s*std::back_inserter\(buffer_\)\)', 'vx_put_le(vx_bits64(val), 8)', 1)]),
    V('visit_string', r'visit_string\(const string_view_type& sv, semantic_tag tag, const ser_context&, std::error_code& ec\) final', 'void visit_string(struct bson_encoder* self, size_t sv_len, uint8_t tag, int* ec_p)', STRING, pre=STRING_RULES),
]
BV = ['before_value']
HARNESSES = [
    Harness('before_value', 'h_before_value', enforce='before_value', method='LF', props=['C06', 'C08']),
    Harness('visit_begin_object', 'h_visit_begin_object', enforce='visit_begin_object', replace=BV, method='LF', props=['C06', 'C08', 'C10']),
    Harness('visit_begin_array', 'h_visit_begin_array', enforce='visit_begin_array', replace=BV, method='LF', props=['C06', 'C08', 'C10']),
    Harness('visit_end_object', 'h_visit_end_object', enforce='visit_end_object', method='LF', props=['C06', 'C08']),
    Harness('visit_end_array', 'h_visit_end_array', enforce='visit_end_array', method='LF', props=['C06', 'C08']),
    Harness('visit_key', 'h_visit_key', enforce='visit_key', method='LF', props=['C06', 'C08']),
    Harness('visit_byte_string', 'h_visit_byte_string', enforce='visit_byte_string', replace=BV, method='LF', props=['C06', 'C08']),
    Harness('visit_byte_string_tagged', 'h_visit_byte_string_tagged', enforce='visit_byte_string_tagged', replace=BV, method='LF', props=['C06', 'C08']),
    Harness('visit_null', 'h_visit_null', enforce='visit_null', replace=BV, method='LF', props=['C06', 'C08']),
    Harness('visit_bool', 'h_visit_bool', enforce='visit_bool', replace=BV, method='LF', props=['C06', 'C08']),
    Harness('visit_double', 'h_visit_double', enforce='visit_double', replace=BV, method='LF', props=['C06', 'C08'], note='native_to_little<double> copies the object representation (memcpy): modelled as the bit pattern'),
    Harness('visit_string', 'h_visit_string', enforce='visit_string', replace=BV, method='LF', props=['C06', 'C08'],
            note='plain and code strings; the decimal128 / object id / regex arms are replaced by one event by an extraction rule and excluded; UTF-8 validation is an event (unit utf8)'),
    Harness('visit_int64_none', 'h_visit_int64_none', enforce='visit_int64', replace=BV, method='LF', props=['C06', 'C08', 'C04'], solver='cadical', timeout=900, note='tag fixed to none (one solver query per tag)'),
    Harness('visit_int64_epoch_second', 'h_visit_int64_epoch_second', enforce='visit_int64', replace=BV, method='LF', props=['C06', 'C08', 'C04'], solver='cadical', timeout=900, note='tag fixed to epoch_second (one solver query per tag)'),
    Harness('visit_int64_epoch_milli', 'h_visit_int64_epoch_milli', enforce='visit_int64', replace=BV, method='LF', props=['C06', 'C08', 'C04'], solver='cadical', timeout=900, note='tag fixed to epoch_milli (one solver query per tag)'),
    Harness('visit_int64_epoch_nano', 'h_visit_int64_epoch_nano', enforce='visit_int64', replace=BV, method='LF', props=['C06', 'C08', 'C04'], solver='cadical', timeout=900, note='tag fixed to epoch_nano (one solver query per tag)'),
    Harness('visit_uint64_none', 'h_visit_uint64_none', enforce='visit_uint64', replace=BV, method='LF', props=['C06', 'C08', 'C04'], solver='cadical', timeout=900, note='tag fixed to none (one solver query per tag)'),
    Harness('visit_uint64_epoch_second', 'h_visit_uint64_epoch_second', enforce='visit_uint64', replace=BV, method='LF', props=['C06', 'C08', 'C04'], solver='cadical', timeout=900, note='tag fixed to epoch_second (one solver query per tag)'),
    Harness('visit_uint64_epoch_milli', 'h_visit_uint64_epoch_milli', enforce='visit_uint64', replace=BV, method='LF', props=['C06', 'C08', 'C04'], solver='cadical', timeout=900, note='tag fixed to epoch_milli (one solver query per tag)'),
    Harness('visit_uint64_epoch_nano', 'h_visit_uint64_epoch_nano', enforce='visit_uint64', replace=BV, method='LF', props=['C06', 'C08', 'C04'], solver='cadical', timeout=900, note='tag fixed to epoch_nano (one solver query per tag)'),
]
