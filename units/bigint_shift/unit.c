/* unit bigint_shift (C04, C05): the limb loops of basic_bigint::operator>>= and operator<<=.  A big integer is a little-endian sequence of 64-bit limbs; only
 * its length and the limbs that one arbitrary iteration touches are modelled: limb vx_i (cell vx_cell_i) and its neighbour (vx_cell_i1: limb i+1 for the
 * right shift, limb i-1 for the left shift); an access to any other limb is recorded (vx_touched_other) and makes the statement about the iteration void -
 * together with the assertion that it does not happen. */
#include "vx_common.h"
static size_t vx_n, vx_n0, vx_off, vx_i; static unsigned vx_steps, vx_reduces; static bool vx_touched_other, vx_lo_is_src;
static uint64_t vx_cell_i, vx_cell_i1, vx_old_i, vx_old_i1, vx_old_im1, vx_old_src; static uint64_t vx_dummy;
static void vx_reduce(void) { vx_reduces++; }
static void vx_resize(size_t n) { vx_n = n; }
static void vx_resize_top_zero(size_t n) { vx_n = n; if (vx_i == n - 1) { vx_cell_i = 0; vx_old_i = 0; } if (vx_i == n) { vx_cell_i1 = 0; vx_old_im1 = 0; } }   /* resize() appends zero limbs */
static void vx_drop_low(size_t q) { vx_off = q; }          /* memmove(data, data + q, (size - q) * 8): limb j becomes the old limb j + q; the cells stand for the limbs after the move */
/* right shift: limb i and limb i+1 */
static uint64_t* vx_at(size_t e)
{
    __CPROVER_assert(e < vx_n, "[C05] a limb inside the number is accessed");
    if (e == vx_i) { vx_steps += 0; return &vx_cell_i; }
    if (e == vx_i + 1) return &vx_cell_i1;
    vx_touched_other = true; __CPROVER_assert(0, "[C04] an iteration touches only its own limb and its neighbour"); return &vx_dummy;
}
/* left shift by whole limbs: the source limb i - q (read) */
static uint64_t* vx_at_src(size_t e, size_t q) { __CPROVER_assert(e < vx_n0, "[C05] the source limb is one of the old limbs"); vx_lo_is_src = (e + q == vx_i); return &vx_old_src; }
/* left shift by bits: limb i-1 (read only, still the old value because the loop runs from the top) */
static uint64_t* vx_at_below(size_t e) { __CPROVER_assert(e < vx_n && e + 1 == vx_i, "[C05] the limb below is accessed"); return &vx_old_im1; }
#define VX_STEP_DONE() (vx_steps++)
/*@FUNC shr@*/
/*@FUNC shl_words@*/
/*@FUNC shl_bits@*/
#ifdef VX_CBMC
static void setup(void) { vx_n = nondet_size(); __CPROVER_assume(vx_n <= SIZE_MAX / 16); vx_n0 = vx_n; vx_off = 0; vx_i = nondet_size(); vx_steps = 0; vx_reduces = 0; vx_touched_other = false; vx_lo_is_src = false;
    vx_cell_i = nondet_u64(); vx_cell_i1 = nondet_u64(); vx_old_i = vx_cell_i; vx_old_i1 = vx_cell_i1; vx_old_im1 = nondet_u64(); vx_old_src = nondet_u64(); }
void h_shr(void) { setup(); size_t k = nondet_size(); shr(k); }
void h_shl_words(void) { setup(); size_t k = nondet_size(); __CPROVER_assume(k / 64 <= SIZE_MAX / 16); shl_words(k); }
void h_shl_bits(void) { setup(); size_t k = nondet_size(); __CPROVER_assume(k < 64); shl_bits(k); }
#endif
