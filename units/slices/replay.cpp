// replay for unit slices: evaluates the slice / index on the real jsonpath / jmespath engines
#include <jsoncons/json.hpp>
#include <jsoncons_ext/jsonpath/jsonpath.hpp>
#include <jsoncons_ext/jmespath/jmespath.hpp>
#include "replay_util.hpp"
extern "C" {
#include "spec_slice.h"
}
using namespace jsoncons;
int main(int argc, char** argv)
{
    if (argc < 3) return 2;
    std::string h = argv[1];
    vx_replay_inputs in; if (!in.load(argv[2])) return 2;
    uint64_t size = in.u64("vx_size");
    if (size > 100000) VX_NOREPRO("array of " << size << " elements is too large to build; counterexample not minimised");
    json arr(json_array_arg);
    for (uint64_t i = 0; i < size; ++i) arr.push_back(i);
    bool is_array = in.u64("vx_is_array", 1) != 0;
    json doc = is_array ? arr : json(json_object_arg);
    if (h == "jp_slice" || h == "jm_slice") {
        bool hs = in.u64("vx_in_slice.start_.has"), he = in.u64("vx_in_slice.stop_.has");
        int64_t s = in.i64("vx_in_slice.start_.v"), e = in.i64("vx_in_slice.stop_.v"), st = in.i64("vx_in_slice.step_");
        std::string sl = (hs ? std::to_string(s) : "") + ":" + (he ? std::to_string(e) : "") + ":" + std::to_string(st);
        std::vector<uint64_t> want;
        if (is_array && st != 0) {
            spec_slice_bounds b = spec_slice(hs, s, he, e, st, size);
            if (st > 0) for (spec_i128 i = b.lower; i < b.upper; i += st) want.push_back((uint64_t)i);
            else for (spec_i128 i = b.upper; i > b.lower; i += st) want.push_back((uint64_t)i);
        }
        std::vector<uint64_t> got;
        std::string expr;
        try {
            if (h == "jp_slice") {
                if (st == 0) VX_NOREPRO("step 0 is rejected by the jsonpath compiler");
                expr = "$[" + sl + "]";
                json r = jsonpath::json_query(doc, expr);
                for (auto& x : r.array_range()) got.push_back(x.as<uint64_t>());
            } else {
                expr = "[" + sl + "]";
                std::error_code ec;
                json r = jmespath::search(doc, expr, ec);
                if (st == 0) { if (!ec) VX_REPRO("jmespath " << expr << ": zero step not reported"); VX_NOREPRO("zero step reported"); }
                if (ec) VX_REPRO("jmespath " << expr << " on array of " << size << ": error " << ec.message());
                if (r.is_array()) for (auto& x : r.array_range()) got.push_back(x.as<uint64_t>());
            }
        } catch (const std::exception& ex) {
            VX_REPRO(expr << " on array of " << size << " threw: " << ex.what());
        }
        if (got != want) {
            std::cout << "REPRODUCED: " << expr << " on [0.." << size << ") selected [";
            for (auto x : got) std::cout << x << ",";
            std::cout << "] expected [";
            for (auto x : want) std::cout << x << ",";
            std::cout << "]" << std::endl;
            return 1;
        }
        VX_NOREPRO(expr << " on [0.." << size << ") selects the RFC 9535 sequence (" << want.size() << " elements)");
    }
    if (h == "jp_index_select" || h == "jp_index_evaluate") {
        int64_t idx = in.i64("idx");
        std::string expr = "$[" + std::to_string(idx) + "]";
        std::vector<uint64_t> want, got;
        if (is_array) { if (idx >= 0 && (uint64_t)idx < size) want.push_back(idx); else if (idx < 0 && (spec_i128)size + idx >= 0) want.push_back(size + idx); }
        try { json r = jsonpath::json_query(doc, expr); for (auto& x : r.array_range()) got.push_back(x.as<uint64_t>()); }
        catch (const std::exception& ex) { VX_REPRO(expr << " threw: " << ex.what()); }
        if (got != want) VX_REPRO(expr << " on [0.." << size << ") selected " << got.size() << " elements, expected " << want.size());
        VX_NOREPRO(expr << " ok");
    }
    VX_NOREPRO("harness " << h << " has no replay");
}
