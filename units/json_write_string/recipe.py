# U-WSTR (C01, C08): write_string of the two JSON encoders
from core import FuncSpec, CopySpec, EnumSpec, Harness
E = 'include/jsoncons/json_encoder.hpp'
RULES = [
    (r'JSONCONS_LIKELY\(', '(', 1), (r'semantic_tag::(\w+)', r'semantic_tag_\1', 3), (r'bignum_format_kind::(\w+)', r'bignum_format_kind_\1', 1),
    (r'options_\.escape_all_non_ascii\(\)', 'vx_opt.escape_all_non_ascii_', 0, 3), (r'options_\.escape_solidus\(\)', 'vx_opt.escape_solidus_', 0, 3), (r'options_\.bignum_format\(\)', 'vx_opt.bignum_format_', 1),
    (r"sink_\.push_back\('\\\"'\);", 'vx_event(EV_QUOTE);', 4), (r'sink_\.append\(sv\.data\(\), sv\.length\(\)\);', 'vx_event(EV_RAW);', 1), (r'write_bignum_value\(sv\);', 'vx_event(EV_BIGNUM);', 2),
    (r'(?:std::size_t length = )?jsoncons::detail::escape_string\(sv\.data\(\), sv\.length\(\),\s*(\S+?),\s*(\S+?),\s*sink_\);', lambda m: ('size_t length = ' if False else '') + 'size_t length = vx_escape(%s, %s); (void)length;' % (m.group(1), m.group(2)), 1),
    (r'sv\.length\(\)', 'vx_len', 0, 2),
]
FAST = '(tag == semantic_tag_noesc && !vx_opt.escape_all_non_ascii_ && !vx_opt.escape_solidus_)'
BIG = '(tag == semantic_tag_bigint || (tag == semantic_tag_bigdec && vx_opt.bignum_format_ == bignum_format_kind_raw))'
def contract(pretty):
    c = [('requires', 'vx_nev == 0 && column_ <= SIZE_MAX / 4 && vx_len <= SIZE_MAX / 4 && vx_esc_len <= SIZE_MAX / 4'), ('assigns', 'column_, vx_nev, __CPROVER_object_whole(vx_ev), vx_esc_a, vx_esc_s'),
         ('ensures', '[C01][C08] a string is copied verbatim between two quotes only if the parser tagged it noesc and neither escape_all_non_ascii nor escape_solidus is on',
          '%s ? (vx_nev == 3 && vx_ev[0] == EV_QUOTE && vx_ev[1] == EV_RAW && vx_ev[2] == EV_QUOTE) : !(vx_nev >= 2 && vx_ev[1] == EV_RAW)' % FAST),
         ('ensures', '[C01][C08] every other string that is not a big number is written as quote, escape_string with exactly the two options of the encoder, quote',
          '(!%s && !%s) ==> (vx_nev == 3 && vx_ev[0] == EV_QUOTE && vx_ev[1] == EV_ESCAPE && vx_ev[2] == EV_QUOTE && vx_esc_a == vx_opt.escape_all_non_ascii_ && vx_esc_s == vx_opt.escape_solidus_)' % (FAST, BIG)),
         ('ensures', '[C08] big integers, and big decimals under bignum_format raw, go to write_bignum_value', '(!%s && %s) ==> (vx_nev == 1 && vx_ev[0] == EV_BIGNUM)' % (FAST, BIG))]
    if pretty:
        c.append(('ensures', '[C01] the pretty printer\'s column advances by the number of characters written (content plus two quotes)', '%s ==> column_ == __CPROVER_old(column_) + vx_len + 2' % FAST))
    return c
SIG = r'void write_string\(const string_view_type& sv, semantic_tag tag, const ser_context&, std::error_code&\)'
SPECS = [
    EnumSpec('semantic_tag', 'include/jsoncons/semantic_tag.hpp'), EnumSpec('bignum_format_kind', 'include/jsoncons/json_options.hpp'),
    FuncSpec('write_string_pretty', E, SIG, ordinal=0, count=2, csig='void write_string_pretty(uint8_t tag)', contract=contract(True), rules=RULES),
    FuncSpec('write_string_compact', E, SIG, ordinal=1, count=2, csig='void write_string_compact(uint8_t tag)', contract=contract(False), rules=RULES),
]
HARNESSES = [Harness('write_string_pretty', 'h_write_string_pretty', enforce='write_string_pretty', method='LF', props=['C01', 'C08']),
             Harness('write_string_compact', 'h_write_string_compact', enforce='write_string_compact', method='LF', props=['C01', 'C08'])]
