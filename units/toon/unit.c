/* unit toon: TOON string escaping (encoder) and the quote-aware scanners of the reader */
#include "vx_common.h"
#include "spec_toon.h"
#include <stdlib.h>
#define VX_IN_MAX 100000000
/* ---- escape_toon_string: output monitor = S-TOON unescape, compared with the input on the fly -------------------------------------- */
static char* vx_in; static size_t vx_len;
static size_t vx_k, vx_out_n; static int vx_ust; static bool vx_bad;
static void vx_toon_out(char ch)
{
    int r = spec_toon_unescape_step(&vx_ust, ch);
    vx_out_n++;
    if (r == -2) vx_bad = true;
    else if (r >= 0) { if (!(vx_k < vx_len) || (unsigned char)vx_in[vx_k] != r) vx_bad = true; vx_k++; }
    __CPROVER_assert(!vx_bad, "[C18] every character written is valid inside a TOON quoted string and decodes to the next character of the content");
}
/*@FUNC escape_toon_string@*/

/* ---- row scanners: the S-TOON row DFA runs in lockstep with the code (one step per character the code examines) ------------------------ */
static char vx_delim;
static int vx_st; static bool vx_lang_ok;            /* DFA state; the row read so far is in the language produced by the encoder */
static size_t vx_cell_start, vx_cells, vx_delims;   /* start of the open cell, cells closed, delimiters seen */
static size_t vx_wc;                                 /* watched cell number (arbitrary) */
static size_t vx_spec_start, vx_spec_len;            /* extent of the watched cell according to the specification */
static size_t vx_calls, vx_act_start, vx_act_len;    /* cells handed to parse_primitive; extent of the watched one */
static size_t vx_keys, vx_key_w, vx_nfields; static bool vx_key_bad;
static bool vx_prim_fail, vx_finalized;
static void vx_close_cell(size_t start, size_t len) { if (vx_cells == vx_wc) { vx_spec_start = start; vx_spec_len = len; } vx_cells++; }
static void VX_ROW_STEP(size_t i, char c)
{
    switch (vx_st) {
    case ROW_START: if (c == '"') { vx_st = ROW_INQ; vx_cell_start = i; } else if (c == vx_delim) { vx_st = ROW_BAD; } else { vx_st = ROW_UNQ; vx_cell_start = i; } break;
    case ROW_UNQ:   if (c == vx_delim) { vx_close_cell(vx_cell_start, i - vx_cell_start); vx_delims++; vx_st = ROW_START; } else if (c == '"') vx_st = ROW_BAD; break;
    case ROW_INQ:   if (c == '\\') vx_st = ROW_ESC; else if (c == '"') { vx_close_cell(vx_cell_start, i - vx_cell_start + 1); vx_st = ROW_AFTER; } break;
    case ROW_ESC:   vx_st = ROW_INQ; break;
    case ROW_AFTER: if (c == vx_delim) { vx_delims++; vx_st = ROW_START; } else vx_st = ROW_BAD; break;
    default: break;
    }
    if (vx_st == ROW_BAD) vx_lang_ok = false;
}
static void VX_FINALIZE(size_t n)
{
    if (vx_st == ROW_UNQ) vx_close_cell(vx_cell_start, n - vx_cell_start);
    else if (vx_st == ROW_INQ || vx_st == ROW_ESC) vx_lang_ok = false;          /* unterminated string */
    else if (vx_st == ROW_START && vx_delims > 0) vx_lang_ok = false;            /* empty last cell: never written by the encoder */
    vx_finalized = true;
}
/* parse_primitive(span(line.data()+offset, length)) */
static bool vx_cell(size_t offset, size_t len)
{
    if (vx_calls == vx_wc) { vx_act_start = offset; vx_act_len = len; }
    vx_calls++;
    bool ok = nondet_bool(); if (!ok) vx_prim_fail = true;
    return ok;
}
static void vx_key(size_t idx) { __CPROVER_assert(idx < vx_nfields, "[C05][C18] the field index is inside the header's field list"); if (vx_keys != idx) vx_key_bad = true; vx_keys++; }
enum { VX_OK = 0, VX_ERR_PRIMITIVE = 1, toon_errc_too_many_values_in_row = 2, toon_errc_too_few_values_in_row = 3, toon_errc_inline_array_length_mismatch = 4 };
static char* vx_line; static size_t vx_n;
/*@FUNC parse_row_tabular@*/
/*@FUNC parse_row_inline@*/

#ifdef VX_CBMC
static void setup_in(void)
{
    vx_len = nondet_size();
#ifdef VX_SMALL
    __CPROVER_assume(vx_len <= 8);
#endif
    __CPROVER_assume(vx_len <= VX_IN_MAX);
    vx_in = malloc(vx_len ? vx_len : 1); __CPROVER_assume(vx_in != 0);
    vx_k = 0; vx_ust = 0; vx_bad = false; vx_out_n = 0;
}
void h_escape(void) { setup_in(); escape_toon_string(vx_in, vx_len); }
static void setup_row(void)
{
    vx_n = nondet_size();
#ifdef VX_SMALL
    __CPROVER_assume(vx_n <= 8);
#endif
    __CPROVER_assume(vx_n <= VX_IN_MAX);
    vx_line = malloc(vx_n ? vx_n : 1); __CPROVER_assume(vx_line != 0);
    vx_delim = (char)nondet_u8(); __CPROVER_assume(vx_delim == ',' || vx_delim == '|' || vx_delim == '\t');
    vx_st = ROW_START; vx_lang_ok = true; vx_cell_start = 0; vx_cells = 0; vx_delims = 0; vx_wc = nondet_size();
    vx_calls = 0; vx_keys = 0; vx_key_bad = false; vx_nfields = nondet_size(); vx_prim_fail = false; vx_finalized = false;
}
void h_row_tabular(void) { setup_row(); parse_row_tabular(vx_line, vx_n, vx_delim); }
void h_row_inline(void) { setup_row(); parse_row_inline(vx_line, vx_n, vx_delim, nondet_size(), nondet_bool()); }
#endif
