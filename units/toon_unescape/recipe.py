# U-TOON-UNESC (C18, C05): the reader's unescape_string
from core import FuncSpec, CopySpec, EnumSpec, Harness
R = 'include/jsoncons_ext/toon/toon_reader.hpp'
L1 = '''__CPROVER_assigns(cur)
  __CPROVER_loop_invariant(__CPROVER_same_object(cur, vx_buf) && __CPROVER_POINTER_OFFSET(cur) <= vx_n && vx_pre_ok)
  __CPROVER_decreases(vx_n - __CPROVER_POINTER_OFFSET(cur))'''
L2 = '''__CPROVER_assigns(cur, dst, vx_k, vx_outs, vx_bad, vx_invalid_seen)
  __CPROVER_loop_invariant(__CPROVER_same_object(cur, vx_buf) && __CPROVER_same_object(dst, vx_buf) && __CPROVER_POINTER_OFFSET(cur) <= vx_n && __CPROVER_POINTER_OFFSET(dst) <= __CPROVER_POINTER_OFFSET(cur)
      && vx_k == __CPROVER_POINTER_OFFSET(cur) && vx_outs == __CPROVER_POINTER_OFFSET(dst) - vx_first && !vx_bad && !vx_invalid_seen && vx_first <= __CPROVER_POINTER_OFFSET(dst))
  __CPROVER_decreases(vx_n - __CPROVER_POINTER_OFFSET(cur))'''
RULES = [
    (r'using result_type = jsoncons::expected<jsoncons::string_view,\s*toon_errc>;', 'bool vx_pre_ok = true; size_t vx_first = 0;', 1),
    (r'char\* cur = value\.data\(\);', 'char* cur = vx_buf;', 1), (r'char\* end = cur \+ value\.size\(\);', 'char* end = cur + vx_n;', 1),
    (r'return result_type\{jsoncons::string_view\{value\.data\(\), value\.size\(\)\}\};', 'vx_k = vx_n; return (struct vx_result){0, vx_n};', 1),
    (r'copy_escape:', 'copy_escape: ;', 1),
    (r'char\* dst = cur;', 'char* dst = cur; vx_first = (size_t)(cur - vx_buf); vx_k = vx_first;', 1),
    (r'return result_type\{jsoncons::unexpect, toon_errc::(\w+)\};', r'{ VX_ERR(cur); return (struct vx_result){toon_errc_\1, 0}; }', 2),
    # the store into the buffer is replaced by the assertion that it is a store into the buffer behind the read position (in-place decoding never overwrites unread input);
    # with the store kept, the solver has to carry a symbolic-size array through the loop and runs out of memory
    (r"\*dst\+\+ = ('(?:\\.|[^'])+');", r'VX_OUT(\1, cur); VX_STORE(dst, cur); dst++;', 5), (r'\*dst\+\+ = \*cur\+\+;', 'VX_OUT(*cur, cur); VX_STORE(dst, cur); dst++; cur++;', 1),
    (r'return result_type\{jsoncons::string_view\{value\.data\(\), std::size_t\(dst - value\.data\(\)\)\}\s*\};', 'return (struct vx_result){0, (size_t)(dst - vx_buf)};', 1),
]
C = [
    ('requires', 'value_data == vx_buf && value_size == vx_n && vx_n <= 100000000 && __CPROVER_is_fresh(vx_buf, vx_n ? vx_n : 1) && vx_k == 0 && vx_outs == 0 && !vx_bad && !vx_invalid_seen'),
    ('assigns', 'vx_k, vx_outs, vx_bad, vx_invalid_seen'),
    ('ensures', '[C18] success: the whole input was decoded - every ordinary character to itself, each of the five escape sequences to its character - and the length returned is the number of decoded characters',
     '__CPROVER_return_value.ec == 0 ==> (!vx_bad && !vx_invalid_seen && vx_k == vx_n && __CPROVER_return_value.len <= vx_n)'),
    ('ensures', '[C18] failure is invalid_escape_sequence and occurs only at an invalid or dangling escape', '__CPROVER_return_value.ec != 0 ==> (__CPROVER_return_value.ec == toon_errc_invalid_escape_sequence && vx_invalid_seen && !vx_bad)'),
]
SPECS = [
    EnumSpec('toon_errc', 'include/jsoncons_ext/toon/toon_error.hpp'),
    FuncSpec('unescape_string', R, r'unescape_string\(jsoncons::span<char> value\)', count=1, csig='struct vx_result unescape_string(char* value_data, size_t value_size)', contract=C, rules=RULES, loops={0: L1, 1: L2, 'count': 2}),
]
HARNESSES = [Harness('unescape_string', 'h_unescape_string', enforce='unescape_string', loop_contracts=True, method='LC', props=['C18', 'C05'], expect_classes={'loop_invariant_step': 2})]
