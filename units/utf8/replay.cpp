// replay for unit utf8: unicode_traits::validate on every byte sequence of length 1, 2 and 3, on every 4-byte sequence whose first byte is 0xf0..0xf5 with the
// continuation bytes at their boundary values, embedded at the start, the middle and the end of ASCII text; converting every scalar value (and the
// surrogates) from UTF-32 to UTF-8; against RFC 3629 (well-formed byte sequences table) written out independently.
#include <jsoncons/json.hpp>
#include <jsoncons/utility/unicode_traits.hpp>
#include <cstring>
#include <cstdlib>
#include "replay_util.hpp"
using namespace jsoncons;
static bool ref_valid(const std::string& s)
{
    size_t i = 0, n = s.size();
    while (i < n) { unsigned char c = (unsigned char)s[i];
        auto cont = [&](size_t k, unsigned lo, unsigned hi) { return i + k < n && (unsigned char)s[i + k] >= lo && (unsigned char)s[i + k] <= hi; };
        if (c <= 0x7f) i += 1;
        else if (c >= 0xc2 && c <= 0xdf) { if (!cont(1, 0x80, 0xbf)) return false; i += 2; }
        else if (c == 0xe0) { if (!cont(1, 0xa0, 0xbf) || !cont(2, 0x80, 0xbf)) return false; i += 3; }
        else if ((c >= 0xe1 && c <= 0xec) || c == 0xee || c == 0xef) { if (!cont(1, 0x80, 0xbf) || !cont(2, 0x80, 0xbf)) return false; i += 3; }
        else if (c == 0xed) { if (!cont(1, 0x80, 0x9f) || !cont(2, 0x80, 0xbf)) return false; i += 3; }
        else if (c == 0xf0) { if (!cont(1, 0x90, 0xbf) || !cont(2, 0x80, 0xbf) || !cont(3, 0x80, 0xbf)) return false; i += 4; }
        else if (c >= 0xf1 && c <= 0xf3) { if (!cont(1, 0x80, 0xbf) || !cont(2, 0x80, 0xbf) || !cont(3, 0x80, 0xbf)) return false; i += 4; }
        else if (c == 0xf4) { if (!cont(1, 0x80, 0x8f) || !cont(2, 0x80, 0xbf) || !cont(3, 0x80, 0xbf)) return false; i += 4; }
        else return false; }
    return true;
}
int main(int argc, char** argv)
{
    if (argc < 3) return 2;
    int bad = 0; long total = 0; std::string first;
    auto test = [&](const std::string& core) { for (int emb = 0; emb < 3; ++emb) { std::string s = emb == 0 ? core : emb == 1 ? "ab" + core + "cd" : "xyz" + core; ++total;
        bool got = unicode_traits::validate(s.data(), s.size()).ec == unicode_traits::unicode_errc(); bool want = ref_valid(s);
        if (got != want) { if (!bad) { std::ostringstream os; os << "bytes"; for (unsigned char c : s) os << ' ' << std::hex << (int)c; os << (got ? " accepted" : " refused") << ", RFC 3629 says " << (want ? "well-formed" : "ill-formed"); first = os.str(); } ++bad; } } };
    for (int a = 0; a < 256; ++a) { test(std::string(1, (char)a)); for (int b = 0; b < 256; ++b) { test(std::string{(char)a, (char)b}); if (a >= 0xc0) for (int c = 0; c < 256; c += (c >= 0x7e && c <= 0xc1 ? 1 : 7)) test(std::string{(char)a, (char)b, (char)c}); } }
    const int edge[] = {0x00, 0x7f, 0x80, 0x8f, 0x90, 0x9f, 0xa0, 0xbf, 0xc0, 0xff};
    for (int a = 0xf0; a <= 0xf5; ++a) for (int b : edge) for (int c : edge) for (int d : edge) test(std::string{(char)a, (char)b, (char)c, (char)d});
    // UTF-32 -> UTF-8 of every code point
    for (uint32_t cp = 0; cp <= 0x110000; cp += (cp < 0x3000 || (cp >= 0xd700 && cp <= 0xe100) || cp >= 0x10ff00 ? 1 : 61)) { ++total; std::string out; auto r = unicode_traits::convert(&cp, 1, out);
        bool scalar = cp < 0xd800 || (cp > 0xdfff && cp <= 0x10ffff); bool ok = r.ec == unicode_traits::unicode_errc();
        std::string want; if (cp < 0x80) want = {(char)cp}; else if (cp < 0x800) want = {(char)(0xc0 | cp >> 6), (char)(0x80 | (cp & 63))}; else if (cp < 0x10000) want = {(char)(0xe0 | cp >> 12), (char)(0x80 | ((cp >> 6) & 63)), (char)(0x80 | (cp & 63))};
        else want = {(char)(0xf0 | cp >> 18), (char)(0x80 | ((cp >> 12) & 63)), (char)(0x80 | ((cp >> 6) & 63)), (char)(0x80 | (cp & 63))};
        if (ok != scalar || (ok && out != want)) { if (!bad) first = "code point " + std::to_string(cp) + (ok ? " converted" : " refused"); ++bad; } }
    // to_codepoint on exact-size heap buffers (no terminator behind the view): every 1-4 byte prefix of a well-formed sequence and some ill-formed ones; a truncated or ill-formed
    // sequence is refused without reading past the end (ASan decides), a complete one gives its code point
    { const std::vector<std::string> seqs = {"A", "\xC3\xA9", "\xE2\x82\xAC", "\xF0\x9F\x98\x80", "\xED\x9F\xBF", "\xF4\x8F\xBF\xBF", "\xC3", "\xE2\x82", "\xF0\x9F\x98", "\xF0\x9F", "\xE2", "\xF0", "\x80", "\xFF"};
      for (const std::string& full : seqs) for (size_t pre = 0; pre < 3; ++pre) { ++total; size_t n = pre + full.size(); char* buf = (char*)malloc(n); memset(buf, 'a', pre); memcpy(buf + pre, full.data(), full.size());
          const char* it = buf + pre; uint32_t cp = 0; auto r = unicode_traits::to_codepoint(it, (const char*)(buf + n), cp); bool ok = r.ec == unicode_traits::unicode_errc(); bool want = ref_valid(full);
          if (ok != want || (ok && r.ptr != buf + n)) { if (!bad) { std::ostringstream os; os << "to_codepoint on the exact buffer"; for (unsigned char c : full) os << ' ' << std::hex << (int)c; os << (ok ? " succeeds" : " fails") << ", RFC 3629 says " << (want ? "well-formed" : "ill-formed or truncated"); first = os.str(); } ++bad; }
          free(buf); } }
    if (bad) VX_REPRO(bad << " of " << total << " cases differ from RFC 3629, first: " << first);
    VX_NOREPRO("all " << total << " cases agree with RFC 3629");
}
