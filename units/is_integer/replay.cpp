// replay for unit is_integer: json values holding the boundary integers of every width (as int64 and as uint64 storage, also after copy, move and inside
// containers): is<T>() must be true exactly when the number is a value of T, and then as<T>() must return it.
#include <jsoncons/json.hpp>
#include "replay_util.hpp"
using namespace jsoncons;
static int bad = 0, total = 0; static std::string first;
template <class T> static void chk(const json& j, __int128 v, const char* tn)
{
    ++total; bool want = v >= (__int128)std::numeric_limits<T>::lowest() && v <= (__int128)std::numeric_limits<T>::max(); bool got = j.is<T>();
    if (got != want || (got && (__int128)j.as<T>() != v)) { if (!bad) first = std::string("is<") + tn + ">() of " + j.to_string() + (got ? " is true" : " is false") + (got ? ", as<> gives " + std::to_string((long long)j.as<T>()) : ""); ++bad; }
}
static void all(const json& j, __int128 v) { chk<int8_t>(j, v, "int8_t"); chk<int16_t>(j, v, "int16_t"); chk<int32_t>(j, v, "int32_t"); chk<int64_t>(j, v, "int64_t"); chk<long long>(j, v, "long long");
    chk<uint8_t>(j, v, "uint8_t"); chk<uint16_t>(j, v, "uint16_t"); chk<uint32_t>(j, v, "uint32_t"); chk<uint64_t>(j, v, "uint64_t"); chk<unsigned long long>(j, v, "unsigned long long"); }
int main(int argc, char** argv)
{
    if (argc < 3) return 2;
    std::vector<__int128> vals = {0, 1, -1}; for (int k : {7, 8, 15, 16, 31, 32, 63, 64}) for (int d = -1; d <= 1; ++d) { vals.push_back(((__int128)1 << k) + d); vals.push_back(-((__int128)1 << k) + d); }
    for (__int128 v : vals) {
        if (v >= INT64_MIN && v <= INT64_MAX) { json j((int64_t)v); all(j, v); json c = j; all(c, v); json a(json_array_arg); a.push_back(j); all(a[0], v); json p = json::parse(j.to_string()); all(p, v); }
        if (v >= 0 && v <= (__int128)UINT64_MAX) { json j((uint64_t)v); all(j, v); json m = std::move(j); all(m, v); json o(json_object_arg); o.try_emplace("k", m); all(o["k"], v); json p = json::parse(m.to_string()); all(p, v); }
    }
    if (bad) VX_REPRO(bad << " of " << total << " is<T>() / as<T>() answers are wrong, first: " << first);
    VX_NOREPRO("all " << total << " is<T>() answers say exactly whether the number is a value of T, and as<T>() returns it");
}
