// replay for unit cbor_chunks: indefinite-length byte and text strings built from 0..3 chunks, with every head width for the chunk lengths, and the malformed
// variants RFC 8949 names (chunk of the other major type, nested indefinite-length chunk, integer between the chunks, missing break, truncated chunk, a UTF-8
// code point split across two text chunks): the real decoder must return the concatenation for the well-formed ones and an error for the others.
#include <jsoncons/json.hpp>
#include <jsoncons_ext/cbor/cbor.hpp>
#include "replay_util.hpp"
using namespace jsoncons;
typedef std::vector<uint8_t> bytes;
static void head(bytes& b, int major, size_t n, int width) { if (width == 0 && n < 24) b.push_back((uint8_t)(major << 5 | n)); else if (width <= 1 && n < 256) { b.push_back((uint8_t)(major << 5 | 24)); b.push_back((uint8_t)n); }
    else if (width <= 2) { b.push_back((uint8_t)(major << 5 | 25)); b.push_back((uint8_t)(n >> 8)); b.push_back((uint8_t)n); } else { b.push_back((uint8_t)(major << 5 | 26)); b.push_back(0); b.push_back(0); b.push_back((uint8_t)(n >> 8)); b.push_back((uint8_t)n); } }
int main(int argc, char** argv)
{
    if (argc < 3) return 2;
    int bad = 0, total = 0; std::string first;
    auto expect = [&](const bytes& b, bool ok, const json& want, const std::string& what) {
        ++total; std::error_code ec; json got; try { json_decoder<json> dec; cbor::cbor_bytes_reader reader(b, dec); reader.read(ec); if (!ec) got = dec.get_result(); } catch (const std::exception&) { ec = cbor::cbor_errc::unexpected_eof; }
        bool fine = ok ? (!ec && got == want) : (bool)ec;
        if (!fine) { if (!bad) { first = what + ": "; for (auto x : b) { char t[4]; snprintf(t, 4, "%02x ", x); first += t; } first += ok ? "should decode to " + want.to_string() + (ec ? " but gives " + ec.message() : " but gives " + got.to_string()) : "should be rejected but decodes to " + got.to_string(); } ++bad; }
    };
    const std::string parts[] = {"", "a", "bc", "\xc3\xa9"};   // the last one is one two-byte code point
    for (int major = 2; major <= 3; ++major) for (int w = 0; w < 4; ++w) for (int n = 0; n <= 3; ++n) for (int mix = 0; mix < 16; ++mix) {
        bytes b; b.push_back((uint8_t)(major << 5 | 31)); std::string cat;
        for (int k = 0; k < n; ++k) { const std::string& s = parts[(mix >> (2 * (k % 2))) & 3]; head(b, major, s.size(), w); b.insert(b.end(), s.begin(), s.end()); cat += s; }
        bytes good = b; good.push_back(0xff);
        json want = major == 3 ? json(cat) : json(byte_string_arg, byte_string_view((const uint8_t*)cat.data(), cat.size()));
        expect(good, true, want, "well-formed indefinite-length string");
        expect(b, false, json(), "missing break");
        { bytes x = b; head(x, major == 3 ? 2 : 3, 1, 0); x.push_back('z'); x.push_back(0xff); expect(x, false, json(), "chunk of the other string type"); }
        { bytes x = b; x.push_back((uint8_t)(major << 5 | 31)); x.push_back(0xff); x.push_back(0xff); expect(x, false, json(), "nested indefinite-length chunk"); }
        { bytes x = b; x.push_back(0x01); x.push_back(0xff); expect(x, false, json(), "integer among the chunks"); }
        { bytes x = b; head(x, major, 3, w); x.push_back('q'); expect(x, false, json(), "truncated chunk"); }
    }
    { bytes x = {0x7f, 0x61, 0xc3, 0x61, 0xa9, 0xff}; expect(x, false, json(), "UTF-8 code point split across two text chunks"); }
    { bytes x = {0x5f, 0x41, 0xc3, 0x41, 0xa9, 0xff}; const uint8_t raw[] = {0xc3, 0xa9}; expect(x, true, json(byte_string_arg, byte_string_view(raw, 2)), "byte chunks are not UTF-8 checked"); }
    if (bad) VX_REPRO(bad << " of " << total << " indefinite-length strings are not handled as RFC 8949 prescribes, first: " << first);
    VX_NOREPRO("all " << total << " indefinite-length strings are decoded or rejected as RFC 8949 prescribes");
}
