// finding probe csv_rows (C18): tables whose rows consist of one empty field, under each quote style, type inference off on read.  RFC 4180 cannot tell such a
// row from an empty line; jsoncons writes the empty line in the minimal style and its reader skips empty lines, so the row is lost (F37).  The neighbours hold.
#include <jsoncons/json.hpp>
#include <jsoncons_ext/csv/csv.hpp>
#include <iostream>
using namespace jsoncons;
struct pcase { const char* id; const char* doc; csv::quote_style_kind style; };
static const pcase cases[] = {
    {"minimal_single_empty_row_between", R"([["a"],[""],["b"]])", csv::quote_style_kind::minimal}, {"minimal_single_empty_row_first", R"([[""],["b"]])", csv::quote_style_kind::minimal}, {"minimal_single_empty_row_last", R"([["a"],[""]])", csv::quote_style_kind::minimal},
    {"all_single_empty_row_between", R"([["a"],[""],["b"]])", csv::quote_style_kind::all}, {"nonnumeric_single_empty_row_between", R"([["a"],[""],["b"]])", csv::quote_style_kind::nonnumeric},
    {"minimal_two_empty_fields", R"([["a","b"],["",""],["c","d"]])", csv::quote_style_kind::minimal}, {"minimal_leading_empty_field", R"([["","x"],["y",""]])", csv::quote_style_kind::minimal}, {"minimal_plain", R"([["a"],["b"]])", csv::quote_style_kind::minimal},
};
int main(int argc, char** argv)
{
    for (const pcase& c : cases) {
        if (argc > 1 && std::string(argv[1]) != c.id) continue;
        json v = json::parse(c.doc); std::string t, what;
        try { csv::encode_csv(v, t, csv::csv_options{}.quote_style(c.style)); json r = csv::decode_csv<json>(t, csv::csv_options{}.assume_header(false).mapping_kind(csv::csv_mapping_kind::n_rows).infer_types(false)); if (r != v) what = "decoded as " + r.to_string(); }
        catch (const std::exception& e) { what = std::string("exception: ") + e.what(); }
        for (auto& ch : t) if (ch == '\n') ch = '|';
        if (what.empty()) std::cout << "PROBE " << c.id << " HOLDS\n"; else std::cout << "PROBE " << c.id << " FAILS: " << c.doc << " is written as " << t << " and " << what << "\n";
    }
    return 0;
}
