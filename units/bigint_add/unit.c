/* unit bigint_add (C04): operator+=(unsigned) of basic_bigint.  The number has vx_n limbs (any number); its limbs are materialised when read, consistently with the
 * ghost description: limb 0 = vx_a0; z = the first limb above 0 that is not all ones (the limb appended by resize is 0, so z <= n); one arbitrary limb w is
 * watched: its old value is vx_old_w, a write to it is kept in vx_new_w. */
#include "vx_common.h"
static size_t vx_n, vx_n0, vx_z, vx_w; static uint64_t vx_a0, vx_old_w, vx_new_w, vx_scratch; static bool vx_negative, vx_w_written, vx_sub_path; static unsigned vx_reduces, vx_reads;
static void vx_reduce(void) { vx_reduces++; }
static void vx_resize_plus1(void) { vx_n = vx_n + 1; }     /* resize(size + 1): the new top limb is 0 */
static int64_t vx_neg_arg;
static uint64_t vx_limb0;   /* limb 0 is read again after it has been written: it is kept */
static uint64_t vx_get(size_t i)
{
    __CPROVER_assert(i < vx_n, "[C05] a limb inside the number is read");
    vx_reads++;
    if (i == 0) return vx_limb0;
    if (i == vx_w) return vx_w_written ? vx_new_w : vx_old_w;
    if (i < vx_z) return UINT64_MAX;
    if (i == vx_n0) { uint64_t v = 0; return v; }          /* the limb appended by resize */
    { uint64_t v = nondet_u64(); if (i == vx_z) __CPROVER_assume(v != UINT64_MAX); return v; }
}
static uint64_t* vx_set(size_t i) { __CPROVER_assert(i < vx_n, "[C05] a limb inside the number is written"); if (i == 0) return &vx_limb0; if (i == vx_w) { vx_w_written = true; return &vx_new_w; } return &vx_scratch; }
#define VX_SET(i) (*vx_set(i))
#define VX_ADDTO(i) (*vx_addto(i))
static uint64_t* vx_addto(size_t i) { uint64_t cur = vx_get(i); uint64_t* p = vx_set(i); *p = cur; return p; }
/*@FUNC add_unsigned@*/
/*@FUNC add_signed@*/
#ifdef VX_CBMC
void h_add_unsigned(void)
{
    vx_n = nondet_size(); vx_z = nondet_size(); vx_w = nondet_size(); vx_a0 = nondet_u64(); vx_old_w = nondet_u64(); vx_negative = false; vx_w_written = false; vx_reduces = 0; vx_reads = 0; vx_sub_path = false;
    __CPROVER_assume(vx_n >= 1 && vx_n <= SIZE_MAX / 16 && vx_z >= 1 && vx_z <= vx_n && vx_w >= 1 && vx_w <= vx_n);
    vx_n0 = vx_n; vx_limb0 = vx_a0;
    __CPROVER_assume(vx_w != vx_n || vx_old_w == 0);
    __CPROVER_assume(!(vx_w >= 1 && vx_w < vx_z) || vx_old_w == UINT64_MAX); __CPROVER_assume(vx_w != vx_z || vx_old_w != UINT64_MAX);
    uint64_t y = nondet_u64(); add_unsigned(y);
}
void h_add_signed(void)
{
    vx_n = nondet_size(); vx_z = nondet_size(); vx_w = nondet_size(); vx_a0 = nondet_u64(); vx_old_w = nondet_u64(); vx_negative = nondet_bool(); vx_w_written = false; vx_reduces = 0; vx_reads = 0; vx_sub_path = false;
    __CPROVER_assume(vx_n >= 1 && vx_n <= SIZE_MAX / 16 && vx_z >= 1 && vx_z <= vx_n && vx_w >= 1 && vx_w <= vx_n);
    vx_n0 = vx_n; vx_limb0 = vx_a0;
    __CPROVER_assume(vx_w != vx_n || vx_old_w == 0);
    __CPROVER_assume(!(vx_w >= 1 && vx_w < vx_z) || vx_old_w == UINT64_MAX); __CPROVER_assume(vx_w != vx_z || vx_old_w != UINT64_MAX);
    int64_t y = nondet_i64(); add_signed(y);
}
#endif
