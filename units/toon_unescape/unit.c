/* unit toon_unescape (C18, C05): unescape_string of the TOON reader, the in-place inverse of the encoder's escape_toon_string (unit toon).  TOON knows five
 * escapes inside quotes (backslash, quote, n, r, t); anything else after a backslash, and a backslash at the very end, is invalid_escape_sequence.
 * A monitor decodes the input with the S-TOON rule in lock-step with the code's output; the destination pointer never overtakes the read pointer. */
#include "vx_common.h"
#include <stdlib.h>
/*@ENUM toon_errc@*/
static char* vx_buf; static size_t vx_n;
/* monitor over the input as it was before the call (ghost copy is not needed: the code writes only behind its read position, which is proved) */
static size_t vx_k, vx_outs; static bool vx_bad, vx_invalid_seen;
static int vx_dec(size_t* k) { char c = vx_buf[*k]; (*k)++; if (c != '\\') return (unsigned char)c; if (*k >= vx_n) return -2; char d = vx_buf[*k]; (*k)++;
    switch (d) { case 'n': return '\n'; case 't': return '\t'; case 'r': return '\r'; case '\\': return '\\'; case '"': return '"'; default: return -2; } }
#define VX_OUT(ch, cur) do { __CPROVER_assert((size_t)((cur) - vx_buf) == vx_k, "[C18] the decoder and the S-TOON monitor have consumed the same input"); int vx_r = vx_dec(&vx_k); if (vx_r != (unsigned char)(ch)) vx_bad = true; \
    __CPROVER_assert(!vx_bad, "[C18] every character produced is the S-TOON decoding of the next character or escape sequence of the input"); vx_outs++; } while (0)
#define VX_ERR(cur) do { size_t vx_t = (size_t)((cur) - vx_buf); __CPROVER_assert(vx_t == vx_k, "[C18] the decoder and the monitor agree on the position of the invalid escape"); int vx_r = vx_dec(&vx_t); if (vx_r != -2) vx_bad = true; \
    __CPROVER_assert(!vx_bad, "[C18] invalid_escape_sequence is reported only at a backslash that is followed by none of the five escapes (or by nothing)"); vx_invalid_seen = true; } while (0)
#define VX_STORE(dst, cur) __CPROVER_assert(__CPROVER_same_object((dst), vx_buf) && (size_t)((dst) - vx_buf) < vx_n && (dst) <= (cur), "[C05][C18] the decoded character is stored inside the buffer, at or behind the read position")
struct vx_result { int ec; size_t len; };
/*@FUNC unescape_string@*/
#ifdef VX_CBMC
void h_unescape_string(void)
{
    vx_n = nondet_size();
#ifdef VX_SMALL
    __CPROVER_assume(vx_n <= 6);
#endif
    __CPROVER_assume(vx_n <= 100000000); vx_buf = malloc(vx_n ? vx_n : 1); __CPROVER_assume(vx_buf != 0); vx_k = 0; vx_outs = 0; vx_bad = false; vx_invalid_seen = false;
    struct vx_result r = unescape_string(vx_buf, vx_n); (void)r;
}
#endif
