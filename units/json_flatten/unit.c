/* unit json_flatten: stack-safe destruction (C10).  json_array::flatten_and_destroy (one iteration of its work-list loop), sorted_json_object:: and
 * ordered_json_object::flatten_and_destroy.  A json value is abstracted to what the code looks at: its storage kind and whether it is empty.  The children of
 * the container being taken apart are the ghost arrays vx_ckind / vx_cnonempty (symbolic length vx_nc); std::move(child) into the work list marks it moved
 * (a moved-from basic_json is null: basic_json(basic_json&&) / uninitialized_move, json.hpp -- assumption A-MOVED-NULL).  The property proved with a watched
 * child index vx_k (any child): when the container's own storage is destroyed, no child is a non-empty array or object any more, so the destructors that run
 * there do not recurse into further containers: destruction depth is bounded by a constant, not by the nesting depth of the document. */
#include "vx_common.h"
#include <stdlib.h>
/*@ENUM json_storage_kind@*/
static uint8_t* vx_ckind; static bool* vx_cnonempty; static bool* vx_cmoved; static size_t vx_nc, vx_k;
static size_t vx_data_n, vx_moves; static uint8_t vx_cur_kind; static bool vx_cleared, vx_flat_at_clear;
#define VX_IS_CONTAINER(kind) ((kind) == json_storage_kind_array || (kind) == json_storage_kind_object)
/* child k no longer owns anything that a recursive destructor would descend into */
#define VX_FLAT(k) (!(VX_IS_CONTAINER(vx_ckind[k]) && vx_cnonempty[k]) || vx_cmoved[k])
static void vx_move_out(size_t i) { vx_cmoved[i] = true; vx_moves++; vx_data_n++; }
static void vx_clear_current(void) { vx_cleared = true; vx_flat_at_clear = VX_FLAT(vx_k); }
/*@FUNC array_flatten_step@*/
/*@FUNC sorted_object_flatten@*/
/*@FUNC ordered_object_flatten@*/
#ifdef VX_CBMC
static void setup(void)
{
    vx_nc = nondet_size(); vx_k = nondet_size(); __CPROVER_assume(vx_nc <= 100000000 && vx_k < vx_nc);
    vx_ckind = malloc(vx_nc); vx_cnonempty = malloc(vx_nc * sizeof(bool)); vx_cmoved = malloc(vx_nc * sizeof(bool)); __CPROVER_assume(vx_ckind && vx_cnonempty && vx_cmoved);
    vx_cmoved[vx_k] = false; vx_data_n = nondet_size(); vx_moves = 0; vx_cur_kind = nondet_u8(); vx_cleared = false; vx_flat_at_clear = false;
}
void h_array_flatten_step(void) { setup(); array_flatten_step(); }
void h_sorted_object_flatten(void) { setup(); sorted_object_flatten(); }
void h_ordered_object_flatten(void) { setup(); ordered_object_flatten(); }
#endif
