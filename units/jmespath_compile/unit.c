/* unit jmespath_compile: one state of jmespath_evaluator::compile */
#include "vx_common.h"
/*@ENUM jmespath_errc@*/
/*@ENUM expr_state@*/
static char vx_c; static size_t vx_p, vx_p0, vx_column; static unsigned vx_pushes, vx_pops, vx_tokens; static int vx_pushed_state; static bool vx_returned;
static void vx_advance_space(void) { vx_p++; vx_column++; }     /* advance_past_space_character(): consumes the white-space character (and counts lines) */
static void vx_push_token(int* ec_p) { vx_tokens++; if (nondet_bool()) { int e = nondet_int(); __CPROVER_assume(e != 0); *ec_p = e; } }
static size_t vx_stack_size, vx_stack_size0;
static void vx_stack_push(int s) { vx_pushes++; vx_pushed_state = s; vx_stack_size++; }
static void vx_stack_pop(void) { __CPROVER_assert(vx_stack_size >= 1, "[C05] pop_back on a non-empty state stack"); vx_pops++; vx_stack_size--; }
/*@FUNC function_expression_step@*/
static int vx_back_set;
/*@FUNC rhs_expression_step@*/
/*@FUNC multi_select_hash_step@*/
#ifdef VX_CBMC
static void setup_stack(void) { vx_stack_size = nondet_size(); __CPROVER_assume(vx_stack_size >= 1 && vx_stack_size <= SIZE_MAX / 2); vx_stack_size0 = vx_stack_size; }
void h_multi_select_hash_step(void) { setup_stack(); vx_c = (char)nondet_u8(); vx_p = nondet_size(); vx_column = nondet_size(); __CPROVER_assume(vx_p <= SIZE_MAX / 2 && vx_column <= SIZE_MAX / 2); vx_p0 = vx_p; vx_pushes = 0; vx_pops = 0; vx_returned = false; int ec = 0; multi_select_hash_step(&ec); }
void h_rhs_expression_step(void) { setup_stack(); vx_c = (char)nondet_u8(); vx_p = nondet_size(); vx_column = nondet_size(); __CPROVER_assume(vx_p <= SIZE_MAX / 2 && vx_column <= SIZE_MAX / 2); vx_p0 = vx_p; vx_pushes = 0; vx_pops = 0; vx_tokens = 0; vx_returned = false; int ec = 0; rhs_expression_step(&ec); }
void h_function_expression_step(void) { setup_stack(); vx_c = (char)nondet_u8(); vx_p = nondet_size(); vx_column = nondet_size(); __CPROVER_assume(vx_p <= SIZE_MAX / 2 && vx_column <= SIZE_MAX / 2); vx_p0 = vx_p; vx_pushes = 0; vx_pops = 0; vx_tokens = 0; vx_returned = false; int ec = 0; function_expression_step(&ec); }
#endif
