/* unit json_literals: parse_true / parse_false / parse_null (fast path and suspension) and skip_space of basic_json_parser */
#include "vx_common.h"
#include "model_stack.h"
#include <stdlib.h>
/*@ENUM parse_state@*/
/*@ENUM json_errc@*/
struct json_parser { int level_; bool more_, cursor_mode_; uint8_t state_; const char* input_end_; const char* input_ptr_; size_t position_, begin_position_, line_, mark_position_; };
static char* vx_buf; static size_t vx_n, vx_off;
enum { VX_EV_NONE = 0, VX_EV_TRUE, VX_EV_FALSE, VX_EV_NULL };
static unsigned vx_events; static int vx_ev_kind; static bool vx_visitor_fails;
static void vx_event(int k, int* ec_p) { vx_events++; vx_ev_kind = k; if (vx_visitor_fails) { int e = nondet_int(); __CPROVER_assume(e != 0); *ec_p = e; } }
static bool vx_lenient, vx_err_called; static int vx_err_code;
static bool vx_err_handler(int code) { vx_err_called = true; vx_err_code = code; bool r = nondet_bool(); __CPROVER_assume(!r || vx_lenient); return r; }
static bool vx_lit_matches(const char* lit, size_t len) { /* the len characters at vx_off spell the literal (len <= 5, loop-free) */
    bool ok = vx_n - vx_off >= len;
    if (ok && len > 0) ok = vx_buf[vx_off] == lit[0];
    if (ok && len > 1) ok = vx_buf[vx_off + 1] == lit[1];
    if (ok && len > 2) ok = vx_buf[vx_off + 2] == lit[2];
    if (ok && len > 3) ok = vx_buf[vx_off + 3] == lit[3];
    if (ok && len > 4) ok = vx_buf[vx_off + 4] == lit[4];
    return ok;
}
/*@FUNC parse_true@*/
/*@FUNC parse_false@*/
/*@FUNC parse_null@*/
/* skip_space: ghost line-break monitor (RFC 8259 ws = *( %x20 / %x09 / %x0A / %x0D )); a line break is LF, CR or CR LF */
static size_t vx_w; static unsigned vx_state_pushes; static uint8_t vx_pushed_state;
static void vx_push_state(uint8_t s) { vx_state_pushes++; vx_pushed_state = s; }
#define vx_is_ws(c) ((c) == ' ' || (c) == '\t' || (c) == '\n' || (c) == '\r')
/*@FUNC skip_space@*/
static bool vx_other_state;
/*@FUNC literal_step@*/
#ifdef VX_CBMC
static struct json_parser vx_p; static int vx_ec;
static void setup(void)
{
    vx_n = nondet_size(); vx_off = nondet_size();
#ifdef VX_SMALL
    __CPROVER_assume(vx_n <= 10);
#endif
    __CPROVER_assume(vx_off <= vx_n && vx_n <= 100000000);
    vx_buf = malloc(vx_n ? vx_n : 1); __CPROVER_assume(vx_buf != 0);
    vx_p.level_ = nondet_int(); vx_p.more_ = true; vx_p.cursor_mode_ = nondet_bool(); vx_p.state_ = nondet_u8(); vx_p.input_end_ = vx_buf + vx_n; vx_p.input_ptr_ = vx_buf + vx_off;
    vx_p.position_ = nondet_size(); vx_p.line_ = nondet_size(); vx_p.mark_position_ = nondet_size(); vx_p.begin_position_ = nondet_size();
    vx_events = 0; vx_ev_kind = VX_EV_NONE; vx_visitor_fails = nondet_bool(); vx_lenient = false; vx_err_called = false; vx_ec = 0; vx_state_pushes = 0; vx_w = nondet_size();
}
void h_parse_true(void) { setup(); parse_true(&vx_p, vx_buf + vx_off, &vx_ec); }
void h_parse_false(void) { setup(); parse_false(&vx_p, vx_buf + vx_off, &vx_ec); }
void h_parse_null(void) { setup(); parse_null(&vx_p, &vx_ec); }
void h_literal_step(void) { setup(); __CPROVER_assume(vx_off < vx_n); vx_other_state = false; literal_step(&vx_p, &vx_ec); }
void h_skip_space(void) { setup(); const char* p = vx_buf + vx_off; skip_space(&vx_p, &p); }
#endif
