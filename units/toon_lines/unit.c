/* unit toon_lines: read_lines of toon_reader.hpp, as a step function over its bookkeeping variables (which are ghost globals here) */
#include "vx_common.h"
/*@ENUM toon_errc@*/
static size_t vx_i, vx_indent, vx_indent_chars, vx_start, vx_trailing, vx_line_num, vx_raw_size, vx_indent_size, vx_opt_indent, vx_push_off, vx_push_len; static bool vx_blank, vx_strict, vx_stepped; static char vx_c; static int vx_phase, vx_error; static unsigned vx_pushes;
static void vx_push_line(size_t off, size_t len) { vx_pushes++; vx_push_off = off; vx_push_len = len; }
/*@FUNC read_lines_step@*/
#ifdef VX_CBMC
void h_read_lines_step(void)
{
    vx_i = nondet_size(); vx_indent = nondet_size(); vx_indent_chars = nondet_size(); vx_start = nondet_size(); vx_trailing = nondet_size(); vx_line_num = nondet_size(); vx_raw_size = nondet_size(); vx_opt_indent = nondet_size(); vx_indent_size = 0;
    vx_blank = nondet_bool(); vx_strict = nondet_bool(); vx_c = (char)nondet_u8(); vx_phase = nondet_bool() ? 1 : 0; vx_pushes = 0; vx_error = 0; vx_stepped = false;
    read_lines_step();
}
#endif
