# U-CBOR-CHUNKS (C07): indefinite-length strings
from core import FuncSpec, CopySpec, EnumSpec, Harness
P = 'include/jsoncons_ext/cbor/cbor_parser.hpp'
D = 'include/jsoncons_ext/cbor/cbor_detail.hpp'
AL = {'more_': '(self->more_)', 'ec': '(*ec_p)'}
NS = r'jsoncons::cbor::detail::'
RS = [
    ('requires', '*ec_p == 0'), ('assigns', '*ec_p, self->more_'),
    ('ensures', '[C07][C05] a length is the 64-bit argument of the head; it is delivered unchanged (size_t is 64 bits wide here), an error of the head is passed on', '(*ec_p == 0) || __CPROVER_return_value == 0 || *ec_p == cbor_errc_number_too_large'),
]
LOOP = '''__CPROVER_assigns(done, *ec_p, more_, vx_mon, vx_mon_bad, vx_cur, vx_len, vx_vsize, vx_off, vx_chunks, vx_want_ec)
  __CPROVER_loop_invariant(!vx_mon_bad && *ec_p == 0 && vx_want_ec == 0 && (done ? vx_mon == M_END : vx_mon == M_PEEK))'''
CH = [
    ('requires', '*ec_p == 0 && vx_mon == M_PEEK && !vx_mon_bad && vx_want_ec == 0 && vx_chunks == 0 && (type == cbor_major_type_byte_string || type == cbor_major_type_text_string) && vx_type == type'),
    ('assigns', '*ec_p, self->more_, vx_mon, vx_mon_bad, vx_cur, vx_len, vx_vsize, vx_off, vx_chunks, vx_want_ec'),
    ('ensures', '[C07] the items between the indicator and the break are read in the order head, length, payload (, UTF-8 check of exactly the bytes of that chunk); a chunk is only read if it is a definite-length string of the same major type', '!vx_mon_bad'),
    ('ensures', '[C07] success means: every chunk was delivered completely (and, for text, was valid UTF-8 on its own) and the break stop code was seen and consumed', '*ec_p == 0 ==> (vx_mon == M_END && vx_want_ec == 0)'),
    ('ensures', '[C07] end of input is unexpected_eof, a chunk of another major type or of indefinite length is illegal_chunked_string, a truncated chunk is unexpected_eof, invalid UTF-8 in a text chunk is invalid_utf8_text_string', '*ec_p != 0 ==> *ec_p == vx_want_ec'),
]
SPECS = [
    EnumSpec('cbor_errc', 'include/jsoncons_ext/cbor/cbor_error.hpp'), EnumSpec('cbor_major_type', D),
    FuncSpec('get_additional_information_value', P, r'static uint8_t get_additional_information_value\(uint8_t type\)', csig='static uint8_t get_additional_information_value(uint8_t type)'),
    FuncSpec('get_major_type', P, r'static jsoncons::cbor::detail::cbor_major_type get_major_type\(uint8_t type\)', csig='static uint8_t get_major_type(uint8_t type)',
             rules=[(r'static_cast<jsoncons::cbor::detail::cbor_major_type>\(value\)', '(uint8_t)(value)', 1)]),
    FuncSpec('read_size', P, r'std::size_t read_size\(std::error_code& ec\)', count=1, csig='size_t read_size(struct cbor_parser* self, int* ec_p)', contract=RS, aliases=AL,
             rules=[(r'read_uint64\(ec\)', 'vx_read_uint64(ec_p)', 1), (r'cbor_errc::(\w+)', r'cbor_errc_\1', 1)]),
    FuncSpec('iterate_string_chunks', P, r'void iterate_string_chunks\(Container& v, jsoncons::cbor::detail::cbor_major_type type, std::error_code& ec\)', count=1,
             csig='void iterate_string_chunks(struct cbor_parser* self, uint8_t type, int* ec_p)', contract=CH, aliases=AL, loops={0: LOOP, 'count': 1},
             rules=[(r'auto c = source_\.peek\(\);', 'struct vx_peek_result c = vx_peek();', 1), (r'source_\.ignore\(1\);', 'vx_ignore(1);', 1), (r'cbor_errc::(\w+)', r'cbor_errc_\1', 4, 8),
                    (NS + r'cbor_major_type major_type = ', 'uint8_t major_type = ', 1),
                    (NS + r'additional_info::indefinite_length', '0x1f /* additional_info::indefinite_length, pinned by a site check */', 1), (NS + r'cbor_major_type::(\w+)', r'cbor_major_type_\1', 1),
                    (r'std::size_t length = read_size\(ec\);', 'size_t length = vx_read_size(self, ec_p);', 1), (r'const std::size_t offset = v\.size\(\);', 'const size_t offset = vx_vsize;', 1),
                    (r'source_reader<Source>::read\(source_, v, length\)', 'vx_read_payload(length)', 1),
                    (r'auto result = unicode_traits::validate\(\s*reinterpret_cast<const char\*>\(v\.data\(\)\) \+ offset, length\);\s*if \(result\.ec != unicode_traits::unicode_errc\(\)\)', 'if (!vx_validate(offset, length))', 1)]),
]
SITE_CHECKS = [
    {'file': D, 'pattern': r'JSONCONS_INLINE_CONSTEXPR uint8_t indefinite_length = 0x1f;', 'count': 1, 'props': ['C07'], 'what': 'additional_info::indefinite_length is 31 (the constant is written into the extracted text by a rule)'},
]
HARNESSES = [
    Harness('read_size', 'h_read_size', enforce='read_size', method='LF', props=['C07', 'C05']),
    Harness('iterate_string_chunks', 'h_iterate_string_chunks', enforce='iterate_string_chunks', loop_contracts=True, method='LC', props=['C07', 'C05'], expect_classes={'loop_invariant_step': 1},
            note='read_size is inlined (its body is the extracted one); termination of the loop depends on the input containing a break and is not proved'),
]
