/* unit storage_kinds (C09, C05): the storage-kind dispatch of basic_json.  A basic_json is a 16-byte tagged union; four kinds own heap memory (long_str,
 * byte_str, array, object), two are references to another value, the rest are self-contained.  Copying or swapping the bytes (memcpy) is right exactly for the
 * kinds that own nothing; every other kind must go through its own deep copy / typed swap, or two values end up owning the same heap block.
 * Under contract: the two bit-mask predicates of json_type.hpp over all 256 byte values, the dispatch of uninitialized_copy, swap and swap_l. */
#include "vx_common.h"
/*@ENUM json_storage_kind@*/
/* storage type names -> the kind they hold */
enum { ST_null_storage = json_storage_kind_null, ST_empty_object_storage = json_storage_kind_empty_object, ST_bool_storage = json_storage_kind_boolean, ST_int64_storage = json_storage_kind_int64,
       ST_uint64_storage = json_storage_kind_uint64, ST_half_storage = json_storage_kind_half_float, ST_double_storage = json_storage_kind_float64, ST_short_string_storage = json_storage_kind_short_str,
       ST_long_string_storage = json_storage_kind_long_str, ST_byte_string_storage = json_storage_kind_byte_str, ST_array_storage = json_storage_kind_array, ST_object_storage = json_storage_kind_object,
       ST_const_json_ref_storage = json_storage_kind_const_json_ref, ST_json_ref_storage = json_storage_kind_json_ref };
#define VX_OWNS_HEAP(k) ((k) == json_storage_kind_long_str || (k) == json_storage_kind_byte_str || (k) == json_storage_kind_array || (k) == json_storage_kind_object)
#define VX_IS_REF(k) ((k) == json_storage_kind_const_json_ref || (k) == json_storage_kind_json_ref)
#define VX_LEGAL(k) ((k) <= 9 || ((k) >= 12 && (k) <= 15))
/*@FUNC is_primitive_storage@*/
/*@FUNC is_trivial_storage@*/
static uint8_t vx_this_kind, vx_other_kind; static bool vx_same_object;
static unsigned vx_memcpys, vx_deep, vx_follow_ref, vx_typed; static int vx_deep_kind, vx_typed_l, vx_typed_r;
/*@FUNC uninitialized_copy@*/
/*@FUNC swap@*/
/*@FUNC swap_l@*/
#ifdef VX_CBMC
static void setup(void) { vx_this_kind = nondet_u8(); vx_other_kind = nondet_u8(); vx_same_object = nondet_bool(); vx_memcpys = 0; vx_deep = 0; vx_follow_ref = 0; vx_typed = 0; }
void h_is_primitive_storage(void) { bool r = is_primitive_storage(nondet_u8()); (void)r; }
void h_is_trivial_storage(void) { bool r = is_trivial_storage(nondet_u8()); (void)r; }
void h_uninitialized_copy(void) { setup(); uninitialized_copy(); }
void h_swap(void) { setup(); swap(); }
void h_swap_l(void) { setup(); swap_l(nondet_int()); }
#endif
