// replay for unit msgpack_read: decodes documents with the real MessagePack decoder and with an independent reading of the MessagePack specification
// (format table) for every type byte: scalars, strings, binaries and containers of the boundary sizes; truncated items must be rejected
#include <jsoncons/json.hpp>
#include <jsoncons_ext/msgpack/msgpack.hpp>
#include "replay_util.hpp"
#include <cstring>
using namespace jsoncons;
typedef std::vector<uint8_t> bytes_t;
static int bad = 0;
static std::string hex(const bytes_t& b) { std::string s; char t[4]; for (size_t i = 0; i < b.size() && i < 24; ++i) { snprintf(t, sizeof t, "%02x", b[i]); s += t; } if (b.size() > 24) s += ".."; return s; }
// independent reference decoder (MessagePack spec, "Formats"): returns false when the bytes are not one complete well-formed item
static bool ref(const bytes_t& b, size_t& p, json& out, int depth = 0)
{
    if (p >= b.size() || depth > 8) return false;
    uint8_t t = b[p++];
    auto be = [&](int n, uint64_t& v) { if (p + n > b.size()) return false; v = 0; for (int i = 0; i < n; ++i) v = (v << 8) | b[p++]; return true; };
    auto str = [&](uint64_t n) { if (p + n > b.size()) return false; out = json(std::string((const char*)&b[p], (size_t)n)); p += (size_t)n; return true; };
    auto bin = [&](uint64_t n) { if (p + n > b.size()) return false; out = json(byte_string_arg, bytes_t(b.begin() + p, b.begin() + p + (size_t)n)); p += (size_t)n; return true; };
    auto arr = [&](uint64_t n) { out = json(json_array_arg); for (uint64_t i = 0; i < n; ++i) { json e; if (!ref(b, p, e, depth + 1)) return false; out.push_back(e); } return true; };
    auto map = [&](uint64_t n) { out = json(json_object_arg); for (uint64_t i = 0; i < n; ++i) { json k, v; if (!ref(b, p, k, depth + 1) || !k.is_string() || !ref(b, p, v, depth + 1)) return false; out.try_emplace(k.as<std::string>(), v); } return true; };
    uint64_t v;
    if (t <= 0x7f) { out = json((uint64_t)t); return true; }
    if (t <= 0x8f) return map(t & 0x0f);
    if (t <= 0x9f) return arr(t & 0x0f);
    if (t <= 0xbf) return str(t & 0x1f);
    if (t >= 0xe0) { out = json((int64_t)(int8_t)t); return true; }
    switch (t) {
    case 0xc0: out = json::null(); return true; case 0xc2: out = json(false); return true; case 0xc3: out = json(true); return true;
    case 0xc4: return be(1, v) && bin(v); case 0xc5: return be(2, v) && bin(v); case 0xc6: return be(4, v) && bin(v);
    case 0xca: { if (!be(4, v)) return false; uint32_t u = (uint32_t)v; float f; std::memcpy(&f, &u, 4); out = json((double)f); return true; }
    case 0xcb: { if (!be(8, v)) return false; double d; std::memcpy(&d, &v, 8); out = json(d); return true; }
    case 0xcc: if (!be(1, v)) return false; out = json(v); return true; case 0xcd: if (!be(2, v)) return false; out = json(v); return true;
    case 0xce: if (!be(4, v)) return false; out = json(v); return true; case 0xcf: if (!be(8, v)) return false; out = json(v); return true;
    case 0xd0: if (!be(1, v)) return false; out = json((int64_t)(int8_t)v); return true; case 0xd1: if (!be(2, v)) return false; out = json((int64_t)(int16_t)v); return true;
    case 0xd2: if (!be(4, v)) return false; out = json((int64_t)(int32_t)v); return true; case 0xd3: if (!be(8, v)) return false; out = json((int64_t)v); return true;
    case 0xd9: return be(1, v) && str(v); case 0xda: return be(2, v) && str(v); case 0xdb: return be(4, v) && str(v);
    case 0xdc: return be(2, v) && arr(v); case 0xdd: return be(4, v) && arr(v); case 0xde: return be(2, v) && map(v); case 0xdf: return be(4, v) && map(v);
    default: return false;   /* 0xc1 never used; ext family 0xc7-0xc9, 0xd4-0xd8 not compared here */
    }
}
static bool is_ext(uint8_t t) { return (t >= 0xc7 && t <= 0xc9) || (t >= 0xd4 && t <= 0xd8); }
static void one(const bytes_t& doc)
{
    size_t p = 0; json want; bool wf = ref(doc, p, want) && p == doc.size();
    try {
        std::error_code ec; json_decoder<json> dec; msgpack::msgpack_bytes_reader rd(doc, dec); rd.read(ec);
        if (!ec && wf) { json got = dec.get_result(); if (got != want && got.to_string() != want.to_string()) { std::cout << hex(doc) << ": decoded " << got.to_string().substr(0, 80) << ", the specification says " << want.to_string().substr(0, 80) << "\n"; ++bad; } }
        else if (ec && wf) { std::cout << hex(doc) << ": well-formed item rejected: " << ec.message() << "\n"; ++bad; }
        else if (!ec && !wf && !doc.empty() && !is_ext(doc[0])) { std::cout << hex(doc) << ": ill-formed or truncated item accepted as " << dec.get_result().to_string().substr(0, 60) << "\n"; ++bad; }
    } catch (const json_exception&) { if (wf) { std::cout << hex(doc) << ": well-formed item raised an exception\n"; ++bad; } }
    catch (const std::exception& e) { std::cout << hex(doc) << ": foreign exception " << e.what() << "\n"; ++bad; }
}
static void item(bytes_t& d, int k) { if (k % 3 == 0) d.push_back((uint8_t)(k & 0x7f)); else if (k % 3 == 1) { d.push_back(0xa1); d.push_back((uint8_t)('a' + k % 26)); } else { d.push_back(0xc3); } }
static void key(bytes_t& d, int k) { d.push_back(0xa3); d.push_back('k'); d.push_back((uint8_t)('a' + (k / 26) % 26)); d.push_back((uint8_t)('a' + k % 26)); }
int main(int argc, char** argv)
{
    if (argc < 3) return 2;
    vx_replay_inputs in; if (!in.load(argv[2])) return 2;
    if (in.has("vx_src_n")) { size_t n = (size_t)in.u64("vx_src_n"), p = (size_t)in.u64("vx_src_pos"); if (n <= 48 && p <= n) { bytes_t b; for (size_t i = p; i < n; ++i) b.push_back((uint8_t)in.u64("vx_src[" + std::to_string(i) + "]")); if (!b.empty()) one(b); } }
    // scalars: every type byte with arguments of all-zero / all-ones / counting bytes, complete and truncated
    for (unsigned t = 0; t < 256; ++t) {
        if ((t >= 0x80 && t <= 0xbf) || (t >= 0xd9 && t <= 0xdf) || (t >= 0xc4 && t <= 0xc6) || is_ext((uint8_t)t)) continue;
        size_t n = (t == 0xcc || t == 0xd0) ? 1 : (t == 0xcd || t == 0xd1) ? 2 : (t == 0xce || t == 0xd2 || t == 0xca) ? 4 : (t == 0xcf || t == 0xd3 || t == 0xcb) ? 8 : 0;
        for (int fill : {0x00, 0xff, 0x80, 0x01}) for (size_t len = 0; len <= n; ++len) { bytes_t b = {(uint8_t)t}; for (size_t k = 0; k < len; ++k) b.push_back((uint8_t)(fill == 1 ? k + 1 : fill)); one(b); }
    }
    // str / bin / array / map of the boundary sizes in every header width
    for (size_t n : {0u, 1u, 15u, 16u, 31u, 32u, 255u, 256u, 300u}) {
        for (int w = 0; w < 4; ++w) {   // str: fixstr, str8, str16, str32
            bytes_t d; if (w == 0) { if (n > 31) continue; d.push_back((uint8_t)(0xa0 | n)); } else if (w == 1) { if (n > 255) continue; d = {0xd9, (uint8_t)n}; } else if (w == 2) d = {0xda, (uint8_t)(n >> 8), (uint8_t)n}; else d = {0xdb, 0, 0, (uint8_t)(n >> 8), (uint8_t)n};
            for (size_t i = 0; i < n; ++i) d.push_back((uint8_t)('a' + i % 26)); one(d); if (n) { d.pop_back(); one(d); }
        }
        for (int w = 1; w < 4; ++w) { bytes_t d; if (w == 1) { if (n > 255) continue; d = {0xc4, (uint8_t)n}; } else if (w == 2) d = {0xc5, (uint8_t)(n >> 8), (uint8_t)n}; else d = {0xc6, 0, 0, (uint8_t)(n >> 8), (uint8_t)n}; for (size_t i = 0; i < n; ++i) d.push_back((uint8_t)i); one(d); }
        for (int w = 0; w < 3; ++w) {   // array / map: fix, 16, 32
            if (w == 0 && n > 15) continue;
            bytes_t a, m;
            if (w == 0) { a.push_back((uint8_t)(0x90 | n)); m.push_back((uint8_t)(0x80 | n)); } else if (w == 1) { a = {0xdc, (uint8_t)(n >> 8), (uint8_t)n}; m = {0xde, (uint8_t)(n >> 8), (uint8_t)n}; } else { a = {0xdd, 0, 0, (uint8_t)(n >> 8), (uint8_t)n}; m = {0xdf, 0, 0, (uint8_t)(n >> 8), (uint8_t)n}; }
            for (size_t i = 0; i < n; ++i) { item(a, (int)i); key(m, (int)i); item(m, (int)i); }
            one(a); one(m); if (n) { a.pop_back(); one(a); m.pop_back(); one(m); }
        }
    }
    if (bad) VX_REPRO(bad << " MessagePack documents are decoded differently from the specification (see above)");
    VX_NOREPRO("every type byte, width and boundary size decodes as the MessagePack specification prescribes; truncated items are rejected");
}
