#!/usr/bin/env python3
# vacuity audit (debugging / evaluation aid, not part of any registered check): for every harness, ask cbmc which source lines of the extracted functions
# (files under include/) cannot be reached under the harness's preconditions; unreachable code in a function under contract means that its obligations
# hold vacuously there.  Usage: cover.py [unit ...]   (skips harnesses whose last solver time exceeded VX_COVER_MAX seconds, default 60)
import sys, os, json, re, subprocess
sys.path.insert(0, os.path.dirname(os.path.abspath(__file__)))
import units, core
from concurrent.futures import ThreadPoolExecutor
sel = sys.argv[1:]
costs = json.load(open(os.path.join(core.VERIF, 'vx', 'costs.json')))
MAXC = float(os.environ.get('VX_COVER_MAX', '60'))
jobs = []
for un in units.all_units():
    if sel and un not in sel: continue
    mod = units.load_unit(un)
    for h in mod.HARNESSES:
        if costs.get('%s/%s' % (un, h.name), 1) > MAXC or not h.dfcc: continue
        jobs.append((un, h))
def one(j):
    un, h = j
    gb = os.path.join(core.OUT, 'units', un, h.name + '.i.gb')
    if not os.path.exists(gb): return un, h.name, None, 'no binary'
    cmd = ['cbmc', '--cover', 'location', '--json-ui'] + (['--unwind', str(h.unwind)] if h.unwind else []) + [gb]
    try:
        p = subprocess.run(cmd, capture_output=True, text=True, timeout=900)
        data = json.loads(p.stdout)
    except Exception as e:
        return un, h.name, None, 'error %r' % e
    dead = {}
    for item in data:
        for g in item.get('goals', []):
            sl = g.get('sourceLocation', {})
            f = sl.get('file', '')
            if f.startswith('include/') and g.get('status') != 'satisfied' and sl.get('function') == (h.enforce or ''):
                dead.setdefault(f, set()).add(int(sl.get('line', 0)))
    return un, h.name, dead, ''
with ThreadPoolExecutor(12) as ex:
    for un, hn, dead, msg in ex.map(one, jobs):
        if dead is None: print('%-45s %s' % (un + '/' + hn, msg)); continue
        if dead:
            print('%-45s UNREACHED %s' % (un + '/' + hn, '; '.join('%s:%s' % (f.split('/')[-1], ','.join([str(x) for x in sorted(l)][:40])) for f, l in dead.items())), flush=True)
