/* unit bson_read: bson_parser::read_value (element values), read_string, begin_document, end_document: little-endian scalars and the accounting of
 * consumed bytes against the declared document length (bsonspec.org, "document ::= int32 e_list 0x00: the int32 is the total number of bytes") */
#define VX_SRC_CAP 48
#include "vx_common.h"
#include "model_source.h"
#include "model_stack.h"
/*@ENUM bson_errc@*/
/*@ENUM semantic_tag@*/
/*@ENUM parse_mode@*/
/*@COPY bson_types@*/
/*@GROUP binary@*/
struct bson_parser { bool more_; bool cursor_mode_; int max_nesting_depth_; int mark_level_; };
enum { VX_EV_NONE = 0, VX_EV_UINT64, VX_EV_INT64, VX_EV_DOUBLE, VX_EV_NULL, VX_EV_BOOL, VX_EV_STRING, VX_EV_BYTES, VX_EV_BEGIN_OBJECT, VX_EV_END_OBJECT };
static unsigned vx_events; static int vx_ev_kind, vx_ev_tag; static uint64_t vx_ev_u; static int64_t vx_ev_i; static double vx_ev_d; static bool vx_ev_b; static uint64_t vx_ev_len;
static void vx_ev(int k, int tag) { vx_events++; vx_ev_kind = k; vx_ev_tag = tag; }
static uint64_t vx_span_avail; static bool vx_utf8_ok;
static size_t vx_source_read_span(size_t len) { return len <= vx_span_avail ? len : (size_t)vx_span_avail; }
static unsigned vx_doc_calls, vx_arr_calls, vx_cstr_calls; static int vx_level;
static void vx_fail_maybe(struct bson_parser* self, int* ec_p) { if (nondet_bool()) { int e = nondet_int(); __CPROVER_assume(e != 0); *ec_p = e; self->more_ = false; } }
static void vx_begin_document(struct bson_parser* self, int* ec_p) { vx_doc_calls++; vx_fail_maybe(self, ec_p); }
static void vx_begin_array(struct bson_parser* self, int* ec_p) { vx_arr_calls++; vx_fail_maybe(self, ec_p); }
static void vx_read_cstring(struct bson_parser* self, int* ec_p) { vx_cstr_calls++; size_t k = nondet_size(); __CPROVER_assume(k <= vx_src_n - vx_src_pos && k <= 1000); vx_src_pos += k; vx_top.index_ += k; vx_fail_maybe(self, ec_p); }
static uint64_t vx_bits64(double d) { union { double d; uint64_t u; } x; x.d = d; return x.u; }
static uint64_t vx_src_le(size_t i, int n) { uint64_t v = 0; if (i + (size_t)n <= VX_SRC_CAP) { if (n >= 8) { v = vx_src[i + 7]; v = (v << 8) | vx_src[i + 6]; v = (v << 8) | vx_src[i + 5]; v = (v << 8) | vx_src[i + 4]; } if (n >= 4) { v = (v << 8) | vx_src[i + 3]; v = (v << 8) | vx_src[i + 2]; } if (n >= 2) v = (v << 8) | vx_src[i + 1]; v = (v << 8) | vx_src[i]; } return v; }
static size_t vx_revealed_pos; static unsigned vx_str_calls;
#define VX_BSON_POP() do { VX_STACK_POP(); vx_top.index_ = nondet_size(); __CPROVER_assume(vx_top.index_ <= SIZE_MAX / 4); vx_revealed_pos = vx_top.index_; } while (0)
struct vx_sv { size_t size; };
/*@FUNC read_string@*/
/*@FUNC read_value@*/
/*@FUNC begin_document@*/
/*@FUNC end_document@*/
#ifdef VX_CBMC
static struct bson_parser vx_p; static int vx_ec;
static void setup(void)
{
    __CPROVER_havoc_object(vx_src);
    vx_src_n = nondet_size(); vx_src_pos = nondet_size();
    __CPROVER_assume(vx_src_n <= VX_SRC_CAP - 16 && vx_src_pos <= vx_src_n);
    vx_p.more_ = true; vx_p.cursor_mode_ = nondet_bool(); vx_p.max_nesting_depth_ = nondet_int(); vx_p.mark_level_ = nondet_int(); vx_level = nondet_int();
    vx_events = 0; vx_ev_kind = VX_EV_NONE; vx_ec = 0; vx_span_avail = nondet_u64(); vx_utf8_ok = nondet_bool(); vx_doc_calls = 0; vx_arr_calls = 0; vx_cstr_calls = 0; vx_str_calls = 0;
    vx_depth = nondet_size(); vx_top.type_ = nondet_int(); vx_top.length_ = nondet_size(); vx_top.index_ = nondet_size(); vx_pushes = 0; vx_pops = 0;
}
void h_read_string(void) { setup(); read_string(&vx_p, &vx_ec); }
void h_read_value(void) { setup(); read_value(&vx_p, nondet_u8(), &vx_ec); }
void h_begin_document(void) { setup(); begin_document(&vx_p, &vx_ec); }
void h_end_document(void) { setup(); end_document(&vx_p, &vx_ec); }
#endif
